---------------------------------------- MODULE DbHistory_trace ----------------------------------------
(* code -> spec: every recorded history of operations on a real armi reactor + Database must be a behaviour of
   DbHistory, event by event.  An event is {"a": <action record as DbHistory writes it into `act`>, "err": kind,
   "res": <result of a load>, "post": {<some fields of Obs>: what the real objects show after the call}}.
   The driver logs a (seeded) selection of the observation fields with every event; every logged field must equal
   the specification's value.  Cycle / node numbers go up to 99 (the naming scheme), more objects, positions and
   snapshots than the exhaustive configurations. *)
EXTENDS DbHistory, IOUtils, TLCExt
Traces == ndJsonDeserialize(IOEnv.TRACE_FILE)
NT     == Len(Traces)
TraceLabels == <<"", " sp", "-special", ".v2", "EOL", "error", "x">>
VARIABLES tid, l
ASSUME \A t \in 1..NT : TLCSet(t, 0)
TInit == Init /\ tid \in 1..NT /\ l = 1
Ev == Traces[tid].ev[l]
a  == Ev.a
Step ==
    \/ a.n = "Assign" /\ Assign(a.o, a.p, a.v)
    \/ a.n = "Move" /\ Move(a.o, a.l)
    \/ a.n = "Birth" /\ Birth(a.o, a.l)
    \/ a.n = "Advance" /\ Advance(a.c, a.t)
    \/ a.n = "Write" /\ (Write(a.l) \/ WriteRefused(a.l))
    \/ a.n = "Load" /\ Load(a.c, a.t, a.l, a.via)
    \/ a.n = "Rotate" /\ Rotate(a.ok)
    \/ a.n = "Merge" /\ Merge(a.c, a.t)
    \/ a.n = "Split" /\ Split(a.k)
    \/ a.n = "Close" /\ Close(a.ok, a.via)
Got == [post |-> Ev.post, err |-> Ev.err, res |-> Ev.res]
\* fields the driver logged that the specification does not know (an escaped exception) can never match
Want == [post |-> [k \in (DOMAIN Ev.post) \cap ObsKeys |-> ObsField(k)'], err |-> err', res |-> ResView']
ObsMatch == \/ Want = Got
            \/ /\ Want # Got
               /\ PrintT(ToJson([mismatch |-> Traces[tid].id, at |-> l, expected |-> Want]))
               /\ FALSE
TNext == /\ l <= Len(Traces[tid].ev) /\ l' = l + 1 /\ tid' = tid
         /\ Step
         /\ ObsMatch
TSpec == TInit /\ [][TNext]_<<vars, act, err, res, tid, l>>
Progress == IF TLCGet(tid) < l THEN TLCSet(tid, l) ELSE TRUE
Report == LET bad == {t \in 1..NT : TLCGet(t) # Len(Traces[t].ev) + 1} IN
          /\ \A t \in bad : PrintT(ToJson([rejected |-> Traces[t].id, matched |-> TLCGet(t) - 1]))
          /\ PrintT(ToJson([accepted |-> NT - Cardinality(bad), of |-> NT]))
=====================================================================================================
