\* exhaustive (thorough): 2 objects (one of them appears later) on 2 positions, 1 parameter x {unset,1}, 2 cycles x 2 nodes, labels "" < "EOL", <= 3 snapshots, depth 7
CONSTANTS NObj = 2  NInit = 1  NLoc = 2  NPar = 1  NVal = 1  MaxC = 1  MaxN = 1  MaxSnaps = 3  MaxLevel = 7
CONSTANT Labels <- McLabelsB
INIT Init
NEXT Next
CONSTRAINT Bound
VIEW View
INVARIANT TypeOK
INVARIANT Isolation
INVARIANT Chronological
INVARIANT HistoryCorrect
INVARIANT HistoryByLocationCorrect
INVARIANT SuccessMark
PROPERTY RefusalsChangeNothing
PROPERTY WriteAddsExactlyOne
PROPERTY OnlyDbStepsTouchFiles
PROPERTY MergeCopiesExactly
PROPERTY SplitCopiesExactly
CHECK_DEADLOCK FALSE
