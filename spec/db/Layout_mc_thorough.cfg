\* exhaustive (thorough): all trees of <= 4 nodes; one composite class + components; five grid choices (two spellings of one grid); 2 cells
CONSTANTS MaxNodes = 4  CompTypes = {"A"}  Grids = {"none", "g1", "g1b", "ax", "g0"}  NCells = 2  MaxLevel = 9
INIT Init
NEXT Next
CONSTRAINT Bound
CONSTRAINT Prune
INVARIANT TypeOK
INVARIANT RoundTrip
INVARIANT FileIsSorted
INVARIANT ResaveSame
INVARIANT CanonIdem
INVARIANT ClauseWise
INVARIANT FileConsistent
INVARIANT IndexBijection
INVARIANT GridDedup
INVARIANT AncestorsAreParents
INVARIANT RowsAccounted
CHECK_DEADLOCK FALSE
