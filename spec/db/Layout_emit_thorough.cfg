\* emission (thorough): every tree of <= 4 nodes over one composite class, grids none/g1/g1b, 2 cells
CONSTANTS MaxNodes = 4  CompTypes = {"A"}  Grids = {"none", "g1", "g1b", "g0"}  NCells = 2  MaxLevel = 9
INIT Init
NEXT Next
CONSTRAINT Bound
CONSTRAINT Prune
INVARIANT EmitCase
CHECK_DEADLOCK FALSE
