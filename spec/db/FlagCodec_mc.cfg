\* all orderings of all non-empty subsets of three names, one or two objects, every reader class, every extension order
CONSTANTS Names = {"A", "B", "C"}  MaxObj = 2  Wide = FALSE  MaxRow = 0
INIT FInit
NEXT FNext
CONSTRAINT Bound
INVARIANT FTypeOK
INVARIANT FlagMeaning
INVARIANT ReadExtendsOnly
INVARIANT BytesExact
CHECK_DEADLOCK FALSE
