\* exhaustive: all trees of <= 4 nodes, one composite class + components, four grid choices
CONSTANTS MaxNodes = 4  CompTypes = {"A"}  Grids = {"none", "g1", "g2", "ax"}  MaxLevel = 9
INIT Init
NEXT Next
CONSTRAINT Bound
INVARIANT TypeOK
INVARIANT RoundTrip
INVARIANT FileIsSorted
INVARIANT ResaveSame
INVARIANT CanonIdem
INVARIANT ClauseWise
INVARIANT FileConsistent
INVARIANT IndexBijection
INVARIANT GridDedup
INVARIANT AncestorsAreParents
INVARIANT RowsAccounted
CHECK_DEADLOCK FALSE
