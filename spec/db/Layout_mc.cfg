\* exhaustive (quick): all trees of <= 4 nodes; one composite class + components; grids none / cartesian / axial; 2 cells.
\* AllTheorems = RoundTrip, FileIsSorted, ResaveSame, CanonIdem, ClauseWise, FileConsistent, AncestorsAreParents, RowsAccounted, IndexBijection, GridDedup
\* evaluated with shared intermediate values (the thorough config lists them one by one)
CONSTANTS MaxNodes = 4  CompTypes = {"A"}  Grids = {"none", "g1", "ax"}  NCells = 2  MaxLevel = 9
INIT Init
NEXT Next
CONSTRAINT Bound
CONSTRAINT Prune
INVARIANT TypeOK
INVARIANT AllTheorems
CHECK_DEADLOCK FALSE
