\* exhaustive (quick): all trees of <= 4 nodes; one composite class + components; grids none / cartesian / axial; 2 cells
CONSTANTS MaxNodes = 4  CompTypes = {"A"}  Grids = {"none", "g1", "ax"}  NCells = 2  MaxLevel = 9
INIT Init
NEXT Next
CONSTRAINT Bound
CONSTRAINT Prune
INVARIANT TypeOK
INVARIANT RoundTrip
INVARIANT FileIsSorted
INVARIANT ResaveSame
INVARIANT CanonIdem
INVARIANT ClauseWise
INVARIANT FileConsistent
INVARIANT IndexBijection
INVARIANT GridDedup
INVARIANT AncestorsAreParents
INVARIANT RowsAccounted
CHECK_DEADLOCK FALSE
