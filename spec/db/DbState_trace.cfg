\* code -> spec: recorded histories (constants: 4 snapshot slots, 6 load handles; the model's bounds do not apply)
CONSTANTS Slots = {1, 2, 3, 4}  Handles = {1, 2, 3, 4, 5, 6}  MaxLevel = 999  MaxNodes = 99999  MutNodes = {}
SPECIFICATION TSpec
CONSTRAINT Progress
POSTCONDITION Report
CHECK_DEADLOCK FALSE
