\* code -> spec: recorded histories (constants: 5 snapshot slots, 8 load handles; the model's bounds do not apply)
CONSTANTS Slots = {1, 2, 3, 4, 5, 6}  Handles = {1, 2, 3, 4, 5, 6, 7, 8}  MaxLevel = 999  MaxNodes = 99999  MutNodes = {}
SPECIFICATION TSpec
CONSTRAINT Progress
POSTCONDITION Report
CHECK_DEADLOCK FALSE
