\* emission (deep, narrow; thorough): one object, one position, one parameter -- few reactor changes, so that sequences of database steps
\* (several writes, labels, rotate + merge, split of several steps) are reached down to depth 6
CONSTANTS NObj = 1  NInit = 1  NLoc = 1  NPar = 1  NVal = 1  MaxC = 1  MaxN = 1  MaxSnaps = 3  MaxLevel = 6
CONSTANT Labels <- McLabels
ACTION_CONSTRAINT Emit
INVARIANT EmitState
INIT Init
NEXT NextL
CONSTRAINT Bound
VIEW View
INVARIANT TypeOK
INVARIANT Isolation
INVARIANT Chronological
INVARIANT HistoryCorrect
INVARIANT HistoryByLocationCorrect
INVARIANT SuccessMark
CHECK_DEADLOCK FALSE
