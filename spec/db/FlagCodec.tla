----------------------------------------- MODULE FlagCodec ------------------------------------------
(* C05, last clause -- "Flag sets keep their meaning even when the set of defined flags is extended or reordered
   between writing and reading."

   Code transcribed
     armi/utils/flags.py        Flag (metaclass: auto() fields get 1, 2, 4, ... in definition order), sortedFields(),
                                width() = ceil(#fields / 8), to_bytes / from_bytes (little endian), extend()
     armi/reactor/composites.py FlagSerializer._packImpl (rows of width() bytes + attribute flag_order = sortedFields()),
                                _unpackImpl (auto-extension by missing names, the "same order" fast path decided by
                                all(i == j for i, j in zip(flagOrderPassed, flagOrderNow)), otherwise _remapBits)

   State
     cls     the flag class of the running application = its sortedFields(); bit (i-1) means cls[i]
     defn    the order in which the class's fields were DEFINED = list(Flag.fields()).  Fields may carry explicit bit values
             (class attributes with int values, Flag.extend({name: value})), so defn is any permutation of cls.  No operator
             of the codec reads it: the meaning of a bit is given by cls alone (definition order is a don't-care).
     wsets   what was written: one set of field names per object
     store   the dataset rows (bytes) and the flag_order attribute
     back    what reading returned: one set of field names per object (names under the class AFTER the read)
   Actions
     Write(sets)   FlagSerializer.pack on the current class
     RefuseUnset   a collection with an unset (None) entry: pack raises, nothing is stored
     Extend(n)     Flag.extend({n: auto()}) between writing and reading (a plugin registers one more flag: appended)
     ExtendPair    Flag.extend({x: second free bit}) ; Flag.extend({y: auto()}): bits stay dense, definition order # bit order
     Redefine(o)   the database is read by another application whose class lists other/reordered fields
     Read(ext)     FlagSerializer.unpack; names of the file unknown to the class are appended first, in the arbitrary
                   order "for k in missingFlags" (a python set) yields them: ext is any permutation of them

   Domain: dense classes -- the fields occupy bits 0..n-1, one each, in any definition order (explicit non-power values or
   gaps are outside what the serializer's "index in sortedFields() == bit" convention can express).                 *)
EXTENDS Integers, Sequences, FiniteSets, TLC, Json, SequencesExt, FiniteSetsExt

CONSTANTS Names, MaxObj
VARIABLES cls, defn, phase, wsets, store, back
fvars == <<cls, defn, phase, wsets, store, back>>

Ix(s)     == 1..Len(s)
Rng(s)    == {s[i] : i \in Ix(s)}
Pow2(n)   == 2 ^ n
Bit(v, b) == (v \div Pow2(b)) % 2 = 1
IndexIn(s, x) == CHOOSE i \in Ix(s) : s[i] = x
Distinct(s) == \A i, j \in Ix(s) : i # j => s[i] # s[j]

\* Flag value of a set of names under an order; names of a value under an order
Val(S, order)    == FoldLeft(LAMBDA a, i : IF order[i] \in S THEN a + Pow2(i - 1) ELSE a, 0, [i \in Ix(order) |-> i])
NamesOf(v, order) == {order[i] : i \in {j \in Ix(order) : Bit(v, j - 1)}}
Width(order)     == (Len(order) + 7) \div 8
ToBytes(v, w)    == [j \in 1..w |-> (v \div Pow2(8 * (j - 1))) % 256]
FromBytes(bs)    == FoldLeft(LAMBDA a, j : a + bs[j] * Pow2(8 * (j - 1)), 0, [j \in Ix(bs) |-> j])

\* composites.py:176  all(i == j for i, j in zip(passed, now))
SamePrefix(passed, now) == \A i \in 1..(IF Len(passed) < Len(now) THEN Len(passed) ELSE Len(now)) : passed[i] = now[i]
\* composites.py:95  _remapBits with newFlags = {i: now.index(old) for i, old in enumerate(passed)}
Remap(v, passed, now) ==
  FoldLeft(LAMBDA a, i : IF Bit(v, i - 1) THEN a + Pow2(IndexIn(now, passed[i]) - 1) ELSE a, 0, [i \in Ix(passed) |-> i])
Unpack(bs, passed, now) ==
  LET v == FromBytes(bs) IN IF SamePrefix(passed, now) THEN NamesOf(v, now) ELSE NamesOf(Remap(v, passed, now), now)

\* wdef is not in the file: the definition order of the writing class, remembered so that an emitted case can rebuild it
NoStore == [order |-> <<>>, rows |-> <<>>, wdef |-> <<>>]

WriteAny(sets) == /\ phase = "defined" /\ sets # <<>>
                  /\ \A i \in Ix(sets) : sets[i] \subseteq Rng(cls)
                  /\ wsets' = sets
                  /\ store' = [order |-> cls, rows |-> [i \in Ix(sets) |-> ToBytes(Val(sets[i], cls), Width(cls))], wdef |-> defn]
                  /\ phase' = "stored" /\ UNCHANGED <<cls, defn, back>>
\* "with any pattern of unset entries": a flag column cannot hold None (None.to_bytes) -- refused at write time
RefuseUnset == /\ phase = "defined" /\ phase' = "refused" /\ UNCHANGED <<cls, defn, wsets, store, back>>
Extend(n) == /\ phase = "stored" /\ n \in Names \ Rng(cls)
             /\ cls' = Append(cls, n) /\ defn' = Append(defn, n) /\ UNCHANGED <<phase, wsets, store, back>>
\* Flag.extend({x: <second free bit>}) then Flag.extend({y: auto()}): y is defined later but receives the lower bit
ExtendPair(x, y) == /\ phase = "stored" /\ x # y /\ {x, y} \subseteq Names \ Rng(cls)
                    /\ cls' = cls \o <<y, x>> /\ defn' = defn \o <<x, y>> /\ UNCHANGED <<phase, wsets, store, back>>
IsPerm(d, o) == Len(d) = Len(o) /\ Rng(d) = Rng(o)
RedefineAny(o, d) == /\ phase = "stored" /\ o # <<>> /\ Distinct(o) /\ IsPerm(d, o) /\ <<o, d>> # <<cls, defn>>
                     /\ cls' = o /\ defn' = d /\ UNCHANGED <<phase, wsets, store, back>>
Missing == Rng(store.order) \ Rng(cls)
Read(ext) == /\ phase = "stored" /\ Rng(ext) = Missing /\ Len(ext) = Cardinality(Missing)
             /\ cls' = cls \o ext /\ defn' = defn \o ext
             /\ back' = [i \in Ix(store.rows) |-> Unpack(store.rows[i], store.order, cls')]
             /\ phase' = "read" /\ UNCHANGED <<wsets, store>>

(* ------------------------------------------------ properties ----------------------------------------------- *)
FTypeOK == /\ phase \in {"defined", "stored", "read", "refused"} /\ Distinct(cls) /\ cls # <<>> /\ IsPerm(defn, cls)
           /\ \A i \in Ix(store.rows) : Len(store.rows[i]) = Width(store.order) /\ \A j \in Ix(store.rows[i]) : store.rows[i][j] \in 0..255
FRefusalStoresNothing == phase = "refused" => (store = NoStore /\ back = <<>>)
\* the clause itself
FlagMeaning == phase = "read" => back = wsets
\* reading makes every written name known to the class and never renumbers the fields the class already had
ReadExtendsOnly == phase = "read" => Rng(store.order) \subseteq Rng(cls)
\* bytes decode to the value that was packed (to_bytes / from_bytes are inverse at the class width)
BytesExact == phase # "defined" => \A i \in Ix(wsets) : FromBytes(store.rows[i]) = Val(wsets[i], store.order)
=====================================================================================================
