\* exhaustive: <= 2 entries over the full domain, 3 over the large domain, 4 over the small one
CONSTANTS MaxN = 4  InlineMax = 2  Tier = "thorough"
INIT Init
NEXT Next
INVARIANT TypeOK
INVARIANT RoundTrip
INVARIANT UnsetPositions
INVARIANT RefusalStoresNothing
INVARIANT ReadNeverFails
INVARIANT SkipIsAllUnset
INVARIANT AttrsResolve
INVARIANT TilingLaw
INVARIANT LayoutLaw
CHECK_DEADLOCK FALSE
