------------------------------------------ MODULE DbHistory ------------------------------------------
(* C06 (first half) -- "Database snapshots are isolated, complete, queryable ...; merging history for a restart, or
   splitting a database, copies exactly the requested steps, unchanged".

   The model is the public surface of armi/bookkeeping/db/database.py class Database as a run uses it, together with
   the part of the reactor state a snapshot must preserve.  One action per public mutator / linearization point:

     Assign(o,p,v)   obj.p[name] = value                       (v = 0: back to "unset", which reads as the default)
     Move(o,l)       to a free position (Core.removeAssembly + Core.add), or the swap of two assemblies by Assembly.moveTo
                     as fuelHandlers.swapAssemblies does it
     Birth(o,l)      Core.add of an object that was not in the reactor before (it is absent from earlier snapshots)
     Advance(c,n)    r.p.cycle, r.p.timeNode = c, n              (any order: "for any interleaving")
     Write(l)        Database.writeToDB(r, statePointName=l)     -> new group cXXnYY<l> holding the state as of now
     WriteRefused(l) the same call when the group exists: layout.writeToDB skips silently, _writeParams raises
                     ValueError("... was already in ..."); reactor, files unchanged (the file keeps the first snapshot)
     Load(c,n,l,via) Database.load(c, n, statePointName=l) / Database.loadReadOnly / Operator.loadState(c, n, l)
                     -> result register `res` (the loaded reactor); nothing else changes -- in particular objects created
                     afterwards (Birth) are new identities, distinct from every object of every snapshot
     Rotate(ok)      Database.close(ok) of the file being written (moved from the fast path to the working directory),
                     which becomes the "other" file B (the reloadDBName of a restart); a fresh file A is opened
     Merge(c0,n0)    A.mergeHistory(B, c0, n0)                   (prepRestartRun; A is the freshly opened file)
     Split(ks)       A.splitDatabase(ks, label)  ks = the steps to keep in any order (B becomes the backup holding everything)
     Close(ok, via)  Database.close(ok), or Database.__exit__ at the end of a `with` block (ok = no exception passing)

   Queries are state functions (Obs): Steps = list(genTimeSteps()), Names = keys(), has = hasTimeStep,
   Hist = getHistories (by serial number), HistLoc = getHistoriesByLocation, HistSel = getHistories(timeSteps=...),
   TrackView / TimeSteps = HistoryTrackerInterface.getBlockHistoryVal / getTimeSteps (armi/bookkeeping/historyTracker.py,
   through DatabaseInterface.getHistory), DiHist / DiHistLoc = DatabaseInterface.getHistory / getHistories(byLocation) of a
   running case with explicit timeSteps that include the current step (before and after that step was written),
   Dump = what Database(file, "r") shows of a closed file (attrs["successfulCompletion"], every group loaded).

   Abstract state
     live[o]    the object is in the reactor              loc[o]  its position in the core (0 = none)
     par[o][p]  value of parameter p, 0 = unset           now     <<r.p.cycle, r.p.timeNode>>
     A, B       files: [st : "open" | "closed" | "none", ok : successfulCompletion, snaps : sequence of snapshots in
                group-name order].  A snapshot is [c, n, lab, off, st, w]: group name cXXnYY<lab>; st = the frozen
                reactor state [live, loc, par]; w = index into the ghost log of writes; off = cycles subtracted by a split.
     wlog       ghost: one entry per successful Write with the state at that moment (never changed afterwards)

   Interpretation choices (statement -> model), each backed by the code or its documentation
   * "one independent snapshot per (cycle, node, label)": the key is the HDF5 group name; a second write of the same key
     is refused and leaves everything unchanged (h5 cannot overwrite: databaseInterface.interactEveryNode comment).
   * "every written snapshot and nothing else is listed, in chronological order": genTimeSteps yields one (c, n) per
     group in name order, so a labelled snapshot repeats its pair (DESIGN S13).  Listing = that sequence; it is
     non-decreasing in (c, n) and its set of pairs is exactly the set of pairs written.  Cycle and node < 100
     (two-digit names); labels are free text (the documentation's example is "-special") compared in ASCII order (Labels
     constant, in that order; the configurations use "", " sp", "-special", ".v2", "EOL", "error", "x").
   * "the default if unset": a parameter no object has assigned yet has no column in a snapshot at all; a load of that snapshot
     and every history of that step answer with the parameter's default all the same (value 0 of the model; the adapter starts
     every history with parameter 1 -- numeric default -- never assigned, parameter 2 -- default None -- unset).
   * "a parameter history returns for each step the value (or the default if unset) that the same object ... had":
     one entry per listed (c, n); when several snapshots share the pair (labels) the one last in name order wins
     (getHistories walks all groups and overwrites hist[(c, n)]); objects are matched by serial number, so the
     location recorded at a step may differ from today's; an object absent from a snapshot has no entry for it.
     getHistories additionally appends the live value for the reactor's current (cycle, node) when that step has no
     entry and the object has at least one entry (DESIGN modelling note); getHistoriesByLocation does not.
     The step an entry is reported under is the step the file lists the snapshot under (also after a split).
   * "merging ... copies exactly the requested steps, unchanged": mergeHistory's documentation -- "copy time step data
     up to, but not including the passed cycle and node": every snapshot (labelled or not) whose (c, n) is strictly
     before (c0, n0), nothing else.  The receiving file is the fresh file of a restart (no snapshots yet).
   * "splitting ... copies exactly the requested steps, unchanged": splitDatabase keeps the unlabelled snapshots of the
     requested pairs, re-numbered so that the smallest kept cycle becomes cycle 0 (documented re-basing; the loaded
     reactor reports the re-based cycle); everything else of the snapshot is unchanged; the backup keeps everything.
   * the success mark is false from open until a clean close: Close(ok)/Rotate(ok) set it to ok; the backup written by a
     split was never closed as successful.
*)
EXTENDS Integers, Sequences, FiniteSets, TLC, Json, SequencesExt, FiniteSetsExt

CONSTANTS NObj, NInit, NLoc, NPar, NVal, MaxC, MaxN, Labels, MaxSnaps, MaxLevel

Obj == 1..NObj
Loc == 1..NLoc
Par == 1..NPar
Val == 0..NVal                  \* 0 = unset (reads as the parameter's default)
LabSet == {Labels[i] : i \in 1..Len(Labels)}
LabRank(l) == CHOOSE i \in 1..Len(Labels) : Labels[i] = l
Pairs == (0..MaxC) \X (0..MaxN)

VARIABLES live, loc, par, now, A, B, wlog, act, err, res
vars == <<live, loc, par, now, A, B, wlog>>
Vars == [live |-> live, loc |-> loc, par |-> par, now |-> now, A |-> A, B |-> B, wlog |-> wlog]

Alive == {o \in Obj : live[o]}
Cur == [live |-> live, loc |-> loc, par |-> par]
NoRes == [kind |-> "none"]
NoFile == [st |-> "none", ok |-> FALSE, snaps |-> <<>>]
Fresh == [st |-> "open", ok |-> FALSE, snaps |-> <<>>]

(* ---------- order of group names:  cXXnYY<label>  compared as strings ---------- *)
PairLess(p, q) == p[1] < q[1] \/ (p[1] = q[1] /\ p[2] < q[2])
PairLeq(p, q)  == p = q \/ PairLess(p, q)
Pair(s) == <<s.c, s.n>>
NameLess(a, b) == PairLess(Pair(a), Pair(b)) \/ (Pair(a) = Pair(b) /\ LabRank(a.lab) < LabRank(b.lab))
InsertByName(s, e) ==
    LET k == Cardinality({i \in 1..Len(s) : NameLess(s[i], e)}) IN SubSeq(s, 1, k) \o <<e>> \o SubSeq(s, k + 1, Len(s))
HasKey(s, c, n, l) == \E i \in 1..Len(s) : s[i].c = c /\ s[i].n = n /\ s[i].lab = l
Find(s, c, n, l) == s[CHOOSE i \in 1..Len(s) : s[i].c = c /\ s[i].n = n /\ s[i].lab = l]
Rng(s) == {s[i] : i \in 1..Len(s)}
Keys(f) == {<<f.snaps[i].c, f.snaps[i].n, f.snaps[i].lab>> : i \in 1..Len(f.snaps)}
PairsOf(f) == {Pair(f.snaps[i]) : i \in 1..Len(f.snaps)}
PlainPairs(f) == {Pair(f.snaps[i]) : i \in {j \in 1..Len(f.snaps) : f.snaps[j].lab = ""}}

\* labels hasTimeStep is probed with (the adapter uses the same list), in ASCII order: state-point names are free text -- the
\* documentation's own example is "-special", the debug labels of the operator contain '-' -- so they need not be words
ProbeLabels == <<"", " sp", "-special", ".v2", "EOL", "error", "x">>
AliveSeqOf(lv) == SetToSortSeq({o \in Obj : lv[o]}, <)

(* ---------- queries ---------- *)
Steps(f) == [i \in 1..Len(f.snaps) |-> Pair(f.snaps[i])]                           \* list(genTimeSteps())
Names(f) == [i \in 1..Len(f.snaps) |-> <<f.snaps[i].c, f.snaps[i].n, f.snaps[i].lab>>]   \* keys()

\* python dict semantics on a sequence of <<c, n, v>>: assignment to an existing key keeps its position
Put(h, c, n, v) ==
    IF \E i \in 1..Len(h) : h[i][1] = c /\ h[i][2] = n
    THEN [i \in 1..Len(h) |-> IF h[i][1] = c /\ h[i][2] = n THEN <<c, n, v>> ELSE h[i]]
    ELSE Append(h, <<c, n, v>>)
ByStep(h) == SortSeq(h, LAMBDA a, b : PairLess(a, b))
\* what a snapshot says about parameter p of object o;  p = 0 is the pseudo-parameter "location"
Stored(s, o, p) == IF p = 0 THEN s.st.loc[o] ELSE s.st.par[o][p]
LiveVal(o, p)   == IF p = 0 THEN loc[o] ELSE par[o][p]

\* getHistories(comps, params, timeSteps=None): walk every group in name order, match by serial number
HistStored(snaps, o, p) ==
    FoldLeft(LAMBDA h, s : IF s.st.live[o] THEN Put(h, s.c, s.n, Stored(s, o, p)) ELSE h, <<>>, snaps)
WithLive(h, o, p) ==
    IF h = <<>> \/ (\E i \in 1..Len(h) : h[i][1] = now[1] /\ h[i][2] = now[2]) THEN h
    ELSE Append(h, <<now[1], now[2], LiveVal(o, p)>>)
Hist(f, o, p) == ByStep(WithLive(HistStored(f.snaps, o, p), o, p))
\* getHistories(comps, params, timeSteps=sel): only the unlabelled groups of the selection, in the order given
PlainSel(f) == LET idx == SelectSeq([i \in 1..Len(f.snaps) |-> i], LAMBDA i : f.snaps[i].lab = "") IN
               Reverse([k \in 1..Len(idx) |-> f.snaps[idx[k]]])
HistSel(f, o, p) == ByStep(WithLive(HistStored(PlainSel(f), o, p), o, p))
\* getHistoriesByLocation(comps, params): for each group, the object that was then at the position comp has now
HistLoc(f, o, p) ==
    ByStep(FoldLeft(LAMBDA h, s :
                      LET at == {x \in Obj : s.st.live[x] /\ s.st.loc[x] = loc[o]} IN
                      IF at = {} THEN h ELSE Put(h, s.c, s.n, Stored(s, CHOOSE x \in at : TRUE, p)),
                    <<>>, f.snaps))

\* HistoryTrackerInterface.getBlockHistoryVal(block name, param, ts)  (armi/bookkeeping/historyTracker.py): the live value when ts
\* is the current step and the file has nothing under it, else the value stored in the unlabelled snapshot of ts.  Asked for
\* the steps that have an unlabelled snapshot containing the object, and for the current step when it is not listed at all.
TrackSteps(f, o) ==
    {pr \in PlainPairs(f) : Find(f.snaps, pr[1], pr[2], "").st.live[o]} \cup (IF now \in PairsOf(f) THEN {} ELSE {now})
BlockHistVal(f, o, p, ts) ==
    IF ts = now /\ now \notin PairsOf(f) THEN par[o][p] ELSE Stored(Find(f.snaps, ts[1], ts[2], ""), o, p)
TrackView(f) ==
    [k \in 1..Len(AliveSeqOf(live)) |->
        LET o == AliveSeqOf(live)[k]
            ts == SetToSortSeq(TrackSteps(f, o), LAMBDA x, y : PairLess(x, y)) IN
        [o |-> o, h |-> [p \in Par |-> [i \in 1..Len(ts) |-> <<ts[i][1], ts[i][2], BlockHistVal(f, o, p, ts[i])>>]]]]
\* HistoryTrackerInterface.getTimeSteps(): "times in years that are available in the history" = the values of
\* DatabaseInterface.getHistory(r, ["time"]): one per listed (c, n) in listing order (the last-named snapshot of a pair wins),
\* the current step last unless it is listed (then the live time replaces the stored one).  The reactor's time is an
\* injective function of the (cycle, node) it was written at (the adapter's choice of data), reported here as that pair.
TimeOf(s) == <<s.c + s.off, s.n>>
TimeSteps(f) ==
    LET h == FoldLeft(LAMBDA acc, s : Put(acc, s.c, s.n, TimeOf(s)), <<>>, f.snaps)
        hl == Put(h, now[1], now[2], now) IN
    [i \in 1..Len(hl) |-> hl[i][3]]

\* DatabaseInterface.getHistory(comp, params, timeSteps) / getHistories(comps, params, timeSteps, byLocation): the wrappers of a
\* running case (armi/bookkeeping/db/databaseInterface.py).  They take the current step out of the request, ask the Database
\* for the rest, and -- when the current step was requested -- report the LIVE value under it, whether or not the file
\* already holds that step (the snapshot of a step is written at its end; until the reactor moves on, "the value at the
\* current step" is the live one).  The by-identity variant inherits Database.getHistories' own live entry (WithLive).
SnapsOf(f, sel) == LET ix == SelectSeq([i \in 1..Len(f.snaps) |-> i], LAMBDA i : f.snaps[i].lab = "" /\ Pair(f.snaps[i]) \in {sel[k] : k \in 1..Len(sel)}) IN
                   [k \in 1..Len(ix) |-> f.snaps[ix[k]]]
Others(sel) == SelectSeq(sel, LAMBDA pr : pr # now)
NowAsked(sel) == \E k \in 1..Len(sel) : sel[k] = now
DiHist(f, sel, o, p) ==
    LET h == WithLive(HistStored(SnapsOf(f, Others(sel)), o, p), o, p) IN
    ByStep(IF NowAsked(sel) THEN Put(h, now[1], now[2], LiveVal(o, p)) ELSE h)
DiHistLoc(f, sel, o, p) ==
    LET h == FoldLeft(LAMBDA acc, s :
                        LET at == {x \in Obj : s.st.live[x] /\ s.st.loc[x] = loc[o]} IN
                        IF at = {} THEN acc ELSE Put(acc, s.c, s.n, Stored(s, CHOOSE x \in at : TRUE, p)),
                      <<>>, SnapsOf(f, Others(sel))) IN
    ByStep(IF NowAsked(sel) THEN Put(h, now[1], now[2], LiveVal(o, p)) ELSE h)
\* the requests: every step that has an unlabelled snapshot, latest first, and the current step (written or not) at the end
AskAll(f) == [i \in 1..Len(PlainSel(f)) |-> Pair(PlainSel(f)[i])] \o (IF now \in PlainPairs(f) THEN <<>> ELSE <<now>>)
AskNow == <<now>>

\* Database.load(c, n, statePointName=l): the reactor as stored; its time state is what the file says
\* bp: the blueprints that come with a loaded reactor are the ones stored with the inputs (0 = as written), however often and
\* whatever was loaded before and whatever was done to what those loads returned (the adapter overwrites the parameters and
\* the blueprints of every reactor a load has returned, after looking at it): loads are independent of each other
Loaded(s) == [kind |-> "load", cyc |-> s.c, nod |-> s.n, st |-> s.st, bp |-> 0]

(* ---------- helpers for actions ---------- *)
Ok(a) == err' = "" /\ act' = a /\ res' = NoRes
Refuse(e, a) == UNCHANGED vars /\ err' = e /\ act' = a /\ res' = NoRes
Writable == A.st = "open"
FreeLoc(l) == \A o \in Alive : loc[o] # l

Init ==
    /\ live = [o \in Obj |-> o <= NInit]
    /\ loc = [o \in Obj |-> IF o <= NInit THEN o ELSE 0]
    /\ par = [o \in Obj |-> [p \in Par |-> 0]]
    /\ now = <<0, 0>>
    /\ A = Fresh /\ B = NoFile /\ wlog = <<>>
    /\ act = [n |-> "Init"] /\ err = "" /\ res = NoRes

(* ---------- state changes of the reactor ---------- *)
Assign(o, p, v) ==
    /\ Writable /\ live[o] /\ par[o][p] # v
    /\ par' = [par EXCEPT ![o][p] = v]
    /\ UNCHANGED <<live, loc, now, A, B, wlog>> /\ Ok([n |-> "Assign", o |-> o, p |-> p, v |-> v])

Move(o, l) ==
    /\ Writable /\ live[o] /\ loc[o] # l
    /\ loc' = [x \in Obj |-> IF x = o THEN l ELSE IF live[x] /\ loc[x] = l THEN loc[o] ELSE loc[x]]
    /\ UNCHANGED <<live, par, now, A, B, wlog>> /\ Ok([n |-> "Move", o |-> o, l |-> l])

Birth(o, l) ==
    /\ Writable /\ ~live[o] /\ FreeLoc(l) /\ \A x \in Obj : x < o => live[x]
    /\ live' = [live EXCEPT ![o] = TRUE] /\ loc' = [loc EXCEPT ![o] = l]
    /\ UNCHANGED <<par, now, A, B, wlog>> /\ Ok([n |-> "Birth", o |-> o, l |-> l])

Advance(c, n) ==
    /\ Writable /\ now # <<c, n>>
    /\ now' = <<c, n>>
    /\ UNCHANGED <<live, loc, par, A, B, wlog>> /\ Ok([n |-> "Advance", c |-> c, t |-> n])

(* ---------- the database ---------- *)
Write(l) ==
    /\ Writable /\ ~HasKey(A.snaps, now[1], now[2], l) /\ Len(A.snaps) < MaxSnaps
    /\ LET w == Len(wlog) + 1
           s == [c |-> now[1], n |-> now[2], lab |-> l, off |-> 0, st |-> Cur, w |-> w] IN
       /\ A' = [A EXCEPT !.snaps = InsertByName(@, s)]
       /\ wlog' = Append(wlog, [c |-> now[1], n |-> now[2], lab |-> l, st |-> Cur])
    /\ UNCHANGED <<live, loc, par, now, B>> /\ Ok([n |-> "Write", l |-> l])

WriteRefused(l) ==
    /\ Writable /\ HasKey(A.snaps, now[1], now[2], l)
    /\ Refuse("ValueError", [n |-> "Write", l |-> l])

\* via: the public entry point used -- "load" Database.load, "ro" Database.loadReadOnly, "state" Operator.loadState ->
\* DatabaseInterface.loadState (the operator's reactor is replaced by the loaded one)
LoadVias == {"load", "ro", "state"}
Load(c, n, l, via) ==
    /\ Writable /\ HasKey(A.snaps, c, n, l)
    /\ UNCHANGED vars /\ err' = "" /\ act' = [n |-> "Load", c |-> c, t |-> n, l |-> l, via |-> via]
    /\ res' = Loaded(Find(A.snaps, c, n, l))

Rotate(ok) ==
    /\ Writable /\ B.st = "none" /\ A.snaps # <<>>
    /\ B' = [st |-> "closed", ok |-> ok, snaps |-> A.snaps]
    /\ A' = Fresh
    /\ UNCHANGED <<live, loc, par, now, wlog>> /\ Ok([n |-> "Rotate", ok |-> ok])

Merge(c0, n0) ==
    /\ Writable /\ B.st = "closed" /\ A.snaps = <<>>
    /\ A' = [A EXCEPT !.snaps = SelectSeq(B.snaps, LAMBDA s : PairLess(Pair(s), <<c0, n0>>))]
    /\ UNCHANGED <<live, loc, par, now, B, wlog>> /\ Ok([n |-> "Merge", c |-> c0, t |-> n0])

\* ks: the list handed to splitDatabase -- the pairs to keep (each has an unlabelled snapshot), without repetition, in ANY
\* order; the result depends on the set only (the smallest kept cycle becomes cycle 0 wherever it stands in the list)
Split(ks) ==
    LET K == {ks[i] : i \in 1..Len(ks)} IN
    /\ Writable /\ B.st = "none" /\ K # {} /\ K \subseteq PlainPairs(A) /\ Len(ks) = Cardinality(K)
    /\ LET minC == Min({pr[1] : pr \in K})
           kept == SelectSeq(A.snaps, LAMBDA s : s.lab = "" /\ Pair(s) \in K) IN
       /\ A' = [A EXCEPT !.snaps = [i \in 1..Len(kept) |-> [kept[i] EXCEPT !.c = @ - minC, !.off = @ + minC]]]
       /\ B' = [st |-> "closed", ok |-> FALSE, snaps |-> A.snaps]
    /\ UNCHANGED <<live, loc, par, now, wlog>>
    /\ Ok([n |-> "Split", k |-> ks])

\* via = "close": Database.close(ok);  via = "exit": leaving `with db:` -- Database.__exit__ closes as successful iff no
\* exception is passing through (ok = FALSE: an exception is)
Close(ok, via) ==
    /\ Writable
    /\ A' = [A EXCEPT !.st = "closed", !.ok = ok]
    /\ UNCHANGED <<live, loc, par, now, B, wlog>> /\ Ok([n |-> "Close", ok |-> ok, via |-> via])

Mutate == \/ \E o \in Obj, p \in Par, v \in Val : Assign(o, p, v)
          \/ \E o \in Obj, l \in Loc : Move(o, l) \/ Birth(o, l)
          \/ \E pr \in Pairs : Advance(pr[1], pr[2])
DbStep == \/ \E l \in LabSet : Write(l) \/ WriteRefused(l)
          \/ \E ok \in BOOLEAN : Rotate(ok) \/ Close(ok, "close") \/ Close(ok, "exit")
          \/ \E pr \in Pairs : Merge(pr[1], pr[2])
          \/ \E K \in SUBSET PlainPairs(A) : \E ks \in SetToSeqs(K) : Split(ks)
LoadStep == \E pr \in Pairs, l \in LabSet, via \in LoadVias : Load(pr[1], pr[2], l, via)
Next == Mutate \/ DbStep
NextL == Next \/ LoadStep

(* ---------- observation (what the adapter projects from the real objects after every step) ---------- *)
AliveSeq == AliveSeqOf(live)
ObjView(st, o) == [o |-> o, loc |-> st.loc[o], par |-> st.par[o]]
StateView(st) == LET al == SetToSortSeq({o \in Obj : st.live[o]}, <) IN [k \in 1..Len(al) |-> ObjView(st, al[k])]
\* histories of the objects in the reactor: one row per object, one column per parameter p0..NPar (0 = "location")
HistView(f, H(_, _, _), p0) ==
    [k \in 1..Len(AliveSeq) |-> [o |-> AliveSeq[k], h |-> [q \in 1..(NPar - p0 + 1) |-> H(f, AliveSeq[k], q + p0 - 1)]]]
\* a closed file as Database(path, "r") shows it: the success mark, the listing, every snapshot loaded
Dump(f) == [ok |-> f.ok, names |-> Names(f),
            snaps |-> [i \in 1..Len(f.snaps) |-> [cyc |-> f.snaps[i].c, nod |-> f.snaps[i].n, st |-> StateView(f.snaps[i].st), bp |-> 0]]]
NoDump == [ok |-> FALSE, names |-> <<>>, snaps |-> <<>>]
ObsKeys == {"reactor", "now", "astate", "bstate", "steps", "names", "has", "ask", "hdi", "hdi1", "hdil", "hbv", "hts", "hist",
            "hpos", "sel", "hsel", "hloc", "dumpA", "dumpB"}
\* one field of the observation (the trace specification evaluates only the fields an event logged)
ObsField(k) ==
    CASE k = "reactor" -> StateView(Cur)
      [] k = "now"     -> now
      [] k = "astate"  -> A.st
      [] k = "bstate"  -> B.st
      [] k = "dumpA"   -> IF A.st = "closed" THEN Dump(A) ELSE NoDump
      [] k = "dumpB"   -> IF B.st = "closed" THEN Dump(B) ELSE NoDump
      [] ~Writable     -> <<>>
      [] k = "steps"   -> Steps(A)
      [] k = "names"   -> Names(A)
      \* hasTimeStep(c, n, l) for every listed (c, n) and every label of the probe set: true exactly for the snapshots that exist
      [] k = "has"     -> [i \in 1..Len(A.snaps) |->
                              [j \in 1..Len(ProbeLabels) |-> HasKey(A.snaps, A.snaps[i].c, A.snaps[i].n, ProbeLabels[j])]]
      \* DatabaseInterface.getHistory(block, params, timeSteps = every plain step and the current one) / (..., [current step]) /
      \* getHistories(blocks, params, [current step and every plain step], byLocation = TRUE)
      [] k = "ask"     -> AskAll(A)
      [] k = "hdi"     -> HistView(A, LAMBDA f, o, p : DiHist(f, AskAll(f), o, p), 1)
      [] k = "hdi1"    -> HistView(A, LAMBDA f, o, p : DiHist(f, AskNow, o, p), 1)
      [] k = "hdil"    -> HistView(A, LAMBDA f, o, p : DiHistLoc(f, AskAll(f), o, p), 1)
      [] k = "hbv"     -> TrackView(A)                                             \* HistoryTrackerInterface.getBlockHistoryVal
      [] k = "hts"     -> TimeSteps(A)                                             \* HistoryTrackerInterface.getTimeSteps
      [] k = "hist"    -> HistView(A, Hist, 1)                                     \* getHistories(blocks, params)
      [] k = "hpos"    -> [i \in 1..Len(AliveSeq) |-> [o |-> AliveSeq[i], h |-> Hist(A, AliveSeq[i], 0)]]
                                                                                  \* getHistories(assemblies, ["location"])
      [] k = "sel"     -> [i \in 1..Len(PlainSel(A)) |-> Pair(PlainSel(A)[i])]
      [] k = "hsel"    -> HistView(A, HistSel, 1)                                  \* getHistories(blocks, params, timeSteps=sel)
      [] k = "hloc"    -> HistView(A, HistLoc, 1)                                  \* getHistoriesByLocation(blocks, params)
Obs == [k \in ObsKeys |-> ObsField(k)]
ResView == IF res.kind = "load" THEN [kind |-> "load", cyc |-> res.cyc, nod |-> res.nod, st |-> StateView(res.st), bp |-> res.bp] ELSE res

(* ---------- the clauses of the statement ---------- *)
SnapOK(s) == /\ s.c \in Nat /\ s.n \in Nat /\ s.lab \in LabSet /\ s.off \in Nat /\ s.w \in 1..Len(wlog)
FileOK(f) == f.st \in {"open", "closed", "none"} /\ f.ok \in BOOLEAN /\ \A i \in 1..Len(f.snaps) : SnapOK(f.snaps[i])
TypeOK == /\ live \in [Obj -> BOOLEAN] /\ loc \in [Obj -> 0..NLoc] /\ par \in [Obj -> [Par -> Val]]
          /\ now[1] \in Nat /\ now[2] \in Nat /\ FileOK(A) /\ FileOK(B)
          /\ \A o \in Obj : live[o] <=> loc[o] # 0
          /\ \A o, x \in Alive : o # x => loc[o] # loc[x]

\* "loading a snapshot returns the state as of that write whatever happened later": every snapshot of every file still
\* equals the ghost record made when it was written (only its cycle number may have been re-based by a split)
IsolatedIn(f) == \A i \in 1..Len(f.snaps) :
                     LET s == f.snaps[i] g == wlog[s.w] IN
                     s.st = g.st /\ s.n = g.n /\ s.lab = g.lab /\ s.c + s.off = g.c /\ Loaded(s).st = g.st
Isolation == IsolatedIn(A) /\ IsolatedIn(B)

\* "one independent snapshot per (cycle, node, label)" and "listed in chronological order": names are unique and the
\* listing is sorted by name, hence non-decreasing in (cycle, node)
ListedInOrder(f) ==
    /\ \A i, j \in 1..Len(f.snaps) : i < j => NameLess(f.snaps[i], f.snaps[j])
    /\ \A i, j \in 1..Len(Steps(f)) : i < j => PairLeq(Steps(f)[i], Steps(f)[j])
    /\ {Steps(f)[i] : i \in 1..Len(Steps(f))} = PairsOf(f)
Chronological == ListedInOrder(A) /\ ListedInOrder(B)

\* "a parameter history returns for each step the value (or the default if unset) that the same object ... had at that
\* step": stated without the dictionary walk -- for every listed pair and every object recorded under it, the entry is
\* what the last-named snapshot of that pair recorded for *that object* (wherever it was then), and there is nothing else
LastOf(f, pr, o) == LET I == {i \in 1..Len(f.snaps) : Pair(f.snaps[i]) = pr /\ f.snaps[i].st.live[o]} IN f.snaps[Max(I)]
HistoryLaw(f, o, p) ==
    LET stored == {pr \in PairsOf(f) : \E i \in 1..Len(f.snaps) : Pair(f.snaps[i]) = pr /\ f.snaps[i].st.live[o]}
        h == Hist(f, o, p)
        hs == {h[i] : i \in 1..Len(h)} IN
    /\ \A pr \in stored : <<pr[1], pr[2], Stored(LastOf(f, pr, o), o, p)>> \in hs
    /\ \A e \in hs : \/ <<e[1], e[2]>> \in stored
                     \/ (<<e[1], e[2]>> = now /\ now \notin stored /\ stored # {} /\ e[3] = LiveVal(o, p))
    /\ Len(h) = Cardinality(hs) /\ \A i, j \in 1..Len(h) : i < j => PairLess(h[i], h[j])
HistoryCorrect == Writable => \A o \in Alive, p \in 0..NPar : HistoryLaw(A, o, p)
\* by location: the entry of a step is the value of whoever was at that position at that step
HistoryByLocationCorrect ==
    Writable => \A o \in Alive, p \in 0..NPar :
        LET h == HistLoc(A, o, p) IN
        \A i \in 1..Len(h) : \E k \in 1..Len(A.snaps), x \in Obj :
            /\ Pair(A.snaps[k]) = <<h[i][1], h[i][2]>> /\ A.snaps[k].st.live[x] /\ A.snaps[k].st.loc[x] = loc[o]
            /\ h[i][3] = Stored(A.snaps[k], x, p)

\* the success mark: false while the file is open, and on a closed file exactly what close() was told
SuccessMark == (A.st = "open" => ~A.ok) /\ (B.st = "none" => ~B.ok)

\* step properties (over the action register; cheap: no folds)
IsAct(name) == act'.n = name
RefusalsChangeNothing == [][err' # "" => UNCHANGED vars]_<<vars, act, err, res>>
WriteAddsExactlyOne ==
    [][(IsAct("Write") /\ err' = "") =>
          /\ Keys(A') = Keys(A) \cup {<<now[1], now[2], act'.l>>} /\ <<now[1], now[2], act'.l>> \notin Keys(A)
          /\ Find(A'.snaps, now[1], now[2], act'.l).st = Cur
          /\ \A i \in 1..Len(A.snaps) : A.snaps[i] \in Rng(A'.snaps)
          /\ B' = B]_<<vars, act, err, res>>
OnlyDbStepsTouchFiles ==
    [][act'.n \in {"Assign", "Move", "Birth", "Advance", "Load"} => (A' = A /\ B' = B /\ wlog' = wlog)]_<<vars, act, err, res>>
MergeCopiesExactly ==
    [][IsAct("Merge") =>
          /\ Rng(A'.snaps) = {s \in Rng(B.snaps) : PairLess(Pair(s), <<act'.c, act'.t>>)}
          /\ B' = B]_<<vars, act, err, res>>
SplitCopiesExactly ==
    [][IsAct("Split") =>
          LET K == Rng(act'.k) minC == Min({pr[1] : pr \in K}) IN
          /\ Keys(A') = {<<pr[1] - minC, pr[2], "">> : pr \in K}
          /\ \A s \in Rng(A'.snaps) : \E t \in Rng(A.snaps) :
                 t.lab = "" /\ t.c = s.c + minC /\ t.n = s.n /\ t.st = s.st /\ t.w = s.w
          /\ B'.snaps = A.snaps /\ B'.st = "closed" /\ ~B'.ok]_<<vars, act, err, res>>
=====================================================================================================
