\* exhaustive (quick): all histories of <= 4 calls; 2 snapshots, 2 load handles; growth to 12 nodes.  Structural mutations only
\* (Swap, Rotate, Grow, Detach): the parameter/composition/temperature fields are opaque pass-through values, their mutations
\* are explored by DbState_cov.cfg (depth 3) and DbState_mc_thorough.cfg (depth 5)
CONSTANTS Slots = {1, 2}  Handles = {1, 2}  MaxLevel = 5  MaxNodes = 12  MutNodes = {}
INIT Init
NEXT Next
CONSTRAINT Bound
VIEW View
INVARIANT TypeOK
INVARIANT LoadedIsWritten
INVARIANT LoadedClauseWise
INVARIANT LoadTwiceEqual
INVARIANT FilesDescribeSnaps
INVARIANT ResaveFixpoint
INVARIANT LoadedIsCanonical
INVARIANT FreshResaveKeepsParameters
PROPERTY SnapshotsFrozen
PROPERTY RefusalsChangeNothing
PROPERTY WritesAreAppendOnly
CHECK_DEADLOCK FALSE
