\* exhaustive: every collection of <= 2 entries over the full entry domain, <= 3 over the mechanism representatives
CONSTANTS MaxN = 3  InlineMax = 1  Tier = "quick"
INIT Init
NEXT Next
INVARIANT TypeOK
INVARIANT RoundTrip
INVARIANT UnsetPositions
INVARIANT RefusalStoresNothing
INVARIANT ReadNeverFails
INVARIANT SkipIsAllUnset
INVARIANT AttrsResolve
INVARIANT TilingLaw
INVARIANT LayoutLaw
CHECK_DEADLOCK FALSE
