\* non-vacuity only (quick tier): which actions of DbState are enabled within 3 calls (-coverage 1; the invariants are
\* checked by DbState_mc.cfg without coverage counters, which triple TLC's run time on this specification)
CONSTANTS Slots = {1, 2}  Handles = {1, 2}  MaxLevel = 4  MaxNodes = 12  MutNodes = {7}
INIT Init
NEXT Next
CONSTRAINT Bound
VIEW View
INVARIANT TypeOK
CHECK_DEADLOCK FALSE
