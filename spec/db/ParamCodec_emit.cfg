\* case emission (collections only; -workers 1)
CONSTANTS MaxN = 3  InlineMax = 1  Tier = "quick"
INIT Init
NEXT NextBuild
INVARIANT EmitCase
CHECK_DEADLOCK FALSE
