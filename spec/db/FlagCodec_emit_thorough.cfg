\* all orderings of all non-empty subsets of four names, one object, every reader class, every extension order
CONSTANTS Names = {"A", "B", "C", "D"}  MaxObj = 1  Wide = FALSE  MaxRow = 0
INIT FInit
NEXT FNext
CONSTRAINT Bound
INVARIANT FTypeOK
INVARIANT FRefusalStoresNothing
INVARIANT FlagMeaning
INVARIANT ReadExtendsOnly
INVARIANT BytesExact
CHECK_DEADLOCK FALSE
ACTION_CONSTRAINT EmitRead
