--------------------------------------- MODULE ParamCodec_mc ---------------------------------------
(* Bounded instances of ParamCodec: the entry domains per collection length, the exhaustive next-state relation and
   the case emission (one JSON line per collection: the collection, the planned outcome, its tag and NF).        *)
EXTENDS ParamCodec

CONSTANT Tier          \* "quick" | "thorough"

(* ---- entry domains ---- *)
PyScalars == {Sc("int", "hi2"), Sc("int", "b"), Sc("float", "a"), Sc("float", "b"), Sc("float", "nan"),
              Sc("bool", "a"), Sc("bool", "b"), Sc("str", "a"), Sc("str", "b")}
NpScalars == {Sc(k, v) : k \in SInt, v \in {"hi2", "b"}} \cup {Sc(k, v) : k \in UInt, v \in {"lo2", "b"}}
             \cup {Sc("f32", "a"), Sc("f64", "a"), Sc("f64", "nan"), Sc("b1", "a")}
Lists == {Sq("list", "int", <<2>>, <<"hi2", "b">>), Sq("list", "int", <<1>>, <<"b">>), Sq("list", "int", <<3>>, <<"b", "hi2", "b">>),
          Sq("list", "float", <<2>>, <<"a", "b">>), Sq("list", "float", <<1>>, <<"a">>), Sq("list", "float", <<0>>, <<>>),
          Sq("list", "int", <<2, 2>>, <<"hi2", "b", "a", "z">>), Sq("list", "str", <<2>>, <<"a", "b">>),
          Sq("list", "bool", <<2>>, <<"a", "b">>),
          Sq("list", "float", <<2>>, <<"a", "none">>), Sq("list", "int", <<2>>, <<"b", "none">>),
          Sq("list", "float", <<2, 2>>, <<"a", "none", "b", "a">>),
          Rg("int", <<<<"hi2", "b">>, <<"b">>>>), Rg("float", <<<<"a">>, <<"b", "a">>>>)}
Tuples == {Sq("tuple", "int", <<2>>, <<"b", "hi2">>), Sq("tuple", "int", <<1>>, <<"hi2">>),
           Sq("tuple", "float", <<2>>, <<"b", "none">>)}
Arrays == {Sq("nd", "i64", <<2>>, <<"hi2", "b">>), Sq("nd", "i64", <<1>>, <<"b">>), Sq("nd", "f64", <<2>>, <<"a", "nan">>),
           Sq("nd", "f64", <<0>>, <<>>), Sq("nd", "f64", <<3>>, <<"b", "a", "b">>), Sq("nd", "u8", <<2>>, <<"lo2", "b">>),
           Sq("nd", "u8", <<1>>, <<"lo2">>), Sq("nd", "f32", <<2>>, <<"a", "b">>), Sq("nd", "b1", <<2>>, <<"a", "b">>),
           Sq("nd", "str", <<2>>, <<"b", "a">>), Sq("nd", "i64", <<2, 2>>, <<"b", "hi2", "a", "z">>),
           Sq("nd", "i64", <<1, 2>>, <<"b", "hi2">>)}
Dicts == {Dc("float", <<>>), Dc("float", <<<<"p", "a">>>>), Dc("float", <<<<"p", "a">>, <<"q", "b">>>>),
          Dc("float", <<<<"q", "b">>>>), Dc("float", <<<<"p", "nan">>>>), Dc("int", <<<<"p", "hi2">>>>),
          Dc("int", <<<<"p", "b">>, <<"q", "hi2">>>>), Dc("str", <<<<"p", "a">>>>)}
\* "special" neighbours of the None markers that a maintenance slip could confuse with them.  They are ordinary VALUES:
\* only NaN is the unset marker for reals (+inf, -inf, -0.0, the largest finite real stay what they are), and for integers
\* only min+2 (signed) / max-2 (unsigned): 0, -1 (unsigned: all ones = max) and marker-1 / marker+1 stay what they are.
SpecialCore == {Sc("float", "pinf"), Sc("float", "ninf"), Sc("float", "nz"), Sc("float", "fmax"),
                Sc("int", "z"), Sc("int", "m1"), Sc("int", "lo3"), Sc("u8", "m1"), Sc("u8", "hi3"),
                Sq("nd", "f64", <<2>>, <<"pinf", "a">>), Dc("float", <<<<"p", "pinf">>>>)}
Special == SpecialCore \cup
           {Sc("f64", "pinf"), Sc("int", "lo1"), Sc("i8", "m1"), Sc("i8", "lo3"), Sc("u8", "z"), Sc("u8", "hi1"), Sc("u64", "m1"),
            Sq("list", "float", <<2>>, <<"ninf", "nz">>), Sq("nd", "f64", <<1>>, <<"fmax">>), Sq("nd", "u8", <<2>>, <<"m1", "z">>),
            Sq("list", "int", <<2>>, <<"z", "m1">>),
            Dc("float", <<<<"p", "ninf">>, <<"q", "nan">>>>), Dc("int", <<<<"p", "z">>, <<"q", "m1">>>>)}
\* the same logical arrays in other memory layouts (asymmetric values: a transposition is visible), and non-ASCII text
Layouts == {SqL("i64", <<2, 2>>, <<"b", "hi2", "a", "z">>, "F"), SqL("i64", <<2, 2>>, <<"b", "hi2", "a", "z">>, "T"),
            SqL("i64", <<2, 2>>, <<"b", "hi2", "a", "z">>, "S"), SqL("f64", <<2, 3>>, <<"a", "b", "pinf", "nz", "fmax", "a">>, "T"),
            SqL("i64", <<1, 2>>, <<"b", "hi2">>, "S")}
NonAscii == {Sc("str", "u"), Sq("list", "str", <<2>>, <<"u", "a">>), Sq("nd", "str", <<2>>, <<"a", "u">>),
             Dc("float", <<<<"u", "a">>>>)}
\* text whose white space is part of the value: trailing blanks, a single blank, a trailing newline, a tab, leading blanks,
\* the empty string -- as scalars and inside fixed-shape arrays of strings
Blanks == {Sc("str", "t"), Sc("str", "sp"), Sc("str", "nl"), Sc("str", "tab"), Sc("str", "ld"), Sc("str", "e"),
           Sq("list", "str", <<2>>, <<"t", "sp">>), Sq("nd", "str", <<2, 2>>, <<"t", "a", "tab", "e">>)}
Full == {NoneE} \cup PyScalars \cup NpScalars \cup Lists \cup Tuples \cup Arrays \cup Dicts \cup Special \cup Layouts \cup NonAscii
        \cup Blanks

\* representatives of every mechanism for the longer collections
Mid == {NoneE, Sc("int", "b"), Sc("float", "a"), Sc("float", "nan"), Sc("float", "pinf"), Sc("bool", "a"), Sc("str", "a"),
        Sc("u8", "lo2"),
        Sq("list", "int", <<2>>, <<"hi2", "b">>), Sq("list", "int", <<1>>, <<"b">>), Sq("list", "float", <<0>>, <<>>),
        Sq("list", "float", <<2>>, <<"a", "none">>),
        Sq("tuple", "int", <<2>>, <<"b", "hi2">>), Sq("nd", "i64", <<2>>, <<"hi2", "b">>), Sq("nd", "f64", <<2>>, <<"a", "nan">>),
        Sq("nd", "u8", <<1>>, <<"lo2">>), SqL("i64", <<2, 2>>, <<"b", "hi2", "a", "z">>, "F"),
        Rg("int", <<<<"hi2", "b">>, <<"b">>>>), Dc("float", <<<<"p", "a">>>>), Dc("float", <<<<"p", "a">>, <<"q", "b">>>>)}
Small == {NoneE, Sc("int", "b"), Sc("float", "a"), Sc("u8", "lo2"), Sc("str", "a"),
          Sq("list", "int", <<2>>, <<"hi2", "b">>), Sq("list", "int", <<1>>, <<"b">>), Sq("list", "float", <<0>>, <<>>),
          Sq("nd", "f64", <<2>>, <<"a", "nan">>), SqL("i64", <<2, 2>>, <<"b", "hi2", "a", "z">>, "T"),
          Dc("float", <<<<"p", "a">>>>), Dc("float", <<<<"q", "b">>>>)}

\* thorough, three entries: everything except the middle integer widths (i16/i32/u16/u32 behave as i8/u8 in pairs already)
Large == Full \ ((Special \ SpecialCore) \cup {SqL("i64", <<1, 2>>, <<"b", "hi2">>, "S"), Sq("nd", "str", <<2>>, <<"a", "u">>),
                                                 SqL("f64", <<2, 3>>, <<"a", "b", "pinf", "nz", "fmax", "a">>, "T"),
                                                 Dc("float", <<<<"u", "a">>>>), Sc("str", "nl"), Sc("str", "tab"), Sc("str", "ld"),
                                                 Sc("str", "e"), Sq("list", "str", <<2>>, <<"t", "sp">>)}
                 \cup {Sc(k, v) : k \in {"i16", "i32", "u16", "u32"}, v \in {"hi2", "lo2", "b"}}
                 \cup {Sc("float", "b"), Sc("bool", "b"), Sc("str", "b"), Sc("i64", "b"), Sc("u64", "b"), Sc("i8", "b"),
                       Sq("list", "int", <<3>>, <<"b", "hi2", "b">>), Sq("nd", "f64", <<3>>, <<"b", "a", "b">>),
                       Sq("list", "bool", <<2>>, <<"a", "b">>), Sq("nd", "b1", <<2>>, <<"a", "b">>),
                       Dc("float", <<<<"q", "b">>>>), Dc("int", <<<<"p", "hi2">>>>), Sq("tuple", "int", <<1>>, <<"hi2">>)})

Dom(n) == IF Tier = "quick" THEN (IF n <= 2 THEN Full ELSE IF n = 3 THEN Mid ELSE Small)
          ELSE (IF n <= 2 THEN Full ELSE IF n = 3 THEN Large ELSE Small)

\* Assign(e) for every e of the domain that belongs to the next collection length (domains shrink with the length)
Assign == LET n == Len(vals) + 1 IN
          /\ n <= MaxN /\ phase = "build"
          /\ \A i \in Ix(vals) : vals[i] \in Dom(n)
          /\ \E e \in Dom(n) : AssignAny(e)

NextBuild == Assign
Next      == Assign \/ WriteStore \/ WriteRefuse \/ Read

\* one line per collection
EmitCase == (phase = "build" /\ vals # <<>>) =>
              LET p == Plan(vals) IN
              PrintT(ToJson([x |-> vals, out |-> p.out, tag |-> p.tag, st |-> p.st, nf |-> NF(vals)]))
=====================================================================================================
