----------------------------------------- MODULE ParamCodec -----------------------------------------
(* C05 -- every parameter value shape survives database encoding and decoding.

   WHAT IS MODELLED (armi/bookkeeping/db, one parameter of one component type at one time node)

     vals     the per-object collection  temp = [c.p.get(name, default) for c in comps]   (Database._writeParams)
     store    the HDF5 dataset + its attributes                                              (g.create_dataset, _writeAttrs)
     side     the "<group>/attrs/<k>_<name>" datasets that hold attributes too large for the object header
     back     what Database._readParams assigns to fresh objects (c.p[name] = val)

   Actions = linearization points of the public path
     AssignAny(e)  one more object carries a value (building the collection; no database call yet)
     WriteStore    Database._writeParams returns normally  (np.array(temp) | JaggedArray(temp), packSpecialData,
                   replaceNonesWithNonsense, create_dataset, _writeAttrs)
     WriteRefuse   Database._writeParams raises; nothing is stored (refusal: store and side unchanged)
     Read          Database._readParams  (_resolveAttrs, unpackSpecialData, replaceNonsenseWithNones,
                   JaggedArray.fromH5/unpack, .tolist(), the len(comps) check)

   Plan(x) transcribes the writer's DECISION PROCEDURE from the predicates the code evaluates
     Jagged(x)        database.py:944-949   any(isinstance(v,(ndarray,list))) and len({_getArrayShape(v)}) != 1
     PlanJagged       jaggedArray.py __init__ (which entries contribute, shapes must have one ndim), packSpecialData
                      (all-None => no dataset), h5py (object / unicode arrays cannot be written)
     PlanSeqs         np.array(temp) of equal-shape sequences; object rows -> replaceNonesWithNonsense (ndarray branch)
     PlanScalars      np.array(temp) of scalars/None/dicts: dtype U -> "S"; dtype O -> packSpecialData: all None / dict
                      branch / replaceNonesWithNonsense (NONE_MAP lookup by the type of the first non-None value, astype)
   Encode/Decode transcribe the MECHANISMS (sentinel per dtype, dict key union + NaN fill, jagged
   offsets/shapes/noneLocations with unpack's shapeIndices/counter algorithm, attribute side channel).
   NF(x) is the CONTRACT of the property statement, defined from the collection alone (it consults the writer's Jagged(x)
   only for the informational exact-dtype field d, see I4).

   Side channel: with HDF5 >= 1.10 the track_order datasets armi creates store attributes densely, so the "object header
   message is too large" fallback of _writeAttrs is no longer reachable from _writeParams; files written with it must
   still load, so PutAttrs/GetAttr stay in the model and the adapter feeds _readParams files in the fallback's form.

   Outcomes of Plan:  store | skip (accepted, all entries unset, no dataset written) | reject (must raise at write time)
                      | either  -- the code has no branch for this input (a design gap); the statement allows a refusal at
                         write time or a faithful round trip, so both WriteStore and WriteRefuse are enabled and Encode is
                         the repair that satisfies the contract.  Tags: nones:trunc, obj2d:float, jag:npscalar, jag:rag.

   INTERPRETATION CHOICES (also in evidence.assumptions)
     I1  A dataset has one dtype, so the "numeric kind" of the statement is a property of the collection: entries are
         promoted bool < int < float exactly as numpy's array constructor does, and values must be equal after that
         promotion.  Promotion to text is NOT value preserving: numbers mixed with strings must be refused (plain:mixstr).
     I2  Documented normalisations (statement + db/tests/test_jaggedArray.py::_compareArrays docstring + JaggedArray
         docstring): sequences come back as sequences (list or ndarray, not distinguished); among RAGGED entries an empty
         sequence comes back unset, a scalar number comes back as a 1-element array and an entry that is itself ragged comes
         back flattened to 1-D; NaN is the unset marker for reals: an unset entry always reads back None, a NaN scalar
         reads back None when the collection has unset entries (markers in use) and NaN otherwise; a NaN-valued dictionary
         key is an absent key (packSpecialData docstring).  Equal-shaped empty sequences stay empty sequences.
     I3  layout.py:64 "we assume no one assigns min(int)+2 as a meaningful value": a collection never contains the sentinel
         of its own dtype (signed: min+2 = "lo2", unsigned: max-2 = "hi2"); it does contain the OTHER family's sentinel.
     I4  Widths/signedness are not observable after .tolist() (python ints); exact dtypes are compared only for ragged
         results whose contributing dtypes are all equal (field d, "" = not determined by the model).
     I5  Modelled(x): a numpy-integer scalar shares a collection only with its own kind, None, strings, sequences and
         dictionaries (astype(<width>) of foreign out-of-range numbers is numpy's business, not armi's).

   Values are abstract ids; the harness owns the table id -> concrete value.  The model gives a meaning to four of them only:
   "nan" (the real marker), "lo2" = min+2 (signed marker), "hi2" = max-2 (unsigned marker), "none" (an inner None).  All
   other ids are ordinary values that must come back unchanged: "a","b", and the markers' neighbours "pinf" "ninf" (+-inf),
   "nz" (-0.0), "fmax" (largest finite real), "z" (0), "m1" (-1; unsigned: all ones), "lo1" "lo3" (min+1, min+3), "hi1" "hi3"
   (max-1, max-3).  Only NaN is unset for reals; only the one marker value of the dtype is unset for integers.
   Strings "t" "sp" "nl" "tab" "ld" "e" (trailing blanks, one blank, trailing newline, a tab, leading blanks, empty) are ordinary
   values too: white space is part of a string and must come back.
   "u" is a string (or dictionary key) with a non-ASCII character: datasets hold ASCII byte strings (astype("S")), so every
   collection that would have to store it is refused at write time (plain:nonascii, dict:nonascii; with None / among ragged
   entries strings are refused anyway).  Multi-dimensional ndarray entries carry a memory layout lay in C|F|T|S that no
   operator reads (LayoutLaw): the adapter builds the same logical array in that layout.
*)
EXTENDS Integers, Sequences, FiniteSets, TLC, Json, SequencesExt, FiniteSetsExt

CONSTANTS MaxN,        \* objects per collection explored by the model checker
          InlineMax    \* attribute arrays longer than this are stored in a side dataset (HDF5 object-header limit, scaled)

VARIABLES vals, phase, store, side, back
vars == <<vals, phase, store, side, back>>

(* ------------------------------------------------ helpers ------------------------------------------------ *)
Ix(s)     == 1..Len(s)
Cat(ss)   == FoldLeft(LAMBDA a, b : a \o b, <<>>, ss)
MulUp(sh) == FoldLeft(LAMBDA a, b : a * b, 1, sh)
AddUp(sh) == FoldLeft(LAMBDA a, b : a + b, 0, sh)
Least(S)  == CHOOSE i \in S : \A j \in S : i <= j

(* ------------------------------------------------ kinds -------------------------------------------------- *)
SInt  == {"i8", "i16", "i32", "i64"}
UInt  == {"u8", "u16", "u32", "u64"}
NpInt == SInt \cup UInt
Kinds == {"int", "float", "bool", "str", "f32", "f64", "b1"} \cup NpInt
Cls(k) == CASE k \in {"bool", "b1"}           -> "b"
            [] k \in {"int"} \cup NpInt       -> "i"
            [] k \in {"float", "f32", "f64"}  -> "f"
            [] k = "str"                      -> "s"
            [] OTHER                          -> "o"
\* dtype of an element of kind k once numpy has put it into an array
Dt(k) == CASE k = "int" -> "i64" [] k = "float" -> "f64" [] k = "bool" -> "b1" [] OTHER -> k
\* numpy result class of an array built from elements of dtypes D  (uint64 with a signed integer has no common integer type)
NumJoin(D) == IF \E d \in D : Cls(d) = "f" THEN "f"
              ELSE IF "u64" \in D /\ (\E d \in D : d \in SInt) THEN "f"
              ELSE IF \E d \in D : Cls(d) = "i" THEN "i" ELSE "b"
ArrCls(D)  == IF D = {} THEN "" ELSE IF "O" \in D THEN "o" ELSE IF "str" \in D THEN "s" ELSE NumJoin(D)
ExactDt(D) == IF Cardinality(D) = 1 THEN CHOOSE d \in D : TRUE ELSE ""

(* ------------------------------------------------ entries ------------------------------------------------
   [t |-> "none"]
   [t |-> "sc",   k, v]                 scalar of kind k, value id v
   [t |-> "seq",  c, k, sh, vs]         rectangular sequence: container c in nd|list|tuple, element kind k, shape sh,
                                        row-major value ids vs ("none" = an inner None, list/tuple only)
   [t |-> "rag",  c, k, rows]           a list whose members are lists of different lengths
   [t |-> "dict", k, m]                 dict[str, number]: m = sequence of <<key, value id>> sorted by key            *)
Leaves(e)    == IF e.t = "seq" THEN e.vs ELSE Cat(e.rows)
TopLen(e)    == IF e.t = "seq" THEN e.sh[1] ELSE Len(e.rows)
FullShape(e) == IF e.t = "seq" THEN e.sh ELSE <<-2>>
InnerNone(e) == \E j \in Ix(Leaves(e)) : Leaves(e)[j] = "none"
ElemDt(e)    == IF Len(Leaves(e)) = 0 THEN "f64" ELSE IF InnerNone(e) THEN "O" ELSE Dt(e.k)

NoneE            == [t |-> "none"]
Sc(k, v)         == [t |-> "sc", k |-> k, v |-> v]
Sq(c, k, sh, vs) == [t |-> "seq", c |-> c, k |-> k, sh |-> sh, vs |-> vs, lay |-> "C"]
\* memory layout of a multi-dimensional ndarray entry: C (row major), F (Fortran ordered), T (transposed view), S (strided,
\* non-contiguous slice).  A don't-care attribute: the abstract value (sh, vs in logical row-major order) is the same.
SqL(k, sh, vs, lay) == [t |-> "seq", c |-> "nd", k |-> k, sh |-> sh, vs |-> vs, lay |-> lay]
Rg(k, rows)      == [t |-> "rag", c |-> "list", k |-> k, rows |-> rows]
Dc(k, m)         == [t |-> "dict", k |-> k, m |-> m]

ScIdx(x) == {i \in Ix(x) : x[i].t = "sc"}
SqIdx(x) == {i \in Ix(x) : x[i].t \in {"seq", "rag"}}
DcIdx(x) == {i \in Ix(x) : x[i].t = "dict"}
NoIdx(x) == {i \in Ix(x) : x[i].t = "none"}
ScKinds(x) == {x[i].k : i \in ScIdx(x)}

Modelled(x) == \A i, j \in ScIdx(x) : (x[i].k \in NpInt /\ x[j].k # x[i].k) => Cls(x[j].k) = "s"      \* I5

(* ------------------------------------- the writer's decision procedure ------------------------------------ *)
R(out, tag, st) == [out |-> out, tag |-> tag, st |-> st]

\* database.py _getArrayShape: ndarray -> .shape; list/tuple -> (len,); anything else -> the int 1
ShapeKey(e) == IF e.t = "seq" /\ e.c = "nd" THEN e.sh ELSE IF e.t \in {"seq", "rag"} THEN <<TopLen(e)>> ELSE <<-1>>
IsLA(e)     == e.t \in {"seq", "rag"} /\ e.c \in {"nd", "list"}             \* isinstance(x, (np.ndarray, list)): no tuple
Jagged(x)   == (\E i \in Ix(x) : IsLA(x[i])) /\ Cardinality({ShapeKey(x[i]) : i \in Ix(x)}) # 1

\* JaggedArray.__init__: entries that put data into the flattened array
Contrib(x) == {i \in Ix(x) : (x[i].t \in {"seq", "rag"} /\ TopLen(x[i]) > 0) \/ x[i].t = "sc"}
JShape(e)  == CASE e.t = "seq" -> e.sh [] e.t = "rag" -> <<Len(Leaves(e))>> [] OTHER -> <<1>>
JDts(x)    == {IF x[i].t = "sc" THEN Dt(x[i].k) ELSE ElemDt(x[i]) : i \in Contrib(x)}

PlanJagged(x) ==
  LET alien == \E i \in Ix(x) : x[i].t = "dict" \/ (x[i].t = "sc" /\ x[i].k = "str")    \* no branch, cannot be a number array
      npsc  == \E i \in ScIdx(x) : x[i].k \notin {"int", "float", "bool", "f64", "str"}      \* isinstance(arr, (int, float)) fails
      rag   == \E i \in Ix(x) : x[i].t = "rag"
      C     == Contrib(x)
      c     == ArrCls(JDts(x))
      gap   == IF npsc THEN "jag:npscalar" ELSE IF rag THEN "jag:rag" ELSE ""
  IN IF alien THEN R("reject", "jag:alien", "none")
     ELSE IF C = {} THEN R("skip", "skip", "skip")                                            \* flattened array empty: "Everything is None"
     ELSE IF Cardinality({Len(JShape(x[i])) : i \in C}) # 1 THEN R("reject", IF gap # "" THEN gap ELSE "jag:ndim", "none")
     ELSE IF c = "o" THEN R("reject", IF gap # "" THEN gap ELSE "jag:obj", "none")            \* h5py: object dtype
     ELSE IF c = "s" THEN R("reject", IF gap # "" THEN gap ELSE "jag:str", "none")            \* h5py: <U dtype (no astype("S") on this path)
     ELSE IF gap # "" THEN R("either", gap, "jagged")
     ELSE R("store", "jag", "jagged")

\* rows of a 2-D object array (inner None): replaceNonesWithNonsense, ndarray branch: realType = type(next(val.flat))
PlanObj2d(x) ==
  LET rows == {i \in Ix(x) : x[i].vs[1] # "none"}
      k1   == IF rows = {} THEN "float" ELSE x[Least(rows)].k
  IN IF Cls(k1) = "f" /\ ~(\E i \in Ix(x) : x[i].k = "str")
     THEN R("either", "obj2d:float", "plain")         \* documented as unsupported (layout.py:769); stored with a bare specialFormatting
     ELSE R("reject", "obj2d:reject", "none")

PlanSeqs(x) ==
  IF SqIdx(x) # Ix(x) \/ Cardinality({FullShape(x[i]) : i \in Ix(x)}) # 1 \/ (\E i \in Ix(x) : x[i].t = "rag")
  THEN R("reject", "rect:inhomog", "none")            \* numpy: inhomogeneous shape
  ELSE LET D == {ElemDt(x[i]) : i \in Ix(x)}
           c == ArrCls(D)
       IN CASE c = "o" -> PlanObj2d(x)
            [] c = "s" -> IF D # {"str"} THEN R("reject", "plain:mixstr", "none")
                          ELSE IF \E i \in Ix(x) : \E j \in Ix(x[i].vs) : x[i].vs[j] = "u"
                               THEN R("reject", "plain:nonascii", "none")       \* astype("S"): UnicodeEncodeError
                          ELSE R("store", "plain:str", "plain")
            [] OTHER   -> R("store", "plain:seq", "plain")

PlanScalars(x) ==
  IF DcIdx(x) # {} THEN
       IF DcIdx(x) # Ix(x) THEN R("reject", "dict:mixed", "none")                       \* {k for d in data for k in d} / d.get
       ELSE IF \E i \in Ix(x) : x[i].k = "str" THEN R("reject", "dict:str", "none")      \* <U matrix
       ELSE IF \E i \in Ix(x) : \E j \in Ix(x[i].m) : x[i].m[j][1] = "u"
            THEN R("reject", "dict:nonascii", "none")                                    \* np.array(keys).astype("S")
       ELSE R("store", "dict", "dict")
  ELSE IF NoIdx(x) = Ix(x) THEN R("skip", "skip", "skip")
  ELSE IF NoIdx(x) # {} THEN
       LET rt == x[Least(ScIdx(x))].k IN                                                 \* type of the first non-None value
       IF rt \in {"bool", "b1", "f32"} THEN R("reject", "nones:badtype", "none")         \* not in NONE_MAP
       ELSE IF "str" \in ScKinds(x) THEN R("reject", "nones:str", "none")                \* astype fails / <U cannot be written
       ELSE IF Cls(rt) = "f" THEN R("store", "nones:float", "nones")
       ELSE IF \E i \in ScIdx(x) : x[i].v = "nan" THEN R("reject", "nones:nanint", "none")
       ELSE IF \E k \in ScKinds(x) : Cls(k) = "f" THEN R("either", "nones:trunc", "nones")   \* astype(int) of reals: no check in the code
       ELSE R("store", IF rt \in UInt THEN "nones:uint" ELSE "nones:int", "nones")
  ELSE IF "str" \in ScKinds(x)
       THEN (IF ScKinds(x) # {"str"} THEN R("reject", "plain:mixstr", "none")
             ELSE IF \E i \in ScIdx(x) : x[i].v = "u" THEN R("reject", "plain:nonascii", "none")   \* astype("S"): UnicodeEncodeError
             ELSE R("store", "plain:str", "plain"))
  ELSE R("store", "plain:num", "plain")

Plan(x) == IF Jagged(x) THEN PlanJagged(x) ELSE IF SqIdx(x) # {} THEN PlanSeqs(x) ELSE PlanScalars(x)

(* ------------------------------------------- the contract: NF ---------------------------------------------- *)
U == [t |-> "U"]
\* inside a real-valued array an inner None can only be NaN; NaN stays NaN
Tok(v) == IF v = "none" THEN "nan" ELSE v
Ragged(x) == SqIdx(x) # {} /\ ~(SqIdx(x) = Ix(x) /\ (\A i \in Ix(x) : x[i].t = "seq")
                                /\ Cardinality({x[i].sh : i \in Ix(x)}) = 1)
\* dtypes of everything that carries a value (inner None ignored)
ValDts(x) == {Dt(x[i].k) : i \in {j \in ScIdx(x) \cup SqIdx(x) : x[j].t = "sc" \/ Len(Leaves(x[j])) > 0}}
KeysOf(e)  == [j \in Ix(e.m) |-> e.m[j][1]]
\* the value matrix is integer only if every dictionary is integer valued and no NaN had to be filled in
DictCls(x) == IF \A i \in DcIdx(x) : x[i].k = "int" /\ (\A j \in DcIdx(x) : KeysOf(x[j]) = KeysOf(x[i])) THEN "i" ELSE "f"
Kept(e) == SelectSeq(e.m, LAMBDA p : p[2] # "nan")
NF(x) ==
  LET cls == ArrCls(ValDts(x))
      dt  == IF Jagged(x) THEN ExactDt(JDts(x)) ELSE ""        \* I4
  IN [i \in Ix(x) |->
       LET e == x[i] IN
       CASE e.t = "none" -> U
         [] e.t = "dict" -> [t |-> "dict", c |-> IF Kept(e) = <<>> THEN "" ELSE DictCls(x), m |-> Kept(e)]
         [] e.t = "sc"   -> IF Ragged(x) THEN [t |-> "seq", c |-> cls, d |-> dt, sh |-> <<1>>, vs |-> <<Tok(e.v)>>]
                            ELSE IF e.v = "nan" /\ NoIdx(x) # {} THEN U       \* NaN is the unset marker once markers are in use
                            ELSE [t |-> "sc", c |-> cls, v |-> e.v]
         [] OTHER        -> IF Ragged(x) /\ TopLen(e) = 0 THEN U
                            ELSE [t |-> "seq", c |-> IF Len(Leaves(e)) = 0 THEN "" ELSE cls,
                                  d |-> IF Len(Leaves(e)) = 0 THEN "" ELSE dt, sh |-> JShape(e),
                                  vs |-> [j \in Ix(Leaves(e)) |-> Tok(Leaves(e)[j])]]]

(* ------------------------------------------- mechanisms: encode -------------------------------------------- *)
NoStore == [st |-> "absent"]
\* layout.py NONE_MAP: nan for reals, min+2 for signed, max-2 for unsigned
Snt(k) == IF Cls(k) = "f" THEN "nan" ELSE IF k \in UInt THEN "hi2" ELSE "lo2"

\* Database._writeAttrs: try obj.attrs[k] = v; "object header message is too large" => dataset <group>/attrs/<n>_<k> + "@path"
PutAttrs(pairs) ==
  FoldLeft(LAMBDA acc, p : IF Len(p[2]) > InlineMax
                           THEN [a |-> Append(acc.a, <<p[1], "@", Len(acc.s) + 1>>), s |-> Append(acc.s, p[2])]
                           ELSE [a |-> Append(acc.a, <<p[1], "=", p[2]>>), s |-> acc.s],
           [a |-> <<>>, s |-> <<>>], pairs)
\* Database._resolveAttrs
GetAttr(attrs, sd, name) ==
  LET p == attrs[CHOOSE j \in Ix(attrs) : attrs[j][1] = name] IN IF p[2] = "@" THEN sd[p[3]] ELSE p[3]

EncPlain(x) == [st |-> "plain", k |-> "", data |-> [i \in Ix(x) |-> x[i]], flags |-> {}, attrs |-> <<>>]

EncNones(x) ==
  LET rt == x[Least(ScIdx(x))].k
      dk == IF \E k \in ScKinds(x) : Cls(k) = "f" THEN "f64" ELSE rt      \* repair of nones:trunc = promote like np.array does
  IN [st |-> "nones", k |-> dk, data |-> [i \in Ix(x) |-> IF x[i].t = "none" THEN Snt(dk) ELSE x[i].v],
      flags |-> {"specialFormatting", "nones"}, attrs |-> <<>>]

DictKeyOrder == <<"p", "q", "r", "u">>       \* sorted(...) over the key alphabet of the model ("u" = a non-ASCII key, never stored)
ValueAt(e, key) == IF \E j \in Ix(e.m) : e.m[j][1] = key THEN e.m[CHOOSE j \in Ix(e.m) : e.m[j][1] = key][2] ELSE "nan"
EncDict(x) ==
  LET keys == SelectSeq(DictKeyOrder, LAMBDA key : \E i \in Ix(x) : \E j \in Ix(x[i].m) : x[i].m[j][1] = key)
  IN [st |-> "dict", k |-> DictCls(x), data |-> [i \in Ix(x) |-> [j \in Ix(keys) |-> ValueAt(x[i], keys[j])]],
      flags |-> {"specialFormatting", "dict"}, attrs |-> <<<<"keys", keys>>>>]

\* JaggedArray.__init__ (0-based offsets and none locations, as written to the file)
JagPack(x) ==
  FoldLeft(LAMBDA acc, i :
             IF i \in Contrib(x)
             THEN [acc EXCEPT !.offsets = Append(@, Len(acc.flat)), !.shapes = Append(@, JShape(x[i])),
                              !.flat = @ \o (IF x[i].t = "sc" THEN <<x[i].v>> ELSE Leaves(x[i]))]
             ELSE [acc EXCEPT !.nones = Append(@, i - 1)],
           [flat |-> <<>>, offsets |-> <<>>, shapes |-> <<>>, nones |-> <<>>], [i \in Ix(x) |-> i])
EncJagged(x) ==
  LET j == JagPack(x)
  IN [st |-> "jagged", k |-> ExactDt(JDts(x)), data |-> j.flat, flags |-> {"specialFormatting", "jagged"},
      attrs |-> <<<<"offsets", j.offsets>>, <<"shapes", j.shapes>>, <<"noneLocations", j.nones>>>>]

Encode(x) ==
  LET p == Plan(x)
      e == CASE p.st = "plain"  -> EncPlain(x)
             [] p.st = "nones"  -> EncNones(x)
             [] p.st = "dict"   -> EncDict(x)
             [] p.st = "jagged" -> EncJagged(x)
             [] OTHER           -> [st |-> "skip", k |-> "", data |-> <<>>, flags |-> {}, attrs |-> <<>>]
      w == PutAttrs(e.attrs)
  IN [store |-> [e EXCEPT !.attrs = w.a] @@ [cls |-> ArrCls(ValDts(x))], side |-> w.s]

(* ------------------------------------------- mechanisms: decode -------------------------------------------- *)
Err == <<[t |-> "ERR"]>>

DecPlain(s) ==
  [i \in Ix(s.data) |->
     LET e == s.data[i] IN
     IF e.t = "sc" THEN [t |-> "sc", c |-> s.cls, v |-> e.v]
     ELSE [t |-> "seq", c |-> IF Len(e.vs) = 0 THEN "" ELSE s.cls, d |-> "", sh |-> e.sh, vs |-> [j \in Ix(e.vs) |-> Tok(e.vs[j])]]]

\* layout.py replaceNonsenseWithNones: the marker tested is the one of the DATASET dtype
DecNones(s) == [i \in Ix(s.data) |-> IF s.data[i] = Snt(s.k) THEN U ELSE [t |-> "sc", c |-> s.cls, v |-> s.data[i]]]

DecDict(s, sd) ==
  LET keys == GetAttr(s.attrs, sd, "keys") IN
  [i \in Ix(s.data) |->
     LET m == SelectSeq([j \in Ix(keys) |-> <<keys[j], s.data[i][j]>>], LAMBDA p : p[2] # "nan")
     IN [t |-> "dict", c |-> IF m = <<>> THEN "" ELSE s.k, m |-> m]]

\* JaggedArray.unpack
DecJagged(s, sd) ==
  LET offsets == GetAttr(s.attrs, sd, "offsets")
      shapes  == GetAttr(s.attrs, sd, "shapes")
      nones   == GetAttr(s.attrs, sd, "noneLocations")
      nn      == {nones[j] : j \in Ix(nones)}
      shapeIx == SelectSeq([j \in Ix(shapes) |-> j], LAMBDA j : AddUp(shapes[j]) # 0)
      num     == Len(shapeIx) + Len(nones)
  IN [i \in 1..num |->
        IF (i - 1) \in nn THEN U
        ELSE LET j == i - Cardinality({m \in nn : m < i - 1})          \* the non-None counter
                 k == shapeIx[j]
                 n == MulUp(shapes[k])
             IN [t |-> "seq", c |-> s.cls, d |-> s.k, sh |-> shapes[k],
                 vs |-> [q \in 1..n |-> Tok(s.data[offsets[k] + q])]]]

Decode(s, sd, n) ==
  LET d == CASE s.st = "skip"   -> [i \in 1..n |-> U]          \* no dataset: the parameter keeps its default (None)
             [] s.st = "plain"  -> DecPlain(s)
             [] s.st = "nones"  -> DecNones(s)
             [] s.st = "dict"   -> DecDict(s, sd)
             [] s.st = "jagged" -> DecJagged(s, sd)
             [] OTHER           -> Err
  IN IF Len(d) # n THEN Err ELSE d                               \* _readParams: len(comps) != len(unpackedData) raises

(* ------------------------------------------------ actions -------------------------------------------------- *)
Init == vals = <<>> /\ phase = "build" /\ store = NoStore /\ side = <<>> /\ back = <<>>

AssignAny(e) == /\ phase = "build" /\ Modelled(Append(vals, e))
                /\ vals' = Append(vals, e) /\ UNCHANGED <<phase, store, side, back>>

WriteStore == /\ phase = "build" /\ vals # <<>> /\ Plan(vals).out \in {"store", "skip", "either"}
              /\ LET enc == Encode(vals) IN store' = enc.store /\ side' = enc.side
              /\ phase' = "stored" /\ UNCHANGED <<vals, back>>

WriteRefuse == /\ phase = "build" /\ vals # <<>> /\ Plan(vals).out \in {"reject", "either"}
               /\ phase' = "refused" /\ UNCHANGED <<vals, store, side, back>>

Read == /\ phase = "stored"
        /\ back' = Decode(store, side, Len(vals))
        /\ phase' = "read" /\ UNCHANGED <<vals, store, side>>

(* ------------------------------------------------ properties ----------------------------------------------- *)
Outcomes == {"store", "skip", "reject", "either"}
TypeOK == /\ phase \in {"build", "stored", "refused", "read"}
          /\ Plan(vals).out \in Outcomes                                   \* the decision procedure is total
          /\ (phase = "build") => (store = NoStore /\ back = <<>>)

\* clause: "returned on reading with the same values, shapes, numeric kinds and unset positions, up to the normalisations"
RoundTrip == phase = "read" => back = NF(vals)
\* clause: "with any pattern of unset entries"
UnsetPositions == phase = "read" => \A i \in Ix(vals) : vals[i].t = "none" => back[i] = U
\* clause: "rejected with an error at write time; it is never stored as something that reads back different"
RefusalStoresNothing == phase = "refused" => (store = NoStore /\ side = <<>> /\ back = <<>>)
ReadNeverFails == phase = "read" => back # Err
\* all-unset collections: no dataset, and every entry reads back unset
SkipIsAllUnset == (phase \in {"stored", "read"} /\ store.st = "skip") => \A i \in Ix(vals) : NF(vals)[i] = U
\* attribute side channel: every attribute resolves to what was written
AttrsResolve == phase \in {"stored", "read"} =>
                  \A j \in Ix(store.attrs) : store.attrs[j][2] = "@" => store.attrs[j][3] \in Ix(side)
\* memory layout is a don't-care: outcome and normal form of a collection do not depend on it
Canon(x) == [i \in Ix(x) |-> IF x[i].t = "seq" THEN [x[i] EXCEPT !.lay = "C"] ELSE x[i]]
LayoutLaw == (phase = "build" /\ \E i \in Ix(vals) : vals[i].t = "seq" /\ vals[i].lay # "C") =>
               (Plan(vals) = Plan(Canon(vals)) /\ NF(vals) = NF(Canon(vals)))
\* the harness scales collections by tiling them (to push attributes over the real 64 KiB header limit); justified by:
TilingLaw == (phase = "build" /\ vals # <<>> /\ Len(vals) <= 2) =>
               /\ Plan(vals \o vals).out = Plan(vals).out
               /\ NF(vals \o vals) = NF(vals) \o NF(vals)
=====================================================================================================
