\* trace validation: 4 objects (2 at the start) on 5 positions, 2 parameters x {unset,1,2,3}, cycles / nodes <= 99, 7 labels (some with ' ', '-', '.'), <= 40 snapshots
CONSTANTS NObj = 4  NInit = 2  NLoc = 5  NPar = 2  NVal = 3  MaxC = 99  MaxN = 99  MaxSnaps = 40  MaxLevel = 999
CONSTANT Labels <- TraceLabels
SPECIFICATION TSpec
CONSTRAINT Progress
POSTCONDITION Report
INVARIANT TypeOK
INVARIANT Isolation
INVARIANT Chronological
INVARIANT SuccessMark
CHECK_DEADLOCK FALSE
