-------------------------------------- MODULE ParamCodec_trace --------------------------------------
(* code -> spec: histories recorded from the real Database._writeParams / _readParams on seeded random collections
   (longer and more varied than the model checker's domain) must be behaviours of ParamCodec, event by event:
   Assign(e)* ; Write (stored | refused) ; Read (the projected values read back must equal the specification's).     *)
EXTENDS ParamCodec, IOUtils, TLCExt
Traces == ndJsonDeserialize(IOEnv.TRACE_FILE)
NT     == Len(Traces)
VARIABLES tid, l
ASSUME \A t \in 1..NT : TLCSet(t, 0)
TInit == Init /\ tid \in 1..NT /\ l = 1
Ev == Traces[tid].ev[l]
A  == Ev.a
\* The statement allows the code to store MORE than the transcribed writer does, provided it reads back in normal form
\* (the replay direction reports such collections as "faithful but unmodelled" notes, not as violations):
WriteBeyond == /\ phase = "build" /\ vals # <<>> /\ Plan(vals).out = "reject"
               /\ store' = [st |-> "beyond", k |-> "", data |-> <<>>, flags |-> {}, attrs |-> <<>>, cls |-> ""]
               /\ side' = <<>> /\ phase' = "stored" /\ UNCHANGED <<vals, back>>
ReadBeyond  == /\ phase = "stored" /\ store.st = "beyond"
               /\ back' = NF(vals) /\ phase' = "read" /\ UNCHANGED <<vals, store, side>>
Step == \/ A.n = "Assign" /\ AssignAny(A.e)
        \/ A.n = "Write" /\ (WriteStore \/ WriteRefuse \/ WriteBeyond)
        \/ A.n = "Read" /\ (Read \/ ReadBeyond)
\* exact dtypes are observations only where the specification determines them (I4)
Relax(nf, got) == [i \in Ix(got) |-> IF i <= Len(nf) /\ nf[i].t = "seq" /\ got[i].t = "seq" /\ nf[i].d = ""
                                     THEN [got[i] EXCEPT !.d = ""] ELSE got[i]]
Matches == /\ phase' = Ev.post.phase
           /\ phase' = "read" => Relax(back', Ev.post.back) = back'
ObsMatch == \/ Matches
            \/ /\ ~Matches
               /\ PrintT(ToJson([mismatch |-> Traces[tid].id, at |-> l, phase |-> phase', plan |-> Plan(vals'), expected |-> back']))
               /\ FALSE
TNext == /\ l <= Len(Traces[tid].ev) /\ l' = l + 1 /\ tid' = tid
         /\ Step
         /\ ObsMatch
TSpec == TInit /\ [][TNext]_<<vars, tid, l>>
Progress == IF TLCGet(tid) < l THEN TLCSet(tid, l) ELSE TRUE
Report == LET bad == {t \in 1..NT : TLCGet(t) # Len(Traces[t].ev) + 1} IN
          /\ \A t \in bad : PrintT(ToJson([rejected |-> Traces[t].id, matched |-> TLCGet(t) - 1]))
          /\ PrintT(ToJson([accepted |-> NT - Cardinality(bad), of |-> NT]))
=====================================================================================================
