----------------------------------------- MODULE DbState_mc -----------------------------------------
(* bounded exhaustive exploration of DbState: every history of <= MaxLevel calls on the 9-node reactor *)
EXTENDS DbState
Bound == TLCGet("level") <= MaxLevel
\* the last action is a label, not state
View  == <<live, files, snap, loaded, src, flags>>
=====================================================================================================
