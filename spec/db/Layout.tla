------------------------------------------- MODULE Layout -------------------------------------------
(* C04 -- a reactor saved to the database loads back observationally equal: the LAYOUT part.

   WHAT IS MODELLED (armi/bookkeeping/db/layout.py, database.py; armi/reactor/composites.py, components/component.py)

   A model state  t  is a sequence of node records (root = t[1], node ids = positions, any numbering):
     ty nm sn      class name, name, serial number                                  (Layout.type/name/serialNum)
     kids          ordered children (node ids), the IN-MEMORY order                  (Composite._children)
     lk, loc       spatial locator: "N" none | "C" free coordinates | "I" grid index | "M" multi-index;
                   loc = sequence of triples: C -> one triple of reals (as strings), I -> one triple of integers (LOCAL
                   indices), M -> one integer triple per sub-location, N -> <<>>      (grids/locations.py)
     lg            node that owns the grid the locator lives in (0 = no grid)       (locator.grid.armiObject)
                   -- the parent for I and M; 0 or the parent for C (a CoordinateLocation may carry its parent's grid)
     grid          the node's own spatialGrid: [raw, obs, ax];  raw = (class name, reduce()) -- the writer's
                   deduplication key --, obs = the same with the public geomType/symmetry, ax = isAxialOnly; NoGrid if none
     cmp, ck       is a Component; its sort key (dense ranks of bounding-circle OD and inner diameter, cold)
     mat, tmp      material class name; <<Tinput, Thot>> (<<>> for objects without a material)
     pd pn pp      values of the persistent parameters: dimensions (with links), composition, all others      } opaque,
     oc od om      public queries: coordinates; resolved dimensions; material/temperature/area/volume/mass/densities } compared by =

   OPERATORS = the code's mechanisms
     Less / SortKids / Order   sorted(list(comp)) in Layout._createLayout and Composite.sort in Database.load:
                               ArmiObject.__lt__ (reversed getCompleteIndices, same grid required) and Component.__lt__
                               (bounding circle OD, then ID); python's sort is stable -> stable insertion by Less
     Complete                  IndexLocation.getCompleteIndices: an axial-only grid adds the indices of its owner's locator
                               when that locator lives in a grid that is not axial-only (locations.py addingIsValid)
     Flatten                   Layout._createLayout + _packLocationsV3 + Layout.writeToDB: depth-first arrays
                               type,name,serialNum,indexInData(per type),numChildren,locationType,location(multi expanded),
                               gridIndex(+grids, deduplicated by raw),material,temperatures((-900,-900) and "" without material)
     Unflatten                 Layout._readLayout + _unpackLocationsV2 + Layout._initComps + Database._compose: the recursive
                               consumer of numChildren; locators re-created in the parent's grid
     Load                      Database.load = Canon(Unflatten(file))  (root.sort() with the loaded objects' own keys)
     Ancestors                 Layout.computeAncestors (two stacks), transcribed statement by statement
     Sortable                  when _createLayout's sorted() raises: composite siblings (>= 2) without locator, with a
                               multi-index locator, or living in different grids -> the write is REFUSED, nothing stored

   The parameter datasets (<Type>/<param>, indexed by indexInData) are C05's subject; here they are the ghost component
   `par` of a file: the values the writer hands to the codec, in file order.  C04 checks them end to end (loaded value =
   original value) and checks the file's layout/* datasets literally.

   INTERPRETATION CHOICES (also in evidence.assumptions)
     I1  "same child order" = the canonical sibling order both writer and loader apply (Canon); a reactor whose
         in-memory order differs is equal up to it (ARMI's documented sortReactor behaviour).
     I2  Equality of persistent parameters is equality of VALUES in the C05 normal form (python/numpy scalar and
         list/array types not distinguished, unset = default); the loader re-assigns defaults, `assigned` bits are not compared.
     I3  A loaded material is a fresh instance: compared by class and through the component's observable queries.
     I4  A block in an Assembly is re-indexed by Assembly.add: the loader must produce LOCAL indices again
         (file stores complete indices); Unflatten subtracts what Complete added.
     I5  Grids are compared by obs (class, unit steps, bounds, limits, offset, public geomType, symmetry); the private
         spelling "hex_corners_up" vs "hex" of the same GeomType is not an observable difference.  The file must hold raw.
*)
EXTENDS Integers, Sequences, FiniteSets, TLC, Json, SequencesExt, FiniteSetsExt

NoGrid   == [raw |-> "", obs |-> "", ax |-> FALSE]
NoneIdx  == "-9223372036854775806"     \* layout.py NONE_MAP[int] = iinfo(int64).min + 2, as replaceNonesWithNonsense stores it
NoTemp   == <<"-900.0", "-900.0">>     \* layout.py:234 "an impossible temperature"
Zero3    == <<0, 0, 0>>
ZeroRow  == <<"0.0", "0.0", "0.0">>    \* layout.py:659 locDatum of a missing locator

Ix(s)    == 1..Len(s)
Cat(ss)  == FoldLeft(LAMBDA a, b : a \o b, <<>>, ss)
AddUp(s) == FoldLeft(LAMBDA a, b : a + b, 0, s)
Real(i)  == ToString(i) \o ".0"        \* the location dataset is real-valued: the integer i is stored as the real i
Row(tr)  == <<Real(tr[1]), Real(tr[2]), Real(tr[3])>>
Add3(a, b) == <<a[1] + b[1], a[2] + b[2], a[3] + b[3]>>
Sub3(a, b) == <<a[1] - b[1], a[2] - b[2], a[3] - b[3]>>
Rev3(a)  == <<a[3], a[2], a[1]>>
LexLess(a, b) == \E i \in Ix(a) : a[i] < b[i] /\ \A j \in 1..(i - 1) : a[j] = b[j]

(* ------------------------------------------------ tree helpers ------------------------------------------- *)
\* parent of every node (0 for the root / unreachable nodes), one pass over the child lists
ParentMap(t) == FoldLeft(LAMBDA acc, p : FoldLeft(LAMBDA a, c : [a EXCEPT ![c] = p], acc, t[p].kids),
                         [n \in Ix(t) |-> 0], [p \in Ix(t) |-> p])
Parent(t, n) == ParentMap(t)[n]

\* IndexLocation.getCompleteIndices (locations.py:258): one level, never recursive
AddsOwner(t, n) == LET o == t[n].lg IN
                   /\ t[n].lk = "I" /\ o # 0
                   /\ t[o].grid.ax
                   /\ t[o].lk \in {"I", "C"} /\ t[o].lg # 0 /\ ~t[t[o].lg].grid.ax      \* (the owner then has a parent: WellFormed)
Complete(t, n) == IF t[n].lk = "C" THEN Zero3                       \* CoordinateLocation.getCompleteIndices: "top of chain"
                  ELSE IF AddsOwner(t, n) /\ t[t[n].lg].lk = "I" THEN Add3(t[n].loc[1], t[t[n].lg].loc[1])
                  ELSE t[n].loc[1]

(* ------------------------------------------------ sibling order ------------------------------------------ *)
Less(t, a, b) == IF t[a].cmp THEN LexLess(t[a].ck, t[b].ck)                       \* Component.__lt__
                 ELSE LexLess(Rev3(Complete(t, a)), Rev3(Complete(t, b)))        \* ArmiObject.__lt__
Ins(t, s, x)  == LET k == Cardinality({i \in Ix(s) : ~Less(t, x, s[i])})
                 IN SubSeq(s, 1, k) \o <<x>> \o SubSeq(s, k + 1, Len(s))
SortKids(t, ks) == FoldLeft(LAMBDA acc, x : Ins(t, acc, x), <<>>, ks)

\* sorted() raises (composites.py:361-372, locations.py:420): the write is refused
SortableKids(t, ks) == \/ Len(ks) < 2
                       \/ \A i \in Ix(ks) : t[ks[i]].cmp
                       \/ /\ \A i \in Ix(ks) : ~t[ks[i]].cmp /\ t[ks[i]].lk \in {"I", "C"}
                          /\ \A i, j \in Ix(ks) : t[ks[i]].lg = t[ks[j]].lg
Sortable(t) == \A n \in Ix(t) : SortableKids(t, t[n].kids)

RECURSIVE Order(_, _)
Order(t, n) == LET ks == SortKids(t, t[n].kids) IN <<n>> \o Cat([i \in Ix(ks) |-> Order(t, ks[i])])
RECURSIVE MemOrder(_, _)
MemOrder(t, n) == <<n>> \o Cat([i \in Ix(t[n].kids) |-> MemOrder(t, t[n].kids[i])])

\* a tree: every node reachable from the root exactly once; the structural assumptions the projection must meet
IsTree(t) == LET o == MemOrder(t, 1) IN Len(o) = Len(t) /\ {o[i] : i \in Ix(o)} = Ix(t)
WellFormed(t) == /\ IsTree(t)
                 /\ LET pm == ParentMap(t) IN
                    \A n \in Ix(t) : /\ t[n].lk \in {"N", "C", "I", "M"}
                                    /\ ((t[n].lk \in {"I", "M"}) => (t[n].lg # 0 /\ t[n].lg = pm[n] /\ t[t[n].lg].grid # NoGrid))
                                    /\ ((t[n].lk = "N") => (t[n].lg = 0))
                                    \* a CoordinateLocation may or may not be attached to its parent's grid
                                    /\ ((t[n].lk = "C") => (t[n].lg = 0 \/ (t[n].lg = pm[n] /\ t[t[n].lg].grid # NoGrid)))
                                    /\ Len(t[n].loc) = (CASE t[n].lk = "N" -> 0 [] t[n].lk = "M" -> Len(t[n].loc) [] OTHER -> 1)

Pos(seq, x) == CHOOSE i \in Ix(seq) : seq[i] = x
Canon(t) == LET ord == Order(t, 1)
                inv == FoldLeft(LAMBDA acc, i : [acc EXCEPT ![ord[i]] = i], [n \in Ix(t) |-> 0], [i \in Ix(ord) |-> i])
            IN TLCEval([i \in Ix(ord) |->           \* TLCEval: TLC would otherwise re-evaluate the lazy function at every use
                  LET nd == t[ord[i]] IN
                  [nd EXCEPT !.kids = LET ks == SortKids(t, nd.kids) IN [k \in Ix(ks) |-> inv[ks[k]]],
                             !.lg   = IF nd.lg = 0 THEN 0 ELSE inv[nd.lg]]])

(* ------------------------------------------------ the writer --------------------------------------------- *)
(* An abstract file keeps index rows as integers and coordinate rows as the reals they are; FileObs renders it the
   way h5py shows layout/*: locationType "M:<k>", a real-valued location table, gridIndex with the None marker.      *)
LocRows(t, n) == CASE t[n].lk = "N" -> <<Zero3>>                                      \* layout.py:659 dummy row
                   [] t[n].lk = "C" -> <<t[n].loc[1]>>                               \* stored as they are (:666)
                   [] t[n].lk = "I" -> <<Complete(t, n)>>                            \* :661
                   [] OTHER         -> t[n].loc                                       \* :669 sub-location indices
\* grids in order of first appearance, deduplicated by the writer's key (layout.py:217-225)
Dedup(s) == FoldLeft(LAMBDA acc, x : IF \E i \in Ix(acc) : acc[i].raw = x.raw THEN acc ELSE Append(acc, x), <<>>, s)
Flatten(t) ==
    LET ord  == Order(t, 1)
        nd(i) == t[ord[i]]
        gs   == Dedup(SelectSeq([i \in Ix(ord) |-> nd(i).grid], LAMBDA g : g # NoGrid))
    IN TLCEval(
       [type         |-> [i \in Ix(ord) |-> nd(i).ty],
        name         |-> [i \in Ix(ord) |-> nd(i).nm],
        serialNum    |-> [i \in Ix(ord) |-> nd(i).sn],
        indexInData  |-> [i \in Ix(ord) |-> Cardinality({j \in 1..(i - 1) : nd(j).ty = nd(i).ty})],
        numChildren  |-> [i \in Ix(ord) |-> Len(nd(i).kids)],
        ltype        |-> [i \in Ix(ord) |-> nd(i).lk],
        lcount       |-> [i \in Ix(ord) |-> IF nd(i).lk = "M" THEN Len(nd(i).loc) ELSE 1],
        rows         |-> Cat([i \in Ix(ord) |-> LocRows(t, ord[i])]),
        gridIndex    |-> [i \in Ix(ord) |-> IF nd(i).grid = NoGrid THEN 0
                                           ELSE Pos([k \in Ix(gs) |-> gs[k].raw], nd(i).grid.raw)],   \* 1-based, 0 = None
        grids        |-> gs,                     \* raw = the constructor arguments stored; obs/ax = what they mean (ghost)
        material     |-> [i \in Ix(ord) |-> nd(i).mat],
        temperatures |-> [i \in Ix(ord) |-> IF nd(i).tmp = <<>> THEN NoTemp ELSE nd(i).tmp],
        \* ghost: the values the parameter codec (C05) is given, in file order
        par          |-> [i \in Ix(ord) |-> [cmp |-> nd(i).cmp, cin |-> (nd(i).lk = "C" /\ nd(i).lg # 0), ck |-> nd(i).ck, pd |-> nd(i).pd, pn |-> nd(i).pn,
                                           pp |-> nd(i).pp, oc |-> nd(i).oc, od |-> nd(i).od, om |-> nd(i).om]]])

\* Database._writeParams stores the parameter datasets of the definitions that are flagged `assigned` in the writing process
\* (paramDefs.toWriteToDB()); a group that is not offered is absent from the file and reads back as defaults
ParamGroups == {"pd", "pn", "pp"}
Unset == "unset"
Mask(f, flagged) == [f EXCEPT !.par = [i \in Ix(f.par) |->
                       [f.par[i] EXCEPT !.pd = IF "pd" \in flagged THEN @ ELSE Unset,
                                        !.pn = IF "pn" \in flagged THEN @ ELSE Unset,
                                        !.pp = IF "pp" \in flagged THEN @ ELSE Unset]]]

\* what h5py shows in layout/*
RowKind(f) == Cat([i \in Ix(f.ltype) |-> [k \in 1..f.lcount[i] |-> f.ltype[i]]])
FileObs(f) == [type         |-> f.type,
               name         |-> f.name,
               serialNum    |-> f.serialNum,
               indexInData  |-> f.indexInData,
               numChildren  |-> f.numChildren,
               locationType |-> [i \in Ix(f.ltype) |-> IF f.ltype[i] = "M" THEN "M:" \o ToString(f.lcount[i]) ELSE f.ltype[i]],
               location     |-> LET rk == RowKind(f) IN [r \in Ix(f.rows) |-> IF rk[r] = "C" THEN f.rows[r] ELSE Row(f.rows[r])],
               \* replaceNonesWithNonsense: None -> the marker of the first real entry's type; no real entry at all -> NaN
               gridIndex    |-> [i \in Ix(f.gridIndex) |-> IF f.gridIndex[i] # 0 THEN ToString(f.gridIndex[i] - 1)
                                                            ELSE IF Len(f.grids) = 0 THEN "nan" ELSE NoneIdx],
               grids        |-> [k \in Ix(f.grids) |-> f.grids[k].raw],
               material     |-> f.material,
               temperatures |-> f.temperatures]

(* ------------------------------------------------ the loader --------------------------------------------- *)
\* subtree sizes from numChildren, last position first (the recursion of Database._compose, unrolled)
Sizes(nc) == LET n == Len(nc)
                 step(acc, i) ==      \* acc[j] is final for j > i;  walk[k] = <<position after k children, size so far>>
                    LET walk[k \in 0..nc[i]] == IF k = 0 THEN <<i + 1, 1>>
                                                ELSE <<walk[k - 1][1] + acc[walk[k - 1][1]], walk[k - 1][2] + acc[walk[k - 1][1]]>>
                    IN [acc EXCEPT ![i] = walk[nc[i]][2]]
             IN FoldLeft(step, [i \in 1..n |-> 1], [j \in 1..n |-> n + 1 - j])
KidsOf(nc, sz, i) == LET walk[k \in 1..nc[i]] == IF k = 1 THEN i + 1 ELSE walk[k - 1] + sz[walk[k - 1]]
                     IN [k \in 1..nc[i] |-> walk[k]]
\* numChildren describes one tree that uses every row exactly once (what _compose silently assumes)
Consistent(f) == LET n == Len(f.type) IN
                 /\ n >= 1 /\ AddUp(f.numChildren) = n - 1 /\ AddUp(f.lcount) = Len(f.rows)
                 /\ Sizes(f.numChildren)[1] = n

Unflatten(f) ==
    LET n      == Len(f.type)
        nc     == f.numChildren
        sz     == Sizes(nc)
        kids   == TLCEval([i \in 1..n |-> KidsOf(nc, sz, i)])
        par    == FoldLeft(LAMBDA acc, p : FoldLeft(LAMBDA a, c : [a EXCEPT ![c] = p], acc, kids[p]),
                           [i \in 1..n |-> 0], [p \in 1..n |-> p])
        start  == FoldLeft(LAMBDA acc, j : Append(acc, acc[Len(acc)] + f.lcount[j]), <<1>>, [j \in 1..n |-> j])
        rowsOf(i) == SubSeq(f.rows, start[i], start[i] + f.lcount[i] - 1)      \* _unpackLocationsV2: next(locsIter) per type
        grid(i) == IF f.gridIndex[i] = 0 THEN NoGrid ELSE f.grids[f.gridIndex[i]]      \* _initComps: gridClasses[type](*params)
        \* I4: the owner's indices were added by getCompleteIndices; the loader ends with local indices again
        adds(i) == LET p == par[i] IN
                   /\ f.ltype[i] = "I" /\ p # 0 /\ grid(p).ax /\ f.ltype[p] = "I" /\ par[p] # 0 /\ ~grid(par[p]).ax
    IN TLCEval([i \in 1..n |->
          [ty   |-> f.type[i], nm |-> f.name[i], sn |-> f.serialNum[i],
           kids |-> kids[i],
           lk   |-> f.ltype[i],
           loc  |-> CASE f.ltype[i] = "N" -> <<>>
                      [] f.ltype[i] = "I" -> IF adds(i) THEN <<Sub3(rowsOf(i)[1], rowsOf(par[i])[1])>> ELSE rowsOf(i)
                      [] OTHER -> rowsOf(i),
           \* index locators live in the parent's grid (_compose: parent.spatialGrid[location]); free coordinates keep
           \* the attachment they had (ghost cin: layout/* has no place for it, the statement still requires it)
           lg   |-> IF f.ltype[i] \in {"I", "M"} \/ (f.ltype[i] = "C" /\ f.par[i].cin) THEN par[i] ELSE 0,
           grid |-> grid(i),
           cmp  |-> f.par[i].cmp, ck |-> f.par[i].ck,
           mat  |-> f.material[i],
           tmp  |-> IF f.par[i].cmp THEN f.temperatures[i] ELSE <<>>,            \* _initComps: Tinput/Thot of Components only
           pd   |-> f.par[i].pd, pn |-> f.par[i].pn, pp |-> f.par[i].pp,
           oc   |-> f.par[i].oc, od |-> f.par[i].od, om |-> f.par[i].om]])

LoadFile(f) == Canon(Unflatten(f))        \* Database.load: _compose, then root.sort() (sortReactor)

\* Layout.computeAncestors(serialNum, numChildren, depth = 1), statement by statement (layout.py:529-545)
Ancestors(sn, nc) ==
    LET pop(st) == LET drop[k \in 0..Len(st.ncS)] ==      \* while ncStack and ncStack[-1] == 0: pop both
                            IF k = Len(st.ncS) THEN 0 ELSE IF st.ncS[Len(st.ncS) - k] = 0 THEN drop[k + 1] + 1 ELSE 0
                   IN [st EXCEPT !.snS = SubSeq(st.snS, 1, Len(st.snS) - drop[0]), !.ncS = SubSeq(st.ncS, 1, Len(st.ncS) - drop[0])]
        step(st, i) ==
            LET dec == [st EXCEPT !.ncS[Len(st.ncS)] = @ - 1]
                a   == [dec EXCEPT !.anc = Append(@, dec.snS[Len(dec.snS)])]
                b   == IF nc[i] > 0 THEN [a EXCEPT !.snS = Append(@, sn[i]), !.ncS = Append(@, nc[i])] ELSE a
            IN pop(b)
    IN FoldLeft(step, [anc |-> <<0>>, snS |-> <<sn[1]>>, ncS |-> <<nc[1]>>], [j \in 1..(Len(sn) - 1) |-> j + 1]).anc

(* ------------------------------------------------ the property ------------------------------------------- *)
(* Clause-wise equality of a loaded state  b  with the expected state  a.  Nodes are matched by SERIAL NUMBER (unique in
   a reactor), children and grid owners are named by serial number too, so one misplaced child is one ChildOrder verdict
   and not a cascade.  With unique serial numbers and both states in canonical numbering, ObsEqual(a, b) <=> a = b up
   to grid.raw (I5).  Each clause is type-safe (TLC refuses to compare an integer with a string): payloads are compared
   only under equal kinds.                                                                                              *)
SnSet(t)    == {t[i].sn : i \in Ix(t)}
UniqueSn(t) == Cardinality(SnSet(t)) = Len(t)
\* serial number -> the node, with its children and its grid owner named by serial number
BySn(t) == LET at == [sn \in SnSet(t) |-> CHOOSE i \in Ix(t) : t[i].sn = sn]
           IN TLCEval([sn \in SnSet(t) |->
                 LET nd == t[at[sn]] IN [nd EXCEPT !.kids = [k \in Ix(nd.kids) |-> t[nd.kids[k]].sn],
                                                   !.lg   = IF nd.lg = 0 THEN 0 ELSE t[nd.lg].sn]])
SameShape(a, b)  == /\ Len(a) = Len(b) /\ Len(a) >= 1 /\ UniqueSn(a) /\ UniqueSn(b) /\ SnSet(a) = SnSet(b)
                    /\ a[1].sn = b[1].sn
ClauseSet == {"Types", "Names", "ChildOrder", "LocKind", "LocValue", "GridOwner", "Grids", "Materials",
              "Temperatures", "SortKeys", "Dimensions", "Composition", "Parameters", "Coordinates", "ResolvedDimensions",
              "Quantities"}
Holds(c, x, y) == CASE c = "Types"        -> x.ty = y.ty /\ x.cmp = y.cmp
                    [] c = "Names"        -> x.nm = y.nm
                    [] c = "ChildOrder"   -> x.kids = y.kids
                    [] c = "LocKind"      -> x.lk = y.lk
                    [] c = "LocValue"     -> ((x.lk = y.lk) => (x.loc = y.loc))
                    [] c = "GridOwner"    -> x.lg = y.lg
                    [] c = "Grids"        -> x.grid.obs = y.grid.obs /\ x.grid.ax = y.grid.ax
                    [] c = "Materials"    -> x.mat = y.mat
                    [] c = "Temperatures" -> x.tmp = y.tmp
                    [] c = "SortKeys"     -> x.ck = y.ck
                    [] c = "Dimensions"   -> x.pd = y.pd
                    [] c = "Composition"  -> x.pn = y.pn
                    [] c = "Parameters"   -> x.pp = y.pp
                    [] c = "Coordinates"  -> x.oc = y.oc
                    [] c = "ResolvedDimensions" -> x.od = y.od
                    [] c = "Quantities"   -> x.om = y.om
\* serial numbers of the nodes on which clause c fails (A, B = BySn of the two states)
FailingSn(c, A, B) == {sn \in DOMAIN A : ~Holds(c, A[sn], B[sn])}
ObsEqual(a, b)   == SameShape(a, b) /\ LET A == BySn(a) B == BySn(b) IN \A c \in ClauseSet : FailingSn(c, A, B) = {}
=====================================================================================================
