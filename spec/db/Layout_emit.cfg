\* emission (quick): every tree of <= 3 nodes, one JSON case per tree.  No axial grid here: among armi's classes only an
\* Assembly re-indexes its children (I4), and assemblies are exercised by the real histories, not by generic composites.
CONSTANTS MaxNodes = 3  CompTypes = {"A", "B"}  Grids = {"none", "g1", "g2", "g1b", "g0"}  NCells = 2  MaxLevel = 9
INIT Init
NEXT Next
CONSTRAINT Bound
CONSTRAINT Prune
INVARIANT EmitCase
CHECK_DEADLOCK FALSE
