CONSTANTS MaxN = 4  InlineMax = 2  Tier = "thorough"
INIT Init
NEXT NextBuild
INVARIANT EmitCase
CHECK_DEADLOCK FALSE
