\* emission (quick, wide): 2 objects (one appears later) on 2 positions, 2 parameters x {unset,1}; every edge and every state (with all query results) up to depth 4
CONSTANTS NObj = 2  NInit = 1  NLoc = 2  NPar = 2  NVal = 1  MaxC = 1  MaxN = 1  MaxSnaps = 3  MaxLevel = 4
CONSTANT Labels <- McLabelsB
ACTION_CONSTRAINT Emit
INVARIANT EmitState
INIT Init
NEXT NextL
CONSTRAINT Bound
VIEW View
INVARIANT TypeOK
INVARIANT Isolation
INVARIANT Chronological
INVARIANT HistoryCorrect
INVARIANT HistoryByLocationCorrect
INVARIANT SuccessMark
CHECK_DEADLOCK FALSE
