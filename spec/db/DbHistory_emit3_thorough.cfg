\* emission ("births", thorough): three objects of which two are created during the history, no time changes, one parameter -- loads of
\* older snapshots followed by the creation of objects and further writes (the replay inserts a load before every step)
CONSTANTS NObj = 3  NInit = 1  NLoc = 3  NPar = 1  NVal = 1  MaxC = 0  MaxN = 0  MaxSnaps = 2  MaxLevel = 5
CONSTANT Labels <- McLabelsB
ACTION_CONSTRAINT Emit
INVARIANT EmitState
INIT Init
NEXT NextL
CONSTRAINT Bound
VIEW View
INVARIANT TypeOK
INVARIANT Isolation
INVARIANT Chronological
INVARIANT HistoryCorrect
INVARIANT HistoryByLocationCorrect
INVARIANT SuccessMark
CHECK_DEADLOCK FALSE
