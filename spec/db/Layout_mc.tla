----------------------------------------- MODULE Layout_mc -----------------------------------------
(* Exhaustive check of the layout algebra over ALL small trees, and case emission for the spec -> code replay.

   States = trees grown one child at a time (the in-memory order is the insertion order, so sorted order and memory
   order differ in many states).  Attribute domains per new child:
     composites  type in CompTypes, locator in {C (2 values), I(NCells cells)}, own grid in Grids
     components  type "K", locator additionally M (2 shapes), sort key in 2 ranks, material HT9 / UO2, temperatures
   armi's reactors keep the children of one parent homogeneous (all Components or none): AddChild respects that, because
   Component.__lt__ and ArmiObject.__lt__ are not defined across the two.                                                *)
EXTENDS Layout

CONSTANTS MaxNodes,      \* nodes per tree
          CompTypes,     \* composite class names used for children
          Grids,         \* grid choices for composites: subset of {"none","g1","g2","g1b","ax","g0"}
          NCells,        \* grid cells offered to index locators (1..3)
          MaxLevel

VARIABLES t
vars == <<t>>

G(name) == CASE name = "g1"  -> [raw |-> "Cart#1",  obs |-> "Cart#1", ax |-> FALSE]
             [] name = "g2"  -> [raw |-> "Cart#2",  obs |-> "Cart#2", ax |-> FALSE]
             [] name = "g1b" -> [raw |-> "Cart#1b", obs |-> "Cart#1", ax |-> FALSE]    \* other spelling of the same grid (I5)
             [] name = "ax"  -> [raw |-> "Axial#1", obs |-> "Axial#1", ax |-> TRUE]
             [] name = "g0"  -> [raw |-> "Hex#0", obs |-> "Hex#0", ax |-> FALSE]      \* makes its locations on demand, holds none yet
             [] OTHER        -> NoGrid

Base(id, ty, cmp) == [ty |-> ty, nm |-> "n" \o ToString(id), sn |-> 10 + id, kids |-> <<>>, lk |-> "N", loc |-> <<>>, lg |-> 0,
                      grid |-> NoGrid, cmp |-> cmp, ck |-> <<0, 0>>, mat |-> "", tmp |-> <<>>,
                      pd |-> "d", pn |-> "c", pp |-> "p" \o ToString(id), oc |-> "o", od |-> "o", om |-> "m" \o ToString(id)]

Cells == {<<<<1, 0, 0>>, <<0, 0, 0>>, <<0, 0, 1>>>>[k] : k \in 1..NCells}
LocChoices(p, cmp) ==
    \* (only the root, a Reactor, has no locator: every other armi object is born with CoordinateLocation(0,0,0))
    {[lk |-> "C", loc |-> <<<<"1.5", "0.0", "-2.25">>>>, lg |-> 0], [lk |-> "C", loc |-> <<<<"0.0", "0.0", "0.0">>>>, lg |-> 0]}
    \cup (IF t[p].grid = NoGrid THEN {} ELSE
            {[lk |-> "I", loc |-> <<c>>, lg |-> p] : c \in Cells}
            \* components only (as in armi's blocks): free coordinates attached to the parent's grid; multi-index locators
            \cup (IF cmp THEN {[lk |-> "C", loc |-> <<<<"0.0", "0.0", "0.0">>>>, lg |-> p],
                              [lk |-> "M", loc |-> <<<<0, 0, 0>>, <<1, 0, 0>>>>, lg |-> p], [lk |-> "M", loc |-> <<<<1, 0, 0>>>>, lg |-> p]}
                  ELSE {}))

Children(p, id) ==
    LET homogeneous(cmp) == \A k \in Ix(t[p].kids) : t[t[p].kids[k]].cmp = cmp
        comps == IF ~homogeneous(TRUE) THEN {} ELSE
                 {[Base(id, "K", TRUE) EXCEPT !.lk = l.lk, !.loc = l.loc, !.lg = l.lg, !.ck = ck,
                                             !.mat = IF ck[1] = 2 THEN "UO2" ELSE "HT9",      \* UO2().name = "UraniumOxide": name # class
                                             !.tmp = <<"25.0", "400.5">>]
                    : l \in LocChoices(p, TRUE), ck \in {<<1, 1>>, <<2, 1>>}}
        boxes == IF ~homogeneous(FALSE) THEN {} ELSE
                 {[Base(id, ty, FALSE) EXCEPT !.lk = l.lk, !.loc = l.loc, !.lg = l.lg, !.grid = G(g)]
                    : l \in LocChoices(p, FALSE), ty \in CompTypes, g \in Grids}
    IN comps \cup boxes

Init == \E g \in Grids : t = <<[Base(1, "R", FALSE) EXCEPT !.grid = G(g)]>>
AddChild(p) == /\ Len(t) < MaxNodes /\ ~t[p].cmp
               /\ \E nd \in Children(p, Len(t) + 1) :
                     t' = Append([t EXCEPT ![p].kids = Append(@, Len(t) + 1)], nd)
Next == \E p \in Ix(t) : AddChild(p)
Bound == TLCGet("level") <= MaxLevel
\* a tree the writer refuses stays refused whatever is added: do not grow it further (it is still checked / emitted itself)
Prune == Sortable(t)

(* ------------------------------------------------ theorems ------------------------------------------------ *)
F == Flatten(t)
TypeOK        == WellFormed(t)
RoundTrip     == Sortable(t) => LoadFile(F) = Canon(t)
FileIsSorted  == Sortable(t) => Unflatten(F) = Canon(t)                \* the loader's sort finds nothing to do
ResaveSame    == Sortable(t) => /\ FileObs(Flatten(LoadFile(F))) = FileObs(F)
                                /\ LoadFile(Flatten(LoadFile(F))) = LoadFile(F)
CanonIdem     == Sortable(t) => /\ Canon(Canon(t)) = Canon(t)
                                /\ FileObs(Flatten(Canon(t))) = FileObs(F)
ClauseWise    == Sortable(t) => ObsEqual(Canon(t), LoadFile(F))
FileConsistent == Sortable(t) => Consistent(F)
IndexBijection == Sortable(t) =>
    \A ty \in {F.type[i] : i \in Ix(F.type)} :
        LET S == {i \in Ix(F.type) : F.type[i] = ty}
        IN /\ {F.indexInData[i] : i \in S} = 0..(Cardinality(S) - 1)
           /\ \A i, j \in S : i < j => F.indexInData[i] < F.indexInData[j]
GridDedupOf(f, c) ==
    /\ \A a, b \in Ix(f.grids) : f.grids[a].raw = f.grids[b].raw => a = b
    /\ \A i \in Ix(f.type) : IF c[i].grid = NoGrid THEN f.gridIndex[i] = 0 ELSE f.grids[f.gridIndex[i]] = c[i].grid
GridDedup     == Sortable(t) => GridDedupOf(F, Canon(t))
IndexBijectionOf(f) ==
    \A ty \in {f.type[i] : i \in Ix(f.type)} :
        LET S == {i \in Ix(f.type) : f.type[i] = ty}
        IN /\ {f.indexInData[i] : i \in S} = 0..(Cardinality(S) - 1)
           /\ \A i, j \in S : i < j => f.indexInData[i] < f.indexInData[j]
AncestorsAreParents == Sortable(t) =>
    LET c  == Canon(t)
        pm == ParentMap(c)
    IN Ancestors(F.serialNum, F.numChildren) = [i \in Ix(c) |-> IF pm[i] = 0 THEN 0 ELSE c[pm[i]].sn]
RowsAccounted == Sortable(t) =>
    Len(F.rows) = AddUp([i \in Ix(t) |-> IF t[i].lk = "M" THEN Len(t[i].loc) ELSE 1])

\* the same theorems evaluated once per tree with shared intermediate values (quick tier: TLC does not share work between
\* INVARIANT lines); the names of the failing theorems are printed before the invariant is reported violated
AllTheorems ==
    ~Sortable(t) \/
    LET Fl == Flatten(t)
        C  == Canon(t)
        U  == Unflatten(Fl)
        L  == Canon(U)
        F2 == Flatten(L)
        pm == ParentMap(C)
        bad == {nm \in {"RoundTrip", "FileIsSorted", "ResaveSame", "CanonIdem", "ClauseWise", "FileConsistent", "AncestorsAreParents",
                         "RowsAccounted", "IndexBijection", "GridDedup"} :
                  ~CASE nm = "RoundTrip"      -> L = C
                     [] nm = "FileIsSorted"   -> U = C
                     [] nm = "ResaveSame"     -> FileObs(F2) = FileObs(Fl) /\ Canon(Unflatten(F2)) = L
                     [] nm = "CanonIdem"      -> Canon(C) = C /\ FileObs(Flatten(C)) = FileObs(Fl)
                     [] nm = "ClauseWise"     -> ObsEqual(C, L)
                     [] nm = "FileConsistent" -> Consistent(Fl)
                     [] nm = "IndexBijection" -> IndexBijectionOf(Fl)
                     [] nm = "GridDedup"      -> GridDedupOf(Fl, C)
                     [] nm = "AncestorsAreParents" ->
                            Ancestors(Fl.serialNum, Fl.numChildren) = [i \in Ix(C) |-> IF pm[i] = 0 THEN 0 ELSE C[pm[i]].sn]
                     [] OTHER                 -> Len(Fl.rows) = AddUp([i \in Ix(t) |-> IF t[i].lk = "M" THEN Len(t[i].loc) ELSE 1])}
    IN bad = {} \/ (PrintT(<<"failing theorems", bad>>) /\ FALSE)

(* ------------------------------------------------ emission ------------------------------------------------ *)
View == t
EmitCase == LET Fl == Flatten(t)
                ok == Sortable(t)
            IN PrintT(ToJson([t |-> t, sortable |-> ok,
                              file |-> IF ok THEN FileObs(Fl) ELSE <<>>,
                              loaded |-> IF ok THEN LoadFile(Fl) ELSE <<>>,
                              anc |-> IF ok THEN Ancestors(Fl.serialNum, Fl.numChildren) ELSE <<>>]))
=====================================================================================================
