\* exhaustive (thorough): all histories of <= 4 calls, parameter mutations on three nodes; 2 snapshots, 2 load handles; growth to 12 nodes
CONSTANTS Slots = {1, 2}  Handles = {1, 2}  MaxLevel = 5  MaxNodes = 12  MutNodes = {3, 7, 8}
INIT Init
NEXT Next
CONSTRAINT Bound
VIEW View
INVARIANT TypeOK
INVARIANT LoadedIsWritten
INVARIANT LoadedClauseWise
INVARIANT LoadTwiceEqual
INVARIANT FilesDescribeSnaps
INVARIANT ResaveFixpoint
INVARIANT LoadedIsCanonical
INVARIANT FreshResaveKeepsParameters
PROPERTY SnapshotsFrozen
PROPERTY RefusalsChangeNothing
PROPERTY WritesAreAppendOnly
CHECK_DEADLOCK FALSE
