\* exhaustive (thorough): all histories of <= 5 calls; 2 snapshots, 2 load handles; growth to 12 nodes
CONSTANTS Slots = {1, 2}  Handles = {1, 2}  MaxLevel = 6  MaxNodes = 12  MutNodes = {7}
INIT Init
NEXT Next
CONSTRAINT Bound
VIEW View
INVARIANT TypeOK
INVARIANT LoadedIsWritten
INVARIANT LoadedClauseWise
INVARIANT LoadTwiceEqual
INVARIANT FilesDescribeSnaps
INVARIANT ResaveFixpoint
INVARIANT LoadedIsCanonical
INVARIANT FreshResaveKeepsParameters
PROPERTY SnapshotsFrozen
PROPERTY RefusalsChangeNothing
PROPERTY WritesAreAppendOnly
CHECK_DEADLOCK FALSE
