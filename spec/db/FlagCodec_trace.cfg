CONSTANTS Names = {"A", "B", "C", "D", "E", "F", "G", "H", "I", "J", "K", "L", "M", "N", "P", "Q", "R", "S"}  MaxObj = 99
SPECIFICATION TSpec
CONSTRAINT Progress
POSTCONDITION Report
INVARIANT FTypeOK
INVARIANT FRefusalStoresNothing
INVARIANT FlagMeaning
INVARIANT ReadExtendsOnly
INVARIANT BytesExact
CHECK_DEADLOCK FALSE
