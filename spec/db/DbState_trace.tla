---------------------------------------- MODULE DbState_trace ----------------------------------------
(* code -> spec: histories recorded from the real Database (writeToDB / load on reactors armi built from generated
   blueprints) are checked event by event.  The observation of a call is
       State      the projection of the live reactor after a batch of real mutations (any well-formed state is allowed:
                  what a mutation does to parameters is not C04's subject; the names of the calls are kept in ev.a.how)
       Write      the layout/* datasets of the time-node group, read back with h5py
       WriteRefused   the exception class
       Load       the projection of the reactor Database.load returned
       Resave     layout/* of the group written from a loaded reactor
       (any call)  {"exception": class} when the call raised something the model does not know as a refusal
   and TLC computes what the specification requires:  FileObs(Flatten(live))  resp.  LoadFile(files[s]).

   A difference does not stop the history: the verdict is printed per CLAUSE of the statement
       {"verdict": <trace id>, "at": <event>, "call": .., "clause": .., "n": <nodes failing>, "first": <canonical position>}
   and the trace goes on with the OBSERVED value (so every later call is still checked, and one defect cannot mask
   another).  Only an observation the model cannot interpret (ill-formed tree) rejects the trace.                          *)
EXTENDS DbState, IOUtils, TLCExt

Traces == ndJsonDeserialize(IOEnv.TRACE_FILE)
NT     == Len(Traces)
VARIABLES tid, l
ASSUME \A t \in 1..NT : TLCSet(t, 0)

TInit == /\ tid \in 1..NT /\ l = 1
         /\ live = <<>>
         /\ files = [s \in Slots |-> NoFile] /\ snap = [s \in Slots |-> NoState]
         /\ loaded = [h \in Handles |-> NoState] /\ src = [h \in Handles |-> <<0, 0>>]
         /\ flags = [p \in Procs |-> IF p = 1 THEN ParamGroups ELSE {}]
         /\ act = [n |-> "Init"]
Ev == Traces[tid].ev[l]
A  == Ev.a
Id == Traces[tid].id
\* the process a call ran in: 1 = the checker's process, which built the reactor; 2 = a fresh process that only loads and saves
Proc == IF "p" \in DOMAIN A THEN A.p ELSE 1

Say(call, clause, S) == PrintT(ToJson([verdict |-> Id, at |-> l, call |-> call, clause |-> clause,
                                       n |-> Cardinality(S), first |-> IF S = {} THEN 0 ELSE Min(S)]))
\* for node clauses: which nodes (serial numbers, at most 3 per class of object) and what the two sides show at the first one
SayNodes(call, clause, S, XA, XB) ==
    LET i == Min(S)
        few == {j \in S : Cardinality({k \in S : k < j /\ XA[k].ty = XA[j].ty}) < 3}
    IN PrintT(ToJson([verdict |-> Id, at |-> l, call |-> call, clause |-> clause, n |-> Cardinality(S), first |-> i,
                      sns |-> SetToSeq(few), ty |-> XA[i].ty, nm |-> XA[i].nm, exp |-> XA[i], got |-> XB[i]]))
\* every clause of the statement, on every node; TRUE always (verdicts are printed, the history continues)
Judge(call, exp, got) ==
    IF ~SameShape(exp, got) THEN Say(call, "Shape", {Len(got)})
    ELSE LET XA == BySn(exp)
             XB == BySn(got)
         IN (\A c \in ClauseSet : LET S == FailingSn(c, XA, XB) IN S = {} \/ SayNodes(call, c, S, XA, XB)) = TRUE
JudgeFile(call, exp, got) ==
    (\A k \in DOMAIN exp : exp[k] = got[k] \/
        Say(call, "File:" \o k, IF Len(exp[k]) # Len(got[k]) THEN {Len(got[k])}
                                ELSE {i \in Ix(exp[k]) : exp[k][i] # got[k][i]})) = TRUE
Usable(t) == (Len(t) >= 1 /\ WellFormed(t)) = TRUE
IllFormed(what) == PrintT(ToJson([mismatch |-> Id, at |-> l, reason |-> "ill-formed " \o what])) /\ FALSE

EvState == /\ A.n = "State"
           /\ \/ Usable(Ev.post.live) /\ live' = Ev.post.live
              \/ ~Usable(Ev.post.live) /\ IllFormed("live state")
           /\ act' = [n |-> "State"] /\ UNCHANGED <<files, snap, loaded, src, flags>>
EvWrite == /\ A.n = "Write" /\ files[A.s] = NoFile
           /\ \/ /\ Sortable(live) = TRUE
                 /\ LET f == Flatten(live) IN
                    /\ JudgeFile("Write", FileObs(f), Ev.post.file)
                    /\ files' = [files EXCEPT ![A.s] = f] /\ snap' = [snap EXCEPT ![A.s] = live]
              \/ /\ ~Sortable(live)           \* the model refuses, the code stored something: no snapshot to go on with
                 /\ Say("Write", "RefusalExpected", {1}) /\ UNCHANGED <<files, snap>>
           /\ act' = [n |-> "Write", s |-> A.s] /\ UNCHANGED <<live, loaded, src, flags>>
EvWriteRefused == /\ A.n = "WriteRefused"
                  /\ (Sortable(live) = FALSE \/ Say("WriteRefused", "UnexpectedRefusal:" \o Ev.post.exception, {1})) = TRUE
                  /\ act' = [n |-> "WriteRefused", s |-> A.s] /\ UNCHANGED <<live, files, snap, loaded, src, flags>>
EvLoad == /\ A.n = "Load" /\ files[A.s] # NoFile
          /\ \/ Usable(Ev.post.state) \/ (~Usable(Ev.post.state) /\ IllFormed("loaded state"))
          /\ Judge("Load", LoadFile(files[A.s]), Ev.post.state)
          \* "loading the same snapshot twice gives equal reactors"
          /\ (\A h \in Handles : (src[h][1] # A.s \/ h = A.h) \/ ObsEqual(loaded[h], Ev.post.state)
                                 \/ Say("Load", "LoadTwice", {h})) = TRUE
          /\ loaded' = [loaded EXCEPT ![A.h] = Ev.post.state] /\ src' = [src EXCEPT ![A.h] = <<A.s, Proc>>]
          /\ flags' = [flags EXCEPT ![Proc] = @ \cup ParamGroups]
          /\ act' = [n |-> "Load", s |-> A.s, h |-> A.h] /\ UNCHANGED <<live, files, snap>>
EvResave == /\ A.n = "Resave" /\ loaded[A.h] # NoState /\ files[A.s] = NoFile
            /\ \/ /\ Sortable(loaded[A.h]) = TRUE
                  /\ LET f == Mask(Flatten(loaded[A.h]), flags[src[A.h][2]]) IN
                     /\ JudgeFile("Resave", FileObs(f), Ev.post.file)
                     /\ files' = [files EXCEPT ![A.s] = f] /\ snap' = [snap EXCEPT ![A.s] = loaded[A.h]]
               \/ /\ ~Sortable(loaded[A.h]) /\ Say("Resave", "RefusalExpected", {1}) /\ UNCHANGED <<files, snap>>
            /\ act' = [n |-> "Resave", h |-> A.h, s |-> A.s] /\ UNCHANGED <<live, loaded, src, flags>>

\* a legal call that raises anything but a refusal the model knows: a verdict; nothing changes (the driver ends the history)
Raised == "exception" \in DOMAIN Ev.post /\ A.n # "WriteRefused"
EvRaised == /\ Raised
            /\ Say(A.n, "Raised:" \o Ev.post.exception, {1})
            /\ act' = [n |-> "Raised"] /\ UNCHANGED <<live, files, snap, loaded, src, flags>>

TNext == /\ l <= Len(Traces[tid].ev) /\ l' = l + 1 /\ tid' = tid
         /\ IF Raised THEN EvRaised ELSE (EvState \/ EvWrite \/ EvWriteRefused \/ EvLoad \/ EvResave)
TSpec == TInit /\ [][TNext]_<<vars, tid, l>>
Progress == IF TLCGet(tid) < l THEN TLCSet(tid, l) ELSE TRUE
Report == LET bad == {t \in 1..NT : TLCGet(t) # Len(Traces[t].ev) + 1} IN
          /\ \A t \in bad : PrintT(ToJson([rejected |-> Traces[t].id, matched |-> TLCGet(t) - 1]))
          /\ PrintT(ToJson([accepted |-> NT - Cardinality(bad), of |-> NT]))
=====================================================================================================
