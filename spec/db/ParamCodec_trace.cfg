CONSTANTS MaxN = 99  InlineMax = 3
SPECIFICATION TSpec
CONSTRAINT Progress
POSTCONDITION Report
INVARIANT TypeOK
INVARIANT RoundTrip
INVARIANT UnsetPositions
INVARIANT RefusalStoresNothing
INVARIANT ReadNeverFails
INVARIANT AttrsResolve
CHECK_DEADLOCK FALSE
