------------------------------------------- MODULE DbState -------------------------------------------
(* C04 -- histories: a reactor is mutated, written to snapshots of a database file, loaded back, saved again.

   VARIABLES
     live      the reactor in memory (a Layout state)
     files     slot -> abstract file | NoFile          one group of the HDF5 file per slot: a time node (cXXnYY) or a named
                                                       state point of a time node (cXXnYY<label>, writeToDB(r, statePointName=..));
                                                       two slots of one time node hold different states
     snap      slot -> the state that was written       (ghost: what the snapshot must reproduce)
     loaded    handle -> state | NoState                reactors returned by Database.load
     src       handle -> <<slot it was loaded from, process that loaded it>>  (<<0, 0>> = none)
     flags     process -> the parameter groups whose DEFINITIONS are flagged `assigned` in that process.  The flag is a
               class-level fact (parameterDefinitions.Parameter.assigned, set by the parameter's property setter):
               Database._writeParams offers only flagged definitions (paramDefs.toWriteToDB()).  Process 1 built the
               reactor from its inputs (every group flagged); process 2 is a FRESH process that only loads and saves
               (restart, post-processing): nothing is flagged until Database._readParams assigns the stored values
               through the parameter properties.  Process 2 also registered the plugin flags in another order (other bit positions);
               flag values are sets of NAMES in every process (FlagSerializer converts the stored bit fields: C05 FlagCodec).
     act       the last action (label for coverage, emission and the step properties)

   ACTIONS (one per public call the harness drives; linearization point = return of the call)
     mutations of `live` -- they only GENERATE states, their exact effect on parameters is not the property:
       AssignParam(n, v)      o.p[name] = value                         -> pp
       SetComposition(n, v)   setNumberDensity / setNumberDensities      -> pn, om          (components)
       SetTemperature(n, T)   Component.setTemperature                   -> tmp[2], od, om  (components)
       Swap(a, b)             FuelHandler.swapAssemblies / moveTo        -> the two index locators exchange cells
       Rotate(a)              HexAssembly.rotate                         -> multi-index pins permuted, orientation parameter
       Grow                   growToFullCore / adding an assembly        -> new nodes with fresh names and serial numbers
     Write(s)           Database.writeToDB(live) at time node s  (Layout(comp=r), Layout.writeToDB, _writeParams)
     WriteRefused(s)    the same call when sorted() raises: nothing may be stored
     Load(s, h, p)      Database.load(cycle, node, cs, bp, statePointName) in process p -- or one of its other public realisations:
                        Database.loadReadOnly(cycle, node, statePointName), DatabaseInterface.loadState(cycle, node, timeStepName,
                        fileName), Database.load with the node counted from the end of its cycle (node < 0, cycles of unequal
                        length), DatabaseInterface.loadState of a follow-on case whose own database and reload database both
                        hold the time node (the own one is asked first) -- which must return the state of exactly the slot asked for --   (Layout(h5group), _initComps, _readParams, _compose, sort);
                        every stored parameter is assigned through its property: its definition is flagged in p
     Resave(h, s, p)    Database.writeToDB(loaded[h]) into another file/time node by the process that loaded it: the groups
                        not flagged in p are left out of the file and read back as defaults ("unset")

   PROPERTIES (the clauses of the statement)
     LoadedIsWritten     loaded[h] = Canon(snap[src[h]])   -- same tree, types, names, serial numbers, child order (canonical),
                         grids, locations, every persistent parameter, materials, temperatures, dimensions, densities, ...
     LoadTwiceEqual      two loads of one snapshot are equal
     ResaveFixpoint      the file written from a loaded reactor shows the same layout/* and loads to the same state
                         -- also when it is written by a fresh process (FreshResaveKeepsParameters)
     FilesDescribeSnaps  a snapshot is exactly Flatten of the state at write time
     SnapshotsFrozen     later mutations / loads do not change what a snapshot loads to
     RefusalsChangeNothing                                                                                              *)
EXTENDS Layout

CONSTANTS Slots, Handles, MaxLevel, MaxNodes,
          MutNodes      \* nodes whose parameters / composition / temperature the model mutates

VARIABLES live, files, snap, loaded, src, flags, act
vars == <<live, files, snap, loaded, src, flags, act>>
Procs == {1, 2}

NoFile  == [none |-> TRUE]
NoState == <<>>

(* ------------------------------------------------ the initial reactor ------------------------------------ *)
GCore == [raw |-> "HexGrid#core", obs |-> "HexGrid#core", ax |-> FALSE]
GAx   == [raw |-> "AxialGrid#2",  obs |-> "AxialGrid#2",  ax |-> TRUE]
GPin  == [raw |-> "HexGrid#pin_cu", obs |-> "HexGrid#pin", ax |-> FALSE]     \* raw spelling differs from obs (I5)
Nd(ty, id, kids, lk, loc, lg, grid, cmp, ck) ==
    [ty |-> ty, nm |-> ty \o ToString(id), sn |-> 100 + id, kids |-> kids, lk |-> lk, loc |-> loc, lg |-> lg, grid |-> grid,
     cmp |-> cmp, ck |-> ck, mat |-> IF cmp THEN "HT9" ELSE "", tmp |-> IF cmp THEN <<"25.0", "400.5">> ELSE <<>>,
     pd |-> "d", pn |-> "c", pp |-> "p", oc |-> "o", od |-> "o", om |-> "m"]
Reactor0 == <<
    Nd("Reactor", 1, <<2>>, "N", <<>>, 0, NoGrid, FALSE, <<0, 0>>),
    Nd("Core", 2, <<4, 3>>, "C", <<<<"0.0", "0.0", "0.0">>>>, 0, GCore, FALSE, <<0, 0>>),       \* memory order # sorted order
    Nd("HexAssembly", 3, <<5>>, "I", <<<<0, 0, 0>>>>, 2, GAx, FALSE, <<0, 0>>),
    Nd("HexAssembly", 4, <<6>>, "I", <<<<1, 0, 0>>>>, 2, GAx, FALSE, <<0, 0>>),
    Nd("HexBlock", 5, <<8, 7>>, "I", <<<<0, 0, 0>>>>, 3, GPin, FALSE, <<0, 0>>),
    Nd("HexBlock", 6, <<9>>, "I", <<<<0, 0, 0>>>>, 4, NoGrid, FALSE, <<0, 0>>),
    Nd("Circle", 7, <<>>, "M", <<<<0, 0, 0>>, <<1, 0, 0>>, <<0, 1, 0>>>>, 5, NoGrid, TRUE, <<1, 1>>),
    Nd("Hexagon", 8, <<>>, "C", <<<<"0.0", "0.0", "0.0">>>>, 0, NoGrid, TRUE, <<2, 1>>),
    Nd("Circle", 9, <<>>, "C", <<<<"0.0", "0.0", "0.0">>>>, 0, NoGrid, TRUE, <<1, 1>>) >>

Init == /\ live = Reactor0
        /\ files = [s \in Slots |-> NoFile] /\ snap = [s \in Slots |-> NoState]
        /\ loaded = [h \in Handles |-> NoState] /\ src = [h \in Handles |-> <<0, 0>>]
        /\ flags = [p \in Procs |-> IF p = 1 THEN ParamGroups ELSE {}]
        /\ act = [n |-> "Init"]

(* ------------------------------------------------ mutations ---------------------------------------------- *)
Frame == UNCHANGED <<files, snap, loaded, src, flags>>
AssignParam(n, v) == /\ live[n].pp # v /\ live' = [live EXCEPT ![n].pp = v]
                     /\ act' = [n |-> "AssignParam", o |-> n, v |-> v] /\ Frame
SetComposition(n, v) == /\ live[n].cmp /\ live[n].pn # v
                        /\ live' = [live EXCEPT ![n].pn = v, ![n].om = "m:" \o v]
                        /\ act' = [n |-> "SetComposition", o |-> n, v |-> v] /\ Frame
SetTemperature(n, T) == /\ live[n].cmp /\ live[n].tmp[2] # T
                        /\ live' = [live EXCEPT ![n].tmp[2] = T, ![n].od = "o@" \o T]
                        /\ act' = [n |-> "SetTemperature", o |-> n, T |-> T] /\ Frame
Swap(a, b) == /\ a < b /\ b <= Len(live) /\ live[a].lk = "I" /\ live[b].lk = "I" /\ live[a].lg = live[b].lg /\ live[a].ty = "HexAssembly"
              /\ live' = [live EXCEPT ![a].loc = live[b].loc, ![b].loc = live[a].loc]
              /\ act' = [n |-> "Swap", a |-> a, b |-> b] /\ Frame
RotL(s) == IF Len(s) < 2 THEN s ELSE Tail(s) \o <<Head(s)>>
Rotate(a) == /\ a <= Len(live) /\ live[a].ty = "HexAssembly"
             /\ LET blocks == {live[a].kids[k] : k \in Ix(live[a].kids)}
                    pins   == {c \in Ix(live) : live[c].lk = "M" /\ live[c].lg \in blocks}
                IN live' = [n \in Ix(live) |-> IF n \in pins THEN [live[n] EXCEPT !.loc = RotL(@)]
                                               ELSE IF n \in blocks THEN [live[n] EXCEPT !.pp = "rot:" \o @] ELSE live[n]]
             /\ act' = [n |-> "Rotate", a |-> a] /\ Frame
\* one more assembly (a block with one pin bundle) in a free cell of the core grid
Grow == /\ Len(live) + 3 <= MaxNodes
        /\ LET k == Len(live) IN
           live' = [live EXCEPT ![2].kids = Append(@, k + 1)]
                   \o << Nd("HexAssembly", k + 1, <<k + 2>>, "I", <<<<0, 1, 0>>>>, 2, GAx, FALSE, <<0, 0>>),
                         Nd("HexBlock", k + 2, <<k + 3>>, "I", <<<<0, 0, 0>>>>, k + 1, GPin, FALSE, <<0, 0>>),
                         Nd("Circle", k + 3, <<>>, "M", <<<<0, 0, 0>>>>, k + 2, NoGrid, TRUE, <<1, 1>>) >>
        /\ act' = [n |-> "Grow"] /\ Frame
\* a second child without locator makes the reactor unsortable (what a half-built model looks like)
Detach(n) == /\ n <= Len(live) /\ live[n].ty = "HexAssembly" /\ live[n].lk = "I"
             /\ live' = [live EXCEPT ![n].lk = "N", ![n].loc = <<>>, ![n].lg = 0]
             /\ act' = [n |-> "Detach", o |-> n] /\ Frame

(* ------------------------------------------------ database ----------------------------------------------- *)
Write(s) == /\ files[s] = NoFile /\ Sortable(live) = TRUE       \* (= TRUE: TLC must not branch on the disjunctions inside)
            /\ files' = [files EXCEPT ![s] = Mask(Flatten(live), flags[1])] /\ snap' = [snap EXCEPT ![s] = live]
            /\ act' = [n |-> "Write", s |-> s] /\ UNCHANGED <<live, loaded, src, flags>>
WriteRefused(s) == /\ files[s] = NoFile /\ ~Sortable(live)
                   /\ act' = [n |-> "WriteRefused", s |-> s] /\ UNCHANGED <<live, files, snap, loaded, src, flags>>
Load(s, h, p) == /\ files[s] # NoFile /\ loaded[h] = NoState
                 /\ loaded' = [loaded EXCEPT ![h] = LoadFile(files[s])] /\ src' = [src EXCEPT ![h] = <<s, p>>]
                 /\ flags' = [flags EXCEPT ![p] = @ \cup ParamGroups]          \* _readParams: c.p[name] = value
                 /\ act' = [n |-> "Load", s |-> s, h |-> h, p |-> p] /\ UNCHANGED <<live, files, snap>>
Resave(h, s) == /\ loaded[h] # NoState /\ files[s] = NoFile
                /\ LET p == src[h][2] IN
                   files' = [files EXCEPT ![s] = Mask(Flatten(loaded[h]), flags[p])]
                /\ snap' = [snap EXCEPT ![s] = loaded[h]]
                /\ act' = [n |-> "Resave", h |-> h, s |-> s] /\ UNCHANGED <<live, loaded, src, flags>>

PVals == {"p", "q"}
Temps == {"400.5", "500.0"}
Next == \/ \E n \in MutNodes, v \in PVals : AssignParam(n, v)
        \/ \E n \in MutNodes, v \in PVals : SetComposition(n, v)
        \/ \E n \in MutNodes, T \in Temps : SetTemperature(n, T)
        \/ \E a, b \in 1..MaxNodes : Swap(a, b)
        \/ \E a \in 1..MaxNodes : Rotate(a)
        \/ \E a \in 1..MaxNodes : Detach(a)
        \/ Grow
        \/ \E s \in Slots : Write(s)
        \/ \E s \in Slots : WriteRefused(s)
        \/ \E s \in Slots, h \in Handles, p \in Procs : Load(s, h, p)
        \/ \E s \in Slots, h \in Handles : Resave(h, s)
Spec == Init /\ [][Next]_vars

(* ------------------------------------------------ properties --------------------------------------------- *)
TypeOK == /\ WellFormed(live)
          /\ \A s \in Slots : files[s] = NoFile \/ Consistent(files[s])
          /\ \A h \in Handles : (loaded[h] = NoState) = (src[h] = <<0, 0>>)
LoadedIsWritten    == \A h \in Handles : src[h][1] # 0 => loaded[h] = Canon(snap[src[h][1]])
LoadedClauseWise   == \A h \in Handles : src[h][1] # 0 => ObsEqual(Canon(snap[src[h][1]]), loaded[h])
\* ... whichever process loads it
LoadTwiceEqual     == \A h1, h2 \in Handles : (src[h1][1] # 0 /\ src[h1][1] = src[h2][1]) => loaded[h1] = loaded[h2]
FilesDescribeSnaps == \A s \in Slots : files[s] # NoFile => files[s] = Flatten(snap[s])
ResaveFixpoint     == \A s \in Slots : files[s] # NoFile =>
                         LET l == LoadFile(files[s]) IN /\ FileObs(Flatten(l)) = FileObs(files[s])
                                                    /\ LoadFile(Flatten(l)) = l
\* a loaded reactor is in canonical order and is a fixpoint of Canon
LoadedIsCanonical  == \A h \in Handles : src[h][1] # 0 => Canon(loaded[h]) = loaded[h]
\* a process that has loaded a reactor offers every parameter group to the writer again
FreshResaveKeepsParameters == \A h \in Handles : src[h][1] # 0 => flags[src[h][2]] = ParamGroups
Mutations == {"AssignParam", "SetComposition", "SetTemperature", "Swap", "Rotate", "Grow", "Detach"}
SnapshotsFrozen == [][act'.n \in Mutations => (files' = files /\ loaded' = loaded)]_vars
RefusalsChangeNothing == [][act'.n = "WriteRefused" => UNCHANGED <<live, files, snap, loaded, src, flags>>]_vars
WritesAreAppendOnly   == [][\A s \in Slots : files[s] # NoFile => files'[s] = files[s]]_vars
=====================================================================================================
