--------------------------------------- MODULE FlagCodec_trace --------------------------------------
(* code -> spec: seeded random histories  define class ; write ; (extend | redefine)* ; read  run on generated Flag
   classes through FlagSerializer and a real HDF5 dataset; every event's post-state must be a step of FlagCodec.     *)
EXTENDS FlagCodec, IOUtils, TLCExt
Traces == ndJsonDeserialize(IOEnv.TRACE_FILE)
NT     == Len(Traces)
VARIABLES tid, l
ASSUME \A t \in 1..NT : TLCSet(t, 0)
AsSets(ss) == [i \in Ix(ss) |-> Rng(ss[i])]
TInit == /\ tid \in 1..NT /\ l = 1
         /\ cls = Traces[tid].cls0 /\ defn = Traces[tid].def0 /\ phase = "defined" /\ wsets = <<>> /\ store = NoStore /\ back = <<>>
Ev == Traces[tid].ev[l]
A  == Ev.a
Step == \/ A.n = "Write" /\ WriteAny(AsSets(A.sets))
        \/ A.n = "Extend" /\ Extend(A.f)
        \/ A.n = "ExtendPair" /\ ExtendPair(A.x, A.y)
        \/ A.n = "Redefine" /\ RedefineAny(A.o, A.d)
        \/ A.n = "Read" /\ (\E k \in 0..Len(Ev.post.cls) : Read(SubSeq(Ev.post.cls, k + 1, Len(Ev.post.cls))))
                        /\ back' = AsSets(Ev.post.back)
Matches == cls' = Ev.post.cls /\ defn' = Ev.post.def /\ phase' = Ev.post.phase
ObsMatch == \/ Matches
            \/ /\ ~Matches
               /\ PrintT(ToJson([mismatch |-> Traces[tid].id, at |-> l, cls |-> cls', phase |-> phase']))
               /\ FALSE
TNext == /\ l <= Len(Traces[tid].ev) /\ l' = l + 1 /\ tid' = tid
         /\ Step
         /\ ObsMatch
TSpec == TInit /\ [][TNext]_<<fvars, tid, l>>
Progress == IF TLCGet(tid) < l THEN TLCSet(tid, l) ELSE TRUE
Report == LET bad == {t \in 1..NT : TLCGet(t) # Len(Traces[t].ev) + 1} IN
          /\ \A t \in bad : PrintT(ToJson([rejected |-> Traces[t].id, matched |-> TLCGet(t) - 1]))
          /\ PrintT(ToJson([accepted |-> NT - Cardinality(bad), of |-> NT]))
=====================================================================================================
