\* ten-field classes: rows are two bytes wide; reader lacks / reorders / rotates fields
CONSTANTS Names = {"A", "B", "C", "D", "E", "F", "G", "H", "I", "J"}  MaxObj = 1  Wide = TRUE  MaxRow = 1
INIT FInit
NEXT FNext
CONSTRAINT Bound
INVARIANT FTypeOK
INVARIANT FRefusalStoresNothing
INVARIANT FlagMeaning
INVARIANT ReadExtendsOnly
INVARIANT BytesExact
CHECK_DEADLOCK FALSE
ACTION_CONSTRAINT EmitRead
