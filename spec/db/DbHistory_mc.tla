----------------------------------------- MODULE DbHistory_mc -----------------------------------------
(* TLC configurations of DbHistory: bounded exhaustive run (all clauses), and the emission run whose edges and
   per-state observations are replayed on a real armi Database. *)
EXTENDS DbHistory
\* labels of the configurations, each in ASCII order ("every written snapshot and nothing else is listed" whatever the label is)
McLabels  == <<"", "EOL">>
McLabelsB == <<"", "-special">>
McLabelsC == <<"", ".v2", "EOL">>
Bound == TLCGet("level") <= MaxLevel
View  == vars
\* one line per explored edge (compact) and one line per distinct state (with every query result)
Emit  == PrintT(ToJson([lvl |-> TLCGet("level"), from |-> Vars, act |-> act', to |-> Vars', err |-> err', res |-> ResView']))
EmitState == PrintT(ToJson([st |-> Vars, obs |-> Obs]))
=====================================================================================================
