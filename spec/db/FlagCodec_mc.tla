--------------------------------------- MODULE FlagCodec_mc ----------------------------------------
EXTENDS FlagCodec
CONSTANTS Wide, MaxRow     \* Wide: ten-field classes (two bytes per row) with hand-picked reorderings; MaxRow: |set| bound when Wide
Base == <<"A", "B", "C", "D", "E", "F", "G", "H", "I", "J">>
Swap(s, i, j) == [k \in Ix(s) |-> IF k = i THEN s[j] ELSE IF k = j THEN s[i] ELSE s[k]]
WideOrders == {Base, Reverse(Base), SubSeq(Base, 2, 10) \o <<"A">>, <<"J">> \o SubSeq(Base, 1, 9), SubSeq(Base, 1, 9),
               SubSeq(Base, 2, 10), Swap(Base, 1, 9), SubSeq(Base, 1, 8), Swap(SubSeq(Base, 1, 9), 8, 9)}
Orders == IF Wide THEN WideOrders ELSE UNION {SetToSeqs(S) : S \in SUBSET Names \ {{}}}
Rows(o) == IF Wide THEN {S \in SUBSET Rng(o) : Cardinality(S) <= MaxRow \/ S = Rng(o)} ELSE SUBSET Rng(o)

\* definition orders explored per class: bit order and its reverse (wide: readers in bit order; four names: bit order only, definition
\* order then differs from bit order through ExtendPair)
DefOrders(o) == IF ~Wide /\ Cardinality(Names) > 3 THEN {o} ELSE {o, Reverse(o)}
FInit == /\ cls \in Orders /\ defn \in DefOrders(cls)
         /\ phase = "defined" /\ wsets = <<>> /\ store = NoStore /\ back = <<>>
Write == phase = "defined" /\ \E n \in 1..MaxObj : \E sets \in [1..n -> Rows(cls)] : WriteAny(sets)
Redefine == \E o \in Orders : \E d \in (IF Wide \/ Cardinality(Names) > 3 THEN {o} ELSE DefOrders(o)) : RedefineAny(o, d)
ExtendOne == (\E n \in Names : Extend(n)) \/ (~Wide /\ \E x, y \in Names : ExtendPair(x, y))
ReadBack == \E ext \in SetToSeqs(Missing) : Read(ext)
FNext == Write \/ RefuseUnset \/ ExtendOne \/ Redefine \/ ReadBack
Bound == TLCGet("level") <= 5
Srt(S) == SetToSortSeq(S, LAMBDA a, b : IndexIn(Base, a) < IndexIn(Base, b))
EmitRead == /\ (phase = "defined" /\ phase' = "refused") => PrintT(ToJson([w |-> cls, wd |-> defn, unset |-> TRUE]))
            /\ (phase = "stored" /\ phase' = "read") =>
              PrintT(ToJson([w |-> store.order, wd |-> store.wdef, sets |-> [i \in Ix(wsets) |-> Srt(wsets[i])], rows |-> store.rows,
                             r |-> cls, rd |-> defn, now |-> cls', back |-> [i \in Ix(back') |-> Srt(back'[i])]]))
=====================================================================================================
