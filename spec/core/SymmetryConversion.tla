---------------------------------------- MODULE SymmetryConversion ----------------------------------------
(* C13 -- symmetry conversions of the core multiply and restore the model exactly.

   REFERENCE DESIGN of the four geometry changes the statement names, one action per public call and per branch
   of that call, over a hexagonal core whose cells are lattice pairs <<i, j>> (SymLattice / HexSymmetry of C08 are
   reused: Rot3 is the GEOMETRIC rotation of a cell centre by k*120 degrees, Line the geometric symmetry line;
   nothing here is copied from HexGrid.getSymmetricEquivalents / overlapsWhichSymmetryLine).

     Convert              ThirdCoreHexToFullCoreChanger.convert(r)                 geometryConverters.py
                            = EdgeAssemblyChanger().removeEdgeAssemblies(core)  (purge of the 120-degree line)
                            ; symmetry := full
                            ; for a in core.getAssemblies()  [sorted by (j, i)]:
                                 for n, cell in enumerate(getSymmetricEquivalents(a)):   deepcopy(a); makeUnique();
                                     rotate((n+1)*120 deg); Core.add(copy, cell); _newAssembliesAdded.append(copy)
                            ; the assembly at 001-001 has its volume-integrated block parameters multiplied by 3
     ConvertAlreadyFull   convert on a full core: "Cannot expand", nothing changes
     Restore              restorePreviousGeometry(): Core.removeAssembly(a, discharge=False) for every added
                          assembly; symmetry := third periodic; centre parameters divided by 3; reset()
     RestoreNothing       restorePreviousGeometry() of a changer that has nothing to undo: nothing changes
     AddEdges(kept)       EdgeAssemblyChanger.addEdgeAssemblies(core): every assembly on the 0-degree line
                          [sorted by (ring, pos)] is deep-copied, made unique and -- unless its target cell is filled
                          ("Edge assembly already exists ... Not adding") -- Core.add-ed at the FIRST symmetric
                          equivalent of its cell (the 120-degree image, which lies on the 120-degree line); no rotation.
                          kept = the call is made on the one long-lived EdgeAssemblyChanger of the history (TRUE) or on
                          a fresh one, as convert() itself does (FALSE).
     AddEdgesAlreadyThere the long-lived changer still lists assemblies it added: "Skipping addition", nothing changes
     AddEdgesFullCore     full core: returns at once
     RemoveEdges(kept)    removeEdgeAssemblies(core): EVERYTHING on the 120-degree line is purged
                          (Core.removeAssembly(a, discharge=False)), whoever put it there; reset() of that changer
     RemoveEdgesFullCore  full core: returns at once (the changer is not reset)
     ScaleParams          EdgeAssemblyChanger.scaleParamsRelatedToSymmetry(core) with something to do: see the action
     ScaleParamsNothing   ... with nothing flagged or no pair of line assemblies: nothing changes
                          (both only in a third core: the call is meant for a core that carries its edge assemblies)
     Solve(f)             stands for the flux solve between add and scale: assigns every valued volume-integrated parameter
     EditCopy             a client edits a temporary copy while the core is full (Assembly.insert(0, block)); the core's
                          tables do not list the new block; Restore must still purge everything it does list

   Core.add(a, loc)  = child list, childrenByLocator[loc], assembliesByName, blocksByName, fresh name from the
                       reactor's counter (the copy carries a negative placeholder number), Assembly.moveTo(loc),
                       which multiplies every VOLUME_INTEGRATED block parameter by oldFactor / newFactor (the copy is
                       detached when the old factor is read, so oldFactor = 1).
   Core.removeAssembly(a, discharge=False) = the inverse on all four structures (a purge: no spent fuel pool).

   SYMMETRY FACTOR (HexBlock.getSymmetryFactor, carried literally because getVolume / getMass of the code divide by it,
   and the statement's totals are the totals the code reports):
       third periodic:  3 at the centre cell; 2 on the 0- and 120-degree lines iff the cell <<-1, 2>> (ring 3, the
                        innermost cell of the 120-degree line) is registered in childrenByLocator; otherwise 1
       full core:       1 everywhere

   Abstract state
     sym        "third" | "full"                              Core.symmetry
     at[c]      the assembly whose locator is cell c (Core children): [num, o, k, ps] or NoAsm
                   num  its name (assembly number; the object's identity in this model)
                   o    which ORIGINAL assembly (1..n, build order) it is, or is a copy of
                   k    0 the original object; 1, 2 copy made by Convert and rotated by k*120 degrees; 3 edge copy
                   ps   exact rational: stored value of every volume-integrated block parameter of this object
                        divided by the value original o was built with (all other parameters never change)
     byLoc[c]   Core.childrenByLocator (name registered for the cell, NoNum = none)
     byName     Core.assembliesByName (set of registered names);  byBlk: Core.blocksByName, per owning assembly
     nextNum    Reactor.p.maxAssemNum
     added      ThirdCoreHexToFullCoreChanger._newAssembliesAdded (names);  conv: that changer has converted
     ecAdded    the long-lived EdgeAssemblyChanger's _newAssembliesAdded is non-empty
     gflag      the SINCE_LAST_GEOMETRY_TRANSFORMATION assignment flag of the (valued) volume-integrated parameter
                definitions: set by every assignment (Solve, an effective ScaleParams) and -- because Core.add and
                Core.removeAssembly re-raise every flag of a parameter that was ever assigned -- by every step that adds or
                removes an assembly; cleared at the END of addEdgeAssemblies.  scaleParamsRelatedToSymmetry scales exactly the
                flagged parameters.  (convert() no longer consults it since D1 was repaired.)
     at[c].ed   this (temporary) copy carries a block the core was never told about (EditCopy)
     zcells[z]  Core.zones: the cells listed by zone z (two zones in the generated cores, by parity of the original's index).
                convert() lists every new cell in the zone that lists its source's cell; nothing ever un-lists a cell
     at[c].fx   the scalar fluxes (flux, fluxAdj, fluxGamma) of this object are as built / as solved; FALSE once
                scaleParamsRelatedToSymmetry has recomputed them from the combined multigroup fluxes
     touched, flow, trip, preEdge   history variables for the invariants (a parameter write has happened; progress through
                add ; solve ; scale ; remove  resp.  add ; scale ; remove; the core as it was when the edges were added)
     sf0[o]     symmetry factor original o had in the initial state (the built values describe that fraction of it)
     pat, base  constants of a behaviour: the loading pattern (sorted cells) and the edge-free third-core model
     preConv    the core as it was when Convert was last called (for the literal restore clause, see I2)
     act        the call just made and the branch taken (label of the edge; hidden by the VIEWs)

   QUANTITIES.  Original o has (unknown, arbitrary) full volume V[o], mass M[o][nuc] of every nuclide and value
   P[o][p] of every volume-integrated parameter p.  What the core reports is LINEAR in them:
       volume, mass(nuc)   = SUM_o VolCoef[o] * V[o] (resp. M[o][nuc]),     VolCoef[o] = SUM over cells holding o : 1/SF
       calcTotalParam(p)   = SUM_o ParCoef[o] * P[o][p],                    ParCoef[o] = SUM over cells holding o : ps
       (calcBasedOnFullObj: FullCoef[o] = SUM ps * SF)
   The x3 law is stated on the coefficient vectors, hence for ALL block parameters and compositions at once.

   STATEMENT CLAUSES -> INVARIANTS
     full core = exactly the cells generated under 120-degree rotation ............ OrbitClosure
     each new assembly a copy of its source rotated into place ..................... CopiesRotatedIntoPlace, DispIsRotation
                                                                                      (displacement vector / coords() of the blocks)
     independent, uniquely named ................................................... UniqueNames (+ adapter: no shared
                                                                                      block/component/parameter objects)
     counts, mass of every nuclide, volume, volume-integrated totals x3 (centre once) TimesThree
     undoing the conversion returns the previous state (cells, parameters, symmetry) RestoreReturnsPrevious, BaseConstant
     adding then removing edge assemblies returns the previous state ............... EdgesRoundTrip, BaseConstant
     location and name lookups resolve as before / never a purged assembly ......... LookupsTruthful
     all sequences of convert / restore / add-edge / remove-edge ................... BaseConstant (state invariant)
     ... also through scaleParamsRelatedToSymmetry, as the converter is used ....... EdgesScaleRoundTrip (add ; scale ; remove
                                                                                      = identity on every parameter),
                                                                                      AddEdgesClearsFlags, HalvesCombine
                                                                                      (add ; solve ; scale ; remove)
     (pass-through, not named in the statement) copies are found in their source's zone, zone-wise counts x3 ... ZonesFollowSources
     (auxiliary) TypeOK, SymmetryConsistent, EdgeCopiesAreHalves, EditsAreTemporary
     Observed on the real code only (constants of Obs): no object shared between assemblies (shared = 0); array objects the
     caller assigned as parameter values -- the harness assigns ONE array to every block of every assembly -- are never modified
     in place (inputsIntact)

   INTERPRETATION CHOICES
     I1  "three times the third-core values": a third-core model that carries edge assemblies is converted by first
         discarding them (they duplicate the 0-degree line; with them the count clause could not hold).  The third-core
         values of the x3 clause are those of the edge-free model `base`.
     I2  Previous state: Convert discards edge assemblies for good and Restore does not bring them back; likewise
         RemoveEdges purges edge assemblies that were there before AddEdges.  The reference follows the code here
         (DESIGN modelling note: "removeEdgeAssemblies purges everything on the 120-degree line"): both round trips
         return the EDGE-FREE model, which is the previous state whenever that state had no edge assemblies of its own.
         The literal reading (edge assemblies present before Convert are back after Restore) is LitRestoreKeepsEdges;
         TLC refutes it on this reference (SymmetryConversion_lit.cfg) and props/c13.py confirms the refuting behaviour
         on the real code and reports it as a note, not as a violation.
     I3  Name counters (Reactor/Core maxAssemNum) are not part of "the previous state"; names of copies are compared
         only for being unique and never used before.
     I4  A converted core is restored even when the conversion added no assembly (core = centre assembly only) and
         when there is no centre assembly (hole at 001-001): `conv`, not "the list of added assemblies is non-empty".
     I5  The centre's parameters are multiplied by 3 whatever the history of parameter-assignment flags.
     I6  scaleParamsRelatedToSymmetry belongs to the edge round trip as the converter is used (add ; [solve] ; scale ; remove).
         It is modelled for a non-empty third core only (the code would happily pair the 0- and 120-degree lines of a full
         core, and it raises AttributeError on a core that has lost all its assemblies -- getFirstBlock() is None; neither
         call has a meaning, both are outside the alphabet).  Where it pairs assemblies of DIFFERENT origin (edge assemblies
         that were in the model from the start) the result is no multiple of the built values: the scale becomes Mixed,
         is projected as <<0, 0>> and the parameter totals are not compared (parOk) until a Solve overwrites it.
         Solve stands for the flux solve: it assigns; what it writes is an input of the action.  After a Solve or an effective
         ScaleParams (`touched`) the clauses about "the same parameters" are compared on structure only -- except along the two
         named flows, whose laws are EdgesScaleRoundTrip and HalvesCombine.

   WHERE armi LEFT THIS REFERENCE when the check was built -- each reproduced on the real code by props/c13.py, since repaired
   in /repo (fix: commits 1074268, 36d9bf3, 63ac587)
     D1 (I5) convert() scaled only the volume-integrated parameters "assigned since the last geometry transformation";
             addEdgeAssemblies() clears that flag, so AddEdges (adding nothing) ; Convert left the centre unscaled.
     D2 (I4) centre-only core: Convert ; Restore left the core full and the centre multiplied by 3.
     D3 (I4) no centre assembly: Restore raised TypeError after removing the added assemblies.
   NOT A CLAUSE OF THE STATEMENT, but seen on the way (Obs.vqv / volOk): Assembly.getVolume is the cached area of the first
   block times the height, and addEdgeAssemblies / removeEdgeAssemblies refresh that cache only on the 0-degree line; an
   original assembly that already sits on the 120-degree line keeps reporting its old volume when the innermost edge cell
   <<-1, 2>> is filled or emptied (its masses follow the new factor).  Both round trips purge such assemblies, so no clause
   is touched; their volume is simply not projected.

   ZONES, seen on the way (not clauses): restorePreviousGeometry leaves the image cells listed in their zones, edge copies join
   no zone, and an edge assembly that was in the model from the start leaves its cell listed when convert discards it, so the
   image that lands there is found in THAT zone first (and counted in both).  The reference transcribes all three.

   CONFIGURATIONS (SymmetryConversion_mc.tla)
     _mc.cfg           all 255 loading patterns of a 3-ring third core (7 cells + the edge cell), call sequences <= 4
     _mc_thorough.cfg  510 patterns over lines-to-ring-5 + centre + interior cells (alone / inside a 4-ring core), <= 5 calls
     _emit*.cfg        the graphs that are walked through the real converters (8 hand-picked / 255 patterns, <= 3 calls)
     _lit.cfg          the literal restore clause (I2), expected to be refuted
     _witness_*.cfg    non-vacuity: the flows add ; solve ; scale ; remove and add ; scale ; remove are reachable (refuted)
     _trace*.cfg       batch validation of recorded histories (5-ring generated cores; the 9-ring test reactor)
*)
EXTENDS SymLattice, Rational, TLC, Json

CONSTANTS Dom,        \* candidate cells of the third-core model (first third, 120-degree line included)
          Patterns,   \* the loading patterns explored: non-empty subsets of Dom
          Go,         \* enabling condition of every action (depth bound in the model-checking configs, TRUE otherwise)
          MaxLevel

VARIABLES sym, at, byLoc, byName, byBlk, nextNum, added, conv, ecAdded, gflag, zcells, touched, flow, trip, preEdge,
          pat, base, sf0, preConv, act
vars == <<sym, at, byLoc, byName, byBlk, nextNum, added, conv, ecAdded, gflag, zcells, touched, flow, trip, preEdge, pat, base, sf0, preConv>>
hist == <<touched, flow, trip, preEdge>>      \* history variables: read by invariants only

(* ------------------------------------------------ geometry ------------------------------------------------ *)
O == "flat"                                        \* armi core grids are flats-up; the index algebra is the same for both
HS == INSTANCE HexSymmetry WITH N <- 1, K <- 0, BigK <- {}, MaxLevel <- 0, AllKz <- FALSE, AllSp <- FALSE,
                                o <- O, c <- Centre, kz <- 0, sp <- 0,   \* only the constant-level geometry operators are used
                                act <- [n |-> "Init", k |-> 0, from |-> Centre]
GeoRot3(k, cc)  == HS!GeoRot(O, 2 * k, cc)         \* the cell whose centre is cc's centre turned by k*120 degrees ccw
UpperEdge       == <<-1, 2>>
All             == UNION {{cc, GeoRot3(1, cc), GeoRot3(2, cc)} : cc \in Dom \cup {UpperEdge}}
\* tables over the finite universe (constant-level: TLC evaluates them once)
RotT            == [k \in 0..2 |-> [cc \in All |-> GeoRot3(k, cc)]]
LineT           == [cc \in All |-> HS!GeoLine(O, cc)]     \* 1 = 0 deg, 2 = 60 deg, 3 = 120 deg, 4 = centre, 0 = none
ThirdT          == [top \in BOOLEAN |-> [cc \in All |-> HS!GeoInSector(O, cc, top)]]
Rot3(k, cc)     == RotT[k % 3][cc]
Line(cc)        == LineT[cc]
InThird(cc, top) == ThirdT[top][cc]
Orbit(cc)       == {cc, Rot3(1, cc), Rot3(2, cc)}

ASSUME \A cc \in Dom : InThird(cc, TRUE)
ASSUME Patterns \subseteq SUBSET Dom /\ {} \notin Patterns
ASSUME Line(UpperEdge) = 3 /\ Rot3(1, <<2, -1>>) = UpperEdge

CellLess(a, b)     == a[1] < b[1] \/ (a[1] = b[1] /\ a[2] < b[2])
SortedCells(S)     == SetToSortSeq(S, CellLess)
AsmOrderLess(a, b) == a[2] < b[2] \/ (a[2] = b[2] /\ a[1] < b[1])          \* Core.getAssemblies(): by (k, j, i)
RingPosLess(a, b)  == LET p == AlgRingPos(a)  q == AlgRingPos(b)            \* getAssembliesOnSymmetryLine: (ring, pos)
                      IN  p[1] < q[1] \/ (p[1] = q[1] /\ p[2] < q[2])

(* -------------------------------------------- the core as a value -------------------------------------------- *)
NoNum == -1
NoAsm == [num |-> NoNum, o |-> 0, k |-> 0, ps |-> RZero, fx |-> TRUE, ed |-> FALSE]
\* parameter scales: a rational, or Mixed when scaleParamsRelatedToSymmetry has added the values of an assembly of ANOTHER
\* origin (the result is then not a multiple of the built values; it is not projected)
Mixed        == <<0, 0>>
IsMixed(p)   == p[2] = 0
PMulI(p, n)  == IF IsMixed(p) THEN Mixed ELSE RMul(p, RInt(n))
PDivI(p, n)  == IF IsMixed(p) THEN Mixed ELSE RDiv(p, RInt(n))
PAdd(p, q)   == IF IsMixed(p) \/ IsMixed(q) THEN Mixed ELSE RAdd(p, q)
Cur   == [at |-> at, loc |-> byLoc, nm |-> byName, bk |-> byBlk, nn |-> nextNum]
Occ(K)      == {cc \in All : K.at[cc].num # NoNum}
EdgeOcc(K)  == {cc \in Occ(K) : Line(cc) = 3}
LowerOcc(K) == {cc \in Occ(K) : Line(cc) = 1}
Live(K)     == {K.at[cc].num : cc \in Occ(K)}
Proj(K)     == [at |-> K.at, loc |-> K.loc, nm |-> K.nm, bk |-> K.bk]

\* HexBlock.getSymmetryFactor
SFk(K, s, cc) == IF s = "third"
                 THEN IF cc = Centre THEN 3
                      ELSE IF Line(cc) \in {1, 3} /\ K.loc[UpperEdge] # NoNum THEN 2 ELSE 1
                 ELSE 1

\* Core.removeAssembly(a, discharge=False)
PurgeOne(K, cc) == LET n == K.at[cc].num IN
                   [K EXCEPT !.at[cc] = NoAsm, !.loc[cc] = NoNum, !.nm = @ \ {n}, !.bk = @ \ {n}]
PurgeSet(K, S)  == FoldLeft(PurgeOne, K, SortedCells(S))

\* deepcopy(source) ; makeUnique ; Core.add(copy, t)  -- the target must be free (Core.add refuses a filled location)
PlaceCopy(K, src, t, kind) ==
    LET r == [num |-> K.nn, o |-> K.at[src].o, k |-> kind, ps |-> K.at[src].ps, fx |-> K.at[src].fx, ed |-> FALSE] IN
    IF K.at[t].num # NoNum \/ K.loc[t] # NoNum
    THEN Assert(FALSE, <<"Core.add to a filled location", t>>)
    ELSE [K EXCEPT !.at[t] = r, !.loc[t] = K.nn, !.nm = @ \cup {K.nn}, !.bk = @ \cup {K.nn}, !.nn = @ + 1]
\* ... followed by Assembly.moveTo's rescaling with the factor the cell has once the copy sits there (third core)
PlaceEdge(K, src, t) ==
    LET K1 == PlaceCopy(K, src, t, 3) IN
    [K1 EXCEPT !.at[t].ps = PDivI(@, SFk(K1, "third", t))]

GrowOne(K, cc) == IF cc = Centre THEN K
                  ELSE PlaceCopy(PlaceCopy(K, cc, Rot3(1, cc), 1), cc, Rot3(2, cc), 2)
AddOneEdge(K, cc) == LET t == Rot3(1, cc) IN IF K.loc[t] # NoNum THEN K ELSE PlaceEdge(K, cc, t)

\* the edge-free third-core model under a state
\* scaleParamsRelatedToSymmetry pairs the two lines by rank: zip(0-degree line, 120-degree line), each sorted by (ring, pos)
LowerSeq(K)  == SetToSortSeq(LowerOcc(K), RingPosLess)
UpperSeq(K)  == SetToSortSeq(EdgeOcc(K), RingPosLess)
NPairs(K)    == IF Len(LowerSeq(K)) <= Len(UpperSeq(K)) THEN Len(LowerSeq(K)) ELSE Len(UpperSeq(K))
\* every 0-degree-line assembly has its identical image on the 120-degree line, and the code's factor rule sees them as halves
FullyPaired(K) == /\ Len(LowerSeq(K)) = Len(UpperSeq(K)) /\ Len(LowerSeq(K)) > 0
                  /\ K.loc[UpperEdge] # NoNum
                  /\ \A x \in 1..Len(LowerSeq(K)) : /\ K.at[LowerSeq(K)[x]].o = K.at[UpperSeq(K)[x]].o
                                                     /\ UpperSeq(K)[x] = Rot3(1, LowerSeq(K)[x])
ScaleOne(K, x) == LET l == LowerSeq(K)[x]  u == UpperSeq(K)[x] IN
                  [K EXCEPT !.at[l].ps = IF K.at[l].o = K.at[u].o THEN PAdd(@, K.at[u].ps) ELSE Mixed,
                            !.at[l].fx = FALSE]
ScaleAll(K) == FoldLeft(ScaleOne, K, [x \in 1..NPairs(K) |-> x])

BaseK(K, s, addedNums) ==
    IF s = "third" THEN PurgeSet(K, EdgeOcc(K))
    ELSE LET K1 == PurgeSet(K, {cc \in Occ(K) : K.at[cc].num \in addedNums})
         IN  IF Centre \in Occ(K1) THEN [K1 EXCEPT !.at[Centre].ps = PDivI(@, 3)] ELSE K1

\* Zones (Core.zones: named sets of locations).  The generated cores define two, by parity of the original's index.
ZoneOfOrigin(oo) == IF oo % 2 = 1 THEN 1 ELSE 2
ZoneAt(cc)       == IF cc \in zcells[1] THEN 1 ELSE IF cc \in zcells[2] THEN 2 ELSE 0       \* Zones.findZoneItIsIn
\* the copy an "edit while full" touches: the one in the smallest cell
EditTarget(K, addedNums) == LET cs == SortedCells({cc \in Occ(K) : K.at[cc].num \in addedNums}) IN cs[1]

(* ------------------------------------------------- machine ------------------------------------------------- *)
Install(K) == at' = K.at /\ byLoc' = K.loc /\ byName' = K.nm /\ byBlk' = K.bk /\ nextNum' = K.nn
Label(n, kept, br) == [n |-> n, kept |-> kept, br |-> br]

InitWith(P) ==
    LET cs == SortedCells(P)
        idx(cc) == CHOOSE x \in 1..Len(cs) : cs[x] = cc
        K0 == [at  |-> [cc \in All |-> IF cc \in P THEN [num |-> idx(cc) - 1, o |-> idx(cc), k |-> 0, ps |-> ROne, fx |-> TRUE, ed |-> FALSE] ELSE NoAsm],
               loc |-> [cc \in All |-> IF cc \in P THEN idx(cc) - 1 ELSE NoNum],
               nm  |-> 0..(Len(cs) - 1), bk |-> 0..(Len(cs) - 1), nn |-> Len(cs)]
    IN  /\ pat = cs /\ sym = "third"
        /\ at = K0.at /\ byLoc = K0.loc /\ byName = K0.nm /\ byBlk = K0.bk /\ nextNum = K0.nn
        /\ added = {} /\ conv = FALSE /\ ecAdded = FALSE /\ gflag = TRUE
        /\ zcells = [z \in 1..2 |-> {cs[x] : x \in {y \in 1..Len(cs) : ZoneOfOrigin(y) = z}}]
        /\ touched = FALSE /\ flow = "none" /\ trip = "" /\ preEdge = Proj(K0)
        /\ base = Proj(BaseK(K0, "third", {}))
        /\ sf0 = [x \in 1..Len(cs) |-> SFk(K0, "third", cs[x])]
        /\ preConv = Proj(K0)
        /\ act = Label("init", FALSE, "Init")
Init == \E P \in Patterns : InitWith(P)

Convert ==
    /\ Go
    /\ sym = "third"
    /\ LET K1   == PurgeSet(Cur, EdgeOcc(Cur))
           srcs == SetToSortSeq(Occ(K1), AsmOrderLess)
           K2   == FoldLeft(GrowOne, K1, srcs)
           K3   == IF Centre \in Occ(K2) THEN [K2 EXCEPT !.at[Centre].ps = PMulI(@, 3)] ELSE K2
       IN  /\ Install(K3)
           /\ added' = K3.nm \ K1.nm
           /\ gflag' = (gflag \/ K3.nm # byName)
    /\ preConv' = Proj(Cur)
    /\ sym' = "full" /\ conv' = TRUE
    /\ flow' = "none" /\ trip' = ""
    \* thisZone.addLoc(newAssem.getLocation()): every new cell joins the zone that lists its source's cell
    /\ zcells' = [z \in DOMAIN zcells |->
                    zcells[z] \cup UNION {{Rot3(1, cc), Rot3(2, cc)} : cc \in (Occ(Cur) \cap zcells[z]) \ (EdgeOcc(Cur) \cup {Centre})}]
    /\ UNCHANGED <<ecAdded, touched, preEdge, pat, base, sf0>>
    /\ act' = Label("convert", FALSE, "Convert")

ConvertAlreadyFull ==
    /\ Go
    /\ sym = "full"
    /\ UNCHANGED vars
    /\ act' = Label("convert", FALSE, "ConvertAlreadyFull")

Restore ==
    /\ Go
    /\ conv
    /\ Install(BaseK(Cur, "full", added))
    /\ sym' = "third" /\ conv' = FALSE /\ added' = {}
    /\ gflag' = (gflag \/ added # {})
    /\ flow' = "none" /\ trip' = ""
    /\ UNCHANGED <<zcells, ecAdded, touched, preEdge, pat, base, sf0, preConv>>
    /\ act' = Label("restore", FALSE, "Restore")

RestoreNothing ==
    /\ Go
    /\ ~conv
    /\ UNCHANGED vars
    /\ act' = Label("restore", FALSE, "RestoreNothing")

AddEdges(kept) ==
    /\ Go
    /\ sym = "third" /\ ~(kept /\ ecAdded)
    /\ LET lower == SetToSortSeq(LowerOcc(Cur), RingPosLess)
           K1    == FoldLeft(AddOneEdge, Cur, lower)
       IN  /\ Install(K1)
           /\ ecAdded' = IF kept THEN K1.nn # nextNum ELSE ecAdded
    /\ gflag' = FALSE
    /\ flow' = "none" /\ trip' = "A" /\ preEdge' = Proj(Cur)
    /\ UNCHANGED <<zcells, sym, added, conv, touched, pat, base, sf0, preConv>>
    /\ act' = Label("addEdges", kept, "AddEdges")

AddEdgesAlreadyThere(kept) ==
    /\ Go
    /\ kept /\ sym = "third" /\ ecAdded
    /\ UNCHANGED vars
    /\ act' = Label("addEdges", TRUE, "AddEdgesAlreadyThere")

AddEdgesFullCore(kept) ==
    /\ Go
    /\ sym = "full"
    /\ UNCHANGED vars
    /\ act' = Label("addEdges", kept, "AddEdgesFullCore")

RemoveEdges(kept) ==
    /\ Go
    /\ sym = "third"
    /\ Install(PurgeSet(Cur, EdgeOcc(Cur)))
    /\ ecAdded' = IF kept THEN FALSE ELSE ecAdded
    /\ gflag' = (gflag \/ EdgeOcc(Cur) # {})
    /\ flow' = (IF flow = "scaled" THEN "combined" ELSE "none")
    /\ trip' = (IF trip = "AS" THEN "ASR" ELSE "")
    /\ UNCHANGED <<zcells, sym, added, conv, touched, preEdge, pat, base, sf0, preConv>>
    /\ act' = Label("removeEdges", kept, "RemoveEdges")

RemoveEdgesFullCore(kept) ==
    /\ Go
    /\ sym = "full"
    /\ UNCHANGED vars
    /\ act' = Label("removeEdges", kept, "RemoveEdgesFullCore")

\* EdgeAssemblyChanger.scaleParamsRelatedToSymmetry(core) (static; third core -- the call is meant for a core that carries
\* its edge assemblies): for every pair zip(0-degree line, 120-degree line) and every block pair, each volume-integrated
\* parameter that is ASSIGNED SINCE THE LAST GEOMETRY TRANSFORMATION and non-zero gets the twin's value added (multigroup
\* fluxes elementwise, and the scalar flux / adjoint flux / gamma flux are recomputed from the sum: fx := FALSE).
ScaleParams ==
    /\ Go
    /\ sym = "third" /\ Occ(Cur) # {} /\ gflag /\ NPairs(Cur) > 0
    /\ Install(ScaleAll(Cur))
    /\ touched' = TRUE
    /\ flow' = (IF flow = "solved" THEN "scaled" ELSE "none")
    /\ trip' = (IF trip = "A" THEN "AS" ELSE "")
    /\ UNCHANGED <<zcells, sym, added, conv, ecAdded, gflag, preEdge, pat, base, sf0, preConv>>
    /\ act' = Label("scaleParams", FALSE, "ScaleParams")

\* nothing has been assigned since the last geometry transformation (the state addEdgeAssemblies leaves behind), or there is
\* no pair: nothing changes
ScaleParamsNothing ==
    /\ Go
    /\ sym = "third" /\ Occ(Cur) # {} /\ ~(gflag /\ NPairs(Cur) > 0)
    /\ trip' = (IF trip = "A" THEN "AS" ELSE "")
    /\ UNCHANGED <<zcells, sym, at, byLoc, byName, byBlk, nextNum, added, conv, ecAdded, gflag, touched, flow, preEdge, pat, base, sf0, preConv>>
    /\ act' = Label("scaleParams", FALSE, "ScaleParamsNothing")

\* what stands for the flux solve between addEdgeAssemblies and scaleParamsRelatedToSymmetry: every volume-integrated
\* parameter (and the scalar fluxes) of every block is ASSIGNED; f[x] is the new scale of the assembly in the x-th occupied
\* cell (sorted).  PhysSeq is what a solver writes: the whole-assembly value divided by the current symmetry factor.
PhysPs(K, s, cc) == RFrac(sf0[K.at[cc].o], SFk(K, s, cc))
PhysSeq == LET cs == SortedCells(Occ(Cur)) IN [x \in 1..Len(cs) |-> PhysPs(Cur, sym, cs[x])]
Solve(f) ==
    /\ Go
    /\ LET cs == SortedCells(Occ(Cur)) IN
       /\ Len(f) = Len(cs)
       /\ \A x \in 1..Len(f) : f[x][1] > 0 /\ f[x][2] > 0
       /\ at' = [cc \in All |-> IF cc \in Occ(Cur)
                                THEN LET x == CHOOSE y \in 1..Len(cs) : cs[y] = cc IN [at[cc] EXCEPT !.ps = Norm(f[x][1], f[x][2]), !.fx = TRUE]
                                ELSE at[cc]]
    /\ gflag' = TRUE /\ touched' = TRUE
    /\ flow' = (IF sym = "third" /\ f = PhysSeq /\ FullyPaired(Cur) THEN "solved" ELSE "none")
    /\ trip' = ""
    /\ UNCHANGED <<zcells, sym, byLoc, byName, byBlk, nextNum, added, conv, ecAdded, preEdge, pat, base, sf0, preConv>>
    /\ act' = [n |-> "solve", kept |-> FALSE, br |-> "Solve", ps |-> f]

\* a client edits one of the temporary copies while the core is full: Assembly.insert(0, block) pushes a new bottom block
\* into the copy in the smallest cell.  The core is not told (blocksByName does not list the block); the purge at Restore
\* must still forget every block of that copy that it does list.
EditCopy ==
    /\ Go
    /\ sym = "full" /\ added # {} /\ ~at[EditTarget(Cur, added)].ed
    /\ at' = [at EXCEPT ![EditTarget(Cur, added)].ed = TRUE]
    /\ UNCHANGED <<sym, byLoc, byName, byBlk, nextNum, added, conv, ecAdded, gflag, zcells, touched, flow, trip, preEdge, pat, base, sf0, preConv>>
    /\ act' = Label("editCopy", FALSE, "EditCopy")

\* one disjunct per CALL (what a recorded event names); the specification decides the branch
CallConvert        == Convert \/ ConvertAlreadyFull
CallRestore        == Restore \/ RestoreNothing
CallAddEdges(kept) == AddEdges(kept) \/ AddEdgesAlreadyThere(kept) \/ AddEdgesFullCore(kept)
CallRemoveEdges(kept) == RemoveEdges(kept) \/ RemoveEdgesFullCore(kept)
CallScaleParams    == ScaleParams \/ ScaleParamsNothing
Next == CallConvert \/ CallRestore \/ CallScaleParams \/ Solve(PhysSeq) \/ EditCopy
        \/ \E kept \in BOOLEAN : CallAddEdges(kept) \/ CallRemoveEdges(kept)

(* ------------------------------------------------ quantities ------------------------------------------------ *)
NOrig == Len(pat)
CoefOver(K, f(_)) == FoldSet(LAMBDA cc, acc : [acc EXCEPT ![K.at[cc].o] = RAdd(@, f(cc))],
                             [oo \in 1..NOrig |-> RZero], Occ(K))
VolCoef(K, s)  == CoefOver(K, LAMBDA cc : RFrac(1, SFk(K, s, cc)))
ParCoef(K)     == CoefOver(K, LAMBDA cc : IF IsMixed(K.at[cc].ps) THEN RZero ELSE K.at[cc].ps)
FullCoef(K, s) == CoefOver(K, LAMBDA cc : IF IsMixed(K.at[cc].ps) THEN RZero ELSE RMul(K.at[cc].ps, RInt(SFk(K, s, cc))))
ParOk(K)       == \A cc \in Occ(K) : ~IsMixed(K.at[cc].ps)
Times3(v)      == [oo \in DOMAIN v |-> RMul(v[oo], RInt(3))]
BaseAsK        == [at |-> base.at, loc |-> base.loc, nm |-> base.nm, bk |-> base.bk, nn |-> 0]
HasCentre(K)   == Centre \in Occ(K)
Count(K)       == Cardinality(Occ(K))

(* ------------------------------------------------ invariants ------------------------------------------------ *)
AsmRecs == [num : Int, o : Nat, k : 0..3, ps : Int \X Int, fx : BOOLEAN, ed : BOOLEAN]
TypeOK ==
    /\ sym \in {"third", "full"}
    /\ at \in [All -> AsmRecs] /\ byLoc \in [All -> Int]
    /\ byName \subseteq Nat /\ byBlk \subseteq Nat /\ nextNum \in Nat /\ added \subseteq Nat
    /\ conv \in BOOLEAN /\ ecAdded \in BOOLEAN /\ gflag \in BOOLEAN /\ touched \in BOOLEAN /\ zcells \in [1..2 -> SUBSET All]
    /\ flow \in {"none", "solved", "scaled", "combined"} /\ trip \in {"", "A", "AS", "ASR"}
    /\ \A cc \in Occ(Cur) : at[cc].o \in 1..NOrig /\ (IsMixed(at[cc].ps) \/ (at[cc].ps[1] > 0 /\ at[cc].ps[2] > 0))
    /\ ~touched => \A cc \in Occ(Cur) : at[cc].fx /\ ~IsMixed(at[cc].ps)

SymmetryConsistent ==
    /\ conv <=> sym = "full"
    /\ sym = "third" => \A cc \in Occ(Cur) : InThird(cc, TRUE)
    /\ sym = "third" => added = {}
    /\ added \subseteq Live(Cur)

\* full core = exactly what the (edge-free) third-core cells generate under 120-degree rotation
OrbitClosure == sym = "full" => Occ(Cur) = UNION {Orbit(cc) : cc \in Occ(BaseAsK)}

\* every copy sits at the image of its source under the rotation it was given; the source is the original object
CopiesRotatedIntoPlace ==
    /\ sym = "full" => \A cc \in Occ(Cur) :
          /\ at[cc].k \in {0, 1, 2}
          /\ at[cc].k = 0 => InThird(cc, FALSE)
          /\ at[cc].k \in {1, 2} =>
               LET s == Rot3(3 - at[cc].k, cc) IN                  \* turn back
               /\ Rot3(at[cc].k, s) = cc
               /\ at[s].k = 0 /\ at[s].o = at[cc].o /\ (~touched => at[s].ps = at[cc].ps)
               /\ at[cc].num \in added
    /\ sym = "third" => \A cc \in Occ(Cur) :
          /\ at[cc].k \in {0, 3}
          /\ at[cc].k = 3 => /\ Line(cc) = 3
                             /\ LET s == Rot3(2, cc) IN at[s].k = 0 /\ at[s].o = at[cc].o /\ Line(s) = 1

\* zones are a pass-through: every copy made by Convert is found in the zone of its source, so zone-wise counts triple too
\* (an edge copy joins no zone, and Restore leaves the image cells listed: that is what the code does, zones are not named
\* in the statement, and neither is observable through an assembly that is in the core)
\* (stated where no cell is listed by both zones: an edge assembly that was in the model from the start leaves its cell
\*  listed when convert discards it, and the image that lands there is then found in that zone first)
ZonesFollowSources == (sym = "full" /\ zcells[1] \cap zcells[2] = {}) =>
    /\ \A cc \in Occ(Cur) : at[cc].k \in {1, 2} => ZoneAt(cc) = ZoneAt(Rot3(3 - at[cc].k, cc))
    /\ \A z \in 1..2 : LET inB == {cc \in Occ(BaseAsK) : ZoneAt(cc) = z}
                            n   == Cardinality({cc \in Occ(Cur) : ZoneAt(cc) = z})
                        IN  n = IF Centre \in inB THEN 3 * (Cardinality(inB) - 1) + 1 ELSE 3 * Cardinality(inB)
\* only temporary copies are ever edited, and only while the core is full
EditsAreTemporary == \A cc \in Occ(Cur) : at[cc].ed => sym = "full" /\ at[cc].k \in {1, 2}

\* names are unique, below the counter; an object sits in one cell only
UniqueNames ==
    /\ \A c1, c2 \in Occ(Cur) : c1 # c2 => at[c1].num # at[c2].num
    /\ \A cc \in Occ(Cur) : at[cc].num < nextNum
    /\ \A cc \in Occ(Cur) : at[cc].k = 0 <=> at[cc].num = at[cc].o - 1      \* originals keep their names, copies never reuse them

\* the three lookup tables are exactly the graph of `at`: they find every assembly and nothing purged
LookupsTruthful ==
    /\ \A cc \in All : byLoc[cc] = at[cc].num
    /\ byName = Live(Cur)
    /\ byBlk = Live(Cur)

\* x3: counts (centre once), volume and mass of every nuclide, every volume-integrated total
TimesThree == (sym = "full" /\ \A cc \in Occ(Cur) : ~at[cc].ed) =>
    /\ VolCoef(Cur, "full") = Times3(VolCoef(BaseAsK, "third"))
    /\ ~touched => ParCoef(Cur) = Times3(ParCoef(BaseAsK))       \* (parameters nobody has re-assigned or combined since)
    /\ Count(Cur) = IF HasCentre(BaseAsK) THEN 3 * (Count(BaseAsK) - 1) + 1 ELSE 3 * Count(BaseAsK)

\* whatever the history, the edge-free third-core model under the state is the one the behaviour started from:
\* same assemblies at the same places with the same names and parameters, same lookup tables
\* (Solve and an effective ScaleParams write parameters -- that is their purpose; from then on `touched`, only the
\*  structure is compared: which object sits where under which name, and the lookup tables)
Struct(P) == [at |-> [cc \in All |-> <<P.at[cc].num, P.at[cc].o, P.at[cc].k>>], loc |-> P.loc, nm |-> P.nm, bk |-> P.bk]
SameAsBase(P) == Struct(P) = Struct(base) /\ (~touched => P = base)
BaseConstant == SameAsBase(Proj(BaseK(Cur, sym, added)))

RestoreReturnsPrevious == act.br = "Restore" => sym = "third" /\ SameAsBase(Proj(Cur)) /\ EdgeOcc(Cur) = {}
EdgesRoundTrip         == act.br = "RemoveEdges" => sym = "third" /\ SameAsBase(Proj(Cur))

\* adding the edge assemblies, calling scaleParamsRelatedToSymmetry with nothing assigned in between (no solve), removing
\* them: the core is EXACTLY what it was before the edge assemblies were added (minus edge assemblies it already had, I2) --
\* every parameter included, whatever happened earlier in the history.  addEdgeAssemblies ends by clearing the
\* assigned-since-the-last-geometry-transformation flags precisely so that this holds.
PurgedProj(P) == Proj(PurgeSet([at |-> P.at, loc |-> P.loc, nm |-> P.nm, bk |-> P.bk, nn |-> 0],
                               {cc \in All : P.at[cc].num # NoNum /\ Line(cc) = 3}))
EdgesScaleRoundTrip == trip = "ASR" => Proj(Cur) = PurgedProj(preEdge)
\* the flag discipline itself: right after addEdgeAssemblies nothing counts as assigned
AddEdgesClearsFlags == act.br = "AddEdges" => ~gflag

\* the flow the converter exists for: add edges ; solve (every assembly gets the value of the part of it that is modelled) ;
\* scaleParamsRelatedToSymmetry ; remove edges  ==  "combining two half-assemblies into a full one": every assembly holds
\* what a solve on the edge-free core would have written
HalvesCombine == flow = "combined" => \A cc \in Occ(Cur) : at[cc].ps = PhysPs(Cur, sym, cc)

\* with the innermost edge cell filled, an edge copy and its source each report half of the assembly: nothing is
\* counted twice (the code's detection rule; when <<2,-1>> is a hole the rule does not fire and the copy counts fully)
EdgeCopiesAreHalves ==
    (sym = "third" /\ byLoc[UpperEdge] # NoNum) =>
        \A cc \in Occ(Cur) : at[cc].k = 3 => SFk(Cur, sym, cc) = 2 /\ SFk(Cur, sym, Rot3(2, cc)) = 2

\* I2, literal reading: TLC refutes this on the reference (and the real code behaves like the reference)
LitRestoreKeepsEdges == act.br = "Restore" => Proj(Cur) = preConv

(* -------------------------------------- observations printed for the harness -------------------------------------- *)
RotOf(k) == IF k \in {1, 2} THEN k ELSE 0
\* Every block of every original is built with the displacement D0 (cm).  A copy rotated by k*120 degrees carries the rotated
\* vector  R(120k) D0,  with cos = SymC6(2k)/2 and sin = sqrt(3) * SymS6(2k)/2 (the tables pinned down by the ASSUMEs of SymLattice);
\* each coordinate is the exact number  a + b*sqrt(3),  printed as <<ax, bx, ay, by>> (rationals).  Block.coords() of the copy is
\* then the centre of its cell plus that vector: the rotated coords() of the source.
D0 == << <<3, 10>>, <<-1, 5>> >>
DispOf(k) == LET cc == RInt(SymC6(2 * RotOf(k)))  ss == RInt(SymS6(2 * RotOf(k)))  half == RFrac(1, 2) IN
             << RMul(half, RMul(cc, D0[1])), RNeg(RMul(half, RMul(ss, D0[2]))),
                RMul(half, RMul(cc, D0[2])), RMul(half, RMul(ss, D0[1])) >>
DispT == [k \in 0..3 |-> DispOf(k)]           \* (constant-level table: evaluated once)
\* ... and it IS that rotation: same length, and the angle from D0 to it is k*120 degrees counter-clockwise
\* (rational and sqrt(3) parts of |d'|^2, d.d' and d x d' separately)
Sq(r) == RMul(r, r)
DispIsRotation == \A k \in 0..3 :
    LET d == DispOf(k)  n2 == RAdd(Sq(D0[1]), Sq(D0[2]))
        cc == RFrac(SymC6(2 * RotOf(k)), 2)  ss == RFrac(SymS6(2 * RotOf(k)), 2) IN
    /\ RAdd(RAdd(Sq(d[1]), RMul(RInt(3), Sq(d[2]))), RAdd(Sq(d[3]), RMul(RInt(3), Sq(d[4])))) = n2            \* |d'|^2, rational part
    /\ RAdd(RMul(d[1], d[2]), RMul(d[3], d[4])) = RZero                                                     \* |d'|^2, sqrt(3) part
    /\ RAdd(RMul(D0[1], d[1]), RMul(D0[2], d[3])) = RMul(cc, n2) /\ RAdd(RMul(D0[1], d[2]), RMul(D0[2], d[4])) = RZero      \* d . d'
    /\ RSub(RMul(D0[1], d[3]), RMul(D0[2], d[1])) = RZero /\ RSub(RMul(D0[1], d[4]), RMul(D0[2], d[2])) = RMul(ss, n2)      \* d x d'
ObsT ==
    LET K  == Cur
        cs == SortedCells(Occ(K))
        al == SortedCells(All)
    IN [sym    |-> sym,
        mult   |-> IF sym = "third" THEN 3 ELSE 1,                              \* Core.powerMultiplier
        cells  |-> cs,
        asm    |-> [x \in 1..Len(cs) |->
                      LET cc == cs[x]
                          f  == SFk(K, sym, cc) IN
                      [o    |-> at[cc].o,
                       orig |-> at[cc].k = 0,
                       rot  |-> RotOf(at[cc].k),                                 \* orientation / 120 degrees
                       sf   |-> f,
                       \* (an edited copy has one block more than its source: its quantities are not projected, <<0, 0>>)
                       vq   |-> IF at[cc].ed THEN <<0, 0>> ELSE RFrac(1, f),             \* reported mass of every nuclide / full value
                       \* reported volume / full volume.  Assembly.getVolume is (cached area of its first block) x height; the
                       \* code refreshes that cache for the centre and the 0-degree line whenever their factor changes, but not
                       \* for an ORIGINAL assembly that already sat on the 120-degree line when the innermost edge cell is
                       \* filled or emptied.  Such assemblies are outside every clause of the statement (both round trips
                       \* purge them): their volume is not projected (<<0, 0>>), and where one is present the core's total
                       \* volume is not compared (volOk).
                       vqv  |-> IF (Line(cc) = 3 /\ at[cc].k = 0) \/ at[cc].ed THEN <<0, 0>> ELSE RFrac(1, f),
                       ps   |-> IF at[cc].ed THEN <<0, 0>> ELSE at[cc].ps,                                       \* volume-integrated parameters / built value (<<0,0>> = mixed)
                       fx   |-> at[cc].fx,                                       \* scalar flux / adjoint flux as built (not recomputed)
                       other |-> IF at[cc].ed THEN <<0, 0>> ELSE ROne,           \* every other parameter / built value
                       zone |-> ZoneAt(cc),                                      \* Zones.findZoneItIsIn: 1 = "A", 2 = "B", 0 = none
                       ed   |-> at[cc].ed]],                                     \* carries a block the core was never told about
        byLoc  |-> SortedCells({cc \in All : byLoc[cc] # NoNum}),
        where  |-> [x \in 1..Len(al) |->                                         \* getAssemblyWithStringLocation over the hexagon
                      LET n == byLoc[al[x]] IN
                      IF n = NoNum THEN <<0, 0>>
                      ELSE IF at[al[x]].num = n THEN <<at[al[x]].o, at[al[x]].k>>          \* (always, by LookupsTruthful)
                      ELSE LET hit == {cc \in Occ(K) : at[cc].num = n} IN
                           IF hit = {} THEN <<0, 0>> ELSE LET cc == CHOOSE h \in hit : TRUE IN <<at[cc].o, at[cc].k>>],
        nameFinds |-> SortedCells({cc \in Occ(K) : at[cc].num \in byName}),      \* getAssemblyByName(name) is the assembly
        blkFinds  |-> SortedCells({cc \in Occ(K) : at[cc].num \in byBlk /\ ~at[cc].ed}),       \* getBlockByName for each of its blocks
        staleNames |-> Cardinality(byName \ Live(K)),
        staleBlks  |-> Cardinality(byBlk \ Live(K)),
        count  |-> Count(K),
        zoneCounts |-> [z \in 1..2 |-> Cardinality(Occ(K) \cap zcells[z])],               \* len(getAssemblies(zones=[name]))
        totOk  |-> \A cc \in Occ(K) : ~at[cc].ed,                                   \* core totals comparable (no edited copy)
        inputsIntact |-> TRUE,          \* array objects the caller assigned as parameter values are never modified in place
        parOk  |-> ParOk(K),                                                     \* parameter totals comparable (nothing mixed)
        pool   |-> 0,                                                            \* assemblies these operations sent to the spent fuel pool
        volOk  |-> ~\E cc \in Occ(K) : Line(cc) = 3 /\ at[cc].k = 0,
        shared |-> 0,                                                            \* objects shared between two assemblies
        namesUnique |-> \A c1, c2 \in Occ(K) : c1 # c2 => at[c1].num # at[c2].num,
        origNamesKept |-> \A cc \in Occ(K) : at[cc].k = 0 => at[cc].num = at[cc].o - 1,
        freshNames |-> \A cc \in Occ(K) : at[cc].k # 0 => at[cc].num >= NOrig /\ at[cc].num < nextNum]   \* copies: names never used before
Obs == [d   |-> ObsT,
        disp |-> LET cs == SortedCells(Occ(Cur)) IN [x \in 1..Len(cs) |-> DispT[at[cs[x]].k]],
        vol |-> VolCoef(Cur, sym),
        par |-> ParCoef(Cur),
        full |-> FullCoef(Cur, sym)]
\* identity of a node of the emitted graph: everything that decides the future, without the absolute names
Vars == [pat |-> pat, sym |-> sym,
         cells |-> LET cs == SortedCells(Occ(Cur)) IN [x \in 1..Len(cs) |-> <<cs[x], at[cs[x]].o, at[cs[x]].k, at[cs[x]].ps, at[cs[x]].fx, at[cs[x]].ed>>],
         conv |-> conv, ec |-> ecAdded, gflag |-> gflag, z1 |-> SortedCells(zcells[1]), z2 |-> SortedCells(zcells[2])]
=============================================================================================================
