---------------------------------------------- MODULE Zones ----------------------------------------------
(* Zones of the core (armi/reactor/zones.py: Zone, Zones) on top of the fuel-management model FuelShuffle.

   A Zone is a named set of location labels; Zones is the name-keyed collection Core.zones.  One action per API call,
   refusals as named outcomes that leave everything unchanged:

     AddZone(n, S) / AddZoneDup(n)        Zones.addZone(Zone(n, S))            ValueError when the name exists
     RemoveZone(n) / RemoveZoneAbsent(n)  Zones.removeZone(n)                  KeyError
     AddLoc(n, l), AddLocs(n, ls)         Zone.addLoc / addLocs                (adding a present location is a no-op)
     RemoveLoc(n, l) / RemoveLocAbsent    Zone.removeLoc                       KeyError (set.remove)
     RemoveLocs(n, ls)                    Zone.removeLocs = removeLoc one by one: a missing location raises in the
                                          middle, the earlier ones stay removed (no atomicity is documented)
     AddItem(n, a), RemoveItem(n, a) / RemoveItemAbsent    Zone.addItem / removeItem: the item's CURRENT location
     AddItemWrongType(n)                  a Block handed to an Assembly zone: AssertionError
     CheckOk / CheckDup                   Zones.checkDuplicates(): pure; RuntimeError naming the duplicated locations
     GetMissing(n)                        Zones.getZoneLocations(unknown name): KeyError
     SortZones(rev)                       Zones.sortZones(reverse): re-orders the internal dictionary
     Swap, DischargeSwap, RemoveAsm, Add  the fuel moves of FuelShuffle (zones untouched)

   State added to FuelShuffle's:  zorder = the names in the collection, in the collection's internal (insertion /
   sorted) order;  zlocs[n] = the locations of zone n (empty for names not in the collection).
   Observed after every step (ZObs): names (sorted), internal order, every zone's iteration (sorted) and length,
   getAllLocations, getZoneLocations of all names, findZoneItIsIn(a) for every assembly -- answered from the
   assembly's CURRENT location --, the duplicates checkDuplicates names, the lines summary() writes.
   findZoneItIsIn returns the first zone in name order that holds the location (zones.py iterates sorted); once
   checkDuplicates has succeeded that is the unique one (FindIsUnique).  Zones of Block type, addItems/removeItems/
   addZones/removeZones (plain loops over the calls modelled here) are not modelled. *)
EXTENDS FuelShuffle

CONSTANTS ZNames,      \* zone names (strings)
          NameRank,    \* [ZNames -> Nat]: alphabetical rank of a name
          MaxZoneInit, \* a new zone starts with at most this many locations
          InitOrder,   \* the zones defined when the history starts (names in insertion order) ...
          InitLocs     \* ... and their locations [ZNames -> SUBSET Loc]

VARIABLES zorder, zlocs
zvars == <<zorder, zlocs>>
zall  == <<allvars, zvars>>

Present == Rng(zorder)
Disjoint == \A m, n \in Present : m # n => zlocs[m] \cap zlocs[n] = {}
SortedNames(S) == SetToSortSeq(S, LAMBDA p, q : NameRank[p] < NameRank[q])
AllLocs == UNION {zlocs[n] : n \in Present}
Dups == {l \in Loc : Cardinality({n \in Present : l \in zlocs[n]}) >= 2}
\* findZoneItIsIn: first zone, in name order, that holds the assembly's current location label; "" = None
Find(a) == LET hits == {n \in Present : a \in InCore /\ loc[a] \in zlocs[n]} IN
           IF hits = {} THEN "" ELSE SortedNames(hits)[1]

ZOk(a) == err' = "" /\ act' = a /\ UNCHANGED vars
ZRefuse(a) == err' = "refused" /\ act' = a /\ UNCHANGED vars /\ UNCHANGED zvars

AddZone(n, S) ==
    /\ Go /\ n \in ZNames \ Present
    /\ zorder' = Append(zorder, n) /\ zlocs' = [zlocs EXCEPT ![n] = S]
    /\ ZOk([n |-> "AddZone", z |-> n, s |-> SortedInts(S)])
AddZoneDup(n) == Go /\ n \in Present /\ ZRefuse([n |-> "AddZoneDup", z |-> n])
RemoveZone(n) ==
    /\ Go /\ n \in Present
    /\ zorder' = Without(zorder, n) /\ zlocs' = [zlocs EXCEPT ![n] = {}]
    /\ ZOk([n |-> "RemoveZone", z |-> n])
RemoveZoneAbsent(n) == Go /\ n \in ZNames \ Present /\ ZRefuse([n |-> "RemoveZoneAbsent", z |-> n])
AddLoc(n, l) ==
    /\ Go /\ n \in Present /\ zlocs' = [zlocs EXCEPT ![n] = @ \cup {l}] /\ UNCHANGED zorder
    /\ ZOk([n |-> "AddLoc", z |-> n, l |-> l])
AddLocs(n, ls) ==
    /\ Go /\ n \in Present /\ zlocs' = [zlocs EXCEPT ![n] = @ \cup Rng(ls)] /\ UNCHANGED zorder
    /\ ZOk([n |-> "AddLocs", z |-> n, ls |-> ls])
RemoveLoc(n, l) ==
    /\ Go /\ n \in Present /\ l \in zlocs[n] /\ zlocs' = [zlocs EXCEPT ![n] = @ \ {l}] /\ UNCHANGED zorder
    /\ ZOk([n |-> "RemoveLoc", z |-> n, l |-> l])
RemoveLocAbsent(n, l) == Go /\ n \in Present /\ l \notin zlocs[n] /\ ZRefuse([n |-> "RemoveLocAbsent", z |-> n, l |-> l])
\* removeLoc one by one; the first missing location raises, what was removed before stays removed
RemoveLocs(n, ls) ==
    /\ Go /\ n \in Present
    /\ LET r == FoldLeft(LAMBDA acc, l : IF ~acc.ok THEN acc ELSE IF l \in acc.s THEN [ok |-> TRUE, s |-> acc.s \ {l}]
                                                            ELSE [ok |-> FALSE, s |-> acc.s],
                         [ok |-> TRUE, s |-> zlocs[n]], ls)
       IN zlocs' = [zlocs EXCEPT ![n] = r.s] /\ err' = IF r.ok THEN "" ELSE "refused"
    /\ UNCHANGED zorder /\ UNCHANGED vars /\ act' = [n |-> "RemoveLocs", z |-> n, ls |-> ls]
AddItem(n, a) ==
    /\ Go /\ n \in Present /\ a \in InCore /\ zlocs' = [zlocs EXCEPT ![n] = @ \cup {loc[a]}] /\ UNCHANGED zorder
    /\ ZOk([n |-> "AddItem", z |-> n, a |-> a])
AddItemWrongType(n) == Go /\ n \in Present /\ ZRefuse([n |-> "AddItemWrongType", z |-> n])
RemoveItem(n, a) ==
    /\ Go /\ n \in Present /\ a \in InCore /\ loc[a] \in zlocs[n]
    /\ zlocs' = [zlocs EXCEPT ![n] = @ \ {loc[a]}] /\ UNCHANGED zorder
    /\ ZOk([n |-> "RemoveItem", z |-> n, a |-> a])
RemoveItemAbsent(n, a) ==
    /\ Go /\ n \in Present /\ a \in InCore /\ loc[a] \notin zlocs[n] /\ ZRefuse([n |-> "RemoveItemAbsent", z |-> n, a |-> a])
CheckOk == Go /\ Disjoint /\ UNCHANGED zvars /\ ZOk([n |-> "CheckDuplicates"])
CheckDup == Go /\ ~Disjoint /\ ZRefuse([n |-> "CheckDuplicates"])
GetMissing(n) == Go /\ n \in ZNames \ Present /\ ZRefuse([n |-> "GetMissing", z |-> n])
SortZones(rev) ==
    /\ Go /\ zorder' = (IF rev THEN Reverse(SortedNames(Present)) ELSE SortedNames(Present)) /\ UNCHANGED zlocs
    /\ ZOk([n |-> "SortZones", rev |-> rev])
FuelMove ==
    /\ UNCHANGED zvars
    /\ \/ \E x, y \in Asm : Swap(x, y)
       \/ \E i, o \in Asm : DischargeSwap(i, o)
       \/ \E a \in Asm : RemoveAsm(a, TRUE)
       \/ \E a \in Asm, l \in Loc : Add(a, l, "arg")

SmallSets == {S \in SUBSET Loc : Cardinality(S) <= MaxZoneInit}
Pairs == {<<p, q>> : p, q \in Loc}
ZInit == /\ \E t \in TrackSet, f \in SFlagSets, d \in DbSet : InitWith(t, f, d)
         /\ zorder = InitOrder /\ zlocs = [n \in ZNames |-> IF n \in Rng(InitOrder) THEN InitLocs[n] ELSE {}]
ZNext ==
    \/ \E n \in ZNames, S \in SmallSets : AddZone(n, S)
    \/ \E n \in ZNames : AddZoneDup(n) \/ RemoveZone(n) \/ RemoveZoneAbsent(n) \/ AddItemWrongType(n) \/ GetMissing(n)
    \/ \E n \in ZNames, l \in Loc : AddLoc(n, l) \/ RemoveLoc(n, l) \/ RemoveLocAbsent(n, l)
    \/ \E n \in ZNames, ls \in Pairs : AddLocs(n, ls) \/ RemoveLocs(n, ls)
    \/ \E n \in ZNames, a \in Asm : AddItem(n, a) \/ RemoveItem(n, a) \/ RemoveItemAbsent(n, a)
    \/ CheckOk \/ CheckDup
    \/ \E rev \in BOOLEAN : SortZones(rev)
    \/ FuelMove
ZSpec == ZInit /\ [][ZNext]_zall

(* ------------------------------------------------ properties ------------------------------------------------ *)
ZTypeOK == Present \subseteq ZNames /\ \A n \in ZNames : zlocs[n] \subseteq Loc
NamesUnique == NoDup(zorder)
AbsentZonesEmpty == \A n \in ZNames \ Present : zlocs[n] = {}
\* getAllLocations is the union of the zones
AllLocsIsUnion == AllLocs = {l \in Loc : \E n \in Present : l \in zlocs[n]}
\* findZoneItIsIn(a) answers from a's current location: a zone holding it, none if no zone holds it or a left the core;
\* for mutually exclusive zones it is THE zone holding it
FindCurrent == \A a \in Asm :
    /\ (Find(a) # "" => a \in InCore /\ loc[a] \in zlocs[Find(a)])
    /\ (Find(a) = "" => ~(a \in InCore /\ \E n \in Present : loc[a] \in zlocs[n]))
FindIsUnique == Disjoint => \A a \in InCore, n \in Present : loc[a] \in zlocs[n] => Find(a) = n
\* after a successful checkDuplicates no location is in two zones (and the check changed nothing)
CheckedMeansExclusive == [][(act'.n = "CheckDuplicates" /\ err' = "") => (Dups' = {} /\ Disjoint' /\ UNCHANGED zvars)]_zall
ZRefusalsChangeNothing == [][(err' = "refused" /\ act'.n # "RemoveLocs") => (UNCHANGED vars /\ UNCHANGED zvars)]_zall
MovesKeepZones == [][act'.n \in {"Swap", "DischargeSwap", "Remove", "Add"} => UNCHANGED zvars]_zall
ZoneCallsKeepCore == [][act'.n \notin {"Swap", "DischargeSwap", "Remove", "Add"} => UNCHANGED vars]_zall

(* ------------------------------------------------ observation ------------------------------------------------ *)
ZObs == [
    children |-> children,
    loc      |-> loc,
    names    |-> SortedNames(Present),                                             \* Zones.names / iteration
    order    |-> zorder,                                                           \* the internal dictionary order
    zones    |-> [i \in 1..Len(SortedNames(Present)) |->                           \* list(zone): sorted; len(zone)
                    LET n == SortedNames(Present)[i] IN [name |-> n, locs |-> SortedInts(zlocs[n]), len |-> Cardinality(zlocs[n])]],
    all      |-> SortedInts(AllLocs),                                              \* getAllLocations
    union    |-> SortedInts(AllLocs),                                              \* getZoneLocations(names)
    find     |-> [a \in Asm |-> Find(a)],                                          \* findZoneItIsIn
    dups     |-> SortedInts(Dups),                                                 \* what checkDuplicates would name
    err      |-> err ]
ZVars == [core |-> Vars, order |-> zorder,
          zlocs |-> [i \in 1..Len(SortedNames(ZNames)) |-> SortedInts(zlocs[SortedNames(ZNames)[i]])]]
==========================================================================================================
