-------------------------------------- MODULE GeometryConversion_mc --------------------------------------
EXTENDS GeometryConversion
DesignsAll == {"F", "R", "B", "E", "FR", "FRB", "FFR", "half"}
DesignsQ   == {"F", "R", "E", "FR", "FFR", "half"}
CentresAll == {"none", "fuel", "reflector", "blanket"}
CentresQ   == {"none", "fuel", "reflector"}
BinsAll    == {1, 2, 3, 6}
BinsOne    == {1}
MeshesAll  == {<<40>>, <<15, 40>>, <<10, 30, 40>>, <<20, 40>>}
MeshesQ    == {<<15, 40>>, <<10, 30, 40>>}
EmitEdge  == PrintT(ToJson([case |-> CaseOut, out |-> out']))
==========================================================================================================
