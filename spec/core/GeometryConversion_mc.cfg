\* exhaustive (quick): 6 ring designs, 3 centre types, 1/2/3/6 theta bins, 2 axial meshes
CONSTANTS Designs <- DesignsQ  CentreTypes <- CentresQ  ThetaBins <- BinsAll  Meshes <- MeshesQ
INIT Init
NEXT Next
INVARIANT TypeOK
INVARIANT Partition
INVARIANT ZonesWellFormed
INVARIANT Conservation
INVARIANT MeshContiguous
INVARIANT RefusalIffEmptyBin
CHECK_DEADLOCK FALSE
