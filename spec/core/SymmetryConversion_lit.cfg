\* I2, literal reading of "undoing the conversion returns the core to its previous state" for cores that carry edge
\* assemblies: expected to be REFUTED by TLC on the reference (see module header); props/c13.py runs the refuting
\* behaviour on the real code and reports what it does as a note
CONSTANTS Dom <- Dom3  Patterns <- PatLit  MaxLevel = 3  Go <- GoBounded
INIT Init
NEXT Next
CONSTRAINT Bound
VIEW ViewAll
INVARIANT LitRestoreKeepsEdges
CHECK_DEADLOCK FALSE
