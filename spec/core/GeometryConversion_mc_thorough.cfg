\* exhaustive: every case over 3-ring full cores given by ring designs x 1/2/3/6 theta bins x 4 axial meshes
CONSTANTS Designs <- DesignsAll  CentreTypes <- CentresAll  ThetaBins <- BinsAll  Meshes <- MeshesAll
INIT Init
NEXT Next
INVARIANT TypeOK
INVARIANT Partition
INVARIANT ZonesWellFormed
INVARIANT Conservation
INVARIANT MeshContiguous
INVARIANT RefusalIffEmptyBin
CHECK_DEADLOCK FALSE
