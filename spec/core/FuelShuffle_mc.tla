---------------------------------------- MODULE FuelShuffle_mc ----------------------------------------
(* Model-checking instances of FuelShuffle: constants of the generated cores, bounds, views, emission. *)
EXTENDS FuelShuffle

\* core S: 3 assemblies on 4 locations + 1 in the pre-loaded pool + 2 fresh.  Assembly 3 is shorter (no plenum), fresh 6
\* has its grid plate on top: every stationary-flag setting but {} produces incompatible pairs as well as compatible ones.
LayoutS == <<  <<"G", "F", "P">>, <<"G", "F", "P">>, <<"G", "F">>, <<"G", "F", "P">>, <<"G", "F", "P">>, <<"F", "G">>  >>
PlaceS  == <<1, 2, 3>>
\* core T: 4 assemblies on 5 locations + 1 pooled + 2 fresh, two stationary types per assembly
LayoutT == <<  <<"G", "F", "P">>, <<"G", "F", "P">>, <<"G", "S", "F">>, <<"G", "F">>, <<"G", "S", "F">>, <<"G", "F", "P">>, <<"G", "S", "F">>  >>
PlaceT  == <<1, 3, 4, 5>>
FlagsNone == {{}}
FlagsG    == {{"G"}}
FlagsAll  == {{}, {"G"}, {"P"}, {"G", "P"}}
FlagsGPonly == {{"G", "P"}}
FlagsG2   == {{}, {"G", "P"}}
FlagsGP   == {{}, {"G"}, {"G", "P"}}
FlagsGPS  == {{}, {"G"}, {"G", "S"}, {"P"}}
FlagsT2   == {{"G", "S"}}
FlagsTe   == {{}, {"G", "S"}}
Both      == {TRUE, FALSE}
NoDb      == {FALSE}
OnlyDb    == {TRUE}
OnlyTrack == {TRUE}

\* Depth bound as an enabling condition: states at depth MaxLevel are reached and checked but not expanded, so no
\* successor is generated only to be thrown away (a CONSTRAINT would generate, check and print all of them).
GoBounded == TLCGet("level") < MaxLevel
Bound == TLCGet("level") <= MaxLevel
ViewAll == vars
\* one line per explored edge, one line per distinct state
Emit == PrintT(ToJson([lvl |-> TLCGet("level"), from |-> Vars, act |-> act', to |-> Vars', err |-> err']))
\* q: what a look-up by location answers in this state (the expectation of an Ask made in it)
EmitState == PrintT(ToJson([st |-> Vars, obs |-> Obs, q |-> Queries]))
ASSUME PrintT(ToJson([config |-> Config, noAnswer |-> NoAnswer]))
========================================================================================================
