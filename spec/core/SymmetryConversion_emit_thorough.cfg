\* spec -> code (thorough): every edge out of every state reachable in <= 3 calls from every pattern of <= 3 cells over the
\* line-focused domain, the 4-cell patterns with the centre and <<2,-1>>, and the hand-picked family, with the observation of every state (workers 1)
CONSTANTS Dom <- DomE  Patterns <- PatET  MaxLevel = 4  Go <- GoBounded
ACTION_CONSTRAINT Emit
INVARIANT EmitState
INIT Init
NEXT Next
CONSTRAINT Bound
VIEW ViewEmit
CHECK_DEADLOCK FALSE
