\* trace validation: generated third cores of up to 9 rings (the full test reactor) (120-degree line included), pattern carried by each trace
CONSTANTS Dom <- DomR9  Patterns <- NoPatterns  MaxLevel = 999  Go <- GoAlways
SPECIFICATION TSpec
CONSTRAINT Progress
POSTCONDITION Report
INVARIANT TypeOK
INVARIANT SymmetryConsistent
INVARIANT OrbitClosure
INVARIANT CopiesRotatedIntoPlace
INVARIANT UniqueNames
INVARIANT ZonesFollowSources
INVARIANT EditsAreTemporary
INVARIANT LookupsTruthful
INVARIANT TimesThree
INVARIANT BaseConstant
INVARIANT RestoreReturnsPrevious
INVARIANT EdgesRoundTrip
INVARIANT EdgesScaleRoundTrip
INVARIANT AddEdgesClearsFlags
INVARIANT HalvesCombine
CHECK_DEADLOCK FALSE
