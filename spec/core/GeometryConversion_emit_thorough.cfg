\* spec -> code (thorough): thetaBins = 1, all ring designs, centre types and meshes
CONSTANTS Designs <- DesignsAll  CentreTypes <- CentresAll  ThetaBins <- BinsOne  Meshes <- MeshesAll
ACTION_CONSTRAINT EmitEdge
INIT Init
NEXT Next
CHECK_DEADLOCK FALSE
