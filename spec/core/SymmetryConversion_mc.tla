-------------------------------------- MODULE SymmetryConversion_mc --------------------------------------
(* Model-checking instances of SymmetryConversion: cell domains, pattern sets, bounds, views, emission. *)
EXTENDS SymmetryConversion

\* every cell of a 3-ring third core (7 cells of the first third + the edge cell <<-1,2>>): 255 loading patterns
Dom3 == {<<0, 0>>, <<1, 0>>, <<0, 1>>, <<2, 0>>, <<1, 1>>, <<0, 2>>, <<2, -1>>, <<-1, 2>>}
\* the symmetry lines out to ring 5 (two 0-degree cells, two 120-degree cells), the centre, one interior cell of ring 2
\* and the ring-4 cell next to the 0-degree line that sorts before the centre in Core.getAssemblies()
DomL == {<<0, 0>>, <<1, 0>>, <<2, -1>>, <<-1, 2>>, <<4, -2>>, <<-2, 4>>, <<3, -1>>, <<1, 1>>}
\* both together plus ring 4: thorough
Dom5 == Dom3 \cup DomL \cup {<<3, 0>>, <<2, 1>>, <<-1, 3>>}

DomE == Dom3 \cup DomL
AllOf(D)  == SUBSET D \ {{}}
Pat3      == AllOf(Dom3)
PatL      == AllOf(DomL)
\* the literal restore clause (I2) is examined on cores that have a centre, a 0-degree-line assembly and an edge assembly
PatLit    == {P \in Pat3 : {<<0, 0>>, <<2, -1>>, <<-1, 2>>} \subseteq P}
\* thorough: every pattern over the lines + centre + two interior cells, the rest of the 4-ring third core always present
Fixed5    == {<<0, 1>>, <<2, 0>>, <<0, 2>>, <<3, 0>>, <<2, 1>>, <<-1, 3>>}
Pat5      == {P \cup F : P \in AllOf(DomL), F \in {{}, Fixed5}}
\* emission (quick): a hand-picked family that reaches every branch and every deviation class
PatE == { {<<0, 0>>},                                                        \* centre only
          {<<1, 0>>, <<2, -1>>},                                             \* hole at the centre
          {<<0, 0>>, <<1, 0>>, <<0, 1>>},                                    \* no line cell
          {<<0, 0>>, <<1, 0>>, <<2, -1>>, <<1, 1>>},                         \* one line cell
          {<<0, 0>>, <<1, 0>>, <<2, -1>>, <<-1, 2>>},                        \* edge assembly present from the start
          {<<0, 0>>, <<2, -1>>, <<4, -2>>, <<3, -1>>},                       \* two line cells
          {<<0, 0>>, <<1, 0>>, <<4, -2>>},                                   \* hole at <<2,-1>>: factor rule does not fire
          {<<0, 0>>, <<2, -1>>, <<4, -2>>, <<-1, 2>>} }                      \* inner edge filled, outer free
\* (outer edge filled / edge assemblies without their sources: among the 255 patterns of the thorough emission)
\* emission (thorough): every pattern of at most 3 cells over the line-focused domain, the 4-cell ones with centre and
\* <<2,-1>>, and the hand-picked family (the larger ones are
\* in the exhaustive runs and in the random traces)
PatET == {P \in PatL : Cardinality(P) <= 3} \cup {P \in PatL : Cardinality(P) = 4 /\ <<0, 0>> \in P /\ <<2, -1>> \in P} \cup PatE

GoBounded == TLCGet("level") < MaxLevel
Bound   == TLCGet("level") <= MaxLevel
\* exhaustive runs: names are part of the state (the invariants about names are checked on every history)
ViewAll == vars
\* emission: one node per Vars value (absolute names hidden), act hidden
ViewEmit == <<pat, sym, [cc \in All |-> <<at[cc].o, at[cc].k, at[cc].ps, at[cc].fx, at[cc].ed>>], conv, ecAdded, gflag, zcells>>
Emit      == PrintT(ToJson([lvl |-> TLCGet("level"), from |-> Vars, act |-> act', to |-> Vars']))
EmitState == PrintT(ToJson([st |-> Vars, obs |-> Obs]))
ASSUME PrintT(ToJson([config |-> [all |-> SortedCells(All), dom |-> SortedCells(Dom)]]))
\* a full n-ring third core, 120-degree line included (trace validation, generated cores)
DomRings(n) == {cc \in (-(n - 1)..(n - 1)) \X (-(n - 1)..(n - 1)) : SymDist(cc) <= n - 1 /\ HS!GeoInSector(O, cc, TRUE)}
DomR5 == DomRings(5)
DomR9 == DomRings(9)
PatCentre == {{<<0, 0>>}}
NoPatterns == {}
GoAlways == TRUE
\* non-vacuity witnesses for the two flows through scaleParamsRelatedToSymmetry: each is an "invariant" that TLC must REFUTE
PatW == {{<<0, 0>>, <<2, -1>>, <<4, -2>>, <<1, 0>>}}
NeverCombined   == flow # "combined"          \* add ; solve ; scale ; remove is reachable
NeverScaledTrip == trip # "ASR"               \* add ; scale ; remove is reachable
==========================================================================================================
