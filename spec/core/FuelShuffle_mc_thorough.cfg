\* exhaustive: core S, stationary-flag settings {} and {G,P}, tracking on and off, depth 5
CONSTANTS NL = 4  NA0 = 3  NP0 = 1  NF = 2  MB = 3  MaxCascade = 3  MaxLevel = 5  ReAdd = TRUE
CONSTANTS Layout <- LayoutS  Place <- PlaceS  SFlagSets <- FlagsG2  TrackSet <- Both  Go <- GoBounded
INIT Init
NEXT Next
CONSTRAINT Bound
VIEW ViewAll
INVARIANT TypeOK
INVARIANT InventoryNoDuplicates
INVARIANT InventoryExact
INVARIANT PoolKeepsTrackedDischarges
INVARIANT OnePerLocation
INVARIANT ByLocTruthful
INVARIANT AsmLookupFindsLive
INVARIANT BlkLookupFindsLive
INVARIANT LookupsNeverReturnPurged
INVARIANT NamesAreCurrent
INVARIANT ContentsUnchanged
INVARIANT BlocksPartition
INVARIANT BlockOrderKept
INVARIANT NoFlagsNoExchange
PROPERTY PlacedWhereAsked
PROPERTY StationaryStay
PROPERTY RefusalsChangeNothing
PROPERTY DischargeDestination
PROPERTY MovesCounted
CHECK_DEADLOCK FALSE
