\* exhaustive: core S, stationary-flag setting {G,P}, built and database-loaded, tracking on and off, depth 5
CONSTANTS NL = 4  NA0 = 3  NP0 = 1  NF = 2  MB = 3  MaxCascade = 3  MaxLoop = 3  MaxChain = 2  MaxLevel = 5  ReAdd = TRUE
CONSTANTS Layout <- LayoutS  Place <- PlaceS  SFlagSets <- FlagsGPonly  TrackSet <- Both  DbSet <- Both  Go <- GoBounded
INIT Init
NEXT Next
CONSTRAINT Bound
VIEW ViewAll
INVARIANT TypeOK
INVARIANT InventoryNoDuplicates
INVARIANT InventoryExact
INVARIANT PoolKeepsTrackedDischarges
INVARIANT OnePerLocation
INVARIANT ByLocTruthful
INVARIANT AsmLookupFindsLive
INVARIANT BlkLookupFindsLive
INVARIANT LookupsNeverReturnPurged
INVARIANT NamesAreCurrent
INVARIANT ContentsUnchanged
INVARIANT BlocksPartition
INVARIANT BlockOrderKept
INVARIANT NoFlagsNoExchange
INVARIANT LookupsAgree
PROPERTY PlacedWhereAsked
PROPERTY StationaryStay
PROPERTY RefusalsChangeNothing
PROPERTY DischargeDestination
PROPERTY MovesCounted
PROPERTY QueriesChangeNothing
PROPERTY LabelsKept
CHECK_DEADLOCK FALSE
