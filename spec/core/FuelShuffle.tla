------------------------------------------ MODULE FuelShuffle ------------------------------------------
(* C14 -- fuel shuffling conserves the inventory and keeps the core's lookups truthful.

   REFERENCE DESIGN of the fuel-management primitives of armi, one action per public operation:

     Swap(x, y)            FuelHandler.swapAssemblies(a1, a2)               fuelHandlers.py
                             = _transferStationaryBlocks ; a1.moveTo(a2.loc) ; a2.moveTo(old a1.loc)
     SwapMismatch(x, y)    the ValueError raised by _transferStationaryBlocks when the two assemblies do not
                           carry stationary blocks at the same axial indices (raised before anything changed)
     Cascade(l)            FuelHandler.swapCascade(l) = swapAssemblies(l[0], l[1]); swapAssemblies(l[0], l[2]); ...
                           An entry may be None (written 0): that level is skipped and the cascade goes on with the
                           next level; a None in front turns every swap into a logged no-op.
                           A stationary mismatch in the middle aborts the cascade: the swaps already made stay
                           (this is what the code does, and it does not contradict the property), err = "refused".
     DischargeSwap(i, o)   FuelHandler.dischargeSwap(incoming, outgoing)
                             = _transferStationaryBlocks ; Core.removeAssembly(outgoing) [-> pool iff tracked] ;
                               sfp.remove(incoming) if it sits there ; Core.add(incoming, outgoing's location)
     DischargeMismatch     the same ValueError, nothing changed
     Add(a, l, how)        Core.add(a, locator) ("arg") / a.spatialLocator = locator; Core.add(a) ("own", the way
                           blueprints load a core); a fresh or (ReAdd) a previously purged assembly
     AddOccupied(a, l)     Core.add to a filled location is refused (ValueError "already filled") -- nothing changes
     Remove(a, d)          Core.removeAssembly(a, discharge=d): to the SpentFuelPool iff d and trackAssems,
                           otherwise purged (Core._removeListFromAuxiliaries)
     Repeat(load, loops)   FuelHandler.repeatShufflePattern(file): readMoves, processMoveList/trackChain, doRepeatShuffle
                           on a recorded outage (one load chain fed from the pool by name, in-core loops)
     Locate                Core.locateAllAssemblies()  (lastLocationLabel; clears the "database" label of a loaded case)
     Ask                   the look-ups by location made between moves (getLocationContents without a table,
                           getAssemblyWithStringLocation, getBlocksByIndices): pure, answers = Queries

   Abstract state (what the code keeps, in the code's own redundancy)
     children     Core._children (ordered)                loc[a]    a.spatialLocator as location index, 0 = not in core
     byLoc[l]     Core.childrenByLocator                   sfp       SpentFuelPool._children (ordered; NP0 assemblies
                                                                     are pre-loaded, with tracking on and off)
     slot[a]      pool cell, filled col/row-wise by SpentFuelPool._getNextLocation (first free cell)
     fresh        assemblies made but never charged (negative placeholder number, Assembly.__init__)
     purged       assemblies taken out without being kept;  charged = fresh assemblies that entered the core
     num[a]       a.p.assemNum (placeholder -a until Core.add renumbers with Reactor.incrementAssemNum)
     nextNum      Reactor.p.maxAssemNum
     asmTab       Core.assembliesByName as a set of <<number, assembly>>
     blkTab       Core.blocksByName as a set of <<number, axial index, block>>  (block name = Bnnnn-iii)
     blocks[a]    the assembly's block list, bottom to top;  bname[b] = <<number, axial index>> in b's name
     content[b]   opaque token for height, dimensions and number densities of block b
     moves[a]     a.p.numMoves (Assembly.moveTo; not counted while the assembly carries the database label)
     label[a]     a.lastLocationLabel; the initial state is either a freshly built core (all "LoadQueue") or a core
                  written to and loaded from a real database (every restored assembly "database")
     track        the trackAssems setting;  sflags = the stationaryBlockFlags setting (set of block type letters)

   Interpretation choices (each is where the reference states what the PROPERTY requires; the replay reports the
   code wherever it differs):
     R1  "lookups by block name find every block in the core or the pool": when an assembly goes to the pool its
         current blocks are registered -- including a stationary block it has just received from a fresh incoming
         assembly in the same DischargeSwap.
     R2  "under its current name / never return one that was purged": when Core.add renumbers a placeholder
         assembly, the registrations of its blocks follow the rename (no entry under the old name survives).
         Stale aliases that still return a block which is in the core or the pool are NOT observable in Obs
         (blkFound / blkDead below), so they cannot raise a false alarm.
     R3  a refused operation (AddOccupied, SwapMismatch, DischargeMismatch) leaves every variable unchanged.
     R4  purged assemblies are gone for the lookups; with ReAdd they may be added again (Core.add of an object taken
         out with discharge=False is how armi's converters re-insert assemblies).
     R5  Add without any locator ("generic location at the centre", Core.add docstring) and a bare moveTo to an empty
         cell are outside the operation alphabet of the statement.

   Where armi (pinned tree) leaves this reference -- each reproduced against the real code, see props/c14.py:
     D1 (R3)  Core.add to a filled location appends the child (and renumbers a fresh one) before the check raises;
              the error message lookup itself raises KeyError: extra child, absent from all three lookup tables.
     D2 (R1)  tracked DischargeSwap of a fresh assembly with stationary blocks: the fresh assembly's stationary
              block travels to the pool inside the outgoing assembly and is in no lookup table.
     D3 (R2)  Core.add renumbers the incoming assembly after the stationary exchange, renaming the block it has
              just received; the old name stays in blocksByName and, once that assembly is purged, returns a
              purged block.
*)
EXTENDS Integers, Sequences, FiniteSets, TLC, Json, SequencesExt, FiniteSetsExt

CONSTANTS NL,          \* core locations 1..NL
          NA0,         \* assemblies 1..NA0 are in the core initially
          NP0,         \* assemblies NA0+1..NA0+NP0 sit in the spent-fuel pool initially (a pre-loaded pool is an
                       \* input of the case, whatever the trackAssems setting)
          NF,          \* the next NF assemblies are fresh
          MB,          \* maximum number of blocks per assembly
          Layout,      \* [Asm -> Seq(letters)], bottom to top
          Place,       \* [1..NA0 -> Loc], injective
          SFlagSets,   \* the stationary-flag settings explored (sets of letters)
          TrackSet,    \* subset of BOOLEAN
          ReAdd,       \* purged assemblies may be added again
          MaxCascade,  \* longest cascade list
          DbSet,       \* subset of BOOLEAN: is the initial state a reactor loaded from a database?
          MaxLoop,     \* longest in-core loop of a repeated shuffle
          MaxChain,    \* longest load chain of a repeated shuffle
          MaxLevel

Asm     == 1..(NA0 + NP0 + NF)
Initial == 1..NA0
Pooled0 == (NA0 + 1)..(NA0 + NP0)
Fresh0  == (NA0 + NP0 + 1)..(NA0 + NP0 + NF)
Loc     == 1..NL
BlockId(a, k) == (a - 1) * MB + k
Blk     == {BlockId(a, k) : a \in Asm, k \in 1..MB}
Owner0(b) == ((b - 1) \div MB) + 1
Pos0(b)   == ((b - 1) % MB) + 1
Blocks0(a) == [k \in 1..Len(Layout[a]) |-> BlockId(a, k)]
RealBlk == {b \in Blk : Pos0(b) <= Len(Layout[Owner0(b)])}
TypeOf(b) == Layout[Owner0(b)][Pos0(b)]

VARIABLES children, loc, byLoc, sfp, slot, fresh, purged, charged, num, nextNum, asmTab, blkTab, blocks, bname,
          content, moves, label, track, sflags, err, act
vars == <<children, loc, byLoc, sfp, slot, fresh, purged, charged, num, nextNum, asmTab, blkTab, blocks, bname,
          content, moves, label, track, sflags>>
allvars == <<vars, err, act>>

(* ---------- helpers ---------- *)
Rng(s) == {s[i] : i \in 1..Len(s)}
Without(s, x) == SelectSeq(s, LAMBDA y : y # x)
IdxOf(s, x) == CHOOSE i \in 1..Len(s) : s[i] = x
InCore == Rng(children)
Pool == Rng(sfp)
Live == InCore \cup Pool
OwnerIn(bl, b) == CHOOSE a \in Asm : b \in Rng(bl[a])
LiveBlk == UNION {Rng(blocks[a]) : a \in Live}
FirstFree(used) == CHOOSE s \in 1..(NA0 + NP0 + NF + 1) : s \notin used /\ \A t \in 1..(s - 1) : t \in used

\* stationary blocks (FuelHandler._transferStationaryBlocks): the axial indices that carry a block with a stationary flag
StatPosIn(bl, a) == {k \in 1..Len(bl[a]) : TypeOf(bl[a][k]) \in sflags}
CompatIn(bl, x, y) == StatPosIn(bl, x) = StatPosIn(bl, y)
ExchangeIn(bl, x, y) ==
    LET S == StatPosIn(bl, x) IN
    [bl EXCEPT ![x] = [k \in 1..Len(bl[x]) |-> IF k \in S THEN bl[y][k] ELSE bl[x][k]],
               ![y] = [k \in 1..Len(bl[y]) |-> IF k \in S THEN bl[x][k] ELSE bl[y][k]]]

\* a.lastLocationLabel:  0 "LoadQueue" (Assembly.__init__),  LabelDb "database" (set by Database.load on every
\* assembly it restores),  LabelSfp "SFP",  l > 0 the core location  (the last three written by locateAllAssemblies)
LabelDb == -1
LabelSfp == -2
\* Assembly.moveTo counts a move unless the assembly still carries the database label
Counted(mv, a) == IF label[a] = LabelDb THEN mv ELSE [mv EXCEPT ![a] = @ + 1]
\* one swapAssemblies on the part of the state it touches
Cur == [bl |-> blocks, lc |-> loc, tb |-> byLoc, mv |-> moves]
SwapIn(s, x, y) == [bl |-> ExchangeIn(s.bl, x, y),
                    lc |-> [s.lc EXCEPT ![x] = s.lc[y], ![y] = s.lc[x]],
                    tb |-> [s.tb EXCEPT ![s.lc[y]] = x, ![s.lc[x]] = y],
                    mv |-> Counted(Counted(s.mv, x), y)]
SetShuffle(s) == blocks' = s.bl /\ loc' = s.lc /\ byLoc' = s.tb /\ moves' = s.mv
\* 0 stands for a None entry (findAssembly found nothing): swapCascade skips a None level and goes on with the next
\* one ("continue"); a None in front makes every swapAssemblies(None, x) a logged no-op.
CascadeFold(l) ==
    FoldLeft(LAMBDA acc, j : IF ~acc.ok \/ l[j] = 0 \/ l[1] = 0 THEN acc
                             ELSE IF CompatIn(acc.s.bl, l[1], l[j])
                             THEN [ok |-> TRUE, s |-> SwapIn(acc.s, l[1], l[j])]
                             ELSE [ok |-> FALSE, s |-> acc.s],
             [ok |-> TRUE, s |-> Cur], [j \in 1..(Len(l) - 1) |-> j + 1])

\* lookup tables
AsmEntriesOf(T, a) == {e \in T : e[2] = a}
BlkEntriesOf(T, B) == {e \in T : e[3] \in B}
RegBlocks(bn, B) == {<<bn[b][1], bn[b][2], b>> : b \in B}
\* Core.add: a placeholder number is replaced by Reactor.incrementAssemNum(), blocks are renamed by position
NewNum(a) == IF num[a] < 0 THEN nextNum ELSE num[a]
NewNext(a) == IF num[a] < 0 THEN nextNum + 1 ELSE nextNum
NewBname(bl, a) == [b \in RealBlk |-> IF num[a] < 0 /\ b \in Rng(bl[a]) THEN <<nextNum, IdxOf(bl[a], b) - 1>> ELSE bname[b]]

\* depth guard of the bounded model-checking configurations (replaced there by  TLCGet("level") < MaxLevel)
Go == TRUE
Ok(a) == err' = "" /\ act' = a
Refuse(a) == UNCHANGED vars /\ err' = "refused" /\ act' = a
Outside == fresh \cup (IF ReAdd THEN purged ELSE {})

(* ---------- actions ---------- *)
Swap(x, y) ==
    /\ Go /\ x \in InCore /\ y \in InCore /\ x < y /\ CompatIn(blocks, x, y)   \* (y, x) is Cascade(<<y, x>>)
    /\ SetShuffle(SwapIn(Cur, x, y))
    /\ UNCHANGED <<children, sfp, slot, fresh, purged, charged, num, nextNum, asmTab, blkTab, bname, content, label, track, sflags>>
    /\ Ok([n |-> "Swap", x |-> x, y |-> y])

SwapMismatch(x, y) ==
    /\ Go /\ x \in InCore /\ y \in InCore /\ x < y /\ ~CompatIn(blocks, x, y)
    /\ Refuse([n |-> "SwapMismatch", x |-> x, y |-> y])

Cascade(l) ==
    /\ Go /\ Len(l) >= 2 /\ Rng(l) \subseteq InCore \cup {0}
    /\ \A p, q \in 1..Len(l) : (p # q /\ l[p] # 0) => l[p] # l[q]
    /\ LET r == CascadeFold(l) IN
       /\ SetShuffle(r.s)
       /\ err' = IF r.ok THEN "" ELSE "refused"
    /\ act' = [n |-> "Cascade", l |-> l]
    /\ UNCHANGED <<children, sfp, slot, fresh, purged, charged, num, nextNum, asmTab, blkTab, bname, content, label, track, sflags>>

Add(a, l, how) ==
    /\ Go /\ a \in Outside /\ l \in Loc /\ byLoc[l] = 0
    /\ children' = Append(children, a)
    /\ loc' = [loc EXCEPT ![a] = l] /\ byLoc' = [byLoc EXCEPT ![l] = a]
    /\ num' = [num EXCEPT ![a] = NewNum(a)] /\ nextNum' = NewNext(a)
    /\ LET nb == NewBname(blocks, a) IN
       /\ bname' = nb
       /\ blkTab' = (blkTab \ BlkEntriesOf(blkTab, Rng(blocks[a]))) \cup RegBlocks(nb, Rng(blocks[a]))
    /\ asmTab' = (asmTab \ AsmEntriesOf(asmTab, a)) \cup {<<NewNum(a), a>>}
    /\ moves' = Counted(moves, a)
    /\ fresh' = fresh \ {a} /\ purged' = purged \ {a}
    /\ charged' = IF a \in fresh THEN charged \cup {a} ELSE charged
    /\ UNCHANGED <<sfp, slot, blocks, content, label, track, sflags>>
    /\ Ok([n |-> "Add", a |-> a, l |-> l, how |-> how])

AddOccupied(a, l) ==
    /\ Go /\ a \in Outside /\ l \in Loc /\ byLoc[l] # 0
    /\ Refuse([n |-> "AddOccupied", a |-> a, l |-> l])

RemoveAsm(a, d) ==
    /\ Go /\ a \in InCore
    /\ children' = Without(children, a)
    /\ loc' = [loc EXCEPT ![a] = 0] /\ byLoc' = [byLoc EXCEPT ![loc[a]] = 0]
    /\ IF d /\ track
       THEN /\ sfp' = Append(sfp, a)
            /\ slot' = [slot EXCEPT ![a] = FirstFree({slot[x] : x \in Pool})]
            /\ blkTab' = blkTab \cup RegBlocks(bname, Rng(blocks[a]))          \* R1 (already registered here)
            /\ UNCHANGED <<purged, asmTab>>
       ELSE /\ purged' = purged \cup {a}
            /\ asmTab' = asmTab \ AsmEntriesOf(asmTab, a)
            /\ blkTab' = blkTab \ BlkEntriesOf(blkTab, Rng(blocks[a]))
            /\ UNCHANGED <<sfp, slot>>
    /\ UNCHANGED <<fresh, charged, num, nextNum, blocks, bname, content, moves, label, track, sflags>>
    /\ Ok([n |-> "Remove", a |-> a, d |-> d])

\* dischargeSwap(incoming i, outgoing o) on a core whose shuffled part (blocks, locations, location table, move
\* counts) is s -- s = Cur for a plain discharge swap, the state after the chain's swaps inside a repeated shuffle
DischargeEffect(s, i, o) ==
    /\ LET bl    == ExchangeIn(s.bl, i, o)
           l     == s.lc[o]
           pool1 == IF track THEN Append(sfp, o) ELSE sfp        \* removeAssembly(outgoing) comes first ...
           slot1 == IF track THEN [slot EXCEPT ![o] = FirstFree({slot[x] : x \in Pool})] ELSE slot
           aT1   == IF track THEN asmTab ELSE asmTab \ AsmEntriesOf(asmTab, o)
           bT1   == IF track THEN blkTab \cup RegBlocks(bname, Rng(bl[o]))       \* R1
                             ELSE blkTab \ BlkEntriesOf(blkTab, Rng(bl[o]))
           nb    == NewBname(bl, i)
       IN /\ blocks' = bl
          /\ children' = Append(Without(children, o), i)
          /\ loc' = [s.lc EXCEPT ![o] = 0, ![i] = l]
          /\ byLoc' = [s.tb EXCEPT ![l] = i]
          /\ sfp' = Without(pool1, i)                              \* ... then the incoming leaves the pool
          /\ slot' = [slot1 EXCEPT ![i] = 0]
          /\ purged' = (IF track THEN purged ELSE purged \cup {o}) \ {i}
          /\ bname' = nb
          /\ asmTab' = (aT1 \ AsmEntriesOf(aT1, i)) \cup {<<NewNum(i), i>>}
          /\ blkTab' = (bT1 \ BlkEntriesOf(bT1, Rng(bl[i]))) \cup RegBlocks(nb, Rng(bl[i]))     \* R2
    /\ num' = [num EXCEPT ![i] = NewNum(i)] /\ nextNum' = NewNext(i)
    /\ moves' = Counted(s.mv, i)
    /\ fresh' = fresh \ {i}
    /\ charged' = IF i \in fresh THEN charged \cup {i} ELSE charged
    /\ UNCHANGED <<content, label, track, sflags>>

DischargeSwap(i, o) ==
    /\ Go /\ o \in InCore /\ i \in Outside \cup Pool /\ CompatIn(blocks, i, o)
    /\ DischargeEffect(Cur, i, o)
    /\ Ok([n |-> "DischargeSwap", i |-> i, o |-> o])

DischargeMismatch(i, o) ==
    /\ Go /\ o \in InCore /\ i \in Outside \cup Pool /\ ~CompatIn(blocks, i, o)
    /\ Refuse([n |-> "DischargeMismatch", i |-> i, o |-> o])

\* Core.locateAllAssemblies(): every assembly in the core or the pool remembers where it is now
Locate ==
    /\ Go
    /\ label' = [a \in Asm |-> IF a \in InCore THEN loc[a] ELSE IF a \in Pool THEN LabelSfp ELSE label[a]]
    /\ UNCHANGED <<children, loc, byLoc, sfp, slot, fresh, purged, charged, num, nextNum, asmTab, blkTab, blocks, bname,
                   content, moves, track, sflags>>
    /\ Ok([n |-> "Locate"])

\* A look-up by location between moves (no locContents table passed): getLocationContents at assembly and block level,
\* getAssemblyWithStringLocation, getBlocksByIndices, asked for every location.  Pure: nothing changes; the answers
\* (Queries) are compared by the replay and the trace validation (ObsQ).
Ask ==
    /\ Go /\ UNCHANGED vars /\ Ok([n |-> "Ask"])

(* Repeated shuffle: FuelHandler.repeatShufflePattern(file) = readMoves ; processMoveList ; doRepeatShuffle.
   The recorded moves are (at most) one load chain  chain[1] -> SFP, chain[2] -> chain[1], ..., pooled assembly inc ->
   chain[k]  and any number of in-core loops  c[1] -> c[2] -> ... -> c[k] -> c[1]  (each loop's lines start with c[1]),
   over disjoint occupied locations.  doRepeatShuffle looks the assemblies up once (makeLocationLookup), then swaps:
     load chain [A1..Ak] (as located):  swap(A1, Ak), swap(Ak, Ak-1), ..., swap(A3, A2) ; dischargeSwap(inc, A1)
     loop: processMoveList/trackChain turn c into the list [c1, ck, ..., c2] = [B1..Bk]:  swap(B1,B2), swap(Bk,B1),
           swap(Bk-1,Bk), ...
   A stationary mismatch raises in the middle (what was done stays, as for Cascade). *)
LocAsm(l) == CHOOSE a \in InCore : loc[a] = l
SwapSteps(s0, pairs) ==
    FoldLeft(LAMBDA acc, p : IF ~acc.ok THEN acc
                             ELSE IF CompatIn(acc.s.bl, p[1], p[2]) THEN [ok |-> TRUE, s |-> SwapIn(acc.s, p[1], p[2])]
                             ELSE [ok |-> FALSE, s |-> acc.s],
             [ok |-> TRUE, s |-> s0], pairs)
LoadPairs(A) == LET k == Len(A) IN [m \in 1..(k - 1) |-> IF m = 1 THEN <<A[1], A[k]>> ELSE <<A[k - m + 2], A[k - m + 1]>>]
LoopList(c) == LET k == Len(c) IN [j \in 1..k |-> IF j = 1 THEN LocAsm(c[1]) ELSE LocAsm(c[k - j + 2])]
LoopPairs(B) == LET k == Len(B) IN
    [m \in 1..(k - 1) |-> IF m = 1 THEN <<B[1], B[2]>> ELSE <<B[k - m + 2], IF k - m + 3 > k THEN B[1] ELSE B[k - m + 3]>>]
Flatten(ss) == FoldLeft(LAMBDA acc, x : acc \o x, <<>>, ss)
RepeatLocs(load, loops) == Rng(load.chain) \cup UNION {Rng(loops[j]) : j \in 1..Len(loops)}
Repeat(load, loops) ==
    /\ Go
    /\ Len(load.chain) + Len(loops) >= 1
    /\ \A l \in RepeatLocs(load, loops) : l \in Loc /\ \E a \in InCore : loc[a] = l
    /\ Len(load.chain) + Len(Flatten(loops)) = Cardinality(RepeatLocs(load, loops))        \* disjoint, no repeats
    /\ \A j \in 1..Len(loops) : Len(loops[j]) >= 2
    /\ (load.chain # <<>> => load.inc \in Pool)
    /\ LET hasLoad == load.chain # <<>>
           A   == [j \in 1..Len(load.chain) |-> LocAsm(load.chain[j])]
           r1  == SwapSteps(Cur, LoadPairs(A))
           okD == r1.ok /\ (hasLoad => CompatIn(r1.s.bl, load.inc, A[1]))
           r2  == IF okD THEN SwapSteps(r1.s, Flatten([j \in 1..Len(loops) |-> LoopPairs(LoopList(loops[j]))]))
                  ELSE [ok |-> FALSE, s |-> r1.s]
       IN /\ IF hasLoad /\ okD
             THEN DischargeEffect(r2.s, load.inc, A[1])
             ELSE /\ SetShuffle(r2.s)
                  /\ UNCHANGED <<children, sfp, slot, fresh, purged, charged, num, nextNum, asmTab, blkTab, bname, content,
                                 label, track, sflags>>
          /\ err' = IF r2.ok THEN "" ELSE "refused"
    /\ act' = [n |-> "Repeat", load |-> load, loops |-> loops]

InjSeqs(S, lo, hi) == UNION {{s \in [1..k -> S] : \A p, q \in 1..k : p # q => s[p] # s[q]} : k \in lo..hi}
\* cascade lists explored: all lists of distinct assemblies, and the longest ones with one level replaced by None
CascadeLists(S) == InjSeqs(S, 2, MaxCascade) \cup
    {[s EXCEPT ![z] = 0] : s \in InjSeqs(S, MaxCascade, MaxCascade), z \in 1..MaxCascade}

InitWith(t, f, d) ==
    /\ track = t /\ sflags = f
    /\ label = [a \in Asm |-> IF d /\ a \in Initial \cup Pooled0 THEN LabelDb ELSE 0]
    /\ children = [i \in 1..NA0 |-> i]
    /\ loc = [a \in Asm |-> IF a \in Initial THEN Place[a] ELSE 0]
    /\ byLoc = [l \in Loc |-> IF \E a \in Initial : Place[a] = l THEN CHOOSE a \in Initial : Place[a] = l ELSE 0]
    /\ sfp = [i \in 1..NP0 |-> NA0 + i]                       \* loaded in order, filling the pool cells in order
    /\ slot = [a \in Asm |-> IF a \in Pooled0 THEN a - NA0 ELSE 0]
    /\ fresh = Fresh0 /\ purged = {} /\ charged = {}
    /\ num = [a \in Asm |-> IF a \in Initial \cup Pooled0 THEN a - 1 ELSE -a]
    /\ nextNum = NA0 + NP0
    /\ blocks = [a \in Asm |-> Blocks0(a)]
    /\ bname = [b \in RealBlk |-> <<IF Owner0(b) \in Initial \cup Pooled0 THEN Owner0(b) - 1 ELSE -Owner0(b), Pos0(b) - 1>>]
    /\ asmTab = {<<a - 1, a>> : a \in Initial \cup Pooled0}
    /\ blkTab = {<<Owner0(b) - 1, Pos0(b) - 1, b>> : b \in {c \in RealBlk : Owner0(c) \in Initial \cup Pooled0}}
    /\ content = [b \in RealBlk |-> b]
    /\ moves = [a \in Asm |-> 0]
    /\ err = "" /\ act = [n |-> "Init"]
Init == \E t \in TrackSet, f \in SFlagSets, d \in DbSet : InitWith(t, f, d)

\* repeated shuffles explored: one loop (every start and direction), one load chain, or a 2-loop next to a 1-chain
OccLocs == {loc[a] : a \in InCore}
LoopsOver(S) == {c \in InjSeqs(S, 2, MaxLoop) : Len(c) = 2 => c[1] < c[2]}
NoLoad == [chain |-> <<>>, inc |-> 0]
LoadsOver(S) == {[chain |-> ch, inc |-> i] : ch \in InjSeqs(S, 1, MaxChain), i \in Pool}
Combos == {<<ld, <<c>>>> : ld \in {x \in LoadsOver(OccLocs) : Len(x.chain) = 1},
                             c \in {y \in LoopsOver(OccLocs) : Len(y) = 2}}
RepeatArgs ==
    {<<NoLoad, <<c>>>> : c \in LoopsOver(OccLocs)} \cup {<<ld, <<>>>> : ld \in LoadsOver(OccLocs)} \cup
    {r \in Combos : Rng(r[1].chain) \cap Rng(r[2][1]) = {}}

Next ==
    \/ \E x, y \in Asm : Swap(x, y)
    \/ \E x, y \in Asm : SwapMismatch(x, y)
    \/ \E l \in CascadeLists(InCore) : Cascade(l)
    \/ \E a \in Asm, l \in Loc, how \in {"arg", "own"} : Add(a, l, how)
    \/ \E a \in Asm, l \in Loc : AddOccupied(a, l)
    \/ \E a \in Asm, d \in BOOLEAN : RemoveAsm(a, d)
    \/ \E i, o \in Asm : DischargeSwap(i, o)
    \/ \E i, o \in Asm : DischargeMismatch(i, o)
    \/ Ask
    \/ ((\E a \in Live : label[a] = LabelDb) /\ Locate)      \* explored where it matters: clearing database labels
    \/ \E r \in RepeatArgs : Repeat(r[1], r[2])

Spec == Init /\ [][Next]_allvars

(* ====================================== the property, clause by clause ====================================== *)
NoDup(s) == Len(s) = Cardinality(Rng(s))
TypeOK ==
    /\ Rng(children) \subseteq Asm /\ Rng(sfp) \subseteq Asm /\ fresh \subseteq Fresh0 /\ purged \subseteq Asm
    /\ \A a \in Asm : loc[a] \in 0..NL /\ Rng(blocks[a]) \subseteq RealBlk
    /\ \A l \in Loc : byLoc[l] \in 0..(NA0 + NP0 + NF)
    /\ \A a \in Asm : label[a] \in {LabelDb, LabelSfp} \cup (0..NL)

\* "the assemblies in the core plus those sent to the pool are exactly the ones that were there or were charged,
\*  none duplicated or lost"  (purged = deliberately deleted: untracked discharge or discharge=False)
InventoryNoDuplicates ==
    /\ NoDup(children) /\ NoDup(sfp)
    /\ InCore \cap Pool = {} /\ InCore \cap purged = {} /\ Pool \cap purged = {}
    /\ fresh \cap (InCore \cup Pool \cup purged) = {}
InventoryExact ==
    /\ InCore \cup Pool \cup purged = Initial \cup Pooled0 \cup charged
    /\ charged = Fresh0 \ fresh
\* with tracking on, whatever left the core through a discharge is in the pool (nothing is lost)
PoolKeepsTrackedDischarges == ~track => Pool \subseteq Pooled0      \* untracked: nothing new enters the pool

\* "each core location holds at most one assembly"
OnePerLocation ==
    /\ \A a \in InCore : loc[a] \in Loc
    /\ \A a, b \in InCore : a # b => loc[a] # loc[b]
    /\ \A a \in Asm \ InCore : loc[a] = 0
\* "the core's lookup by location lists exactly the assemblies present"
ByLocTruthful == \A l \in Loc : (byLoc[l] # 0 => byLoc[l] \in InCore /\ loc[byLoc[l]] = l)
                              /\ (\A a \in InCore : loc[a] = l => byLoc[l] = a)

\* "lookups by assembly and block name find every assembly and block in the core or the pool under its current name"
AsmLookup(n) == LET hits == {e \in asmTab : e[1] = n} IN
                IF hits = {} THEN 0 ELSE IF Cardinality(hits) = 1 THEN (CHOOSE e \in hits : TRUE)[2] ELSE -1
BlkLookup(nm) == LET hits == {e \in blkTab : e[1] = nm[1] /\ e[2] = nm[2]} IN
                 IF hits = {} THEN 0 ELSE IF Cardinality(hits) = 1 THEN (CHOOSE e \in hits : TRUE)[3] ELSE -1
AsmLookupFindsLive == \A a \in Live : AsmLookup(num[a]) = a
BlkLookupFindsLive == \A b \in LiveBlk : BlkLookup(bname[b]) = b
\* "... and never return one that was purged"  (nor one that never entered the core)
AsmDeadKeys == {e[1] : e \in {e \in asmTab : e[2] \notin Live}}
BlkDeadKeys == {<<e[1], e[2]>> : e \in {e \in blkTab : e[3] \notin LiveBlk}}
LookupsNeverReturnPurged == AsmDeadKeys = {} /\ BlkDeadKeys = {}
NamesAreCurrent == /\ \A a \in Live : num[a] >= 0
                   /\ \A a, b \in Asm : a # b => num[a] # num[b]

\* "moves never alter an assembly's contents: block order, heights, dimensions and number densities are unchanged,
\*  except that blocks designated stationary keep their core position and exchange assemblies"
ContentsUnchanged == content = [b \in RealBlk |-> b]
BlocksPartition == /\ \A b \in RealBlk : Cardinality({a \in Asm : b \in Rng(blocks[a])}) = 1
                   /\ \A a \in Asm : NoDup(blocks[a])
BlockOrderKept == \A a \in Asm :
    /\ Len(blocks[a]) = Len(Layout[a])
    /\ \A k \in 1..Len(blocks[a]) : LET b == blocks[a][k] IN
          /\ Pos0(b) = k                                   \* every block keeps its axial position
          /\ (Owner0(b) # a => TypeOf(b) \in sflags)       \* only stationary blocks ever change assembly
NoFlagsNoExchange == sflags = {} => blocks = [a \in Asm |-> Blocks0(a)]

(* action properties *)
Success(n) == act'.n = n /\ err' = ""
\* "each assembly sits where the operation put it"
PlacedWhereAsked == [][
    /\ (Success("Swap") => /\ loc'[act'.x] = loc[act'.y] /\ loc'[act'.y] = loc[act'.x]
                           /\ \A a \in Asm \ {act'.x, act'.y} : loc'[a] = loc[a])
    /\ (Success("Cascade") => LET l == IF act'.l[1] = 0 THEN <<>> ELSE SelectSeq(act'.l, LAMBDA x : x # 0)
                                  m == Len(l) IN                  \* documented rotation: everyone takes the place
                           /\ (m >= 1 => loc'[l[1]] = loc[l[m]])    \* of its predecessor, the first one goes last
                           /\ \A j \in 2..m : loc'[l[j]] = loc[l[j - 1]]
                           /\ \A a \in Asm \ Rng(l) : loc'[a] = loc[a])
    /\ (Success("DischargeSwap") => /\ loc'[act'.i] = loc[act'.o] /\ loc'[act'.o] = 0
                                    /\ \A a \in Asm \ {act'.i, act'.o} : loc'[a] = loc[a])
    /\ (Success("Add") => loc'[act'.a] = act'.l /\ \A a \in Asm \ {act'.a} : loc'[a] = loc[a])
    /\ (Success("Remove") => loc'[act'.a] = 0 /\ \A a \in Asm \ {act'.a} : loc'[a] = loc[a])
    \* a repeated shuffle puts every assembly where the recorded move says it goes
    /\ (Success("Repeat") => LET ld == act'.load  ch == ld.chain  k == Len(ch)  lps == act'.loops IN
            /\ \A j \in 1..Len(lps) : \A p \in 1..Len(lps[j]) :
                   loc'[LocAsm(lps[j][p])] = lps[j][IF p = Len(lps[j]) THEN 1 ELSE p + 1]
            /\ (k >= 1 => /\ loc'[LocAsm(ch[1])] = 0 /\ loc'[ld.inc] = ch[k]
                           /\ \A p \in 2..k : loc'[LocAsm(ch[p])] = ch[p - 1])
            /\ \A a \in InCore : loc[a] \notin RepeatLocs(ld, lps) => loc'[a] = loc[a])
    ]_allvars
\* stationary blocks keep their core position through every shuffle
StationaryStay == [][act'.n \in {"Swap", "Cascade", "DischargeSwap", "Repeat"} =>
    \A a \in InCore : \A k \in StatPosIn(blocks, a) :
        \E a2 \in Rng(children') : loc'[a2] = loc[a] /\ k <= Len(blocks'[a2]) /\ blocks'[a2][k] = blocks[a][k]]_allvars
\* R3: refusals change nothing (an aborted cascade is the documented exception, see header)
RefusalsChangeNothing == [][(err' = "refused" /\ act'.n \notin {"Cascade", "Repeat"}) => UNCHANGED vars]_allvars
QueriesChangeNothing == [][act'.n = "Ask" => UNCHANGED vars]_allvars
\* discharge with tracking goes to the pool, everything else that leaves the core is purged
DischargeDestination == [][\A a \in Asm : (a \in InCore /\ a \notin Rng(children')) =>
    IF track /\ (act'.n \in {"DischargeSwap", "Repeat"} \/ (act'.n = "Remove" /\ act'.d)) THEN a \in Rng(sfp') ELSE a \in purged']_allvars
\* an assembly that changed place was counted as moved
\* ... unless it still carries the database label (Assembly.moveTo); and only a move is ever counted
MovesCounted == [][\A a \in Asm : /\ (a \in Rng(children') /\ loc'[a] # loc[a] /\ label[a] # LabelDb) => moves'[a] > moves[a]
                                  /\ (label[a] = LabelDb /\ label'[a] = LabelDb) => moves'[a] = moves[a]]_allvars
\* labels are written by locateAllAssemblies only
LabelsKept == [][act'.n # "Locate" => label' = label]_allvars

(* ---------- observation: what the adapter projects from the real objects ---------- *)
SortedInts(S) == SetToSortSeq(S, LAMBDA p, q : p < q)
PairLess(p, q) == p[1] < q[1] \/ (p[1] = q[1] /\ p[2] < q[2])
SortedPairs(S) == SetToSortSeq(S, PairLess)
BlkSeq == SortedInts(RealBlk)
OverBlk(f(_)) == [i \in 1..Len(BlkSeq) |-> f(BlkSeq[i])]
Where(a) == IF a \in InCore THEN "core" ELSE IF a \in Pool THEN "sfp" ELSE "out"
Obs == [
    children |-> children,
    where    |-> [a \in Asm |-> Where(a)],
    loc      |-> loc,
    byLoc    |-> byLoc,
    byLocSize |-> Cardinality({l \in Loc : byLoc[l] # 0}),
    sfp      |-> sfp,
    slot     |-> slot,
    num      |-> num,
    nextNum  |-> nextNum,
    asmFound |-> [a \in Asm |-> IF a \in Live THEN AsmLookup(num[a]) ELSE 0],
    asmDead  |-> SortedInts(AsmDeadKeys),
    blkFound |-> OverBlk(LAMBDA b : IF b \in LiveBlk THEN BlkLookup(bname[b]) ELSE 0),
    blkDead  |-> SortedPairs(BlkDeadKeys),
    blocks   |-> blocks,
    bowner   |-> OverBlk(LAMBDA b : OwnerIn(blocks, b)),
    bk       |-> OverBlk(LAMBDA b : IdxOf(blocks[OwnerIn(blocks, b)], b) - 1),
    bname    |-> OverBlk(LAMBDA b : bname[b]),
    content  |-> OverBlk(LAMBDA b : content[b]),
    moves    |-> moves,
    label    |-> label,
    err      |-> err ]
\* what the look-ups by location answer, for every location l and axial index k (0 = nothing there)
Queries == [
    asm |-> [l \in Loc |-> IF \E a \in InCore : loc[a] = l THEN LocAsm(l) ELSE 0],       \* getLocationContents(assemblyLevel)
    str |-> byLoc,                                                                     \* getAssemblyWithStringLocation
    blk |-> [l \in Loc |-> [k \in 1..MB |-> IF (\E a \in InCore : loc[a] = l) /\ k <= Len(blocks[LocAsm(l)])
                                            THEN blocks[LocAsm(l)][k] ELSE 0]],        \* getLocationContents (blocks)
    idx |-> [l \in Loc |-> [k \in 1..MB |-> IF byLoc[l] # 0 /\ k <= Len(blocks[byLoc[l]])
                                            THEN blocks[byLoc[l]][k] ELSE 0]] ]        \* getBlocksByIndices
NoAnswer == [asm |-> <<>>, str |-> <<>>, blk |-> <<>>, idx |-> <<>>]
ObsQ(a) == [q |-> IF a.n = "Ask" THEN Queries ELSE NoAnswer] @@ Obs
\* the two tables the look-ups are answered from agree
LookupsAgree == Queries.asm = Queries.str /\ Queries.blk = Queries.idx
Vars == [children |-> children, loc |-> loc, byLoc |-> byLoc, sfp |-> sfp, slot |-> slot, fresh |-> SortedInts(fresh),
         purged |-> SortedInts(purged), num |-> num, nextNum |-> nextNum, blocks |-> blocks, moves |-> moves, label |-> label,
         bname |-> OverBlk(LAMBDA b : bname[b]), track |-> track,
         sflags |-> [x \in {"F", "G", "P", "S"} |-> x \in sflags]]
Config == [NL |-> NL, NA0 |-> NA0, NP0 |-> NP0, NF |-> NF, MB |-> MB, layout |-> Layout, place |-> Place, blk |-> BlkSeq]
========================================================================================================
