------------------------------------------ MODULE FuelShuffle ------------------------------------------
(* C14 -- fuel shuffling conserves the inventory and keeps the core's lookups truthful.

   REFERENCE DESIGN of the fuel-management primitives of armi, one action per public operation:

     Swap(x, y)            FuelHandler.swapAssemblies(a1, a2)               fuelHandlers.py
                             = _transferStationaryBlocks ; a1.moveTo(a2.loc) ; a2.moveTo(old a1.loc)
     SwapMismatch(x, y)    the ValueError raised by _transferStationaryBlocks when the two assemblies do not
                           carry stationary blocks at the same axial indices (raised before anything changed)
     Cascade(l)            FuelHandler.swapCascade(l) = swapAssemblies(l[0], l[1]); swapAssemblies(l[0], l[2]); ...
                           An entry may be None (written 0): that level is skipped and the cascade goes on with the
                           next level; a None in front turns every swap into a logged no-op.
                           A stationary mismatch in the middle aborts the cascade: the swaps already made stay
                           (this is what the code does, and it does not contradict the property), err = "refused".
     DischargeSwap(i, o)   FuelHandler.dischargeSwap(incoming, outgoing)
                             = _transferStationaryBlocks ; Core.removeAssembly(outgoing) [-> pool iff tracked] ;
                               sfp.remove(incoming) if it sits there ; Core.add(incoming, outgoing's location)
     DischargeMismatch     the same ValueError, nothing changed
     Add(a, l, how)        Core.add(a, locator) ("arg") / a.spatialLocator = locator; Core.add(a) ("own", the way
                           blueprints load a core); a fresh or (ReAdd) a previously purged assembly
     AddOccupied(a, l)     Core.add to a filled location is refused (ValueError "already filled") -- nothing changes
     Remove(a, d)          Core.removeAssembly(a, discharge=d): to the SpentFuelPool iff d and trackAssems,
                           otherwise purged (Core._removeListFromAuxiliaries)

   Abstract state (what the code keeps, in the code's own redundancy)
     children     Core._children (ordered)                loc[a]    a.spatialLocator as location index, 0 = not in core
     byLoc[l]     Core.childrenByLocator                   sfp       SpentFuelPool._children (ordered; NP0 assemblies
                                                                     are pre-loaded, with tracking on and off)
     slot[a]      pool cell, filled col/row-wise by SpentFuelPool._getNextLocation (first free cell)
     fresh        assemblies made but never charged (negative placeholder number, Assembly.__init__)
     purged       assemblies taken out without being kept;  charged = fresh assemblies that entered the core
     num[a]       a.p.assemNum (placeholder -a until Core.add renumbers with Reactor.incrementAssemNum)
     nextNum      Reactor.p.maxAssemNum
     asmTab       Core.assembliesByName as a set of <<number, assembly>>
     blkTab       Core.blocksByName as a set of <<number, axial index, block>>  (block name = Bnnnn-iii)
     blocks[a]    the assembly's block list, bottom to top;  bname[b] = <<number, axial index>> in b's name
     content[b]   opaque token for height, dimensions and number densities of block b
     moves[a]     a.p.numMoves (Assembly.moveTo)
     track        the trackAssems setting;  sflags = the stationaryBlockFlags setting (set of block type letters)

   Interpretation choices (each is where the reference states what the PROPERTY requires; the replay reports the
   code wherever it differs):
     R1  "lookups by block name find every block in the core or the pool": when an assembly goes to the pool its
         current blocks are registered -- including a stationary block it has just received from a fresh incoming
         assembly in the same DischargeSwap.
     R2  "under its current name / never return one that was purged": when Core.add renumbers a placeholder
         assembly, the registrations of its blocks follow the rename (no entry under the old name survives).
         Stale aliases that still return a block which is in the core or the pool are NOT observable in Obs
         (blkFound / blkDead below), so they cannot raise a false alarm.
     R3  a refused operation (AddOccupied, SwapMismatch, DischargeMismatch) leaves every variable unchanged.
     R4  purged assemblies are gone for the lookups; with ReAdd they may be added again (Core.add of an object taken
         out with discharge=False is how armi's converters re-insert assemblies).
     R5  Add without any locator ("generic location at the centre", Core.add docstring) and a bare moveTo to an empty
         cell are outside the operation alphabet of the statement.

   Where armi (pinned tree) leaves this reference -- each reproduced against the real code, see props/c14.py:
     D1 (R3)  Core.add to a filled location appends the child (and renumbers a fresh one) before the check raises;
              the error message lookup itself raises KeyError: extra child, absent from all three lookup tables.
     D2 (R1)  tracked DischargeSwap of a fresh assembly with stationary blocks: the fresh assembly's stationary
              block travels to the pool inside the outgoing assembly and is in no lookup table.
     D3 (R2)  Core.add renumbers the incoming assembly after the stationary exchange, renaming the block it has
              just received; the old name stays in blocksByName and, once that assembly is purged, returns a
              purged block.
*)
EXTENDS Integers, Sequences, FiniteSets, TLC, Json, SequencesExt, FiniteSetsExt

CONSTANTS NL,          \* core locations 1..NL
          NA0,         \* assemblies 1..NA0 are in the core initially
          NP0,         \* assemblies NA0+1..NA0+NP0 sit in the spent-fuel pool initially (a pre-loaded pool is an
                       \* input of the case, whatever the trackAssems setting)
          NF,          \* the next NF assemblies are fresh
          MB,          \* maximum number of blocks per assembly
          Layout,      \* [Asm -> Seq(letters)], bottom to top
          Place,       \* [1..NA0 -> Loc], injective
          SFlagSets,   \* the stationary-flag settings explored (sets of letters)
          TrackSet,    \* subset of BOOLEAN
          ReAdd,       \* purged assemblies may be added again
          MaxCascade,  \* longest cascade list
          MaxLevel

Asm     == 1..(NA0 + NP0 + NF)
Initial == 1..NA0
Pooled0 == (NA0 + 1)..(NA0 + NP0)
Fresh0  == (NA0 + NP0 + 1)..(NA0 + NP0 + NF)
Loc     == 1..NL
BlockId(a, k) == (a - 1) * MB + k
Blk     == {BlockId(a, k) : a \in Asm, k \in 1..MB}
Owner0(b) == ((b - 1) \div MB) + 1
Pos0(b)   == ((b - 1) % MB) + 1
Blocks0(a) == [k \in 1..Len(Layout[a]) |-> BlockId(a, k)]
RealBlk == {b \in Blk : Pos0(b) <= Len(Layout[Owner0(b)])}
TypeOf(b) == Layout[Owner0(b)][Pos0(b)]

VARIABLES children, loc, byLoc, sfp, slot, fresh, purged, charged, num, nextNum, asmTab, blkTab, blocks, bname,
          content, moves, track, sflags, err, act
vars == <<children, loc, byLoc, sfp, slot, fresh, purged, charged, num, nextNum, asmTab, blkTab, blocks, bname,
          content, moves, track, sflags>>
allvars == <<vars, err, act>>

(* ---------- helpers ---------- *)
Rng(s) == {s[i] : i \in 1..Len(s)}
Without(s, x) == SelectSeq(s, LAMBDA y : y # x)
IdxOf(s, x) == CHOOSE i \in 1..Len(s) : s[i] = x
InCore == Rng(children)
Pool == Rng(sfp)
Live == InCore \cup Pool
OwnerIn(bl, b) == CHOOSE a \in Asm : b \in Rng(bl[a])
LiveBlk == UNION {Rng(blocks[a]) : a \in Live}
FirstFree(used) == CHOOSE s \in 1..(NA0 + NP0 + NF + 1) : s \notin used /\ \A t \in 1..(s - 1) : t \in used

\* stationary blocks (FuelHandler._transferStationaryBlocks): the axial indices that carry a block with a stationary flag
StatPosIn(bl, a) == {k \in 1..Len(bl[a]) : TypeOf(bl[a][k]) \in sflags}
CompatIn(bl, x, y) == StatPosIn(bl, x) = StatPosIn(bl, y)
ExchangeIn(bl, x, y) ==
    LET S == StatPosIn(bl, x) IN
    [bl EXCEPT ![x] = [k \in 1..Len(bl[x]) |-> IF k \in S THEN bl[y][k] ELSE bl[x][k]],
               ![y] = [k \in 1..Len(bl[y]) |-> IF k \in S THEN bl[x][k] ELSE bl[y][k]]]

\* one swapAssemblies on the part of the state it touches
Cur == [bl |-> blocks, lc |-> loc, tb |-> byLoc, mv |-> moves]
SwapIn(s, x, y) == [bl |-> ExchangeIn(s.bl, x, y),
                    lc |-> [s.lc EXCEPT ![x] = s.lc[y], ![y] = s.lc[x]],
                    tb |-> [s.tb EXCEPT ![s.lc[y]] = x, ![s.lc[x]] = y],
                    mv |-> [s.mv EXCEPT ![x] = @ + 1, ![y] = @ + 1]]
SetShuffle(s) == blocks' = s.bl /\ loc' = s.lc /\ byLoc' = s.tb /\ moves' = s.mv
\* 0 stands for a None entry (findAssembly found nothing): swapCascade skips a None level and goes on with the next
\* one ("continue"); a None in front makes every swapAssemblies(None, x) a logged no-op.
CascadeFold(l) ==
    FoldLeft(LAMBDA acc, j : IF ~acc.ok \/ l[j] = 0 \/ l[1] = 0 THEN acc
                             ELSE IF CompatIn(acc.s.bl, l[1], l[j])
                             THEN [ok |-> TRUE, s |-> SwapIn(acc.s, l[1], l[j])]
                             ELSE [ok |-> FALSE, s |-> acc.s],
             [ok |-> TRUE, s |-> Cur], [j \in 1..(Len(l) - 1) |-> j + 1])

\* lookup tables
AsmEntriesOf(T, a) == {e \in T : e[2] = a}
BlkEntriesOf(T, B) == {e \in T : e[3] \in B}
RegBlocks(bn, B) == {<<bn[b][1], bn[b][2], b>> : b \in B}
\* Core.add: a placeholder number is replaced by Reactor.incrementAssemNum(), blocks are renamed by position
NewNum(a) == IF num[a] < 0 THEN nextNum ELSE num[a]
NewNext(a) == IF num[a] < 0 THEN nextNum + 1 ELSE nextNum
NewBname(bl, a) == [b \in RealBlk |-> IF num[a] < 0 /\ b \in Rng(bl[a]) THEN <<nextNum, IdxOf(bl[a], b) - 1>> ELSE bname[b]]

\* depth guard of the bounded model-checking configurations (replaced there by  TLCGet("level") < MaxLevel)
Go == TRUE
Ok(a) == err' = "" /\ act' = a
Refuse(a) == UNCHANGED vars /\ err' = "refused" /\ act' = a
Outside == fresh \cup (IF ReAdd THEN purged ELSE {})

(* ---------- actions ---------- *)
Swap(x, y) ==
    /\ Go /\ x \in InCore /\ y \in InCore /\ x < y /\ CompatIn(blocks, x, y)   \* (y, x) is Cascade(<<y, x>>)
    /\ SetShuffle(SwapIn(Cur, x, y))
    /\ UNCHANGED <<children, sfp, slot, fresh, purged, charged, num, nextNum, asmTab, blkTab, bname, content, track, sflags>>
    /\ Ok([n |-> "Swap", x |-> x, y |-> y])

SwapMismatch(x, y) ==
    /\ Go /\ x \in InCore /\ y \in InCore /\ x < y /\ ~CompatIn(blocks, x, y)
    /\ Refuse([n |-> "SwapMismatch", x |-> x, y |-> y])

Cascade(l) ==
    /\ Go /\ Len(l) >= 2 /\ Rng(l) \subseteq InCore \cup {0}
    /\ \A p, q \in 1..Len(l) : (p # q /\ l[p] # 0) => l[p] # l[q]
    /\ LET r == CascadeFold(l) IN
       /\ SetShuffle(r.s)
       /\ err' = IF r.ok THEN "" ELSE "refused"
    /\ act' = [n |-> "Cascade", l |-> l]
    /\ UNCHANGED <<children, sfp, slot, fresh, purged, charged, num, nextNum, asmTab, blkTab, bname, content, track, sflags>>

Add(a, l, how) ==
    /\ Go /\ a \in Outside /\ l \in Loc /\ byLoc[l] = 0
    /\ children' = Append(children, a)
    /\ loc' = [loc EXCEPT ![a] = l] /\ byLoc' = [byLoc EXCEPT ![l] = a]
    /\ num' = [num EXCEPT ![a] = NewNum(a)] /\ nextNum' = NewNext(a)
    /\ LET nb == NewBname(blocks, a) IN
       /\ bname' = nb
       /\ blkTab' = (blkTab \ BlkEntriesOf(blkTab, Rng(blocks[a]))) \cup RegBlocks(nb, Rng(blocks[a]))
    /\ asmTab' = (asmTab \ AsmEntriesOf(asmTab, a)) \cup {<<NewNum(a), a>>}
    /\ moves' = [moves EXCEPT ![a] = @ + 1]
    /\ fresh' = fresh \ {a} /\ purged' = purged \ {a}
    /\ charged' = IF a \in fresh THEN charged \cup {a} ELSE charged
    /\ UNCHANGED <<sfp, slot, blocks, content, track, sflags>>
    /\ Ok([n |-> "Add", a |-> a, l |-> l, how |-> how])

AddOccupied(a, l) ==
    /\ Go /\ a \in Outside /\ l \in Loc /\ byLoc[l] # 0
    /\ Refuse([n |-> "AddOccupied", a |-> a, l |-> l])

RemoveAsm(a, d) ==
    /\ Go /\ a \in InCore
    /\ children' = Without(children, a)
    /\ loc' = [loc EXCEPT ![a] = 0] /\ byLoc' = [byLoc EXCEPT ![loc[a]] = 0]
    /\ IF d /\ track
       THEN /\ sfp' = Append(sfp, a)
            /\ slot' = [slot EXCEPT ![a] = FirstFree({slot[x] : x \in Pool})]
            /\ blkTab' = blkTab \cup RegBlocks(bname, Rng(blocks[a]))          \* R1 (already registered here)
            /\ UNCHANGED <<purged, asmTab>>
       ELSE /\ purged' = purged \cup {a}
            /\ asmTab' = asmTab \ AsmEntriesOf(asmTab, a)
            /\ blkTab' = blkTab \ BlkEntriesOf(blkTab, Rng(blocks[a]))
            /\ UNCHANGED <<sfp, slot>>
    /\ UNCHANGED <<fresh, charged, num, nextNum, blocks, bname, content, moves, track, sflags>>
    /\ Ok([n |-> "Remove", a |-> a, d |-> d])

DischargeSwap(i, o) ==
    /\ Go /\ o \in InCore /\ i \in Outside \cup Pool /\ CompatIn(blocks, i, o)
    /\ LET bl    == ExchangeIn(blocks, i, o)
           l     == loc[o]
           pool1 == IF track THEN Append(sfp, o) ELSE sfp        \* removeAssembly(outgoing) comes first ...
           slot1 == IF track THEN [slot EXCEPT ![o] = FirstFree({slot[x] : x \in Pool})] ELSE slot
           aT1   == IF track THEN asmTab ELSE asmTab \ AsmEntriesOf(asmTab, o)
           bT1   == IF track THEN blkTab \cup RegBlocks(bname, Rng(bl[o]))       \* R1
                             ELSE blkTab \ BlkEntriesOf(blkTab, Rng(bl[o]))
           nb    == NewBname(bl, i)
       IN /\ blocks' = bl
          /\ children' = Append(Without(children, o), i)
          /\ loc' = [loc EXCEPT ![o] = 0, ![i] = l]
          /\ byLoc' = [byLoc EXCEPT ![l] = i]
          /\ sfp' = Without(pool1, i)                              \* ... then the incoming leaves the pool
          /\ slot' = [slot1 EXCEPT ![i] = 0]
          /\ purged' = (IF track THEN purged ELSE purged \cup {o}) \ {i}
          /\ bname' = nb
          /\ asmTab' = (aT1 \ AsmEntriesOf(aT1, i)) \cup {<<NewNum(i), i>>}
          /\ blkTab' = (bT1 \ BlkEntriesOf(bT1, Rng(bl[i]))) \cup RegBlocks(nb, Rng(bl[i]))     \* R2
    /\ num' = [num EXCEPT ![i] = NewNum(i)] /\ nextNum' = NewNext(i)
    /\ moves' = [moves EXCEPT ![i] = @ + 1]
    /\ fresh' = fresh \ {i}
    /\ charged' = IF i \in fresh THEN charged \cup {i} ELSE charged
    /\ UNCHANGED <<content, track, sflags>>
    /\ Ok([n |-> "DischargeSwap", i |-> i, o |-> o])

DischargeMismatch(i, o) ==
    /\ Go /\ o \in InCore /\ i \in Outside \cup Pool /\ ~CompatIn(blocks, i, o)
    /\ Refuse([n |-> "DischargeMismatch", i |-> i, o |-> o])

InjSeqs(S, lo, hi) == UNION {{s \in [1..k -> S] : \A p, q \in 1..k : p # q => s[p] # s[q]} : k \in lo..hi}
\* cascade lists explored: all lists of distinct assemblies, and the longest ones with one level replaced by None
CascadeLists(S) == InjSeqs(S, 2, MaxCascade) \cup
    {[s EXCEPT ![z] = 0] : s \in InjSeqs(S, MaxCascade, MaxCascade), z \in 1..MaxCascade}

InitWith(t, f) ==
    /\ track = t /\ sflags = f
    /\ children = [i \in 1..NA0 |-> i]
    /\ loc = [a \in Asm |-> IF a \in Initial THEN Place[a] ELSE 0]
    /\ byLoc = [l \in Loc |-> IF \E a \in Initial : Place[a] = l THEN CHOOSE a \in Initial : Place[a] = l ELSE 0]
    /\ sfp = [i \in 1..NP0 |-> NA0 + i]                       \* loaded in order, filling the pool cells in order
    /\ slot = [a \in Asm |-> IF a \in Pooled0 THEN a - NA0 ELSE 0]
    /\ fresh = Fresh0 /\ purged = {} /\ charged = {}
    /\ num = [a \in Asm |-> IF a \in Initial \cup Pooled0 THEN a - 1 ELSE -a]
    /\ nextNum = NA0 + NP0
    /\ blocks = [a \in Asm |-> Blocks0(a)]
    /\ bname = [b \in RealBlk |-> <<IF Owner0(b) \in Initial \cup Pooled0 THEN Owner0(b) - 1 ELSE -Owner0(b), Pos0(b) - 1>>]
    /\ asmTab = {<<a - 1, a>> : a \in Initial \cup Pooled0}
    /\ blkTab = {<<Owner0(b) - 1, Pos0(b) - 1, b>> : b \in {c \in RealBlk : Owner0(c) \in Initial \cup Pooled0}}
    /\ content = [b \in RealBlk |-> b]
    /\ moves = [a \in Asm |-> 0]
    /\ err = "" /\ act = [n |-> "Init"]
Init == \E t \in TrackSet, f \in SFlagSets : InitWith(t, f)

Next ==
    \/ \E x, y \in Asm : Swap(x, y)
    \/ \E x, y \in Asm : SwapMismatch(x, y)
    \/ \E l \in CascadeLists(InCore) : Cascade(l)
    \/ \E a \in Asm, l \in Loc, how \in {"arg", "own"} : Add(a, l, how)
    \/ \E a \in Asm, l \in Loc : AddOccupied(a, l)
    \/ \E a \in Asm, d \in BOOLEAN : RemoveAsm(a, d)
    \/ \E i, o \in Asm : DischargeSwap(i, o)
    \/ \E i, o \in Asm : DischargeMismatch(i, o)

Spec == Init /\ [][Next]_allvars

(* ====================================== the property, clause by clause ====================================== *)
NoDup(s) == Len(s) = Cardinality(Rng(s))
TypeOK ==
    /\ Rng(children) \subseteq Asm /\ Rng(sfp) \subseteq Asm /\ fresh \subseteq Fresh0 /\ purged \subseteq Asm
    /\ \A a \in Asm : loc[a] \in 0..NL /\ Rng(blocks[a]) \subseteq RealBlk
    /\ \A l \in Loc : byLoc[l] \in 0..(NA0 + NP0 + NF)

\* "the assemblies in the core plus those sent to the pool are exactly the ones that were there or were charged,
\*  none duplicated or lost"  (purged = deliberately deleted: untracked discharge or discharge=False)
InventoryNoDuplicates ==
    /\ NoDup(children) /\ NoDup(sfp)
    /\ InCore \cap Pool = {} /\ InCore \cap purged = {} /\ Pool \cap purged = {}
    /\ fresh \cap (InCore \cup Pool \cup purged) = {}
InventoryExact ==
    /\ InCore \cup Pool \cup purged = Initial \cup Pooled0 \cup charged
    /\ charged = Fresh0 \ fresh
\* with tracking on, whatever left the core through a discharge is in the pool (nothing is lost)
PoolKeepsTrackedDischarges == ~track => Pool \subseteq Pooled0      \* untracked: nothing new enters the pool

\* "each core location holds at most one assembly"
OnePerLocation ==
    /\ \A a \in InCore : loc[a] \in Loc
    /\ \A a, b \in InCore : a # b => loc[a] # loc[b]
    /\ \A a \in Asm \ InCore : loc[a] = 0
\* "the core's lookup by location lists exactly the assemblies present"
ByLocTruthful == \A l \in Loc : (byLoc[l] # 0 => byLoc[l] \in InCore /\ loc[byLoc[l]] = l)
                              /\ (\A a \in InCore : loc[a] = l => byLoc[l] = a)

\* "lookups by assembly and block name find every assembly and block in the core or the pool under its current name"
AsmLookup(n) == LET hits == {e \in asmTab : e[1] = n} IN
                IF hits = {} THEN 0 ELSE IF Cardinality(hits) = 1 THEN (CHOOSE e \in hits : TRUE)[2] ELSE -1
BlkLookup(nm) == LET hits == {e \in blkTab : e[1] = nm[1] /\ e[2] = nm[2]} IN
                 IF hits = {} THEN 0 ELSE IF Cardinality(hits) = 1 THEN (CHOOSE e \in hits : TRUE)[3] ELSE -1
AsmLookupFindsLive == \A a \in Live : AsmLookup(num[a]) = a
BlkLookupFindsLive == \A b \in LiveBlk : BlkLookup(bname[b]) = b
\* "... and never return one that was purged"  (nor one that never entered the core)
AsmDeadKeys == {e[1] : e \in {e \in asmTab : e[2] \notin Live}}
BlkDeadKeys == {<<e[1], e[2]>> : e \in {e \in blkTab : e[3] \notin LiveBlk}}
LookupsNeverReturnPurged == AsmDeadKeys = {} /\ BlkDeadKeys = {}
NamesAreCurrent == /\ \A a \in Live : num[a] >= 0
                   /\ \A a, b \in Asm : a # b => num[a] # num[b]

\* "moves never alter an assembly's contents: block order, heights, dimensions and number densities are unchanged,
\*  except that blocks designated stationary keep their core position and exchange assemblies"
ContentsUnchanged == content = [b \in RealBlk |-> b]
BlocksPartition == /\ \A b \in RealBlk : Cardinality({a \in Asm : b \in Rng(blocks[a])}) = 1
                   /\ \A a \in Asm : NoDup(blocks[a])
BlockOrderKept == \A a \in Asm :
    /\ Len(blocks[a]) = Len(Layout[a])
    /\ \A k \in 1..Len(blocks[a]) : LET b == blocks[a][k] IN
          /\ Pos0(b) = k                                   \* every block keeps its axial position
          /\ (Owner0(b) # a => TypeOf(b) \in sflags)       \* only stationary blocks ever change assembly
NoFlagsNoExchange == sflags = {} => blocks = [a \in Asm |-> Blocks0(a)]

(* action properties *)
Success(n) == act'.n = n /\ err' = ""
\* "each assembly sits where the operation put it"
PlacedWhereAsked == [][
    /\ (Success("Swap") => /\ loc'[act'.x] = loc[act'.y] /\ loc'[act'.y] = loc[act'.x]
                           /\ \A a \in Asm \ {act'.x, act'.y} : loc'[a] = loc[a])
    /\ (Success("Cascade") => LET l == IF act'.l[1] = 0 THEN <<>> ELSE SelectSeq(act'.l, LAMBDA x : x # 0)
                                  m == Len(l) IN                  \* documented rotation: everyone takes the place
                           /\ (m >= 1 => loc'[l[1]] = loc[l[m]])    \* of its predecessor, the first one goes last
                           /\ \A j \in 2..m : loc'[l[j]] = loc[l[j - 1]]
                           /\ \A a \in Asm \ Rng(l) : loc'[a] = loc[a])
    /\ (Success("DischargeSwap") => /\ loc'[act'.i] = loc[act'.o] /\ loc'[act'.o] = 0
                                    /\ \A a \in Asm \ {act'.i, act'.o} : loc'[a] = loc[a])
    /\ (Success("Add") => loc'[act'.a] = act'.l /\ \A a \in Asm \ {act'.a} : loc'[a] = loc[a])
    /\ (Success("Remove") => loc'[act'.a] = 0 /\ \A a \in Asm \ {act'.a} : loc'[a] = loc[a])
    ]_allvars
\* stationary blocks keep their core position through every shuffle
StationaryStay == [][act'.n \in {"Swap", "Cascade", "DischargeSwap"} =>
    \A a \in InCore : \A k \in StatPosIn(blocks, a) :
        \E a2 \in Rng(children') : loc'[a2] = loc[a] /\ k <= Len(blocks'[a2]) /\ blocks'[a2][k] = blocks[a][k]]_allvars
\* R3: refusals change nothing (an aborted cascade is the documented exception, see header)
RefusalsChangeNothing == [][(err' = "refused" /\ act'.n # "Cascade") => UNCHANGED vars]_allvars
\* discharge with tracking goes to the pool, everything else that leaves the core is purged
DischargeDestination == [][\A a \in Asm : (a \in InCore /\ a \notin Rng(children')) =>
    IF track /\ (act'.n = "DischargeSwap" \/ (act'.n = "Remove" /\ act'.d)) THEN a \in Rng(sfp') ELSE a \in purged']_allvars
\* an assembly that changed place was counted as moved
MovesCounted == [][\A a \in Asm : (a \in Rng(children') /\ loc'[a] # loc[a]) => moves'[a] > moves[a]]_allvars

(* ---------- observation: what the adapter projects from the real objects ---------- *)
SortedInts(S) == SetToSortSeq(S, LAMBDA p, q : p < q)
PairLess(p, q) == p[1] < q[1] \/ (p[1] = q[1] /\ p[2] < q[2])
SortedPairs(S) == SetToSortSeq(S, PairLess)
BlkSeq == SortedInts(RealBlk)
OverBlk(f(_)) == [i \in 1..Len(BlkSeq) |-> f(BlkSeq[i])]
Where(a) == IF a \in InCore THEN "core" ELSE IF a \in Pool THEN "sfp" ELSE "out"
Obs == [
    children |-> children,
    where    |-> [a \in Asm |-> Where(a)],
    loc      |-> loc,
    byLoc    |-> byLoc,
    byLocSize |-> Cardinality({l \in Loc : byLoc[l] # 0}),
    sfp      |-> sfp,
    slot     |-> slot,
    num      |-> num,
    nextNum  |-> nextNum,
    asmFound |-> [a \in Asm |-> IF a \in Live THEN AsmLookup(num[a]) ELSE 0],
    asmDead  |-> SortedInts(AsmDeadKeys),
    blkFound |-> OverBlk(LAMBDA b : IF b \in LiveBlk THEN BlkLookup(bname[b]) ELSE 0),
    blkDead  |-> SortedPairs(BlkDeadKeys),
    blocks   |-> blocks,
    bowner   |-> OverBlk(LAMBDA b : OwnerIn(blocks, b)),
    bk       |-> OverBlk(LAMBDA b : IdxOf(blocks[OwnerIn(blocks, b)], b) - 1),
    bname    |-> OverBlk(LAMBDA b : bname[b]),
    content  |-> OverBlk(LAMBDA b : content[b]),
    moves    |-> moves,
    err      |-> err ]
Vars == [children |-> children, loc |-> loc, byLoc |-> byLoc, sfp |-> sfp, slot |-> slot, fresh |-> SortedInts(fresh),
         purged |-> SortedInts(purged), num |-> num, nextNum |-> nextNum, blocks |-> blocks, moves |-> moves,
         bname |-> OverBlk(LAMBDA b : bname[b]), track |-> track,
         sflags |-> [x \in {"F", "G", "P", "S"} |-> x \in sflags]]
Config == [NL |-> NL, NA0 |-> NA0, NP0 |-> NP0, NF |-> NF, MB |-> MB, layout |-> Layout, place |-> Place, blk |-> BlkSeq]
========================================================================================================
