\* Zones on a 3-assembly core: exhaustive, three zone names, depth 4
CONSTANTS NL = 4  NA0 = 3  NP0 = 0  NF = 1  MB = 2  MaxCascade = 2  MaxLoop = 2  MaxChain = 1  MaxLevel = 4  ReAdd = FALSE  MaxZoneInit = 1
CONSTANTS Layout <- LayoutZ  Place <- PlaceZ  SFlagSets <- NoFlags  TrackSet <- OnlyTrue  DbSet <- OnlyFalse  Go <- GoBounded
CONSTANTS ZNames <- NamesZ  NameRank <- RankZ  InitOrder <- NoZones  InitLocs <- NoLocs

INIT ZInit
NEXT ZNext
CONSTRAINT Bound
VIEW ZView
INVARIANT ZTypeOK
INVARIANT NamesUnique
INVARIANT AbsentZonesEmpty
INVARIANT AllLocsIsUnion
INVARIANT FindCurrent
INVARIANT FindIsUnique
INVARIANT OnePerLocation
INVARIANT ByLocTruthful
INVARIANT InventoryNoDuplicates
PROPERTY CheckedMeansExclusive
PROPERTY ZRefusalsChangeNothing
PROPERTY MovesKeepZones
PROPERTY ZoneCallsKeepCore
CHECK_DEADLOCK FALSE
