\* spec -> code: every edge of core T up to depth 3, with the observation of every state (workers 1)
CONSTANTS NL = 5  NA0 = 4  NP0 = 1  NF = 2  MB = 3  MaxCascade = 3  MaxLoop = 3  MaxChain = 2  MaxLevel = 3  ReAdd = TRUE
CONSTANTS Layout <- LayoutT  Place <- PlaceT  SFlagSets <- FlagsTe  TrackSet <- Both  DbSet <- Both  Go <- GoBounded
ACTION_CONSTRAINT Emit
INVARIANT EmitState
INIT Init
NEXT Next
CONSTRAINT Bound
VIEW ViewAll
INVARIANT TypeOK
INVARIANT InventoryNoDuplicates
INVARIANT InventoryExact
INVARIANT PoolKeepsTrackedDischarges
INVARIANT OnePerLocation
INVARIANT ByLocTruthful
INVARIANT AsmLookupFindsLive
INVARIANT BlkLookupFindsLive
INVARIANT LookupsNeverReturnPurged
INVARIANT NamesAreCurrent
INVARIANT ContentsUnchanged
INVARIANT BlocksPartition
INVARIANT BlockOrderKept
INVARIANT NoFlagsNoExchange
INVARIANT LookupsAgree
CHECK_DEADLOCK FALSE
