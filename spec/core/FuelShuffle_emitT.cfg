\* spec -> code: every edge of core T up to depth 3, with the observation of every state (workers 1)
CONSTANTS NL = 5  NA0 = 4  NP0 = 1  NF = 2  MB = 3  MaxCascade = 3  MaxLevel = 3  ReAdd = TRUE
CONSTANTS Layout <- LayoutT  Place <- PlaceT  SFlagSets <- FlagsGPS  TrackSet <- Both  Go <- GoBounded
ACTION_CONSTRAINT Emit
INVARIANT EmitState
INIT Init
NEXT Next
CONSTRAINT Bound
VIEW ViewAll
CHECK_DEADLOCK FALSE
