\* spec -> code (quick): every edge out of every state reachable in <= 3 calls from the 8 hand-picked patterns PatE,
\* with the observation of every state (workers 1)
CONSTANTS Dom <- DomE  Patterns <- PatE  MaxLevel = 4  Go <- GoBounded
ACTION_CONSTRAINT Emit
INVARIANT EmitState
INIT Init
NEXT Next
CONSTRAINT Bound
VIEW ViewEmit
CHECK_DEADLOCK FALSE
