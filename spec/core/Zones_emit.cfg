\* Zones on a 3-assembly core: edge emission, two zone names, depth 3 (workers 1)
CONSTANTS NL = 4  NA0 = 3  NP0 = 0  NF = 1  MB = 2  MaxCascade = 2  MaxLoop = 2  MaxChain = 1  MaxLevel = 3  ReAdd = FALSE  MaxZoneInit = 1
CONSTANTS Layout <- LayoutZ  Place <- PlaceZ  SFlagSets <- NoFlags  TrackSet <- OnlyTrue  DbSet <- OnlyFalse  Go <- GoBounded
CONSTANTS ZNames <- Names2  NameRank <- Rank2  InitOrder <- OrderBA  InitLocs <- LocsBA
ACTION_CONSTRAINT Emit
INVARIANT EmitState
INIT ZInit
NEXT ZNext
CONSTRAINT Bound
VIEW ZView
INVARIANT ZTypeOK
INVARIANT NamesUnique
INVARIANT AbsentZonesEmpty
INVARIANT AllLocsIsUnion
INVARIANT FindCurrent
INVARIANT FindIsUnique
INVARIANT OnePerLocation
INVARIANT ByLocTruthful
INVARIANT InventoryNoDuplicates
PROPERTY CheckedMeansExclusive
PROPERTY ZRefusalsChangeNothing
PROPERTY MovesKeepZones
PROPERTY ZoneCallsKeepCore
CHECK_DEADLOCK FALSE
