\* spec -> code (quick): flag settings {} and {G,P} x tracking x built/database-loaded; every edge of core S up to depth 3, with the observation of every state (workers 1)
CONSTANTS NL = 4  NA0 = 3  NP0 = 1  NF = 2  MB = 3  MaxCascade = 3  MaxLoop = 3  MaxChain = 2  MaxLevel = 3  ReAdd = TRUE
CONSTANTS Layout <- LayoutS  Place <- PlaceS  SFlagSets <- FlagsG2  TrackSet <- Both  DbSet <- Both  Go <- GoBounded
ACTION_CONSTRAINT Emit
INVARIANT EmitState
INIT Init
NEXT Next
CONSTRAINT Bound
VIEW ViewAll
CHECK_DEADLOCK FALSE
