\* spec -> code (quick): thetaBins = 1 (HexToRZConverter), 6 ring designs, 2 meshes: one line per case with the expected result
CONSTANTS Designs <- DesignsQ  CentreTypes <- CentresQ  ThetaBins <- BinsOne  Meshes <- MeshesQ
ACTION_CONSTRAINT EmitEdge
INIT Init
NEXT Next
CHECK_DEADLOCK FALSE
