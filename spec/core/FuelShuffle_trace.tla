--------------------------------------- MODULE FuelShuffle_trace ---------------------------------------
(* code -> spec: every recorded shuffle history must be a behaviour of FuelShuffle, event by event, with the complete
   projected post-state equal to the specification's.  An event names the CALL that was made (swap, cascade, dswap,
   add, remove) and its arguments; whether the call is carried out or refused is decided by the specification. *)
EXTENDS FuelShuffle, IOUtils, TLCExt
Traces == ndJsonDeserialize(IOEnv.TRACE_FILE)
NT     == Len(Traces)
VARIABLES tid, l
ASSUME \A t \in 1..NT : TLCSet(t, 0)

\* core M: 5 assemblies on the 7 cells of two hex rings (or a 3x3 square), 2 pooled, 3 fresh; three stationary patterns
LayoutM == <<  <<"G", "F", "P">>, <<"G", "F", "P">>, <<"G", "S", "F">>, <<"G", "F">>, <<"G", "F", "P">>,
               <<"G", "F", "P">>, <<"G", "S", "F">>,
               <<"G", "F", "P">>, <<"G", "S", "F">>, <<"G", "F", "P">>  >>
PlaceM  == <<1, 2, 3, 5, 6>>
\* core N: 7 assemblies on 9 cells, 2 pooled, 4 fresh, taller stacks
LayoutN == <<  <<"G", "S", "F", "P">>, <<"G", "S", "F", "P">>, <<"G", "F", "F", "P">>, <<"G", "S", "F", "P">>,
               <<"G", "F", "P">>, <<"G", "S", "F", "P">>, <<"G", "F", "F", "P">>,
               <<"G", "S", "F", "P">>, <<"G", "F", "F", "P">>,
               <<"G", "S", "F", "P">>, <<"G", "F", "F", "P">>, <<"G", "S", "F", "P">>, <<"G", "F", "P">>  >>
PlaceN  == <<1, 2, 3, 4, 6, 7, 9>>
Unused == {}

TInit == /\ tid \in 1..NT /\ l = 1
         /\ InitWith(Traces[tid].track, {Traces[tid].sflags[i] : i \in 1..Len(Traces[tid].sflags)}, Traces[tid].db)
Ev == Traces[tid].ev[l]
A  == Ev.a
Step ==
    \/ A.n = "swap"    /\ (Swap(A.x, A.y) \/ SwapMismatch(A.x, A.y))
    \/ A.n = "cascade" /\ Cascade(A.l)
    \/ A.n = "add"     /\ (Add(A.a, A.l, A.how) \/ AddOccupied(A.a, A.l))
    \/ A.n = "remove"  /\ RemoveAsm(A.a, A.d)
    \/ A.n = "dswap"   /\ (DischargeSwap(A.i, A.o) \/ DischargeMismatch(A.i, A.o))
    \/ A.n = "repeat"  /\ Repeat(A.load, A.loops)
    \/ A.n = "locate"  /\ Locate
    \/ A.n = "ask"     /\ Ask
ObsMatch == \/ ObsQ(act)' = Ev.post
            \/ /\ ObsQ(act)' # Ev.post
               /\ PrintT(ToJson([mismatch |-> Traces[tid].id, at |-> l, act |-> act', expected |-> ObsQ(act)']))
               /\ FALSE
TNext == /\ l <= Len(Traces[tid].ev) /\ l' = l + 1 /\ tid' = tid
         /\ Step
         /\ ObsMatch
TSpec == TInit /\ [][TNext]_<<allvars, tid, l>>
Progress == IF TLCGet(tid) < l THEN TLCSet(tid, l) ELSE TRUE
Report == LET bad == {t \in 1..NT : TLCGet(t) # Len(Traces[t].ev) + 1} IN
          /\ \A t \in bad : PrintT(ToJson([rejected |-> Traces[t].id, matched |-> TLCGet(t) - 1]))
          /\ PrintT(ToJson([accepted |-> NT - Cardinality(bad), of |-> NT]))
ASSUME PrintT(ToJson([config |-> Config, noAnswer |-> NoAnswer]))
========================================================================================================
