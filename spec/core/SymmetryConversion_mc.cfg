\* exhaustive (quick): every loading pattern of a 3-ring third core (with and without its edge cell), all call
\* sequences of length <= 4 over convert / restore / addEdges / removeEdges (long-lived and fresh edge changer)
CONSTANTS Dom <- Dom3  Patterns <- Pat3  MaxLevel = 5  Go <- GoBounded
INIT Init
NEXT Next
CONSTRAINT Bound
VIEW ViewAll
INVARIANT TypeOK
INVARIANT SymmetryConsistent
INVARIANT OrbitClosure
INVARIANT CopiesRotatedIntoPlace
INVARIANT DispIsRotation
INVARIANT UniqueNames
INVARIANT ZonesFollowSources
INVARIANT EditsAreTemporary
INVARIANT LookupsTruthful
INVARIANT TimesThree
INVARIANT BaseConstant
INVARIANT RestoreReturnsPrevious
INVARIANT EdgesRoundTrip
INVARIANT EdgesScaleRoundTrip
INVARIANT AddEdgesClearsFlags
INVARIANT HalvesCombine
INVARIANT EdgeCopiesAreHalves
CHECK_DEADLOCK FALSE
