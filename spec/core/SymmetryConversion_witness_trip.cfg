\* non-vacuity: NeverScaledTrip is expected to be REFUTED (the flow the round-trip invariants speak about is reachable)
CONSTANTS Dom <- DomL  Patterns <- PatW  MaxLevel = 5  Go <- GoBounded
INIT Init
NEXT Next
CONSTRAINT Bound
VIEW ViewAll
INVARIANT NeverScaledTrip
CHECK_DEADLOCK FALSE
