---------------------------------------- MODULE GeometryConversion ----------------------------------------
(* C13 extension (DESIGN section 6) -- HexToRZThetaConverter / HexToRZConverter of geometryConverters.py:
   homogenising a full hexagonal core into R-Z-Theta zones.

   A CASE is a full-core loading (which assembly type sits in which cell of a 3-ring hexagon, given ring by ring by a
   "ring design"), a number of theta bins and an axial mesh.  Convert is the one action; its result is a value:
       zones    the radial zones, in order: <<lowerRing, upperRing, type, cells>>      ("Ring Compositions" conversion:
                one zone per (hex ring, assembly type); rings without assemblies are absorbed by the next zone; within a
                ring the types are taken by decreasing (count, name)  -- convert() / _setNextAssemblyTypeInRadialZone /
                _getSortedAssemblyTypesInRadialZone / meshConverters._getCompositionTypesPerRing)
       bins     for every zone and theta bin the cells whose centre lies in the HALF-OPEN sector [k*2pi/n, (k+1)*2pi/n),
                decided with exact integer cross products (the centre cell has angle 0)
       blocks   for every (zone, theta bin, axial interval) the source blocks that overlap the interval with the overlapping
                height (Assembly.getBlocksBetweenElevations), in the converter's order (assemblies by (j, i), blocks bottom
                up), and the homogenised block type (_getHomogenizedBlockType: "fuel" wins if present, otherwise the most
                frequent source block type, first met on a tie, mapped through _BLOCK_MIXTURE_TYPE_MAP)
   All hexagons have the same cross-section, so volumes are heights (integers) times one constant; the atoms of a nuclide in
   a new block are the LINEAR form  SUM over overlaps  (number density of that source block) x area x overlapping height.
   The adapter evaluates that form with the measured densities of the real source blocks: the coefficients come from here.

   CLAUSES -> INVARIANTS
     every source assembly lands in exactly one (zone, theta bin) ................ Partition
     zones are contiguous in the rings and single-typed ........................... ZonesWellFormed
     total volume and every nuclide's atoms are those of the source ............... Conservation (every source block is
                                                                                     covered exactly once over its height)
     axial mesh of the result: contiguous from 0 to the top ....................... MeshContiguous
     block type of a homogenised block ............................................ TypeRule (definitional: BlockType)
     refusal: a (zone, theta bin) without assemblies is refused, nothing is built .. RefusalIffEmptyBin

   INTERPRETATION: theta sectors are half-open (an assembly on a sector boundary belongs to one sector).
   WHERE armi leaves this (props/c13.py reports it; only thetaBins = 1, the HexToRZConverter case armi itself uses, is replayed
   case by case): with more than one theta bin _getAssembliesInSector takes CLOSED sectors (boundary assemblies are homogenised
   into two bins) and _setAssemsInRadialZone extends its list with the union at every bin (ring volumes counted several times).
*)
EXTENDS SymLattice, TLC, Json

CONSTANTS Designs,      \* ring designs allowed for ring 2 and ring 3
          CentreTypes,  \* types allowed at the centre ("none" = hole)
          ThetaBins,    \* set of bin counts, subset of {1, 2, 3, 6}
          Meshes        \* set of axial meshes (sequences of increasing integers ending at Top)

VARIABLES case, out
vars == <<case, out>>

O == "flat"
Top == 40
\* block stacks (bottom up) <<kind, height>>; kinds are the block types of the generated assemblies
Stack(t) == IF t = "reflector" THEN << <<"axial shield", 20>>, <<"axial shield", 20>> >>
            ELSE << <<"grid plate", 15>>, <<"fuel", 25>> >>                  \* "fuel" and "blanket" assemblies
Rank(t) == IF t = "blanket" THEN 1 ELSE IF t = "fuel" THEN 2 ELSE 3            \* alphabetical order of the type names
Types == {"blanket", "fuel", "reflector"}

Hexagon(n) == {cc \in (-(n - 1)..(n - 1)) \X (-(n - 1)..(n - 1)) : SymDist(cc) <= n - 1}
Universe == Hexagon(3)
RingOf(cc) == AlgRingPos(cc)[1]
PosOf(cc)  == AlgRingPos(cc)[2]
\* a ring design says which type sits at position p of the ring ("none" = empty)
DesignType(d, p, n) ==
    CASE d = "F" -> "fuel" [] d = "R" -> "reflector" [] d = "B" -> "blanket" [] d = "E" -> "none"
      [] d = "FR"  -> IF p % 2 = 1 THEN "fuel" ELSE "reflector"
      [] d = "FRB" -> IF p % 3 = 1 THEN "fuel" ELSE IF p % 3 = 2 THEN "reflector" ELSE "blanket"
      [] d = "FFR" -> IF p % 3 = 0 THEN "reflector" ELSE "fuel"
      [] d = "half" -> IF 2 * p <= n THEN "fuel" ELSE "none"
TypeAt(cs, cc) == IF cc = Centre THEN cs.centre
                  ELSE DesignType(IF RingOf(cc) = 2 THEN cs.d2 ELSE cs.d3, PosOf(cc), PositionsInRing(RingOf(cc)))
Occ(cs) == {cc \in Universe : TypeAt(cs, cc) # "none"}
Cases == {cs \in [centre : CentreTypes, d2 : Designs, d3 : Designs, nb : ThetaBins, mesh : Meshes] : Occ(cs) # {}}

CellLess(a, b)     == a[1] < b[1] \/ (a[1] = b[1] /\ a[2] < b[2])
AsmOrderLess(a, b) == a[2] < b[2] \/ (a[2] = b[2] /\ a[1] < b[1])           \* assemblies sort by (j, i)
SortedAsm(S)       == SetToSortSeq(S, AsmOrderLess)

(* ------------------------------------------- radial zones ------------------------------------------- *)
TypesIn(cs, lo, up) == {TypeAt(cs, cc) : cc \in {c2 \in Occ(cs) : RingOf(c2) \in lo..(up - 1)}}
CountOf(cs, lo, up, t) == Cardinality({cc \in Occ(cs) : RingOf(cc) \in lo..(up - 1) /\ TypeAt(cs, cc) = t})
\* decreasing (count, name)
TypeBefore(cs, lo, up, a, b) == LET ca == CountOf(cs, lo, up, a)  cb == CountOf(cs, lo, up, b)
                                IN  ca > cb \/ (ca = cb /\ Rank(a) > Rank(b))
SortedTypes(cs, lo, up) == SetToSortSeq(TypesIn(cs, lo, up), LAMBDA a, b : TypeBefore(cs, lo, up, a, b))
\* meshConverters: one entry ring+1 per (ring, type present), sorted
RadialMesh(cs) == LET per(r) == [x \in 1..Cardinality(TypesIn(cs, r, r + 1)) |-> r + 1]
                  IN  per(1) \o per(2) \o per(3)
ZoneStep(cs, st, up) ==
    LET rep  == st.lower = up
        prev == IF rep THEN st.prev ELSE <<>>
        lo   == IF rep THEN up - 1 ELSE st.lower
        cand == SelectSeq(SortedTypes(cs, lo, up), LAMBDA t : \A x \in 1..Len(prev) : prev[x] # t)
        t    == IF cand = <<>> THEN "none" ELSE cand[1]
    IN  [lower |-> up, prev |-> Append(prev, t),
         zones |-> Append(st.zones, [lo |-> lo, up |-> up, type |-> t,
                                     cells |-> {cc \in Occ(cs) : RingOf(cc) \in lo..(up - 1) /\ TypeAt(cs, cc) = t}])]
Zones(cs) == FoldLeft(LAMBDA st, up : ZoneStep(cs, st, up), [lower |-> 1, prev |-> <<>>, zones |-> <<>>], RadialMesh(cs)).zones

(* -------------------------------------------- theta bins -------------------------------------------- *)
Dir(m) == <<SymC6(m), SymS6(m)>>                        \* direction of angle m*60 degrees, as a lattice pair
InBin(cc, k, n) ==                                     \* angle(cc) in [k*360/n, (k+1)*360/n)
    IF n = 1 THEN TRUE
    ELSE IF cc = Centre THEN k = 0
    ELSE LET p  == SymXY(O, cc)
             d1 == Dir(k * (6 \div n))
             d2 == Dir((k + 1) * (6 \div n))
         IN  (SymCross(d1, p) > 0 /\ SymCross(p, d2) > 0) \/ (SymCross(d1, p) = 0 /\ SymDot(O, d1, p) > 0)
BinCellsZ(zs, cs, z, k) == {cc \in zs[z].cells : InBin(cc, k, cs.nb)}
BinCells(cs, z, k) == BinCellsZ(Zones(cs), cs, z, k)

(* ------------------------------------------- axial overlap ------------------------------------------- *)
Bottom(t, b) == IF b = 1 THEN 0 ELSE Stack(t)[1][2]
TopOf(t, b)  == Bottom(t, b) + Stack(t)[b][2]
Mx(a, b) == IF a >= b THEN a ELSE b
Mn(a, b) == IF a <= b THEN a ELSE b
Overlap(t, b, lo, hi) == Mx(0, Mn(hi, TopOf(t, b)) - Mx(lo, Bottom(t, b)))
MeshLo(m, a) == IF a = 1 THEN 0 ELSE m[a - 1]
\* source blocks homogenised into the new block (zone z, bin k, axial interval a): <<cell, block index, kind, height here>>
Overlaps(zs, cs, z, k, a) ==
    LET cells == SortedAsm(BinCellsZ(zs, cs, z, k))
        one(cc) == LET t == TypeAt(cs, cc) IN
                   SelectSeq([b \in 1..2 |-> <<cc, b, Stack(t)[b][1], Overlap(t, b, MeshLo(cs.mesh, a), cs.mesh[a])>>],
                             LAMBDA e : e[4] > 0)
    IN  FoldLeft(LAMBDA acc, cc : acc \o one(cc), <<>>, cells)
\* _getHomogenizedBlockType
KindCount(ov, kd) == Cardinality({x \in 1..Len(ov) : ov[x][3] = kd})
BlockType(ov) ==
    IF \E x \in 1..Len(ov) : ov[x][3] = "fuel" THEN "mixture fuel"
    ELSE LET best == CHOOSE x \in 1..Len(ov) :
                        /\ \A y \in 1..Len(ov) : KindCount(ov, ov[y][3]) <= KindCount(ov, ov[x][3])
                        /\ \A y \in 1..(x - 1) : KindCount(ov, ov[y][3]) < KindCount(ov, ov[x][3])     \* first met on a tie
         IN  IF ov[best][3] = "axial shield" THEN "mixture axial shield" ELSE "mixture structure"

Result(cs) ==
    LET zs == Zones(cs) IN
    IF \E z \in 1..Len(zs), k \in 0..(cs.nb - 1) : BinCellsZ(zs, cs, z, k) = {}
    THEN [err |-> "ValueError", zones |-> <<>>, blocks |-> <<>>]
    ELSE [err |-> "",
          zones |-> [z \in 1..Len(zs) |-> [lo |-> zs[z].lo, up |-> zs[z].up, type |-> zs[z].type,
                                          bins |-> [k \in 1..cs.nb |-> SetToSortSeq(BinCellsZ(zs, cs, z, k - 1), CellLess)]]],
          blocks |-> [z \in 1..Len(zs) |-> [k \in 1..cs.nb |-> [a \in 1..Len(cs.mesh) |->
                        LET ov == Overlaps(zs, cs, z, k - 1, a) IN
                        [height |-> cs.mesh[a] - MeshLo(cs.mesh, a), type |-> BlockType(ov), ov |-> ov]]]]]

(* ------------------------------------------------ machine ------------------------------------------------ *)
Null == [err |-> "pending", zones |-> <<>>, blocks |-> <<>>]
Init == case \in Cases /\ out = Null
Convert == out = Null /\ out' = Result(case) /\ out'.err = "" /\ UNCHANGED case
ConvertRefused == out = Null /\ out' = Result(case) /\ out'.err # "" /\ UNCHANGED case
Next == Convert \/ ConvertRefused

(* ----------------------------------------------- invariants ----------------------------------------------- *)
Done == out.err = ""
TypeOK == case \in Cases /\ out.err \in {"pending", "", "ValueError"}
Partition == Done =>
    \A cc \in Occ(case) : Cardinality({zk \in (1..Len(out.zones)) \X (1..case.nb) :
                                          \E x \in 1..Len(out.zones[zk[1]].bins[zk[2]]) : out.zones[zk[1]].bins[zk[2]][x] = cc}) = 1
ZonesWellFormed == Done =>
    /\ \A z \in 1..Len(out.zones) : out.zones[z].lo < out.zones[z].up /\ out.zones[z].type \in Types
    /\ \A z \in 1..(Len(out.zones) - 1) : out.zones[z].up <= out.zones[z + 1].up
\* every source block is covered exactly once over its whole height: volume and every nuclide's atoms are conserved
Conservation == Done =>
    \A cc \in Occ(case), b \in 1..2 :
        LET hits == {zka \in (1..Len(out.zones)) \X (1..case.nb) \X (1..Len(case.mesh)) :
                        \E x \in 1..Len(out.blocks[zka[1]][zka[2]][zka[3]].ov) :
                            LET e == out.blocks[zka[1]][zka[2]][zka[3]].ov[x] IN e[1] = cc /\ e[2] = b}
            h(zka) == LET ov == out.blocks[zka[1]][zka[2]][zka[3]].ov
                          x  == CHOOSE y \in 1..Len(ov) : ov[y][1] = cc /\ ov[y][2] = b
                      IN  ov[x][4]
        IN  FoldSet(LAMBDA zka, acc : acc + h(zka), 0, hits) = Stack(TypeAt(case, cc))[b][2]
MeshContiguous == Done =>
    /\ case.mesh[Len(case.mesh)] = Top
    /\ \A z \in 1..Len(out.zones), k \in 1..case.nb :
          FoldLeft(LAMBDA acc, a : acc + out.blocks[z][k][a].height, 0, [a \in 1..Len(case.mesh) |-> a]) = Top
    /\ \A z \in 1..Len(out.zones), k \in 1..case.nb, a \in 1..Len(case.mesh) :
          out.blocks[z][k][a].height > 0 /\ out.blocks[z][k][a].ov # <<>>
RefusalIffEmptyBin == out.err = "ValueError" => LET zs == Zones(case) IN \E z \in 1..Len(zs), k \in 0..(case.nb - 1) : BinCellsZ(zs, case, z, k) = {}

(* ------------------------------------------------ emission ------------------------------------------------ *)
CaseOut == [centre |-> case.centre, d2 |-> case.d2, d3 |-> case.d3, nb |-> case.nb, mesh |-> case.mesh,
            cells |-> [x \in 1..Cardinality(Occ(case)) |->
                          LET cc == SetToSortSeq(Occ(case), CellLess)[x] IN <<cc, TypeAt(case, cc)>>]]
=============================================================================================================
