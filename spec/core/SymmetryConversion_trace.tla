------------------------------------- MODULE SymmetryConversion_trace -------------------------------------
(* code -> spec: every recorded history of convert / restore / addEdges / removeEdges calls on a generated third core
   must be a behaviour of SymmetryConversion, event by event, with the complete projected post-state (cells, origins,
   rotations, symmetry factors, reported fractions, parameter scales, all lookups) equal to the specification's.
   An event names the CALL and the edge changer used; the branch is decided by the specification.  The loading pattern
   is a constant of each trace.                                                                                     *)
EXTENDS SymmetryConversion_mc, IOUtils, TLCExt
Traces == ndJsonDeserialize(IOEnv.TRACE_FILE)
NT     == Len(Traces)
VARIABLES tid, l
ASSUME \A t \in 1..NT : TLCSet(t, 0)
CellsOf(s) == {s[x] : x \in 1..Len(s)}
TInit == /\ tid \in 1..NT /\ l = 1
         /\ CellsOf(Traces[tid].pat) \subseteq Dom
         /\ InitWith(CellsOf(Traces[tid].pat))
Ev == Traces[tid].ev[l]
A  == Ev.a
Step ==
    \/ A.n = "convert" /\ CallConvert
    \/ A.n = "restore" /\ CallRestore
    \/ A.n = "addEdges" /\ CallAddEdges(A.kept)
    \/ A.n = "removeEdges" /\ CallRemoveEdges(A.kept)
    \/ A.n = "scaleParams" /\ CallScaleParams
    \/ A.n = "solve" /\ Solve(A.ps)
    \/ A.n = "editCopy" /\ EditCopy
ObsMatch == \/ ObsT' = Ev.post
            \/ /\ ObsT' # Ev.post
               /\ PrintT(ToJson([mismatch |-> Traces[tid].id, at |-> l, br |-> act'.br, expected |-> ObsT']))
               /\ FALSE
\* traces recorded with coef = true: the coefficient vectors of every matched state are printed, and the harness compares the
\* totals the core reported at that event with them (volume, mass of every nuclide, parameter totals are floats)
WantCoef == "coef" \in DOMAIN Traces[tid] /\ Traces[tid].coef
CoefOut  == WantCoef => LET ob == Obs' IN
            PrintT(ToJson([coef |-> Traces[tid].id, at |-> l, br |-> act'.br, vol |-> ob.vol, par |-> ob.par, full |-> ob.full,
                           mult |-> ob.d.mult, volOk |-> ob.d.volOk, parOk |-> ob.d.parOk, totOk |-> ob.d.totOk, disp |-> ob.disp]))
TNext == /\ l <= Len(Traces[tid].ev) /\ l' = l + 1 /\ tid' = tid
         /\ Step
         /\ ObsMatch
         /\ CoefOut
TSpec == TInit /\ [][TNext]_<<vars, act, tid, l>>
Progress == IF TLCGet(tid) < l THEN TLCSet(tid, l) ELSE TRUE
Report == LET bad == {t \in 1..NT : TLCGet(t) # Len(Traces[t].ev) + 1} IN
          /\ \A t \in bad : PrintT(ToJson([rejected |-> Traces[t].id, matched |-> TLCGet(t) - 1]))
          /\ PrintT(ToJson([accepted |-> NT - Cardinality(bad), of |-> NT]))
===========================================================================================================
