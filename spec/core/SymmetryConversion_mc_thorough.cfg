\* exhaustive (thorough): every pattern over the symmetry lines out to ring 5 + centre + two interior cells, alone and on
\* top of the rest of a 4-ring third core; all call sequences of length <= 5
CONSTANTS Dom <- Dom5  Patterns <- Pat5  MaxLevel = 6  Go <- GoBounded
INIT Init
NEXT Next
CONSTRAINT Bound
VIEW ViewAll
INVARIANT TypeOK
INVARIANT SymmetryConsistent
INVARIANT OrbitClosure
INVARIANT CopiesRotatedIntoPlace
INVARIANT DispIsRotation
INVARIANT UniqueNames
INVARIANT ZonesFollowSources
INVARIANT EditsAreTemporary
INVARIANT LookupsTruthful
INVARIANT TimesThree
INVARIANT BaseConstant
INVARIANT RestoreReturnsPrevious
INVARIANT EdgesRoundTrip
INVARIANT EdgesScaleRoundTrip
INVARIANT AddEdgesClearsFlags
INVARIANT HalvesCombine
INVARIANT EdgeCopiesAreHalves
CHECK_DEADLOCK FALSE
