\* trace validation on core N
CONSTANTS NL = 9  NA0 = 7  NP0 = 2  NF = 4  MB = 4  MaxCascade = 4  MaxLoop = 3  MaxChain = 2  MaxLevel = 999  ReAdd = TRUE
CONSTANTS Layout <- LayoutN  Place <- PlaceN  SFlagSets <- Unused  TrackSet <- Unused  DbSet <- Unused
SPECIFICATION TSpec
CONSTRAINT Progress
POSTCONDITION Report
INVARIANT TypeOK
INVARIANT InventoryNoDuplicates
INVARIANT InventoryExact
INVARIANT PoolKeepsTrackedDischarges
INVARIANT OnePerLocation
INVARIANT ByLocTruthful
INVARIANT AsmLookupFindsLive
INVARIANT BlkLookupFindsLive
INVARIANT LookupsNeverReturnPurged
INVARIANT NamesAreCurrent
INVARIANT ContentsUnchanged
INVARIANT BlocksPartition
INVARIANT BlockOrderKept
INVARIANT NoFlagsNoExchange
INVARIANT LookupsAgree
CHECK_DEADLOCK FALSE
