\* trace validation on core M
CONSTANTS NL = 7  NA0 = 5  NP0 = 2  NF = 3  MB = 3  MaxCascade = 4  MaxLoop = 3  MaxChain = 2  MaxLevel = 999  ReAdd = TRUE
CONSTANTS Layout <- LayoutM  Place <- PlaceM  SFlagSets <- Unused  TrackSet <- Unused  DbSet <- Unused
SPECIFICATION TSpec
CONSTRAINT Progress
POSTCONDITION Report
INVARIANT TypeOK
INVARIANT InventoryNoDuplicates
INVARIANT InventoryExact
INVARIANT PoolKeepsTrackedDischarges
INVARIANT OnePerLocation
INVARIANT ByLocTruthful
INVARIANT AsmLookupFindsLive
INVARIANT BlkLookupFindsLive
INVARIANT LookupsNeverReturnPurged
INVARIANT NamesAreCurrent
INVARIANT ContentsUnchanged
INVARIANT BlocksPartition
INVARIANT BlockOrderKept
INVARIANT NoFlagsNoExchange
INVARIANT LookupsAgree
CHECK_DEADLOCK FALSE
