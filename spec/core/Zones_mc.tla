-------------------------------------------- MODULE Zones_mc --------------------------------------------
EXTENDS Zones
\* a 3-assembly core on 4 locations with one fresh assembly, no stationary blocks, tracking on
LayoutZ == <<  <<"G", "F">>, <<"G", "F">>, <<"F">>, <<"G", "F">>  >>
PlaceZ  == <<1, 2, 3>>
NoFlags == {{}}
OnlyTrue == {TRUE}
OnlyFalse == {FALSE}
NamesZ  == {"za", "zb", "zc"}
RankZ   == [n \in NamesZ |-> IF n = "za" THEN 1 ELSE IF n = "zb" THEN 2 ELSE 3]
Names2  == {"za", "zb"}
Rank2   == [n \in Names2 |-> IF n = "za" THEN 1 ELSE 2]
NoZones   == <<>>
NoLocs    == [n \in NamesZ |-> {}]
NoZones2  == <<>>
NoLocs2   == [n \in Names2 |-> {}]
\* emission starts from two zones defined in non-alphabetical order: sorting, duplicates and look-ups matter at once
OrderBA   == <<"zb", "za">>
LocsBA    == [n \in Names2 |-> IF n = "za" THEN {1} ELSE {2, 4}]
GoBounded == TLCGet("level") < MaxLevel
Bound == TLCGet("level") <= MaxLevel
ZView == <<vars, zvars>>
Emit == PrintT(ToJson([lvl |-> TLCGet("level"), from |-> ZVars, act |-> act', to |-> ZVars', err |-> err']))
EmitState == PrintT(ToJson([st |-> ZVars, obs |-> ZObs]))
ASSUME PrintT(ToJson([config |-> Config, znames |-> SortedNames(ZNames)]))
==========================================================================================================
