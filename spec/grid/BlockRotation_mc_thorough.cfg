\* exhaustive: assemblies of 3 blocks, k in -13..13
CONSTANTS K = 13  H = 5  NB = 3  Layouts = {"p1", "p7", "p19", "singles", "mixed", "nogrid", "prism", "families"}  TieDi = TRUE  MaxLevel = 3
INIT Init
NEXT NextB
CONSTRAINT Bound
INVARIANT TypeOK
INVARIANT ShapeKept
INVARIANT CellsFollowGeometry
INVARIANT FamiliesStayDisjoint
INVARIANT FreePointsFollowGeometry
INVARIANT BoundaryDataFollowGeometry
INVARIANT OtherValuesUntouched
INVARIANT DisplacementFollowsGeometry
INVARIANT OrientationAdvances
INVARIANT OnlyTargetsMove
INVARIANT RefusalChangesNothing
INVARIANT LegalIsAccepted
INVARIANT Additive
INVARIANT SixIsIdentity
CHECK_DEADLOCK FALSE
