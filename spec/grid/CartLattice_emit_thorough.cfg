\* emission (workers 1): same constants as CartLattice_mc_thorough.cfg
CONSTANTS R = 14  MaxCount = 800  MaxLevel = 1000  KAx = 4
ACTION_CONSTRAINT Emit
INVARIANT EmitState
INIT Init
NEXT Next
CONSTRAINT Bound
VIEW View
INVARIANT TypeOK
CHECK_DEADLOCK FALSE
