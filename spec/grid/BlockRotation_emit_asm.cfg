\* emission, heterogeneous assemblies of 3 blocks: edges out of the initial states and their successors
CONSTANTS K = 4  H = 1  NB = 3  Layouts = {"p7", "mixed", "nogrid"}  MaxLevel = 2
ACTION_CONSTRAINT Emit
INVARIANT EmitState
INIT Init
NEXT Next
CONSTRAINT Bound
VIEW View
INVARIANT TypeOK
CHECK_DEADLOCK FALSE
