\* emission, heterogeneous assemblies of 3 blocks (p7+p19+singles, mixed+nogrid+prism, nogrid+prism+families; both orientations): every action out of the
\* initial state (k in -4..4); longer histories are covered by the thorough config (MaxLevel = 3) and by trace validation
CONSTANTS K = 4  H = 1  NB = 3  Layouts = {"p7", "mixed", "nogrid"}  TieDi = TRUE  MaxLevel = 2
ACTION_CONSTRAINT Emit
INVARIANT EmitState
INIT Init
NEXT NextE
CONSTRAINT Bound
VIEW View
INVARIANT TypeOK
CHECK_DEADLOCK FALSE
