\* exhaustive (thorough): all pitch values, backUp stack depth 1
CONSTANTS MaxLevel = 30  MaxStack = 1  Rich = TRUE
INIT Init
NEXT Next
CONSTRAINT Bound
VIEW View
INVARIANT TypeOK
INVARIANT CellsAreAffine
INVARIANT ReduceDetermines
INVARIANT PitchRescalesOnly
PROPERTY RefusalsChangeNothing
PROPERTY OnlySnapshotTouchesTaken
PROPERTY BackupDiscipline
CHECK_DEADLOCK FALSE
