------------------------------------------ MODULE HexLattice ------------------------------------------
(* C07 (shared with C08) -- the hexagonal lattice of armi/reactor/grids/hexagonal.py, integers only.

   PURE MODULE: no variables, no constants.  The integer core (Dist, Ring, CAdd, XY, Cross, RingStart, NbVec and the
   closed forms CodeRingPos / CodeRaisesAt / CodeFromRingPos / CodeNeighbours / CodeNumInRing, SpiralStep) lives in
   HexCore.tla, which this module EXTENDS and which HexSpiral.tla shares: Apalache proves there, for every ring,
   that the closed forms agree with the counter-clockwise walk; here TLC ties walk, closed forms and the geometric
   reference numbering together up to the ring bound of the cfg (ThmRingContiguous, ThmCode...).  It is EXTENDed by HexLattice_mc (C07) and by the symmetry
   modules of C08.  Stable interface (c, a, b are cells <<i, j>>; o is an orientation "flats" | "corners"):

     Cells(N)            the cells within N rings (N >= 0; Cells(0) = {})
     RingCells(r)        the cells of ring r
     Dist(c)             hex (cube) distance from the centre     Ring(c) == Dist(c) + 1
     RingPos(c)          <<ring, position>>, both 1-based        FromRingPos(r, p)  its inverse
     Neighbours(c)       sequence of the six neighbours, counter-clockwise, first = c + <<1, 0>>
     XFlatsUp(c)  YFlatsUp(c)      centre of c, flats-up grid,   in units (side/2,  pitch/2)
     XCornersUp(c) YCornersUp(c)   centre of c, corners-up grid, in units (pitch/2, side/2)
     XY(o, c), Cross(o, a, b), Dot(o, a, b), Len2(o, a), Pitch2   exact plane geometry (see below)

   TWO LAYERS.
   (1) Reference definitions, stated *geometrically* from the property text and the class docstring
       of HexGrid, never from the code's branch arithmetic:
         - a cell <<i,j>> has cube coordinates (i, j, -i-j); Dist = max |.|; Ring = Dist + 1;
         - the centre of a cell is the integer combination of the two unit steps of
           HexGrid._getRawUnitSteps written in half-side / half-pitch units:
             flats-up    x = 1.5*side*i           = 3i     * (side/2)    y = pitch/2*i + pitch*j = (i+2j)  * (pitch/2)
             corners-up  x = pitch/2*i - pitch/2*j = (i-j) * (pitch/2)   y = 1.5*side*(i+j)      = 3(i+j) * (side/2)
           With pitch = sqrt(3)*side every squared length is an integer multiple of (side/2)^2:
             flats-up |v|^2 = X^2 + 3Y^2,  corners-up |v|^2 = 3X^2 + Y^2,  pitch^2 = 12;
           a cross product is an integer multiple of sqrt(3)*(side/2)^2 in both orientations, so its SIGN is exact.
         - position = 1 + the number of cells of the same ring that are met strictly earlier when the ring
           is walked counter-clockwise (by polar angle of the cell centre) starting at the cell <<ring-1, 0>>
           (HexGrid.getIndicesFromRingAndPos docstring picture: position 1 is the upper-right cell);
         - the neighbours of c are the cells whose centre is exactly one pitch from c's, listed
           counter-clockwise by polar angle starting with c + <<1,0>> ("beginning from the 30 or 60 degree
           direction", getNeighboringCellIndices docstring): NbVecIn(o).  Its value is written out once as
           NbVec and proven equal to the geometric definition for both orientations (ThmNbVecIsGeometric).
   (2) Transcriptions of the code's arithmetic (Code* operators), line by line:
         CodeRingPos      <- HexGrid.indicesToRingPos            (six edge branches, positionBase + offset)
         CodeFromRingPos, CodeRaisesAt <- HexGrid._indicesAndEdgeFromRingAndPos (divmod(pos, ring), six edge
                             branches; CodeRaisesAt = its ValueError branches)
         CodeNeighbours   <- HexGrid.getNeighboringCellIndices
         CodeNumInRing / CodeTotalUpTo / CodeRingsToHold <- utils/hexagon.py numPositionsInRing /
                             totalPositionsUpToRing / numRingsToHoldNumCells (the float sqrt is transcribed
                             with its exact real meaning: least r with (2r-1)^2 >= 1 + (4(n-1)) \div 3).
   The theorems at the bottom (operators named Thm...) say that layer (2) equals layer (1) and state the clauses of C07 for
   every cell within N rings; HexLattice_mc checks them with TLC.  The conformance harness compares the
   REAL code with layer (1) only, so a mistake shared by the code and its transcription would still show.

   Interpretation choices
     * "ring r>1 holds 6(r-1) cells numbered contiguously": positions of ring r are exactly 1..6(r-1), and
       consecutive positions are lattice neighbours (the numbering walks the ring).
     * "least number of rings holding n cells": least r >= 0 with |Cells(r)| >= n; 0 cells need 0 rings
       (hexagon.numRingsToHoldNumCells(0) == 0).
     * The position definition uses the orientation only through the polar angle; ThmOrientationFree shows
       ring/position/neighbour order are the same for both orientations (corners-up is flats-up turned 30 deg).
*)
EXTENDS HexCore, FiniteSets, TLC      \* HexCore: distance, lattice vectors, plane coordinates, closed forms (typed for Apalache)

Orients == {"flats", "corners"}

(* ------------------------------------------ cells, distance, rings ------------------------------------------ *)
Box(d)  == {<<i, j>> : i \in (-d)..d, j \in (-d)..d}
Cells(N) == IF N <= 0 THEN {} ELSE {c \in Box(N - 1) : Dist(c) <= N - 1}
\* the cells at distance exactly d.  max(|i|,|j|,|i+j|) = d forces |i| = d or |j| = d or |i+j| = d, so it is
\* enough to filter those three pairs of lattice lines instead of the whole box (cost 6(2d+1), not (2d+1)^2).
Shell(d) == {<<i, j>> : i \in {-d, d}, j \in (-d)..d} \cup {<<i, j>> : i \in (-d)..d, j \in {-d, d}}
            \cup {<<i, s - i>> : i \in (-d)..d, s \in {-d, d}}
RingCells(r) == {c \in Shell(r - 1) : Dist(c) = r - 1}
(* ------------------------------------------ exact plane geometry ------------------------------------------ *)
\* names of the physical units of the two lattice coordinates (the harness turns them into cm for a pitch)
XUnit(o) == IF o = "flats" THEN "halfside" ELSE "halfpitch"
YUnit(o) == IF o = "flats" THEN "halfpitch" ELSE "halfside"
WX(o) == IF o = "flats" THEN 1 ELSE 3
WY(o) == IF o = "flats" THEN 3 ELSE 1
DotV(o, A, B)  == WX(o) * A[1] * B[1] + WY(o) * A[2] * B[2]                   \* * (side/2)^2
\* on lattice vectors a, b (differences of cells); XY is linear      (CrossV, Cross: HexCore)
Dot(o, a, b)   == DotV(o, XY(o, a), XY(o, b))
Len2(o, a)     == Dot(o, a, a)
Pitch2         == 12                                                         \* pitch^2 = 3 side^2 = 12 (side/2)^2

\* polar angle of V measured counter-clockwise from the direction S, in [0, 2pi): exact comparison.
\* HalfV = 0 for angles in [0, pi), 1 for [pi, 2pi); inside one half the cross product orders the angles.
HalfV(o, S, V) == LET cr == CrossV(S, V) IN IF cr > 0 \/ (cr = 0 /\ DotV(o, S, V) > 0) THEN 0 ELSE 1
BeforeV(o, S, A, B) == LET ha == HalfV(o, S, A)
                           hb == HalfV(o, S, B)
                       IN ha < hb \/ (ha = hb /\ CrossV(A, B) > 0)
AngBefore(o, s, a, b) == BeforeV(o, XY(o, s), XY(o, a), XY(o, b))

(* ------------------------------------------ ring / position (reference) ------------------------------------------ *)
\* 1 + number of cells of the same ring whose polar angle, counted from the ring's start cell, is smaller
\* (BeforeV(o, S, D, C) written out so that the half-plane of c is evaluated once)
PosIn(o, c) == IF c = <<0, 0>> THEN 1
               ELSE LET r  == Ring(c)
                        S  == XY(o, RingStart(r))
                        C  == XY(o, c)
                        hc == HalfV(o, S, C)
                    IN 1 + Cardinality({d \in RingCells(r) :
                                           LET Dv == XY(o, d)
                                               hd == HalfV(o, S, Dv)
                                           IN hd < hc \/ (hd = hc /\ CrossV(Dv, C) > 0)})
RingPosIn(o, c) == <<Ring(c), PosIn(o, c)>>
RingPos(c) == RingPosIn("flats", c)
NumInRing(r) == Cardinality(RingCells(r))
ValidRingPos(r, p) == r >= 1 /\ p \in 1..NumInRing(r)
\* the cell c of ring r with PosIn("flats", c) = p; the ring's cells, plane vectors and half-planes are
\* evaluated once (tr = <<cell, XY, half>>), the rank of a cell is counted exactly as in PosIn
FromRingPos(r, p) ==
    IF r = 1 THEN (CHOOSE c \in RingCells(1) : p = 1)
    ELSE LET S  == XY("flats", RingStart(r))
             tr == {<<c, XY("flats", c), HalfV("flats", S, XY("flats", c))>> : c \in RingCells(r)}
             rank(t) == 1 + Cardinality({u \in tr : u[3] < t[3] \/ (u[3] = t[3] /\ CrossV(u[2], t[2]) > 0)})
         IN (CHOOSE t \in tr : rank(t) = p)[1]

(* ------------------------------------------ neighbours (reference) ------------------------------------------ *)
\* XY is linear, so the cells one pitch from c are c + v for the lattice vectors v of length one pitch
\* (|v| = pitch forces |i|,|j| <= 2, hence Box(2)).
NbVecSet(o) == {v \in Box(2) : Len2(o, v) = Pitch2}
\* the geometric definition: those vectors sorted counter-clockwise by polar angle, starting with the <<1,0>> step
NbVecIn(o) == LET S == NbVecSet(o)
                  rank(v) == 1 + Cardinality({e \in S : AngBefore(o, <<1, 0>>, e, v)})
              IN [k \in 1..Cardinality(S) |-> CHOOSE v \in S : rank(v) = k]
\* ... and its value, written out so that TLC does not re-derive it on every use.  ThmNbVecIsGeometric (checked once
\* by HexLattice_mc) proves that this list IS NbVecIn(o) for both orientations.
\* NbVec == << <<1, 0>>, <<0, 1>>, <<-1, 1>>, <<-1, 0>>, <<0, -1>>, <<1, -1>> >>      (defined in HexCore)
ThmNbVecIsGeometric == \A o \in Orients : NbVecIn(o) = NbVec
NeighboursIn(o, c) == [k \in 1..6 |-> CAdd(c, NbVec[k])]      \* the same for both orientations (ThmNbVecIsGeometric)
Neighbours(c) == NeighboursIn("flats", c)

(* ------------------------------------------ counting (reference) ------------------------------------------ *)
TotalUpTo(r) == Cardinality(Cells(r))
\* least number of rings whose cells number at least n: the first r = 0, 1, 2, ... with TotalUpTo(r) >= n
RECURSIVE RingsFrom(_, _)
RingsFrom(r, n) == IF TotalUpTo(r) >= n THEN r ELSE RingsFrom(r + 1, n)
RingsToHold(n) == RingsFrom(0, n)

(* ------------------------------------------ labels ------------------------------------------ *)
\* python f"{n:03d}": width 3 including the sign
Pad3(n) == IF n < 0 THEN "-" \o (IF -n < 10 THEN "0" ELSE "") \o ToString(-n)
           ELSE (IF n < 10 THEN "00" ELSE IF n < 100 THEN "0" ELSE "") \o ToString(n)
LabelOf(nums) == IF Len(nums) = 2 THEN Pad3(nums[1]) \o "-" \o Pad3(nums[2])
                 ELSE Pad3(nums[1]) \o "-" \o Pad3(nums[2]) \o "-" \o Pad3(nums[3])
\* hex labels are ring-position[-k]  (HexGrid.getLabel); the numbers a label denotes:
HexLabelNums(c)     == RingPos(c)
HexLabelNums3(c, k) == LET rp == RingPos(c) IN <<rp[1], rp[2], k>>

(* ------------------------------------------ transcriptions of the code ------------------------------------------ *)
\* CodeRingPos, CodeRaisesAt, CodeFromRingPos, CodeNeighbours, CodeNumInRing: see HexCore.tla (shared with HexSpiral,
\* where Apalache proves for every ring that they agree with the counter-clockwise walk SpiralStep)
CodeTotalUpTo(r) == 1 + 3 * r * (r - 1)
\* int(ceil(0.5 * (1 + sqrt(1 + 4*(n-1)//3)))) with exact reals:  least integer r with 2r-1 >= sqrt(m)
CodeRingsToHold(n) ==
    IF n = 0 THEN 0
    ELSE LET m == 1 + ((4 * (n - 1)) \div 3)
         IN CHOOSE r \in 0..(n + 1) : /\ 2 * r - 1 >= 0 /\ (2 * r - 1) * (2 * r - 1) >= m
                                      /\ \A q \in 0..(r - 1) : ~(2 * q - 1 >= 0 /\ (2 * q - 1) * (2 * q - 1) >= m)

(* ------------------------------------------ theorems (checked by TLC for small N) ------------------------------------------ *)
\* -- per cell ------------------------------------------------------------------------------------------------
\* ring = hex distance + 1, where hex distance is the lattice graph distance: neighbours differ by at most one
\* ring and every cell but the centre has a neighbour one ring further in.
ThmRingIsGraphDistance(c) ==
    LET nb == Neighbours(c) IN
    /\ Ring(c) = Dist(c) + 1
    /\ \A k \in 1..6 : HAbs(Dist(nb[k]) - Dist(c)) <= 1
    /\ (c # <<0, 0>>) => \E k \in 1..6 : Dist(nb[k]) = Dist(c) - 1
    /\ (c = <<0, 0>>) <=> Dist(c) = 0
\* indices <-> (ring, position) are mutually inverse at c
ThmRingPosInverse(c) ==
    LET rp == RingPos(c) IN
    /\ ValidRingPos(rp[1], rp[2])
    /\ FromRingPos(rp[1], rp[2]) = c
\* six neighbours, one pitch away, counter-clockwise (consecutive ones are 60 degrees apart, turning left), the
\* first in the upper-right quadrant; both orientations
ThmNeighbours(o, c) ==
    LET nb == NeighboursIn(o, c)
        v(k) == CSub(nb[((k - 1) % 6) + 1], c)
    IN /\ Len(nb) = 6
       /\ \A k \in 1..6 : /\ Len2(o, v(k)) = Pitch2
                          /\ Cross(o, v(k), v(k + 1)) > 0
                          /\ 2 * Dot(o, v(k), v(k + 1)) = Pitch2           \* cos = 1/2
       /\ nb[1] = CAdd(c, <<1, 0>>)
       /\ XY(o, v(1))[1] > 0 /\ XY(o, v(1))[2] > 0
ThmOrientationFree(c) ==
    /\ RingPosIn("flats", c) = RingPosIn("corners", c)
    /\ NeighboursIn("flats", c) = NeighboursIn("corners", c)       \* by ThmNbVecIsGeometric
\* the code's arithmetic is the geometric definition
ThmCodeRingPos(c) == CodeRingPos(c) = RingPos(c)
ThmCodeFromRingPos(c) == LET rp == RingPos(c) IN ~CodeRaisesAt(rp[1], rp[2]) /\ CodeFromRingPos(rp[1], rp[2]) = c
ThmCodeNeighbours(c) == CodeNeighbours(c) = Neighbours(c)
\* the centre of a cell is one pitch times its ring distance away at the ring corners, never closer than
\* sqrt(3)/2 of that (cells of ring r lie between the inscribed and circumscribed circle of the ring hexagon)
ThmRingRadius(o, c) == LET d == Dist(c) IN
    /\ Len2(o, c) <= Pitch2 * d * d
    /\ 4 * Len2(o, c) >= 3 * Pitch2 * d * d
\* -- per ring ------------------------------------------------------------------------------------------------
\* ring r>1 holds 6(r-1) cells numbered contiguously 1..6(r-1); consecutive numbers are adjacent cells and the
\* last is adjacent to the first (the numbering walks the ring once, counter-clockwise)
ThmRingContiguous(r) ==
    LET n     == NumInRing(r)
        \* the ring's numbering as an (eagerly evaluated) set of pairs <<cell, position>>
        pairs == {<<c, PosIn("flats", c)>> : c \in RingCells(r)}
        at(p) == (CHOOSE pr \in pairs : pr[2] = p)[1]
    IN
    /\ n = (IF r = 1 THEN 1 ELSE 6 * (r - 1))
    /\ {pr[2] : pr \in pairs} = 1..n
    /\ at(1) = RingStart(r)
    /\ r > 1 => \A p \in 1..n :
            LET a == at(p)
                b == at((p % n) + 1)
            IN /\ Len2("flats", CSub(b, a)) = Pitch2
               /\ Cross("flats", a, b) > 0
    /\ \A p \in {0, n + 1} : CodeRaisesAt(r, p)                         \* refusals: exactly outside 1..n
    /\ \A p \in 1..n : ~CodeRaisesAt(r, p) /\ CodeFromRingPos(r, p) = at(p)
    \* the numbering is the walk of HexSpiral: every position is followed by its SpiralStep successor
    /\ \A p \in 1..n : LET nx == IF p < n THEN <<r, p + 1>> ELSE <<r + 1, 1>>
                        IN SpiralStep(r, p, at(p), nx[1], nx[2], IF p < n THEN at(p + 1) ELSE RingStart(r + 1))
ThmCounts(r) ==
    /\ CodeNumInRing(r) = NumInRing(r)
    /\ CodeTotalUpTo(r) = TotalUpTo(r)
    /\ TotalUpTo(r) = TotalUpTo(r - 1) + NumInRing(r)
\* -- per count -----------------------------------------------------------------------------------------------
ThmRingsToHold(n) ==
    LET r == RingsToHold(n) IN
    /\ TotalUpTo(r) >= n
    /\ r > 0 => TotalUpTo(r - 1) < n
    /\ CodeRingsToHold(n) = r
\* -- whole lattice -------------------------------------------------------------------------------------------
\* labels are injective on the cells within N rings (so an inverse exists), with and without an axial index
ThmLabelsInjective(N) ==
    LET rps == {<<c, RingPos(c)>> : c \in Cells(N)} IN
    /\ Cardinality({LabelOf(pr[2]) : pr \in rps}) = Cardinality(Cells(N))
    /\ Cardinality({LabelOf(<<pr[2][1], pr[2][2], k>>) : pr \in rps, k \in 0..1}) = 2 * Cardinality(Cells(N))
ThmRingPosBijection(N) ==
    LET rps == {RingPos(c) : c \in Cells(N)} IN
    /\ Cardinality(rps) = Cardinality(Cells(N))
    /\ rps = UNION {{<<r, p>> : p \in 1..NumInRing(r)} : r \in 1..N}
=====================================================================================================
