\* emission (workers 1): same model as Reduce_mc_thorough.cfg
CONSTANTS MaxLevel = 30  MaxStack = 1  Rich = TRUE
ACTION_CONSTRAINT Emit
INVARIANT EmitState
INIT Init
NEXT Next
CONSTRAINT Bound
VIEW View
INVARIANT TypeOK
CHECK_DEADLOCK FALSE
