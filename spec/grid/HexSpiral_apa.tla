----------------------------------------- MODULE HexSpiral_apa -----------------------------------------
(* Apalache wrapper for HexSpiral (no constants to bind; the variables are typed in HexSpiral).
   IndInit = "any state that satisfies IndInv".
     base:  apalache-mc check --init=Init    --inv=IndInv   --length=0 HexSpiral_apa.tla
     step:  apalache-mc check --init=IndInit --inv=IndInv   --length=1 HexSpiral_apa.tla
     live:  apalache-mc check --init=IndInit --inv=Progress --length=0 HexSpiral_apa.tla   (IndInv => a step exists) *)
EXTENDS HexSpiral
IndInit == ring \in Int /\ pos \in Int /\ ci \in Int /\ cj \in Int /\ IndInv
=====================================================================================================
