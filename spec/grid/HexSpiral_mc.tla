------------------------------------------ MODULE HexSpiral_mc ------------------------------------------
(* TLC run of the HexSpiral transition system up to a ring bound: the same Init / Next / IndInv / Progress that
   HexSpiral_apa proves inductive with Apalache for every ring.                                            *)
EXTENDS HexSpiral, TLC
CONSTANT MaxRing
Bound == ring <= MaxRing
=====================================================================================================
