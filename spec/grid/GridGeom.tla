-------------------------------------------- MODULE GridGeom --------------------------------------------
(* C07 -- exact coordinates of the cells of one armi grid object (armi/reactor/grids/structuredGrid.py,
   hexagonal.py, cartesian.py, axial.py, thetarz.py), shared by Nested.tla and Reduce.tla.  PURE MODULE.

   A grid is a record
     [kind  |-> "hex" | "cart" | "ax" | "trz",
      var   |-> "flats" | "corners" (hex)  /  "centred" | "offset" (cart)  /  "" (bounds grids),
      p     |-> <<w, h>>      step sizes: hex pitch <<P, P>>; Cartesian cell width and height; <<0,0>> otherwise
      off   |-> <<ox, oy, oz>>  the grid offset (StructuredGrid._offset)
      zb, tb, rb |-> bounds (sequences; <<>> where the dimension is step-defined)
      rings |-> numRings of the factory (unitStepLimits = (-rings, rings) x2, (0, 1)); 0 for bounds grids
      sym, geom |-> metadata strings,
      how   |-> (Reduce.tla only) the construction route of the object; geometry never reads it]
   Lengths are integers counting a unit u chosen by the harness (u = 0.01 cm).  Hex pitches are multiples of
   24 and Cartesian sizes multiples of 4 so that centres, bases and tops (half steps) stay integral.
   A coordinate is a pair <<a, b>> meaning (a + b*sqrt(3)) * u: with pitch = sqrt(3) * side the x of a flats-up
   hex cell and the y of a corners-up cell are rational multiples of sqrt(3), everything else is rational.
   Angles of theta-R-Z grids count eighths of a turn (pi/4): <<a, 0>> means a * pi/4.

   What is transcribed (StructuredGrid._evaluateMesh and its operators):
     step dimension    centre = unitSteps . idx + offset                    (_centroidBySteps)
                       base   = unitSteps . (idx - 1/2) + offset            (_meshBaseBySteps(idx))
                       top    = unitSteps . (idx + 1/2) + offset            (_meshBaseBySteps(idx + 1))
     bounds dimension  centre = (bounds[i] + bounds[i+1]) / 2 + offset      (_centroidByBounds)
                       base   = bounds[i] + offset, top = bounds[i+1] + offset   (_meshBaseByBounds)
                       a negative index raises IndexError
   The step vectors themselves are NOT transcribed from _getRawUnitSteps: they come from HexLattice!XY /
   CartLattice!HC, i.e. from the lattice geometry that HexLattice_mc / CartLattice_mc check.            *)
EXTENDS Integers, Sequences, FiniteSets, TLC

Hex  == INSTANCE HexLattice
Cart == INSTANCE CartLattice

(* ------------------------------- numbers a + b*sqrt(3), vectors of three ------------------------------- *)
Q0 == <<0, 0>>
QAdd(x, y) == <<x[1] + y[1], x[2] + y[2]>>
QSub(x, y) == <<x[1] - y[1], x[2] - y[2]>>
QRat(a) == <<a, 0>>
VAdd(u, w) == <<QAdd(u[1], w[1]), QAdd(u[2], w[2]), QAdd(u[3], w[3])>>
VSub(u, w) == <<QSub(u[1], w[1]), QSub(u[2], w[2]), QSub(u[3], w[3])>>
VRat(t) == <<QRat(t[1]), QRat(t[2]), QRat(t[3])>>
VZero == <<Q0, Q0, Q0>>
IAdd(s, t) == <<s[1] + t[1], s[2] + t[2], s[3] + t[3]>>

(* ------------------------------- step part, on DOUBLED indices <<I, J>> = 2*idx +- 1 ------------------------------- *)
\* XY and HC are linear resp. affine in the cell, so half steps are obtained by evaluating them on doubled
\* indices and halving the unit.
StepXY(g, I, J) ==
    IF g.kind = "hex" THEN
        LET xy == Hex!XY(g.var, <<I, J>>)
            P  == g.p[1]
        IN IF g.var = "flats"
           THEN << <<0, xy[1] * (P \div 12)>>, <<xy[2] * (P \div 4), 0>> >>      \* x: half sides, y: half pitches
           ELSE << <<xy[1] * (P \div 4), 0>>, <<0, xy[2] * (P \div 12)>> >>      \* x: half pitches, y: half sides
    ELSE IF g.kind = "cart" THEN
        << <<I * (g.p[1] \div 2), 0>>, <<J * (g.p[2] \div 2), 0>> >>
    ELSE << Q0, Q0 >>
\* coordinates of the point with doubled indices (I, J, .) in a step grid: z of a step grid is offset only
StepPoint(g, I, J) == LET s == StepXY(g, I, J) IN VAdd(<<s[1], s[2], Q0>>, VRat(g.off))

Mid(b, i) == (b[i + 1] + b[i + 2]) \div 2          \* bounds are 1-based sequences, indices 0-based
Lo(b, i)  == b[i + 1]
Hi(b, i)  == b[i + 2]
NCells(b) == Len(b) - 1

IsStep(g) == g.kind \in {"hex", "cart"}
ValidIdx(g, idx) ==
    IF IsStep(g) THEN TRUE
    ELSE IF g.kind = "ax" THEN idx[3] \in 0..(NCells(g.zb) - 1)
    ELSE idx[1] \in 0..(NCells(g.tb) - 1) /\ idx[2] \in 0..(NCells(g.rb) - 1) /\ idx[3] \in 0..(NCells(g.zb) - 1)

\* native centre / base / top of cell idx
Centre(g, idx) ==
    IF IsStep(g) THEN StepPoint(g, 2 * idx[1], 2 * idx[2])
    ELSE IF g.kind = "ax" THEN VAdd(<<Q0, Q0, QRat(Mid(g.zb, idx[3]))>>, VRat(g.off))
    ELSE VAdd(<<QRat(Mid(g.tb, idx[1])), QRat(Mid(g.rb, idx[2])), QRat(Mid(g.zb, idx[3]))>>, VRat(g.off))
Base(g, idx) ==
    IF IsStep(g) THEN StepPoint(g, 2 * idx[1] - 1, 2 * idx[2] - 1)
    ELSE IF g.kind = "ax" THEN VAdd(<<Q0, Q0, QRat(Lo(g.zb, idx[3]))>>, VRat(g.off))
    ELSE VAdd(<<QRat(Lo(g.tb, idx[1])), QRat(Lo(g.rb, idx[2])), QRat(Lo(g.zb, idx[3]))>>, VRat(g.off))
Top(g, idx) ==
    IF IsStep(g) THEN StepPoint(g, 2 * idx[1] + 1, 2 * idx[2] + 1)
    ELSE IF g.kind = "ax" THEN VAdd(<<Q0, Q0, QRat(Hi(g.zb, idx[3]))>>, VRat(g.off))
    ELSE VAdd(<<QRat(Hi(g.tb, idx[1])), QRat(Hi(g.rb, idx[2])), QRat(Hi(g.zb, idx[3]))>>, VRat(g.off))

\* theta-R-Z: x = r cos(theta), y = r sin(theta) for centres whose angle is a whole quarter turn (the bounds
\* used by the models are odd eighths, so every centre is): cos/sin in {0, 1, -1}
Cos8(m) == LET q == m % 8 IN IF q = 0 THEN 1 ELSE IF q = 4 THEN -1 ELSE 0
Sin8(m) == LET q == m % 8 IN IF q = 2 THEN 1 ELSE IF q = 6 THEN -1 ELSE 0
TrzXYZ(g, idx) == LET n == Centre(g, idx)
                      th == n[1][1]
                      r  == n[2][1]
                  IN << QRat(r * Cos8(th)), QRat(r * Sin8(th)), n[3] >>

(* ------------------------------- discrete maps of one grid ------------------------------- *)
IsAxialOnly(g) == g.kind = "ax" /\ Len(g.zb) > 1                \* iLen == jLen == 1 and kLen > 1
\* (min, stop) pairs as getIndexBounds returns them
IndexBounds(g) ==
    IF IsStep(g) THEN << <<-g.rings, g.rings>>, <<-g.rings, g.rings>>, <<0, 1>> >>
    ELSE IF g.kind = "ax" THEN << <<0, 1>>, <<0, 1>>, <<0, Len(g.zb)>> >>
    ELSE << <<0, Len(g.tb)>>, <<0, Len(g.rb)>>, <<0, Len(g.zb)>> >>
NumLocations(g) == LET b == IndexBounds(g) IN (b[1][2] - b[1][1]) * (b[2][2] - b[2][1]) * (b[3][2] - b[3][1])
\* (ring, position) of indices in this grid, <<>> where the grid has no numbering of its own (axial)
OwnRingPos(g, idx) ==
    IF g.kind = "hex" THEN Hex!RingPos(<<idx[1], idx[2]>>)
    ELSE IF g.kind = "cart" THEN Cart!RingPos(g.var, <<idx[1], idx[2]>>)
    ELSE IF g.kind = "trz" THEN <<idx[2] + 1, idx[1] + 1>>
    ELSE <<>>
LabelNums(g, idx) == IF g.kind = "hex" THEN LET rp == Hex!RingPos(<<idx[1], idx[2]>>) IN <<rp[1], rp[2], idx[3]>>
                     ELSE idx
Label(g, idx) == Hex!LabelOf(LabelNums(g, idx))
AddingIsValid(mine, parent) == IsAxialOnly(mine) /\ ~IsAxialOnly(parent)

(* ------------------------------- laws of one cell ------------------------------- *)
\* the centre is the midpoint of base and top; step cells are one unit-step diagonal wide; bounds cells are
\* exactly their bounds and stack without gaps
ThmCellIsAffine(g, idx) ==
    /\ VAdd(Base(g, idx), Top(g, idx)) = VAdd(Centre(g, idx), Centre(g, idx))
    /\ IsStep(g) => /\ Top(g, idx) = Base(g, IAdd(idx, <<1, 1, 0>>))
                    /\ VSub(Centre(g, IAdd(idx, <<1, 0, 0>>)), Centre(g, idx)) = VSub(Centre(g, <<1, 0, 0>>), Centre(g, <<0, 0, 0>>))
                    /\ VSub(Centre(g, IAdd(idx, <<0, 1, 0>>)), Centre(g, idx)) = VSub(Centre(g, <<0, 1, 0>>), Centre(g, <<0, 0, 0>>))
                    /\ Centre(g, <<0, 0, 0>>) = VRat(g.off)
                    \* Cartesian grids from fromRectangle: offset = half a cell iff isOffset, and then the
                    \* coordinates are CartLattice's half-cell coordinates times half the cell size
                    /\ g.kind = "cart" =>
                          /\ g.off = (IF g.var = "offset" THEN <<g.p[1] \div 2, g.p[2] \div 2, 0>> ELSE <<0, 0, 0>>)
                          /\ Centre(g, idx)[1][1] = Cart!HX(g.var, <<idx[1], idx[2]>>) * (g.p[1] \div 2)
                          /\ Centre(g, idx)[2][1] = Cart!HY(g.var, <<idx[1], idx[2]>>) * (g.p[2] \div 2)
                          /\ Base(g, idx)[1][1] = Cart!HBase(g.var, <<idx[1], idx[2]>>)[1] * (g.p[1] \div 2)
                          /\ Top(g, idx)[2][1] = Cart!HTop(g.var, <<idx[1], idx[2]>>)[2] * (g.p[2] \div 2)
    /\ g.kind = "ax" => /\ Base(g, idx)[3][1] < Top(g, idx)[3][1]
                        /\ (ValidIdx(g, IAdd(idx, <<0, 0, 1>>)) => Top(g, idx) = Base(g, IAdd(idx, <<0, 0, 1>>)))
    /\ g.kind = "trz" => \A d \in 1..3 : Base(g, idx)[d][1] <= Top(g, idx)[d][1]
=====================================================================================================
