\* exhaustive: cells with |index| <= 4 x {centre cell, no centre cell} x {periodic (square cells), reflective, full (square, 2x1, 1x3 cells)};
\* act is part of the state; quick: every Apply / ChangePitch step out of every state (all states are initial); thorough (MaxLevel 3) also two steps in a row
CONSTANTS R = 4  MaxLevel = 2  RectPitches <- RectP  SquarePitches <- SquareP  AllSp = FALSE
INIT Init
NEXT NextB
CONSTRAINT Bound
INVARIANT TypeOK
INVARIANT OffsetIsHalfCell
INVARIANT CentreIsGeometric
INVARIANT CellAtExact
INVARIANT GroupOrder
INVARIANT EquivalentsAreImages
INVARIANT DomainIsQuadrant
INVARIANT OrbitHasOneInDomain
INVARIANT LineCellsCounted
INVARIANT OrbitStableUnderGroup
INVARIANT ChangePitchKeepsCells
CHECK_DEADLOCK FALSE
