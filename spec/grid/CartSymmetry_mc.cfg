\* exhaustive: cells with |index| <= 6 x {centre cell, no centre cell} x {periodic, reflective, full}; act is part of the state
CONSTANTS R = 6  MaxLevel = 2
INIT Init
NEXT NextB
CONSTRAINT Bound
INVARIANT TypeOK
INVARIANT CellAtExact
INVARIANT GroupOrder
INVARIANT EquivalentsAreImages
INVARIANT DomainIsQuadrant
INVARIANT OrbitHasOneInDomain
INVARIANT LineCellsCounted
INVARIANT OrbitStableUnderGroup
CHECK_DEADLOCK FALSE
