\* exhaustive: hex (2 orientations x 3 pitches x 2 offsets x 2 metadata), Cartesian (2 variants x 3 sizes x 2 metadata),
\* axial and theta-R-Z bounds grids (2 offsets each)
CONSTANTS MaxLevel = 12
INIT Init
NEXT Next
CONSTRAINT Bound
VIEW View
INVARIANT TypeOK
INVARIANT CellsAreAffine
INVARIANT ReduceDetermines
INVARIANT PitchRescalesOnly
PROPERTY RefusalsChangeNothing
CHECK_DEADLOCK FALSE
