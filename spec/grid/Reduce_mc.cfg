\* exhaustive (quick): hex (2 orientations, float- and int-built), Cartesian (2 variants; factory, int factory, int
\* constructor), axial and theta-R-Z bounds grids; 3 pitch values per class; backUp stack depth 1; one snapshot
CONSTANTS MaxLevel = 30  MaxStack = 1  Rich = FALSE
INIT Init
NEXT Next
CONSTRAINT Bound
VIEW View
INVARIANT TypeOK
INVARIANT CellsAreAffine
INVARIANT ReduceDetermines
INVARIANT PitchRescalesOnly
PROPERTY RefusalsChangeNothing
PROPERTY OnlySnapshotTouchesTaken
PROPERTY BackupDiscipline
CHECK_DEADLOCK FALSE
