\* exhaustive: all cells within 7 rings x both orientations x k in -7..7 and +-{36, 601, 100003}; act is part of the state
CONSTANTS N = 7  K = 7  BigK = {36, 601, 100003} AllKz = FALSE  AllSp = FALSE  MaxLevel = 2
INIT Init
NEXT NextB
CONSTRAINT Bound
INVARIANT TypeOK
INVARIANT GeoRotExact
INVARIANT EquivalentsAreImages
INVARIANT EquivalentsOrdered
INVARIANT EquivalentsClosed
INVARIANT OrbitHasOneInDomain
INVARIANT OrbitWithOverlap
INVARIANT FirstThirdIsSector
INVARIANT LinesAgreeWithCoordinates
INVARIANT RingPosIsCcwWalk
INVARIANT CellNumberRotation
INVARIANT RotateIsGeometric
INVARIANT RotateAdditive
INVARIANT RotateSixIsIdentity
INVARIANT RotatePreservesRing
INVARIANT RotateKeepsAxial
CHECK_DEADLOCK FALSE
