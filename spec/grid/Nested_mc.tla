------------------------------------------- MODULE Nested_mc -------------------------------------------
EXTENDS Nested, Json
CONSTANT MaxLevel
Bound == TLCGet("level") <= MaxLevel
View  == vars
Vars  == [chain |-> chain, rooted |-> rooted, coreAt |-> CoreAt]    \* coreAt: where the harness must put the core
Emit  == PrintT(ToJson([lvl |-> TLCGet("level"), from |-> Vars, act |-> act', to |-> Vars', err |-> err']))
EmitState == PrintT(ToJson([st |-> Vars, obs |-> Obs]))
=====================================================================================================
