------------------------------------------- MODULE Nested_mc -------------------------------------------
EXTENDS Nested, Json
CONSTANT MaxLevel
Bound == TLCGet("level") <= MaxLevel
View  == vars
Vars  == [chain |-> chain]
Emit  == PrintT(ToJson([lvl |-> TLCGet("level"), from |-> Vars, act |-> act', to |-> Vars', err |-> err']))
EmitState == PrintT(ToJson([st |-> Vars, obs |-> Obs]))
=====================================================================================================
