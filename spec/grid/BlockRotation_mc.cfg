\* exhaustive: assemblies of 2 blocks (pairs p1+p7, p19+singles, mixed+nogrid, prism+families, both orientations), k in -6..6 (the emission configs go to +-7); act/prev part of the state
CONSTANTS K = 6  H = 1  NB = 2  Layouts = {"p1", "p19", "mixed", "prism"}  TieDi = TRUE  MaxLevel = 3
INIT Init
NEXT NextB
CONSTRAINT Bound
INVARIANT TypeOK
INVARIANT ShapeKept
INVARIANT CellsFollowGeometry
INVARIANT FamiliesStayDisjoint
INVARIANT FreePointsFollowGeometry
INVARIANT BoundaryDataFollowGeometry
INVARIANT OtherValuesUntouched
INVARIANT DisplacementFollowsGeometry
INVARIANT OrientationAdvances
INVARIANT OnlyTargetsMove
INVARIANT RefusalChangesNothing
INVARIANT LegalIsAccepted
INVARIANT Additive
INVARIANT SixIsIdentity
CHECK_DEADLOCK FALSE
