\* exhaustive: assemblies of 2 blocks, first block over all 2 x 6 x 4 configurations, k in -7..7, act/prev part of the state
CONSTANTS K = 7  H = 3  NB = 2  Layouts = {"p1", "p7", "p19", "singles", "mixed", "nogrid"}  MaxLevel = 3
INIT Init
NEXT Next
CONSTRAINT Bound
INVARIANT TypeOK
INVARIANT ShapeKept
INVARIANT CellsFollowGeometry
INVARIANT FreePointsFollowGeometry
INVARIANT BoundaryDataFollowGeometry
INVARIANT OtherValuesUntouched
INVARIANT DisplacementFollowsGeometry
INVARIANT OrientationAdvances
INVARIANT OnlyTargetsMove
INVARIANT RefusalChangesNothing
INVARIANT LegalIsAccepted
INVARIANT Additive
INVARIANT SixIsIdentity
CHECK_DEADLOCK FALSE
