\* exhaustive and emission in one run (the model is small): 8 loadings x 2 core orientations; one pre-rotation, Grow, Shrink
CONSTANTS KPre <- KPreSet  Variants = 8  MaxLevel = 5
ACTION_CONSTRAINT Emit
INVARIANT EmitState
INIT Init
NEXT Next
CONSTRAINT Bound
VIEW View
INVARIANT TypeOK
INVARIANT OneAssemblyPerCell
INVARIANT ThirdCoreInDomain
INVARIANT GrowCount
INVARIANT FullCoreIsSymmetric
INVARIANT ShrinkRestores
CHECK_DEADLOCK FALSE
