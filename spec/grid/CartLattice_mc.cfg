\* exhaustive: all cells within 6 rings, both centre variants (121 + 144 cells), counts 1..150
CONSTANTS R = 6  MaxCount = 150  MaxLevel = 400  KAx = 4
INIT Init
NEXT Next
CONSTRAINT Bound
VIEW View
INVARIANT TypeOK
INVARIANT CodeArithmetic
INVARIANT CellBox
INVARIANT NeighboursOnePitch
INVARIANT RingNumbering
INVARIANT RingPosInjective
INVARIANT LabelsInjective
INVARIANT MinimumRingsExact
PROPERTY RefusalsChangeNothing
CHECK_DEADLOCK FALSE
