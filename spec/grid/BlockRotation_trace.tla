--------------------------------------- MODULE BlockRotation_trace ---------------------------------------
(* code -> spec: recorded random rotation histories of real HexAssemblies.  A trace is
   {"id", "cfg": [{"o","lay","di"}, ..one per block..], "ev": [{"a": <action>, "post": {"err": .., "obs": <Obs>}}, ..]}
   with <action> one of {"n":"RotateBlock","b","k"}, {"n":"RotateAssembly","k"}, {"n":"RotateAssemblyOffGrid","h"}.
   Every event must be that action of BlockRotation, with the complete projected post-state equal to the spec's. *)
EXTENDS BlockRotation, IOUtils, TLCExt
Traces == ndJsonDeserialize(IOEnv.TRACE_FILE)
NT     == Len(Traces)
VARIABLES tid, l
ASSUME \A t \in 1..NT : TLCSet(t, 0)
TInit == /\ tid \in 1..NT /\ l = 1
         /\ blocks = [b \in 1..Len(Traces[tid].cfg) |-> InitBlock(Traces[tid].cfg[b])]
         /\ tot = [b \in 1..Len(Traces[tid].cfg) |-> 0]
         /\ err = "" /\ act = [n |-> "Init"] /\ prev = blocks
Ev == Traces[tid].ev[l]
A  == Ev.a
Step == \/ A.n = "RotateBlock" /\ RotateBlock(A.b, A.k)
        \/ A.n = "RotateAssembly" /\ RotateAssembly(A.k)
        \/ A.n = "RotateAssemblyOffGrid" /\ RotateAssemblyOffGrid(A.h)
Post == [err |-> err', obs |-> Obs']
ObsMatch == \/ Post = Ev.post
            \/ /\ Post # Ev.post
               /\ PrintT(ToJson([mismatch |-> Traces[tid].id, at |-> l, expected |-> Post]))
               /\ FALSE
TNext == /\ l <= Len(Traces[tid].ev) /\ l' = l + 1 /\ tid' = tid
         /\ Step
         /\ ObsMatch
TSpec == TInit /\ [][TNext]_<<blocks, tot, err, act, prev, tid, l>>
Progress == IF TLCGet(tid) < l THEN TLCSet(tid, l) ELSE TRUE
Report == LET bad == {t \in 1..NT : TLCGet(t) # Len(Traces[t].ev) + 1} IN
          /\ \A t \in bad : PrintT(ToJson([rejected |-> Traces[t].id, matched |-> TLCGet(t) - 1]))
          /\ PrintT(ToJson([accepted |-> NT - Cardinality(bad), of |-> NT]))
==========================================================================================================
