\* emission, single blocks: every configuration, k in -13..13, whole graph
CONSTANTS K = 13  H = 5  NB = 1  Layouts = {"p1", "p7", "p19", "singles", "mixed", "nogrid", "prism", "families"}  TieDi = FALSE  MaxLevel = 3
ACTION_CONSTRAINT Emit
INVARIANT EmitState
INIT Init
NEXT Next
CONSTRAINT Bound
VIEW View
INVARIANT TypeOK
CHECK_DEADLOCK FALSE
