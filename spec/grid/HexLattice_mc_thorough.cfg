\* exhaustive: all cells within 24 rings (1657 cells) x 2 orientations, counts 0..1740
CONSTANTS N = 24  MaxCount = 1740  MaxLevel = 2000  KAx = 4
INIT Init
NEXT Next
CONSTRAINT Bound
VIEW View
INVARIANT TypeOK
INVARIANT RingIsDistancePlusOne
INVARIANT RingPosInverse
INVARIANT NeighboursOnePitchCCW
INVARIANT OrientationFree
INVARIANT RingRadius
INVARIANT CodeArithmetic
INVARIANT RingContiguous
INVARIANT NeighbourListIsGeometric
INVARIANT LabelsInjective
INVARIANT RingPosBijection
INVARIANT RingsToHoldExact
PROPERTY RefusalsChangeNothing
CHECK_DEADLOCK FALSE
