\* emission: one observation line per (th, bc, c, pitch) and one line per generator / changePitch step
CONSTANTS R = 4  MaxLevel = 2  RectPitches <- RectP  SquarePitches <- SquareP  AllSp = FALSE
ACTION_CONSTRAINT Emit
INVARIANT EmitState
INIT Init
NEXT NextE
CONSTRAINT Bound
VIEW View
INVARIANT TypeOK
CHECK_DEADLOCK FALSE
