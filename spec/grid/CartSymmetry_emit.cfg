\* emission: one observation line per (th, bc, c) and one line per generator step
CONSTANTS R = 6  MaxLevel = 2
ACTION_CONSTRAINT Emit
INVARIANT EmitState
INIT Init
NEXT Next
CONSTRAINT Bound
VIEW View
INVARIANT TypeOK
CHECK_DEADLOCK FALSE
