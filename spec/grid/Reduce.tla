--------------------------------------------- MODULE Reduce ---------------------------------------------
(* C07 -- one grid object over its life: constructor-argument round trip and pitch changes
   (armi/reactor/grids/structuredGrid.py StructuredGrid.reduce / offset setter, hexagonal.py
   HexGrid.changePitch, cartesian.py CartesianGrid.changePitch).

   State   g   the grid descriptor of GridGeom (kind, variant, step sizes, offset, bounds, limits, metadata)
   Actions
     ChangePitch(p)  hex: changePitch(P');  Cartesian: changePitch(w', h'), which "also scales the offset"
                     (offset_x * w'/w, offset_y * h'/h, 0)
     SetOffset(off)  grid.offset = off            (hex and bounds grids; Cartesian grids derive theirs)
     Rebuild         the object is replaced by a new type(g) built from the arguments g.reduce(); the abstract state must not change
     NoPitch         refusal: ThetaRZGrid.pitch() raises NotImplementedError, nothing changes
   Clauses
     "a grid rebuilt from its stored constructor arguments gives the same coordinates and metadata for every
      index"      Rebuild leaves g -- hence every observation -- unchanged (binding: the harness rebuilds the real
                  object and compares the complete observation); in-spec: ReduceDetermines says the reduce()
                  tuple determines the descriptor among all modelled grids of the class.
     "changing the pitch rescales coordinates and nothing else"   PitchRescalesOnly.
   Interpretation: for a hex grid with a non-zero offset, changePitch rescales the step part (coordinate minus
   offset) and keeps the offset; for Cartesian grids the offset is half a cell by construction and is rescaled
   with the cell, as the method documents.                                                                *)
EXTENDS GridGeom

VARIABLES g, act, err
vars == <<g>>

NoB == <<>>
HexPitches  == {<<1680, 1680>>, <<24, 24>>, <<720, 720>>}
CartPitches == {<<2100, 2140>>, <<100, 60>>, <<128, 128>>}
Offsets     == {<<0, 0, 0>>, <<50, -225, 300>>}
ZOffsets    == {<<0, 0, 0>>, <<0, 0, 300>>}
AxZ  == <<0, 2500, 10000, 17600>>
TrzT == <<1, 3, 5, 7>>                     \* eighths of a turn: cell centres at pi/2, pi, 3pi/2
TrzR == <<0, 200, 250, 300>>
TrzZ == <<0, 1000, 2000, 3000>>

HexGrid(var, p, off, sym, geom) == [kind |-> "hex", var |-> var, p |-> p, off |-> off, zb |-> NoB, tb |-> NoB, rb |-> NoB,
                                    rings |-> 3, sym |-> sym, geom |-> geom]
CartOff(var, p) == IF var = "offset" THEN <<p[1] \div 2, p[2] \div 2, 0>> ELSE <<0, 0, 0>>
CartGrid(var, p, sym, geom) == [kind |-> "cart", var |-> var, p |-> p, off |-> CartOff(var, p), zb |-> NoB, tb |-> NoB,
                                rb |-> NoB, rings |-> 3, sym |-> sym, geom |-> geom]
AxGrid(off)  == [kind |-> "ax", var |-> "", p |-> <<0, 0>>, off |-> off, zb |-> AxZ, tb |-> NoB, rb |-> NoB,
                 rings |-> 0, sym |-> "", geom |-> ""]
\* AxialGrid.fromNCells(3): "each bin is 1-cm tall" (100 units), numCells + 1 bounds
AxUnit(off)  == [kind |-> "ax", var |-> "unit", p |-> <<0, 0>>, off |-> off, zb |-> <<0, 100, 200, 300>>, tb |-> NoB,
                 rb |-> NoB, rings |-> 0, sym |-> "", geom |-> ""]
TrzGrid(off) == [kind |-> "trz", var |-> "", p |-> <<0, 0>>, off |-> off, zb |-> TrzZ, tb |-> TrzT, rb |-> TrzR,
                 rings |-> 0, sym |-> "", geom |-> ""]

\* every descriptor the model can reach
AllGrids ==
    {HexGrid(v, p, o, s[1], s[2]) : v \in {"flats", "corners"}, p \in HexPitches, o \in Offsets,
                                    s \in {<<"", "">>, <<"third periodic", "hex">>}}
    \cup {CartGrid(v, p, s[1], s[2]) : v \in {"centred", "offset"}, p \in CartPitches,
                                       s \in {<<"", "">>, <<"quarter reflective", "cartesian">>}}
    \cup {AxGrid(o) : o \in Offsets} \cup {AxUnit(o) : o \in Offsets} \cup {TrzGrid(o) : o \in ZOffsets}
Pitches(k) == IF k = "hex" THEN HexPitches ELSE IF k = "cart" THEN CartPitches ELSE {}
FirstPitch(k) == IF k = "hex" THEN <<1680, 1680>> ELSE IF k = "cart" THEN <<2100, 2140>> ELSE <<0, 0>>

Changed(gr, p) ==
    IF gr.kind = "hex" THEN [gr EXCEPT !.p = p]
    ELSE [gr EXCEPT !.p = p,
                    !.off = <<(gr.off[1] * p[1]) \div gr.p[1], (gr.off[2] * p[2]) \div gr.p[2], 0>>]

Init == /\ g \in {x \in AllGrids : x.p = FirstPitch(x.kind) /\ x.off \in {<<0, 0, 0>>, CartOff(x.var, x.p)}}
        /\ act = [n |-> "Init"] /\ err = ""
ChangePitch(p) == /\ p \in Pitches(g.kind) /\ p # g.p
                  /\ g' = Changed(g, p)
                  /\ act' = [n |-> "ChangePitch", p |-> p] /\ err' = ""
SetOffset(off) == /\ g.kind # "cart" /\ off # g.off
                  /\ off \in (IF g.kind = "trz" THEN ZOffsets ELSE Offsets)
                  /\ g' = [g EXCEPT !.off = off]
                  /\ act' = [n |-> "SetOffset", off |-> off] /\ err' = ""
Rebuild == UNCHANGED g /\ act' = [n |-> "Rebuild"] /\ err' = ""
NoPitch == g.kind = "trz" /\ UNCHANGED g /\ act' = [n |-> "NoPitch"] /\ err' = "NotImplementedError"
Next == \/ \E p \in HexPitches \cup CartPitches : ChangePitch(p)
        \/ \E off \in Offsets \cup ZOffsets : SetOffset(off)
        \/ Rebuild
        \/ NoPitch

(* ------------------------------------ what reduce() stores ------------------------------------ *)
\* unit steps as the 3x3 matrix (dx/di dx/dj dx/dk), (dy/..), (dz/..) of numbers a + b sqrt(3); bounds grids: zeros
UnitSteps(gr) ==
    IF IsStep(gr)
    THEN LET di == StepXY(gr, 2, 0)
             dj == StepXY(gr, 0, 2)
         IN << <<di[1], dj[1], Q0>>, <<di[2], dj[2], Q0>>, <<Q0, Q0, Q0>> >>
    ELSE << <<Q0, Q0, Q0>>, <<Q0, Q0, Q0>>, <<Q0, Q0, Q0>> >>
Bounds(gr) == <<gr.tb, gr.rb, gr.zb>>
Reduced(gr) == [unitSteps |-> UnitSteps(gr), bounds |-> Bounds(gr), limits |-> IndexBounds(gr),
                offset |-> gr.off, geom |-> gr.geom, sym |-> gr.sym]
\* within one class the stored arguments determine the grid (nothing the observations depend on is lost)
ReduceDetermines == \A h \in AllGrids : (h.kind = g.kind /\ Reduced(h) = Reduced(g)) => h = g

(* ------------------------------------ samples and laws ------------------------------------ *)
Samples(gr) == IF IsStep(gr) THEN << <<0, 0, 0>>, <<1, 0, 0>>, <<-1, 2, 0>>, <<2, -3, 0>>, <<0, -1, 0>>, <<-2, 1, 1>> >>
               ELSE IF gr.kind = "ax" THEN << <<0, 0, 0>>, <<0, 0, 1>>, <<0, 0, 2>> >>
               ELSE << <<0, 0, 0>>, <<1, 2, 1>>, <<2, 1, 2>> >>
SampleSet(gr) == {Samples(gr)[t] : t \in 1..Len(Samples(gr))}
TypeOK == g \in AllGrids
CellsAreAffine == \A idx \in SampleSet(g) : ValidIdx(g, idx) /\ ThmCellIsAffine(g, idx)
\* number q = a + b sqrt(3) scaled:  q1 * n2 = q2 * n1  componentwise
QProp(q1, n1, q2, n2) == q1[1] * n2 = q2[1] * n1 /\ q1[2] * n2 = q2[2] * n1
Discrete(gr) == [kind |-> gr.kind, var |-> gr.var, bounds |-> Bounds(gr), limits |-> IndexBounds(gr),
                 nloc |-> NumLocations(gr), sym |-> gr.sym, geom |-> gr.geom, axial |-> IsAxialOnly(gr),
                 rp |-> [t \in 1..Len(Samples(gr)) |-> OwnRingPos(gr, Samples(gr)[t])],
                 lab |-> [t \in 1..Len(Samples(gr)) |-> Label(gr, Samples(gr)[t])]]
\* every pitch change possible in this state rescales the step part of every coordinate by the pitch ratio
\* (x by w'/w, y by h'/h), keeps z, and leaves every discrete map and all metadata as they were
PitchRescalesOnly ==
    \A p \in Pitches(g.kind) :
        LET h == Changed(g, p) IN
        /\ Discrete(h) = Discrete(g)
        /\ (g.kind = "hex" => h.off = g.off)
        /\ \A idx \in SampleSet(g) :
             LET a == VSub(Centre(g, idx), VRat(g.off))
                 b == VSub(Centre(h, idx), VRat(h.off))
             IN /\ QProp(b[1], p[1], a[1], g.p[1]) /\ QProp(b[2], p[2], a[2], g.p[2]) /\ b[3] = a[3]
        \* Cartesian: the whole coordinate (offset included) rescales
        /\ (g.kind = "cart" => \A idx \in SampleSet(g) :
               /\ QProp(Centre(h, idx)[1], p[1], Centre(g, idx)[1], g.p[1])
               /\ QProp(Base(h, idx)[2], p[2], Base(g, idx)[2], g.p[2]))
RefusalsChangeNothing == [][err' # "" => UNCHANGED vars]_<<g, act, err>>

(* ------------------------------------ observation ------------------------------------ *)
CellObs(idx) == [idx    |-> idx,
                 centre |-> Centre(g, idx),       \* native: (theta, r, z) for theta-R-Z grids
                 base   |-> Base(g, idx),
                 top    |-> Top(g, idx),
                 xyz    |-> IF g.kind = "trz" THEN TrzXYZ(g, idx) ELSE Centre(g, idx),
                 rp     |-> OwnRingPos(g, idx),
                 label  |-> Label(g, idx),
                 nums   |-> LabelNums(g, idx)]      \* the numbers the label denotes (ring, position, k for hex)
Obs == [kind   |-> g.kind,
        var    |-> g.var,
        pitch  |-> g.p,
        offset |-> g.off,
        reducedOffsetIsNone |-> (g.off = <<0, 0, 0>>),
        bounds |-> Bounds(g),
        limits |-> IndexBounds(g),
        nloc   |-> NumLocations(g),
        sym    |-> g.sym,
        geom   |-> g.geom,
        axial  |-> IsAxialOnly(g),
        cells  |-> [t \in 1..Len(Samples(g)) |-> CellObs(Samples(g)[t])]]
=====================================================================================================
