--------------------------------------------- MODULE Reduce ---------------------------------------------
(* C07 -- one grid object over its life: constructor-argument round trip, pitch changes, saved state
   (armi/reactor/grids/structuredGrid.py StructuredGrid.reduce / backUp / restoreBackup / offset setter,
   hexagonal.py HexGrid.changePitch, cartesian.py CartesianGrid.changePitch).

   State   g      the grid descriptor of GridGeom (kind, variant, step sizes, offset, bounds, limits, metadata)
                  plus `how`, the way the object was constructed -- nothing observable may depend on it:
                    "factory"  fromPitch / fromRectangle / bounds constructors with float arguments
                    "ints"     the same factories called with python ints (whole-cm sizes)
                    "ctor"     CartesianGrid(unitSteps=((w,0,0),(0,h,0),(0,0,0)) given as python ints, ...)
           stack  what backUp() saved and restoreBackup() has not yet taken back (LIFO): <<[p, off], ...>>
           taken  <<>> or <<descriptor at the moment Snapshot was taken>>: the harness keeps the tuple that
                  reduce() returned then and a second grid built from that tuple
   Actions
     ChangePitch(p)  hex: changePitch(P');  Cartesian: changePitch(w', h'), which "also scales the offset"
                     (offset_x * w'/w, offset_y * h'/h, 0); the new sizes include non-integral numbers of cm
                     (2.5 x 3.5 cm, 0.24 cm, 16.8 cm) applied to grids built from whole numbers
     SetOffset(off)  grid.offset = off            (hex and bounds grids; Cartesian grids derive theirs)
     BackUp          grid.backUp()                 push the current pitch and offset
     RestoreBackup   grid.restoreBackup()          pitch, offset (and bounds) return to the values at the matching backUp
     Snapshot        remember reduce() and build a twin from it; from then on both must keep describing `taken`
     Rebuild         the object is replaced by a new type(g) built from the arguments g.reduce(); the abstract
                     grid must not change (the new object has no saved state: stack' = <<>>)
     NoPitch         refusal: ThetaRZGrid.pitch() raises NotImplementedError, nothing changes
   Clauses
     "a grid rebuilt from its stored constructor arguments gives the same coordinates and metadata for every
      index"      Rebuild leaves g -- hence every observation -- unchanged (binding: the harness rebuilds the real
                  object and compares the complete observation); in-spec: ReduceDetermines says the reduce()
                  tuple determines the descriptor among all modelled grids of the class.
     "changing the pitch rescales coordinates and nothing else"   PitchRescalesOnly for the grid itself;
                  "nothing else" also covers state taken earlier: OnlySnapshotTouchesTaken (the reduce() tuple and
                  the twin are not changed by any later action) and the stack discipline of BackUp/RestoreBackup
                  (a later ChangePitch/SetOffset does not reach into what backUp saved).
   Interpretation: for a hex grid with a non-zero offset, changePitch rescales the step part (coordinate minus
   offset) and keeps the offset; for Cartesian grids the offset is half a cell by construction and is rescaled
   with the cell, as the method documents.                                                                *)
EXTENDS GridGeom

CONSTANTS MaxStack,     \* depth of the backUp stack explored
          Rich          \* TRUE: all pitch values; FALSE: a smaller set for the quick tier

VARIABLES g, stack, taken, act, err
vars == <<g, stack, taken>>

NoB == <<>>
\* 2400 = 24 cm and 200 x 300 = 2 x 3 cm are the whole-number sizes grids are built from with ints;
\* 250 x 350 = 2.5 x 3.5 cm, 24 = 0.24 cm, 1680 = 16.8 cm are not whole numbers of cm
\* Pitch changes by a ratio close to one (thermal expansion) need exact rationals: 480000 * (1 +- 1/20000) = 480024,
\* 479976 and 24000000 * (1 + 1/1000000) = 24000024 are again multiples of 24.  (The absolute size, 4800 cm resp.
\* 240000 cm, is irrelevant: every law is relative.)  Pitches form groups; ChangePitch stays inside a group.
HexSmallChange == {<<480000, 480000>>, <<480024, 480024>>, <<479976, 479976>>, <<24000000, 24000000>>, <<24000024, 24000024>>}
HexPitches  == (IF Rich THEN {<<1680, 1680>>, <<24, 24>>, <<720, 720>>, <<2400, 2400>>}
                ELSE {<<1680, 1680>>, <<24, 24>>, <<2400, 2400>>}) \cup HexSmallChange
Group(p) == IF p[1] < 100000 THEN "A" ELSE IF p[1] < 1000000 THEN "B" ELSE "C"
CartPitches == IF Rich THEN {<<2100, 2140>>, <<100, 60>>, <<128, 128>>, <<250, 350>>, <<200, 300>>}
               ELSE {<<2100, 2140>>, <<250, 350>>, <<200, 300>>}
Offsets     == {<<0, 0, 0>>, <<50, -225, 300>>}
ZOffsets    == {<<0, 0, 0>>, <<0, 0, 300>>}
AxZ  == <<0, 2500, 10000, 17600>>
TrzT == <<1, 3, 5, 7>>                     \* eighths of a turn: cell centres at pi/2, pi, 3pi/2
TrzR == <<0, 200, 250, 300>>
TrzZ == <<0, 1000, 2000, 3000>>

HexGrid(var, p, off, sym, geom, how) ==
    [kind |-> "hex", var |-> var, p |-> p, off |-> off, zb |-> NoB, tb |-> NoB, rb |-> NoB,
     rings |-> 3, sym |-> sym, geom |-> geom, how |-> how]
CartOff(var, p) == IF var = "offset" THEN <<p[1] \div 2, p[2] \div 2, 0>> ELSE <<0, 0, 0>>
CartGrid(var, p, sym, geom, how) ==
    [kind |-> "cart", var |-> var, p |-> p, off |-> CartOff(var, p), zb |-> NoB, tb |-> NoB,
     rb |-> NoB, rings |-> 3, sym |-> sym, geom |-> geom, how |-> how]
AxGrid(off)  == [kind |-> "ax", var |-> "", p |-> <<0, 0>>, off |-> off, zb |-> AxZ, tb |-> NoB, rb |-> NoB,
                 rings |-> 0, sym |-> "", geom |-> "", how |-> "factory"]
\* AxialGrid.fromNCells(3): "each bin is 1-cm tall" (100 units), numCells + 1 bounds
AxUnit(off)  == [kind |-> "ax", var |-> "unit", p |-> <<0, 0>>, off |-> off, zb |-> <<0, 100, 200, 300>>, tb |-> NoB,
                 rb |-> NoB, rings |-> 0, sym |-> "", geom |-> "", how |-> "factory"]
TrzGrid(off) == [kind |-> "trz", var |-> "", p |-> <<0, 0>>, off |-> off, zb |-> TrzZ, tb |-> TrzT, rb |-> TrzR,
                 rings |-> 0, sym |-> "", geom |-> "", how |-> "factory"]

\* every descriptor the model can reach
AllGrids ==
    {HexGrid(v, p, o, s[1], s[2], "factory") : v \in {"flats", "corners"}, p \in HexPitches, o \in Offsets,
                                               s \in {<<"", "">>, <<"third periodic", "hex">>}}
    \cup {HexGrid(v, p, o, "", "", "ints") : v \in {"flats", "corners"}, p \in HexPitches, o \in Offsets}
    \cup {CartGrid(v, p, s[1], s[2], "factory") : v \in {"centred", "offset"}, p \in CartPitches,
                                                  s \in {<<"", "">>, <<"quarter reflective", "cartesian">>}}
    \cup {CartGrid(v, p, "", "", h) : v \in {"centred", "offset"}, p \in CartPitches, h \in {"ints", "ctor"}}
    \cup {AxGrid(o) : o \in Offsets} \cup {AxUnit(o) : o \in Offsets} \cup {TrzGrid(o) : o \in ZOffsets}
Pitches(k) == IF k = "hex" THEN HexPitches ELSE IF k = "cart" THEN CartPitches ELSE {}
\* the size an object is constructed with: floats for "factory", whole numbers of cm otherwise
FirstPitch(k, how) == IF k = "hex" THEN (IF how = "factory" THEN <<1680, 1680>> ELSE <<2400, 2400>>)
                      ELSE IF k = "cart" THEN (IF how = "factory" THEN <<2100, 2140>> ELSE <<200, 300>>)
                      ELSE <<0, 0>>

Changed(gr, p) ==
    IF gr.kind = "hex" THEN [gr EXCEPT !.p = p]
    ELSE [gr EXCEPT !.p = p,
                    !.off = <<(gr.off[1] * p[1]) \div gr.p[1], (gr.off[2] * p[2]) \div gr.p[2], 0>>]
Saved(gr) == [p |-> gr.p, off |-> gr.off]

\* the small-change groups start from float-built hex grids without metadata
SmallStart(x) == x.kind = "hex" /\ x.how = "factory" /\ x.sym = "" /\ x.p \in {<<480000, 480000>>, <<24000000, 24000000>>}
Init == /\ g \in {x \in AllGrids : (x.p = FirstPitch(x.kind, x.how) \/ SmallStart(x)) /\ x.off \in {<<0, 0, 0>>, CartOff(x.var, x.p)}}
        /\ stack = <<>> /\ taken = <<>>
        /\ act = [n |-> "Init"] /\ err = ""
ChangePitch(p) == /\ p \in Pitches(g.kind) /\ p # g.p /\ Group(p) = Group(g.p)
                  /\ g' = Changed(g, p) /\ UNCHANGED <<stack, taken>>
                  /\ act' = [n |-> "ChangePitch", p |-> p] /\ err' = ""
SetOffset(off) == /\ g.kind # "cart" /\ off # g.off
                  /\ off \in (IF g.kind = "trz" THEN ZOffsets ELSE Offsets)
                  /\ g' = [g EXCEPT !.off = off] /\ UNCHANGED <<stack, taken>>
                  /\ act' = [n |-> "SetOffset", off |-> off] /\ err' = ""
BackUp == /\ Len(stack) < MaxStack
          /\ stack' = Append(stack, Saved(g)) /\ UNCHANGED <<g, taken>>
          /\ act' = [n |-> "BackUp"] /\ err' = ""
RestoreBackup == /\ stack # <<>>
                 /\ g' = [g EXCEPT !.p = stack[Len(stack)].p, !.off = stack[Len(stack)].off]
                 /\ stack' = SubSeq(stack, 1, Len(stack) - 1) /\ UNCHANGED taken
                 /\ act' = [n |-> "RestoreBackup"] /\ err' = ""
Snapshot == /\ taken = <<>>
            /\ taken' = <<g>> /\ UNCHANGED <<g, stack>>
            /\ act' = [n |-> "Snapshot"] /\ err' = ""
Rebuild == /\ UNCHANGED <<g, taken>> /\ stack' = <<>>
           /\ act' = [n |-> "Rebuild"] /\ err' = ""
NoPitch == g.kind = "trz" /\ UNCHANGED vars /\ act' = [n |-> "NoPitch"] /\ err' = "NotImplementedError"
Next == \/ \E p \in HexPitches \cup CartPitches : ChangePitch(p)
        \/ \E off \in Offsets \cup ZOffsets : SetOffset(off)
        \/ BackUp
        \/ RestoreBackup
        \/ Snapshot
        \/ Rebuild
        \/ NoPitch

(* ------------------------------------ what reduce() stores ------------------------------------ *)
\* unit steps as the 3x3 matrix (dx/di dx/dj dx/dk), (dy/..), (dz/..) of numbers a + b sqrt(3); bounds grids: zeros
UnitSteps(gr) ==
    IF IsStep(gr)
    THEN LET di == StepXY(gr, 2, 0)
             dj == StepXY(gr, 0, 2)
         IN << <<di[1], dj[1], Q0>>, <<di[2], dj[2], Q0>>, <<Q0, Q0, Q0>> >>
    ELSE << <<Q0, Q0, Q0>>, <<Q0, Q0, Q0>>, <<Q0, Q0, Q0>> >>
Bounds(gr) == <<gr.tb, gr.rb, gr.zb>>
Reduced(gr) == [unitSteps |-> UnitSteps(gr), bounds |-> Bounds(gr), limits |-> IndexBounds(gr),
                offset |-> gr.off, geom |-> gr.geom, sym |-> gr.sym]
\* within one class the stored arguments determine the grid (nothing the observations depend on is lost)
\* (`how` is not stored and must not matter)
ReduceDetermines == \A h \in AllGrids : (h.kind = g.kind /\ Reduced(h) = Reduced(g)) => [h EXCEPT !.how = g.how] = g

(* ------------------------------------ samples and laws ------------------------------------ *)
Samples(gr) == IF IsStep(gr) THEN << <<0, 0, 0>>, <<1, 0, 0>>, <<-1, 2, 0>>, <<2, -3, 0>>, <<0, -1, 0>>, <<-2, 1, 1>> >>
               ELSE IF gr.kind = "ax" THEN << <<0, 0, 0>>, <<0, 0, 1>>, <<0, 0, 2>> >>
               ELSE << <<0, 0, 0>>, <<1, 2, 1>>, <<2, 1, 2>> >>
SampleSet(gr) == {Samples(gr)[t] : t \in 1..Len(Samples(gr))}
TypeOK == /\ g \in AllGrids /\ Len(stack) <= MaxStack /\ Len(taken) <= 1
          /\ \A k \in 1..Len(stack) : [g EXCEPT !.p = stack[k].p, !.off = stack[k].off] \in AllGrids
          /\ \A k \in 1..Len(taken) : taken[k] \in AllGrids /\ taken[k].kind = g.kind /\ taken[k].how = g.how
CellsAreAffine == \A idx \in SampleSet(g) : ValidIdx(g, idx) /\ ThmCellIsAffine(g, idx)
\* the lattice coefficient of a number q = a + b sqrt(3): q divided by the unit u (exactly).  Written with
\* divisions, not cross-multiplications, so that large pitch values stay inside TLC's 32-bit integers.
Exact(q, u) == q[1] % u = 0 /\ q[2] % u = 0
Coef(q, u)  == <<q[1] \div u, q[2] \div u>>
\* units that divide every step-defined coordinate (centre, base or top) of the grid in x and in y
UX(gr) == IF gr.kind = "hex" THEN gr.p[1] \div 24 ELSE gr.p[1] \div 2
UY(gr) == IF gr.kind = "hex" THEN gr.p[2] \div 24 ELSE gr.p[2] \div 2
Discrete(gr) == [kind |-> gr.kind, var |-> gr.var, bounds |-> Bounds(gr), limits |-> IndexBounds(gr),
                 nloc |-> NumLocations(gr), sym |-> gr.sym, geom |-> gr.geom, axial |-> IsAxialOnly(gr),
                 rp |-> [t \in 1..Len(Samples(gr)) |-> OwnRingPos(gr, Samples(gr)[t])],
                 lab |-> [t \in 1..Len(Samples(gr)) |-> Label(gr, Samples(gr)[t])]]
\* every pitch change possible in this state rescales the step part of every coordinate by the pitch ratio
\* (x by w'/w, y by h'/h), keeps z, and leaves every discrete map and all metadata as they were
PitchRescalesOnly ==
    \A p \in Pitches(g.kind) :
        LET h == Changed(g, p) IN
        /\ Discrete(h) = Discrete(g)
        /\ (g.kind = "hex" => h.off = g.off)
        /\ \A idx \in SampleSet(g) :
             LET a == VSub(Centre(g, idx), VRat(g.off))
                 b == VSub(Centre(h, idx), VRat(h.off))
             IN /\ Exact(a[1], UX(g)) /\ Exact(b[1], UX(h)) /\ Coef(b[1], UX(h)) = Coef(a[1], UX(g))
                /\ Exact(a[2], UY(g)) /\ Exact(b[2], UY(h)) /\ Coef(b[2], UY(h)) = Coef(a[2], UY(g))
                /\ b[3] = a[3]
        \* Cartesian: the whole coordinate (offset included) rescales
        /\ (g.kind = "cart" => \A idx \in SampleSet(g) :
               /\ Exact(Centre(h, idx)[1], UX(h)) /\ Coef(Centre(h, idx)[1], UX(h)) = Coef(Centre(g, idx)[1], UX(g))
               /\ Exact(Base(h, idx)[2], UY(h)) /\ Coef(Base(h, idx)[2], UY(h)) = Coef(Base(g, idx)[2], UY(g)))
RefusalsChangeNothing == [][err' # "" => UNCHANGED vars]_<<g, stack, taken, act, err>>
\* what was taken earlier is not touched by anything that happens to the grid later
OnlySnapshotTouchesTaken == [][act'.n # "Snapshot" => taken' = taken]_<<g, stack, taken, act, err>>
\* only backUp / restoreBackup / a new object touch the saved states; restoreBackup gives back exactly the
\* pitch and offset of the matching backUp
BackupDiscipline ==
    [][/\ (act'.n \notin {"BackUp", "RestoreBackup", "Rebuild"} => stack' = stack)
       /\ (act'.n = "BackUp" => stack' = Append(stack, Saved(g)) /\ g' = g)
       /\ (act'.n = "RestoreBackup" => Saved(g') = stack[Len(stack)] /\ Append(stack', stack[Len(stack)]) = stack)
      ]_<<g, stack, taken, act, err>>

(* ------------------------------------ observation ------------------------------------ *)
CellObs(gr, idx) == [idx    |-> idx,
                     centre |-> Centre(gr, idx),       \* native: (theta, r, z) for theta-R-Z grids
                     base   |-> Base(gr, idx),
                     top    |-> Top(gr, idx),
                     xyz    |-> IF gr.kind = "trz" THEN TrzXYZ(gr, idx) ELSE Centre(gr, idx),
                     rp     |-> OwnRingPos(gr, idx),
                     label  |-> Label(gr, idx),
                     nums   |-> LabelNums(gr, idx)]      \* the numbers the label denotes (ring, position, k for hex)
GridObs(gr) == [kind   |-> gr.kind,
                var    |-> gr.var,
                pitch  |-> gr.p,
                offset |-> gr.off,
                reducedOffsetIsNone |-> (gr.off = <<0, 0, 0>>),
                bounds |-> Bounds(gr),
                limits |-> IndexBounds(gr),
                nloc   |-> NumLocations(gr),
                sym    |-> gr.sym,
                geom   |-> gr.geom,
                axial  |-> IsAxialOnly(gr),
                cells  |-> [t \in 1..Len(Samples(gr)) |-> CellObs(gr, Samples(gr)[t])]]
\* the grid itself, and (if a snapshot was taken) what the kept reduce() tuple and the twin must still describe
Obs == [grid |-> GridObs(g), taken |-> [k \in 1..Len(taken) |-> GridObs(taken[k])]]
=====================================================================================================
