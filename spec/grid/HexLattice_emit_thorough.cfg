\* emission (workers 1): one JSON line per explored edge and per distinct state; same constants as HexLattice_mc_thorough.cfg
CONSTANTS N = 24  MaxCount = 1740  MaxLevel = 2000  KAx = 4
ACTION_CONSTRAINT Emit
INVARIANT EmitState
INIT Init
NEXT Next
CONSTRAINT Bound
VIEW View
INVARIANT TypeOK
CHECK_DEADLOCK FALSE
