\* exhaustive: all cells within 14 rings, both centre variants (729 + 784 cells), counts 1..800
CONSTANTS R = 14  MaxCount = 800  MaxLevel = 1000  KAx = 4
INIT Init
NEXT Next
CONSTRAINT Bound
VIEW View
INVARIANT TypeOK
INVARIANT CodeArithmetic
INVARIANT CellBox
INVARIANT NeighboursOnePitch
INVARIANT RingNumbering
INVARIANT RingPosInjective
INVARIANT LabelsInjective
INVARIANT MinimumRingsExact
PROPERTY RefusalsChangeNothing
CHECK_DEADLOCK FALSE
