------------------------------------------ MODULE ThirdToFull_mc ------------------------------------------
EXTENDS ThirdToFull
KPreSet == {-1, 2, 3, 5}
KPreQuick == {2, 5}          \* 120 + 240 = one full turn, 300 + 240 passes 360 degrees
Bound == TLCGet("level") <= MaxLevel
View  == vars
Emit  == PrintT(ToJson([lvl |-> TLCGet("level"), from |-> Vars, act |-> act',
                        to |-> [o |-> o', v |-> v', sym |-> sym',
                                load |-> [x \in 1..NLoad |-> [c |-> LoadCells[x], cfg |-> AsmCfg(x, v')]],
                                steps |-> [x \in 1..NLoad |-> (CHOOSE a \in core' : a.orig /\ a.c = LoadCells[x]).steps]]]))
EmitState == PrintT(ToJson([st |-> Vars, obs |-> Obs]))
===========================================================================================================
