------------------------------------------- MODULE HexSymmetry -------------------------------------------
(* C08, hexagonal part -- symmetry and rotation operations of armi.reactor.grids.hexagonal.HexGrid and
   armi.utils.hexagon agree with the physical geometry.

   Self-contained (integers only; the lattice operators live in SymLattice.tla, prefixed Sym*; HexLattice.tla belongs
   to C07 and is not used).

   TWO LAYERS, TIED TOGETHER BY INVARIANTS
   ---------------------------------------
   Geometry (the truth the statement talks about; nothing here is copied from the code):
   (SymXY, SymRot2/SymRotVec, SymCross, SymDot, SymCellAt are defined in SymLattice.tla)
     SymXY(o,c)       centre of cell c=(i,j) as an integer pair in lattice units
                         flats up   ("flat")   : x = X * side/2 ,  y = Y * pitch/2 ,  X = 3i   , Y = i+2j
                         corners up ("corner") : x = X * pitch/2,  y = Y * side/2  ,  X = i-j  , Y = 3(i+j)
                      (pitch = sqrt(3) side, so a real point is (X, r3 Y) side/2  resp. (r3 X, Y) side/2)
     SymRotVec(o,k,p) the vector p turned by k*60 degrees COUNTER-CLOCKWISE with the rotation matrix
                      [[cos,-sin],[sin,cos]], cos(60k) = SymC6(k)/2, sin(60k) = r3*SymS6(k)/2, written on the
                      integer pairs (exact: all numerators are even on the lattice, see GeoRotExact).
                      The tables SymC6/SymS6 are pinned down by the ASSUMEs in SymLattice (unit length, angle
                      addition, cos 60 = 1/2, sin 60 = r3/2 > 0).
     GeoRot(o,k,c)    THE cell whose centre is the centre of c turned by k*60 degrees (SymCellAt = inverse of SymXY;
                      GeoRotExact checks that the lookup is exact and unique among all cells).
     GeoImages3(o,c)  images of c under the third-core group {R0, R120, R240} other than c itself.
     GeoInSector      the modelled third: the centre cell plus the closed-open sector that starts at the
                      direction of cell (2,-1) (lower symmetry line, "0 degrees" in the flats-up picture) and
                      ends before the direction of cell (-1,2) (upper line, "120 degrees"); with
                      symmetryOverlap / includeTopEdge the upper line is included.  Decided with exact
                      integer cross products, therefore the same definition serves both orientations.
     GeoLine          which symmetry line the centre of a cell lies on (cross product = 0, dot product > 0).
   Index operations (what the code computes; each operator transcribes one function):
     AlgEquivThird    HexGrid._getSymmetricIdenticalsThird             [(-i-j, i), (j, -i-j)], [] at centre
     AlgRingPos       HexGrid.indicesToRingPos                          six edge branches          (in SymLattice)
     AlgFirstThird    HexGrid.isInFirstThird / locatorInDomain          maxPos1 / maxPos2 arithmetic on ring,pos
     AlgLine          HexGrid.overlapsWhichSymmetryLine                 1=0deg 2=60deg 3=120deg 4=centre 0=None
     AlgRot           HexGrid.rotateIndex             (in SymLattice)   deque((i,j,-(i+j))).rotate(-k), negate if k odd
     AlgRotNum        hexagon.getIndexOfRotatedCell                     n + (ring-1) k, wrapped inside the ring

   STATE MACHINE    state = (o, c, kz, sp): grid orientation, a cell within N rings, the axial index of the location (0..2) and
                    the spelling of the grid's symmetry string; every such tuple (or one kz / sp per cell) is initial.
     Rotate(k)      the only mutator of the subsystem: HexGrid.rotateIndex(loc, k), k in KSet (-K..K plus a few
                    large magnitudes of both signs; the statement quantifies over all k in Z).
     act            the last action (with the cell it started from) so that the laws about one rotation step are
                    plain invariants.  In the exhaustive configs act is part of the state (every (cell, k) pair is a
                    state of its own and gets its invariants checked); the emission configs hide it with a VIEW.

   PROPERTY CLAUSES -> INVARIANTS
     equivalents are exactly the images under 120-degree rotations ........ EquivalentsAreImages
     each orbit has exactly one member in the modelled domain ............. OrbitHasOneInDomain, OrbitWithOverlap
     cells on symmetry lines classified consistently with coordinates ..... LinesAgreeWithCoordinates,
                                                                              FirstThirdIsSector, EquivalentsClosed
     rotateIndex(k) turns the coordinates by k*60 degrees ccw .............. RotateIsGeometric
     composes additively / identity at 6 / preserves the ring .............. RotateAdditive, RotateSixIsIdentity,
                                                                              RotatePreservesRing, RotateKeepsAxial (the
                                                                              axial index and z of the location stay)
     cell-number rotation (getIndexOfRotatedCell) .......................... CellNumberRotation
     (auxiliary) ring/position numbering is the ccw walk it is said to be .. RingPosIsCcwWalk

   INTERPRETATION CHOICES
     * Order of the reported third-core equivalents: the docstring says "rotating the indices by 120 degrees
       twice, counterclockwise", and ThirdCoreHexToFullCoreChanger rotates the copy placed at equivalents[n]
       by (n+1)*120 degrees; the spec therefore also states the order <<R120 c, R240 c>> (EquivalentsOrdered).
       The set equality is the property clause proper.
     * overlapsWhichSymmetryLine only knows the three lines bounding/bisecting the modelled third; cells on the
       180/240/300 degree lines are "not on a line" (None) -- the code says so in its notes, GeoLine does the same.
     * Full-core grids: the symmetry group is trivial: no equivalents, every cell in the domain.
*)
EXTENDS SymLattice, TLC, Json

CONSTANTS N,          \* number of hex rings (cells with ring <= N)
          K,          \* rotation steps -K..K
          BigK,       \* set of large positive step counts, used with both signs
          AllKz,      \* TRUE: every axial index 0..2 for every cell; FALSE: one per cell ((i - j) mod 3: all three occur)
          AllSp,      \* TRUE: every spelling of the symmetry for every cell; FALSE: one per cell ((i + 3j) mod 4)
          MaxLevel

VARIABLES o, c, kz, sp, act
vars == <<o, c, kz, sp>>

Orients == {"flat", "corner"}
KSet    == (-K..K) \cup BigK \cup {-b : b \in BigK}

(* ------------------------------------------- lattice geometry ------------------------------------------- *)
Cells         == {cc \in (-(N - 1)..(N - 1)) \X (-(N - 1)..(N - 1)) : SymDist(cc) <= N - 1}
GeoRot(oo, k, cc)  == SymCellAt(oo, SymRotVec(oo, k, SymXY(oo, cc)))
GeoImages3(oo, cc) == {GeoRot(oo, 2, cc), GeoRot(oo, 4, cc)} \ {cc}
GeoOrbit3(oo, cc)  == GeoImages3(oo, cc) \cup {cc}

LowerDir(oo) == SymXY(oo, <<2, -1>>)
MidDir(oo)   == SymXY(oo, <<1, 1>>)
UpperDir(oo) == SymXY(oo, <<-1, 2>>)
GeoOnRay(oo, dir, cc) == LET p == SymXY(oo, cc) IN SymCross(dir, p) = 0 /\ SymDot(oo, dir, p) > 0
GeoInSector(oo, cc, top) ==
    \/ cc = Centre
    \/ LET p == SymXY(oo, cc) IN
       /\ SymCross(LowerDir(oo), p) >= 0
       /\ IF top THEN SymCross(p, UpperDir(oo)) >= 0 ELSE SymCross(p, UpperDir(oo)) > 0
GeoLine(oo, cc) == IF cc = Centre THEN 4
                   ELSE IF GeoOnRay(oo, LowerDir(oo), cc) THEN 1
                   ELSE IF GeoOnRay(oo, MidDir(oo), cc) THEN 2
                   ELSE IF GeoOnRay(oo, UpperDir(oo), cc) THEN 3
                   ELSE 0

(* --------------------------------------- transcriptions of the code --------------------------------------- *)
AlgEquivThird(cc) == IF cc = Centre THEN <<>>
                     ELSE << <<-cc[1] - cc[2], cc[1]>>, <<cc[2], -cc[1] - cc[2]>> >>

AlgFirstThird(cc, top) ==
    LET ring == AlgRingPos(cc)[1]
        pos  == AlgRingPos(cc)[2]
        m1   == ring + (ring \div 2) - 1
        m2   == PositionsInRing(ring) - (ring \div 2) + 1
        max1 == IF ring % 2 = 1 /\ top THEN m1 + 1 ELSE m1
        max2 == IF ring % 2 = 0 THEN m2 + 1 ELSE m2
    IN  ring = 1 \/ pos <= max1 \/ pos >= max2

AlgLine(cc) == LET i == cc[1]  j == cc[2] IN
    IF i = 0 /\ j = 0 THEN 4
    ELSE IF i > 0 /\ i = -2 * j THEN 1
    ELSE IF i = j /\ i > 0 /\ j > 0 THEN 2
    ELSE IF j = -2 * i /\ j > 0 THEN 3
    ELSE 0

RingsToHold(n)   == CHOOSE r \in 1..(N + 1) : TotalUpToRing(r) >= n /\ (r = 1 \/ TotalUpToRing(r - 1) < n)
AlgRotNum(n, k)  == IF n = 1 \/ k = 0 THEN n
                    ELSE LET ring == RingsToHold(n)
                             new  == n + (ring - 1) * k
                         IN  IF new > TotalUpToRing(ring) THEN new - (ring - 1) * 6 ELSE new

(* ------------------------------------------------ machine ------------------------------------------------ *)
\* kz: the axial index of the location handed to rotateIndex (a rotation about z leaves it, and z, alone).
\* sp: how the grid's symmetry was SPELLED when the grid was made (SymmetryType.fromStr is case-insensitive and ignores the words
\*     "core" and "assembly"); no query result depends on it -- it is part of the state so that every emitted case names one.
KzSet      == 0..2
Spellings  == <<"canonical", "title", "upper", "short">>
KzOf(cc)   == IF AllKz THEN KzSet ELSE {(cc[1] - cc[2]) % 3}
SpOf(cc)   == IF AllSp THEN {Spellings[x] : x \in 1..4} ELSE {Spellings[((cc[1] + 3 * cc[2]) % 4) + 1]}
InitLike   == kz \in KzOf(c) /\ sp \in SpOf(c)
Init == /\ o \in Orients /\ c \in Cells
        /\ InitLike
        /\ act = [n |-> "Init", k |-> 0, from |-> c, kz |-> kz]
Rotate(k) == /\ c' = AlgRot(k, c)
             /\ act' = [n |-> "Rotate", k |-> k, from |-> c, kz |-> kz]
             /\ UNCHANGED <<o, kz, sp>>          \* IndexLocation(newI, newJ, k, loc.grid): axial index and grid kept
Next == \E k \in KSet : Rotate(k)

(* ----------------------------------------------- invariants ----------------------------------------------- *)
TypeOK == o \in Orients /\ c \in Cells /\ act.from \in Cells /\ act.k \in KSet \cup {0} /\ kz \in KzSet

SeqRange(s) == {s[x] : x \in 1..Len(s)}

\* the lattice rotation is exact: twice the rotated vector has even entries, and the result is again a cell centre
GeoRotExactC == \A k \in 0..5 : LET q == SymRot2(o, k, SymXY(o, c)) IN
                   /\ q[1] % 2 = 0 /\ q[2] % 2 = 0
                   /\ Cardinality({d \in Cells : SymXY(o, d) = SymRotVec(o, k, SymXY(o, c))}) = 1
                   /\ GeoRot(o, k, c) \in Cells /\ SymXY(o, GeoRot(o, k, c)) = SymRotVec(o, k, SymXY(o, c))

EquivalentsAreImagesC ==
    /\ SeqRange(AlgEquivThird(c)) = GeoImages3(o, c)
    /\ Len(AlgEquivThird(c)) = Cardinality(GeoImages3(o, c))        \* no duplicates, the cell itself not listed
    /\ Cardinality(GeoImages3(o, c)) = IF c = Centre THEN 0 ELSE 2
EquivalentsOrderedC == c # Centre => AlgEquivThird(c) = <<GeoRot(o, 2, c), GeoRot(o, 4, c)>>
EquivalentsClosedC ==   \* being equivalent is symmetric and transitive: every member reports the same orbit
    \A d \in SeqRange(AlgEquivThird(c)) : SeqRange(AlgEquivThird(d)) \cup {d} = SeqRange(AlgEquivThird(c)) \cup {c}

OrbitHasOneInDomainC == Cardinality({d \in GeoOrbit3(o, c) : GeoInSector(o, d, FALSE)}) = 1
OrbitWithOverlapC ==
    LET n == Cardinality({d \in GeoOrbit3(o, c) : GeoInSector(o, d, TRUE)}) IN
    IF \E d \in GeoOrbit3(o, c) : GeoLine(o, d) \in {1, 3} THEN n = 2 ELSE n = 1
FirstThirdIsSectorC == \A top \in BOOLEAN : AlgFirstThird(c, top) = GeoInSector(o, c, top)
LinesAgreeWithCoordinatesC ==
    /\ AlgLine(c) = GeoLine(o, c)
    /\ GeoLine(o, c) = 1 => GeoInSector(o, c, FALSE)                                   \* lower line belongs to the third
    /\ GeoLine(o, c) = 3 => GeoInSector(o, c, TRUE) /\ ~GeoInSector(o, c, FALSE)       \* upper line only with overlap
    /\ GeoLine(o, c) = 2 => GeoInSector(o, c, FALSE)
    /\ GeoLine(o, c) = 1 <=> (c # Centre /\ GeoLine(o, GeoRot(o, 2, c)) = 3)           \* the two bounding lines are images
    /\ (GeoInSector(o, c, TRUE) /\ ~GeoInSector(o, c, FALSE)) => GeoLine(o, c) = 3

\* ring / position numbering is geometric: ring = cube distance + 1, positions 1..6(r-1) each used once, position 1
\* is the cell (r-1, 0) and the next position is the neighbouring cell counter-clockwise
SymSteps == {<<1, 0>>, <<0, 1>>, <<-1, 1>>, <<-1, 0>>, <<0, -1>>, <<1, -1>>}
RingPosIsCcwWalkC ==
    LET rp == AlgRingPos(c) IN
    /\ rp[1] = SymRing(c)
    /\ rp[2] \in 1..PositionsInRing(rp[1])
    /\ Cardinality({d \in Cells : AlgRingPos(d) = rp}) = 1
    /\ (rp[2] = 1) <=> (c = <<rp[1] - 1, 0>>)
    /\ rp[1] > 1 =>
         LET nxt == CHOOSE d \in Cells : AlgRingPos(d) = <<rp[1], (rp[2] % PositionsInRing(rp[1])) + 1>> IN
         /\ <<nxt[1] - c[1], nxt[2] - c[2]>> \in SymSteps
         /\ SymCross(SymXY(o, c), SymXY(o, nxt)) > 0

CellNumberRotationC == \A k \in 0..5 : AlgRotNum(CellNum(c), k) = CellNum(GeoRot(o, k, c))

\* the laws about a single cell do not depend on act: they are evaluated once per (o, c), in the initial state of that
\* pair (every pair is an initial state), not again for every way of arriving there
PerCell(P) == act.n = "Init" => P
GeoRotExact == PerCell(GeoRotExactC)
EquivalentsAreImages == PerCell(EquivalentsAreImagesC)
EquivalentsOrdered == PerCell(EquivalentsOrderedC)
EquivalentsClosed == PerCell(EquivalentsClosedC)
OrbitHasOneInDomain == PerCell(OrbitHasOneInDomainC)
OrbitWithOverlap == PerCell(OrbitWithOverlapC)
FirstThirdIsSector == PerCell(FirstThirdIsSectorC)
LinesAgreeWithCoordinates == PerCell(LinesAgreeWithCoordinatesC)
RingPosIsCcwWalk == PerCell(RingPosIsCcwWalkC)
CellNumberRotation == PerCell(CellNumberRotationC)

\* laws about one rotateIndex step (act.from --Rotate(act.k)--> c)
RotateIsGeometric == act.n = "Rotate" =>
    /\ 2 * SymXY(o, c)[1] = SymRot2(o, act.k, SymXY(o, act.from))[1]
    /\ 2 * SymXY(o, c)[2] = SymRot2(o, act.k, SymXY(o, act.from))[2]
RotateAdditive == act.n = "Rotate" => \A k2 \in KSet : AlgRot(k2, c) = AlgRot(k2 + act.k, act.from)
RotateSixIsIdentity == /\ AlgRot(6, c) = c /\ AlgRot(-6, c) = c /\ AlgRot(0, c) = c
                       /\ act.n = "Rotate" => AlgRot(act.k + 6, act.from) = c /\ AlgRot(act.k - 6, act.from) = c
RotateKeepsAxial == act.n = "Rotate" => kz = act.kz         \* the axial level (hence z) is not touched by a rotation about z
RotatePreservesRing == act.n = "Rotate" => SymRing(c) = SymRing(act.from) /\ AlgRingPos(c)[1] = AlgRingPos(act.from)[1]

(* ---------------------------------- observations printed for the harness ---------------------------------- *)
CellLess(a, b) == a[1] < b[1] \/ (a[1] = b[1] /\ a[2] < b[2])
SortedCells(S) == SetToSortSeq(S, CellLess)
\* everything below is evaluated from the GEOMETRIC definitions
Obs == [xy       |-> SymXY(o, c),
        ring     |-> SymRing(c),
        pos      |-> AlgRingPos(c)[2],
        num      |-> CellNum(c),
        rotnum   |-> [k \in 1..6 |-> CellNum(GeoRot(o, k - 1, c))],
        equivSet |-> SortedCells(GeoImages3(o, c)),
        equivSeq |-> IF c = Centre THEN <<>> ELSE <<GeoRot(o, 2, c), GeoRot(o, 4, c)>>,
        inDomain |-> GeoInSector(o, c, FALSE),
        inDomainOverlap |-> GeoInSector(o, c, TRUE),
        line     |-> GeoLine(o, c),
        orbitInDomain |-> SortedCells({d \in GeoOrbit3(o, c) : GeoInSector(o, d, FALSE)})]
Vars == [o |-> o, c |-> c, kz |-> kz, sp |-> sp]
=============================================================================================================
