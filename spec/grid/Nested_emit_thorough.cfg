\* emission (workers 1): same constants as Nested_mc_thorough.cfg
CONSTANTS Depth = 3  NIdx = 3  MaxLevel = 30
ACTION_CONSTRAINT Emit
INVARIANT EmitState
INIT Init
NEXT Next
CONSTRAINT Bound
VIEW View
INVARIANT TypeOK
CHECK_DEADLOCK FALSE
