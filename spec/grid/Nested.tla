--------------------------------------------- MODULE Nested ---------------------------------------------
(* C07 -- locations in nested grids (armi/reactor/grids/locations.py IndexLocation.getGlobalCoordinates /
   getGlobalCellBase / getGlobalCellTop / getCompleteIndices / getRingPos / parentLocation, addingIsValid).

   The modelled world is the way armi nests grids: a root object (the reactor, no parent) holds object 0
   (the core) at a free CoordinateLocation `CoreAt` (rooted = TRUE); with rooted = FALSE the core has no
   parent and IndexLocation.parentLocation then ignores the core's own location (Origin = 0).
   Object l-1 owns grid l (grid.armiObject), and object l sits in cell idx(l) of grid l.  chain[l] = [kn |-> kind name of grid l, idx |-> cell of object l].
   Depth <= 3: core grid / assembly grid / block (pin) grid.

   Actions (every mutator that changes where something is)
     Descend(kn, idx)  give the innermost object a grid of kind kn and put a new child object into its cell idx
                       <- Composite.add ; child.spatialLocator = grid[idx]
     Move(l, idx)      object l moves to another cell of grid l        <- Composite.moveTo(grid[idx])
     Ascend            remove the innermost object and its parent's grid <- Composite.remove
     BadIndex          refusal: asking a bounds-defined (axial) innermost grid for a negative index raises
                       IndexError and changes nothing                   <- StructuredGrid._centroidByBounds
   Transcribed recursion (locations.py):
     GlobalCentre(l) = LocalXYZ(grid l, idx l) + GlobalCentre(l-1)      getGlobalCoordinates()
     NativeLen/Ang(l) = native centre of level l + Native(l-1)          getGlobalCoordinates(nativeCoords=True): the
                        flag is forwarded to every parent, so a theta-R-Z parent contributes (theta, r, z)
     GlobalBase(l)   = GlobalBase(l-1) + Base(grid l, idx l)            getGlobalCellBase   (bases add to bases)
     GlobalTop(l)    = GlobalTop(l-1)  + Top(grid l, idx l)             getGlobalCellTop
        level 0 is the core's CoordinateLocation: centre = base = top = Origin
     Complete(l)     = idx(l) + idx(l-1)  iff  l >= 2 and grid l is axial-only and grid l-1 is not
                       (ONE level only, as getCompleteIndices does; level 1's parent location is the core's
                        CoordinateLocation, which has no grid, so nothing is added)
     RingPosAt(l)    = grid l's ring/position of Complete(l); an axial grid asks the grid its owner sits in
                       (StructuredGrid.getRingPos), ValueError when there is none
   Properties: GlobalIsSumOfLocals, CompleteIndicesRule, CellsAreAffine, GlobalBoxAroundCentre, MoveShiftsSubtree
   (stated as a state invariant over every move possible in the state: an action property with recursive
   operators was 25x slower in TLC), RefusalsChangeNothing.
   Interpretation: "Locations in nested grids compose by adding the parent's coordinates" is read for base and
   top as the code defines them (parent's base + own base, parent's top + own top).                        *)
EXTENDS GridGeom, SequencesExt

CONSTANTS Depth,      \* maximal nesting depth (<= 3)
          NIdx        \* how many sample cells per grid kind (1..3)

VARIABLES chain, rooted, act, err
vars == <<chain, rooted>>

\* "ax": three cells with explicit bounds; "ax1"/"ax2": AxialGrid.fromNCells(1)/(2) (a one-block assembly is still an
\* axial-only grid); "trz": a theta-R-Z core grid (outermost level only), single z cell like armi builds it
KindNames == {"hexF", "hexC", "cartT", "cartO", "ax", "ax1", "ax2", "trz"}
\* sizes per nesting level, in units u (0.01 cm): core 16.8 cm, assembly-internal 1.2 cm, pin 0.24 cm ...
PH(l) == IF l = 1 THEN 1680 ELSE IF l = 2 THEN 120 ELSE 24
CW(l) == IF l = 1 THEN 2100 ELSE IF l = 2 THEN 128 ELSE 12
CH(l) == IF l = 1 THEN 2140 ELSE IF l = 2 THEN 132 ELSE 8
ZB(l) == IF l = 1 THEN <<0, 2500, 10000, 17600>> ELSE IF l = 2 THEN <<0, 50, 120, 300>> ELSE <<0, 2, 6, 8>>
NoB == <<>>
GridOf(kn, l) ==
    IF kn = "hexF" THEN [kind |-> "hex", var |-> "flats", p |-> <<PH(l), PH(l)>>, off |-> <<0, 0, 0>>,
                         zb |-> NoB, tb |-> NoB, rb |-> NoB, rings |-> 3, sym |-> "", geom |-> ""]
    ELSE IF kn = "hexC" THEN [kind |-> "hex", var |-> "corners", p |-> <<PH(l), PH(l)>>, off |-> <<0, 0, 0>>,
                         zb |-> NoB, tb |-> NoB, rb |-> NoB, rings |-> 3, sym |-> "", geom |-> ""]
    ELSE IF kn = "cartT" THEN [kind |-> "cart", var |-> "centred", p |-> <<CW(l), CH(l)>>, off |-> <<0, 0, 0>>,
                         zb |-> NoB, tb |-> NoB, rb |-> NoB, rings |-> 3, sym |-> "", geom |-> ""]
    ELSE IF kn = "cartO" THEN [kind |-> "cart", var |-> "offset", p |-> <<CW(l), CH(l)>>,
                         off |-> <<CW(l) \div 2, CH(l) \div 2, 0>>,
                         zb |-> NoB, tb |-> NoB, rb |-> NoB, rings |-> 3, sym |-> "", geom |-> ""]
    ELSE IF kn = "ax" THEN [kind |-> "ax", var |-> "", p |-> <<0, 0>>, off |-> <<0, 0, 0>>,
          zb |-> ZB(l), tb |-> NoB, rb |-> NoB, rings |-> 0, sym |-> "", geom |-> ""]
    ELSE IF kn = "ax1" THEN [kind |-> "ax", var |-> "unit", p |-> <<0, 0>>, off |-> <<0, 0, 0>>,
          zb |-> <<0, 100>>, tb |-> NoB, rb |-> NoB, rings |-> 0, sym |-> "", geom |-> ""]
    ELSE IF kn = "ax2" THEN [kind |-> "ax", var |-> "unit", p |-> <<0, 0>>, off |-> <<0, 0, 0>>,
          zb |-> <<0, 100, 200>>, tb |-> NoB, rb |-> NoB, rings |-> 0, sym |-> "", geom |-> ""]
    ELSE [kind |-> "trz", var |-> "", p |-> <<0, 0>>, off |-> <<0, 0, 0>>,
          zb |-> <<0, 0>>, tb |-> <<1, 3, 5, 7>>, rb |-> <<0, 2000, 2500, 3000>>, rings |-> 0, sym |-> "", geom |-> ""]
IdxSeq(kn) == IF kn \in {"hexF", "hexC"} THEN << <<1, 0, 0>>, <<-1, 2, 0>>, <<0, -2, 0>> >>
              ELSE IF kn \in {"cartT", "cartO"} THEN << <<1, 2, 0>>, <<-2, 0, 0>>, <<0, -1, 0>> >>
              ELSE IF kn = "ax" THEN << <<0, 0, 0>>, <<0, 0, 2>>, <<0, 0, 1>> >>
              ELSE IF kn = "ax1" THEN << <<0, 0, 0>> >>
              ELSE IF kn = "ax2" THEN << <<0, 0, 1>>, <<0, 0, 0>> >>
              ELSE << <<0, 1, 0>>, <<2, 0, 0>>, <<1, 2, 0>> >>          \* trz: (theta, r, z) indices
IdxSet(kn) == {IdxSeq(kn)[t] : t \in 1..(IF Len(IdxSeq(kn)) < NIdx THEN Len(IdxSeq(kn)) ELSE NIdx)}
CoreAt == << <<500, 0>>, <<-300, 0>>, <<1000, 0>> >>         \* the core's CoordinateLocation (5.0, -3.0, 10.0) cm
\* IndexLocation.parentLocation looks at the owner of the grid only if that owner itself has a parent: a core that
\* hangs under a reactor contributes its own location, a free-standing core (rooted = FALSE) does not.
Origin == IF rooted THEN CoreAt ELSE VZero

D == Len(chain)
G(l)   == GridOf(chain[l].kn, l)
Idx(l) == chain[l].idx
\* the same on an explicit chain value (used to state what a hypothetical move would do)
GC(ch, l)   == GridOf(ch[l].kn, l)

(* ------------------------------------ transcribed recursion ------------------------------------ *)
\* local coordinates as getLocalCoordinates() gives them: x,y,z (a theta-R-Z grid converts its native centre)
LocalXYZ(gr, idx) == IF gr.kind = "trz" THEN TrzXYZ(gr, idx) ELSE Centre(gr, idx)
\* a native vector of a theta-R-Z grid has an ANGLE as first component (eighths of a turn); sums over levels are
\* therefore kept as a length part (units u) and an angle part (first component only)
LenPart(gr, V) == IF gr.kind = "trz" THEN <<Q0, V[2], V[3]>> ELSE V
AngPart(gr, V) == IF gr.kind = "trz" THEN V[1][1] ELSE 0
RECURSIVE GlobalCentreOf(_, _)
GlobalCentreOf(ch, l) == IF l = 0 THEN Origin ELSE VAdd(LocalXYZ(GC(ch, l), ch[l].idx), GlobalCentreOf(ch, l - 1))
\* getGlobalCoordinates(nativeCoords=True): every level contributes its NATIVE centre (the flag is passed up)
RECURSIVE NativeLen(_), NativeAng(_), BaseLen(_), BaseAng(_), TopLen(_), TopAng(_)
NativeLen(l) == IF l = 0 THEN Origin ELSE VAdd(LenPart(G(l), Centre(G(l), Idx(l))), NativeLen(l - 1))
NativeAng(l) == IF l = 0 THEN 0 ELSE AngPart(G(l), Centre(G(l), Idx(l))) + NativeAng(l - 1)
\* getGlobalCellBase / getGlobalCellTop add getCellBase / getCellTop, which are native (bounds values) for theta-R-Z
BaseLen(l) == IF l = 0 THEN Origin ELSE VAdd(BaseLen(l - 1), LenPart(G(l), Base(G(l), Idx(l))))
BaseAng(l) == IF l = 0 THEN 0 ELSE BaseAng(l - 1) + AngPart(G(l), Base(G(l), Idx(l)))
TopLen(l)  == IF l = 0 THEN Origin ELSE VAdd(TopLen(l - 1), LenPart(G(l), Top(G(l), Idx(l))))
TopAng(l)  == IF l = 0 THEN 0 ELSE TopAng(l - 1) + AngPart(G(l), Top(G(l), Idx(l)))
GlobalCentre(l) == GlobalCentreOf(chain, l)
RECURSIVE GlobalBase(_), GlobalTop(_)
GlobalBase(l)   == BaseLen(l)          \* (+ BaseAng(l) eighths of a turn in the first component)
GlobalTop(l)    == TopLen(l)
AddValidAt(l) == l >= 2 /\ AddingIsValid(G(l), G(l - 1))
Complete(l) == IF AddValidAt(l) THEN IAdd(Idx(l), Idx(l - 1)) ELSE Idx(l)
RECURSIVE GridRingPos(_, _)
GridRingPos(m, ix) == IF G(m).kind # "ax" THEN OwnRingPos(G(m), ix)
                      ELSE IF m >= 2 THEN GridRingPos(m - 1, ix) ELSE <<>>          \* <<>> = ValueError
RingPosAt(l) == GridRingPos(l, Complete(l))

(* ------------------------------------ actions ------------------------------------ *)
Init == chain = <<>> /\ rooted \in BOOLEAN /\ act = [n |-> "Init"] /\ err = ""
Descend(kn, idx) == /\ D < Depth /\ (kn = "trz" => D = 0)
                    /\ chain' = Append(chain, [kn |-> kn, idx |-> idx]) /\ UNCHANGED rooted
                    \* the action carries the descriptor of the new grid so that the harness builds exactly that grid
                    /\ act' = [n |-> "Descend", kn |-> kn, idx |-> idx, grid |-> GridOf(kn, D + 1)] /\ err' = ""
Move(l, idx) == /\ l \in 1..D /\ idx # Idx(l)
                /\ chain' = [chain EXCEPT ![l].idx = idx] /\ UNCHANGED rooted
                /\ act' = [n |-> "Move", l |-> l, idx |-> idx] /\ err' = ""
Ascend == /\ D > 0
          /\ chain' = SubSeq(chain, 1, D - 1) /\ UNCHANGED rooted
          /\ act' = [n |-> "Ascend"] /\ err' = ""
BadIndex == /\ D > 0 /\ G(D).kind = "ax"
            /\ UNCHANGED vars
            /\ act' = [n |-> "BadIndex"] /\ err' = "IndexError"
MoveAny == \E l \in 1..Depth : l <= D /\ \E idx \in IdxSet(chain[l].kn) : Move(l, idx)
Next == \/ \E kn \in KindNames : \E idx \in IdxSet(kn) : Descend(kn, idx)
        \/ MoveAny
        \/ Ascend
        \/ BadIndex

(* ------------------------------------ properties ------------------------------------ *)
TypeOK == /\ D <= Depth /\ rooted \in BOOLEAN
          /\ \A l \in 1..D : chain[l].kn \in KindNames /\ chain[l].idx \in IdxSet(chain[l].kn)
\* global = origin + sum of the locals of all enclosing levels (adding the parent's coordinates, at every depth)
SumLocals(l) == FoldLeft(LAMBDA acc, m : VAdd(acc, LocalXYZ(G(m), Idx(m))), Origin, [m \in 1..l |-> m])
GlobalIsSumOfLocals == \A l \in 0..D : GlobalCentre(l) = SumLocals(l)
\* indices add for axial-in-radial nesting only, and then every axis is defined exactly once
CompleteIndicesRule ==
    \A l \in 1..D :
        /\ (Complete(l) # Idx(l)) => (l >= 2 /\ G(l).kind = "ax" /\ G(l - 1).kind # "ax")
        /\ (l >= 2 /\ G(l).kind = "ax" /\ G(l - 1).kind # "ax")
              => Complete(l) = <<Idx(l - 1)[1], Idx(l - 1)[2], Idx(l)[3]>>
        /\ (l >= 2 /\ G(l).kind # "ax") => Complete(l) = Idx(l)          \* pin grids keep local indices
        /\ (l = 1) => Complete(l) = Idx(l)
CellsAreAffine == \A l \in 1..D : ValidIdx(G(l), Idx(l)) /\ ThmCellIsAffine(G(l), Idx(l))
\* a cell's global box contains its global centre half way: bases add to bases, tops to tops
\* (stated on native coordinates: with a theta-R-Z level base/top are native while the default centre is x,y,z)
GlobalBoxAroundCentre == \A l \in 0..D : /\ VAdd(BaseLen(l), TopLen(l)) = VAdd(NativeLen(l), NativeLen(l))
                                          /\ BaseAng(l) + TopAng(l) = 2 * NativeAng(l)
\* without a theta-R-Z level native and x,y,z coordinates are the same thing
NativeIsXYZWithoutTrz == \A l \in 0..D : (\A m \in 1..l : G(m).kind # "trz") => (NativeLen(l) = GlobalCentre(l) /\ NativeAng(l) = 0)
\* moving object m to another cell shifts the whole subtree below it by the same vector and nothing above it
\* (stated over every move that is possible in the current state)
MoveShiftsSubtree ==
    \A m \in 1..D : \A idx \in IdxSet(chain[m].kn) :
        LET moved == [chain EXCEPT ![m].idx = idx]
            delta == VSub(LocalXYZ(G(m), idx), LocalXYZ(G(m), Idx(m)))
        IN \A l \in 0..D : GlobalCentreOf(moved, l) = (IF l >= m THEN VAdd(GlobalCentre(l), delta) ELSE GlobalCentre(l))
RefusalsChangeNothing == [][err' # "" => UNCHANGED vars]_<<chain, rooted, act, err>>

(* ------------------------------------ observation ------------------------------------ *)
LevelObs(l) == [kn       |-> chain[l].kn,
                idx      |-> Idx(l),
                local    |-> LocalXYZ(G(l), Idx(l)),
                global   |-> GlobalCentre(l),
                gnative  |-> NativeLen(l),   gnativeAng |-> NativeAng(l),     \* getGlobalCoordinates(nativeCoords=True)
                gbase    |-> BaseLen(l),     gbaseAng   |-> BaseAng(l),
                gtop     |-> TopLen(l),      gtopAng    |-> TopAng(l),
                complete |-> Complete(l),
                ringpos  |-> RingPosAt(l),
                addvalid |-> AddValidAt(l),
                axial    |-> IsAxialOnly(G(l)),
                parented |-> (l > 1 \/ rooted),          \* does parentLocation exist (owner of the grid has a parent)
                label    |-> Label(G(l), Idx(l))]
Obs == [levels |-> [l \in 1..D |-> LevelObs(l)]]
=====================================================================================================
