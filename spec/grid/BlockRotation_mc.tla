----------------------------------------- MODULE BlockRotation_mc -----------------------------------------
EXTENDS BlockRotation
Bound == TLCGet("level") <= MaxLevel
View  == vars                                  \* emission configs: one node per (configuration, steps so far)
Emit  == PrintT(ToJson([lvl |-> TLCGet("level"), from |-> Vars, act |-> act',
                        to |-> [cfg |-> [b \in 1..Len(blocks') |-> CfgOf(blocks'[b])], tot |-> tot'], err |-> err']))
EmitState == PrintT(ToJson([st |-> Vars, obs |-> Obs]))
===========================================================================================================
