----------------------------------------- MODULE BlockRotation_mc -----------------------------------------
EXTENDS BlockRotation
Bound == TLCGet("level") <= MaxLevel
\* states on the last level are checked but not expanded (their successors would be thrown away by Bound anyway)
Live  == TLCGet("level") < MaxLevel
RotateBlockB(b, k)        == Live /\ RotateBlock(b, k)
RotateAssemblyB(k)        == Live /\ RotateAssembly(k)
RotateAssemblyOffGridB(h) == Live /\ RotateAssemblyOffGrid(h)
NextB == \/ \E b \in 1..NB, k \in -K..K : RotateBlockB(b, k)
         \/ \E k \in -K..K : RotateAssemblyB(k)
         \/ \E h \in -H..H : RotateAssemblyOffGridB(h)
\* emission of assemblies: states on the last level are observed (EmitState) but not expanded
NextE == Live /\ Next
View  == vars                                  \* emission configs: one node per (configuration, steps so far)
Emit  == PrintT(ToJson([lvl |-> TLCGet("level"), from |-> Vars, act |-> act',
                        to |-> [cfg |-> [b \in 1..Len(blocks') |-> CfgOf(blocks'[b])], tot |-> tot'], err |-> err']))
EmitState == PrintT(ToJson([st |-> Vars, obs |-> Obs]))
===========================================================================================================
