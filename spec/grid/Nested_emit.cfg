\* emission (workers 1): same constants as Nested_mc.cfg
CONSTANTS Depth = 3  NIdx = 2  MaxLevel = 30
ACTION_CONSTRAINT Emit
INVARIANT EmitState
INIT Init
NEXT Next
CONSTRAINT Bound
VIEW View
INVARIANT TypeOK
CHECK_DEADLOCK FALSE
