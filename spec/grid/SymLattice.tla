-------------------------------------------- MODULE SymLattice --------------------------------------------
(* C08 -- the few hexagonal-lattice operators shared by HexSymmetry and BlockRotation (integers only, no state).
   Geometry: SymXY, SymRot2/SymRotVec (rotation matrices for multiples of 60 degrees on lattice pairs), SymCross,
   SymDot, SymCellAt.  Transcriptions of code used by both modules: AlgRingPos (HexGrid.indicesToRingPos),
   AlgRot (HexGrid.rotateIndex), CellNum (pin / cell numbering ring by ring).  See HexSymmetry.tla for the
   invariants that tie the transcriptions to the geometry.                                                     *)
EXTENDS Integers, Sequences, FiniteSets, FiniteSetsExt, SequencesExt

SymAbs(x)     == IF x < 0 THEN -x ELSE x
SymMax2(a, b) == IF a >= b THEN a ELSE b
SymDist(cc)   == SymMax2(SymAbs(cc[1]), SymMax2(SymAbs(cc[2]), SymAbs(cc[1] + cc[2])))   \* cube distance
SymRing(cc)   == SymDist(cc) + 1
Centre        == <<0, 0>>


SymXY(oo, cc) == IF oo = "flat" THEN <<3 * cc[1], cc[1] + 2 * cc[2]>>
                                ELSE <<cc[1] - cc[2], 3 * (cc[1] + cc[2])>>

\* 2 cos(60k) and 2 sin(60k)/sqrt(3)
SymC6(k) == <<2, 1, -1, -2, -1, 1>>[(k % 6) + 1]
SymS6(k) == <<0, 1, 1, 0, -1, -1>>[(k % 6) + 1]
ASSUME SymC6(0) = 2 /\ SymS6(0) = 0 /\ SymC6(1) = 1 /\ SymS6(1) = 1                      \* cos 60 = 1/2, sin 60 = r3/2
ASSUME \A k \in -12..12 : SymC6(k) * SymC6(k) + 3 * SymS6(k) * SymS6(k) = 4               \* cos^2 + sin^2 = 1
ASSUME \A a, b \in -12..12 : /\ 2 * SymC6(a + b) = SymC6(a) * SymC6(b) - 3 * SymS6(a) * SymS6(b)   \* cos(a+b)
                             /\ 2 * SymS6(a + b) = SymS6(a) * SymC6(b) + SymC6(a) * SymS6(b)       \* sin(a+b)

\* twice the rotated vector (exact integers), per kind of lattice:  "flat": real = (X, r3 Y); "corner": real = (r3 X, Y)
SymRot2(oo, k, p) == IF oo = "flat"
                     THEN <<SymC6(k) * p[1] - 3 * SymS6(k) * p[2], SymS6(k) * p[1] + SymC6(k) * p[2]>>
                     ELSE <<SymC6(k) * p[1] - SymS6(k) * p[2], 3 * SymS6(k) * p[1] + SymC6(k) * p[2]>>
SymRotVec(oo, k, p) == LET q == SymRot2(oo, k, p) IN <<q[1] \div 2, q[2] \div 2>>
\* sign of the cross product / dot product of two real vectors given as lattice pairs of the same kind
SymCross(p, q)     == p[1] * q[2] - p[2] * q[1]
SymDot(oo, p, q)   == IF oo = "flat" THEN p[1] * q[1] + 3 * p[2] * q[2] ELSE 3 * p[1] * q[1] + p[2] * q[2]

\* the cell whose centre is the lattice point p (inverse of SymXY; GeoRotExact checks SymXY(SymCellAt(p)) = p wherever used)
SymCellAt(oo, p)   == IF oo = "flat" THEN <<p[1] \div 3, (p[2] - (p[1] \div 3)) \div 2>>
                                     ELSE <<(p[1] + (p[2] \div 3)) \div 2, ((p[2] \div 3) - p[1]) \div 2>>

(* transcriptions *)
RP(edge, ring, offset) == <<ring, 1 + edge * (ring - 1) + offset>>
AlgRingPos(cc) == LET i == cc[1]  j == cc[2] IN
    IF i > 0 /\ j >= 0       THEN RP(0, i + j + 1, j)
    ELSE IF i <= 0 /\ j > -i THEN RP(1, j + 1, -i)
    ELSE IF i < 0 /\ j > 0   THEN RP(2, -i + 1, -j - i)
    ELSE IF i < 0            THEN RP(3, -i - j + 1, -j)
    ELSE IF i >= 0 /\ j < -i THEN RP(4, -j + 1, i)
    ELSE                          RP(5, i + 1, i + j)
PositionsInRing(r) == IF r = 1 THEN 1 ELSE 6 * (r - 1)

\* deque((i, j, -(i+j))).rotate(-k): new[m] = old[(m + k) mod 3]; the first two entries, negated when k is odd
AlgRot(k, cc) == LET buf == <<cc[1], cc[2], -(cc[1] + cc[2])>>
                     a   == buf[(k % 3) + 1]
                     b   == buf[((k + 1) % 3) + 1]
                 IN  IF k % 2 = 1 THEN <<-a, -b>> ELSE <<a, b>>

\* cell numbers: 1 = centre, then ring by ring in position order (HexBlock.autoCreateSpatialGrids numbers pins so)
TotalUpToRing(r) == 1 + 3 * r * (r - 1)
CellNum(cc)      == LET rp == AlgRingPos(cc) IN IF rp[1] = 1 THEN 1 ELSE TotalUpToRing(rp[1] - 1) + rp[2]
=============================================================================================================
