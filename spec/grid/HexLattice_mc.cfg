\* exhaustive: all cells within 9 rings (217 cells) x 2 orientations, counts 0..220
CONSTANTS N = 9  MaxCount = 220  MaxLevel = 400  KAx = 4
INIT Init
NEXT Next
CONSTRAINT Bound
VIEW View
INVARIANT TypeOK
INVARIANT RingIsDistancePlusOne
INVARIANT RingPosInverse
INVARIANT NeighboursOnePitchCCW
INVARIANT OrientationFree
INVARIANT RingRadius
INVARIANT CodeArithmetic
INVARIANT RingContiguous
INVARIANT NeighbourListIsGeometric
INVARIANT LabelsInjective
INVARIANT RingPosBijection
INVARIANT RingsToHoldExact
PROPERTY RefusalsChangeNothing
CHECK_DEADLOCK FALSE
