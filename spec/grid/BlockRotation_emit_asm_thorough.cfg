\* emission, heterogeneous assemblies of 3 blocks, every first-block layout: edges out of the initial states and their successors
CONSTANTS K = 7  H = 3  NB = 3  Layouts = {"p1", "p7", "p19", "singles", "mixed", "nogrid", "prism", "families"}  TieDi = TRUE  MaxLevel = 3
ACTION_CONSTRAINT Emit
INVARIANT EmitState
INIT Init
NEXT NextE
CONSTRAINT Bound
VIEW View
INVARIANT TypeOK
CHECK_DEADLOCK FALSE
