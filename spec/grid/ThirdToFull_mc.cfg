\* exhaustive and emission in one run (the model is small): 1 loading x 2 core orientations, pre-rotations by 2 or 5 steps; one pre-rotation, Grow, Shrink
CONSTANTS KPre <- KPreQuick  Variants = 1  MaxLevel = 5
ACTION_CONSTRAINT Emit
INVARIANT EmitState
INIT Init
NEXT Next
CONSTRAINT Bound
VIEW View
INVARIANT TypeOK
INVARIANT OneAssemblyPerCell
INVARIANT ThirdCoreInDomain
INVARIANT GrowCount
INVARIANT FullCoreIsSymmetric
INVARIANT ShrinkRestores
CHECK_DEADLOCK FALSE
