---------------------------------------- MODULE CartLattice_mc ----------------------------------------
(* C07 -- a walk over the Cartesian lattice; every reachable state is one case.

   State    v  variant ("centred" | "offset"),  c  current cell,  n  a cell count (counting cases)
   Actions  Step(d)    c' = d-th edge neighbour of c       <- StructuredGrid.getNeighboringCellIndices(i, j)[d-1]
            NoInverse  refusal: (ring, position) -> indices is not implemented for Cartesian grids
                                                            <- CartesianGrid.getIndicesFromRingAndPos raises
            Count      n' = n + 1                           <- CartesianGrid.getMinimumRings / getPositionsInRing  *)
EXTENDS CartLattice, Json

CONSTANTS R,          \* rings explored
          MaxCount, MaxLevel, KAx

VARIABLES v, c, n, act, err
vars == <<v, c, n>>
Vars == [v |-> v, c |-> c, n |-> n]

Init == v \in Variants /\ c = <<0, 0>> /\ n = 1 /\ act = [n |-> "Init"] /\ err = ""

Step(d) == /\ n = 1
           /\ LET t == Neighbours(c)[d] IN t \in Cells(v, R) /\ c' = t
           /\ UNCHANGED <<v, n>>
           /\ act' = [n |-> "Step", d |-> d] /\ err' = ""
NoInverse == /\ n = 1
             /\ UNCHANGED vars
             /\ act' = [n |-> "NoInverse", r |-> Ring(v, c), p |-> Pos(v, c)] /\ err' = "NotImplementedError"
Count == /\ c = <<0, 0>> /\ n < MaxCount
         /\ n' = n + 1 /\ UNCHANGED <<v, c>>
         /\ act' = [n |-> "Count"] /\ err' = ""
Next == (\E d \in 1..4 : Step(d)) \/ NoInverse \/ Count

Bound == TLCGet("level") <= MaxLevel
View  == vars

TypeOK == v \in Variants /\ c \in Cells(v, R) /\ n \in 1..MaxCount /\ (n > 1 => c = <<0, 0>>)
AtCell == n = 1
CodeArithmetic     == AtCell => ThmCodeRingPos(v, c)
CellBox            == AtCell => ThmCellBox(v, c)
NeighboursOnePitch == AtCell => ThmNeighbours(v, c)
AtCorner == AtCell /\ c = Corner(v, Ring(v, c))                 \* one state per ring and variant
RingNumbering      == AtCorner => ThmRing(v, Ring(v, c))
AtOrigin == AtCell /\ c = <<0, 0>>
RingPosInjective   == AtOrigin => ThmRingPosInjective(v, R)
LabelsInjective    == AtOrigin => ThmLabelsInjective(v, R)
MinimumRingsExact  == (c = <<0, 0>>) => ThmMinimumRings(v, n)
RefusalsChangeNothing == [][err' # "" => UNCHANGED vars]_<<vars, act, err>>

CellObs == [c      |-> c,
            ring   |-> Ring(v, c),
            pos    |-> Pos(v, c),
            inring |-> PositionsInRing(v, Ring(v, c)),
            nb     |-> Neighbours(c),
            centre |-> HC(v, c),                 \* half-cell units, offset included
            base   |-> HBase(v, c),
            top    |-> HTop(v, c),
            label2 |-> LabelOf(c),
            label3 |-> LabelOf(<<c[1], c[2], KAx>>),
            nums2  |-> c,
            nums3  |-> <<c[1], c[2], KAx>>,
            loc    |-> <<c[1], c[2], KAx>>]
CountObs == [n |-> n, rings |-> MinimumRings(v, n)]
Obs == [cell |-> CellObs, count |-> CountObs]

Emit == PrintT(ToJson([lvl |-> TLCGet("level"), from |-> Vars, act |-> act', to |-> Vars', err |-> err']))
EmitState == PrintT(ToJson([st |-> Vars, obs |-> Obs]))
=====================================================================================================
