---------------------------------------- MODULE HexLattice_mc ----------------------------------------
(* C07 -- a walk over the hexagonal lattice; every reachable state is one case of the property.

   State      o   orientation of the grid ("flats" | "corners")
              c   the current cell <<i, j>>
              n   a cell count (counting cases; only advanced while the walk sits on the centre cell)
   Actions (one per public entry point of the real grid that moves from indices to indices)
     Step(d)      c' = the d-th neighbour of c      <- HexGrid.getNeighboringCellIndices(i, j)[d-1]
     Advance      c' = the cell with the next (ring, position) number: position+1 in the same ring, or
                  position 1 of the next ring after the last position
                                                     <- getRingPos ; getPositionsInRing ; getIndicesFromRingAndPos
     BadPos(r,p)  refusal: (ring r, position p) with p just outside 1..NumInRing(r): ValueError, nothing changes
                                                     <- HexGrid._indicesAndEdgeFromRingAndPos raise branches
     Count        n' = n + 1                         <- hexagon.numRingsToHoldNumCells / HexGrid.getMinimumRings
   Every clause of the statement about hex grids is an invariant over these states (see cfg); the
   observation Obs is what the harness compares the real grid with, state by state.                      *)
EXTENDS HexLattice, Json

CONSTANTS N,          \* number of rings explored
          MaxCount,   \* counting cases 0..MaxCount
          MaxLevel,
          KAx         \* an axial index used for three-part labels / locators

VARIABLES o, c, n, act, err
vars == <<o, c, n>>
Vars == [o |-> o, c |-> c, n |-> n]

Init == /\ o \in Orients
        /\ c = <<0, 0>>
        /\ n = 0
        /\ act = [n |-> "Init"]
        /\ err = ""

Step(d) == /\ n = 0
           /\ LET t == Neighbours(c)[d] IN Ring(t) <= N /\ c' = t
           /\ UNCHANGED <<o, n>>
           /\ act' = [n |-> "Step", d |-> d]
           /\ err' = ""

NextNumber(rp) == IF rp[2] < NumInRing(rp[1]) THEN <<rp[1], rp[2] + 1>> ELSE <<rp[1] + 1, 1>>
Advance == /\ n = 0
           /\ LET nx == NextNumber(RingPos(c)) IN nx[1] <= N /\ c' = FromRingPos(nx[1], nx[2])
           /\ UNCHANGED <<o, n>>
           /\ act' = [n |-> "Advance"]
           /\ err' = ""

BadPos(r, p) == /\ n = 0
                /\ c = <<0, 0>>
                /\ ~ValidRingPos(r, p)
                /\ UNCHANGED vars
                /\ act' = [n |-> "BadPos", r |-> r, p |-> p]
                /\ err' = "ValueError"

Count == /\ c = <<0, 0>>
         /\ n < MaxCount
         /\ n' = n + 1
         /\ UNCHANGED <<o, c>>
         /\ act' = [n |-> "Count"]
         /\ err' = ""

BadPosAny == n = 0 /\ c = <<0, 0>> /\ \E r \in 1..N : \E p \in {0, NumInRing(r) + 1} : BadPos(r, p)
Next == \/ \E d \in 1..6 : Step(d)
        \/ Advance
        \/ BadPosAny
        \/ Count

Bound == TLCGet("level") <= MaxLevel
View  == vars

(* ------------------------------------------------ invariants ------------------------------------------------ *)
TypeOK == o \in Orients /\ Ring(c) <= N /\ n \in 0..MaxCount /\ (n > 0 => c = <<0, 0>>)
AtCell == n = 0
RingIsDistancePlusOne == AtCell => ThmRingIsGraphDistance(c)
RingPosInverse        == AtCell => ThmRingPosInverse(c)
NeighboursOnePitchCCW == AtCell => ThmNeighbours(o, c)
OrientationFree       == AtCell => ThmOrientationFree(c)
RingRadius            == AtCell => ThmRingRadius(o, c)
CodeArithmetic        == AtCell => ThmCodeRingPos(c) /\ ThmCodeFromRingPos(c) /\ ThmCodeNeighbours(c)
\* per-ring laws are evaluated once per ring: in the state that sits on position 1 of the ring
AtRingStart == AtCell /\ o = "flats" /\ c = RingStart(Ring(c))
RingContiguous        == AtRingStart => ThmRingContiguous(Ring(c)) /\ ThmCounts(Ring(c))
\* whole-lattice laws are evaluated once: in the initial state
AtOrigin == AtCell /\ o = "flats" /\ c = <<0, 0>>
NeighbourListIsGeometric == AtOrigin => ThmNbVecIsGeometric
LabelsInjective       == AtOrigin => ThmLabelsInjective(N)
RingPosBijection      == AtOrigin => ThmRingPosBijection(N)
\* counting
RingsToHoldExact      == (o = "flats" /\ c = <<0, 0>>) => ThmRingsToHold(n)
\* refusals change nothing (action property)
RefusalsChangeNothing == [][err' # "" => UNCHANGED vars]_<<vars, act, err>>

(* ------------------------------------------------ observation ------------------------------------------------ *)
Dbl(oo, cc, s) == <<2 * XY(oo, cc)[1] + s * XY(oo, <<1, 1>>)[1], 2 * XY(oo, cc)[2] + s * XY(oo, <<1, 1>>)[2]>>
CellObs == LET rp == RingPosIn(o, c) IN
    [c      |-> c,                              \* what every route back to indices must give
     loc    |-> <<c[1], c[2], KAx>>,            \* the locator object grid[i, j, k]
     ring   |-> rp[1],
     pos    |-> rp[2],
     inring |-> NumInRing(rp[1]),
     upto   |-> TotalUpTo(rp[1]),
     nb     |-> NeighboursIn(o, c),
     xy     |-> XY(o, c),                       \* centre, lattice units
     xu     |-> XUnit(o),
     yu     |-> YUnit(o),
     base2  |-> Dbl(o, c, -1),                  \* 2 * (base - offset), lattice units: U.(idx - 1/2)
     top2   |-> Dbl(o, c, 1),                   \* 2 * (top  - offset), lattice units: U.(idx + 1/2)
     label2 |-> LabelOf(HexLabelNums(c)),
     label3 |-> LabelOf(HexLabelNums3(c, KAx)),
     nums2  |-> HexLabelNums(c),
     nums3  |-> HexLabelNums3(c, KAx),
     k      |-> KAx,
     d2     |-> Len2(o, c)]                     \* |centre|^2 in (side/2)^2; pitch^2 = 12
CountObs == [rings |-> RingsToHold(n), n |-> n]
Obs == IF n = 0 THEN [cell |-> CellObs] ELSE [count |-> CountObs]

Emit == PrintT(ToJson([lvl |-> TLCGet("level"), from |-> Vars, act |-> act', to |-> Vars', err |-> err']))
EmitState == PrintT(ToJson([st |-> Vars, obs |-> Obs]))
=====================================================================================================
