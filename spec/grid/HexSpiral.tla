------------------------------------------- MODULE HexSpiral -------------------------------------------
(* C07 -- the hex numbering as a transition system: walk the rings counter-clockwise, ring after ring.

   State  ring, pos   the running (ring, position) number, both 1-based
          ci, cj      the cell <<i, j>> the walk is on
   Init   (1, 1, 0, 0);  Next = HexCore!SpiralStep (next position = counter-clockwise neighbour in the same ring;
          after the last position of a ring, position 1 of the next ring at RingStart).
   IndInv (inductive, proven for every ring by Apalache, see HexSpiral_apa.tla; checked by TLC up to a ring
          bound with HexSpiral_mc.cfg):
     (a) the closed forms agree with the walk:  CodeFromRingPos(ring, pos) = <<ci, cj>> without raising, and
         CodeRingPos(<<ci, cj>>) = <<ring, pos>>
     (b) 1 <= pos <= CodeNumInRing(ring)
     (c) ring = max(|i|, |j|, |i+j|) + 1
   Progress: in every IndInv state the closed form's successor number is a SpiralStep, so the walk never sticks.
   No auxiliary variables were needed: Apalache 0.58 / Z3 discharges the divmod of the closed form (division by
   the variable ring - 1) directly; everything else is linear (products are literal * term after inlining).
   Non-vacuity was checked by hand: IndInit has models at arbitrary rings (e.g. ring 37, position 100), and three
   seeded slips in HexCore (edge-4 cell, edge-3 offset, positions-in-ring + 1) each yield a counterexample to the
   inductive step.                                                                                          *)
EXTENDS HexCore

VARIABLES
    \* @type: Int;
    ring,
    \* @type: Int;
    pos,
    \* @type: Int;
    ci,
    \* @type: Int;
    cj

Init == ring = 1 /\ pos = 1 /\ ci = 0 /\ cj = 0
Next == \E r2 \in {ring, ring + 1} : \E di \in -1..1 : \E dj \in -1..1 : \E p2 \in {1, pos + 1} :
            /\ SpiralStep(ring, pos, <<ci, cj>>, r2, p2, <<ci + di, cj + dj>>)
            /\ ring' = r2 /\ pos' = p2 /\ ci' = ci + di /\ cj' = cj + dj

ClosedFormsAgree == /\ ~CodeRaisesAt(ring, pos)
                    /\ CodeFromRingPos(ring, pos) = <<ci, cj>>
                    /\ CodeRingPos(<<ci, cj>>) = <<ring, pos>>
PosInRange == 1 <= pos /\ pos <= CodeNumInRing(ring)
RingIsDistance == ring = Dist(<<ci, cj>>) + 1
IndInv == ring >= 1 /\ ClosedFormsAgree /\ PosInRange /\ RingIsDistance
\* the walk never gets stuck: some step is always possible (so the invariant is not vacuous beyond a dead end)
\* checked by TLC for the bounded run as ENABLED-free formula: the closed form's next cell is a SpiralStep
Progress == LET r2 == IF pos < CodeNumInRing(ring) THEN ring ELSE ring + 1
                p2 == IF pos < CodeNumInRing(ring) THEN pos + 1 ELSE 1
            IN SpiralStep(ring, pos, <<ci, cj>>, r2, p2, CodeFromRingPos(r2, p2))
=====================================================================================================
