-------------------------------------------- MODULE HexCore --------------------------------------------
(* C07 -- the integer core of the hexagonal lattice: distance, lattice vectors, plane coordinates and the
   CLOSED FORMS that transcribe armi's ring/position arithmetic.  PURE, typed for Apalache (the @type comments
   are ignored by SANY/TLC).  HexLattice.tla EXTENDS this module, so these are the very operators that TLC
   evaluates in HexLattice_mc (bounded) and that the conformance replay binds to the real code; HexSpiral.tla
   EXTENDS it too, and HexSpiral_apa proves with Apalache, for EVERY ring, that the closed forms agree with
   the counter-clockwise walk around the rings.

   Closed forms (line-by-line transcriptions, see HexLattice.tla header):
     CodeRingPos(c)          <- HexGrid.indicesToRingPos           (six edge branches, positionBase + offset)
     CodeRaisesAt(r, p),
     CodeFromRingPos(r, p)   <- HexGrid._indicesAndEdgeFromRingAndPos: ValueError branches resp. the (i, j) result
     CodeNeighbours(c)       <- HexGrid.getNeighboringCellIndices
     CodeNumInRing(r)        <- hexagon.numPositionsInRing                                                   *)
EXTENDS Integers, Sequences

\* @type: Int => Int;
HAbs(x) == IF x < 0 THEN -x ELSE x
\* @type: (Int, Int) => Int;
HMax(a, b) == IF a >= b THEN a ELSE b

\* @type: <<Int, Int>> => Int;
Dist(c) == HMax(HMax(HAbs(c[1]), HAbs(c[2])), HAbs(c[1] + c[2]))
\* @type: <<Int, Int>> => Int;
Ring(c) == Dist(c) + 1
\* @type: (<<Int, Int>>, <<Int, Int>>) => <<Int, Int>>;
CAdd(a, b) == <<a[1] + b[1], a[2] + b[2]>>
\* @type: (<<Int, Int>>, <<Int, Int>>) => <<Int, Int>>;
CSub(a, b) == <<a[1] - b[1], a[2] - b[2]>>

(* ------------------------------------------ exact plane geometry ------------------------------------------ *)
\* @type: <<Int, Int>> => Int;
XFlatsUp(c)   == 3 * c[1]
\* @type: <<Int, Int>> => Int;
YFlatsUp(c)   == c[1] + 2 * c[2]
\* @type: <<Int, Int>> => Int;
XCornersUp(c) == c[1] - c[2]
\* @type: <<Int, Int>> => Int;
YCornersUp(c) == 3 * (c[1] + c[2])
\* @type: (Str, <<Int, Int>>) => <<Int, Int>>;
XY(o, c) == IF o = "flats" THEN <<XFlatsUp(c), YFlatsUp(c)>> ELSE <<XCornersUp(c), YCornersUp(c)>>
\* on plane vectors A, B = XY(o, .)
\* @type: (<<Int, Int>>, <<Int, Int>>) => Int;
CrossV(A, B)   == A[1] * B[2] - A[2] * B[1]                                   \* * sqrt(3)(side/2)^2
\* on lattice vectors a, b (differences of cells); XY is linear
\* @type: (Str, <<Int, Int>>, <<Int, Int>>) => Int;
Cross(o, a, b) == CrossV(XY(o, a), XY(o, b))

\* @type: Int => <<Int, Int>>;
RingStart(r) == <<r - 1, 0>>
\* the six lattice vectors of length one pitch, counter-clockwise from the <<1,0>> step (HexLattice.tla proves
\* with ThmNbVecIsGeometric that this list is the geometric one for both orientations)
\* @type: Seq(<<Int, Int>>);
NbVec == << <<1, 0>>, <<0, 1>>, <<-1, 1>>, <<-1, 0>>, <<0, -1>>, <<1, -1>> >>

(* ------------------------------------------ transcriptions of the code ------------------------------------------ *)
\* positionBase + offset with positionBase = 1 + edge * (ring - 1)
\* @type: (Int, Int, Int) => <<Int, Int>>;
RingAndPos(edge, ring, offset) == <<ring, (1 + edge * (ring - 1)) + offset>>
\* @type: <<Int, Int>> => <<Int, Int>>;
CodeRingPos(c) ==
    LET i == c[1]
        j == c[2]
    IN IF i > 0 /\ j >= 0 THEN RingAndPos(0, i + j + 1, j)
       ELSE IF i <= 0 /\ j > -i THEN RingAndPos(1, j + 1, -i)
       ELSE IF i < 0 /\ j > 0 THEN RingAndPos(2, -i + 1, -j - i)
       ELSE IF i < 0 THEN RingAndPos(3, -i - j + 1, -j)
       ELSE IF i >= 0 /\ j < -i THEN RingAndPos(4, -j + 1, i)
       ELSE RingAndPos(5, i + 1, i + j)

\* the (i, j) of edge `edge`, 0-based `offset` on it, in the ring at distance `ring` (the six branches of the code)
\* @type: (Int, Int, Int) => <<Int, Int>>;
CellOnEdge(ring, edge, offset) ==
    IF edge = 0 THEN <<ring - offset, offset>>
    ELSE IF edge = 1 THEN <<-offset, ring>>
    ELSE IF edge = 2 THEN <<-ring, ring - offset>>
    ELSE IF edge = 3 THEN <<offset - ring, -offset>>
    ELSE IF edge = 4 THEN <<offset, -ring>>
    ELSE <<ring, offset - ring>>
\* TRUE iff the code raises ValueError for (ring r, position p)   [ring == r - 1, pos == p - 1, divmod(pos, ring)]
\* @type: (Int, Int) => Bool;
CodeRaisesAt(r, p) ==
    IF r - 1 = 0 THEN p - 1 # 0
    ELSE ((p - 1) \div (r - 1)) \notin 0..5        \* python divmod floors, like TLA+ \div and % for ring > 0
\* the code's (i, j) where it does not raise
\* @type: (Int, Int) => <<Int, Int>>;
CodeFromRingPos(r, p) ==
    IF r - 1 = 0 THEN <<0, 0>>
    ELSE CellOnEdge(r - 1, (p - 1) \div (r - 1), (p - 1) % (r - 1))

\* @type: <<Int, Int>> => Seq(<<Int, Int>>);
CodeNeighbours(c) == LET i == c[1] j == c[2] IN
    << <<i + 1, j>>, <<i, j + 1>>, <<i - 1, j + 1>>, <<i - 1, j>>, <<i, j - 1>>, <<i + 1, j - 1>> >>

\* @type: Int => Int;
CodeNumInRing(r) == IF r # 1 THEN (r - 1) * 6 ELSE 1

(* ------------------------------------------ the walk around the rings ------------------------------------------ *)
\* b = a + v is the neighbour of a in the same ring that lies counter-clockwise of a (cross product of the cell
\* vectors > 0; Cross(a, a + v) = Cross(a, v) because the cross product is bilinear and Cross(a, a) = 0)
\* @type: (<<Int, Int>>, <<Int, Int>>, <<Int, Int>>) => Bool;
CcwInRing(a, b, v) == b = CAdd(a, v) /\ Dist(b) = Dist(a) /\ Cross("flats", a, v) > 0
\* one step of the numbering: the next position of the same ring is the counter-clockwise neighbour in the ring;
\* after the last position of a ring comes position 1 of the next ring, at RingStart
\* @type: (Int, Int, <<Int, Int>>, Int, Int, <<Int, Int>>) => Bool;
SpiralStep(r, p, a, r2, p2, b) ==
    \/ /\ p < CodeNumInRing(r) /\ r2 = r /\ p2 = p + 1
       /\ \/ CcwInRing(a, b, <<1, 0>>) \/ CcwInRing(a, b, <<0, 1>>) \/ CcwInRing(a, b, <<-1, 1>>)
          \/ CcwInRing(a, b, <<-1, 0>>) \/ CcwInRing(a, b, <<0, -1>>) \/ CcwInRing(a, b, <<1, -1>>)
    \/ /\ p = CodeNumInRing(r) /\ r2 = r + 1 /\ p2 = 1 /\ b = RingStart(r + 1)
=====================================================================================================
