----------------------------------------- MODULE CartSymmetry_mc -----------------------------------------
EXTENDS CartSymmetry
\* cell sizes in whole length units: square, 2 x 1 and 1 x 3 (for non-square cells only the reflections are symmetries)
RectP   == {<<1, 1>>, <<2, 1>>, <<1, 3>>}
SquareP == {<<1, 1>>, <<3, 3>>}
Bound == TLCGet("level") <= MaxLevel
\* states on the last level are checked but not expanded (their successors would be thrown away by Bound anyway)
ApplyB(g) == TLCGet("level") < MaxLevel /\ g \in Gens(bc) /\ Apply(g)
ChangePitchB(p) == TLCGet("level") < MaxLevel /\ p \in Pitches(bc) /\ ChangePitch(p)
NextB == \/ \E g \in {"R90", "MX", "MY"} : ApplyB(g)
         \/ \E p \in RectP \cup SquareP : ChangePitchB(p)
View  == vars
Emit  == PrintT(ToJson([lvl |-> TLCGet("level"), from |-> Vars, act |-> [n |-> act'.n, g |-> act'.g],
                        to |-> [th |-> th', bc |-> bc', c |-> c', pitch |-> pitch', sp |-> sp'],
                        obs |-> [c |-> c', xy |-> IF act'.n = "Apply" THEN ApplyGen(act'.g, GeoCentre(th, pitch, c))
                                                  ELSE GeoCentre(th, pitch', c)]]))
EmitState == InitLike => PrintT(ToJson([st |-> Vars, obs |-> Obs]))     \* images keep the spelling: not new cases
NextE == NextB                                                        \* emission: only the initial states are expanded
==========================================================================================================
