----------------------------------------- MODULE CartSymmetry_mc -----------------------------------------
EXTENDS CartSymmetry
Bound == TLCGet("level") <= MaxLevel
View  == vars
Emit  == PrintT(ToJson([lvl |-> TLCGet("level"), from |-> Vars, act |-> [n |-> act'.n, g |-> act'.g],
                        to |-> [th |-> th', bc |-> bc', c |-> c'],
                        obs |-> [c |-> c', xy |-> ApplyGen(act'.g, CXY(th, c))]]))
EmitState == PrintT(ToJson([st |-> Vars, obs |-> Obs]))
==========================================================================================================
