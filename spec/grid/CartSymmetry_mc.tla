----------------------------------------- MODULE CartSymmetry_mc -----------------------------------------
EXTENDS CartSymmetry
Bound == TLCGet("level") <= MaxLevel
\* states on the last level are checked but not expanded (their successors would be thrown away by Bound anyway)
ApplyB(g) == TLCGet("level") < MaxLevel /\ g \in Gens(bc) /\ Apply(g)
NextB == \E g \in {"R90", "MX", "MY"} : ApplyB(g)
View  == vars
Emit  == PrintT(ToJson([lvl |-> TLCGet("level"), from |-> Vars, act |-> [n |-> act'.n, g |-> act'.g],
                        to |-> [th |-> th', bc |-> bc', c |-> c'],
                        obs |-> [c |-> c', xy |-> ApplyGen(act'.g, CXY(th, c))]]))
EmitState == PrintT(ToJson([st |-> Vars, obs |-> Obs]))
==========================================================================================================
