\* emission (workers 1): same constants as CartLattice_mc.cfg
CONSTANTS R = 6  MaxCount = 150  MaxLevel = 400  KAx = 4
ACTION_CONSTRAINT Emit
INVARIANT EmitState
INIT Init
NEXT Next
CONSTRAINT Bound
VIEW View
INVARIANT TypeOK
CHECK_DEADLOCK FALSE
