\* emission (workers 1): one JSON line per explored edge and per distinct state; same constants as HexLattice_mc.cfg
CONSTANTS N = 9  MaxCount = 220  MaxLevel = 400  KAx = 4
ACTION_CONSTRAINT Emit
INVARIANT EmitState
INIT Init
NEXT Next
CONSTRAINT Bound
VIEW View
INVARIANT TypeOK
CHECK_DEADLOCK FALSE
