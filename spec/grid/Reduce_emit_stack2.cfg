\* emission (workers 1): same model as Reduce_mc_stack2.cfg
CONSTANTS MaxLevel = 30  MaxStack = 2  Rich = FALSE
ACTION_CONSTRAINT Emit
INVARIANT EmitState
INIT Init
NEXT Next
CONSTRAINT Bound
VIEW View
INVARIANT TypeOK
CHECK_DEADLOCK FALSE
