\* exhaustive: all cells within 14 rings x both orientations x k in -13..13 and large k of both signs
CONSTANTS N = 14  K = 13  BigK = {36, 601, 100003, 7000001} AllKz = FALSE  AllSp = FALSE  MaxLevel = 2
INIT Init
NEXT NextB
CONSTRAINT Bound
INVARIANT TypeOK
INVARIANT GeoRotExact
INVARIANT EquivalentsAreImages
INVARIANT EquivalentsOrdered
INVARIANT EquivalentsClosed
INVARIANT OrbitHasOneInDomain
INVARIANT OrbitWithOverlap
INVARIANT FirstThirdIsSector
INVARIANT LinesAgreeWithCoordinates
INVARIANT RingPosIsCcwWalk
INVARIANT CellNumberRotation
INVARIANT RotateIsGeometric
INVARIANT RotateAdditive
INVARIANT RotateSixIsIdentity
INVARIANT RotatePreservesRing
INVARIANT RotateKeepsAxial
CHECK_DEADLOCK FALSE
