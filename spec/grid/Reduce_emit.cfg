\* emission (workers 1): same model as Reduce_mc.cfg
CONSTANTS MaxLevel = 12
ACTION_CONSTRAINT Emit
INVARIANT EmitState
INIT Init
NEXT Next
CONSTRAINT Bound
VIEW View
INVARIANT TypeOK
CHECK_DEADLOCK FALSE
