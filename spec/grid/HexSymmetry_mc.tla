----------------------------------------- MODULE HexSymmetry_mc -----------------------------------------
EXTENDS HexSymmetry
Bound == TLCGet("level") <= MaxLevel
\* states on the last level are checked but not expanded (their successors would be thrown away by Bound anyway)
RotateB(k) == TLCGet("level") < MaxLevel /\ Rotate(k)
NextB == \E k \in KSet : RotateB(k)
NextE == NextB                                  \* emission: only the initial states are expanded
View  == vars                                   \* emission configs: one node per (o, c); act hidden
\* one line per explored Rotate edge; the expected cell and coordinates are the GEOMETRIC images
Emit  == PrintT(ToJson([lvl |-> TLCGet("level"), from |-> Vars, act |-> [n |-> act'.n, k |-> act'.k],
                        to |-> [o |-> o', c |-> c', kz |-> kz', sp |-> sp'],
                        obs |-> [c  |-> GeoRot(o, act'.k, c),
                                 xy |-> SymRotVec(o, act'.k, SymXY(o, c)),
                                 ring |-> SymRing(c),
                                 kz |-> kz, z |-> kz]]))       \* z in units of the axial step
\* one line per distinct (o, c): every query result
EmitState == InitLike => PrintT(ToJson([st |-> Vars, obs |-> Obs]))   \* rotated locations keep their kz / sp: not new cases
=========================================================================================================
