---------------------------------------- MODULE HexSymmetry_trace ----------------------------------------
(* code -> spec: recorded random walks of HexGrid.rotateIndex on a real grid.  A trace is
   {"id", "o": "flat"|"corner", "c0": [i,j], "kz0": k, "ev": [{"a": {"n": "Rotate", "k": k}, "post": {"c": [i,j], "xy": [X,Y], "kz": k, "z": Z}}, ..]}
   where xy are the real coordinates of the returned location divided by the lattice units.  Every event must be a
   Rotate(k) step of HexSymmetry that lands on the logged cell, whose lattice coordinates are the logged ones. *)
EXTENDS HexSymmetry, IOUtils, TLCExt
Traces == ndJsonDeserialize(IOEnv.TRACE_FILE)
NT     == Len(Traces)
VARIABLES tid, l
ASSUME \A t \in 1..NT : TLCSet(t, 0)
TInit == /\ tid \in 1..NT /\ l = 1
         /\ o = Traces[tid].o /\ c = <<Traces[tid].c0[1], Traces[tid].c0[2]>>
         /\ kz = Traces[tid].kz0 /\ sp = "canonical"
         /\ act = [n |-> "Init", k |-> 0, from |-> c, kz |-> kz]
Ev == Traces[tid].ev[l]
ObsMatch == \/ (c' = <<Ev.post.c[1], Ev.post.c[2]>> /\ SymXY(o, c') = <<Ev.post.xy[1], Ev.post.xy[2]>> /\ kz' = Ev.post.kz /\ kz' = Ev.post.z)
            \/ /\ ~(c' = <<Ev.post.c[1], Ev.post.c[2]>> /\ SymXY(o, c') = <<Ev.post.xy[1], Ev.post.xy[2]>> /\ kz' = Ev.post.kz /\ kz' = Ev.post.z)
               /\ PrintT(ToJson([mismatch |-> Traces[tid].id, at |-> l, expected |-> [c |-> c', xy |-> SymXY(o, c'), kz |-> kz']]))
               /\ FALSE
TNext == /\ l <= Len(Traces[tid].ev) /\ l' = l + 1 /\ tid' = tid
         /\ Ev.a.n = "Rotate" /\ Rotate(Ev.a.k)
         /\ ObsMatch
TSpec == TInit /\ [][TNext]_<<o, c, kz, sp, act, tid, l>>
Progress == IF TLCGet(tid) < l THEN TLCSet(tid, l) ELSE TRUE
Report == LET bad == {t \in 1..NT : TLCGet(t) # Len(Traces[t].ev) + 1} IN
          /\ \A t \in bad : PrintT(ToJson([rejected |-> Traces[t].id, matched |-> TLCGet(t) - 1]))
          /\ PrintT(ToJson([accepted |-> NT - Cardinality(bad), of |-> NT]))
==========================================================================================================
