\* the walk through the first 24 rings (1657 cells + the first cell of ring 25)
CONSTANTS MaxRing = 24
INIT Init
NEXT Next
CONSTRAINT Bound
INVARIANT IndInv
INVARIANT Progress
CHECK_DEADLOCK TRUE
