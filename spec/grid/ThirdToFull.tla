-------------------------------------------- MODULE ThirdToFull --------------------------------------------
(* C08 -- growing a third-core hexagonal core to the full core (ThirdCoreHexToFullCoreChanger.convert /
   restorePreviousGeometry, armi/reactor/converters/geometryConverters.py) as a client of the symmetry and rotation
   operations: every assembly of the modelled third is copied to its symmetric equivalents, and the copy placed in the
   cell that is the source cell turned by n*120 degrees must itself be turned by n*120 degrees (2n sixty-degree steps),
   so that the full core is mapped onto itself -- positions AND the orientation-sensitive contents of every assembly --
   by a rotation of 120 degrees about the core axis.

   STATE
     o      orientation of the core grid ("flat" | "corner");  v = which loading
     core   the assemblies: records [c = cell, cfg = block configurations (bottom to top, as in BlockRotation),
            steps = sixty-degree steps the assembly has been turned by so far (mod 6), orig = loaded, not a copy]
     sym    "third" | "full";  pre = a source assembly has been pre-rotated (at most one PreRotate per behaviour)
   ACTIONS
     PreRotate(x,k)  HexAssembly.rotate(k*pi/3) on the assembly at LoadCells[x] before the conversion, so that copies
                     start from a turned source and orientations pass 360 degrees (300 + 240, ...)
     Grow            convert(): for each assembly a not at the centre and n = 1, 2: deep copy, rotate by n*120 degrees, add
                     at getSymmetricEquivalents(a)[n-1] = the cell of a turned by n*120 degrees;  symmetry := full
     Shrink          restorePreviousGeometry(): the copies are removed, symmetry := third periodic
   The block state of an assembly is BlockRotation's: RotB(InitBlock(cfg), steps) (BlockRotation is instantiated for its
   operators only); cells and their images come from SymLattice (GeoRot as in HexSymmetry).

   INVARIANTS
     FullCoreIsSymmetric     in the full core the cell of every assembly turned by 120/240 degrees holds an assembly of the
                             same configuration turned by 2/4 steps more
     OneAssemblyPerCell, GrowCount (3 x off-centre + centre), ThirdCoreInDomain, ShrinkRestores
*)
EXTENDS SymLattice, TLC, Json

CONSTANTS KPre,        \* sixty-degree steps used by PreRotate
          Variants,    \* loadings 0..Variants-1
          MaxLevel
VARIABLES o, v, core, sym, pre, act
vars == <<o, v, core, sym, pre>>

BR == INSTANCE BlockRotation WITH K <- 0, H <- 0, NB <- 1, Layouts <- {"p1"}, TieDi <- TRUE, MaxLevel <- 0,
                                  blocks <- <<>>, tot <- <<>>, err <- "", act <- [n |-> "Init"], prev <- <<>>

Orients   == {"flat", "corner"}
GeoRot(oo, k, cc) == SymCellAt(oo, SymRotVec(oo, k, SymXY(oo, cc)))
\* the modelled third (closed-open sector from the direction of cell (2,-1) to the direction of cell (-1,2)), as in HexSymmetry
InThird(oo, cc) == \/ cc = Centre
                   \/ LET p == SymXY(oo, cc) IN /\ SymCross(SymXY(oo, <<2, -1>>), p) >= 0
                                                /\ SymCross(p, SymXY(oo, <<-1, 2>>)) > 0

LoadCells == << <<0, 0>>, <<1, 0>>, <<2, -1>>, <<1, 1>>, <<0, 2>>, <<3, -1>> >>
NLoad     == Len(LoadCells)
NLay      == Len(BR!LayoutSeq)
\* two blocks per assembly; layouts, pin-grid orientations and parameter variants cycle with the position and the loading
AsmCfg(x, vv) == << [o |-> IF (x + vv) % 2 = 0 THEN "flat" ELSE "corner", lay |-> BR!LayoutSeq[((x + 3 * vv) % NLay) + 1],
                     di |-> ((x + vv) % BR!NDisp) + 1],
                    [o |-> IF (x + vv) % 2 = 0 THEN "corner" ELSE "flat", lay |-> BR!LayoutSeq[((x + 3 * vv + 4) % NLay) + 1],
                     di |-> ((x + vv + 1) % BR!NDisp) + 1] >>

Init == /\ o \in Orients /\ v \in 0..(Variants - 1)
        /\ core = {[c |-> LoadCells[x], cfg |-> AsmCfg(x, v), steps |-> 0, orig |-> TRUE] : x \in 1..NLoad}
        /\ sym = "third" /\ pre = FALSE /\ act = [n |-> "Init"]

PreRotate(x, k) ==
    /\ sym = "third" /\ ~pre
    /\ core' = {IF a.c = LoadCells[x] THEN [a EXCEPT !.steps = (@ + k) % 6] ELSE a : a \in core}
    /\ pre' = TRUE /\ act' = [n |-> "PreRotate", x |-> x, k |-> k]
    /\ UNCHANGED <<o, v, sym>>
Copies(a) == IF a.c = Centre THEN {}
             ELSE {[c |-> GeoRot(o, 2 * n, a.c), cfg |-> a.cfg, steps |-> (a.steps + 2 * n) % 6, orig |-> FALSE] : n \in {1, 2}}
Grow == /\ sym = "third"
        /\ core' = core \cup UNION {Copies(a) : a \in core}
        /\ sym' = "full" /\ act' = [n |-> "Grow"]
        /\ UNCHANGED <<o, v, pre>>
Shrink == /\ sym = "full"
          /\ core' = {a \in core : a.orig}
          /\ sym' = "third" /\ act' = [n |-> "Shrink"]
          /\ UNCHANGED <<o, v, pre>>
Next == \/ \E x \in 1..NLoad, k \in KPre : PreRotate(x, k)
        \/ Grow
        \/ Shrink

TypeOK == /\ o \in Orients /\ sym \in {"third", "full"} /\ pre \in BOOLEAN
          /\ \A a \in core : a.steps \in 0..5
OneAssemblyPerCell == Cardinality({a.c : a \in core}) = Cardinality(core)
ThirdCoreInDomain  == sym = "third" => \A a \in core : a.orig /\ InThird(o, a.c)
GrowCount == sym = "full" => Cardinality(core) = 3 * Cardinality({a \in core : a.orig /\ a.c # Centre})
                                                  + Cardinality({a \in core : a.c = Centre})
FullCoreIsSymmetric == sym = "full" => \A a \in core : a.c # Centre => \A m \in {2, 4} :
    \E b \in core : /\ b.c = GeoRot(o, m, a.c)
                    /\ 2 * SymXY(o, b.c)[1] = SymRot2(o, m, SymXY(o, a.c))[1]      \* really the centre turned by m*60 degrees
                    /\ 2 * SymXY(o, b.c)[2] = SymRot2(o, m, SymXY(o, a.c))[2]
                    /\ b.cfg = a.cfg /\ b.steps = (a.steps + m) % 6
ShrinkRestores == act.n = "Shrink" => \A a \in core : a.orig

CellLess(a, b) == a[1] < b[1] \/ (a[1] = b[1] /\ a[2] < b[2])
CoreSeq == SetToSortSeq(core, LAMBDA a, b : CellLess(a.c, b.c))
ObsAsm(a) == [c |-> a.c, xy |-> SymXY(o, a.c),
              blocks |-> [b \in 1..Len(a.cfg) |-> BR!ObsBlock(BR!RotB(BR!InitBlock(a.cfg[b]), a.steps))]]
Obs  == [sym |-> sym, core |-> [x \in 1..Len(CoreSeq) |-> ObsAsm(CoreSeq[x])]]
StepsOf(x) == (CHOOSE a \in core : a.orig /\ a.c = LoadCells[x]).steps
Vars == [o |-> o, v |-> v, sym |-> sym, load |-> [x \in 1..NLoad |-> [c |-> LoadCells[x], cfg |-> AsmCfg(x, v)]],
         steps |-> [x \in 1..NLoad |-> StepsOf(x)]]
=============================================================================================================
