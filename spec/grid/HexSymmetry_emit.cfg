\* emission: every Rotate edge out of every (o, c) and one observation line per (o, c)
CONSTANTS N = 7  K = 7  BigK = {36, 601, 100003} AllKz = FALSE  AllSp = FALSE  MaxLevel = 2
ACTION_CONSTRAINT Emit
INVARIANT EmitState
INIT Init
NEXT NextE
CONSTRAINT Bound
VIEW View
INVARIANT TypeOK
CHECK_DEADLOCK FALSE
