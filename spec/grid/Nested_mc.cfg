\* exhaustive: every nesting of the eight grid kinds up to three deep, two sample cells per grid
CONSTANTS Depth = 3  NIdx = 2  MaxLevel = 30
INIT Init
NEXT Next
CONSTRAINT Bound
VIEW View
INVARIANT TypeOK
INVARIANT GlobalIsSumOfLocals
INVARIANT CompleteIndicesRule
INVARIANT CellsAreAffine
INVARIANT GlobalBoxAroundCentre
INVARIANT NativeIsXYZWithoutTrz
INVARIANT MoveShiftsSubtree
PROPERTY RefusalsChangeNothing
CHECK_DEADLOCK FALSE
