\* exhaustive: cells with |index| <= 12 x {centre cell, no centre cell} x {periodic (square cells), reflective, full (square, 2x1, 1x3 cells)};
\* act is part of the state; MaxLevel 3 = every Apply / ChangePitch step out of every state reached by one step
CONSTANTS R = 12  MaxLevel = 3  RectPitches <- RectP  SquarePitches <- SquareP  AllSp = FALSE
INIT Init
NEXT NextB
CONSTRAINT Bound
INVARIANT TypeOK
INVARIANT OffsetIsHalfCell
INVARIANT CentreIsGeometric
INVARIANT CellAtExact
INVARIANT GroupOrder
INVARIANT EquivalentsAreImages
INVARIANT DomainIsQuadrant
INVARIANT OrbitHasOneInDomain
INVARIANT LineCellsCounted
INVARIANT OrbitStableUnderGroup
INVARIANT ChangePitchKeepsCells
CHECK_DEADLOCK FALSE
