CONSTANTS N = 14  K = 1  BigK = {}  MaxLevel = 999
SPECIFICATION TSpec
CONSTRAINT Progress
POSTCONDITION Report
INVARIANT RotateIsGeometric
INVARIANT RotatePreservesRing
INVARIANT RotateSixIsIdentity
CHECK_DEADLOCK FALSE
