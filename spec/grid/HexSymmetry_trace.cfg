CONSTANTS N = 14  K = 1  BigK = {} AllKz = FALSE  AllSp = FALSE  MaxLevel = 999
SPECIFICATION TSpec
CONSTRAINT Progress
POSTCONDITION Report
INVARIANT RotateIsGeometric
INVARIANT RotatePreservesRing
INVARIANT RotateKeepsAxial
INVARIANT RotateSixIsIdentity
CHECK_DEADLOCK FALSE
