CONSTANTS K = 1  H = 1  NB = 1  Layouts = {"p1"}  TieDi = TRUE  MaxLevel = 999
SPECIFICATION TSpec
CONSTRAINT Progress
POSTCONDITION Report
INVARIANT TypeOK
INVARIANT ShapeKept
INVARIANT CellsFollowGeometry
INVARIANT FamiliesStayDisjoint
INVARIANT FreePointsFollowGeometry
INVARIANT BoundaryDataFollowGeometry
INVARIANT OtherValuesUntouched
INVARIANT DisplacementFollowsGeometry
INVARIANT OrientationAdvances
INVARIANT OnlyTargetsMove
INVARIANT RefusalChangesNothing
INVARIANT LegalIsAccepted
INVARIANT Additive
INVARIANT SixIsIdentity
CHECK_DEADLOCK FALSE
