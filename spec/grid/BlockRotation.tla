------------------------------------------ MODULE BlockRotation ------------------------------------------
(* C08, block / assembly part -- HexBlock.rotate, Assembly.rotate, HexAssembly.rotate (armi/reactor/blocks.py,
   assemblies.py, utils/iterables.py pivot): "rotating a hex block or assembly moves its pins, free-coordinate
   children, per-corner/per-edge data, displacement vector and orientation accordingly".

   ABSTRACT STATE    blocks = the blocks of one assembly, bottom to top; a block is a record
     o      orientation of the block's pin grid ("flat" | "corner"), lay = layout name     (static)
     kids   its children in child order; a child carries one kind of locator:
              "multi"  MultiIndexLocation : cells = the pin-grid cells (i,j) it occupies, in order
              "index"  IndexLocation      : cells = <<the cell>>
              "coord"  CoordinateLocation : xyz = <<X, Y, Z>>, a free point; X,Y are a lattice vector of the
                       "flat" kind (real point (X, r3 Y) * u; X = Y mod 2 keeps 60-degree rotations exact)
              "none"   spatialLocator is None
            clad = the child is CLAD-flagged, i.e. its cells are pins (getPinLocations / getPinCoordinates)
     bp     the boundary parameters, by slot (the harness spreads ALL real CORNERS/EDGES parameters over the
            slots): [kind, v]: a six-vector (one datum per corner/edge, numbered counter-clockwise; the datum is a number
            or, kind "rows", a whole vector: a (6, n) array or six lists/arrays -- the ROW moves), or one of the
            values the code leaves alone: an empty list (not defined yet), a scalar, None, a vector of another length
     disp   displacement vector <<X, Y>> (lattice vector of the "flat" kind) or <<>> when unset (None)
     deg    orientation about z in degrees, kept modulo 360 (the code accumulates without reducing; an angle is
            meant, the harness projects orientation[2] mod 360)
   tot[b]  ghost: number of sixty-degree steps applied to block b so far, modulo 6
   prev    ghost: blocks before the last action;   act, err: last action and its outcome

   ACTIONS (one per public mutator; the requested angle is k*pi/3, the harness converts with armi's own
            _rotationNumberToRadians form  k * math.pi / 3)
     RotateBlock(b,k)          HexBlock.rotate(rad) on block b alone:   rotNum = round((rad mod 2pi)/60deg) = k mod 6;
                               _rotateChildLocations: every cell -> rotateIndex(cell, rotNum) (AlgRot), every free
                               point turned by the rotation matrix of rad, z kept, nothing moves when the block has no
                               spatial grid; orientation[2] += 60 rotNum; _rotateBoundaryParameters: six-vectors ->
                               pivot(v, -rotNum); _rotateDisplacement: rotation matrix of rad
     RotateAssembly(k)         HexAssembly.rotate(rad) -> Assembly.rotate: every block rotates by the same angle
     RotateAssemblyOffGrid(h)  HexAssembly.rotate(h*pi/6), h odd: not a multiple of 60 degrees: documented ValueError,
                               nothing changes
   k ranges over -K..K: the statement has no bound on k and no restriction on its sign.

   PROPERTY CLAUSES -> INVARIANTS (all about the step prev --act--> blocks, or about the state)
     pins and all grid children move by the lattice rotation ............. CellsFollowGeometry  (per child and per site: the
                                            centre turns by k*60 ccw, whether or not the child is a pin), FamiliesStayDisjoint
     free-coordinate children ............................................. FreePointsFollowGeometry
     per-corner / per-edge data ............................................ BoundaryDataFollowGeometry (the datum -- number
                                            or whole row -- at direction d is afterwards found at direction Rot(d)),
                                            OtherValuesUntouched
     displacement vector ................................................... DisplacementFollowsGeometry
     orientation ........................................................... OrientationAdvances
     assembly = every block, block = only that block ....................... OnlyTargetsMove
     refusal leaves everything in place / legal requests are accepted ...... RefusalChangesNothing, LegalIsAccepted
     composes additively, identity at six .................................. Additive, SixIsIdentity
     shape of the block is not altered ..................................... ShapeKept

   INTERPRETATION CHOICES
     * Corner/edge data are numbered counter-clockwise: a rotation by k steps moves the datum at index m to index
       (m+k) mod 6 (this is what pivot(v,-rotNum) does and what test_hexBlockRotate expects).
     * Pin-indexed parameters (linPowByPin, ...) are attached to pin m wherever it sits; they are not part of the
       statement and are not modelled.
     * orientation is compared as an angle (mod 360); HexBlock.getRotationNum() must be that angle in sixty-degree steps,
       0..5, whatever the history (rotate() accumulates orientation[2] without reducing it).
     * A block without a spatial grid has only default children (free point at the origin / no locator).  A child
       without locator inside a block WITH a grid is not modelled: armi cannot even copy such a block
       (Composite.__setstate__ calls spatialLocator.associate on every child).
*)
EXTENDS SymLattice, TLC, Json

CONSTANTS K,           \* rotations by k in -K..K sixty-degree steps
          H,           \* refused requests of h*30 degrees, h odd, |h| <= H
          NB,          \* blocks per assembly
          Layouts,     \* layouts the first block is drawn from (the others follow cyclically, see CfgOfBlock)
          TieDi,       \* FALSE: every displacement / special-value variant di for every layout; TRUE: one per layout
          MaxLevel

VARIABLES blocks, tot, err, act, prev

Orients   == {"flat", "corner"}
LayoutSeq == <<"p1", "p7", "p19", "singles", "mixed", "nogrid", "prism", "families">>
NDisp     == 4

(* --------------------------------------------- block layouts --------------------------------------------- *)
Multi(cl, cs) == [t |-> "multi", clad |-> cl, cells |-> cs, xyz |-> <<>>]
Index(cl, cc) == [t |-> "index", clad |-> cl, cells |-> <<cc>>, xyz |-> <<>>]
Coord(p)      == [t |-> "coord", clad |-> FALSE, cells |-> <<>>, xyz |-> p]
NoLoc         == [t |-> "none", clad |-> FALSE, cells |-> <<>>, xyz |-> <<>>]

\* the first three rings in ring / position order (HexBlock.autoCreateSpatialGrids fills pins in this order); written
\* out once (TLC would otherwise recompute the lookup in every state) and checked against the numbering
Ring3Cells == << <<0, 0>>,
                 <<1, 0>>, <<0, 1>>, <<-1, 1>>, <<-1, 0>>, <<0, -1>>, <<1, -1>>,
                 <<2, 0>>, <<1, 1>>, <<0, 2>>, <<-1, 2>>, <<-2, 2>>, <<-2, 1>>, <<-2, 0>>, <<-1, -1>>, <<0, -2>>,
                 <<1, -2>>, <<2, -2>>, <<2, -1>> >>
ASSUME Len(Ring3Cells) = TotalUpToRing(3) /\ \A m \in 1..Len(Ring3Cells) : CellNum(Ring3Cells[m]) = m
RingCells(n) == SubSeq(Ring3Cells, 1, TotalUpToRing(n))
\* children of a pin block made by autoCreateSpatialGrids from (fuel, clad, wire, coolant, duct)
PinBlock(n) == <<Multi(FALSE, RingCells(n)), Multi(TRUE, RingCells(n)), Multi(FALSE, RingCells(n)),
                 Coord(<<0, 0, 0>>), Coord(<<0, 0, 0>>)>>
Kids(lay) ==
    CASE lay = "p1"      -> <<Multi(TRUE, << <<0, 0>> >>), Index(FALSE, <<0, 0>>), Coord(<<0, 0, 0>>)>>
      [] lay = "p7"      -> PinBlock(2)
      [] lay = "p19"     -> PinBlock(3)
      [] lay = "singles" -> <<Index(TRUE, <<1, 0>>), Index(TRUE, <<-1, 2>>), Index(TRUE, <<2, -1>>),
                              Index(FALSE, <<0, -2>>), Coord(<<1, 1, 1>>)>>
      [] lay = "mixed"   -> <<Multi(TRUE, << <<1, 0>>, <<2, 0>>, <<0, 1>>, <<-2, 1>> >>), Index(TRUE, <<1, 1>>),
                              Index(FALSE, <<0, 0>>), Coord(<<-3, 1, 0>>), Coord(<<4, -2, 1>>)>>
      [] lay = "nogrid"  -> <<Coord(<<0, 0, 0>>), NoLoc, Coord(<<0, 0, 0>>)>>
      \* a prismatic / moderator block: a lattice whose children are NOT pins (no child carries a flag that getNumPins counts:
      \* coolant channels and moderator rods on alternating sites of ring 2 -- two families of equal count --, a single
      \* channel, two free points).  Nothing in the statement makes the rotation depend on what the children are.
      [] lay = "prism"   -> <<Multi(FALSE, << <<1, 0>>, <<-1, 1>>, <<0, -1>> >>), Multi(FALSE, << <<0, 1>>, <<-1, 0>>, <<1, -1>> >>),
                              Index(FALSE, <<2, -1>>), Coord(<<3, 1, 0>>), Coord(<<0, 2, 1>>)>>
      \* pin families of EQUAL COUNT on disjoint site sets: 3 fuel pins and 3 absorber pins alternating around ring 2
      \* (both clad-flagged), a third family of 3 on ring 3, a family of another count, one free point
      [] lay = "families" -> <<Multi(TRUE, << <<1, 0>>, <<-1, 1>>, <<0, -1>> >>), Multi(TRUE, << <<0, 1>>, <<-1, 0>>, <<1, -1>> >>),
                               Multi(FALSE, << <<2, 0>>, <<-2, 2>>, <<0, -2>> >>), Multi(FALSE, << <<1, 1>>, <<-2, 1>> >>),
                               Coord(<<2, 0, 0>>)>>

DispOf(di) == << <<2, 0>>, <<3, -1>>, <<>>, <<-1, 3>> >>[di]
\* a boundary-parameter value: kind "vec" (list / 1-D array of any length), "rows" (one VECTOR per corner/edge: a 2-D array of
\* shape (6, n), or a list of six lists / arrays; v = the sequence of rows), "scalar" (v = <<the number>>), "none" (v = <<>>)
Vec(v) == [kind |-> "vec", v |-> v]
Rows(base, n) == [kind |-> "rows", v |-> [m \in 1..6 |-> [g \in 1..n |-> base + 10 * m + g]]]
SpecialOf(di) == IF di = 1 THEN Vec(<<>>) ELSE IF di = 2 THEN [kind |-> "scalar", v |-> <<7>>]
                 ELSE IF di = 3 THEN [kind |-> "none", v |-> <<>>] ELSE Vec(<<1, 2, 3, 4>>)
BpOf(di) == <<Vec(<<11, 12, 13, 14, 15, 16>>), Vec(<<21, 22, 23, 24, 25, 26>>), SpecialOf(di),
              Vec(<<41, 42, 43, 44, 45, 46>>),
              Rows(500, ((di - 1) % 3) + 1),        \* 2-D array of shape (6, n), n = 1, 2, 3 (e.g. multi-group corner flux)
              Rows(600, 2)>>                        \* list of six lists (di odd) / of six arrays (di even)

InitBlock(cf) == [o |-> cf.o, lay |-> cf.lay, di |-> cf.di,
                  kids |-> Kids(cf.lay), bp |-> BpOf(cf.di), disp |-> DispOf(cf.di), deg |-> 0]
CfgOf(b) == [o |-> b.o, lay |-> b.lay, di |-> b.di]

LayIdx(lay) == CHOOSE x \in 1..Len(LayoutSeq) : LayoutSeq[x] = lay
\* block 1 has the chosen configuration; block b > 1 the (b-1)-th next layout, the other orientation, the next di
CfgOfBlock(cf, b) == IF b = 1 THEN cf
                     ELSE [o   |-> IF (b % 2 = 0) = (cf.o = "flat") THEN "corner" ELSE "flat",
                           lay |-> LayoutSeq[((LayIdx(cf.lay) + b - 2) % Len(LayoutSeq)) + 1],
                           di  |-> ((cf.di + b - 2) % NDisp) + 1]
\* all 2 x |Layouts| x 4 configurations, or (TieDi) one di per (orientation, layout) so that di still takes every value
TiedDi(oo, lay) == ((LayIdx(lay) + (IF oo = "flat" THEN 0 ELSE 1)) % NDisp) + 1
CfgSet == IF TieDi THEN {[o |-> oo, lay |-> l, di |-> TiedDi(oo, l)] : oo \in Orients, l \in Layouts}
          ELSE [o : Orients, lay : Layouts, di : 1..NDisp]

(* ----------------------------------------------- rotation ----------------------------------------------- *)
IsSix(val) == val.kind \in {"vec", "rows"} /\ Len(val.v) = 6    \* "a list or array of length 6" (len() = the first axis)
RotChild(b, ch, k) ==
    IF b.lay = "nogrid" THEN ch                               \* _rotateChildLocations: spatialGrid is None -> return
    ELSE [ch EXCEPT !.cells = [x \in 1..Len(ch.cells) |-> AlgRot(k % 6, ch.cells[x])],
                    !.xyz   = IF ch.t = "coord"
                              THEN LET q == SymRotVec("flat", k, <<ch.xyz[1], ch.xyz[2]>>) IN <<q[1], q[2], ch.xyz[3]>>
                              ELSE ch.xyz]
\* iterables.pivot(v, -r) = v[-r:] + v[:-r]  (0-based: new[m] = old[(m - r) mod 6])
Pivot(v, r) == [m \in 1..6 |-> v[((m - 1 - r) % 6) + 1]]
RotBp(val, k) == IF IsSix(val) THEN [val EXCEPT !.v = Pivot(@, k % 6)] ELSE val
RotB(b, k) == [b EXCEPT !.kids = [x \in 1..Len(b.kids) |-> RotChild(b, b.kids[x], k)],
                        !.bp   = [s \in 1..Len(b.bp) |-> RotBp(b.bp[s], k)],
                        !.disp = IF b.disp = <<>> THEN <<>> ELSE SymRotVec("flat", k, b.disp),
                        !.deg  = (b.deg + 60 * (k % 6)) % 360]

(* ------------------------------------------------ machine ------------------------------------------------ *)
vars == <<blocks, tot>>
Init == /\ \E cf \in CfgSet : blocks = [b \in 1..NB |-> InitBlock(CfgOfBlock(cf, b))]
        /\ tot = [b \in 1..NB |-> 0]
        /\ err = "" /\ act = [n |-> "Init"] /\ prev = blocks

RotateBlock(b, k) ==
    /\ blocks' = [blocks EXCEPT ![b] = RotB(@, k)]
    /\ tot' = [tot EXCEPT ![b] = (@ + k) % 6]
    /\ err' = "" /\ act' = [n |-> "RotateBlock", b |-> b, k |-> k] /\ prev' = blocks
RotateAssembly(k) ==
    /\ blocks' = [b \in 1..Len(blocks) |-> RotB(blocks[b], k)]
    /\ tot' = [b \in 1..Len(blocks) |-> (tot[b] + k) % 6]
    /\ err' = "" /\ act' = [n |-> "RotateAssembly", k |-> k] /\ prev' = blocks
RotateAssemblyOffGrid(h) ==
    /\ h % 2 = 1
    /\ UNCHANGED <<blocks, tot>>
    /\ err' = "ValueError" /\ act' = [n |-> "RotateAssemblyOffGrid", h |-> h] /\ prev' = blocks

Next == \/ \E b \in 1..NB, k \in -K..K : b <= Len(blocks) /\ RotateBlock(b, k)
        \/ \E k \in -K..K : RotateAssembly(k)
        \/ \E h \in -H..H : RotateAssemblyOffGrid(h)

(* ----------------------------------------------- invariants ----------------------------------------------- *)
Rotating == act.n \in {"RotateBlock", "RotateAssembly"}
Targets  == IF act.n = "RotateAssembly" THEN 1..Len(blocks) ELSE IF act.n = "RotateBlock" THEN {act.b} ELSE {}
HasGrid(b) == b.lay # "nogrid"

TypeOK == /\ Len(blocks) = Len(prev) /\ Len(tot) = Len(blocks)
          /\ \A b \in 1..Len(blocks) : blocks[b].deg \in {0, 60, 120, 180, 240, 300} /\ tot[b] \in 0..5
          /\ err \in {"", "ValueError"}

\* corner / edge m (0..5, counter-clockwise) as a direction: 2 (cos 60m, sin 60m) as a "flat" lattice vector
CornerDir(m) == <<SymC6(m), SymS6(m)>>
DirIdx(v)    == CHOOSE m \in 0..5 : CornerDir(m) = v

ShapeKept == \A b \in 1..Len(blocks) : LET new == blocks[b]  old == prev[b] IN
    /\ CfgOf(new) = CfgOf(old) /\ Len(new.kids) = Len(old.kids) /\ Len(new.bp) = Len(old.bp)
    /\ \A x \in 1..Len(new.kids) : /\ new.kids[x].t = old.kids[x].t /\ new.kids[x].clad = old.kids[x].clad
                                   /\ Len(new.kids[x].cells) = Len(old.kids[x].cells)
CellsFollowGeometry == Rotating => \A b \in Targets : LET new == blocks[b]  old == prev[b] IN
    HasGrid(new) => \A x \in 1..Len(new.kids) : \A y \in 1..Len(new.kids[x].cells) :
        LET p == SymXY(new.o, old.kids[x].cells[y])  q == SymXY(new.o, new.kids[x].cells[y]) IN
        /\ 2 * q[1] = SymRot2(new.o, act.k, p)[1]
        /\ 2 * q[2] = SymRot2(new.o, act.k, p)[2]
\* children that occupied disjoint site sets still do (two families of equal count must not land on the same sites)
SitesOf(ch) == {ch.cells[y] : y \in 1..Len(ch.cells)}
FamiliesStayDisjoint == \A b \in 1..Len(blocks) : \A x, z \in 1..Len(blocks[b].kids) :
    (x # z /\ SitesOf(prev[b].kids[x]) \cap SitesOf(prev[b].kids[z]) = {}) =>
        SitesOf(blocks[b].kids[x]) \cap SitesOf(blocks[b].kids[z]) = {}
FreePointsFollowGeometry == Rotating => \A b \in Targets : LET new == blocks[b]  old == prev[b] IN
    \A x \in 1..Len(new.kids) : new.kids[x].t = "coord" =>
        LET p == old.kids[x].xyz  q == new.kids[x].xyz IN
        /\ 2 * q[1] = SymRot2("flat", act.k, <<p[1], p[2]>>)[1]
        /\ 2 * q[2] = SymRot2("flat", act.k, <<p[1], p[2]>>)[2]
        /\ q[3] = p[3]
BoundaryDataFollowGeometry == Rotating => \A b \in Targets : LET new == blocks[b]  old == prev[b] IN
    \A s \in 1..Len(new.bp) : IsSix(old.bp[s]) =>
        /\ IsSix(new.bp[s])
        /\ \A m \in 0..5 : new.bp[s].v[DirIdx(SymRotVec("flat", act.k, CornerDir(m))) + 1] = old.bp[s].v[m + 1]
OtherValuesUntouched == \A b \in 1..Len(blocks) : \A s \in 1..Len(blocks[b].bp) :
    ~IsSix(prev[b].bp[s]) => blocks[b].bp[s] = prev[b].bp[s]
DisplacementFollowsGeometry == Rotating => \A b \in Targets : LET new == blocks[b]  old == prev[b] IN
    IF old.disp = <<>> THEN new.disp = <<>>
    ELSE /\ 2 * new.disp[1] = SymRot2("flat", act.k, old.disp)[1]
         /\ 2 * new.disp[2] = SymRot2("flat", act.k, old.disp)[2]
OrientationAdvances == Rotating => \A b \in Targets : (blocks[b].deg - prev[b].deg - 60 * act.k) % 360 = 0
OnlyTargetsMove == \A b \in 1..Len(blocks) : b \notin Targets => blocks[b] = prev[b]
RefusalChangesNothing == act.n = "RotateAssemblyOffGrid" => blocks = prev /\ err = "ValueError"
LegalIsAccepted == Rotating => err = ""
Additive == \A b \in 1..Len(blocks) : blocks[b] = RotB(InitBlock(CfgOf(blocks[b])), tot[b])
SixIsIdentity == \A b \in 1..Len(blocks) : RotB(blocks[b], 6) = blocks[b] /\ RotB(blocks[b], -6) = blocks[b]
                                           /\ RotB(blocks[b], 0) = blocks[b]

(* ---------------------------------- observations printed for the harness ---------------------------------- *)
Flat(ss) == FoldLeft(LAMBDA acc, x : acc \o x, <<>>, ss)
PinCells(b) == Flat([x \in 1..Len(b.kids) |-> IF b.kids[x].clad THEN b.kids[x].cells ELSE <<>>])
ObsBlock(b) == [kids  |-> [x \in 1..Len(b.kids) |-> [t |-> b.kids[x].t, cells |-> b.kids[x].cells, xyz |-> b.kids[x].xyz]],
                pins  |-> PinCells(b),
                pinxy |-> [x \in 1..Len(PinCells(b)) |-> SymXY(b.o, PinCells(b)[x])],
                bp    |-> b.bp,
                disp  |-> b.disp,
                deg   |-> b.deg,
                rotnum |-> b.deg \div 60]        \* HexBlock.getRotationNum(): 0..5, also after histories that pass 360 degrees
Obs  == [blocks |-> [b \in 1..Len(blocks) |-> ObsBlock(blocks[b])]]
Vars == [cfg |-> [b \in 1..Len(blocks) |-> CfgOf(blocks[b])], tot |-> tot]
=============================================================================================================
