CONSTANTS N = 14  K = 13  BigK = {36, 601, 100003, 7000001} AllKz = FALSE  AllSp = FALSE  MaxLevel = 2
ACTION_CONSTRAINT Emit
INVARIANT EmitState
INIT Init
NEXT NextE
CONSTRAINT Bound
VIEW View
INVARIANT TypeOK
CHECK_DEADLOCK FALSE
