------------------------------------------- MODULE Reduce_mc -------------------------------------------
EXTENDS Reduce, Json
CONSTANT MaxLevel
Bound == TLCGet("level") <= MaxLevel
View  == vars
Vars  == [g |-> g, stack |-> stack, taken |-> taken]
Emit  == PrintT(ToJson([lvl |-> TLCGet("level"), from |-> Vars, act |-> act', to |-> Vars', err |-> err']))
EmitState == PrintT(ToJson([st |-> Vars, obs |-> Obs]))
=====================================================================================================
