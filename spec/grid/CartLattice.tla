------------------------------------------ MODULE CartLattice ------------------------------------------
(* C07 -- the Cartesian lattice of armi/reactor/grids/cartesian.py (CartesianGrid), integers only.

   PURE MODULE.  v is the variant of the grid:
     "centred"  CartesianGrid.fromRectangle(w, h, isOffset=False): the centre of cell (0,0) is the origin;
                the axes run through the central cell ("through centre", ring 1 has one cell)
     "offset"   isOffset=True: offset = (w/2, h/2, 0); the origin is the lower-left corner of cell (0,0);
                four cells meet at the origin (ring 1 has four cells)
   c is a cell <<i, j>>.

   (1) Reference definitions (from the class and getRingPos docstrings, not from the code's arithmetic)
       - centre of <<i,j>> in half-cell units (half width, half height):  centred (2i, 2j), offset (2i+1, 2j+1);
         base (lower left) = centre - (1,1), top (upper right) = centre + (1,1)     [half-cell units]
       - ring = 1 + (Chebyshev distance of the cell centre from the origin, in whole cells, rounded down)
         (the docstring says "Manhattan" but draws and numbers square rings; square rings are what
          getPositionsInRing counts, so Chebyshev is the reading under which the class is self-consistent)
       - position = 1 + number of cells of the same ring met strictly earlier when the ring is walked
         counter-clockwise (by polar angle) from the cell on the quadrant-1 diagonal (upper-right corner cell)
       - PositionsInRing(r) = number of cells of ring r; MinimumRings(n) = least r >= 1 whose rings 1..r hold
         at least n cells (n >= 1; CartesianGrid.getMinimumRings(0) returns 1 and is outside the statement,
         which states exactness of ring counting for hex grids).
   (2) Transcriptions (Code...) of CartesianGrid.getRingPos (in doubled integers, because the code adds 0.5),
       getPositionsInRing, getMinimumRings, StructuredGrid.getNeighboringCellIndices.
   (3) Theorems: code arithmetic = reference; ring numbering is a bijection onto 1..PositionsInRing(r),
       contiguous (consecutive numbers are edge-adjacent cells, counter-clockwise); counting exact;
       labels injective (also for negative indices).

   Interpretation: CartesianGrid.getIndicesFromRingAndPos raises NotImplementedError by documented design
   ("Cartesian should not need ring/pos"), so for Cartesian grids "mutually inverse" is read as: the forward
   map indices -> (ring, position) is injective and onto the valid numbers (an inverse exists), and the code's
   refusal is clean (CartLattice_mc action NoInverse).                                                   *)
EXTENDS Integers, Sequences, FiniteSets, TLC

Variants == {"centred", "offset"}
KAbs(x) == IF x < 0 THEN -x ELSE x
KMax(a, b) == IF a >= b THEN a ELSE b

(* ---------------------------------- geometry, half-cell units ---------------------------------- *)
HX(v, c) == IF v = "centred" THEN 2 * c[1] ELSE 2 * c[1] + 1
HY(v, c) == IF v = "centred" THEN 2 * c[2] ELSE 2 * c[2] + 1
HC(v, c) == <<HX(v, c), HY(v, c)>>
HBase(v, c) == <<HX(v, c) - 1, HY(v, c) - 1>>
HTop(v, c)  == <<HX(v, c) + 1, HY(v, c) + 1>>
Cheb(v, c) == KMax(KAbs(HX(v, c)), KAbs(HY(v, c)))           \* in half cells
Ring(v, c) == (Cheb(v, c) \div 2) + 1
\* all cells of the first R rings lie in this index box
Span(v, R) == IF v = "centred" THEN (-(R - 1))..(R - 1) ELSE (-R)..(R - 1)
Cells(v, R) == {c \in Span(v, R) \X Span(v, R) : Ring(v, c) <= R}
RingCells(v, r) == {c \in Span(v, r) \X Span(v, r) : Ring(v, c) = r}
Corner(v, r) == <<r - 1, r - 1>>                              \* the cell of ring r on the quadrant-1 diagonal

CrossV(A, B) == A[1] * B[2] - A[2] * B[1]
DotV(A, B)   == A[1] * B[1] + A[2] * B[2]
\* polar angle counted counter-clockwise from direction S, exact (a positive diagonal scaling by width and
\* height keeps the cyclic order of directions, so half-cell units may be used for any rectangle)
HalfV(S, V) == LET cr == CrossV(S, V) IN IF cr > 0 \/ (cr = 0 /\ DotV(S, V) > 0) THEN 0 ELSE 1
BeforeV(S, A, B) == LET ha == HalfV(S, A) hb == HalfV(S, B) IN ha < hb \/ (ha = hb /\ CrossV(A, B) > 0)

Pos(v, c) == LET r == Ring(v, c) IN
             IF Cardinality(RingCells(v, r)) = 1 THEN 1
             ELSE 1 + Cardinality({d \in RingCells(v, r) : BeforeV(HC(v, Corner(v, r)), HC(v, d), HC(v, c))})
RingPos(v, c) == <<Ring(v, c), Pos(v, c)>>
PositionsInRing(v, r) == Cardinality(RingCells(v, r))
TotalUpTo(v, r) == Cardinality(Cells(v, r))
RECURSIVE RingsFrom(_, _, _)
RingsFrom(v, r, n) == IF TotalUpTo(v, r) >= n THEN r ELSE RingsFrom(v, r + 1, n)
MinimumRings(v, n) == RingsFrom(v, 1, n)                       \* n >= 1

\* the four edge neighbours, counter-clockwise from +x (StructuredGrid.getNeighboringCellIndices docstring)
NbVecs == << <<1, 0>>, <<0, 1>>, <<-1, 0>>, <<0, -1>> >>
Neighbours(c) == [k \in 1..4 |-> <<c[1] + NbVecs[k][1], c[2] + NbVecs[k][2]>>]

(* ---------------------------------- labels ---------------------------------- *)
Pad3(n) == IF n < 0 THEN "-" \o (IF -n < 10 THEN "0" ELSE "") \o ToString(-n)
           ELSE (IF n < 10 THEN "00" ELSE IF n < 100 THEN "0" ELSE "") \o ToString(n)
LabelOf(nums) == IF Len(nums) = 2 THEN Pad3(nums[1]) \o "-" \o Pad3(nums[2])
                 ELSE Pad3(nums[1]) \o "-" \o Pad3(nums[2]) \o "-" \o Pad3(nums[3])

(* ---------------------------------- transcriptions ---------------------------------- *)
Trunc2(x) == IF x >= 0 THEN x \div 2 ELSE -((-x) \div 2)       \* python int(x/2.0) for the doubled value x
CodeRingPos(v, c) ==
    LET split == v = "centred"
        I == IF split THEN 2 * c[1] ELSE 2 * c[1] + 1          \* doubled i (after "i += 0.5")
        J == IF split THEN 2 * c[2] ELSE 2 * c[2] + 1
        ring2 == 2 * KMax(KAbs(Trunc2(I)), KAbs(Trunc2(J))) + (IF split THEN 0 ELSE 1)   \* doubled ring
        pos2 == IF J = ring2 THEN -I + ring2                   \* region 1
                ELSE IF I = -ring2 THEN 3 * ring2 - J          \* region 2
                ELSE IF J = -ring2 THEN 5 * ring2 + I          \* region 3
                ELSE 7 * ring2 + J                             \* region 4
    IN <<(ring2 \div 2) + 1, (pos2 \div 2) + 1>>
CodePositionsInRing(v, r) ==
    IF r = 1 THEN (IF v = "centred" THEN 1 ELSE 4)
    ELSE (r - 1) * 8 + (IF v = "centred" THEN 0 ELSE 4)
RECURSIVE CodeMinFrom(_, _, _, _)
CodeMinFrom(v, r, acc, n) == LET t == acc + CodePositionsInRing(v, r) IN IF t >= n THEN r ELSE CodeMinFrom(v, r + 1, t, n)
CodeMinimumRings(v, n) == CodeMinFrom(v, 1, 0, n)

(* ---------------------------------- theorems ---------------------------------- *)
ThmCodeRingPos(v, c) == CodeRingPos(v, c) = RingPos(v, c)
\* base/top are half a cell from the centre, the top of a cell is the base of its upper-right diagonal
\* neighbour; the centred variant has cell (0,0) centred on the origin, the offset variant has its base there
ThmCellBox(v, c) ==
    /\ HTop(v, c) = HBase(v, <<c[1] + 1, c[2] + 1>>)
    /\ HBase(v, c)[1] + HTop(v, c)[1] = 2 * HX(v, c) /\ HBase(v, c)[2] + HTop(v, c)[2] = 2 * HY(v, c)
    /\ (v = "centred" => HC(v, <<0, 0>>) = <<0, 0>>)
    /\ (v = "offset" => HBase(v, <<0, 0>>) = <<0, 0>>)
\* neighbours: one cell pitch away along an axis, counter-clockwise
ThmNeighbours(v, c) ==
    LET nb == Neighbours(c)
        w(k) == <<HX(v, nb[((k - 1) % 4) + 1]) - HX(v, c), HY(v, nb[((k - 1) % 4) + 1]) - HY(v, c)>>
    IN \A k \in 1..4 : /\ DotV(w(k), w(k)) = 4                  \* one whole cell = 2 half cells
                       /\ CrossV(w(k), w(k + 1)) > 0 /\ DotV(w(k), w(k + 1)) = 0
ThmRing(v, r) ==
    LET n     == PositionsInRing(v, r)
        pairs == {<<c, Pos(v, c)>> : c \in RingCells(v, r)}
        at(p) == (CHOOSE pr \in pairs : pr[2] = p)[1]
    IN /\ n = CodePositionsInRing(v, r)
       /\ {pr[2] : pr \in pairs} = 1..n                          \* numbering is a bijection onto 1..n
       /\ at(1) = Corner(v, r)
       /\ n > 1 => \A p \in 1..n :
             LET a == HC(v, at(p))
                 b == HC(v, at((p % n) + 1))
             IN /\ (b[1] - a[1]) * (b[1] - a[1]) + (b[2] - a[2]) * (b[2] - a[2]) = 4    \* edge-adjacent
                /\ CrossV(a, b) > 0                                                    \* counter-clockwise
       /\ TotalUpTo(v, r) = TotalUpTo(v, r - 1) + n
ThmMinimumRings(v, n) ==
    LET r == MinimumRings(v, n) IN
    /\ TotalUpTo(v, r) >= n
    /\ r > 1 => TotalUpTo(v, r - 1) < n
    /\ CodeMinimumRings(v, n) = r
ThmRingPosInjective(v, R) ==
    Cardinality({RingPos(v, c) : c \in Cells(v, R)}) = Cardinality(Cells(v, R))
ThmLabelsInjective(v, R) ==
    /\ Cardinality({LabelOf(c) : c \in Cells(v, R)}) = Cardinality(Cells(v, R))
    /\ Cardinality({LabelOf(<<c[1], c[2], k>>) : c \in Cells(v, R), k \in 0..1}) = 2 * Cardinality(Cells(v, R))
=====================================================================================================
