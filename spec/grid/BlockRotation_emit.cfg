\* emission, single blocks (and the one-block assembly): one displacement/special-value variant per (orientation, layout) (thorough: all four), every k, whole graph
CONSTANTS K = 7  H = 3  NB = 1  Layouts = {"p1", "p7", "p19", "singles", "mixed", "nogrid", "prism", "families"} TieDi = TRUE  MaxLevel = 3
ACTION_CONSTRAINT Emit
INVARIANT EmitState
INIT Init
NEXT Next
CONSTRAINT Bound
VIEW View
INVARIANT TypeOK
CHECK_DEADLOCK FALSE
