------------------------------------------- MODULE CoreMesh -------------------------------------------
(* C12, core level -- the non-detailed path that follows the expansion of the reference assembly:
   AxialExpansionChanger.manageCoreMesh(r)  (axialExpansionChanger.py) =
       if not detailedAxialExpansion:  for every assembly a of the core (the reference one included):
                                           a.setBlockMesh(r.core.refAssem.getAxialMesh(), conserveMassFlag="auto")
       r.core.updateAxialMesh()
   on a core whose assemblies were made "able to snap" once, on the initial meshes, by
   makeAssemsAbleToSnapToUniformMesh -> Assembly.makeAxialSnapList (topIndex of a block = index of its top in the
   reference mesh; the follower designs only use tops that exist there).

   The reference assembly IS the assembly of AxialExpansion (all its variables, actions and invariants are kept: a
   behaviour interleaves its calls with Manage).  The other assemblies ("followers") are not expanded themselves; they
   carry block heights and, per component, the linear density lin (see AxialExpansion).

   Manage transcribes Assembly.setBlockMesh / _shouldMassBeConserved (armi/reactor/assemblies.py) block by block:
       newTop = refMesh[topIndex];  height := newTop - zBottom;
       "auto":  block flagged FUEL                      -> the components flagged FUEL are scaled by old/new height
                other block of a FUEL-flagged assembly  -> below the fuel column: every non-fluid component is scaled;
                                                           at/above it (plenum ...): nothing is scaled
                assembly not flagged FUEL               -> nothing is scaled
       then calculateZCoords: bottoms/tops/grid bounds from the heights.
   For the reference assembly this is the identity on heights and densities (its own mesh), and its grid bounds become
   its elevations (also when no expansion has happened yet).  Core.updateAxialMesh: core.p.axialMesh = <<0>> \o tops
   of the reference assembly.  With a detailed changer Manage only does the latter.

   SaveLoad = Database.writeToDB(r) ; Database.load: a database round trip between two calls changes nothing the next call
   depends on (heights, elevations, densities, temperatures, the designated target names b.p.axialExpTargetComponent);
   only the components' zbottom/ztop/height attributes are gone and every assembly grid carries its elevations.

   INTERPRETATION.  The statement's conservation clause is about expanding components; the snap is ARMI's uniform-mesh
   approximation and documents what it conserves.  Checked here, for EVERY assembly of the core:
       FollowersKeepTotalHeight, FollowersOnReferenceMesh (contiguous, positive, tops = the reference tops they track)
       SnapConservesFuel          fuel components of fuel blocks keep their mass through every Manage
       SnapConservesBelowFuel     all solids of the blocks below the fuel column of a fuel assembly keep their mass
       SnapLeavesOthers           every other density is untouched (so those masses follow the heights: plenum clad,
                                  everything in non-fuel assemblies -- documented by setBlockMesh, not a finding)
       ReferenceUntouchedBySnap   heights and densities of the reference assembly are not changed by Manage
*)
EXTENDS AxialExpansion

CONSTANTS UseDb,     \* TRUE: database round trips (SaveLoad) are explored too
          Cores      \* set of [ref |-> design (see AxialExpansion), ex |-> explicit target index per block (0 = none), fols |-> <<[types, hs, hd, fuel |-> assembly flagged FUEL]>>]

VARIABLES F,         \* static follower data
          fol,       \* fol[f] = [h |-> block heights, lin |-> lin per component]
          prefol,    \* fol before the last action
          coreMesh   \* core.p.axialMesh (<<>> = never updated)
cvars == <<vars, F, fol, prefol, coreMesh>>

FolStatic(d, ref) ==
    LET k   == Len(d.types)
        hh  == d.hs \o <<d.hd>>
        rk  == Len(ref.types)
        rhh == ref.hs \o <<ref.hd>>
        nm(b) == IF b <= k THEN BT[d.types[b]].comps ELSE <<>>
    IN [types |-> d.types, hs |-> d.hs, hd |-> d.hd, fuel |-> d.fuel, k |-> k,
        names |-> [b \in 1..(k + 1) |-> nm(b)],
        solid |-> [b \in 1..(k + 1) |-> [i \in 1..Len(nm(b)) |-> CT[nm(b)[i]].solid]],
        cfuel |-> [b \in 1..(k + 1) |-> [i \in 1..Len(nm(b)) |-> "fuel" \in CT[nm(b)[i]].flags]],     \* b.getComponents(Flags.FUEL)
        bfuel |-> [b \in 1..(k + 1) |-> b <= k /\ "fuel" \in BT[d.types[b]].flags],                  \* b.isFuel() / b.hasFlags(FUEL)
        top   |-> [b \in 1..(k + 1) |-> CHOOSE j \in 1..(rk + 1) : SumSeq(rhh, j) = SumSeq(hh, b)]]   \* makeAxialSnapList

NF == Len(F)
FK(f) == F[f].k + 1
FolInit(d) == [h   |-> [b \in 1..(Len(d.types) + 1) |-> RInt((d.hs \o <<d.hd>>)[b])],
               lin |-> [b \in 1..(Len(d.types) + 1) |-> [i \in 1..(IF b <= Len(d.types) THEN Len(BT[d.types[b]].comps) ELSE 0) |-> ROne]]]

CInit == \E c \in Cores :
            /\ InitFor(c.ref, c.ex)
            /\ F = [f \in 1..Len(c.fols) |-> FolStatic(c.fols[f], c.ref)]
            /\ fol = [f \in 1..Len(c.fols) |-> FolInit(c.fols[f])]
            /\ prefol = <<>>
            /\ coreMesh = <<>>

\* setBlockMesh(refMesh, "auto") on follower f; refMesh = tops of the reference assembly
BelowFuelColumn(f, b) == \A bb \in 1..b : ~F[f].bfuel[bb]
Scaled(f, b, i) == IF F[f].bfuel[b] THEN F[f].cfuel[b][i]
                   ELSE F[f].fuel /\ BelowFuelColumn(f, b) /\ F[f].solid[b][i]
SnapTo(f) ==
    LET newTop(b) == zt[F[f].top[b]]
        hN(b) == IF b = 1 THEN newTop(1) ELSE RSub(newTop(b), newTop(b - 1))
    IN [h   |-> [b \in 1..FK(f) |-> hN(b)],
        lin |-> [b \in 1..FK(f) |-> [i \in 1..Len(F[f].names[b]) |->
                    IF Scaled(f, b, i) THEN RMul(fol[f].lin[b][i], RDiv(fol[f].h[b], hN(b))) ELSE fol[f].lin[b][i]]]]

Manage ==
    /\ CanCall
    /\ fol' = IF A.det THEN fol ELSE [f \in 1..NF |-> SnapTo(f)]
    /\ prefol' = fol
    /\ coreMesh' = <<RZero>> \o zt
    /\ mesh' = IF A.det THEN mesh ELSE <<RZero>> \o zt            \* calculateZCoords of the reference assembly
    /\ err' = "" /\ broken' = FALSE
    /\ UNCHANGED <<A, zb, zt, h, comp, tname, placed, F>>
    /\ Hist([n |-> "Manage"], <<>>)

\* Database.writeToDB(r) ; Database.load(cycle, node): every assembly comes back with the same heights, elevations, densities,
\* temperatures and designated target names (b.p.axialExpTargetComponent is a saved parameter); the components' zbottom /
\* ztop / height are plain attributes and are gone (the next call sets them again); grids are rebuilt from the heights
SaveLoad ==
    /\ CanCall
    /\ comp' = [b \in 1..NBk |-> [i \in 1..NC(b) |-> [comp[b][i] EXCEPT !.h = RZero, !.zb = RZero, !.zt = RZero]]]
    /\ placed' = FALSE
    /\ mesh' = <<RZero>> \o zt
    /\ prefol' = fol
    /\ err' = "" /\ broken' = FALSE
    /\ UNCHANGED <<A, zb, zt, h, tname, F, fol, coreMesh>>
    /\ Hist([n |-> "SaveLoad"], <<>>)

CNext == \/ Next /\ prefol' = fol /\ UNCHANGED <<F, fol, coreMesh>>
         \/ Manage
         \/ UseDb /\ SaveLoad

(* ------------------------------------------- properties -------------------------------------------------- *)
Managed == act.n = "Manage" /\ ~A.det
FMass(s, f, b, i) == RMul(s[f].lin[b][i], s[f].h[b])
FollowersKeepTotalHeight == \A f \in 1..NF : RSumSeq(fol[f].h) = RInt(H0)
FollowersOnReferenceMesh == Managed =>
    \A f \in 1..NF : \A b \in 1..FK(f) : /\ RLt(RZero, fol[f].h[b])
                                         /\ RSumUpTo(fol[f].h, b) = zt[F[f].top[b]]
SnapConservesFuel == Managed =>
    \A f \in 1..NF : \A b \in 1..FK(f) : \A i \in 1..Len(F[f].names[b]) :
        (F[f].bfuel[b] /\ F[f].cfuel[b][i]) => FMass(fol, f, b, i) = FMass(prefol, f, b, i)
SnapConservesBelowFuel == Managed =>
    \A f \in 1..NF : \A b \in 1..FK(f) : \A i \in 1..Len(F[f].names[b]) :
        (F[f].fuel /\ BelowFuelColumn(f, b) /\ F[f].solid[b][i]) => FMass(fol, f, b, i) = FMass(prefol, f, b, i)
SnapLeavesOthers == Managed =>
    \A f \in 1..NF : \A b \in 1..FK(f) : \A i \in 1..Len(F[f].names[b]) :
        ~Scaled(f, b, i) => fol[f].lin[b][i] = prefol[f].lin[b][i]
ReferenceUntouchedBySnap == act.n = "Manage" =>
    /\ zb = pre.zb /\ zt = pre.zt /\ h = pre.h
    /\ \A b \in 1..NBk : \A i \in 1..NC(b) : comp[b][i].lin = pre.lin[b][i]
CoreMeshIsReference == (coreMesh # <<>> /\ act.n = "Manage") => coreMesh = <<RZero>> \o zt
\* calls on the reference assembly never touch the followers
CallsLeaveFollowers == act.n \notin {"Init", "Manage"} => fol = prefol
SaveLoadKeepsState == act.n = "SaveLoad" =>
    /\ zb = pre.zb /\ zt = pre.zt /\ h = pre.h
    /\ \A b \in 1..NBk : \A i \in 1..NC(b) : comp[b][i].lin = pre.lin[b][i] /\ comp[b][i].T = pre.T[b][i]

(* ------------------------------------------- observation ------------------------------------------------- *)
FolObs == [f \in 1..NF |->
            [h  |-> fol[f].h,
             zt |-> [b \in 1..FK(f) |-> RSumUpTo(fol[f].h, b)],
             zb |-> [b \in 1..FK(f) |-> RSumUpTo(fol[f].h, b - 1)],
             comp |-> [b \in 1..FK(f) |-> [i \in 1..Len(F[f].names[b]) |->
                          [name |-> F[f].names[b][i], lin |-> fol[f].lin[b][i],
                           mass |-> RDiv(RMul(fol[f].lin[b][i], fol[f].h[b]), RInt((F[f].hs \o <<F[f].hd>>)[b]))]]]]]
=====================================================================================================
