\* core level, spec -> code (thorough)
CONSTANTS
  UseDb = TRUE
  Cores <- CoresQuick
  Designs <- NoTriples
  Growths <- G3
  MaxNonUnit = 1
  LevelTriples <- NoTriples
  BreakStep = 1
  FromInput <- FromNone
  ExplicitTargets = FALSE
  Replacements <- NoRepl
  Edits <- NoEdits
  Refusals = FALSE
  ZeroHeightRefused = TRUE
  AlignTarget = FALSE
  MaxLevel = 3
INIT CInit
NEXT CNext
CONSTRAINT Bound
INVARIANT EmitState
CHECK_DEADLOCK FALSE
