\* static cases: target-component choice and link detection for every 1- and 2-block stack of the block catalogue (one call with setFuel TRUE/FALSE)
CONSTANTS
  Designs <- DesignsCases
  Growths <- GOne
  MaxNonUnit = 0
  LevelTriples <- NoTriples
  BreakStep = 1
  FromInput <- FromBoth
  ExplicitTargets = FALSE
  Replacements <- NoRepl
  Edits <- NoEdits
  Refusals = FALSE
  ZeroHeightRefused = TRUE
  AlignTarget = FALSE
  MaxLevel = 2
INIT Init
NEXT Next
CONSTRAINT Bound
INVARIANT EmitState
CHECK_DEADLOCK FALSE
