\* spec -> code (thorough)
CONSTANTS
  Designs <- DesignsEmitThorough
  Growths <- G3
  MaxNonUnit = 2
  LevelTriples <- TriplesEmit
  BreakStep = 2
  FromInput <- FromRef
  ExplicitTargets = TRUE
  Replacements <- NoRepl
  Edits <- NoEdits
  Refusals = TRUE
  ZeroHeightRefused = TRUE
  AlignTarget = FALSE
  MaxLevel = 3
INIT Init
NEXT Next
CONSTRAINT Bound
INVARIANT EmitState
CHECK_DEADLOCK FALSE
