----------------------------------------- MODULE CoreMesh_mc -----------------------------------------
EXTENDS CoreMesh
Bound == TLCGet("level") <= MaxLevel
EmitState == PrintT(ToJson([A |-> A, F |-> F, path |-> path, obs |-> Obs, fobs |-> FolObs, coreMesh |-> coreMesh]))
ASSUME PrintT(ToJson([CT |-> CT, BT |-> BT]))
Ref(types, hs, hd, det) == [types |-> types, hs |-> hs, hd |-> hd, top |-> "", det |-> det, hot |-> 0, rule |-> "default"]
Fol(types, hs, hd, fuel) == [types |-> types, hs |-> hs, hd |-> hd, fuel |-> fuel]
G3  == {<<5, 6>>, <<1, 1>>, <<6, 5>>}
NoTriples == {}
NoRepl == {}
NoEdits == {}
FromNone == {}
\* reference shield/fuel/fuel/plenum; followers: the same column, a coarser fuel column (one fuel block over two reference
\* blocks, annular fuel), a control assembly (not flagged FUEL), a fuel assembly with a duct-only block below the fuel
FolsA == << Fol(<<"shield", "fuel", "fuel", "plenum">>, <<3, 4, 3, 3>>, 3, TRUE),
            Fol(<<"shield", "afuel", "plenumd">>, <<3, 7, 3>>, 3, TRUE),
            Fol(<<"shield", "control", "plenum">>, <<3, 7, 3>>, 3, FALSE),
            Fol(<<"ductclad", "fueld">>, <<3, 10>>, 3, TRUE),
            Fol(<<"shield", "fuel", "plenum">>, <<3, 7, 3>>, 3, FALSE) >>     \* fuel blocks in an assembly whose type is not "fuel" (driver)
CoresQuick == { [ref |-> Ref(<<"shield", "fuel", "fuel", "plenum">>, <<3, 4, 3, 3>>, 3, FALSE), ex |-> <<0, 2, 0, 0, 0>>, fols |-> FolsA] }
\* small core for the quick replay: a 3-block reference column, the same four kinds of followers
CoresEmit == { [ref |-> Ref(<<"shield", "fuel", "plenum">>, <<3, 7, 3>>, 3, FALSE), ex |-> <<0, 2, 0, 0>>,    \* the fuel block's designer locked the clad
                fols |-> << Fol(<<"shield", "afuel", "plenumd">>, <<3, 7, 3>>, 3, TRUE),
                            Fol(<<"shield", "control", "plenum">>, <<3, 7, 3>>, 3, FALSE),
                            Fol(<<"ductclad", "fueld">>, <<3, 10>>, 3, TRUE),
                            Fol(<<"shield", "fuel", "plenum">>, <<3, 7, 3>>, 3, FALSE) >>] }
CoresThorough == CoresQuick \cup
    { [ref |-> Ref(<<"shield", "fuel", "fuel", "plenum">>, <<3, 4, 3, 3>>, 3, TRUE), ex |-> <<0, 0, 0, 0, 0>>, fols |-> FolsA],
      [ref |-> Ref(<<"fuelb", "bigfuel", "plenums">>, <<4, 4, 4>>, 4, FALSE), ex |-> <<3, 0, 0, 0>>,
       fols |-> << Fol(<<"fuel", "plenum">>, <<8, 4>>, 4, TRUE), Fol(<<"shield", "shield", "plenumd">>, <<4, 4, 4>>, 4, FALSE) >>] }
=====================================================================================================
