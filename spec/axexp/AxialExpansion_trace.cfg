CONSTANTS
  Designs <- NoDesigns
  Growths <- G2
  MaxNonUnit = 0
  LevelTriples <- NoDesigns
  BreakStep = 1
  FromInput <- NoDesigns
  ExplicitTargets = FALSE
  Replacements <- NoRepl
  Edits <- NoEdits
  Refusals = FALSE
  ZeroHeightRefused = TRUE
  AlignTarget = FALSE
  MaxLevel = 99
SPECIFICATION TSpec
CONSTRAINT Progress
POSTCONDITION Report
INVARIANT TypeOK
INVARIANT TotalHeightPreserved
INVARIANT Contiguous
INVARIANT NonNegativeHeights
INVARIANT GridBoundsAreElevations
INVARIANT BoundaryFollowsTarget
INVARIANT LinkedStayStacked
INVARIANT DensityDividedByGrowth
INVARIANT MassAccounting
INVARIANT UniformAssemblyMassConserved
INVARIANT RoundTripRestores
CHECK_DEADLOCK FALSE
