\* quick exhaustive: 5 designs x explicit target choices; growths {5/6,1,6/5}, <= 2 changed components or per-block uniform; one 3-step temperature profile with all break points, from reference or input temperature; refusals; 2 successive calls
CONSTANTS
  Designs <- DesignsQuick
  Growths <- G3
  MaxNonUnit = 1
  LevelTriples <- TriplesEmit
  BreakStep = 2
  FromInput <- FromBoth
  ExplicitTargets = TRUE
  Replacements <- NoRepl
  Edits <- NoEdits
  Refusals = TRUE
  ZeroHeightRefused = TRUE
  AlignTarget = FALSE
  MaxLevel = 3
INIT Init
NEXT Next
CONSTRAINT Bound
INVARIANT TypeOK
INVARIANT TotalHeightPreserved
INVARIANT Contiguous
INVARIANT NonNegativeHeights
INVARIANT GridBoundsAreElevations
INVARIANT BoundaryFollowsTarget
INVARIANT LinkedStayStacked
INVARIANT DensityDividedByGrowth
INVARIANT ComponentHeightIsGrowthTimesBlock
INVARIANT MassAccounting
INVARIANT AlignedTargetMassConserved
INVARIANT UniformAssemblyMassConserved
INVARIANT RoundTripRestores
INVARIANT RefusalsChangeNothing
INVARIANT GridClear
CHECK_DEADLOCK FALSE
