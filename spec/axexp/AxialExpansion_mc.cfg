\* quick exhaustive: 5 designs x explicit target choices, growths {5/6,1,6/5}, <=2 changed components or per-block uniform,
\* 2 three-step temperature profiles, refusals; 2 successive calls
CONSTANTS
  Designs <- DesignsQuick
  Growths <- G3
  MaxNonUnit = 2
  LevelTriples <- TriplesQuick
  ExplicitTargets = TRUE
  Refusals = TRUE
  MaxLevel = 3
INIT Init
NEXT Next
CONSTRAINT Bound
INVARIANT TypeOK
INVARIANT TotalHeightPreserved
INVARIANT Contiguous
INVARIANT NonNegativeHeights
INVARIANT GridBoundsAreElevations
INVARIANT BoundaryFollowsTarget
INVARIANT LinkedStayStacked
INVARIANT DensityDividedByGrowth
INVARIANT ComponentHeightIsGrowthTimesBlock
INVARIANT MassAccounting
INVARIANT AlignedTargetMassConserved
INVARIANT UniformAssemblyMassConserved
INVARIANT RoundTripRestores
INVARIANT RefusalsChangeNothing
INVARIANT GridClear
CHECK_DEADLOCK FALSE
