\* spec -> code (quick): every distinct state of a smaller instance is printed with the calls that reach it
CONSTANTS
  Designs <- DesignsEmit
  Growths <- G3
  MaxNonUnit = 1
  LevelTriples <- TriplesEmit
  BreakStep = 2
  FromInput <- FromRef
  ExplicitTargets = TRUE
  Replacements <- NoRepl
  Edits <- NoEdits
  Refusals = TRUE
  ZeroHeightRefused = TRUE
  AlignTarget = FALSE
  MaxLevel = 3
INIT Init
NEXT Next
CONSTRAINT Bound
INVARIANT EmitState
CHECK_DEADLOCK FALSE
