\* literal clause of the statement, expected to be REFUTED by TLC on this transcription of the code (see module header)
CONSTANTS
  Designs <- DesignsLit
  Growths <- G3
  MaxNonUnit = 2
  LevelTriples <- NoTriples
  BreakStep = 1
  FromInput <- FromBoth
  ExplicitTargets = FALSE
  Replacements <- NoRepl
  Edits <- NoEdits
  Refusals = FALSE
  ZeroHeightRefused = TRUE
  AlignTarget = FALSE
  MaxLevel = 2
INIT Init
NEXT Next
CONSTRAINT Bound
INVARIANT PositiveHeights
CHECK_DEADLOCK FALSE
