------------------------------------- MODULE AxialExpansion_mc -------------------------------------
(* bounded instances of AxialExpansion: designs, growth sets, emission operators *)
EXTENDS AxialExpansion
Bound == TLCGet("level") <= MaxLevel
\* one line per distinct state: the design, the calls that lead to it, the specification's observation of it
EmitState == PrintT(ToJson([A |-> A, path |-> path, obs |-> Obs, lit |-> Lit]))
\* the catalogue, printed once: the adapter builds real components / blocks from it
ASSUME PrintT(ToJson([CT |-> CT, BT |-> BT]))

D(types, hs, hd) == [types |-> types, hs |-> hs, hd |-> hd]
\* growth sets (closed under inverse)
G3  == {<<5, 6>>, <<1, 1>>, <<6, 5>>}
G5  == {<<5, 6>>, <<10, 11>>, <<1, 1>>, <<11, 10>>, <<6, 5>>}
G2x == {<<1, 2>>, <<1, 1>>, <<2, 1>>}                       \* dyadic: the real arithmetic is exact, long histories stay small

\* quick exhaustive: the standard column (shield / fuel / plenum), fuel over fuel, cross links, an unlinked pin, a tight dummy
DesignsQuick == {
    D(<<"fuel", "plenum">>, <<5, 4>>, 3),
    D(<<"shield", "fuel">>, <<4, 5>>, 3),
    D(<<"fuelb", "bigfuel">>, <<5, 5>>, 2),
    D(<<"fuel", "afuel">>, <<5, 3>>, 4),
    D(<<"fuel">>, <<10>>, 2) }
DesignsThorough == DesignsQuick \cup {
    D(<<"shield", "fuel", "plenum">>, <<3, 5, 4>>, 4),
    D(<<"fueld", "fueld">>, <<5, 4>>, 3),
    D(<<"fuel", "fuel">>, <<10, 3>>, 5),
    D(<<"control", "plenumd">>, <<4, 4>>, 3),
    D(<<"fuel", "aclp">>, <<5, 3>>, 3) }
DesignsEmit == {
    D(<<"fuel", "plenum">>, <<5, 4>>, 3),
    D(<<"fuelb", "bigfuel">>, <<5, 5>>, 2) }
DesignsDeep == { D(<<"fuel", "plenum">>, <<4, 4>>, 16) }
\* static cases: target-component choice and link detection over many block designs (one call each)
DesignsCases == {D(<<t1, t2>>, <<4, 4>>, 4) : t1, t2 \in DOMAIN BT} \cup {D(<<t>>, <<4>>, 4) : t \in DOMAIN BT}
DesignsCasesQuick == {D(<<t1, t2>>, <<4, 4>>, 4) : t1 \in {"fuel", "shield", "liner", "wires"}, t2 \in DOMAIN BT} \cup {D(<<t>>, <<4>>, 4) : t \in DOMAIN BT}
TriplesQuick == {<<0, 1, 2>>, <<2, 0, 1>>}
TriplesThorough == {<<0, 1, 2>>, <<2, 0, 1>>, <<1, 1, 0>>, <<2, 1, 0>>}
TriplesEmit == {<<0, 1, 2>>}
TriplesOther == {<<2, 0, 1>>}
NoTriples == {}
FromBoth == BOOLEAN
FromRef == {FALSE}
GOne == {<<1, 1>>}
DesignsLit == { D(<<"fuel", "plenum">>, <<5, 4>>, 3), D(<<"fuelb", "bigfuel">>, <<5, 5>>, 2) }
DesignsEmitThorough == DesignsEmit \cup { D(<<"shield", "fuel">>, <<4, 5>>, 3) }
=====================================================================================================
