------------------------------------- MODULE AxialExpansion_mc -------------------------------------
(* bounded instances of AxialExpansion: designs, growth sets, emission operators *)
EXTENDS AxialExpansion
Bound == TLCGet("level") <= MaxLevel
\* one line per distinct state: the design, the calls that lead to it, the specification's observation of it
EmitState == PrintT(ToJson([A |-> A, path |-> path, obs |-> Obs, lit |-> Lit]))
NoRepl == {}
NoEdits == {}
\* replacement blocks: a fuel block whose designer locked the clad as target, a plain fuel block, a shield block
ReplSome == {[t |-> "fuel", e |-> 2], [t |-> "fuel", e |-> 0], [t |-> "shield", e |-> 0]}
\* geometry edit: the clad tubes' multiplicity 4 -> 2 (they are then no longer linked to a 4-fold clad)
EditSome == {[name |-> "clad", m |-> 2]}
\* the catalogue, printed once: the adapter builds real components / blocks from it
ASSUME PrintT(ToJson([CT |-> CT, BT |-> BT]))

\* D: fluid-only DUMMY block on top, detailed changer;  NoDet: the same with the default (non-detailed) changer;
\* TopD(types, hs, top, hd, det): an ordinary block of type `top` (height hd) on top
D(types, hs, hd) == [types |-> types, hs |-> hs, hd |-> hd, top |-> "", det |-> TRUE, hot |-> 0, rule |-> "default"]
NoDet(types, hs, hd) == [types |-> types, hs |-> hs, hd |-> hd, top |-> "", det |-> FALSE, hot |-> 0, rule |-> "default"]
FreeClad(d) == [d EXCEPT !.rule = "freeclad"]            \* linkage through a subclass hook: cladding never linked
Hot(d, lvl) == [d EXCEPT !.hot = lvl]                      \* the same design built hot (Thot = 250 C x lvl, Tinput = 0 C)
TopD(types, hs, top, hd, det) == [types |-> types, hs |-> hs, hd |-> hd, top |-> top, det |-> det, hot |-> 0, rule |-> "default"]
\* growth sets (closed under inverse)
G3  == {<<5, 6>>, <<1, 1>>, <<6, 5>>}
G5  == {<<5, 6>>, <<10, 11>>, <<1, 1>>, <<11, 10>>, <<6, 5>>}
G2x == {<<1, 2>>, <<1, 1>>, <<2, 1>>}                       \* dyadic: the real arithmetic is exact, long histories stay small

\* quick exhaustive: the standard column (shield / fuel / plenum), fuel over fuel, cross links, an unlinked pin, a tight dummy
DesignsQuick == {
    Hot(D(<<"fuel", "plenums">>, <<5, 4>>, 3), 2),                   \* built at 500 C, plenum clad sleeved (marginally) over the fuel clad
    NoDet(<<"shield", "fuel">>, <<4, 5>>, 3),
    D(<<"fuelb", "bigfuel">>, <<5, 5>>, 2),
    NoDet(<<"fuel", "afuel">>, <<5, 3>>, 4),
    D(<<"fuel">>, <<10>>, 2),
    TopD(<<"shield", "fuel">>, <<4, 5>>, "plenum", 3, FALSE),        \* no dummy: the plenum on top is chopped
    TopD(<<"fuel">>, <<5>>, "plenum", 4, TRUE) }                      \* no dummy + detailed: every call refused
DesignsThorough == DesignsQuick \cup {
    D(<<"shield", "fuel", "plenum">>, <<3, 5, 4>>, 4),
    D(<<"fueld", "fueld">>, <<5, 4>>, 3),
    D(<<"fuel", "fuel">>, <<10, 3>>, 5),
    D(<<"control", "plenumd">>, <<4, 4>>, 3),
    D(<<"fuel", "aclp">>, <<5, 3>>, 3),
    NoDet(<<"fuel", "plenum">>, <<5, 4>>, 3),
    TopD(<<"fuel", "fuel">>, <<5, 4>>, "shield", 3, FALSE),
    TopD(<<"fuelb">>, <<6>>, "bigfuel", 4, FALSE),
    TopD(<<"fuel">>, <<5>>, "fuel", 4, FALSE),
    D(<<"fuel", "plenum">>, <<5, 4>>, 3),
    Hot(NoDet(<<"fuel", "plenumr">>, <<5, 4>>, 3), 1),
    FreeClad(NoDet(<<"fuel", "plenum">>, <<5, 4>>, 3)) }
DesignsEmit == {
    Hot(D(<<"fuel", "plenums">>, <<5, 4>>, 3), 2),
    NoDet(<<"fuelb", "bigfuel">>, <<5, 5>>, 2),
    TopD(<<"fuel">>, <<5>>, "plenum", 4, FALSE),
    TopD(<<"fuel">>, <<5>>, "plenum", 4, TRUE) }
DesignsDeep == { NoDet(<<"fuel", "plenum">>, <<4, 4>>, 16), TopD(<<"fuel">>, <<4>>, "plenum", 8, FALSE) }
\* static cases: target-component choice and link detection over many block designs (one call each)
TopCases(S) == {TopD(<<t1>>, <<4>>, t2, 4, det) : t1 \in {"fuel", "shield"}, t2 \in S, det \in BOOLEAN}
HotCases == {Hot(D(<<t1, t2>>, <<4, 4>>, 4), 2) : t1, t2 \in {"fuel", "plenums", "plenumr"}}     \* marginal overlaps, built hot, both orders
FreeCases == {FreeClad(D(<<t1, t2>>, <<4, 4>>, 4)) : t1, t2 \in {"fuel", "plenum", "liner", "shield"}}
DesignsCases == {D(<<t1, t2>>, <<4, 4>>, 4) : t1, t2 \in DOMAIN BT} \cup {NoDet(<<t>>, <<4>>, 4) : t \in DOMAIN BT} \cup TopCases(DOMAIN BT) \cup HotCases \cup FreeCases
DesignsCasesQuick == {D(<<t1, t2>>, <<4, 4>>, 4) : t1 \in {"fuel", "shield", "liner", "wires"}, t2 \in DOMAIN BT}
                     \cup {NoDet(<<t>>, <<4>>, 4) : t \in DOMAIN BT} \cup TopCases({"plenum", "fuel", "afuel", "liner", "nofuel"}) \cup HotCases \cup FreeCases
TriplesQuick == {<<0, 1, 2>>, <<2, 0, 1>>}
TriplesThorough == {<<0, 1, 2>>, <<2, 0, 1>>, <<1, 1, 0>>, <<2, 1, 0>>}
TriplesEmit == {<<-1, 0, 2>>}        \* -250 C, exactly 0.0 C, 500 C (block means such as -1/2 and 1 in between)
TriplesOther == {<<2, -1, 1>>}
NoTriples == {}
FromBoth == BOOLEAN
FromRef == {FALSE}
GOne == {<<1, 1>>}
\* histories with edits between the calls: call ; replace a block / edit a multiplicity ; call
DesignsHist == { NoDet(<<"fuel", "plenum">>, <<5, 4>>, 4) }
DesignsHistThorough == { D(<<"fuel", "fuel", "plenum">>, <<4, 4, 3>>, 4), NoDet(<<"shield", "fuel">>, <<4, 5>>, 3), FreeClad(NoDet(<<"fuel", "plenum">>, <<5, 4>>, 4)) }
GUp == {<<1, 1>>, <<6, 5>>}
DesignsLit == { D(<<"fuel", "plenum">>, <<5, 4>>, 3), NoDet(<<"fuelb", "bigfuel">>, <<5, 5>>, 2) }
DesignsEmitThorough == DesignsEmit \cup { TopD(<<"shield", "fuel">>, <<4, 5>>, "plenum", 3, FALSE), FreeClad(NoDet(<<"fuel", "plenum">>, <<5, 4>>, 3)) }
=====================================================================================================
