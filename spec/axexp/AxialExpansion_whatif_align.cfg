\* what-if: target component placed on the block bottom -- both literal conservation clauses hold (LinkedStayStacked is left out: it fails, see whatif_align_stack)
\* quick exhaustive: 5 designs x explicit target choices; growths {5/6,1,6/5}, <= 2 changed components or per-block uniform; one 3-step temperature profile with all break points, from reference or input temperature; refusals; 2 successive calls
CONSTANTS
  Designs <- DesignsQuick
  Growths <- G3
  MaxNonUnit = 1
  LevelTriples <- TriplesEmit
  BreakStep = 2
  FromInput <- FromBoth
  ExplicitTargets = TRUE
  Replacements <- NoRepl
  Edits <- NoEdits
  Refusals = TRUE
  ZeroHeightRefused = TRUE
  AlignTarget = TRUE
  MaxLevel = 3
INIT Init
NEXT Next
CONSTRAINT Bound
INVARIANT TypeOK
INVARIANT TotalHeightPreserved
INVARIANT Contiguous
INVARIANT NonNegativeHeights
INVARIANT GridBoundsAreElevations
INVARIANT BoundaryFollowsTarget
INVARIANT DensityDividedByGrowth
INVARIANT ComponentHeightIsGrowthTimesBlock
INVARIANT MassAccounting
INVARIANT TargetMassConserved
INVARIANT UniformBlockMassConserved
INVARIANT UniformAssemblyMassConserved
INVARIANT RoundTripRestores
INVARIANT RefusalsChangeNothing
INVARIANT GridClear
CHECK_DEADLOCK FALSE
