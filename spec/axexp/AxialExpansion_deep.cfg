\* deep: histories of 3 successive calls, growth by powers of two (one component or per-block uniform)
CONSTANTS
  Designs <- DesignsDeep
  Growths <- G2x
  MaxNonUnit = 1
  LevelTriples <- NoTriples
  BreakStep = 1
  FromInput <- FromBoth
  ExplicitTargets = FALSE
  Replacements <- NoRepl
  Edits <- NoEdits
  Refusals = FALSE
  ZeroHeightRefused = TRUE
  AlignTarget = FALSE
  MaxLevel = 4
INIT Init
NEXT Next
CONSTRAINT Bound
INVARIANT TypeOK
INVARIANT TotalHeightPreserved
INVARIANT Contiguous
INVARIANT NonNegativeHeights
INVARIANT GridBoundsAreElevations
INVARIANT BoundaryFollowsTarget
INVARIANT LinkedStayStacked
INVARIANT DensityDividedByGrowth
INVARIANT ComponentHeightIsGrowthTimesBlock
INVARIANT MassAccounting
INVARIANT AlignedTargetMassConserved
INVARIANT UniformAssemblyMassConserved
INVARIANT RoundTripRestores
INVARIANT RefusalsChangeNothing
INVARIANT GridClear
CHECK_DEADLOCK FALSE
