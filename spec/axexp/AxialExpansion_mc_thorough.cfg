\* thorough exhaustive: 10 designs (2 and 3 blocks below the dummy, 2 or 3 components per block), a non-monotone temperature profile (the quick instance uses the monotone one)
CONSTANTS
  Designs <- DesignsThorough
  Growths <- G3
  MaxNonUnit = 2
  LevelTriples <- TriplesOther
  BreakStep = 2
  FromInput <- FromBoth
  ExplicitTargets = TRUE
  Replacements <- NoRepl
  Edits <- NoEdits
  Refusals = TRUE
  ZeroHeightRefused = TRUE
  AlignTarget = FALSE
  MaxLevel = 3
INIT Init
NEXT Next
CONSTRAINT Bound
INVARIANT TypeOK
INVARIANT TotalHeightPreserved
INVARIANT Contiguous
INVARIANT NonNegativeHeights
INVARIANT GridBoundsAreElevations
INVARIANT BoundaryFollowsTarget
INVARIANT LinkedStayStacked
INVARIANT DensityDividedByGrowth
INVARIANT ComponentHeightIsGrowthTimesBlock
INVARIANT MassAccounting
INVARIANT AlignedTargetMassConserved
INVARIANT UniformAssemblyMassConserved
INVARIANT RoundTripRestores
INVARIANT RefusalsChangeNothing
INVARIANT GridClear
CHECK_DEADLOCK FALSE
