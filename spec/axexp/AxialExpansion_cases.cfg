\* static cases: target-component choice and link detection for every single block and the 2-block stacks over fuel / shield / liner blocks of the block catalogue (one call with setFuel TRUE/FALSE)
CONSTANTS
  Designs <- DesignsCasesQuick
  Growths <- GOne
  MaxNonUnit = 0
  LevelTriples <- NoTriples
  BreakStep = 1
  FromInput <- FromBoth
  ExplicitTargets = FALSE
  Replacements <- NoRepl
  Edits <- NoEdits
  Refusals = FALSE
  ZeroHeightRefused = TRUE
  AlignTarget = FALSE
  MaxLevel = 2
INIT Init
NEXT Next
CONSTRAINT Bound
INVARIANT EmitState
CHECK_DEADLOCK FALSE
