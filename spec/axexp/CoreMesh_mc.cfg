\* core level, quick: reference shield/fuel/fuel/plenum + 4 followers (default changer); calls on the reference (<= 1 changed component or per-block uniform) interleaved with manageCoreMesh, 2 actions
CONSTANTS
  UseDb = TRUE
  Cores <- CoresQuick
  Designs <- NoTriples
  Growths <- G3
  MaxNonUnit = 1
  LevelTriples <- NoTriples
  BreakStep = 1
  FromInput <- FromNone
  ExplicitTargets = FALSE
  Replacements <- NoRepl
  Edits <- NoEdits
  Refusals = FALSE
  ZeroHeightRefused = TRUE
  AlignTarget = FALSE
  MaxLevel = 3
INIT CInit
NEXT CNext
CONSTRAINT Bound
INVARIANT TypeOK
INVARIANT TotalHeightPreserved
INVARIANT Contiguous
INVARIANT GridBoundsAreElevations
INVARIANT BoundaryFollowsTarget
INVARIANT LinkedStayStacked
INVARIANT DensityDividedByGrowth
INVARIANT MassAccounting
INVARIANT UniformAssemblyMassConserved
INVARIANT FollowersKeepTotalHeight
INVARIANT FollowersOnReferenceMesh
INVARIANT SnapConservesFuel
INVARIANT SnapConservesBelowFuel
INVARIANT SnapLeavesOthers
INVARIANT ReferenceUntouchedBySnap
INVARIANT CoreMeshIsReference
INVARIANT CallsLeaveFollowers
INVARIANT SaveLoadKeepsState
CHECK_DEADLOCK FALSE
