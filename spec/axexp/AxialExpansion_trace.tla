------------------------------------- MODULE AxialExpansion_trace -------------------------------------
(* code -> spec: every recorded history of prescribed expansions (growth by powers of two, so that the real
   double arithmetic is exact and the recorded numbers are the exact rationals) must be a behaviour of
   AxialExpansion, event by event: the call's complete post-state (block and component elevations, heights,
   linear densities, masses, persisted target names, grid bounds, error kind) equals the specification's. *)
EXTENDS AxialExpansion, IOUtils, TLCExt
Traces == ndJsonDeserialize(IOEnv.TRACE_FILE)
NT     == Len(Traces)
VARIABLES tid, l
ASSUME \A t \in 1..NT : TLCSet(t, 0)
TInit == \E t \in 1..NT : tid = t /\ l = 1 /\ InitFor(Traces[t].design, Traces[t].ex)
Ev == Traces[tid].ev[l]
Step == /\ Ev.a.n = "Prescribed"
        /\ Prescribed(Ev.a.g \o <<[i \in 1..NC(NBk) |-> ROne]>>, Ev.a.setFuel, Ev.a.kind)     \* the top block has no factor
TraceObs == [err |-> err, zb |-> zb, zt |-> zt, h |-> h, mesh |-> mesh, locz |-> LocZ,
             tname |-> [b \in 1..NBk |-> NameOf(b, tname[b])],
             comp |-> [b \in 1..NBk |-> [i \in 1..NC(b) |->
                         [h |-> comp[b][i].h, zb |-> comp[b][i].zb, zt |-> comp[b][i].zt, lin |-> comp[b][i].lin,
                          mass |-> ObsMass(b, i)]]]]
ObsMatch == \/ TraceObs' = Ev.post
            \/ /\ TraceObs' # Ev.post
               /\ PrintT(ToJson([mismatch |-> Traces[tid].id, at |-> l, expected |-> TraceObs']))
               /\ FALSE
TNext == /\ l <= Len(Traces[tid].ev) /\ l' = l + 1 /\ tid' = tid
         /\ Step
         /\ ObsMatch
TSpec == TInit /\ [][TNext]_<<vars, tid, l>>
Progress == IF TLCGet(tid) < l THEN TLCSet(tid, l) ELSE TRUE
Report == LET bad == {t \in 1..NT : TLCGet(t) # Len(Traces[t].ev) + 1} IN
          /\ \A t \in bad : PrintT(ToJson([rejected |-> Traces[t].id, matched |-> TLCGet(t) - 1]))
          /\ PrintT(ToJson([accepted |-> NT - Cardinality(bad), of |-> NT]))
NoDesigns == {}
NoRepl == {}
NoEdits == {}
G2 == {<<1, 2>>, <<1, 1>>, <<2, 1>>}
=====================================================================================================
