\* histories with edits between the calls (replaceBlockWithBlock, setDimension(mult)): 3 actions, printed for the replay;
\* the invariants are checked on the same run
CONSTANTS
  Designs <- DesignsHistThorough
  Growths <- GUp
  MaxNonUnit = 1
  LevelTriples <- NoTriples
  BreakStep = 2
  FromInput <- FromRef
  ExplicitTargets = FALSE
  Replacements <- ReplSome
  Edits <- EditSome
  Refusals = FALSE
  ZeroHeightRefused = TRUE
  AlignTarget = FALSE
  MaxLevel = 4
INIT Init
NEXT Next
CONSTRAINT Bound
INVARIANT EmitState
INVARIANT TypeOK
INVARIANT TotalHeightPreserved
INVARIANT Contiguous
INVARIANT NonNegativeHeights
INVARIANT GridBoundsAreElevations
INVARIANT BoundaryFollowsTarget
INVARIANT LinkedStayStacked
INVARIANT DensityDividedByGrowth
INVARIANT ComponentHeightIsGrowthTimesBlock
INVARIANT MassAccounting
INVARIANT AlignedTargetMassConserved
INVARIANT UniformAssemblyMassConserved
INVARIANT RoundTripRestores
CHECK_DEADLOCK FALSE
