--------------------------------------- MODULE AxialExpansion ---------------------------------------
(* C12 -- axial expansion of a pin-type assembly with a top dummy block
   (armi/reactor/converters/axialExpansionChanger/{axialExpansionChanger,assemblyAxialLinkage,expansionData}.py).

   WHAT IS TRANSCRIBED (one action per public call, its linearization point is the return / the raise)

   Prescribed(g, setFuel)              AxialExpansionChanger.performPrescribedAxialExpansion(a, comps, fracs, setFuel)
   Thermal(field, setFuel, fromInput)  AxialExpansionChanger.performThermalAxialExpansion(a, grid, field, setFuel, fromInput)
   PrescribedBad(kind)                 the same call with a factor <= 0 or len(comps) # len(fracs):
                                       ExpansionData.setExpansionFactors raises RuntimeError before anything moves
   ThermalBadLen                       len(tempGrid) # len(tempField): RuntimeError before anything moves

   every call = setAssembly ; factors ; axiallyExpandAssembly:
     Prep(setFuel)      AssemblyAxialLinkage.__init__ (component links from areAxiallyLinked = LinkedTy below; two
                        candidates in one neighbouring block => RuntimeError) ; ExpansionData._setTargetComponents
                        (explicit b.p.axialExpTargetComponent, else clad for plenum/aclp blocks, none for the dummy,
                        else _isFuelLocked for fuel blocks when setFuel, else determineTargetComponent: first flag of
                        TARGET_FLAGS_IN_PREFERRED_ORDER carried by a child, else children sharing a flag with the block,
                        else the single solid; 0 or >1 candidates => RuntimeError).  The determined name is PERSISTED
                        on the block (tname), also when the call is refused later.
     ThermalG(field)    ExpansionData.updateComponentTempsBy1DTempField (mean of the field values at the grid points
                        with zbottom <= z <= ztop, blocks bottom-up, ValueError at the first block without a point --
                        blocks below it keep their NEW temperature: the refusal is not atomic, transcribed as such) ;
                        computeThermalExpansionFactors: g = L(Tnew)/L(Tref) for solids (Tref = previous component
                        temperature, or the input temperature when fromInput), L = 1 + dLL of the component's material.
     ExpandCore(g)      axiallyExpandAssembly, line by line: blocks bottom-up; block bottom := top of the block below;
                        for every SOLID component  height := g * (block height before the call),
                        bottom := 0 in the lowest block, else top of the component linked below, else top of the block
                        below;  top := bottom + height;  number densities := / g;  the target component's top becomes
                        the block top and height := top - bottom.  The last block (the dummy) keeps its top:
                        height := top - bottom.  height < 0 => ArithmeticError raised in the middle of the loop
                        (the assembly is left half-updated: `broken`, no further call is modelled).
                        Afterwards spatialGrid._bounds[2] := <<0>> \o tops.

   NUMBERS  exact rationals <<n,d>> (spec/common/RationalX.tla = Rational.tla with cancellation before multiplication).
   `lin` = (number density x cross-section area) of a component relative to its initial value, i.e. mass per unit height: the radial part of a temperature change
   (Component.setTemperature) leaves it unchanged, the axial step divides it by g.  mass(c) = lin(c) * height(block of c)
   (Component.getVolume = area * parent.getHeight()).  Temperatures are levels tau = Tc/250 (tau = 0 is exactly
   0.0 C = the input temperature of every component, tau = -1 is -250 C); a design gives the hot level A.hot its components
   are built at (Thot >= Tinput).  The two solid materials of the model have L_A = 1 + tau/20, L_B = 1 + tau/40 (the adapter
   supplies materials with exactly these linearExpansionPercent laws).  Links are decided on COLD (input) dimensions =
   the catalogue's integers, as areAxiallyLinked documents, whatever A.hot is.

   INTERPRETATION OF THE STATEMENT (clauses -> named invariants)
     total height unchanged                       TotalHeightPreserved
     contiguous, positive, grid bounds            Contiguous, PositiveHeights [!], GridBoundsAreElevations
     boundary moves with the target component     BoundaryFollowsTarget
     target mass conserved below the dummy        TargetMassConserved [!]
     same fraction in a block => all masses       UniformBlockMassConserved [!]   (read per block, as written)
     expand ; inverse restores                    RoundTripRestores  (read inside the scope of the preceding clause:
                                                  both changes give all solids of each block one common fraction)
     linked components stay stacked               LinkedStayStacked
     mechanism: density divided by growth         DensityDividedByGrowth, ComponentHeightIsGrowthTimesBlock
   [!] these three are the statement's literal clauses; TLC REFUTES them on this transcription of the code
   (AxialExpansion_lit*.cfg).  What the code does guarantee instead is stated exactly and checked exhaustively:
     MassAccounting              mass'(c) = mass(c) * h'(b) / (g(c) * h(b))   for every solid component
     AlignedTargetMassConserved  the target's mass is conserved iff its bottom sits on the block bottom
     UniformAssemblyMassConserved  if EVERY block's solids share one fraction, every solid's mass is conserved
     NonNegativeHeights          heights >= 0 (the guard is `< 0.0`)
   WHAT-IF CONSTANTS (both FALSE = the code as it is; see AxialExpansion_whatif_*.cfg): ZeroHeightRefused models the
   one-character fix `<= 0.0` of _checkBlockHeight (PositiveHeights then holds); AlignTarget models placing the target
   component on the block bottom: TargetMassConserved and UniformBlockMassConserved then hold, but LinkedStayStacked
   fails for targets linked to a non-target below -- with densities divided by the growth fraction the statement's
   conservation and stacking clauses cannot all hold when the solids of a block grow by different fractions.
   Refusals: RefusalsChangeNothing (RuntimeError refusals leave elevations, densities, temperatures and bounds as
   they were; the persisted target names may be filled in).

   TOP BLOCK AND THE CHANGER'S MODE (design dimensions A.top, A.det).  axiallyExpandAssembly treats the LAST block as the
   one that absorbs the change, whatever its flags (isDummyBlock = ib == numOfBlocks - 1): its solids are not expanded,
   its top stays, height := top - bottom ("artificially chopped to preserve the assembly height").  A.top = "" is the
   fluid-only block flagged DUMMY of the statement; A.top = <block type> is an ordinary block on top (it gets a target
   component like any block, which is never used).  _isTopDummyBlockPresent: a top block not flagged DUMMY only warns,
   but with AxialExpansionChanger(detailedAxialExpansion=True) (A.det) setAssembly raises RuntimeError -- after the
   links and the target names have been determined and persisted.  Nothing else depends on the mode: the grid bounds
   and block locators are rewritten by every completed call in both modes.

   LINK RULE AND EDITS BETWEEN CALLS (histories).  A.rule selects what is linked: "default" = areAxiallyLinked, "freeclad" = a
   user subclass of AssemblyAxialLinkage overriding the documented areAxiallyLinked hook (LinkedR).  Between two calls the
   assembly may be edited: ReplaceBlock = Block.replaceBlockWithBlock (the block keeps height and elevations and takes the
   replacement's components and its designated target name), EditMult = Component.setDimension("mult", m) (links are
   re-derived from the edited cold geometry by the next call: setAssembly always starts from scratch, whether the changer
   object is new or re-used -- the adapter drives both).  A carries the current design and types0/expl = what it was built with.

   NOT MODELLED  AxialExpansionChanger.expandColdDimsToHot / applyColdHeightMassIncrease (core construction), explicit targets naming a fluid or missing component, a block flagged DUMMY
   below the top, radial dimensions (C03).

   CONFIGURATIONS (AxialExpansion_mc.tla holds the design sets)
     _mc / _mc_thorough      exhaustive, all invariants above           _deep / _deep_thorough   3..4 calls, growth by powers of 2
     _lit_<Clause>           one literal clause each (refuted)          _whatif_*                the two what-if variants
     _emit / _emit_thorough  every distinct state printed as (design, calls, observation) for the replay on armi
     _cases / _cases_thorough  one call on every 1-/2-block stack of the block catalogue: target choice, links, refusals
     _hist / _hist_thorough  call ; ReplaceBlock / EditMult ; call histories: invariants + printed for the replay
     _trace                  batch validation of histories recorded from armi
     CoreMesh*.tla/.cfg      the core level: this assembly as reference assembly of a core, calls interleaved with
                             manageCoreMesh (uniform-mesh snap of the follower assemblies) -- see CoreMesh.tla
*)
EXTENDS RationalX, TLC, Json

CONSTANTS Designs,        \* set of [types |-> <<block types below the top block, bottom-up>>, hs |-> <<their heights>>,
                          \*         top |-> "" (fluid-only DUMMY block) or a block type, hd |-> height of the top block,
                          \*         det |-> the changer's detailedAxialExpansion flag, hot |-> temperature level the components are built at]
          Growths,        \* growth fractions L1/L0 (rationals) a prescribed call may use
          MaxNonUnit,     \* a prescribed call changes at most this many components (Uniform calls are always explored)
          LevelTriples,   \* thermal fields are 3-step profiles <<l1,l2,l3>> with two break points; {} = no thermal calls
          BreakStep,      \* the break points of the profiles are the multiples of BreakStep (1 = every grid point)
          FromInput,      \* values of expandFromTinputToThot explored (subset of BOOLEAN)
          ExplicitTargets,\* TRUE: every choice of an explicit (blueprint) target component per block is explored too
          Refusals,       \* TRUE: also explore the calls refused with RuntimeError
          Replacements,   \* set of [t |-> block type, e |-> designated target index or 0] a block may be replaced with
          Edits,          \* set of [name |-> component name, m |-> new multiplicity] geometry edits
          ZeroHeightRefused, \* FALSE = the code as it is (_checkBlockHeight raises for height < 0.0); TRUE = with the guard `<= 0.0`
          AlignTarget,    \* FALSE = the code as it is; TRUE = what-if: the target component's bottom is put on the block bottom
          MaxLevel

VARIABLES A,              \* the design (static)
          zb, zt, h,      \* block p.zbottom, p.ztop, p.height               (1..K+1, the last one is the top block)
          comp,           \* comp[b][i] = [h, zb, zt, lin, T] of component i of block b  (comp[K+1] = <<>> for a dummy top)
          tname,          \* persisted b.p.axialExpTargetComponent (0 = unset, else component index)
          mesh,           \* assembly.spatialGrid._bounds[2]  (<<>> until the first expansion sets it)
          placed,         \* components carry zbottom/ztop/height attributes (after the first expansion)
          broken, err, act, path,
          pre, lg, pre2, lg2   \* history: snapshot/growth vector of the last and the last-but-one call
vars == <<A, zb, zt, h, comp, tname, mesh, placed, broken, err, act, path, pre, lg, pre2, lg2>>

(* ------------------------------------------- catalogue -------------------------------------------------- *)
\* component types: shape class, multiplicity, inner / outer bounding diameter (integers; the adapter scales them),
\* solid or fluid, material (expansion law), flags
CT == [
  fuel    |-> [cls |-> "Circle",  mult |-> 4, idm |-> 0,  od |-> 20, solid |-> TRUE,  mat |-> "A", flags |-> {"fuel"}],
  bigfuel |-> [cls |-> "Circle",  mult |-> 2, idm |-> 0,  od |-> 20, solid |-> TRUE,  mat |-> "A", flags |-> {"fuel"}],
  afuel   |-> [cls |-> "Circle",  mult |-> 4, idm |-> 10, od |-> 20, solid |-> TRUE,  mat |-> "A", flags |-> {"fuel", "annular"}],
  shield  |-> [cls |-> "Circle",  mult |-> 4, idm |-> 0,  od |-> 20, solid |-> TRUE,  mat |-> "B", flags |-> {"shield"}],
  control |-> [cls |-> "Circle",  mult |-> 4, idm |-> 0,  od |-> 20, solid |-> TRUE,  mat |-> "A", flags |-> {"control"}],
  poison  |-> [cls |-> "Circle",  mult |-> 2, idm |-> 0,  od |-> 10, solid |-> TRUE,  mat |-> "A", flags |-> {"poison"}],
  slug    |-> [cls |-> "Circle",  mult |-> 4, idm |-> 0,  od |-> 20, solid |-> TRUE,  mat |-> "B", flags |-> {"slug"}],
  bond    |-> [cls |-> "Circle",  mult |-> 4, idm |-> 20, od |-> 30, solid |-> FALSE, mat |-> "F", flags |-> {"bond"}],
  clad    |-> [cls |-> "Circle",  mult |-> 4, idm |-> 30, od |-> 40, solid |-> TRUE,  mat |-> "B", flags |-> {"clad"}],
  \* marginal radial overlaps with the clad (30,40), decided on COLD dimensions: the sleeve's bore 39 is just inside the
  \* clad's outside 40 (linked; a bore taken hot, x1.05 at level 2, would not be), the ring's bore 41 is just outside it
  \* (not linked; a clad outside taken hot, 42, would be)
  sleeve  |-> [cls |-> "Circle",  mult |-> 4, idm |-> 39, od |-> 45, solid |-> TRUE,  mat |-> "B", flags |-> {"clad"}],
  ring    |-> [cls |-> "Circle",  mult |-> 4, idm |-> 41, od |-> 46, solid |-> TRUE,  mat |-> "B", flags |-> {"clad"}],
  liner   |-> [cls |-> "Circle",  mult |-> 4, idm |-> 10, od |-> 40, solid |-> TRUE,  mat |-> "B", flags |-> {"liner"}],
  wire    |-> [cls |-> "Circle",  mult |-> 4, idm |-> 0,  od |-> 10, solid |-> TRUE,  mat |-> "B", flags |-> {"wire"}],
  duct    |-> [cls |-> "Hexagon", mult |-> 1, idm |-> 750, od |-> 800, solid |-> TRUE, mat |-> "B", flags |-> {"duct"}],
  blob    |-> [cls |-> "Unshaped", mult |-> 1, idm |-> 0, od |-> 20, solid |-> TRUE,  mat |-> "B", flags |-> {"structure"}]
]
\* block types: flags of the block, components in blueprint order
BT == [
  fuel     |-> [flags |-> {"fuel"},    comps |-> <<"fuel", "clad">>],
  fuelb    |-> [flags |-> {"fuel"},    comps |-> <<"fuel", "bond", "clad">>],
  fueld    |-> [flags |-> {"fuel"},    comps |-> <<"fuel", "clad", "duct">>],
  bigfuel  |-> [flags |-> {"fuel"},    comps |-> <<"bigfuel", "clad">>],
  afuel    |-> [flags |-> {"fuel"},    comps |-> <<"afuel", "clad">>],
  twofuel  |-> [flags |-> {"fuel"},    comps |-> <<"fuel", "bigfuel", "clad">>],
  nofuel   |-> [flags |-> {"fuel"},    comps |-> <<"clad", "duct">>],
  shield   |-> [flags |-> {"shield"},  comps |-> <<"shield", "clad">>],
  shieldd  |-> [flags |-> {"shield"},  comps |-> <<"shield", "clad", "duct">>],
  control  |-> [flags |-> {"control"}, comps |-> <<"control", "clad">>],
  ctrlpois |-> [flags |-> {"control"}, comps |-> <<"poison", "control", "clad">>],
  slug     |-> [flags |-> {"reflector"}, comps |-> <<"slug", "clad">>],
  plenum   |-> [flags |-> {"plenum"},  comps |-> <<"bond", "clad">>],
  plenumd  |-> [flags |-> {"plenum"},  comps |-> <<"clad", "duct">>],
  plenums  |-> [flags |-> {"plenum"},  comps |-> <<"bond", "sleeve">>],    \* clad tube sleeved over the clad below (marginal, linked)
  plenumr  |-> [flags |-> {"plenum"},  comps |-> <<"bond", "ring">>],      \* clad tube just clear of the clad below (marginal, not linked)
  aclp     |-> [flags |-> {"aclp"},    comps |-> <<"clad", "duct">>],
  plenduct |-> [flags |-> {"plenum"},  comps |-> <<"bond", "duct">>],
  ductonly |-> [flags |-> {"duct"},    comps |-> <<"duct", "bond">>],
  ductclad |-> [flags |-> {"duct"},    comps |-> <<"clad", "duct">>],
  structs  |-> [flags |-> {"grid_plate"}, comps |-> <<"clad", "duct">>],
  liner    |-> [flags |-> {"shield"},  comps |-> <<"liner", "shield">>],
  lineronly|-> [flags |-> {"liner"},   comps |-> <<"liner", "duct">>],
  blob     |-> [flags |-> {"structure"}, comps |-> <<"blob", "clad">>],
  wires    |-> [flags |-> {"shield"},  comps |-> <<"wire", "clad">>]       \* wire (0,1) touches an annular pin (1,2) above it: not linked
]
PrefFlags == <<"fuel", "control", "poison", "shield", "slug">>        \* TARGET_FLAGS_IN_PREFERRED_ORDER

(* ------------------------------------------- static structure ------------------------------------------- *)
\* Everything that follows from the design alone is computed once (Init) and carried in A:
\*   k, H (total height), ng (temperature points), names/solid/mat per component, lower/upper links, multi
IMax2(a, b) == IF a >= b THEN a ELSE b
IMin2(a, b) == IF a <= b THEN a ELSE b
RECURSIVE SumSeq(_, _)
SumSeq(s, n) == IF n = 0 THEN 0 ELSE s[n] + SumSeq(s, n - 1)          \* s[1] + ... + s[n]

\* assemblyAxialLinkage.areAxiallyLinked (the default rule)
LinkedTy(x, y) == /\ x.solid /\ y.solid
                  /\ x.cls = y.cls
                  /\ x.mult = y.mult
                  /\ x.cls # "Unshaped"
                  /\ IMax2(x.idm, y.idm) < IMin2(x.od, y.od)
\* AssemblyAxialLinkage.areAxiallyLinked is the documented hook a subclass overrides to decide what is linked.  The rule is
\* a dimension of the design: "default", or "freeclad" = a subclass for which cladding tubes are never linked to anything
\* and everything else follows the default rule (links are then looked up through the hook: _findComponentLinkedTo).
LinkedR(rule, x, y) == IF rule = "freeclad" /\ ("clad" \in x.flags \/ "clad" \in y.flags) THEN FALSE ELSE LinkedTy(x, y)
DNames(d, b) == IF b >= 1 /\ b <= Len(d.types) THEN BT[d.types[b]].comps
                ELSE IF b = Len(d.types) + 1 /\ d.top # "" THEN BT[d.top].comps
                ELSE <<>>                                         \* a dummy top holds only coolant (outside the model)
\* the catalogue entry of a component with its multiplicity as edited since construction (mults[b][i] = 0: as built)
ECT(d, mults, b, i) == LET c == CT[DNames(d, b)[i]] IN [c EXCEPT !.mult = IF mults[b][i] = 0 THEN @ ELSE mults[b][i]]
DLinks(d, mults, b, i, bb) == {j \in 1..Len(DNames(d, bb)) : LinkedR(d.rule, ECT(d, mults, b, i), ECT(d, mults, bb, j))}
Pick(S) == IF S = {} THEN 0 ELSE CHOOSE j \in S : TRUE
NoMults(d) == [b \in 1..(Len(d.types) + 1) |-> [i \in 1..Len(DNames(d, b)) |-> 0]]
\* d = current design; types0 / explN = block types and explicit target names the assembly was BUILT with
StaticOf(d, explN, types0, mults) ==
    LET k == Len(d.types) IN
    [types |-> d.types, hs |-> d.hs, hd |-> d.hd, top |-> d.top, det |-> d.det, hot |-> d.hot, rule |-> d.rule, k |-> k,
     types0 |-> types0, expl |-> explN, mults |-> mults,
     H     |-> SumSeq(d.hs, k) + d.hd,
     ng    |-> (SumSeq(d.hs, k) + d.hd) \div 2,
     names |-> [b \in 1..(k + 1) |-> DNames(d, b)],
     solid |-> [b \in 1..(k + 1) |-> [i \in 1..Len(DNames(d, b)) |-> CT[DNames(d, b)[i]].solid]],
     mat   |-> [b \in 1..(k + 1) |-> [i \in 1..Len(DNames(d, b)) |-> CT[DNames(d, b)[i]].mat]],
     lower |-> [b \in 1..(k + 1) |-> [i \in 1..Len(DNames(d, b)) |-> Pick(DLinks(d, mults, b, i, b - 1))]],
     upper |-> [b \in 1..(k + 1) |-> [i \in 1..Len(DNames(d, b)) |-> Pick(DLinks(d, mults, b, i, b + 1))]],
     multi |-> \E b \in 1..(k + 1) : \E i \in 1..Len(DNames(d, b)) :
                  Cardinality(DLinks(d, mults, b, i, b - 1)) > 1 \/ Cardinality(DLinks(d, mults, b, i, b + 1)) > 1]
DesignOf(a) == [types |-> a.types, hs |-> a.hs, hd |-> a.hd, top |-> a.top, det |-> a.det, hot |-> a.hot, rule |-> a.rule]

K         == A.k
NBk       == K + 1
BTy(b)    == IF b <= A.k THEN BT[A.types[b]] ELSE BT[A.top]
HInit(b)  == IF b <= A.k THEN A.hs[b] ELSE A.hd
DummyTop  == A.top = ""
CNames(b) == A.names[b]
NC(b)     == Len(A.names[b])
CTy(b, i) == CT[CNames(b)[i]]
Solid(b, i) == A.solid[b][i]
SolidsOf(b) == {i \in 1..NC(b) : Solid(b, i)}
SolidIx   == UNION {{<<b, i>> : i \in SolidsOf(b)} : b \in 1..K}
H0        == A.H
MultiLinked == A.multi
Lower(b, i) == A.lower[b][i]
Upper(b, i) == A.upper[b][i]

\* expansionData.ExpansionData.determineTargetComponent / _setTargetComponents / _isFuelLocked
WithFlag(b, f) == {i \in 1..NC(b) : f \in CTy(b, i).flags}
Determine(b, foi) ==
    LET hits == {k \in 1..Len(PrefFlags) : WithFlag(b, PrefFlags[k]) # {}}
        c0   == IF foi # "" THEN WithFlag(b, foi)
                ELSE IF hits # {} THEN WithFlag(b, PrefFlags[Min(hits)])
                ELSE {i \in 1..NC(b) : CTy(b, i).flags \cap BTy(b).flags # {}}
        c1   == IF c0 = {} /\ Cardinality(SolidsOf(b)) = 1 THEN SolidsOf(b) ELSE c0
    IN IF Cardinality(c1) = 1 THEN [t |-> CHOOSE i \in c1 : TRUE, e |-> ""] ELSE [t |-> 0, e |-> "RuntimeError"]
TargetOfBlock(b, setFuel) ==
    IF tname[b] # 0 THEN [t |-> tname[b], e |-> ""]
    ELSE IF b = NBk /\ DummyTop THEN [t |-> 0, e |-> ""]         \* block flagged DUMMY: no target
    ELSE LET f == BTy(b).flags IN
         IF "plenum" \in f \/ "aclp" \in f THEN Determine(b, "clad")
         ELSE IF setFuel /\ "fuel" \in f
              THEN LET c == WithFlag(b, "fuel") IN
                   IF Cardinality(c) = 1 THEN [t |-> CHOOSE i \in c : TRUE, e |-> ""]
                   ELSE IF c = {} THEN [t |-> 0, e |-> "RuntimeError"]
                   ELSE [t |-> 0, e |-> "ValueError"]            \* Composite.getComponent: several matches
         ELSE Determine(b, "")
\* setAssembly: links first (nothing persisted when they fail), then targets block by block (names of the blocks
\* before the first failing one stay persisted)
Named(b) == tname[b] # 0 \/ (b = NBk /\ DummyTop)
Prep(setFuel) ==
    IF MultiLinked THEN [names |-> tname, e |-> "RuntimeError"]
    ELSE LET r   == [b \in 1..NBk |-> TargetOfBlock(b, setFuel)]
             bad == {b \in 1..NBk : r[b].e # ""}
             f   == IF bad = {} THEN 0 ELSE Min(bad)
         IN [names |-> [b \in 1..NBk |-> IF f # 0 /\ b >= f THEN tname[b] ELSE r[b].t],
             e |-> IF f # 0 THEN r[f].e
                   ELSE IF ~DummyTop /\ A.det THEN "RuntimeError"      \* _isTopDummyBlockPresent, after the names are persisted
                   ELSE ""]

(* ------------------------------------------- dynamics ---------------------------------------------------- *)
CanCall == ~broken /\ Len(path) + 1 < MaxLevel       \* MaxLevel bounds the exploration (level 1 = no call yet)
Snap == [zb |-> zb, zt |-> zt, h |-> h, mesh |-> mesh,
         lin |-> [b \in 1..NBk |-> [i \in 1..NC(b) |-> comp[b][i].lin]],
         T   |-> [b \in 1..NBk |-> [i \in 1..NC(b) |-> comp[b][i].T]]]

\* axiallyExpandAssembly on component records c0 (temperatures already updated by a thermal call), growth g, targets tn.
\* ExpandFrom(b, acc, ...) processes blocks b, b+1, ... bottom-up; acc = what the loop has written so far.
\* (TLCEval: evaluate once -- TLC keeps function constructors lazy)
RECURSIVE ExpandFrom(_, _, _, _, _)
ExpandFrom(b, acc, c0, g, tn) ==
    IF b > NBk \/ acc.fail # 0 THEN acc
    ELSE LET zbN == IF b = 1 THEN zb[1] ELSE acc.zt[b - 1]       \* "if ib == 0, leave block bottom"
             NewC(i) == IF ~Solid(b, i) THEN c0[b][i]
                        ELSE LET chh == RMul(g[b][i], h[b])        \* c.height = growFrac * blockHeight
                                 lo  == Lower(b, i)
                                 czb == IF b = 1 THEN RZero
                                        ELSE IF AlignTarget /\ i = tn[b] THEN acc.zt[b - 1]     \* (what-if variant only)
                                        ELSE IF lo # 0 THEN acc.comp[b - 1][lo].zt
                                        ELSE acc.zt[b - 1]
                             IN [c0[b][i] EXCEPT !.h = chh, !.zb = czb, !.zt = RAdd(czb, chh),
                                                 !.lin = RDiv(@, g[b][i])]
             cN    == IF b = NBk THEN c0[b] ELSE TLCEval([i \in 1..NC(b) |-> NewC(i)])      \* the last block is not expanded
             t     == tn[b]
             moved == b <= K /\ t # 0 /\ Solid(b, t)
             ztN   == IF moved THEN cN[t].zt ELSE zt[b]
             hN    == IF moved \/ b = NBk THEN RSub(ztN, zbN) ELSE h[b]
             nxt   == TLCEval([zb   |-> [acc.zb EXCEPT ![b] = zbN],
                               zt   |-> [acc.zt EXCEPT ![b] = ztN],
                               h    |-> [acc.h EXCEPT ![b] = hN],
                               comp |-> [acc.comp EXCEPT ![b] = cN],
                               fail |-> IF RLt(hN, RZero) \/ (ZeroHeightRefused /\ hN = RZero) THEN b ELSE 0])     \* _checkBlockHeight: `< 0.0`
         IN ExpandFrom(b + 1, nxt, c0, g, tn)
ExpandCore(c0, g, tn) == ExpandFrom(1, [zb |-> zb, zt |-> zt, h |-> h, comp |-> c0, fail |-> 0], c0, g, tn)

Hist(a, g) == /\ act' = a /\ path' = Append(path, a)
              /\ pre' = Snap /\ lg' = g /\ pre2' = pre /\ lg2' = lg

Commit(r, names, a, g) ==
    /\ zb' = r.zb /\ zt' = r.zt /\ h' = r.h /\ comp' = r.comp /\ tname' = names /\ placed' = TRUE /\ A' = A
    /\ IF r.fail = 0 THEN mesh' = <<RZero>> \o r.zt /\ broken' = FALSE /\ err' = ""
       ELSE mesh' = mesh /\ broken' = TRUE /\ err' = "ArithmeticError"
    /\ Hist(a, g)

\* a call refused before axiallyExpandAssembly; cN = component records (temperatures may have been touched)
Refuse(names, cN, e, a) ==
    /\ zb' = zb /\ zt' = zt /\ h' = h /\ comp' = cN /\ tname' = names /\ placed' = placed /\ A' = A
    /\ mesh' = mesh /\ broken' = FALSE /\ err' = e
    /\ Hist(a, <<>>)

GJson(g) == [b \in 1..K |-> g[b]]
\* (TLC re-evaluates LET definitions and operator arguments of an ACTION at every use; binding a value with
\*  \E x \in {e} evaluates e once)
Prescribed(g, setFuel, kind) ==
    /\ CanCall
    /\ \E p \in {Prep(setFuel)} :
       \E a \in {[n |-> "Prescribed", g |-> GJson(g), setFuel |-> setFuel, kind |-> kind]} :
          IF p.e # "" THEN Refuse(p.names, comp, p.e, a)
          ELSE \E r \in {ExpandCore(comp, g, p.names)} : Commit(r, p.names, a, g)

\* growth vectors with at most MaxNonUnit changed components
SparseVectors ==
    UNION {{[b \in 1..NBk |-> [i \in 1..NC(b) |-> IF <<b, i>> \in S THEN f[<<b, i>>] ELSE ROne]] :
                f \in [S -> Growths \ {ROne}]} : S \in {S \in SUBSET SolidIx : Cardinality(S) <= MaxNonUnit}}
\* every block's solids share one factor
UniformVectors == {[b \in 1..NBk |-> [i \in 1..NC(b) |-> IF b <= K /\ Solid(b, i) THEN u[b] ELSE ROne]] : u \in [1..K -> Growths]}

PrescribedBad(kind, setFuel) ==
    /\ CanCall /\ Refusals
    /\ \E p \in {Prep(setFuel)} :
          Refuse(p.names, comp, IF p.e # "" THEN p.e ELSE "RuntimeError",     \* from setAssembly, else from setExpansionFactors
                 [n |-> "PrescribedBad", kind |-> kind, setFuel |-> setFuel])

\* ---- thermal ----
NG    == A.ng
\* z_1 = 0 (exactly the bottom of the lowest block: the window is inclusive), z_j = 2(j-1) + 1/13 for j > 1 (never on a
\* moving block boundary: GridClear)
TPoint(j) == IF j = 1 THEN RZero ELSE <<26 * (j - 1) + 1, 13>>
TGrid == [j \in 1..NG |-> TPoint(j)]
Breaks == {p \in 0..NG : p % BreakStep = 0}
StepFields == UNION {{[j \in 1..NG |-> IF j <= p THEN tr[1] ELSE IF j <= q THEN tr[2] ELSE tr[3]] :
                          p \in Breaks, q \in Breaks} : tr \in LevelTriples}
InBlock(b, j) == RLeq(zb[b], TPoint(j)) /\ RLeq(TPoint(j), zt[b])         \* b.p.zbottom <= z <= b.p.ztop
Pts(b) == {j \in 1..NG : InBlock(b, j)}
\* statistics.mean of the field values at those points
RECURSIVE SumIn(_, _, _)
SumIn(field, pts, j) == IF j = 0 THEN 0 ELSE (IF j \in pts THEN field[j] ELSE 0) + SumIn(field, pts, j - 1)
Tavg(field, pts) == RFrac(SumIn(field, pts, NG), Cardinality(pts))
LF(mat, tau) == IF mat = "A" THEN RAdd(ROne, RDiv(tau, RInt(20)))
                ELSE IF mat = "B" THEN RAdd(ROne, RDiv(tau, RInt(40)))
                ELSE ROne
ThermalG(cT, fromInput) ==
    [b \in 1..NBk |-> [i \in 1..NC(b) |->
        IF Solid(b, i) THEN RDiv(LF(A.mat[b][i], cT[b][i].T), LF(A.mat[b][i], IF fromInput THEN RZero ELSE comp[b][i].T))
        ELSE ROne]]
Thermal(field, setFuel, fromInput) ==
    /\ CanCall
    /\ \E p \in {Prep(setFuel)} :
       \E a \in {[n |-> "Thermal", field |-> field, setFuel |-> setFuel, fromInput |-> fromInput]} :
       \E pts \in {[b \in 1..NBk |-> Pts(b)]} :
       \E f \in {LET none == {b \in 1..NBk : pts[b] = {}} IN IF none = {} THEN NBk + 1 ELSE Min(none)} :
       \E tav \in {[b \in 1..NBk |-> IF b < f THEN Tavg(field, pts[b]) ELSE RZero]} :
       \E cT \in {[b \in 1..NBk |-> [i \in 1..NC(b) |-> IF b < f THEN [comp[b][i] EXCEPT !.T = tav[b]] ELSE comp[b][i]]]} :
          IF p.e # "" THEN Refuse(p.names, comp, p.e, a)
          ELSE IF f <= NBk THEN Refuse(p.names, cT, "ValueError", a)
          ELSE \E g \in {ThermalG(cT, fromInput)} : \E r \in {ExpandCore(cT, g, p.names)} : Commit(r, p.names, a, g)
ThermalBadLen(setFuel) ==
    /\ CanCall /\ Refusals /\ LevelTriples # {}
    /\ \E p \in {Prep(setFuel)} :
          Refuse(p.names, comp, IF p.e # "" THEN p.e ELSE "RuntimeError", [n |-> "ThermalBadLen", setFuel |-> setFuel])

(* ------------------------------------------- behaviours -------------------------------------------------- *)
InitFor(d, ex) ==
    LET k == Len(d.types)
        hh == d.hs \o <<d.hd>>
    IN /\ A = StaticOf(d, [b \in 1..(k + 1) |-> IF ex[b] = 0 THEN "" ELSE DNames(d, b)[ex[b]]], d.types, NoMults(d))
       /\ zt = [b \in 1..(k + 1) |-> RInt(SumSeq(hh, b))]
       /\ zb = [b \in 1..(k + 1) |-> RInt(SumSeq(hh, b - 1))]
       /\ h  = [b \in 1..(k + 1) |-> RInt(hh[b])]
       /\ comp = [b \in 1..(k + 1) |-> [i \in 1..Len(DNames(d, b)) |->
                                          [h |-> RZero, zb |-> RZero, zt |-> RZero, lin |-> ROne, T |-> RInt(d.hot)]]]
       /\ tname = ex
       /\ mesh = <<>> /\ placed = FALSE /\ broken = FALSE /\ err = "" /\ act = [n |-> "Init"] /\ path = <<>>
       /\ pre = <<>> /\ lg = <<>> /\ pre2 = <<>> /\ lg2 = <<>>
\* ---- edits of the assembly between calls (not calls of the changer) ----
\* Block.replaceBlockWithBlock(replacement): block b keeps its identity, height and elevations (retainOnReplacement) and takes
\* every other parameter -- among them the designated target name -- and deep copies of the components of the replacement
ReplaceBlock(b, rp) ==
    LET d2   == [DesignOf(A) EXCEPT !.types[b] = rp.t]
        m2   == [A.mults EXCEPT ![b] = [i \in 1..Len(BT[rp.t].comps) |-> 0]]
    IN /\ CanCall /\ b \in 1..K
       /\ A' = StaticOf(d2, A.expl, A.types0, m2)
       /\ comp' = [comp EXCEPT ![b] = [i \in 1..Len(BT[rp.t].comps) |->
                                         [h |-> RZero, zb |-> RZero, zt |-> RZero, lin |-> ROne, T |-> RInt(A.hot)]]]
       /\ tname' = [tname EXCEPT ![b] = rp.e]
       /\ UNCHANGED <<zb, zt, h, mesh, placed>>
       /\ broken' = FALSE /\ err' = ""
       /\ Hist([n |-> "ReplaceBlock", b |-> b, t |-> rp.t, e |-> IF rp.e = 0 THEN "" ELSE BT[rp.t].comps[rp.e]], <<>>)
\* Component.setDimension("mult", m): the cold geometry of component i of block b is edited; its cross-section (and so its
\* linear density and mass) scales with the multiplicity, and what it is linked to may change
EditMult(b, i, m) ==
    LET old == ECT(DesignOf(A), A.mults, b, i).mult
        m2  == [A.mults EXCEPT ![b][i] = m]
    IN /\ CanCall /\ b \in 1..NBk /\ i \in 1..NC(b) /\ m # old
       /\ A' = StaticOf(DesignOf(A), A.expl, A.types0, m2)
       /\ comp' = [comp EXCEPT ![b][i].lin = RMul(@, RFrac(m, old))]
       /\ UNCHANGED <<zb, zt, h, mesh, placed, tname>>
       /\ broken' = FALSE /\ err' = ""
       /\ Hist([n |-> "EditMult", b |-> b, i |-> i, m |-> m], <<>>)

ExplChoices(d) ==
    LET k == Len(d.types) IN
    IF ExplicitTargets
    THEN {ex \in [1..(k + 1) -> 0..3] :
            /\ ex[k + 1] = 0
            /\ \A b \in 1..k : ex[b] <= Len(DNames(d, b)) /\ (ex[b] # 0 => CT[DNames(d, b)[ex[b]]].solid)}
    ELSE {[b \in 1..(k + 1) |-> 0]}
Init == \E d \in Designs : \E ex \in ExplChoices(d) : InitFor(d, ex)

\* setFuel only matters while some block still has no persisted target name
SetFuelChoices == IF \A b \in 1..NBk : Named(b) THEN {TRUE} ELSE BOOLEAN
Next == \/ \E g \in SparseVectors, sf \in SetFuelChoices : Prescribed(g, sf, "sparse")
        \/ \E g \in UniformVectors : Prescribed(g, TRUE, "uniform")
        \/ \E f \in StepFields, fi \in FromInput : Thermal(f, TRUE, fi)
        \/ \E kind \in {"zero", "negative", "length"} : PrescribedBad(kind, TRUE)
        \/ ThermalBadLen(TRUE)
        \/ \E b \in 1..K, rp \in Replacements : ReplaceBlock(b, rp)
        \/ \E e \in Edits : \E b \in 1..NBk : \E i \in 1..NC(b) : CNames(b)[i] = e.name /\ EditMult(b, i, e.m)
Spec == Init /\ [][Next]_vars

(* ------------------------------------------- properties -------------------------------------------------- *)
Expanded   == act.n \in {"Prescribed", "Thermal"} /\ err = ""       \* the last call went through
Refused    == act.n # "Init" /\ err \in {"RuntimeError", "ValueError"}
MassOf(b, i)    == RMul(comp[b][i].lin, h[b])
PreMassOf(b, i) == RMul(pre.lin[b][i], pre.h[b])
UniformBlock(g, b) == \A i, j \in SolidsOf(b) : g[b][i] = g[b][j]

TypeOK == /\ Len(zb) = NBk /\ Len(zt) = NBk /\ Len(h) = NBk /\ Len(comp) = NBk /\ Len(tname) = NBk
          /\ \A b \in 1..NBk : tname[b] \in 0..NC(b)
          /\ \A x \in SolidIx : RLt(RZero, comp[x[1]][x[2]].lin)

\* ---- clauses of the statement that hold ----
TotalHeightPreserved == zt[NBk] = RInt(H0) /\ (~broken => RSumSeq(h) = RInt(H0))
Contiguous == ~broken => /\ zb[1] = RZero
                         /\ \A b \in 2..NBk : zb[b] = zt[b - 1]
                         /\ \A b \in 1..NBk : h[b] = RSub(zt[b], zb[b])
NonNegativeHeights == ~broken => \A b \in 1..NBk : RLeq(RZero, h[b])
GridBoundsAreElevations == (~broken /\ mesh # <<>>) => mesh = <<RZero>> \o zt
BoundaryFollowsTarget == Expanded => \A b \in 1..K : tname[b] # 0 /\ zt[b] = comp[b][tname[b]].zt
LinkedStayStacked == Expanded =>      \* (after a completed call; a replaced block's new components are placed by the next call)
    \A x \in SolidIx : LET b == x[1]  i == x[2]  c == comp[b][i] IN
        /\ c.zt = RAdd(c.zb, c.h)
        /\ c.zb = IF b = 1 THEN RZero ELSE IF Lower(b, i) # 0 THEN comp[b - 1][Lower(b, i)].zt ELSE zt[b - 1]
DensityDividedByGrowth == Expanded =>
    \A b \in 1..NBk : \A i \in 1..NC(b) :
        comp[b][i].lin = IF Solid(b, i) /\ b <= K THEN RDiv(pre.lin[b][i], lg[b][i]) ELSE pre.lin[b][i]
ComponentHeightIsGrowthTimesBlock == Expanded => \A x \in SolidIx : comp[x[1]][x[2]].h = RMul(lg[x[1]][x[2]], pre.h[x[1]])
MassAccounting == Expanded =>
    \A x \in SolidIx : LET b == x[1]  i == x[2] IN
        \* written as mass'/h' = (mass/h)/g: the same law, but every intermediate stays small (32-bit integers)
        (h[b] # RZero /\ pre.h[b] # RZero) => RDiv(MassOf(b, i), h[b]) = RDiv(RDiv(PreMassOf(b, i), pre.h[b]), lg[b][i])
AlignedTargetMassConserved == Expanded =>
    \A b \in 1..K : LET t == tname[b] IN (comp[b][t].zb = zb[b]) <=> (MassOf(b, t) = PreMassOf(b, t))
UniformAssemblyMassConserved == (Expanded /\ \A b \in 1..K : UniformBlock(lg, b)) =>
    \A x \in SolidIx : MassOf(x[1], x[2]) = PreMassOf(x[1], x[2])
InverseGrowth(g1, g2) == \A x \in SolidIx : RMul(g1[x[1]][x[2]], g2[x[1]][x[2]]) = ROne
RoundTripRestores ==
    (Expanded /\ lg2 # <<>> /\ Len(path) >= 2 /\ InverseGrowth(lg, lg2) /\ \A b \in 1..K : UniformBlock(lg2, b)) =>
        /\ zb = pre2.zb /\ zt = pre2.zt /\ h = pre2.h
        /\ \A x \in SolidIx : comp[x[1]][x[2]].lin = pre2.lin[x[1]][x[2]]
        /\ \A x \in SolidIx : MassOf(x[1], x[2]) = RMul(pre2.lin[x[1]][x[2]], pre2.h[x[1]])
        \* two thermal calls relative to the current temperatures that undo each other end at the starting temperatures
        /\ (LET p == path[Len(path) - 1] IN
              act.n = "Thermal" /\ ~act.fromInput /\ p.n = "Thermal" /\ ~p.fromInput)
              => \A x \in SolidIx : comp[x[1]][x[2]].T = pre2.T[x[1]][x[2]]
RefusalsChangeNothing == Refused =>
    /\ zb = pre.zb /\ zt = pre.zt /\ h = pre.h /\ mesh = pre.mesh
    /\ \A b \in 1..NBk : \A i \in 1..NC(b) : comp[b][i].lin = pre.lin[b][i]
    /\ (err = "RuntimeError" => \A b \in 1..NBk : \A i \in 1..NC(b) : comp[b][i].T = pre.T[b][i])
\* modelling guard, not a property of armi: a temperature point never coincides with a moving block boundary (a float
\* comparison zbottom <= z could otherwise differ from the exact one; distinct rationals of this size differ by > 1e-9,
\* the float error of an elevation is ~1e-15)
GridClear == LevelTriples # {} => \A j \in 1..NG : \A b \in 1..K : TPoint(j) # zt[b]

\* ---- the literal clauses TLC refutes (see header) ----
TargetMassConserved == Expanded => \A b \in 1..K : MassOf(b, tname[b]) = PreMassOf(b, tname[b])
UniformBlockMassConserved == Expanded =>
    \A b \in 1..K : UniformBlock(lg, b) => \A i \in SolidsOf(b) : MassOf(b, i) = PreMassOf(b, i)
PositiveHeights == ~broken => \A b \in 1..NBk : RLt(RZero, h[b])
\* unscoped reading of "expand ; inverse restores" (any growth vector) -- not claimed, kept for the record
RoundTripAny == (Expanded /\ lg2 # <<>> /\ Len(path) >= 2 /\ InverseGrowth(lg, lg2)) => (zb = pre2.zb /\ zt = pre2.zt /\ h = pre2.h)

(* ------------------------------------------- observation ------------------------------------------------- *)
NameOf(b, i) == IF i = 0 THEN "" ELSE CNames(b)[i]
\* mass relative to the initial mass; not observed in a half-updated (broken) assembly: the ArithmeticError leaves before
\* Component.clearCache, so getMass() there mixes the old volume with the new densities
ObsMass(b, i) == IF broken THEN RZero ELSE RDiv(MassOf(b, i), RInt(HInit(b)))
Sq(x) == RMul(x, x)
LocZ == IF mesh = <<>> THEN <<>> ELSE [b \in 1..NBk |-> RDiv(RAdd(mesh[b], mesh[b + 1]), RInt(2))]
Obs == [zb |-> zb, zt |-> zt, h |-> h, mesh |-> mesh,
        placed |-> \E b \in 1..NBk : \E i \in 1..NC(b) : comp[b][i].zt # RZero,       \* some component carries zbottom/ztop/height
        broken |-> broken, err |-> err,
        loc |-> [b \in 1..NBk |-> b - 1],                      \* b.spatialLocator = a.spatialGrid[0, 0, ib]
        \* axial coordinate of each block's locator in the assembly grid (cell centre of the bounds; unobserved until set)
        locz |-> LocZ,
        total |-> zt[NBk], hsum |-> RSumSeq(h), fluid |-> ROne,
        zmid |-> [b \in 1..NBk |-> RAdd(zb[b], RDiv(h[b], RInt(2)))],
        tname |-> [b \in 1..NBk |-> NameOf(b, tname[b])],
        comp |-> [b \in 1..NBk |-> [i \in 1..NC(b) |->
                    [name |-> CNames(b)[i], solid |-> Solid(b, i),
                     h |-> comp[b][i].h, zb |-> comp[b][i].zb, zt |-> comp[b][i].zt,
                     lin |-> comp[b][i].lin, T |-> comp[b][i].T,
                     \* number density relative to as built = lin / (area relative to as built: radial expansion, edited multiplicity)
                     ndr |-> RDiv(RDiv(comp[b][i].lin, Sq(RDiv(LF(A.mat[b][i], comp[b][i].T), LF(A.mat[b][i], RInt(A.hot))))),
                              RFrac(ECT(DesignOf(A), A.mults, b, i).mult, CTy(b, i).mult)),
                     mass |-> ObsMass(b, i),
                     lower |-> IF MultiLinked THEN "" ELSE NameOf(b - 1, Lower(b, i)),
                     upper |-> IF MultiLinked THEN "" ELSE NameOf(b + 1, Upper(b, i))]]]]
\* which literal clauses fail on this state (so that the harness can pick the shortest refutation and run it on armi)
Lit == [TargetMassConserved |-> TargetMassConserved, UniformBlockMassConserved |-> UniformBlockMassConserved,
        PositiveHeights |-> PositiveHeights]
=====================================================================================================
