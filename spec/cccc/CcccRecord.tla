----------------------------------------- MODULE CcccRecord -----------------------------------------
(* C09, layer 1 -- one CCCC record on a stream (armi/nuclearDataIO/cccc/cccc.py).

   Clause of the statement modelled here:
     "Every binary record is framed by identical leading and trailing byte counts equal to its payload length,
      whatever mix of integer, long, real, double, string, list and matrix fields it holds."
   plus what the round-trip clauses need from a single record: what was written is read back by the same
   sequence of rw* calls (reals to the precision of the encoding), in the binary and in the ASCII encoding.

   Actions  (code transcribed)
     Open          BinaryRecordWriter.open / AsciiRecordWriter.open   (IORecord.__enter__): fresh counters
     RwInt RwBool RwLong RwFloat RwDouble RwString
                   BinaryRecordWriter.rwInt/rwBool/rwLong/rwFloat/rwDouble/rwString and the Ascii* versions
     RwList        IORecord.rwList(contents, kind, n, strLength)  = n scalar calls
     RwMatrix      IORecord.rwMatrix / rwDoubleMatrix / rwIntMatrix(contents, *shape) = prod(shape) scalar calls
     RwLongAscii   refusal: AsciiRecordWriter has no rwLong (AttributeError), state unchanged
     Close         *.close (IORecord.__exit__): head, payload, tail (+ "\n" in ASCII) appended to the stream
     ReadBack(v)   Binary/AsciiRecordReader over the record just framed: open reads head, the rw* calls consume
                   the payload, close reads the tail and raises BufferError unless it equals head.
                   v = "same": the writer's call sequence; "short": one scalar fewer; "long": one int more.

   Interpretation choices
     * The specification is the *intended* record: every scalar advances the frame counter by its payload size
       (long = 8).  cccc.py BinaryRecordWriter.rwLong advances `byteCount` instead of `numBytes`; the replay
       shows that as a divergence, the specification is not bent to it.
     * The reader accepts iff the calls consume exactly the framed payload: with fewer (more) the word compared
       with head is payload (beyond the tail).  The harness picks payload words different from the count.
     * Well-formed values: integers in the 32-bit range, strings of printable ASCII without trailing blanks and
       no longer than the field (Hollerith fields are blank padded; rwString strips trailing blanks on read).
       Value classes (Values below) name the numeric extremes and string lengths the quantifier asks for; the
       ASCII encoding must give every one of them its fixed field width, otherwise the fixed-width reader
       cannot find the next field.                                                                       *)
EXTENDS CcccFields

CONSTANTS MaxFields,      \* fields per record
          MaxRecords,     \* records per stream
          Alpha           \* "basic" | "mid" | "wide" | "values": which alphabet of fields Next draws from

VARIABLES enc,      \* "bin" | "asc"
          phase,    \* "closed" | "open" | "framed"
          fields,   \* fields of the record being written (with value class)
          w,        \* writer state of the open record (CcccFields!W0 ...)
          done,     \* closed records on the stream: <<[fields, head, len, tail]>>
          rd,       \* outcome of the last ReadBack: "none" | "ok" | "error"
          act, err
vars == <<enc, phase, fields, w, done, rd>>

(* ---------- value classes: the domain "numeric extremes, string lengths" ----------
   val is the literal the harness converts with int()/float()/str; exact = the value read back must be identical
   (for "float" the classes marked inexact come back rounded to IEEE single, relative error <= 2^-24).     *)
IntValues    == {[vc |-> "zero", val |-> "0", exact |-> TRUE], [vc |-> "one", val |-> "1", exact |-> TRUE],
                 [vc |-> "neg", val |-> "-1", exact |-> TRUE], [vc |-> "d9", val |-> "999999999", exact |-> TRUE],
                 [vc |-> "d9neg", val |-> "-999999999", exact |-> TRUE],
                 [vc |-> "d10", val |-> "1000000000", exact |-> TRUE],
                 [vc |-> "max", val |-> "2147483647", exact |-> TRUE],
                 [vc |-> "min", val |-> "-2147483648", exact |-> TRUE]}
LongValues   == {[vc |-> "one", val |-> "1", exact |-> TRUE], [vc |-> "big", val |-> "1099511627776", exact |-> TRUE]}
BoolValues   == {[vc |-> "true", val |-> "True", exact |-> TRUE], [vc |-> "false", val |-> "False", exact |-> TRUE]}
FloatValues  == {[vc |-> "zero", val |-> "0.0", exact |-> TRUE], [vc |-> "one", val |-> "1.0", exact |-> TRUE],
                 [vc |-> "frac", val |-> "0.375", exact |-> TRUE], [vc |-> "neg", val |-> "-2.5", exact |-> TRUE],
                 [vc |-> "f32max", val |-> "3.4028234663852886e+38", exact |-> TRUE],
                 [vc |-> "f32min", val |-> "1.1754943508222875e-38", exact |-> TRUE],
                 [vc |-> "inexact", val |-> "0.1", exact |-> FALSE]}
DoubleValues == {[vc |-> "zero", val |-> "0.0", exact |-> TRUE], [vc |-> "third", val |-> "0.3333333333333333", exact |-> TRUE],
                 [vc |-> "neg", val |-> "-2.5e-07", exact |-> TRUE],
                 [vc |-> "e99", val |-> "9.999999999999999e+99", exact |-> TRUE], [vc |-> "em99", val |-> "1e-99", exact |-> TRUE],
                 [vc |-> "e100", val |-> "1e+100", exact |-> TRUE], [vc |-> "em100", val |-> "1e-100", exact |-> TRUE],
                 [vc |-> "dmax", val |-> "1.7976931348623157e+308", exact |-> TRUE]}
StringValues == {[vc |-> "empty", val |-> "", exact |-> TRUE], [vc |-> "one", val |-> "A", exact |-> TRUE],
                 [vc |-> "inner", val |-> "A B", exact |-> TRUE], [vc |-> "lead", val |-> " AB", exact |-> TRUE],
                 [vc |-> "full", val |-> "FULL", exact |-> TRUE]}   \* "full": the harness repeats to the field width
Values(k) == CASE k = "int" -> IntValues [] k = "long" -> LongValues [] k = "bool" -> BoolValues
               [] k = "float" -> FloatValues [] k = "double" -> DoubleValues [] k = "string" -> StringValues
Typ == [vc |-> "typ", val |-> "", exact |-> FALSE]      \* harness-chosen ordinary values (float32-exact pool)

WithV(f, v) == [p |-> f.p, k |-> f.k, c |-> f.c, n |-> f.n, w |-> f.w, sh |-> f.sh, vc |-> v.vc, val |-> v.val, exact |-> v.exact]

(* ---------- alphabets ---------- *)
Scalars(ws) == {FI("i"), FB("b"), FL("q"), FF("f"), FD("d")} \cup {FS("s", x) : x \in ws}
AlphaBasic  == {WithV(f, Typ) : f \in Scalars({8}) \cup {LI("li", 2), MF("mf", <<2, 3>>)}}
AlphaWide   == {WithV(f, Typ) : f \in
                   Scalars({0, 1, 6, 8, 28})
                   \cup {Ls("l", k, n, 0) : k \in {"int", "float", "double"}, n \in {0, 1, 3}}
                   \cup {LS("ls", n, 8) : n \in {0, 1, 3}}
                   \cup {Mx("m", k, sh) : k \in {"int", "float", "double"}, sh \in {<<2>>, <<2, 3>>, <<0, 2>>, <<2, 1, 2>>}}}
AlphaMid    == {WithV(f, Typ) : f \in
                   Scalars({0, 8, 28})
                   \cup {Ls("l", k, n, 0) : k \in {"int", "float", "double"}, n \in {0, 3}}
                   \cup {LS("ls", n, 8) : n \in {0, 3}}
                   \cup {Mx("m", k, sh) : k \in {"int", "float", "double"}, sh \in {<<2, 3>>, <<0, 2>>, <<2, 1, 2>>}}}
AlphaValues == UNION {{WithV(f, v) : v \in Values(f.k)} : f \in Scalars({4})}
Alphabet == CASE Alpha = "basic" -> AlphaBasic [] Alpha = "mid" -> AlphaMid [] Alpha = "wide" -> AlphaWide
              [] Alpha = "values" -> AlphaValues

(* ---------- reader ---------- *)
Consumed(e, fs) == IF e = "bin" THEN RecBytes(fs) ELSE RecChars(fs)
ReadOutcome(e, fr, consumed) == IF consumed = fr.len /\ fr.head = fr.tail THEN "ok" ELSE "error"
DropLast(fs) == \* one scalar fewer than the writer wrote
    LET Sized(j) == fs[j].n > 0 /\ BinSize(fs[j].k, fs[j].w) > 0
        i == CHOOSE j \in 1..Len(fs) : Sized(j) /\ \A m \in (j + 1)..Len(fs) : ~Sized(m)
    IN  [fs EXCEPT ![i].n = @ - 1]
NonEmpty(fs) == \E j \in 1..Len(fs) : fs[j].n > 0 /\ BinSize(fs[j].k, fs[j].w) > 0

(* ---------- actions ---------- *)
Ok(a)     == err' = "" /\ act' = a
Refuse(e, a) == UNCHANGED vars /\ err' = e /\ act' = a

Open == /\ phase \in {"closed", "framed"} /\ Len(done) < MaxRecords
        /\ phase' = "open" /\ fields' = <<>> /\ w' = W0 /\ rd' = "none"
        /\ UNCHANGED <<enc, done>> /\ Ok([n |-> "Open"])

Rw(f, name) == /\ phase = "open" /\ Len(fields) < MaxFields /\ f \in Alphabet
               /\ ~(enc = "asc" /\ f.k = "long")
               /\ fields' = Append(fields, f) /\ w' = WField(w, f)
               /\ UNCHANGED <<enc, phase, done, rd>> /\ Ok([n |-> name, f |-> f])
RwInt    == \E f \in Alphabet : f.c = "s" /\ f.k = "int" /\ Rw(f, "RwInt")
RwBool   == \E f \in Alphabet : f.c = "s" /\ f.k = "bool" /\ Rw(f, "RwBool")
RwLong   == \E f \in Alphabet : f.c = "s" /\ f.k = "long" /\ Rw(f, "RwLong")
RwFloat  == \E f \in Alphabet : f.c = "s" /\ f.k = "float" /\ Rw(f, "RwFloat")
RwDouble == \E f \in Alphabet : f.c = "s" /\ f.k = "double" /\ Rw(f, "RwDouble")
RwString == \E f \in Alphabet : f.c = "s" /\ f.k = "string" /\ Rw(f, "RwString")
RwList   == \E f \in Alphabet : f.c = "l" /\ Rw(f, "RwList")
RwMatrix == \E f \in Alphabet : f.c = "m" /\ Rw(f, "RwMatrix")
RwLongAscii == /\ phase = "open" /\ enc = "asc" /\ \E f \in Alphabet : f.k = "long"
               /\ Refuse("AttributeError", [n |-> "RwLongAscii"])

Frame == [fields |-> fields, head |-> w.numBytes, len |-> IF enc = "bin" THEN w.data ELSE w.asc, tail |-> w.numBytes]
Close == /\ phase = "open"
         /\ phase' = "framed" /\ done' = Append(done, Frame)
         /\ UNCHANGED <<enc, fields, w, rd>> /\ Ok([n |-> "Close"])

LastRec == done[Len(done)]
ReadBack(v) ==
    /\ phase = "framed" /\ rd = "none"
    /\ \/ v = "same"  /\ rd' = ReadOutcome(enc, LastRec, Consumed(enc, LastRec.fields))
       \/ v = "short" /\ NonEmpty(LastRec.fields) /\ rd' = ReadOutcome(enc, LastRec, Consumed(enc, DropLast(LastRec.fields)))
       \/ v = "long"  /\ rd' = ReadOutcome(enc, LastRec, Consumed(enc, LastRec.fields) + (IF enc = "bin" THEN 4 ELSE AscIntLen))
    /\ UNCHANGED <<enc, phase, fields, w, done>> /\ Ok([n |-> "ReadBack", v |-> v])

Init == /\ enc \in {"bin", "asc"} /\ phase = "closed" /\ fields = <<>> /\ w = W0 /\ done = <<>> /\ rd = "none"
        /\ act = [n |-> "Init"] /\ err = ""
Next == \/ Open \/ Close \/ RwInt \/ RwBool \/ RwLong \/ RwFloat \/ RwDouble \/ RwString \/ RwList \/ RwMatrix
        \/ RwLongAscii \/ \E v \in {"same", "short", "long"} : ReadBack(v)
Spec == Init /\ [][Next]_<<vars, act, err>>

(* ---------- properties ---------- *)
TypeOK == /\ enc \in {"bin", "asc"} /\ phase \in {"closed", "open", "framed"} /\ rd \in {"none", "ok", "error"}
          /\ Len(fields) <= MaxFields /\ Len(done) <= MaxRecords
\* the clause: identical leading and trailing counts ...
HeadEqualsTail   == \A i \in 1..Len(done) : done[i].head = done[i].tail
\* ... equal to the payload length (binary: bytes)
HeadEqualsPayload == enc = "bin" => \A i \in 1..Len(done) : done[i].head = done[i].len
\* ... whatever mix of fields: payload and counter are the sum of the field sizes (closed form vs. fold of steps)
PayloadIsSum == /\ phase = "open" => w.data = RecBytes(fields) /\ w.numBytes = RecBytes(fields) /\ w.asc = RecChars(fields)
                /\ \A i \in 1..Len(done) : done[i].head = RecBytes(done[i].fields)
                                        /\ done[i].len = IF enc = "bin" THEN RecBytes(done[i].fields) ELSE RecChars(done[i].fields)
\* the counters of one record never leak into the next
CountersRestart == phase = "open" /\ fields = <<>> => w = W0
CallsAreFields == phase = "open" => w.calls = RecCalls(fields)
\* the reader accepts the writer's own call sequence and refuses a shorter / longer one
ReaderAcceptsOwn == act.n = "ReadBack" => (rd = "ok" <=> act.v = "same")
RefusalsChangeNothing == [][err' # "" => UNCHANGED vars]_<<vars, act, err>>

(* ---------- observation (what the harness compares) ---------- *)
FieldObs(f) == [k |-> f.k, c |-> f.c, n |-> f.n, w |-> f.w, sh |-> f.sh, vc |-> f.vc, val |-> f.val, exact |-> f.exact,
                bytes |-> FieldBytes(f), chars |-> FieldChars(f)]
RecObs(r) == [fields |-> [i \in 1..Len(r.fields) |-> FieldObs(r.fields[i])],
              head |-> r.head, tail |-> r.tail, len |-> r.len,
              framelen |-> IF enc = "bin" THEN BinFrameLen(r.fields) ELSE AscFrameLen(r.fields),
              calls |-> RecCalls(r.fields)]
Obs == [enc |-> enc, recs |-> [i \in 1..Len(done) |-> RecObs(done[i])],
        short |-> IF NonEmpty(LastRec.fields) THEN ReadOutcome(enc, LastRec, Consumed(enc, DropLast(LastRec.fields))) ELSE "skip",
        long  |-> ReadOutcome(enc, LastRec, Consumed(enc, LastRec.fields) + (IF enc = "bin" THEN 4 ELSE AscIntLen)),
        same  |-> ReadOutcome(enc, LastRec, Consumed(enc, LastRec.fields))]
=====================================================================================================
