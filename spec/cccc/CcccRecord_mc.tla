--------------------------------------- MODULE CcccRecord_mc ---------------------------------------
EXTENDS CcccRecord
CONSTANT MaxLevel
Bound == TLCGet("level") <= MaxLevel
\* one line per framed record stream (before any ReadBack): the case the harness executes on the real writers/readers
EmitState == phase = "framed" /\ rd = "none" => PrintT(ToJson([case |-> Obs]))
=====================================================================================================
