\* exhaustive: every sequence of <= 3 fields over the wide alphabet (34 field shapes), both encodings
CONSTANTS MaxFields = 3  MaxRecords = 1  Alpha = "wide"  MaxLevel = 99
INIT Init
NEXT Next
CONSTRAINT Bound
INVARIANT TypeOK
INVARIANT HeadEqualsTail
INVARIANT HeadEqualsPayload
INVARIANT PayloadIsSum
INVARIANT CountersRestart
INVARIANT CallsAreFields
INVARIANT ReaderAcceptsOwn
PROPERTY RefusalsChangeNothing
CHECK_DEADLOCK FALSE
