-------------------------------------- MODULE CcccRecord_trace --------------------------------------
(* code -> spec: histories of rw* calls recorded from the real Binary/AsciiRecordWriter (random field mixes, several
   records per stream, far longer than the exhaustive bound) must be behaviours of CcccRecord: after every call the
   writer's frame counter and the payload actually buffered equal the specification's, and every closed record's
   head / payload length / tail, measured on the stream by an independent parser, equal the specification's frame. *)
EXTENDS CcccRecord, IOUtils, TLCExt
Traces == ndJsonDeserialize(IOEnv.TRACE_FILE)
NT     == Len(Traces)
VARIABLES tid, l
ASSUME \A t \in 1..NT : TLCSet(t, 0)
TInit == /\ tid \in 1..NT /\ l = 1
         /\ enc = Traces[tid].enc /\ phase = "closed" /\ fields = <<>> /\ w = W0 /\ done = <<>> /\ rd = "none"
         /\ act = [n |-> "Init"] /\ err = ""
Ev == Traces[tid].ev[l]
A  == Ev.a
\* the recorded field, with the bookkeeping keys the specification's descriptors carry
Fld == [p |-> "t", k |-> A.k, c |-> A.c, n |-> A.n, w |-> A.w, sh |-> A.sh, vc |-> "typ", val |-> "", exact |-> FALSE]
TRw == /\ phase = "open" /\ ~(enc = "asc" /\ A.k = "long")
       /\ fields' = Append(fields, Fld) /\ w' = WField(w, Fld)
       /\ UNCHANGED <<enc, phase, done, rd>> /\ Ok([n |-> A.n0])
Step == \/ A.n0 = "Open" /\ Open
        \/ A.n0 = "Close" /\ Close
        \/ A.n0 \in {"RwInt", "RwBool", "RwLong", "RwFloat", "RwDouble", "RwString", "RwList", "RwMatrix"} /\ TRw
Post == IF A.n0 = "Close"
        THEN LET r == done'[Len(done')] IN [head |-> r.head, len |-> r.len, tail |-> r.tail]
        ELSE [numBytes |-> w'.numBytes, payload |-> IF enc = "bin" THEN w'.data ELSE w'.asc]
ObsMatch == \/ Post = Ev.post
            \/ /\ Post # Ev.post
               /\ PrintT(ToJson([mismatch |-> Traces[tid].id, at |-> l, expected |-> Post]))
               /\ FALSE
TNext == /\ l <= Len(Traces[tid].ev) /\ l' = l + 1 /\ tid' = tid
         /\ Step
         /\ ObsMatch
TSpec == TInit /\ [][TNext]_<<vars, act, err, tid, l>>
Progress == IF TLCGet(tid) < l THEN TLCSet(tid, l) ELSE TRUE
Report == LET bad == {t \in 1..NT : TLCGet(t) # Len(Traces[t].ev) + 1} IN
          /\ \A t \in bad : PrintT(ToJson([rejected |-> Traces[t].id, matched |-> TLCGet(t) - 1]))
          /\ PrintT(ToJson([accepted |-> NT - Cardinality(bad), of |-> NT]))
=====================================================================================================
