\* exhaustive: streams of two records of <= 2 fields (counters restart), basic alphabet, both encodings
CONSTANTS MaxFields = 2  MaxRecords = 2  Alpha = "basic"  MaxLevel = 99
INIT Init
NEXT Next
CONSTRAINT Bound
INVARIANT TypeOK
INVARIANT HeadEqualsTail
INVARIANT HeadEqualsPayload
INVARIANT PayloadIsSum
INVARIANT CountersRestart
INVARIANT CallsAreFields
INVARIANT ReaderAcceptsOwn
PROPERTY RefusalsChangeNothing
CHECK_DEADLOCK FALSE
