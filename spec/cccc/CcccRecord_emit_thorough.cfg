\* emission: all sequences of <= 5 fields over the 7 field kinds
CONSTANTS MaxFields = 5  MaxRecords = 1  Alpha = "basic"  MaxLevel = 99
INIT Init
NEXT Next
CONSTRAINT Bound
INVARIANT EmitState
INVARIANT HeadEqualsTail
INVARIANT HeadEqualsPayload
INVARIANT PayloadIsSum
CHECK_DEADLOCK FALSE
