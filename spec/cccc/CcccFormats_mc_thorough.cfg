\* exhaustive, thorough header ranges
CONSTANTS Fmts = {"GEODST", "DIF3D", "NHFLUX", "LABELS", "PWDINT", "RTFLUX", "RZFLUX", "FIXSRC", "ISOTXS", "GAMISO", "PMATRX", "DLAYXS", "COMPXS"}  Wide = TRUE
INIT Init
NEXT Next

INVARIANT FrameLaw
INVARIANT OffsetLaw
INVARIANT PresenceLaw
INVARIANT ConservationLaw
INVARIANT ReaderWriterCoincide
INVARIANT NoDuplicatePaths
INVARIANT EntryLaw
CHECK_DEADLOCK FALSE
