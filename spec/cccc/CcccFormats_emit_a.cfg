\* emission (one case per header), quick ranges
CONSTANTS Fmts = {"GEODST", "DIF3D", "LABELS", "PWDINT", "RTFLUX", "RZFLUX", "FIXSRC", "DLAYXS"}  Wide = FALSE
INIT Init
NEXT Next
INVARIANT EmitState
INVARIANT FrameLaw
INVARIANT OffsetLaw
INVARIANT PresenceLaw
INVARIANT ConservationLaw
INVARIANT ReaderWriterCoincide
INVARIANT NoDuplicatePaths
INVARIANT EntryLaw
CHECK_DEADLOCK FALSE
