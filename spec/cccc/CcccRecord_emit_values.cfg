\* emission: all sequences of <= 2 scalar fields x value class (numeric extremes, string lengths), both encodings
CONSTANTS MaxFields = 2  MaxRecords = 1  Alpha = "values"  MaxLevel = 99
INIT Init
NEXT Next
CONSTRAINT Bound
INVARIANT EmitState
INVARIANT HeadEqualsTail
INVARIANT HeadEqualsPayload
INVARIANT PayloadIsSum
CHECK_DEADLOCK FALSE
