\* emission: streams of two records of one field
CONSTANTS MaxFields = 1  MaxRecords = 2  Alpha = "basic"  MaxLevel = 99
INIT Init
NEXT Next
CONSTRAINT Bound
INVARIANT EmitState
INVARIANT HeadEqualsTail
INVARIANT HeadEqualsPayload
INVARIANT PayloadIsSum
CHECK_DEADLOCK FALSE
