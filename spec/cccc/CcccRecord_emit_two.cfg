\* emission: streams of two records of <= 2 fields
CONSTANTS MaxFields = 2  MaxRecords = 2  Alpha = "basic"  MaxLevel = 99
INIT Init
NEXT Next
CONSTRAINT Bound
INVARIANT EmitState
INVARIANT HeadEqualsTail
INVARIANT HeadEqualsPayload
INVARIANT PayloadIsSum
CHECK_DEADLOCK FALSE
