\* emission (one case per header), quick ranges
CONSTANTS Fmts = {"NHFLUX", "PMATRX", "COMPXS"}  Wide = TRUE
INIT Init
NEXT Next
INVARIANT EmitState
INVARIANT FrameLaw
INVARIANT OffsetLaw
INVARIANT PresenceLaw
INVARIANT ConservationLaw
INVARIANT ReaderWriterCoincide
INVARIANT NoDuplicatePaths
INVARIANT EntryLaw
CHECK_DEADLOCK FALSE
