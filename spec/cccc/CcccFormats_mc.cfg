\* exhaustive, quick header ranges: every header of every format, file walked record by record
CONSTANTS Fmts = {"GEODST", "DIF3D", "NHFLUX", "LABELS", "PWDINT", "RTFLUX", "RZFLUX", "FIXSRC", "ISOTXS", "GAMISO", "PMATRX", "DLAYXS", "COMPXS"}  Wide = FALSE
INIT Init
NEXT Next

INVARIANT FrameLaw
INVARIANT OffsetLaw
INVARIANT PresenceLaw
INVARIANT ConservationLaw
INVARIANT ReaderWriterCoincide
INVARIANT NoDuplicatePaths
INVARIANT EntryLaw
CHECK_DEADLOCK FALSE
