CONSTANTS MaxFields = 9999  MaxRecords = 9999  Alpha = "basic"
SPECIFICATION TSpec
CONSTRAINT Progress
POSTCONDITION Report
INVARIANT HeadEqualsTail
INVARIANT HeadEqualsPayload
INVARIANT PayloadIsSum
INVARIANT CountersRestart
CHECK_DEADLOCK FALSE
