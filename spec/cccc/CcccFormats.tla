----------------------------------------- MODULE CcccFormats -----------------------------------------
(* C09, layer 2 -- the record grammar of every CCCC file type armi reads and writes, as a function of the header.

   Clauses of the statement modelled here:
     "for every CCCC file type ... reading a file produced by the writer returns data equal to what was written ...
      including every optional record the header flags announce, and writing what was read reproduces the file
      byte for byte"
   The grammar is what both directions must agree with: for a header hh of format f
     Records(f, hh)   the sequence of records  [tag, fs]  (fs = fields of CcccFields) the file consists of,
     Manifest(f, hh)  the data the container carries into the file: path, kind, shape, value domain
                      (dom = "fix": header value v that drives the grammar; otherwise a value pool name),
     Count(f, hh)     for every record tag the number of times it must occur ("PRESENT IF" table), stated
                      separately from Records and checked against it (PresenceLaw).
   One readWrite() per format is transcribed (file : operator):
     geodst.py  GeodstStream.readWrite / _rw*Record        : Geo*
     dif3d.py   Dif3dStream.readWrite                      : Dif*
     nhflux.py  NhfluxStream(.Variant)/NafluxStream        : Nhf*
     labels.py  LabelsStream.readWrite                     : Lab*
     pwdint.py  PwdintStream, rtflux.py Rtflux/AtfluxStream, rzflux.py RzfluxStream, fixsrc.py FIXSRC : Pwd* Rtf* Rzf* Fix*
     isotxs.py  IsotxsIO / _IsotxsNuclideIO, gamiso.py     : Iso*  (GAMISO = same grammar, other container paths)
     pmatrx.py  PmatrxIO / _PmatrxNuclideIO                : Pmx*
     dlayxs.py  DlayxsIO                                   : Dly*
     compxs.py  _CompxsIO / _CompxsRegionIO                : Cpx*

   Interpretation choices (each is also an evidence assumption)
     * The grammar is the format the module documents (CCCC-IV "PRESENT IF" conditions quoted in the armi
       docstrings), not a copy of defects: GEODST's 1-D mesh record exists for IGOM 1..3, ISOTXS sub-blocks are
       re-assembled by a reader, PMATRX activation records and COMPXS file-wide chi / delayed-family data are
       ordinary optional data, COMPXS carries a d2Multiplier, FIXSRC can be read.
     * Outside the domain because armi refuses them explicitly (NotImplementedError / ValueError) and so they
       are not "file types armi can both read and write": ISOTXS/GAMISO chi matrices (ICHIST/ICHI > 1), LABELS
       control-rod and burnup records, 1-D RTFLUX, VARIANT NHFLUX with iwnhfl = 2.  ISOTXS blocks holding more
       than one Legendre order (LORD > 1) are outside armi's container (one matrix per block).
     * File labels of ISOTXS/GAMISO are normalised to "ISOTXS" by the reader on purpose (_updateFileLabel);
       well-formed containers carry that label.
     * Walking machine: Init chooses (format, header); EmitRecord appends the next record of the grammar and
       advances the byte offset by 8 + payload; the record's frame is computed by *running* the record
       writer of CcccFields (WRecord) on its fields, and must agree with the closed form.                *)
EXTENDS CcccFields

CONSTANTS Fmts,    \* formats to enumerate
          Wide     \* FALSE: quick header ranges, TRUE: thorough

VARIABLES fmt, h, pos, off, act
vars == <<fmt, h, pos, off>>

Rec(tag, fs) == [tag |-> tag, fs |-> fs]
Hd(p, v) == [p |-> p, k |-> "int", sh |-> <<>>, w |-> 0, dom |-> "fix", v |-> v]
Hb(p, v) == [p |-> p, k |-> "bool", sh |-> <<>>, w |-> 0, dom |-> "fix", v |-> v]
Dt(p, k, sh, w, dom) == [p |-> p, k |-> k, sh |-> sh, w |-> w, dom |-> dom, v |-> 0]
Max2(a, b) == IF a > b THEN a ELSE b
Min2(a, b) == IF a < b THEN a ELSE b
Pad2(i) == IF i < 10 THEN "0" \o ToString(i) ELSE ToString(i)
Rep(n, x) == [i \in 1..n |-> x]
\* fields / manifest entries for a list of <<name, kind>> pairs under a path prefix (implicitly typed maps, key lists)
KeyFields(pre, ks) == [i \in 1..Len(ks) |-> Sc(pre \o ks[i][1], ks[i][2], 0)]
Ints(names) == [i \in 1..Len(names) |-> <<names[i], "int">>]

(* CCCC blocking of a J-range into NBLOK records (cccc.getBlockBandwidth, quoted from the standard):
   JL = (M-1)*((NINTJ-1)/NBLOK + 1) + 1,  JU = MIN0(NINTJ, M*((NINTJ-1)/NBLOK + 1))                        *)
BlkX(nj, nb)     == (nj - 1) \div nb + 1
BlkLo(m, nj, nb) == (m - 1) * BlkX(nj, nb) + 1
BlkHi(m, nj, nb) == Min2(nj, m * BlkX(nj, nb))
BlkN(m, nj, nb)  == Max2(0, BlkHi(m, nj, nb) - BlkLo(m, nj, nb) + 1)
JBlk == IF Wide THEN {<<1, 1>>, <<2, 1>>, <<2, 2>>, <<3, 1>>, <<3, 2>>, <<3, 3>>, <<4, 3>>, <<5, 2>>, <<5, 4>>}
        ELSE {<<1, 1>>, <<2, 2>>, <<3, 1>>, <<3, 2>>, <<4, 3>>}      \* <<NINTJ, NBLOK>>; <<4,3>> has an empty third block

(* ================================================ GEODST ================================================ *)
GeoKeys == <<"IGOM", "NZONE", "NREG", "NZCL", "NCINTI", "NCINTJ", "NCINTK", "NINTI", "NINTJ", "NINTK", "IMB1", "IMB2",
             "JMB1", "JMB2", "KMB1", "KMB2", "NBS", "NBCS", "NIBCS", "NZWBB", "NTRIAG", "NRASS", "NTHPT", "NGOP1", "NGOP2",
             "NGOP3", "NGOP4">>
GeoDim(ig) == IF ig = 0 THEN 0 ELSE IF ig <= 3 THEN 1 ELSE IF ig <= 11 THEN 2 ELSE 3
GeoIgoms == IF Wide THEN {0, 1, 2, 3, 6, 7, 8, 9, 10, 11, 12, 13, 14, 15, 16, 17, 18} ELSE {0, 1, 3, 6, 10, 12, 18}
GeoHdr == {hh \in [IGOM : GeoIgoms, NCINTI : 1..2, NCINTJ : 1..2, NCINTK : 1..2, FM : 1..2, ZR : IF Wide THEN 1..2 ELSE {2},
                   NBS : {0, 2}, BC : 0..1, NRASS : 0..1] :
              /\ (GeoDim(hh.IGOM) < 1 => hh.NCINTI = 1 /\ hh.FM = 1)
              /\ (GeoDim(hh.IGOM) < 2 => hh.NCINTJ = 1)
              /\ (GeoDim(hh.IGOM) < 3 => hh.NCINTK = 1)
              /\ (~Wide /\ hh.NCINTK = 2 => hh.NCINTJ = 2)}
GeoV(hh) == [IGOM |-> hh.IGOM, NZONE |-> hh.ZR, NREG |-> 2 * hh.ZR - 1, NZCL |-> 0,
             NCINTI |-> hh.NCINTI, NCINTJ |-> hh.NCINTJ, NCINTK |-> hh.NCINTK,
             NINTI |-> hh.NCINTI * hh.FM,
             NINTJ |-> IF GeoDim(hh.IGOM) >= 2 THEN hh.NCINTJ * hh.FM ELSE 1,
             NINTK |-> IF GeoDim(hh.IGOM) >= 3 THEN hh.NCINTK * hh.FM ELSE 1,
             NBS |-> hh.NBS, NBCS |-> hh.BC, NIBCS |-> 2 * hh.BC, NZWBB |-> hh.BC, NRASS |-> hh.NRASS]
GeoDriving == DOMAIN GeoV([IGOM |-> 0, NCINTI |-> 1, NCINTJ |-> 1, NCINTK |-> 1, FM |-> 1, ZR |-> 1, NBS |-> 0, BC |-> 0, NRASS |-> 0])
GeoMesh(v, d) == (IF d >= 1 THEN <<LD("d:xmesh", v.NCINTI + 1)>> ELSE <<>>)
                 \o (IF d >= 2 THEN <<LD("d:ymesh", v.NCINTJ + 1)>> ELSE <<>>)
                 \o (IF d >= 3 THEN <<LD("d:zmesh", v.NCINTK + 1)>> ELSE <<>>)
                 \o (IF d >= 1 THEN <<LI("d:iintervals", v.NCINTI)>> ELSE <<>>)
                 \o (IF d >= 2 THEN <<LI("d:jintervals", v.NCINTJ)>> ELSE <<>>)
                 \o (IF d >= 3 THEN <<LI("d:kintervals", v.NCINTK)>> ELSE <<>>)
Geo5D(v) == <<LF("d:regionVolumes", v.NREG), LF("d:bucklings", v.NBS), LF("d:boundaryConstants", v.NBCS),
              LF("d:internalBlackBoundaryConstants", v.NIBCS), LI("d:zonesWithBlackAbs", v.NZWBB),
              LI("d:zoneClassifications", v.NZONE), LI("d:regionZoneNumber", v.NREG)>>
GeoRecords(hh) ==
    LET v == GeoV(hh)  d == GeoDim(hh.IGOM) IN
    <<Rec("FILEID", <<FS("md:label", 28)>>),
      Rec("1D", [i \in 1..Len(GeoKeys) |-> FI("md:" \o GeoKeys[i])])>>
    \o (IF d = 1 THEN <<Rec("2D", GeoMesh(v, 1))>> ELSE <<>>)          \* 1-D mesh: IGOM 1..3
    \o (IF d = 2 THEN <<Rec("3D", GeoMesh(v, 2))>> ELSE <<>>)          \* 2-D mesh: IGOM 6..11
    \o (IF d = 3 THEN <<Rec("4D", GeoMesh(v, 3))>> ELSE <<>>)          \* 3-D mesh: IGOM >= 12
    \o (IF hh.IGOM > 0 \/ hh.NBS > 0 THEN <<Rec("5D", Geo5D(v))>> ELSE <<>>)
    \o (IF hh.IGOM > 0 /\ hh.NRASS = 0 THEN Rep(v.NCINTK, Rec("6D", <<MI("d:coarseMeshRegions", <<v.NCINTJ, v.NCINTI>>)>>)) ELSE <<>>)
    \o (IF hh.IGOM > 0 /\ hh.NRASS = 1 THEN Rep(v.NINTK, Rec("7D", <<MI("d:fineMeshRegions", <<v.NINTJ, v.NINTI>>)>>)) ELSE <<>>)
GeoCount(hh) ==
    LET v == GeoV(hh) IN
    [FILEID |-> 1, 1D |-> 1,
     2D |-> IF hh.IGOM \in 1..3 THEN 1 ELSE 0, 3D |-> IF hh.IGOM \in 6..11 THEN 1 ELSE 0, 4D |-> IF hh.IGOM >= 12 THEN 1 ELSE 0,
     5D |-> IF hh.IGOM > 0 \/ hh.NBS > 0 THEN 1 ELSE 0,
     6D |-> IF hh.IGOM > 0 /\ hh.NRASS = 0 THEN v.NCINTK ELSE 0,
     7D |-> IF hh.IGOM > 0 /\ hh.NRASS = 1 THEN v.NINTK ELSE 0]
GeoManifest(hh) ==
    LET v == GeoV(hh)  d == GeoDim(hh.IGOM) IN
    <<Dt("md:label", "string", <<>>, 28, "str")>>
    \o [i \in 1..Len(GeoKeys) |-> IF GeoKeys[i] \in GeoDriving THEN Hd("md:" \o GeoKeys[i], v[GeoKeys[i]])
                                  ELSE Dt("md:" \o GeoKeys[i], "int", <<>>, 0, "i32")]
    \o (IF d >= 1 THEN <<Dt("d:xmesh", "double", <<v.NCINTI + 1>>, 0, "real"), Dt("d:iintervals", "int", <<v.NCINTI>>, 0, "small")>> ELSE <<>>)
    \o (IF d >= 2 THEN <<Dt("d:ymesh", "double", <<v.NCINTJ + 1>>, 0, "real"), Dt("d:jintervals", "int", <<v.NCINTJ>>, 0, "small")>> ELSE <<>>)
    \o (IF d >= 3 THEN <<Dt("d:zmesh", "double", <<v.NCINTK + 1>>, 0, "real"), Dt("d:kintervals", "int", <<v.NCINTK>>, 0, "small")>> ELSE <<>>)
    \o (IF hh.IGOM > 0 \/ hh.NBS > 0
        THEN <<Dt("d:regionVolumes", "float", <<v.NREG>>, 0, "real"), Dt("d:bucklings", "float", <<v.NBS>>, 0, "real"),
               Dt("d:boundaryConstants", "float", <<v.NBCS>>, 0, "real"),
               Dt("d:internalBlackBoundaryConstants", "float", <<v.NIBCS>>, 0, "real"),
               Dt("d:zonesWithBlackAbs", "int", <<v.NZWBB>>, 0, "small"), Dt("d:zoneClassifications", "int", <<v.NZONE>>, 0, "small"),
               Dt("d:regionZoneNumber", "int", <<v.NREG>>, 0, "small")>> ELSE <<>>)
    \o (IF hh.IGOM > 0 /\ hh.NRASS = 0 THEN <<Dt("d:coarseMeshRegions", "int", <<v.NCINTI, v.NCINTJ, v.NCINTK>>, 0, "small")>> ELSE <<>>)
    \o (IF hh.IGOM > 0 /\ hh.NRASS = 1 THEN <<Dt("d:fineMeshRegions", "int", <<v.NINTI, v.NINTJ, v.NINTK>>, 0, "small")>> ELSE <<>>)

(* ================================================ DIF3D ================================================= *)
Dif2D == <<"IPROBT", "ISOLNT", "IXTRAP", "MINBSZ", "NOUTMX", "IRSTRT", "LIMTIM", "NUPMAX", "IOSAVE", "IOMEG1", "INRMAX", "NUMORP", "IRETRN">>
         \o [e \in 1..10 |-> "IEDF" \o ToString(e)]
         \o <<"NOUTBQ", "I0FLUX", "NOEDIT", "NOD3ED", "ISRHED", "NSN", "NSWMAX", "NAPRX", "NAPRXZ", "NFMCMX", "NXYSWP", "NZSWP", "ISYMF",
              "NCMRZS", "ISEXTR", "NPNO", "NXTR", "IOMEG2", "IFULL", "NVFLAG", "ISIMPL", "IWNHFL", "IPERT", "IHARM">>
Dif3D == <<"EPS1", "EPS2", "EPS3", "EFFK", "FISMIN", "PSINRM", "POWIN", "SIGBAR", "EFFKQ", "EPSWP">> \o [e \in 1..20 |-> "DUM" \o ToString(e)]
DifHdr == [NUMORP : IF Wide THEN 0..3 ELSE 0..2, NCMRZS : IF Wide THEN 0..3 ELSE 0..2]
DifRecords(hh) ==
    <<Rec("FILEID", <<FS("md:HNAME", 8), FS("md:HUSE1", 8), FS("md:HUSE2", 8), FI("md:VERSION")>>),
      Rec("1D", [i \in 1..11 |-> FS("md:TITLE" \o ToString(i - 1), 8)] \o <<FI("md:MAXSIZ"), FI("md:MAXBLK"), FI("md:IPRINT")>>),
      Rec("2D", [i \in 1..Len(Dif2D) |-> FI("twoD:" \o Dif2D[i])]),
      Rec("3D", [i \in 1..Len(Dif3D) |-> FD("threeD:" \o Dif3D[i])])>>
    \o (IF hh.NUMORP # 0 THEN <<Rec("4D", [i \in 1..hh.NUMORP |-> FD("fourD:OMEGA" \o ToString(i))])>> ELSE <<>>)
    \o (IF hh.NCMRZS # 0 THEN <<Rec("5D", [i \in 1..hh.NCMRZS |-> FD("fiveD:ZCMRC" \o ToString(i))]
                                          \o [i \in 1..hh.NCMRZS |-> FI("fiveD:NZINTS" \o ToString(i))])>> ELSE <<>>)
DifCount(hh) == [FILEID |-> 1, 1D |-> 1, 2D |-> 1, 3D |-> 1, 4D |-> IF hh.NUMORP > 0 THEN 1 ELSE 0, 5D |-> IF hh.NCMRZS > 0 THEN 1 ELSE 0]
DifManifest(hh) ==
    <<Dt("md:HNAME", "string", <<>>, 8, "str"), Dt("md:HUSE1", "string", <<>>, 8, "str"), Dt("md:HUSE2", "string", <<>>, 8, "str"),
      Dt("md:VERSION", "int", <<>>, 0, "i32")>>
    \o [i \in 1..11 |-> Dt("md:TITLE" \o ToString(i - 1), "string", <<>>, 8, "str")]
    \o <<Dt("md:MAXSIZ", "int", <<>>, 0, "i32"), Dt("md:MAXBLK", "int", <<>>, 0, "i32"), Dt("md:IPRINT", "int", <<>>, 0, "i32")>>
    \o [i \in 1..Len(Dif2D) |-> IF Dif2D[i] = "NUMORP" THEN Hd("twoD:NUMORP", hh.NUMORP)
                                ELSE IF Dif2D[i] = "NCMRZS" THEN Hd("twoD:NCMRZS", hh.NCMRZS)
                                ELSE Dt("twoD:" \o Dif2D[i], "int", <<>>, 0, "i32")]
    \o [i \in 1..Len(Dif3D) |-> Dt("threeD:" \o Dif3D[i], "double", <<>>, 0, "real")]
    \o [i \in 1..hh.NUMORP |-> Dt("fourD:OMEGA" \o ToString(i), "double", <<>>, 0, "real")]
    \o [i \in 1..hh.NCMRZS |-> Dt("fiveD:ZCMRC" \o ToString(i), "double", <<>>, 0, "real")]
    \o [i \in 1..hh.NCMRZS |-> Dt("fiveD:NZINTS" \o ToString(i), "int", <<>>, 0, "i32")]

(* ================================================ NHFLUX / NAFLUX (Nodal and VARIANT) ================== *)
Nhf1D == <<<<"ndim", "int">>, <<"ngroup", "int">>, <<"ninti", "int">>, <<"nintj", "int">>, <<"nintk", "int">>, <<"iter", "int">>,
           <<"effk", "float">>, <<"power", "float">>, <<"nSurf", "int">>, <<"nMom", "int">>, <<"nintxy", "int">>, <<"npcxy", "int">>,
           <<"nscoef", "int">>, <<"itrord", "int">>, <<"iaprx", "int">>, <<"ileak", "int">>, <<"iaprxz", "int">>, <<"ileakz", "int">>,
           <<"iorder", "int">>>>
NhfVar == Ints(<<"npcbdy", "npcsym", "npcsec", "iwnhfl", "nMoms">>)
NhfKeys(variant) == IF variant THEN Nhf1D \o NhfVar \o [e \in 1..6 |-> <<"IDUM" \o Pad2(e), "int">>]
                    ELSE Nhf1D \o [e \in 1..11 |-> <<"IDUM" \o Pad2(e), "int">>]
NhfHdr == {hh \in [variant : BOOLEAN, adjoint : BOOLEAN, ng : 1..2, nz : 1..2, nxy : 1..2, nSurf : IF Wide THEN {2, 3} ELSE {2},
                   nMom : 1..2, nMoms : 0..1, nscoef : 1..2, next : {0, 2}, npcbdy : {1, 2}, npcsym : 0..1, npcsec : 0..1, iwnhfl : 0..1] :
              /\ (~hh.variant => hh.nMoms = 0 /\ hh.npcbdy = 1 /\ hh.npcsym = 0 /\ hh.npcsec = 0 /\ hh.iwnhfl = 0)
              /\ (hh.variant /\ ~Wide => hh.ng = 2 /\ hh.nMom = 1 /\ hh.npcsec = 0 /\ hh.npcbdy = 1)}
NhfExtPtr(hh) == IF hh.variant THEN hh.npcbdy ELSE hh.next          \* _getNumOuterSurfacesHex
NhfV(hh) == [ngroup |-> hh.ng, nintk |-> hh.nz, nSurf |-> hh.nSurf, nMom |-> hh.nMom, nintxy |-> hh.nxy,
             npcxy |-> hh.nxy * hh.nSurf + hh.next, nscoef |-> hh.nscoef,
             npcbdy |-> hh.npcbdy, npcsym |-> hh.npcsym, npcsec |-> hh.npcsec, iwnhfl |-> hh.iwnhfl, nMoms |-> hh.nMoms]
NhfDriving(hh) == IF hh.variant THEN DOMAIN NhfV(hh) ELSE (DOMAIN NhfV(hh)) \ {"npcbdy", "npcsym", "npcsec", "iwnhfl", "nMoms"}
Nhf3D(hh) == Rec("3D", <<MD("d:fluxMomentsAll", <<hh.nxy, hh.nMom>>)>>
                       \o (IF hh.variant /\ hh.nMoms > 0 THEN <<MD("d:fluxMomentsAll", <<hh.nxy, hh.nMoms>>)>> ELSE <<>>))
Nhf4D(hh) == Rec("4D", <<LD("d:partialCurrentsHexAll", hh.nxy * hh.nSurf * hh.nscoef), LD("d:partialCurrentsHex_extAll", hh.next * hh.nscoef)>>)
Nhf5D(hh) == Rec("5D", <<LD("d:partialCurrentsZAll", 2 * hh.nxy * hh.nscoef)>>)
NhfGroup(hh) == Rep(hh.nz, Nhf3D(hh)) \o (IF hh.iwnhfl # 1 THEN Rep(hh.nz, Nhf4D(hh)) \o Rep(hh.nz + 1, Nhf5D(hh)) ELSE <<>>)
NhfRecords(hh) ==
    <<Rec("FILEID", <<FS("md:label", 28)>>),
      Rec("1D", KeyFields("md:", NhfKeys(hh.variant))),
      Rec("2D", <<MI("d:incomingPointersToAllAssemblies", <<hh.nxy, hh.nSurf>>), LI("d:externalCurrentPointers", NhfExtPtr(hh)),
                  LI("d:geodstCoordMap", hh.nxy)>>
                \o (IF hh.variant THEN <<LI("d:outgoingPCSymSecPointers", hh.npcsym + hh.npcsec),
                                         LI("d:ingoingPCSymSecPointers", hh.npcsym + hh.npcsec)>> ELSE <<>>))>>
    \o Flat(Rep(hh.ng, NhfGroup(hh)))
NhfCount(hh) == [FILEID |-> 1, 1D |-> 1, 2D |-> 1, 3D |-> hh.ng * hh.nz,
                 4D |-> IF hh.iwnhfl = 1 THEN 0 ELSE hh.ng * hh.nz, 5D |-> IF hh.iwnhfl = 1 THEN 0 ELSE hh.ng * (hh.nz + 1)]
NhfManifest(hh) ==
    LET v == NhfV(hh)  ks == NhfKeys(hh.variant) IN
    <<Dt("md:label", "string", <<>>, 28, "str")>>
    \o [i \in 1..Len(ks) |-> IF ks[i][1] \in NhfDriving(hh) THEN Hd("md:" \o ks[i][1], v[ks[i][1]])
                             ELSE Dt("md:" \o ks[i][1], ks[i][2], <<>>, 0, IF ks[i][2] = "int" THEN "i32" ELSE "real")]
    \o <<Dt("d:incomingPointersToAllAssemblies", "int", <<hh.nSurf, hh.nxy>>, 0, "small"),
         Dt("d:externalCurrentPointers", "int", <<NhfExtPtr(hh)>>, 0, "small"), Dt("d:geodstCoordMap", "int", <<hh.nxy>>, 0, "small")>>
    \o (IF hh.variant THEN <<Dt("d:outgoingPCSymSecPointers", "int", <<hh.npcsym + hh.npcsec>>, 0, "small"),
                             Dt("d:ingoingPCSymSecPointers", "int", <<hh.npcsym + hh.npcsec>>, 0, "small")>> ELSE <<>>)
    \o <<Dt("d:fluxMomentsAll", "double", <<hh.nxy, hh.nz, hh.nMom + hh.nMoms, hh.ng>>, 0, "real")>>
    \o (IF hh.iwnhfl # 1 THEN <<Dt("d:partialCurrentsHexAll", "double", <<hh.nxy, hh.nz, hh.nSurf, hh.ng, hh.nscoef>>, 0, "real"),
                                Dt("d:partialCurrentsHex_extAll", "double", <<hh.next, hh.nz, hh.ng, hh.nscoef>>, 0, "real"),
                                Dt("d:partialCurrentsZAll", "double", <<hh.nxy, hh.nz + 1, 2, hh.ng, hh.nscoef>>, 0, "real")>> ELSE <<>>)

(* ================================================ LABELS ================================================ *)
LabKeys == <<"numZones", "numRegions", "numAreas", "numRegionAreaAssignments", "numHalfHeightsDirection1", "numHalfHeightsDirection2",
             "numNuclideSets", "numZoneAliases", "numTrianglesPerHex", "numHexagonalRings", "numControlRodChannels", "numControlRodBanks",
             "numAxialFineMeshBins", "maxControlRodBankTimes", "maxControlRodsPerBank", "maxControlRodsMeshes", "maxControlRodPieces",
             "maxControlRodChannels", "numBurnupDependentIsotopes", "maxBurnupDependentGroups", "maxBurnupPolynomialOrder", "modelDimensions">>
LabHdr == [ZR : 1..2, numAreas : {0, 2}, numRAA : 0..1, nh1 : {0, 2}, nh2 : 0..1, nsets : 0..2, nalias : {0, 2}]
LabV(hh) == [numZones |-> hh.ZR, numRegions |-> 2 * hh.ZR - 1, numAreas |-> hh.numAreas, numRegionAreaAssignments |-> hh.numRAA,
             numHalfHeightsDirection1 |-> hh.nh1, numHalfHeightsDirection2 |-> hh.nh2, numNuclideSets |-> hh.nsets,
             numZoneAliases |-> hh.nalias, numControlRodChannels |-> 0, numControlRodBanks |-> 0, maxControlRodBankTimes |-> 0,
             maxControlRodsPerBank |-> 0, maxControlRodsMeshes |-> 0, maxControlRodPieces |-> 0, maxControlRodChannels |-> 0,
             numBurnupDependentIsotopes |-> 0, maxBurnupDependentGroups |-> 0, maxBurnupPolynomialOrder |-> 0]
LabRecords(hh) ==
    LET v == LabV(hh) IN
    <<Rec("FILEID", <<FS("md:hname", 8), FS("md:huse", 8), FS("md:huse2", 8), FI("md:version")>>),
      Rec("1D", [i \in 1..Len(LabKeys) |-> FI("md:" \o LabKeys[i])] \o <<LI("md:dummy", 2)>>),
      Rec("2D", <<LS("d:zoneLabels", v.numZones, 8), LS("d:regionLabels", v.numRegions, 8), LS("d:areaLabels", v.numAreas, 8),
                  LS("d:regionAreaAssignments", v.numRegionAreaAssignments, 8)>>)>>
    \o (IF hh.nh1 > 0 \/ hh.nh2 > 0 THEN <<Rec("3D", <<LF("d:halfHeightsDirection1", hh.nh1), LF("d:extrapolationDistance1", hh.nh1),
                                                         LF("d:halfHeightsDirection2", hh.nh2), LF("d:extrapolationDistance2", hh.nh2)>>)>> ELSE <<>>)
    \o (IF hh.nsets > 1 THEN <<Rec("4D", <<LS("d:nuclideSetLabels", hh.nsets, 8)>>)>> ELSE <<>>)
    \o (IF hh.nalias > 0 THEN <<Rec("5D", <<LS("d:aliasZoneLabels", hh.nalias, 8)>>)>> ELSE <<>>)
LabCount(hh) == [FILEID |-> 1, 1D |-> 1, 2D |-> 1, 3D |-> IF hh.nh1 + hh.nh2 > 0 THEN 1 ELSE 0,
                 4D |-> IF hh.nsets > 1 THEN 1 ELSE 0, 5D |-> IF hh.nalias > 0 THEN 1 ELSE 0]
LabManifest(hh) ==
    LET v == LabV(hh) IN
    <<Dt("md:hname", "string", <<>>, 8, "str"), Dt("md:huse", "string", <<>>, 8, "str"), Dt("md:huse2", "string", <<>>, 8, "str"),
      Dt("md:version", "int", <<>>, 0, "i32")>>
    \o [i \in 1..Len(LabKeys) |-> IF LabKeys[i] \in DOMAIN v THEN Hd("md:" \o LabKeys[i], v[LabKeys[i]])
                                  ELSE Dt("md:" \o LabKeys[i], "int", <<>>, 0, "i32")]
    \o <<Dt("md:dummy", "int", <<2>>, 0, "i32"),
         Dt("d:zoneLabels", "string", <<v.numZones>>, 8, "str"), Dt("d:regionLabels", "string", <<v.numRegions>>, 8, "str"),
         Dt("d:areaLabels", "string", <<v.numAreas>>, 8, "str"), Dt("d:regionAreaAssignments", "string", <<v.numRegionAreaAssignments>>, 8, "str")>>
    \o (IF hh.nh1 > 0 \/ hh.nh2 > 0 THEN <<Dt("d:halfHeightsDirection1", "float", <<hh.nh1>>, 0, "real"), Dt("d:extrapolationDistance1", "float", <<hh.nh1>>, 0, "real"),
                                            Dt("d:halfHeightsDirection2", "float", <<hh.nh2>>, 0, "real"), Dt("d:extrapolationDistance2", "float", <<hh.nh2>>, 0, "real")>> ELSE <<>>)
    \o (IF hh.nsets > 1 THEN <<Dt("d:nuclideSetLabels", "string", <<hh.nsets>>, 8, "str")>> ELSE <<>>)
    \o (IF hh.nalias > 0 THEN <<Dt("d:aliasZoneLabels", "string", <<hh.nalias>>, 8, "str")>> ELSE <<>>)

(* ================================================ PWDINT / RTFLUX / ATFLUX / RZFLUX / FIXSRC ============ *)
PwdKeys == <<<<"TIME", "float">>, <<"POWER", "float">>, <<"VOL", "float">>, <<"NINTI", "int">>, <<"NINTJ", "int">>, <<"NINTK", "int">>,
             <<"NCY", "int">>, <<"NBLOK", "int">>>>
PwdHdr == {[NINTI |-> i, NINTJ |-> jb[1], NINTK |-> k, NBLOK |-> jb[2]] : i \in 1..2, jb \in JBlk, k \in 1..2}
PwdRecords(hh) ==
    <<Rec("FILEID", <<FS("md:hname", 8), FS("md:huse", 6), FS("md:huse2", 6), FI("md:version"), FI("md:mult")>>),
      Rec("1D", KeyFields("md:", PwdKeys))>>
    \o Flat([k \in 1..hh.NINTK |-> [m \in 1..hh.NBLOK |-> Rec("2D", <<MF("d:powerDensity", <<BlkN(m, hh.NINTJ, hh.NBLOK), hh.NINTI>>)>>)]])
PwdCount(hh) == [FILEID |-> 1, 1D |-> 1, 2D |-> hh.NINTK * hh.NBLOK]
PwdManifest(hh) ==
    <<Dt("md:hname", "string", <<>>, 8, "str"), Dt("md:huse", "string", <<>>, 6, "str"), Dt("md:huse2", "string", <<>>, 6, "str"),
      Dt("md:version", "int", <<>>, 0, "i32"), Dt("md:mult", "int", <<>>, 0, "i32")>>
    \o [i \in 1..Len(PwdKeys) |-> IF PwdKeys[i][1] \in DOMAIN hh THEN Hd("md:" \o PwdKeys[i][1], hh[PwdKeys[i][1]])
                                  ELSE Dt("md:" \o PwdKeys[i][1], PwdKeys[i][2], <<>>, 0, IF PwdKeys[i][2] = "int" THEN "i32" ELSE "real")]
    \o <<Dt("d:powerDensity", "float", <<hh.NINTI, hh.NINTJ, hh.NINTK>>, 0, "real")>>

RtfKeys == <<<<"NDIM", "int">>, <<"NGROUP", "int">>, <<"NINTI", "int">>, <<"NINTJ", "int">>, <<"NINTK", "int">>, <<"ITER", "int">>,
             <<"EFFK", "float">>, <<"POWER", "float">>, <<"NBLOK", "int">>>>
RtfHdr == {hh \in {[adjoint |-> a, NDIM |-> d, NGROUP |-> g, NINTI |-> i, NINTJ |-> jb[1], NINTK |-> k, NBLOK |-> jb[2]] :
                     a \in BOOLEAN, d \in 2..3, g \in 1..2, i \in 1..2, jb \in JBlk, k \in 1..2} : hh.NDIM = 2 => hh.NINTK = 1}
RtfRecords(hh) ==
    <<Rec("FILEID", <<FS("md:label", 28)>>), Rec("1D", KeyFields("md:", RtfKeys))>>
    \o Flat(Flat([g \in 1..hh.NGROUP |-> [k \in 1..hh.NINTK |-> [m \in 1..hh.NBLOK |->
                    Rec("3D", <<MD("d:groupFluxes", <<BlkN(m, hh.NINTJ, hh.NBLOK), hh.NINTI>>)>>)]]]))
RtfCount(hh) == [FILEID |-> 1, 1D |-> 1, 3D |-> hh.NGROUP * hh.NINTK * hh.NBLOK]
RtfManifest(hh) ==
    <<Dt("md:label", "string", <<>>, 28, "str")>>
    \o [i \in 1..Len(RtfKeys) |-> IF RtfKeys[i][1] \in DOMAIN hh THEN Hd("md:" \o RtfKeys[i][1], hh[RtfKeys[i][1]])
                                  ELSE Dt("md:" \o RtfKeys[i][1], RtfKeys[i][2], <<>>, 0, IF RtfKeys[i][2] = "int" THEN "i32" ELSE "real")]
    \o <<Dt("d:groupFluxes", "double", <<hh.NINTI, hh.NINTJ, hh.NINTK, hh.NGROUP>>, 0, "real")>>

RzfFloats == <<"TIME", "POWER", "VOL", "EFFK", "EIVS", "DKDS", "TNL", "TNA", "TNSL", "TNBL", "TNBAL", "TNCRA", "X1", "X2", "X3">>
RzfKeys == [i \in 1..Len(RzfFloats) |-> <<RzfFloats[i], "float">>] \o Ints(<<"NBLOK", "ITPS", "NZONE", "NGROUP", "NCY">>)
RzfHdr == {[NGROUP |-> g, NZONE |-> jb[1], NBLOK |-> jb[2]] : g \in 1..3, jb \in JBlk}
RzfRecords(hh) ==
    <<Rec("FILEID", <<FS("md:label", 28)>>), Rec("1D", KeyFields("md:", RzfKeys))>>
    \o [m \in 1..hh.NBLOK |-> Rec("2D", <<MF("d:groupFluxes", <<BlkN(m, hh.NZONE, hh.NBLOK), hh.NGROUP>>)>>)]
RzfCount(hh) == [FILEID |-> 1, 1D |-> 1, 2D |-> hh.NBLOK]
RzfManifest(hh) ==
    <<Dt("md:label", "string", <<>>, 28, "str")>>
    \o [i \in 1..Len(RzfKeys) |-> IF RzfKeys[i][1] \in DOMAIN hh THEN Hd("md:" \o RzfKeys[i][1], hh[RzfKeys[i][1]])
                                  ELSE Dt("md:" \o RzfKeys[i][1], RzfKeys[i][2], <<>>, 0, IF RzfKeys[i][2] = "int" THEN "i32" ELSE "real")]
    \o <<Dt("d:groupFluxes", "float", <<hh.NGROUP, hh.NZONE>>, 0, "real")>>

\* FIXSRC: the container is the bare 4-D array; label, file id and the 13 control words are written from constants
FixKeys == <<"itype", "ndim", "ngroup", "ninti", "nintj", "nintk", "idists", "ndcomp", "nscomp", "nedgi", "nedgj", "nedjk", "nblok">>
FixHdr == [ni : 1..2, nj : 1..2, nz : 1..2, ng : 1..2]
FixRecords(hh) ==
    <<Rec("FILEID", <<FS("const:label", 24), FI("const:fileId")>>), Rec("1D", [i \in 1..Len(FixKeys) |-> FI("const:" \o FixKeys[i])])>>
    \o Rep(hh.ng * hh.nz, Rec("3D", <<LD("d:fixSrc", hh.nj * hh.ni)>>))
FixCount(hh) == [FILEID |-> 1, 1D |-> 1, 3D |-> hh.ng * hh.nz]
FixManifest(hh) == <<Dt("d:fixSrc", "double", <<hh.ni, hh.nj, hh.nz, hh.ng>>, 0, "real")>>
FixConstBytes == 24 + 4 + 13 * 4
