----------------------------------------- MODULE CcccFormats -----------------------------------------
(* C09, layer 2 -- the record grammar of every CCCC file type armi reads and writes, as a function of the header.

   Clauses of the statement modelled here:
     "for every CCCC file type ... reading a file produced by the writer returns data equal to what was written ...
      including every optional record the header flags announce, and writing what was read reproduces the file
      byte for byte"
   The grammar is what both directions must agree with: for a header hh of format f
     Records(f, hh)   the sequence of records  [tag, fs]  (fs = fields of CcccFields) the file consists of,
     Manifest(f, hh)  the data the container carries into the file: path, kind, shape, value domain
                      (dom = "fix": header value v that drives the grammar; otherwise a value pool name),
     Count(f, hh)     for every record tag the number of times it must occur ("PRESENT IF" table), stated
                      separately from Records and checked against it (PresenceLaw).
   One readWrite() per format is transcribed (file : operator):
     geodst.py  GeodstStream.readWrite / _rw*Record        : Geo*
     dif3d.py   Dif3dStream.readWrite                      : Dif*
     nhflux.py  NhfluxStream(.Variant)/NafluxStream        : Nhf*
     labels.py  LabelsStream.readWrite                     : Lab*
     pwdint.py  PwdintStream, rtflux.py Rtflux/AtfluxStream, rzflux.py RzfluxStream, fixsrc.py FIXSRC : Pwd* Rtf* Rzf* Fix*
     isotxs.py  IsotxsIO / _IsotxsNuclideIO, gamiso.py     : Iso*  (GAMISO = same grammar, other container paths)
     pmatrx.py  PmatrxIO / _PmatrxNuclideIO                : Pmx*
     dlayxs.py  DlayxsIO                                   : Dly*
     compxs.py  _CompxsIO / _CompxsRegionIO                : Cpx*

   Interpretation choices (each is also an evidence assumption)
     * The grammar is the format the module documents (CCCC-IV "PRESENT IF" conditions quoted in the armi
       docstrings), not a copy of defects: GEODST's 1-D mesh record exists for IGOM 1..3, ISOTXS sub-blocks are
       re-assembled by a reader, PMATRX activation records and COMPXS file-wide chi / delayed-family data are
       ordinary optional data, COMPXS carries a d2Multiplier, FIXSRC can be read.
     * Outside the domain because armi refuses them explicitly (NotImplementedError / ValueError) and so they
       are not "file types armi can both read and write": ISOTXS/GAMISO chi matrices (ICHIST/ICHI > 1), LABELS
       control-rod and burnup records, 1-D RTFLUX, VARIANT NHFLUX with iwnhfl = 2.  ISOTXS blocks holding more
       than one Legendre order (LORD > 1) are outside armi's container (one matrix per block).
     * File labels of ISOTXS/GAMISO are normalised to "ISOTXS" by the reader on purpose (_updateFileLabel);
       well-formed containers carry that label.
     * Walking machine: Init chooses (format, header); EmitRecord appends the next record of the grammar and
       advances the byte offset by 8 + payload; the record's frame is computed by *running* the record
       writer of CcccFields (WRecord) on its fields, and must agree with the closed form.                *)
EXTENDS CcccFields

CONSTANTS Fmts,    \* formats to enumerate
          Wide     \* FALSE: quick header ranges, TRUE: thorough

VARIABLES fmt, h, pos, off, act
vars == <<fmt, h, pos, off>>

Rec(tag, fs) == [tag |-> tag, fs |-> fs]
\* manifest entries; n = number of scalars the entry contributes to the file
Hd(p, v) == [p |-> p, k |-> "int", sh |-> <<>>, w |-> 0, dom |-> "fix", v |-> v, n |-> 1]
Hb(p, v) == [p |-> p, k |-> "bool", sh |-> <<>>, w |-> 0, dom |-> "fix", v |-> v, n |-> 1]
Dt(p, k, sh, w, dom) == [p |-> p, k |-> k, sh |-> sh, w |-> w, dom |-> dom, v |-> 0, n |-> Prod(sh)]
\* sparse matrix whose stored (in-band) positions are nz (0-based <<row, col>>); k = "sparse" (float) | "sparse8" (double)
Sp(p, k, sh, nz, lit) == [p |-> p, k |-> k, sh |-> sh, w |-> 0, dom |-> lit, v |-> 0, n |-> Len(nz)]
Max2(a, b) == IF a > b THEN a ELSE b
Min2(a, b) == IF a < b THEN a ELSE b
Pad2(i) == IF i < 10 THEN "0" \o ToString(i) ELSE ToString(i)
Rep(n, x) == [i \in 1..n |-> x]
\* fields / manifest entries for a list of <<name, kind>> pairs under a path prefix (implicitly typed maps, key lists)
KeyFields(pre, ks) == [i \in 1..Len(ks) |-> Sc(pre \o ks[i][1], ks[i][2], 0)]
Ints(names) == [i \in 1..Len(names) |-> <<names[i], "int">>]

(* CCCC blocking of a J-range into NBLOK records (cccc.getBlockBandwidth, quoted from the standard):
   JL = (M-1)*((NINTJ-1)/NBLOK + 1) + 1,  JU = MIN0(NINTJ, M*((NINTJ-1)/NBLOK + 1))                        *)
BlkX(nj, nb)     == (nj - 1) \div nb + 1
BlkLo(m, nj, nb) == (m - 1) * BlkX(nj, nb) + 1
BlkHi(m, nj, nb) == Min2(nj, m * BlkX(nj, nb))
BlkN(m, nj, nb)  == Max2(0, BlkHi(m, nj, nb) - BlkLo(m, nj, nb) + 1)
\* well-formed blocking: no block starts beyond NINTJ + 1 (a block may be empty, it cannot have a negative extent)
BlkOK(nj, nb)    == (nb - 1) * BlkX(nj, nb) <= nj
JBlk == {jb \in (IF Wide THEN {<<1, 1>>, <<1, 2>>, <<2, 1>>, <<2, 2>>, <<2, 3>>, <<3, 1>>, <<3, 2>>, <<3, 3>>, <<4, 3>>, <<5, 2>>, <<5, 3>>, <<6, 4>>}
                  ELSE {<<1, 1>>, <<1, 2>>, <<2, 2>>, <<3, 1>>, <<3, 2>>, <<4, 3>>}) : BlkOK(jb[1], jb[2])}
        \* <<NINTJ, NBLOK>>; <<1,2>>, <<2,3>> (NBLOK larger than the blocked dimension), <<4,3>> and <<6,4>> end with an
        \* EMPTY block: a record with no payload, which is still framed (head = tail = 0, 8 bytes on a binary file)

(* ================================================ GEODST ================================================ *)
GeoKeys == <<"IGOM", "NZONE", "NREG", "NZCL", "NCINTI", "NCINTJ", "NCINTK", "NINTI", "NINTJ", "NINTK", "IMB1", "IMB2",
             "JMB1", "JMB2", "KMB1", "KMB2", "NBS", "NBCS", "NIBCS", "NZWBB", "NTRIAG", "NRASS", "NTHPT", "NGOP1", "NGOP2",
             "NGOP3", "NGOP4">>
GeoDim(ig) == IF ig = 0 THEN 0 ELSE IF ig <= 3 THEN 1 ELSE IF ig <= 11 THEN 2 ELSE 3
GeoIgoms == IF Wide THEN {0, 1, 2, 3, 6, 7, 8, 9, 10, 11, 12, 13, 14, 15, 16, 17, 18} ELSE {0, 1, 3, 6, 10, 12, 18}
GeoHdr == {hh \in [IGOM : GeoIgoms, NCINTI : 1..2, NCINTJ : 1..2, NCINTK : 1..2, FM : 1..2, ZR : IF Wide THEN 1..2 ELSE {2},
                   NBS : {0, 2}, BC : 0..1, NRASS : 0..1] :
              /\ (GeoDim(hh.IGOM) < 1 => hh.NCINTI = 1 /\ hh.FM = 1)
              /\ (GeoDim(hh.IGOM) < 2 => hh.NCINTJ = 1)
              /\ (GeoDim(hh.IGOM) < 3 => hh.NCINTK = 1)
              /\ (~Wide /\ hh.NCINTK = 2 => hh.NCINTJ = 2)}
GeoV(hh) == [IGOM |-> hh.IGOM, NZONE |-> hh.ZR, NREG |-> 2 * hh.ZR - 1, NZCL |-> 0,
             NCINTI |-> hh.NCINTI, NCINTJ |-> hh.NCINTJ, NCINTK |-> hh.NCINTK,
             NINTI |-> hh.NCINTI * hh.FM,
             NINTJ |-> IF GeoDim(hh.IGOM) >= 2 THEN hh.NCINTJ * hh.FM ELSE 1,
             NINTK |-> IF GeoDim(hh.IGOM) >= 3 THEN hh.NCINTK * hh.FM ELSE 1,
             NBS |-> hh.NBS, NBCS |-> hh.BC, NIBCS |-> 2 * hh.BC, NZWBB |-> hh.BC, NRASS |-> hh.NRASS]
GeoDriving == DOMAIN GeoV([IGOM |-> 0, NCINTI |-> 1, NCINTJ |-> 1, NCINTK |-> 1, FM |-> 1, ZR |-> 1, NBS |-> 0, BC |-> 0, NRASS |-> 0])
GeoMesh(v, d) == (IF d >= 1 THEN <<LD("d:xmesh", v.NCINTI + 1)>> ELSE <<>>)
                 \o (IF d >= 2 THEN <<LD("d:ymesh", v.NCINTJ + 1)>> ELSE <<>>)
                 \o (IF d >= 3 THEN <<LD("d:zmesh", v.NCINTK + 1)>> ELSE <<>>)
                 \o (IF d >= 1 THEN <<LI("d:iintervals", v.NCINTI)>> ELSE <<>>)
                 \o (IF d >= 2 THEN <<LI("d:jintervals", v.NCINTJ)>> ELSE <<>>)
                 \o (IF d >= 3 THEN <<LI("d:kintervals", v.NCINTK)>> ELSE <<>>)
Geo5D(v) == <<LF("d:regionVolumes", v.NREG), LF("d:bucklings", v.NBS), LF("d:boundaryConstants", v.NBCS),
              LF("d:internalBlackBoundaryConstants", v.NIBCS), LI("d:zonesWithBlackAbs", v.NZWBB),
              LI("d:zoneClassifications", v.NZONE), LI("d:regionZoneNumber", v.NREG)>>
GeoRecords(hh) ==
    LET v == GeoV(hh)  d == GeoDim(hh.IGOM) IN
    <<Rec("FILEID", <<FS("md:label", 28)>>),
      Rec("1D", [i \in 1..Len(GeoKeys) |-> FI("md:" \o GeoKeys[i])])>>
    \o (IF d = 1 THEN <<Rec("2D", GeoMesh(v, 1))>> ELSE <<>>)          \* 1-D mesh: IGOM 1..3
    \o (IF d = 2 THEN <<Rec("3D", GeoMesh(v, 2))>> ELSE <<>>)          \* 2-D mesh: IGOM 6..11
    \o (IF d = 3 THEN <<Rec("4D", GeoMesh(v, 3))>> ELSE <<>>)          \* 3-D mesh: IGOM >= 12
    \o (IF hh.IGOM > 0 \/ hh.NBS > 0 THEN <<Rec("5D", Geo5D(v))>> ELSE <<>>)
    \o (IF hh.IGOM > 0 /\ hh.NRASS = 0 THEN Rep(v.NCINTK, Rec("6D", <<MI("d:coarseMeshRegions", <<v.NCINTJ, v.NCINTI>>)>>)) ELSE <<>>)
    \o (IF hh.IGOM > 0 /\ hh.NRASS = 1 THEN Rep(v.NINTK, Rec("7D", <<MI("d:fineMeshRegions", <<v.NINTJ, v.NINTI>>)>>)) ELSE <<>>)
GeoCount(hh) ==
    LET v == GeoV(hh) IN
    [FILEID |-> 1, 1D |-> 1,
     2D |-> IF hh.IGOM \in 1..3 THEN 1 ELSE 0, 3D |-> IF hh.IGOM \in 6..11 THEN 1 ELSE 0, 4D |-> IF hh.IGOM >= 12 THEN 1 ELSE 0,
     5D |-> IF hh.IGOM > 0 \/ hh.NBS > 0 THEN 1 ELSE 0,
     6D |-> IF hh.IGOM > 0 /\ hh.NRASS = 0 THEN v.NCINTK ELSE 0,
     7D |-> IF hh.IGOM > 0 /\ hh.NRASS = 1 THEN v.NINTK ELSE 0]
GeoManifest(hh) ==
    LET v == GeoV(hh)  d == GeoDim(hh.IGOM) IN
    <<Dt("md:label", "string", <<>>, 28, "str")>>
    \o [i \in 1..Len(GeoKeys) |-> IF GeoKeys[i] \in GeoDriving THEN Hd("md:" \o GeoKeys[i], v[GeoKeys[i]])
                                  ELSE Dt("md:" \o GeoKeys[i], "int", <<>>, 0, "i32")]
    \o (IF d >= 1 THEN <<Dt("d:xmesh", "double", <<v.NCINTI + 1>>, 0, "real"), Dt("d:iintervals", "int", <<v.NCINTI>>, 0, "small")>> ELSE <<>>)
    \o (IF d >= 2 THEN <<Dt("d:ymesh", "double", <<v.NCINTJ + 1>>, 0, "real"), Dt("d:jintervals", "int", <<v.NCINTJ>>, 0, "small")>> ELSE <<>>)
    \o (IF d >= 3 THEN <<Dt("d:zmesh", "double", <<v.NCINTK + 1>>, 0, "real"), Dt("d:kintervals", "int", <<v.NCINTK>>, 0, "small")>> ELSE <<>>)
    \o (IF hh.IGOM > 0 \/ hh.NBS > 0
        THEN <<Dt("d:regionVolumes", "float", <<v.NREG>>, 0, "real"), Dt("d:bucklings", "float", <<v.NBS>>, 0, "real"),
               Dt("d:boundaryConstants", "float", <<v.NBCS>>, 0, "real"),
               Dt("d:internalBlackBoundaryConstants", "float", <<v.NIBCS>>, 0, "real"),
               Dt("d:zonesWithBlackAbs", "int", <<v.NZWBB>>, 0, "small"), Dt("d:zoneClassifications", "int", <<v.NZONE>>, 0, "small"),
               Dt("d:regionZoneNumber", "int", <<v.NREG>>, 0, "small")>> ELSE <<>>)
    \o (IF hh.IGOM > 0 /\ hh.NRASS = 0 THEN <<Dt("d:coarseMeshRegions", "int", <<v.NCINTI, v.NCINTJ, v.NCINTK>>, 0, "small")>> ELSE <<>>)
    \o (IF hh.IGOM > 0 /\ hh.NRASS = 1 THEN <<Dt("d:fineMeshRegions", "int", <<v.NINTI, v.NINTJ, v.NINTK>>, 0, "small")>> ELSE <<>>)

(* ================================================ DIF3D ================================================= *)
Dif2D == <<"IPROBT", "ISOLNT", "IXTRAP", "MINBSZ", "NOUTMX", "IRSTRT", "LIMTIM", "NUPMAX", "IOSAVE", "IOMEG1", "INRMAX", "NUMORP", "IRETRN">>
         \o [e \in 1..10 |-> "IEDF" \o ToString(e)]
         \o <<"NOUTBQ", "I0FLUX", "NOEDIT", "NOD3ED", "ISRHED", "NSN", "NSWMAX", "NAPRX", "NAPRXZ", "NFMCMX", "NXYSWP", "NZSWP", "ISYMF",
              "NCMRZS", "ISEXTR", "NPNO", "NXTR", "IOMEG2", "IFULL", "NVFLAG", "ISIMPL", "IWNHFL", "IPERT", "IHARM">>
Dif3D == <<"EPS1", "EPS2", "EPS3", "EFFK", "FISMIN", "PSINRM", "POWIN", "SIGBAR", "EFFKQ", "EPSWP">> \o [e \in 1..20 |-> "DUM" \o ToString(e)]
DifHdr == [NUMORP : IF Wide THEN 0..3 ELSE 0..2, NCMRZS : IF Wide THEN 0..3 ELSE 0..2]
DifRecords(hh) ==
    <<Rec("FILEID", <<FS("md:HNAME", 8), FS("md:HUSE1", 8), FS("md:HUSE2", 8), FI("md:VERSION")>>),
      Rec("1D", [i \in 1..11 |-> FS("md:TITLE" \o ToString(i - 1), 8)] \o <<FI("md:MAXSIZ"), FI("md:MAXBLK"), FI("md:IPRINT")>>),
      Rec("2D", [i \in 1..Len(Dif2D) |-> FI("twoD:" \o Dif2D[i])]),
      Rec("3D", [i \in 1..Len(Dif3D) |-> FD("threeD:" \o Dif3D[i])])>>
    \o (IF hh.NUMORP # 0 THEN <<Rec("4D", [i \in 1..hh.NUMORP |-> FD("fourD:OMEGA" \o ToString(i))])>> ELSE <<>>)
    \o (IF hh.NCMRZS # 0 THEN <<Rec("5D", [i \in 1..hh.NCMRZS |-> FD("fiveD:ZCMRC" \o ToString(i))]
                                          \o [i \in 1..hh.NCMRZS |-> FI("fiveD:NZINTS" \o ToString(i))])>> ELSE <<>>)
DifCount(hh) == [FILEID |-> 1, 1D |-> 1, 2D |-> 1, 3D |-> 1, 4D |-> IF hh.NUMORP > 0 THEN 1 ELSE 0, 5D |-> IF hh.NCMRZS > 0 THEN 1 ELSE 0]
DifManifest(hh) ==
    <<Dt("md:HNAME", "string", <<>>, 8, "str"), Dt("md:HUSE1", "string", <<>>, 8, "str"), Dt("md:HUSE2", "string", <<>>, 8, "str"),
      Dt("md:VERSION", "int", <<>>, 0, "i32")>>
    \o [i \in 1..11 |-> Dt("md:TITLE" \o ToString(i - 1), "string", <<>>, 8, "str")]
    \o <<Dt("md:MAXSIZ", "int", <<>>, 0, "i32"), Dt("md:MAXBLK", "int", <<>>, 0, "i32"), Dt("md:IPRINT", "int", <<>>, 0, "i32")>>
    \o [i \in 1..Len(Dif2D) |-> IF Dif2D[i] = "NUMORP" THEN Hd("twoD:NUMORP", hh.NUMORP)
                                ELSE IF Dif2D[i] = "NCMRZS" THEN Hd("twoD:NCMRZS", hh.NCMRZS)
                                ELSE Dt("twoD:" \o Dif2D[i], "int", <<>>, 0, "i32")]
    \o [i \in 1..Len(Dif3D) |-> Dt("threeD:" \o Dif3D[i], "double", <<>>, 0, "real")]
    \o [i \in 1..hh.NUMORP |-> Dt("fourD:OMEGA" \o ToString(i), "double", <<>>, 0, "real")]
    \o [i \in 1..hh.NCMRZS |-> Dt("fiveD:ZCMRC" \o ToString(i), "double", <<>>, 0, "real")]
    \o [i \in 1..hh.NCMRZS |-> Dt("fiveD:NZINTS" \o ToString(i), "int", <<>>, 0, "i32")]

(* ================================================ NHFLUX / NAFLUX (Nodal and VARIANT) ================== *)
Nhf1D == <<<<"ndim", "int">>, <<"ngroup", "int">>, <<"ninti", "int">>, <<"nintj", "int">>, <<"nintk", "int">>, <<"iter", "int">>,
           <<"effk", "float">>, <<"power", "float">>, <<"nSurf", "int">>, <<"nMom", "int">>, <<"nintxy", "int">>, <<"npcxy", "int">>,
           <<"nscoef", "int">>, <<"itrord", "int">>, <<"iaprx", "int">>, <<"ileak", "int">>, <<"iaprxz", "int">>, <<"ileakz", "int">>,
           <<"iorder", "int">>>>
NhfVar == Ints(<<"npcbdy", "npcsym", "npcsec", "iwnhfl", "nMoms">>)
NhfKeys(variant) == IF variant THEN Nhf1D \o NhfVar \o [e \in 1..6 |-> <<"IDUM" \o Pad2(e), "int">>]
                    ELSE Nhf1D \o [e \in 1..11 |-> <<"IDUM" \o Pad2(e), "int">>]
NhfHdr == {hh \in [variant : BOOLEAN, adjoint : BOOLEAN, ng : 1..2, nz : 1..2, nxy : 1..2, nSurf : IF Wide THEN {2, 3} ELSE {2},
                   nMom : 1..2, nMoms : 0..2, nscoef : 1..2, next : {0, 2}, npcbdy : {1, 2}, npcsym : 0..1, npcsec : 0..1, iwnhfl : 0..1] :
              /\ (~hh.variant => hh.nMoms = 0 /\ hh.npcbdy = 1 /\ hh.npcsym = 0 /\ hh.npcsec = 0 /\ hh.iwnhfl = 0)
              \* VARIANT: even-parity (nMom) and odd-parity (nMoms) moment counts vary independently, nMoms = 0 included
              /\ (hh.variant /\ ~Wide => hh.ng = 2 /\ hh.npcsec = 0 /\ hh.npcbdy = 1 /\ hh.nxy = hh.nz
                                         /\ hh.nscoef = (IF hh.next = 0 THEN 1 ELSE 2))}
NhfExtPtr(hh) == IF hh.variant THEN hh.npcbdy ELSE hh.next          \* _getNumOuterSurfacesHex
NhfV(hh) == [ngroup |-> hh.ng, nintk |-> hh.nz, nSurf |-> hh.nSurf, nMom |-> hh.nMom, nintxy |-> hh.nxy,
             npcxy |-> hh.nxy * hh.nSurf + hh.next, nscoef |-> hh.nscoef,
             npcbdy |-> hh.npcbdy, npcsym |-> hh.npcsym, npcsec |-> hh.npcsec, iwnhfl |-> hh.iwnhfl, nMoms |-> hh.nMoms]
NhfDriving(hh) == IF hh.variant THEN DOMAIN NhfV(hh) ELSE (DOMAIN NhfV(hh)) \ {"npcbdy", "npcsym", "npcsec", "iwnhfl", "nMoms"}
Nhf3D(hh) == Rec("3D", <<MD("d:fluxMomentsAll", <<hh.nxy, hh.nMom>>)>>
                       \o (IF hh.variant /\ hh.nMoms > 0 THEN <<MD("d:fluxMomentsAll", <<hh.nxy, hh.nMoms>>)>> ELSE <<>>))
Nhf4D(hh) == Rec("4D", <<LD("d:partialCurrentsHexAll", hh.nxy * hh.nSurf * hh.nscoef), LD("d:partialCurrentsHex_extAll", hh.next * hh.nscoef)>>)
Nhf5D(hh) == Rec("5D", <<LD("d:partialCurrentsZAll", 2 * hh.nxy * hh.nscoef)>>)
NhfGroup(hh) == Rep(hh.nz, Nhf3D(hh)) \o (IF hh.iwnhfl # 1 THEN Rep(hh.nz, Nhf4D(hh)) \o Rep(hh.nz + 1, Nhf5D(hh)) ELSE <<>>)
NhfRecords(hh) ==
    <<Rec("FILEID", <<FS("md:label", 28)>>),
      Rec("1D", KeyFields("md:", NhfKeys(hh.variant))),
      Rec("2D", <<MI("d:incomingPointersToAllAssemblies", <<hh.nxy, hh.nSurf>>), LI("d:externalCurrentPointers", NhfExtPtr(hh)),
                  LI("d:geodstCoordMap", hh.nxy)>>
                \o (IF hh.variant THEN <<LI("d:outgoingPCSymSecPointers", hh.npcsym + hh.npcsec),
                                         LI("d:ingoingPCSymSecPointers", hh.npcsym + hh.npcsec)>> ELSE <<>>))>>
    \o Flat(Rep(hh.ng, NhfGroup(hh)))
NhfCount(hh) == [FILEID |-> 1, 1D |-> 1, 2D |-> 1, 3D |-> hh.ng * hh.nz,
                 4D |-> IF hh.iwnhfl = 1 THEN 0 ELSE hh.ng * hh.nz, 5D |-> IF hh.iwnhfl = 1 THEN 0 ELSE hh.ng * (hh.nz + 1)]
NhfManifest(hh) ==
    LET v == NhfV(hh)  ks == NhfKeys(hh.variant) IN
    <<Dt("md:label", "string", <<>>, 28, "str")>>
    \o [i \in 1..Len(ks) |-> IF ks[i][1] \in NhfDriving(hh) THEN Hd("md:" \o ks[i][1], v[ks[i][1]])
                             ELSE Dt("md:" \o ks[i][1], ks[i][2], <<>>, 0, IF ks[i][2] = "int" THEN "i32" ELSE "real")]
    \o <<Dt("d:incomingPointersToAllAssemblies", "int", <<hh.nSurf, hh.nxy>>, 0, "small"),
         Dt("d:externalCurrentPointers", "int", <<NhfExtPtr(hh)>>, 0, "small"), Dt("d:geodstCoordMap", "int", <<hh.nxy>>, 0, "small")>>
    \o (IF hh.variant THEN <<Dt("d:outgoingPCSymSecPointers", "int", <<hh.npcsym + hh.npcsec>>, 0, "small"),
                             Dt("d:ingoingPCSymSecPointers", "int", <<hh.npcsym + hh.npcsec>>, 0, "small")>> ELSE <<>>)
    \o <<Dt("d:fluxMomentsAll", "double", <<hh.nxy, hh.nz, hh.nMom + hh.nMoms, hh.ng>>, 0, "real")>>
    \o (IF hh.iwnhfl # 1 THEN <<Dt("d:partialCurrentsHexAll", "double", <<hh.nxy, hh.nz, hh.nSurf, hh.ng, hh.nscoef>>, 0, "real"),
                                Dt("d:partialCurrentsHex_extAll", "double", <<hh.next, hh.nz, hh.ng, hh.nscoef>>, 0, "real"),
                                Dt("d:partialCurrentsZAll", "double", <<hh.nxy, hh.nz + 1, 2, hh.ng, hh.nscoef>>, 0, "real")>> ELSE <<>>)

(* ================================================ LABELS ================================================ *)
LabKeys == <<"numZones", "numRegions", "numAreas", "numRegionAreaAssignments", "numHalfHeightsDirection1", "numHalfHeightsDirection2",
             "numNuclideSets", "numZoneAliases", "numTrianglesPerHex", "numHexagonalRings", "numControlRodChannels", "numControlRodBanks",
             "numAxialFineMeshBins", "maxControlRodBankTimes", "maxControlRodsPerBank", "maxControlRodsMeshes", "maxControlRodPieces",
             "maxControlRodChannels", "numBurnupDependentIsotopes", "maxBurnupDependentGroups", "maxBurnupPolynomialOrder", "modelDimensions">>
LabHdr == {hh \in [ZR : 0..2, numAreas : {0, 2}, numRAA : 0..1, nh1 : {0, 2}, nh2 : 0..1, nsets : 0..2, nalias : {0, 2}] :
              \* ZR = 0 with no areas / assignments: the label record (2D) is present and EMPTY
              hh.ZR = 0 => hh.nh2 = 0 /\ hh.nalias = 0 /\ hh.nsets # 1}
LabV(hh) == [numZones |-> hh.ZR, numRegions |-> Max2(0, 2 * hh.ZR - 1), numAreas |-> hh.numAreas, numRegionAreaAssignments |-> hh.numRAA,
             numHalfHeightsDirection1 |-> hh.nh1, numHalfHeightsDirection2 |-> hh.nh2, numNuclideSets |-> hh.nsets,
             numZoneAliases |-> hh.nalias, numControlRodChannels |-> 0, numControlRodBanks |-> 0, maxControlRodBankTimes |-> 0,
             maxControlRodsPerBank |-> 0, maxControlRodsMeshes |-> 0, maxControlRodPieces |-> 0, maxControlRodChannels |-> 0,
             numBurnupDependentIsotopes |-> 0, maxBurnupDependentGroups |-> 0, maxBurnupPolynomialOrder |-> 0]
LabRecords(hh) ==
    LET v == LabV(hh) IN
    <<Rec("FILEID", <<FS("md:hname", 8), FS("md:huse", 8), FS("md:huse2", 8), FI("md:version")>>),
      Rec("1D", [i \in 1..Len(LabKeys) |-> FI("md:" \o LabKeys[i])] \o <<LI("md:dummy", 2)>>),
      Rec("2D", <<LS("d:zoneLabels", v.numZones, 8), LS("d:regionLabels", v.numRegions, 8), LS("d:areaLabels", v.numAreas, 8),
                  LS("d:regionAreaAssignments", v.numRegionAreaAssignments, 8)>>)>>
    \o (IF hh.nh1 > 0 \/ hh.nh2 > 0 THEN <<Rec("3D", <<LF("d:halfHeightsDirection1", hh.nh1), LF("d:extrapolationDistance1", hh.nh1),
                                                         LF("d:halfHeightsDirection2", hh.nh2), LF("d:extrapolationDistance2", hh.nh2)>>)>> ELSE <<>>)
    \o (IF hh.nsets > 1 THEN <<Rec("4D", <<LS("d:nuclideSetLabels", hh.nsets, 8)>>)>> ELSE <<>>)
    \o (IF hh.nalias > 0 THEN <<Rec("5D", <<LS("d:aliasZoneLabels", hh.nalias, 8)>>)>> ELSE <<>>)
LabCount(hh) == [FILEID |-> 1, 1D |-> 1, 2D |-> 1, 3D |-> IF hh.nh1 + hh.nh2 > 0 THEN 1 ELSE 0,
                 4D |-> IF hh.nsets > 1 THEN 1 ELSE 0, 5D |-> IF hh.nalias > 0 THEN 1 ELSE 0]
LabManifest(hh) ==
    LET v == LabV(hh) IN
    <<Dt("md:hname", "string", <<>>, 8, "str"), Dt("md:huse", "string", <<>>, 8, "str"), Dt("md:huse2", "string", <<>>, 8, "str"),
      Dt("md:version", "int", <<>>, 0, "i32")>>
    \o [i \in 1..Len(LabKeys) |-> IF LabKeys[i] \in DOMAIN v THEN Hd("md:" \o LabKeys[i], v[LabKeys[i]])
                                  ELSE Dt("md:" \o LabKeys[i], "int", <<>>, 0, "i32")]
    \o <<Dt("md:dummy", "int", <<2>>, 0, "i32"),
         Dt("d:zoneLabels", "string", <<v.numZones>>, 8, "str"), Dt("d:regionLabels", "string", <<v.numRegions>>, 8, "str"),
         Dt("d:areaLabels", "string", <<v.numAreas>>, 8, "str"), Dt("d:regionAreaAssignments", "string", <<v.numRegionAreaAssignments>>, 8, "str")>>
    \o (IF hh.nh1 > 0 \/ hh.nh2 > 0 THEN <<Dt("d:halfHeightsDirection1", "float", <<hh.nh1>>, 0, "real"), Dt("d:extrapolationDistance1", "float", <<hh.nh1>>, 0, "real"),
                                            Dt("d:halfHeightsDirection2", "float", <<hh.nh2>>, 0, "real"), Dt("d:extrapolationDistance2", "float", <<hh.nh2>>, 0, "real")>> ELSE <<>>)
    \o (IF hh.nsets > 1 THEN <<Dt("d:nuclideSetLabels", "string", <<hh.nsets>>, 8, "str")>> ELSE <<>>)
    \o (IF hh.nalias > 0 THEN <<Dt("d:aliasZoneLabels", "string", <<hh.nalias>>, 8, "str")>> ELSE <<>>)

(* ================================================ PWDINT / RTFLUX / ATFLUX / RZFLUX / FIXSRC ============ *)
PwdKeys == <<<<"TIME", "float">>, <<"POWER", "float">>, <<"VOL", "float">>, <<"NINTI", "int">>, <<"NINTJ", "int">>, <<"NINTK", "int">>,
             <<"NCY", "int">>, <<"NBLOK", "int">>>>
PwdHdr == {[NINTI |-> i, NINTJ |-> jb[1], NINTK |-> k, NBLOK |-> jb[2]] : i \in 1..2, jb \in JBlk, k \in 1..2}
PwdRecords(hh) ==
    <<Rec("FILEID", <<FS("md:hname", 8), FS("md:huse", 6), FS("md:huse2", 6), FI("md:version"), FI("md:mult")>>),
      Rec("1D", KeyFields("md:", PwdKeys))>>
    \o Flat([k \in 1..hh.NINTK |-> [m \in 1..hh.NBLOK |-> Rec("2D", <<MF("d:powerDensity", <<BlkN(m, hh.NINTJ, hh.NBLOK), hh.NINTI>>)>>)]])
PwdCount(hh) == [FILEID |-> 1, 1D |-> 1, 2D |-> hh.NINTK * hh.NBLOK]
PwdManifest(hh) ==
    <<Dt("md:hname", "string", <<>>, 8, "str"), Dt("md:huse", "string", <<>>, 6, "str"), Dt("md:huse2", "string", <<>>, 6, "str"),
      Dt("md:version", "int", <<>>, 0, "i32"), Dt("md:mult", "int", <<>>, 0, "i32")>>
    \o [i \in 1..Len(PwdKeys) |-> IF PwdKeys[i][1] \in DOMAIN hh THEN Hd("md:" \o PwdKeys[i][1], hh[PwdKeys[i][1]])
                                  ELSE Dt("md:" \o PwdKeys[i][1], PwdKeys[i][2], <<>>, 0, IF PwdKeys[i][2] = "int" THEN "i32" ELSE "real")]
    \o <<Dt("d:powerDensity", "float", <<hh.NINTI, hh.NINTJ, hh.NINTK>>, 0, "real")>>

RtfKeys == <<<<"NDIM", "int">>, <<"NGROUP", "int">>, <<"NINTI", "int">>, <<"NINTJ", "int">>, <<"NINTK", "int">>, <<"ITER", "int">>,
             <<"EFFK", "float">>, <<"POWER", "float">>, <<"NBLOK", "int">>>>
RtfHdr == {hh \in {[adjoint |-> a, NDIM |-> d, NGROUP |-> g, NINTI |-> i, NINTJ |-> jb[1], NINTK |-> k, NBLOK |-> jb[2]] :
                     a \in BOOLEAN, d \in 2..3, g \in 1..2, i \in 1..2, jb \in JBlk, k \in 1..2} : hh.NDIM = 2 => hh.NINTK = 1}
RtfRecords(hh) ==
    <<Rec("FILEID", <<FS("md:label", 28)>>), Rec("1D", KeyFields("md:", RtfKeys))>>
    \o Flat(Flat([g \in 1..hh.NGROUP |-> [k \in 1..hh.NINTK |-> [m \in 1..hh.NBLOK |->
                    Rec("3D", <<MD("d:groupFluxes", <<BlkN(m, hh.NINTJ, hh.NBLOK), hh.NINTI>>)>>)]]]))
RtfCount(hh) == [FILEID |-> 1, 1D |-> 1, 3D |-> hh.NGROUP * hh.NINTK * hh.NBLOK]
RtfManifest(hh) ==
    <<Dt("md:label", "string", <<>>, 28, "str")>>
    \o [i \in 1..Len(RtfKeys) |-> IF RtfKeys[i][1] \in DOMAIN hh THEN Hd("md:" \o RtfKeys[i][1], hh[RtfKeys[i][1]])
                                  ELSE Dt("md:" \o RtfKeys[i][1], RtfKeys[i][2], <<>>, 0, IF RtfKeys[i][2] = "int" THEN "i32" ELSE "real")]
    \o <<Dt("d:groupFluxes", "double", <<hh.NINTI, hh.NINTJ, hh.NINTK, hh.NGROUP>>, 0, "real")>>

RzfFloats == <<"TIME", "POWER", "VOL", "EFFK", "EIVS", "DKDS", "TNL", "TNA", "TNSL", "TNBL", "TNBAL", "TNCRA", "X1", "X2", "X3">>
RzfKeys == [i \in 1..Len(RzfFloats) |-> <<RzfFloats[i], "float">>] \o Ints(<<"NBLOK", "ITPS", "NZONE", "NGROUP", "NCY">>)
RzfHdr == {[NGROUP |-> g, NZONE |-> jb[1], NBLOK |-> jb[2]] : g \in 1..3, jb \in JBlk}
RzfRecords(hh) ==
    <<Rec("FILEID", <<FS("md:label", 28)>>), Rec("1D", KeyFields("md:", RzfKeys))>>
    \o [m \in 1..hh.NBLOK |-> Rec("2D", <<MF("d:groupFluxes", <<BlkN(m, hh.NZONE, hh.NBLOK), hh.NGROUP>>)>>)]
RzfCount(hh) == [FILEID |-> 1, 1D |-> 1, 2D |-> hh.NBLOK]
RzfManifest(hh) ==
    <<Dt("md:label", "string", <<>>, 28, "str")>>
    \o [i \in 1..Len(RzfKeys) |-> IF RzfKeys[i][1] \in DOMAIN hh THEN Hd("md:" \o RzfKeys[i][1], hh[RzfKeys[i][1]])
                                  ELSE Dt("md:" \o RzfKeys[i][1], RzfKeys[i][2], <<>>, 0, IF RzfKeys[i][2] = "int" THEN "i32" ELSE "real")]
    \o <<Dt("d:groupFluxes", "float", <<hh.NGROUP, hh.NZONE>>, 0, "real")>>

\* FIXSRC: the container is the bare 4-D array; label, file id and the 13 control words are written from constants
FixKeys == <<"itype", "ndim", "ngroup", "ninti", "nintj", "nintk", "idists", "ndcomp", "nscomp", "nedgi", "nedgj", "nedjk", "nblok">>
FixHdr == [ni : 1..2, nj : 1..2, nz : 1..2, ng : 1..2]
FixRecords(hh) ==
    <<Rec("FILEID", <<FS("const:label", 24), FI("const:fileId")>>), Rec("1D", [i \in 1..Len(FixKeys) |-> FI("const:" \o FixKeys[i])])>>
    \o Rep(hh.ng * hh.nz, Rec("3D", <<LD("d:fixSrc", hh.nj * hh.ni)>>))
FixCount(hh) == [FILEID |-> 1, 1D |-> 1, 3D |-> hh.ng * hh.nz]
FixManifest(hh) == <<Dt("d:fixSrc", "double", <<hh.ni, hh.nj, hh.nz, hh.ng>>, 0, "real")>>
FixConstBytes == 24 + 4 + 13 * 4

(* ================================================ ISOTXS / GAMISO ======================================= *)
Join(s) == IF s = <<>> THEN "" ELSE FoldLeft(LAMBDA a, x : a \o "," \o ToString(x), ToString(s[1]), Tail(s))
Lit(s)  == "=" \o Join(s)                         \* literal values (file order) the generator must use for an entry
\* scatter band of block n at (1-based) sink group G:  JBAND = stored source groups, JJ = position of the in-group term
IsoJJ(band, G, ng)    == IF band = "up" /\ G < ng THEN 2 ELSE 1
IsoJBand(band, G, ng) == CASE band = "diag"  -> 1
                           [] band = "lower" -> G
                           [] band = "up"    -> IsoJJ(band, G, ng) + (IF G > 1 THEN 1 ELSE 0)
\* stored columns (1-based source groups) of row G:  G + JJ - JBAND .. G + JJ - 1   (isotxs.py _rw7DRecord: jdown..jup-1)
IsoCols(band, G, ng)  == (G + IsoJJ(band, G, ng) - IsoJBand(band, G, ng))..(G + IsoJJ(band, G, ng) - 1)
IsoVariants == [A |-> [opt |-> {}, ltrn |-> 1, ltot |-> 1, strpd |-> 0, band |-> "diag"],
                B |-> [opt |-> {"nalph", "np", "n2n", "nd", "nt"}, ltrn |-> 2, ltot |-> 2, strpd |-> 1, band |-> "lower"],
                C |-> [opt |-> {"n2n"}, ltrn |-> 1, ltot |-> 2, strpd |-> 0, band |-> "up"]]
IsoOrds(nsb) == IF nsb = 1 THEN {<<1>>, <<0>>} ELSE {<<1, 1>>, <<1, 0>>, <<0, 1>>}
IsoHdrG(gam) == {hh \in [gam : {gam}, ng : IF Wide THEN 1..3 ELSE {1, 3}, nNuc : 1..2, fw : 0..1, nsb : 1..2, ords : IsoOrds(1) \cup IsoOrds(2),
                         nsblok : 1..2, fis : 0..1, chi : 0..1, var : {"A", "B", "C"}] :
                    /\ hh.ords \in IsoOrds(hh.nsb)
                    /\ (hh.fis = 0 => hh.chi = 0)                       \* chi without fission data does not occur
                    /\ (hh.fis = 1 /\ hh.chi = 0 => hh.fw = 1)          \* a fissile nuclide needs its own or the file-wide chi
                    /\ (gam /\ ~Wide => hh.ng = 3)}
IsoHdr == IsoHdrG(FALSE)
GamHdr == IsoHdrG(TRUE)
IsoScatFlags == <<100, 200>>      \* block types: elastic, inelastic
IsoNuc(hh, i) == IF i = 1 THEN [fis |-> hh.fis, chi |-> hh.chi, ords |-> hh.ords] @@ IsoVariants[hh.var]
                 ELSE [fis |-> 0, chi |-> 0, ords |-> Rep(hh.nsb, 1)] @@ IsoVariants["A"]
IsoOptNames == <<"nalph", "np", "n2n", "nd", "nt">>
Iso4DStr == <<"nuclideId", "libName", "isoIdent">>
Iso4DFlt == <<"amass", "efiss", "ecapt", "temp", "sigPot", "adens">>
Iso4DInt == <<"classif", "chiFlag", "fisFlag", "nalph", "np", "n2n", "nd", "nt", "ltot", "ltrn", "strpd">>
Iso4DVal(nu, key) == CASE key = "chiFlag" -> nu.chi [] key = "fisFlag" -> nu.fis [] key = "ltot" -> nu.ltot [] key = "ltrn" -> nu.ltrn
                       [] key = "strpd" -> nu.strpd [] OTHER -> IF key \in nu.opt THEN 1 ELSE 0
IsoP(i) == "nuc:" \o ToString(i) \o ":"
Iso4D(hh, i) ==
    LET P == IsoP(i) IN
    Rec("4D", [j \in 1..3 |-> FS(P \o "md:" \o Iso4DStr[j], 8)] \o [j \in 1..6 |-> FF(P \o "md:" \o Iso4DFlt[j])]
              \o [j \in 1..11 |-> FI(P \o "md:" \o Iso4DInt[j])]
              \o <<LI(P \o "md:scatFlag", hh.nsb), LI(P \o "md:ords", hh.nsb), LI(P \o "md:jband", hh.nsb * hh.ng), LI(P \o "md:jj", hh.nsb * hh.ng)>>)
Iso5D(hh, i) ==
    LET P == IsoP(i) \o "x:"  nu == IsoNuc(hh, i) IN
    Rec("5D", <<MF(P \o "transport", <<nu.ltrn, hh.ng>>), MF(P \o "total", <<nu.ltot, hh.ng>>), MF(P \o "nGamma", <<hh.ng>>)>>
              \o (IF nu.fis > 0 THEN <<MF(P \o "fission", <<hh.ng>>), MF(P \o "neutronsPerFission", <<hh.ng>>)>> ELSE <<>>)
              \o (IF nu.chi = 1 THEN <<MF(P \o "chi", <<hh.ng>>)>> ELSE <<>>)
              \o Flat([j \in 1..5 |-> IF IsoOptNames[j] \in nu.opt THEN <<MF(P \o IsoOptNames[j], <<hh.ng>>)>> ELSE <<>>])
              \o (IF nu.strpd > 0 THEN <<MF(P \o "strpd", <<nu.strpd, hh.ng>>)>> ELSE <<>>))
Iso7DLen(hh, nu, m) == SumSeq([G \in 1..hh.ng |-> IF G >= BlkLo(m, hh.ng, hh.nsblok) /\ G <= BlkHi(m, hh.ng, hh.nsblok)
                                                   THEN IsoJBand(nu.band, G, hh.ng) ELSE 0])
Iso7D(hh, i) ==
    LET nu == IsoNuc(hh, i) IN
    Flat([n \in 1..hh.nsb |-> IF nu.ords[n] > 0
             THEN [m \in 1..hh.nsblok |-> Rec("7D", <<LF(IsoP(i) \o "scat:" \o ToString(n - 1), nu.ords[n] * Iso7DLen(hh, nu, m))>>)]
             ELSE <<>>])
IsoRecords(hh) ==
    <<Rec("FILEID", <<FS("md:label", 24), FI("md:fileId")>>),
      Rec("1D", <<FI("md:numGroups"), FI("derived:numNucs"), FI("md:maxUpScatterGroups"), FI("md:maxDownScatterGroups"),
                  FI("md:maxScatteringOrder"), FI("md:fileWideChiFlag"), FI("md:maxScatteringBlocks"), FI("md:subblockingControl")>>),
      Rec("2D", <<FS("md:libraryLabel", 96), LS("derived:nucNames", hh.nNuc, 8)>>
                \o (IF hh.fw = 1 THEN <<MF("md:chi", <<hh.ng>>)>> ELSE <<>>)
                \o (IF hh.gam THEN <<LF("md:gammaVelocity..NOT", hh.ng), MF("lib:gammaEnergyUpperBounds", <<hh.ng>>)>>
                    ELSE <<MF("lib:neutronVelocity", <<hh.ng>>), MF("lib:neutronEnergyUpperBounds", <<hh.ng>>)>>)
                \o <<FF("md:minimumNeutronEnergy"), LI("derived:loca", hh.nNuc)>>)>>
    \o Flat([i \in 1..hh.nNuc |-> <<Iso4D(hh, i), Iso5D(hh, i)>> \o Iso7D(hh, i)])
IsoNum7D(hh, i) == SumSeq([n \in 1..hh.nsb |-> IF IsoNuc(hh, i).ords[n] > 0 THEN hh.nsblok ELSE 0])
IsoCount(hh) == [FILEID |-> 1, 1D |-> 1, 2D |-> 1, 4D |-> hh.nNuc, 5D |-> hh.nNuc, 7D |-> SumSeq([i \in 1..hh.nNuc |-> IsoNum7D(hh, i)])]
\* LOCA(i): records to skip to reach nuclide i (CCCC-IV 2D record) -- reported, not part of the statement
IsoLoca(hh) == [i \in 1..hh.nNuc |-> SumSeq([j \in 1..(i - 1) |-> 2 + IsoNum7D(hh, j)])]
IsoNz(hh, nu) == Flat([G \in 1..hh.ng |-> [c \in 1..IsoJBand(nu.band, G, hh.ng) |->
                        <<G - 1, G + IsoJJ(nu.band, G, hh.ng) - IsoJBand(nu.band, G, hh.ng) + c - 2>>]])     \* 0-based <<row, col>>
NzLit(nz) == "=" \o (IF nz = <<>> THEN "" ELSE FoldLeft(LAMBDA a, x : a \o ";" \o ToString(x[1]) \o "," \o ToString(x[2]),
                                                       ToString(nz[1][1]) \o "," \o ToString(nz[1][2]), Tail(nz)))
IsoManifest(hh) ==
    <<Dt("md:label", "string", <<>>, 24, "=ISOTXS"), Dt("md:fileId", "int", <<>>, 0, "i32"), Hd("md:numGroups", hh.ng),
      Dt("md:maxUpScatterGroups", "int", <<>>, 0, "i32"), Dt("md:maxDownScatterGroups", "int", <<>>, 0, "i32"),
      Dt("md:maxScatteringOrder", "int", <<>>, 0, "i32"), Hd("md:fileWideChiFlag", hh.fw), Hd("md:maxScatteringBlocks", hh.nsb),
      Hd("md:subblockingControl", hh.nsblok), Dt("md:libraryLabel", "string", <<>>, 96, "str")>>
    \o (IF hh.fw = 1 THEN <<Dt("md:chi", "float", <<hh.ng>>, 0, "real")>> ELSE <<>>)
    \o (IF hh.gam THEN <<Dt("md:gammaVelocity..NOT", "float", <<hh.ng>>, 0, "real"), Dt("lib:gammaEnergyUpperBounds", "float", <<hh.ng>>, 0, "real")>>
        ELSE <<Dt("lib:neutronVelocity", "float", <<hh.ng>>, 0, "real"), Dt("lib:neutronEnergyUpperBounds", "float", <<hh.ng>>, 0, "real")>>)
    \o <<Dt("md:minimumNeutronEnergy", "float", <<>>, 0, "real")>>
    \o Flat([i \in 1..hh.nNuc |->
        LET P == IsoP(i)  nu == IsoNuc(hh, i) IN
        <<Dt(P \o "md:nuclideId", "string", <<>>, 8, "nucid"), Dt(P \o "md:libName", "string", <<>>, 8, "str"), Dt(P \o "md:isoIdent", "string", <<>>, 8, "str")>>
        \o [j \in 1..6 |-> Dt(P \o "md:" \o Iso4DFlt[j], "float", <<>>, 0, "real")]
        \o [j \in 1..11 |-> IF Iso4DInt[j] = "classif" THEN Dt(P \o "md:classif", "int", <<>>, 0, "i32") ELSE Hd(P \o "md:" \o Iso4DInt[j], Iso4DVal(nu, Iso4DInt[j]))]
        \o <<Dt(P \o "md:scatFlag", "int", <<hh.nsb>>, 0, Lit(SubSeq(IsoScatFlags, 1, hh.nsb))), Dt(P \o "md:ords", "int", <<hh.nsb>>, 0, Lit(nu.ords)),
             Dt(P \o "md:jband", "int", <<hh.nsb, hh.ng>>, 0, Lit(Flat(Rep(hh.nsb, [G \in 1..hh.ng |-> IsoJBand(nu.band, G, hh.ng)])))),
             Dt(P \o "md:jj", "int", <<hh.nsb, hh.ng>>, 0, Lit(Flat(Rep(hh.nsb, [G \in 1..hh.ng |-> IsoJJ(nu.band, G, hh.ng)])))),
             Dt(P \o "x:transport", "float", <<hh.ng, nu.ltrn>>, 0, "real"), Dt(P \o "x:total", "float", <<hh.ng, nu.ltot>>, 0, "real"),
             Dt(P \o "x:nGamma", "float", <<hh.ng>>, 0, "real")>>
        \o (IF nu.fis > 0 THEN <<Dt(P \o "x:fission", "float", <<hh.ng>>, 0, "real"), Dt(P \o "x:neutronsPerFission", "float", <<hh.ng>>, 0, "real")>> ELSE <<>>)
        \o (IF nu.chi = 1 THEN <<Dt(P \o "x:chi", "float", <<hh.ng>>, 0, "real")>> ELSE <<>>)
        \o Flat([j \in 1..5 |-> IF IsoOptNames[j] \in nu.opt THEN <<Dt(P \o "x:" \o IsoOptNames[j], "float", <<hh.ng>>, 0, "real")>> ELSE <<>>])
        \o (IF nu.strpd > 0 THEN <<Dt(P \o "x:strpd", "float", <<hh.ng, nu.strpd>>, 0, "real")>> ELSE <<>>)
        \o Flat([n \in 1..hh.nsb |-> IF nu.ords[n] > 0 THEN <<Sp(P \o "scat:" \o ToString(n - 1), "sparse", <<hh.ng, hh.ng>>, IsoNz(hh, nu), NzLit(IsoNz(hh, nu)))>> ELSE <<>>])])
IsoDerivedBytes(hh) == 4 + 8 * hh.nNuc + 4 * hh.nNuc         \* numNucs, nuclide names, LOCA

(* ================================================ PMATRX ================================================ *)
\* xo: the file-wide maximum order (file id record) exceeds the largest nuclide order by xo; each nuclide announces its
\* own order in its heading record, and only that many production-matrix records follow (nuclide 2 has order 1, so a
\* nuclide-1 order of 0 is the DUMMY-nuclide situation: order below the file-wide order)
PmxHdr == {hh \in [nng : 1..2, ngg : 1..2, dose : BOOLEAN, nNuc : 1..2, nhd : BOOLEAN, gh : BOOLEAN, nact : 0..1, mso : 0..3, xo : 0..1] :
             Wide \/ (hh.nng # hh.ngg /\ hh.dose = hh.gh)}
PmxNuc(hh, i) == IF i = 1 THEN [nhd |-> hh.nhd, gh |-> hh.gh, nact |-> hh.nact, mso |-> hh.mso] ELSE [nhd |-> FALSE, gh |-> TRUE, nact |-> 0, mso |-> 1]
PmxFileOrder(hh) == Max2(hh.mso, IF hh.nNuc = 2 THEN 1 ELSE 0) + hh.xo
PmxIdInts == <<"maxScatteringOrder", "maxNumberOfCompositions", "maxMaterials", "maxNumberOfRegions", "maxNumberOfCollapsingRegions", "_dummy1", "_dummy2">>
B2I(b) == IF b THEN 1 ELSE 0
PmxNucRecords(hh, i) ==
    LET P == IsoP(i)  nu == PmxNuc(hh, i) IN
    <<Rec("NUCHEAD", <<FB(P \o "md:hasNeutronHeatingAndDamage"), FI(P \o "md:maxScatteringOrder"), FB(P \o "md:hasGammaHeating"),
                       FI(P \o "md:numberNeutronXS"), FI(P \o "md:collapsingRegionNumber")>>)>>
    \o (IF nu.nhd THEN <<Rec("NHEAT", <<MF(P \o "a:neutronHeating", <<hh.nng>>), MF(P \o "a:neutronDamage", <<hh.nng>>)>>)>> ELSE <<>>)
    \o [x \in 1..nu.nact |-> Rec("ACTXS", <<LF(P \o "md:activationXS", hh.nng), FI(P \o "md:activationMT"), FI(P \o "md:activationMTU")>>)]
    \o (IF nu.gh THEN <<Rec("GHEAT", <<MF(P \o "a:gammaHeating", <<hh.ngg>>)>>)>> ELSE <<>>)
    \o [l \in 1..nu.mso |-> Rec("PROD", <<MF(P \o "prod:" \o ToString(l), <<hh.nng, hh.ngg>>)>>)]
PmxRecords(hh) ==
    <<Rec("FILEID", <<FI("md:numberCollapsingSpatialRegions"), FI("md:numGammaGroups"), FI("md:numNeutronGroups"), FB("md:hasInPlateData"),
                      FI("derived:numNucs"), FB("md:hasDoseConversionFactor")>> \o [j \in 1..7 |-> FI("md:" \o PmxIdInts[j])]),
      Rec("GROUPS", <<MF("lib:neutronEnergyUpperBounds", <<hh.nng>>), FF("md:minimumNeutronEnergy"),
                      MF("lib:gammaEnergyUpperBounds", <<hh.ngg>>), FF("md:minimumGammaEnergy")>>)>>
    \o (IF hh.dose THEN <<Rec("DOSE", <<LF("lib:neutronDoseConversionFactors", hh.nng), LF("lib:gammaDoseConversionFactors", hh.ngg)>>)>> ELSE <<>>)
    \o <<Rec("ISOS", <<LS("derived:nucNames", hh.nNuc, 8), LI("derived:thousand", hh.nNuc)>>)>>
    \o Flat([i \in 1..hh.nNuc |-> PmxNucRecords(hh, i)])
PmxSum(hh, F(_)) == SumSeq([i \in 1..hh.nNuc |-> F(PmxNuc(hh, i))])
PmxCount(hh) == [FILEID |-> 1, GROUPS |-> 1, DOSE |-> B2I(hh.dose), ISOS |-> 1, NUCHEAD |-> hh.nNuc,
                 NHEAT |-> PmxSum(hh, LAMBDA nu : B2I(nu.nhd)), ACTXS |-> PmxSum(hh, LAMBDA nu : nu.nact),
                 GHEAT |-> PmxSum(hh, LAMBDA nu : B2I(nu.gh)), PROD |-> PmxSum(hh, LAMBDA nu : nu.mso)]
PmxManifest(hh) ==
    <<Dt("md:numberCollapsingSpatialRegions", "int", <<>>, 0, "i32"), Hd("md:numGammaGroups", hh.ngg), Hd("md:numNeutronGroups", hh.nng),
      Hb("md:hasInPlateData", 0), Hb("md:hasDoseConversionFactor", B2I(hh.dose))>>
    \o [j \in 1..7 |-> IF PmxIdInts[j] = "maxScatteringOrder" THEN Hd("md:maxScatteringOrder", PmxFileOrder(hh))
                        ELSE Dt("md:" \o PmxIdInts[j], "int", <<>>, 0, "i32")]
    \o <<Dt("lib:neutronEnergyUpperBounds", "float", <<hh.nng>>, 0, "real"), Dt("md:minimumNeutronEnergy", "float", <<>>, 0, "real"),
         Dt("lib:gammaEnergyUpperBounds", "float", <<hh.ngg>>, 0, "real"), Dt("md:minimumGammaEnergy", "float", <<>>, 0, "real")>>
    \o (IF hh.dose THEN <<Dt("lib:neutronDoseConversionFactors", "float", <<hh.nng>>, 0, "real"), Dt("lib:gammaDoseConversionFactors", "float", <<hh.ngg>>, 0, "real")>> ELSE <<>>)
    \o Flat([i \in 1..hh.nNuc |->
        LET P == IsoP(i)  nu == PmxNuc(hh, i) IN
        <<Hb(P \o "md:hasNeutronHeatingAndDamage", B2I(nu.nhd)), Hd(P \o "md:maxScatteringOrder", nu.mso), Hb(P \o "md:hasGammaHeating", B2I(nu.gh)),
          Hd(P \o "md:numberNeutronXS", nu.nact), Dt(P \o "md:collapsingRegionNumber", "int", <<>>, 0, "i32")>>
        \o (IF nu.nhd THEN <<Dt(P \o "a:neutronHeating", "float", <<hh.nng>>, 0, "real"), Dt(P \o "a:neutronDamage", "float", <<hh.nng>>, 0, "real")>> ELSE <<>>)
        \o (IF nu.nact > 0 THEN <<Dt(P \o "md:activationXS", "float", <<nu.nact, hh.nng>>, 0, "real"), Dt(P \o "md:activationMT", "int", <<nu.nact>>, 0, "i32"),
                                  Dt(P \o "md:activationMTU", "int", <<nu.nact>>, 0, "i32")>> ELSE <<>>)
        \o (IF nu.gh THEN <<Dt(P \o "a:gammaHeating", "float", <<hh.ngg>>, 0, "real")>> ELSE <<>>)
        \o [l \in 1..nu.mso |-> Dt(P \o "prod:" \o ToString(l), "float", <<hh.ngg, hh.nng>>, 0, "real")]])
PmxDerivedBytes(hh) == 4 + 8 * hh.nNuc + 4 * hh.nNuc

(* ================================================ DLAYXS ================================================ *)
DlyHdr == [G : 1..2, nNuc : 1..2, NF : {1, 3}, kf : 1..2, L : {0, 8, 32}, nd2 : {0, 2}]
DlyKfam(hh) == IF hh.nNuc = 1 THEN <<hh.kf>> ELSE <<hh.kf, 1>>
DlyRecords(hh) ==
    <<Rec("FILEID", <<FS("md:label", hh.L)>>),
      Rec("1D", <<FI("md:numEnergyGroups"), FI("derived:numNucs"), FI("md:numFamilies"), FI("md:dummy")>>),
      Rec("2D", <<LS("md:nuclideIDs", hh.nNuc, 8), MF("md:precursorDecayConstants", <<hh.NF>>), MF("md:delayEmissionSpectrum", <<hh.NF, hh.G>>),
                  MF("lib:neutronEnergyUpperBounds", <<hh.G>>), FF("md:minEnergy"), LI("md:nkfam", hh.nNuc), LI("md:recordsToSkip", hh.nNuc),
                  LS("md:dummy2", hh.nd2, 4)>>)>>
    \o [i \in 1..hh.nNuc |-> Rec("3D", <<MF(IsoP(i) \o "dnpf", <<DlyKfam(hh)[i], hh.G>>), LI(IsoP(i) \o "family", 6)>>)]
DlyCount(hh) == [FILEID |-> 1, 1D |-> 1, 2D |-> 1, 3D |-> hh.nNuc]
DlyManifest(hh) ==
    <<Dt("md:label", "string", <<>>, hh.L, "strfull"), Hd("md:numEnergyGroups", hh.G), Hd("md:numFamilies", hh.NF), Dt("md:dummy", "int", <<>>, 0, "i32"),
      Dt("md:nuclideIDs", "string", <<hh.nNuc>>, 8, "mcc3id"), Dt("md:precursorDecayConstants", "float", <<hh.NF>>, 0, "real"),
      Dt("md:delayEmissionSpectrum", "float", <<hh.G, hh.NF>>, 0, "real"), Dt("lib:neutronEnergyUpperBounds", "float", <<hh.G>>, 0, "real"),
      Dt("md:minEnergy", "float", <<>>, 0, "real"), Dt("md:nkfam", "int", <<hh.nNuc>>, 0, Lit(DlyKfam(hh))),
      Dt("md:recordsToSkip", "int", <<hh.nNuc>>, 0, "small"), Dt("md:dummy2", "string", <<hh.nd2>>, 4, "strfull")>>
    \o Flat([i \in 1..hh.nNuc |-> <<Dt(IsoP(i) \o "dnpf", "float", <<DlyKfam(hh)[i], hh.G>>, 0, "real"),
                                    Dt(IsoP(i) \o "family", "int", <<6>>, 0, Lit([k \in 1..6 |-> ((k - 1) % hh.NF) + 1]))>>])
DlyDerivedBytes(hh) == 4
\* the reader has no container to take lengths from; it derives them from the frame (dlayxs.py _rwFileID, _rwSpectra):
\*   label width = byte count of the first record;  dummy2 entries = (bytes of the 2D record not yet consumed) / 4
DlyReaderLabelWidth(hh) == RecBytes(DlyRecords(hh)[1].fs)
DlyReaderDummy2(hh) == LET fs == DlyRecords(hh)[3].fs IN (RecBytes(fs) - RecBytes(SubSeq(fs, 1, Len(fs) - 1))) \div 4

(* ================================================ COMPXS ================================================ *)
CpxHdr == {hh \in [nComp : 1..2, ng : IF Wide THEN 1..3 ELSE {1, 3}, fw : 0..1, ndel : {0, 2}, mso : 0..1, chi : 0..2, npf : 0..1, lay : {"diag", "down", "up"}] :
              /\ (hh.npf > 0 => hh.ndel > 0)
              /\ (~Wide /\ hh.ng = 1 => hh.lay = "diag")}
CpxReg(hh, i) == IF i = 1 THEN [chi |-> hh.chi, npf |-> hh.npf, lay |-> hh.lay] ELSE [chi |-> 0, npf |-> 0, lay |-> "diag"]
CpxUp(lay, G, ng)   == IF lay = "up" /\ G < ng THEN 1 ELSE 0
CpxDown(lay, G, ng) == CASE lay = "diag" -> 0 [] lay = "down" -> G - 1 [] lay = "up" -> IF G > 1 THEN 1 ELSE 0
CpxBand(lay, G, ng) == CpxUp(lay, G, ng) + 1 + CpxDown(lay, G, ng)
Cpx1DInts == <<"numComps", "numGroups", "fileWideChiFlag", "numFissComps", "maxUpScatterGroups", "maxDownScatterGroups", "numDelayedFam",
               "maxScatteringOrder", "reservedFlag1", "reservedFlag2">>
CpxDiff == <<"powerConvMult", "d1Multiplier", "d1Additive", "d2Multiplier", "d2Additive", "d3Multiplier", "d3Additive">>
CpxP(i) == "reg:" \o ToString(i) \o ":"
Cpx4D(hh, i, G) ==
    LET P == CpxP(i)  rg == CpxReg(hh, i)  bw == CpxBand(rg.lay, G, hh.ng) IN
    Rec("4D", <<FD(P \o "x:absorption"), FD(P \o "x:total"), FD(P \o "x:removal"), FD(P \o "x:transport")>>
              \o (IF rg.chi > 0 THEN <<FD(P \o "x:fission"), FD(P \o "x:nuSigF"), LD(P \o "x:chi", rg.chi)>> ELSE <<>>)
              \o <<LD(P \o "scat:0", bw)>>
              \o [j \in 1..7 |-> FD(P \o "md:" \o CpxDiff[j])]
              \o (IF rg.npf > 0 THEN <<LI(P \o "md:numPrecursorsProduced", rg.npf)>> ELSE <<>>)
              \o <<FD(P \o "x:n2n")>>
              \o [l \in 1..hh.mso |-> LD(P \o "scat:" \o ToString(l), bw)])
CpxRecords(hh) ==
    <<Rec("1D", [j \in 1..10 |-> FI("md:" \o Cpx1DInts[j])]),
      Rec("2D", (IF hh.fw > 0 THEN <<MD("md:fileWideChi", <<hh.fw, hh.ng>>)>> ELSE <<>>)
                \o <<LD("lib:neutronVelocity", hh.ng), LD("lib:neutronEnergyUpperBounds", hh.ng), FD("md:minimumNeutronEnergy")>>
                \o (IF hh.ndel > 0 THEN <<MD("md:delayedChi", <<hh.ng, hh.ndel>>), LD("md:delayedDecayConstant", hh.ndel)>> ELSE <<>>)
                \o <<LI("md:compFamiliesWithPrecursors", hh.nComp)>>)>>
    \o Flat([i \in 1..hh.nComp |->
         <<Rec("3D", <<FI(CpxP(i) \o "md:chiFlag"), LI(CpxP(i) \o "md:numUpScatterGroups", hh.ng), LI(CpxP(i) \o "md:numDownScatterGroups", hh.ng)>>
                     \o (IF CpxReg(hh, i).npf > 0 THEN <<LI(CpxP(i) \o "md:numFamI", CpxReg(hh, i).npf)>> ELSE <<>>))>>
         \o [G \in 1..hh.ng |-> Cpx4D(hh, i, G)]])
    \o <<Rec("5D", <<LD("md:fissionWattSeconds", hh.nComp), LD("md:captureWattSeconds", hh.nComp)>>)>>
CpxCount(hh) == [1D |-> 1, 2D |-> 1, 3D |-> hh.nComp, 4D |-> hh.nComp * hh.ng, 5D |-> 1]
CpxNz(lay, ng) == Flat([G \in 1..ng |-> [r \in 1..CpxBand(lay, G, ng) |-> <<G - 1 - CpxDown(lay, G, ng) + r - 1, G - 1>>]])   \* 0-based <<row, col>>
CpxManifest(hh) ==
    [j \in 1..10 |-> CASE Cpx1DInts[j] = "numComps" -> Hd("md:numComps", hh.nComp) [] Cpx1DInts[j] = "numGroups" -> Hd("md:numGroups", hh.ng)
                       [] Cpx1DInts[j] = "fileWideChiFlag" -> Hd("md:fileWideChiFlag", hh.fw) [] Cpx1DInts[j] = "numDelayedFam" -> Hd("md:numDelayedFam", hh.ndel)
                       [] Cpx1DInts[j] = "maxScatteringOrder" -> Hd("md:maxScatteringOrder", hh.mso)
                       [] OTHER -> Dt("md:" \o Cpx1DInts[j], "int", <<>>, 0, "i32")]
    \o (IF hh.fw > 0 THEN <<Dt("md:fileWideChi", "double", <<hh.ng, hh.fw>>, 0, "real")>> ELSE <<>>)
    \o <<Dt("lib:neutronVelocity", "double", <<hh.ng>>, 0, "real"), Dt("lib:neutronEnergyUpperBounds", "double", <<hh.ng>>, 0, "real"),
         Dt("md:minimumNeutronEnergy", "double", <<>>, 0, "real")>>
    \o (IF hh.ndel > 0 THEN <<Dt("md:delayedChi", "double", <<hh.ndel, hh.ng>>, 0, "real"), Dt("md:delayedDecayConstant", "double", <<hh.ndel>>, 0, "real")>> ELSE <<>>)
    \o <<Dt("md:compFamiliesWithPrecursors", "int", <<hh.nComp>>, 0, Lit([i \in 1..hh.nComp |-> CpxReg(hh, i).npf]))>>
    \o Flat([i \in 1..hh.nComp |->
        LET P == CpxP(i)  rg == CpxReg(hh, i) IN
        <<Hd(P \o "md:chiFlag", rg.chi),
          Dt(P \o "md:numUpScatterGroups", "int", <<hh.ng>>, 0, Lit([G \in 1..hh.ng |-> CpxUp(rg.lay, G, hh.ng)])),
          Dt(P \o "md:numDownScatterGroups", "int", <<hh.ng>>, 0, Lit([G \in 1..hh.ng |-> CpxDown(rg.lay, G, hh.ng)]))>>
        \o (IF rg.npf > 0 THEN <<Dt(P \o "md:numFamI", "int", <<rg.npf>>, 0, "small"), Dt(P \o "md:numPrecursorsProduced", "int", <<hh.ng, rg.npf>>, 0, "small")>> ELSE <<>>)
        \o <<Dt(P \o "x:absorption", "double", <<hh.ng>>, 0, "real"), Dt(P \o "x:total", "double", <<hh.ng>>, 0, "real"),
             Dt(P \o "x:removal", "double", <<hh.ng>>, 0, "real"), Dt(P \o "x:transport", "double", <<hh.ng>>, 0, "real"),
             Dt(P \o "x:n2n", "double", <<hh.ng>>, 0, "real")>>
        \o (IF rg.chi > 0 THEN <<Dt(P \o "x:fission", "double", <<hh.ng>>, 0, "real"), Dt(P \o "x:nuSigF", "double", <<hh.ng>>, 0, "real"),
                                 Dt(P \o "x:chi", "double", <<hh.ng, rg.chi>>, 0, "real")>> ELSE <<>>)
        \o [j \in 1..7 |-> Dt(P \o "md:" \o CpxDiff[j], "double", <<hh.ng>>, 0, "real")]
        \o [l \in 1..(hh.mso + 1) |-> Sp(P \o "scat:" \o ToString(l - 1), "sparse8", <<hh.ng, hh.ng>>, CpxNz(rg.lay, hh.ng), NzLit(CpxNz(rg.lay, hh.ng)))]])
    \o <<Dt("md:fissionWattSeconds", "double", <<hh.nComp>>, 0, "real"), Dt("md:captureWattSeconds", "double", <<hh.nComp>>, 0, "real")>>

(* ================================================ dispatch =============================================== *)
AllFormats == {"GEODST", "DIF3D", "NHFLUX", "LABELS", "PWDINT", "RTFLUX", "RZFLUX", "FIXSRC", "ISOTXS", "GAMISO", "PMATRX", "DLAYXS", "COMPXS"}
HdrDom(f) == CASE f = "GEODST" -> GeoHdr [] f = "DIF3D" -> DifHdr [] f = "NHFLUX" -> NhfHdr [] f = "LABELS" -> LabHdr [] f = "PWDINT" -> PwdHdr
               [] f = "RTFLUX" -> RtfHdr [] f = "RZFLUX" -> RzfHdr [] f = "FIXSRC" -> FixHdr [] f = "ISOTXS" -> IsoHdr [] f = "GAMISO" -> GamHdr
               [] f = "PMATRX" -> PmxHdr [] f = "DLAYXS" -> DlyHdr [] f = "COMPXS" -> CpxHdr
Records(f, hh) == CASE f = "GEODST" -> GeoRecords(hh) [] f = "DIF3D" -> DifRecords(hh) [] f = "NHFLUX" -> NhfRecords(hh) [] f = "LABELS" -> LabRecords(hh)
                    [] f = "PWDINT" -> PwdRecords(hh) [] f = "RTFLUX" -> RtfRecords(hh) [] f = "RZFLUX" -> RzfRecords(hh) [] f = "FIXSRC" -> FixRecords(hh)
                    [] f \in {"ISOTXS", "GAMISO"} -> IsoRecords(hh) [] f = "PMATRX" -> PmxRecords(hh) [] f = "DLAYXS" -> DlyRecords(hh)
                    [] f = "COMPXS" -> CpxRecords(hh)
Count(f, hh) == CASE f = "GEODST" -> GeoCount(hh) [] f = "DIF3D" -> DifCount(hh) [] f = "NHFLUX" -> NhfCount(hh) [] f = "LABELS" -> LabCount(hh)
                  [] f = "PWDINT" -> PwdCount(hh) [] f = "RTFLUX" -> RtfCount(hh) [] f = "RZFLUX" -> RzfCount(hh) [] f = "FIXSRC" -> FixCount(hh)
                  [] f \in {"ISOTXS", "GAMISO"} -> IsoCount(hh) [] f = "PMATRX" -> PmxCount(hh) [] f = "DLAYXS" -> DlyCount(hh) [] f = "COMPXS" -> CpxCount(hh)
Manifest(f, hh) == CASE f = "GEODST" -> GeoManifest(hh) [] f = "DIF3D" -> DifManifest(hh) [] f = "NHFLUX" -> NhfManifest(hh) [] f = "LABELS" -> LabManifest(hh)
                     [] f = "PWDINT" -> PwdManifest(hh) [] f = "RTFLUX" -> RtfManifest(hh) [] f = "RZFLUX" -> RzfManifest(hh) [] f = "FIXSRC" -> FixManifest(hh)
                     [] f \in {"ISOTXS", "GAMISO"} -> IsoManifest(hh) [] f = "PMATRX" -> PmxManifest(hh) [] f = "DLAYXS" -> DlyManifest(hh)
                     [] f = "COMPXS" -> CpxManifest(hh)
\* bytes the writer derives itself (counts, nuclide names, record offsets, constants) rather than taking them from a container datum
DerivedBytes(f, hh) == CASE f \in {"ISOTXS", "GAMISO"} -> IsoDerivedBytes(hh) [] f = "PMATRX" -> PmxDerivedBytes(hh) [] f = "DLAYXS" -> DlyDerivedBytes(hh)
                         [] f = "FIXSRC" -> FixConstBytes [] OTHER -> 0
Encs(f) == IF f = "FIXSRC" THEN <<"bin">> ELSE <<"bin", "asc">>      \* fixsrc.py offers readBinary / writeBinary only

(* ---------- input class of a header: which optional mechanisms of the format it exercises (sizes left out) ----------
   Printed with every case; violation keys carry it, so that a listed finding covers exactly the header class it
   was found in and the same call site failing for another class is a different key.                         *)
KV(kk, v) == kk \o "=" \o ToString(v)
ClassOf(f, hh) ==
    CASE f = "GEODST" -> KV("dim", GeoDim(hh.IGOM)) \o "," \o KV("nrass", hh.NRASS) \o "," \o KV("nbs", B2I(hh.NBS > 0))
      [] f = "DIF3D"  -> KV("numorp", B2I(hh.NUMORP > 0)) \o "," \o KV("ncmrzs", B2I(hh.NCMRZS > 0))
      [] f = "NHFLUX" -> KV("variant", B2I(hh.variant)) \o "," \o KV("adjoint", B2I(hh.adjoint)) \o "," \o KV("iwnhfl", hh.iwnhfl)
                         \o "," \o KV("nmoms", hh.nMoms)
      [] f = "LABELS" -> KV("nhts", B2I(hh.nh1 + hh.nh2 > 0)) \o "," \o KV("nsets", hh.nsets) \o "," \o KV("nalias", B2I(hh.nalias > 0))
      [] f = "PWDINT" -> KV("blocked", B2I(hh.NBLOK > 1))
      [] f = "RTFLUX" -> KV("adjoint", B2I(hh.adjoint)) \o "," \o KV("ndim", hh.NDIM) \o "," \o KV("blocked", B2I(hh.NBLOK > 1))
      [] f = "RZFLUX" -> KV("blocked", B2I(hh.NBLOK > 1))
      [] f = "FIXSRC" -> "any"
      [] f \in {"ISOTXS", "GAMISO"} -> KV("nsblok", hh.nsblok)
      [] f = "PMATRX" -> KV("nact", hh.nact) \o "," \o KV("order", hh.mso) \o "," \o KV("fileorder", PmxFileOrder(hh))
      [] f = "DLAYXS" -> "any"
      [] f = "COMPXS" -> KV("fwchi", hh.fw) \o "," \o KV("ndelay", B2I(hh.ndel > 0)) \o "," \o KV("chi", hh.chi)

(* ---------- public entry points ----------
   StreamOf: the stream class (or module) whose readWrite is the grammar above for this (format, flags).
   EntriesOf: every other public way the package offers to read / write such a file; each must behave exactly like
   StreamOf: reading the prescribed writer's file returns the written data, writing produces the same bytes.
     kind "factory": <mod>.<fn>(args) returns the stream class (nhflux.getNhfluxReader, rtflux.getFDFluxReader)
     kind "alias"  : <mod>.readBinary / readAscii / writeBinary / writeAscii module-level names
     kind "class"  : <mod>.<fn>.readBinary / ...                                                          *)
Ent(m, fn, args, kind) == [mod |-> m, fn |-> fn, args |-> args, kind |-> kind]
NhfStream(adjoint, variant) == IF adjoint THEN (IF variant THEN "NafluxStreamVariant" ELSE "NafluxStream")
                               ELSE (IF variant THEN "NhfluxStreamVariant" ELSE "NhfluxStream")
RtfStream(adjoint) == IF adjoint THEN "AtfluxStream" ELSE "RtfluxStream"
StreamOf(f, hh) == CASE f = "NHFLUX" -> NhfStream(hh.adjoint, hh.variant) [] f = "RTFLUX" -> RtfStream(hh.adjoint)
                     [] f = "GEODST" -> "GeodstStream" [] f = "DIF3D" -> "Dif3dStream" [] f = "LABELS" -> "LabelsStream"
                     [] f = "PWDINT" -> "PwdintStream" [] f = "RZFLUX" -> "RzfluxStream" [] OTHER -> "module"
EntriesOf(f, hh) == CASE f = "NHFLUX" -> <<Ent("nhflux", "getNhfluxReader", <<B2I(hh.adjoint), B2I(hh.variant)>>, "factory")>>
                      [] f = "RTFLUX" -> <<Ent("rtflux", "getFDFluxReader", <<B2I(hh.adjoint)>>, "factory")>>
                      [] f = "GEODST" -> <<Ent("geodst", "", <<>>, "alias")>> [] f = "DIF3D" -> <<Ent("dif3d", "", <<>>, "alias")>>
                      [] f = "LABELS" -> <<Ent("labels", "", <<>>, "alias")>> [] f = "PWDINT" -> <<Ent("pwdint", "", <<>>, "alias")>>
                      [] f = "RZFLUX" -> <<Ent("rzflux", "", <<>>, "alias")>> [] f = "ISOTXS" -> <<Ent("isotxs", "IsotxsIO", <<>>, "class")>>
                      [] OTHER -> <<>>
\* the factories as the package documents them (adjoint -> NAFLUX / ATFLUX, variant -> the VARIANT layout)
NhfFactory(a, v) == IF a = 1 THEN (IF v = 1 THEN "NafluxStreamVariant" ELSE "NafluxStream") ELSE (IF v = 1 THEN "NhfluxStreamVariant" ELSE "NhfluxStream")
RtfFactory(a) == IF a = 1 THEN "AtfluxStream" ELSE "RtfluxStream"

(* ================================================ the file as a behaviour =============================== *)
Recs == Records(fmt, h)
Init == /\ fmt \in Fmts /\ h \in HdrDom(fmt) /\ pos = 0 /\ off = 0 /\ act = [n |-> "Init"]
EmitRecord == LET rs == Recs IN
              /\ pos < Len(rs)
              /\ pos' = pos + 1
              /\ off' = off + 4 + WRecord(rs[pos + 1].fs).numBytes + 4
              /\ UNCHANGED <<fmt, h>> /\ act' = [n |-> "EmitRecord", tag |-> rs[pos + 1].tag]
Next == EmitRecord
Spec == Init /\ [][Next]_<<vars, act>>

EntryBytes(e) == e.n * (CASE e.k = "sparse" -> 4 [] e.k = "sparse8" -> 8 [] OTHER -> BinSize(e.k, e.w))
FileBytes(f, hh) == LET rs == Records(f, hh) IN SumSeq([i \in 1..Len(rs) |-> BinFrameLen(rs[i].fs)])
FileChars(f, hh) == LET rs == Records(f, hh) IN SumSeq([i \in 1..Len(rs) |-> AscFrameLen(rs[i].fs)])
TagCount(rs, t) == Cardinality({i \in 1..Len(rs) : rs[i].tag = t})

(* ---------- laws ---------- *)
\* every record of every file is framed by the count the record writer arrives at, and that is the closed form
FrameLaw == pos > 0 => LET fs == Recs[pos].fs  wr == WRecord(fs) IN
                       /\ wr.numBytes = wr.data /\ wr.data = RecBytes(fs) /\ wr.asc = RecChars(fs) /\ wr.calls = RecCalls(fs)
OffsetLaw == LET rs == Recs IN
             /\ off = SumSeq([i \in 1..pos |-> BinFrameLen(rs[i].fs)])
             /\ (pos = Len(rs) => off = FileBytes(fmt, h))
\* "every optional record the header flags announce": the constructive grammar agrees with the PRESENT-IF table
\* (laws about the whole file are evaluated once per case, in its initial state)
PresenceLaw == pos = 0 => LET c == Count(fmt, h)  rs == Recs IN
               /\ \A t \in DOMAIN c : TagCount(rs, t) = c[t]
               /\ \A i \in 1..Len(rs) : rs[i].tag \in DOMAIN c
\* every payload byte is exactly one container datum (or a value the writer derives): nothing written twice, nothing dropped
ConservationLaw == pos = 0 => LET m == Manifest(fmt, h)  rs == Recs IN
                   SumSeq([i \in 1..Len(rs) |-> RecBytes(rs[i].fs)]) = SumSeq([i \in 1..Len(m) |-> EntryBytes(m[i])]) + DerivedBytes(fmt, h)
\* reader and writer are one grammar; where the reader has to derive a length from the frame it arrives at the writer's
ReaderWriterCoincide == pos = 0 /\ fmt = "DLAYXS" => DlyReaderLabelWidth(h) = h.L /\ DlyReaderDummy2(h) = h.nd2
\* every public entry point for a (format, flags) pair selects the stream the grammar prescribes
EntryLaw == pos = 0 => \A i \in 1..Len(EntriesOf(fmt, h)) :
                LET e == EntriesOf(fmt, h)[i] IN
                e.kind = "factory" => (IF e.fn = "getNhfluxReader" THEN NhfFactory(e.args[1], e.args[2]) ELSE RtfFactory(e.args[1])) = StreamOf(fmt, h)
NoDuplicatePaths == pos = 0 => LET m == Manifest(fmt, h) IN Cardinality({m[i].p : i \in 1..Len(m)}) = Len(m)

(* ---------- the case printed for the harness ---------- *)
RecObs(r) == [tag |-> r.tag, bytes |-> RecBytes(r.fs), chars |-> RecChars(r.fs), calls |-> RecCalls(r.fs)]
Case == [fmt |-> fmt, h |-> h, cls |-> ClassOf(fmt, h), encs |-> Encs(fmt), stream |-> StreamOf(fmt, h), entries |-> EntriesOf(fmt, h), recs |-> [i \in 1..Len(Recs) |-> RecObs(Recs[i])],
         manifest |-> Manifest(fmt, h), counts |-> Count(fmt, h), binlen |-> FileBytes(fmt, h), asclen |-> FileChars(fmt, h),
         loca |-> IF fmt \in {"ISOTXS", "GAMISO"} THEN IsoLoca(h) ELSE <<>>]
=====================================================================================================
