----------------------------------------- MODULE CcccFields -----------------------------------------
(* C09 -- vocabulary shared by CcccRecord (framing of one record) and CcccFormats (record grammars).

   A *field* is what one rw* call of armi/nuclearDataIO/cccc/cccc.py IORecord moves:
     p   label (container path; only CcccFormats uses it)
     k   scalar kind: "int" "bool" "long" "float" "double" "string"
     c   call shape: "s" scalar (rwInt/rwBool/rwLong/rwFloat/rwDouble/rwString),
                     "l" rwList(contents, kind, n, strLength),
                     "m" rwMatrix/rwDoubleMatrix/rwIntMatrix(contents, *sh)   (sh = outermost loop first)
     n   number of scalars moved (1 for "s", n for "l", product of sh for "m")
     w   string width (0 unless k = "string")
     sh  shape as passed to the call

   Sizes.  BinSize is the number of payload bytes of one scalar in the binary encoding
   (struct formats "i" "q" "f" "d" "<w>s"); it is also the amount the *logical byte counter* (numBytes) is
   advanced by, in both encodings: the ASCII writer frames a record with the same count the binary writer
   uses (cccc.py AsciiRecordWriter.rwInt/rwFloat/rwDouble/rwString add _intSize/_floatSize/2*_floatSize/length).
   AscSize is the number of characters of one scalar in the ASCII encoding: the reader consumes exactly
   _intLength = 11 characters per integer, _floatLength = 24 per real (single or double) and 1 + w per string,
   so a writer conforms only if every value it prints occupies exactly that many characters.
   ASCII has no long (AsciiRecordWriter defines no rwLong): AscSize("long") is 0 and the record machine
   refuses long fields in ASCII mode.                                                                    *)
EXTENDS Integers, Sequences, FiniteSets, TLC, Json, SequencesExt, FiniteSetsExt

ScalarKinds == {"int", "bool", "long", "float", "double", "string"}

BinSize(k, w) == CASE k = "int"    -> 4
                   [] k = "bool"   -> 4
                   [] k = "long"   -> 8
                   [] k = "float"  -> 4
                   [] k = "double" -> 8
                   [] k = "string" -> w

AscIntLen   == 11      \* " {:>+10}"
AscFloatLen == 24      \* " {:+.16E}"
AscSize(k, w) == CASE k \in {"int", "bool"}     -> AscIntLen
                   [] k \in {"float", "double"} -> AscFloatLen
                   [] k = "string"              -> w + 1
                   [] k = "long"                -> 0

Prod(sh) == FoldLeft(LAMBDA a, x : a * x, 1, sh)
SumSeq(s) == FoldLeft(LAMBDA a, x : a + x, 0, s)
Flat(ss) == FoldLeft(LAMBDA a, x : a \o x, <<>>, ss)

(* ---------- constructors ---------- *)
Sc(p, k, w)    == [p |-> p, k |-> k, c |-> "s", n |-> 1, w |-> w, sh |-> <<>>]
FI(p)          == Sc(p, "int", 0)
FB(p)          == Sc(p, "bool", 0)
FL(p)          == Sc(p, "long", 0)
FF(p)          == Sc(p, "float", 0)
FD(p)          == Sc(p, "double", 0)
FS(p, w)       == Sc(p, "string", w)
Ls(p, k, n, w) == [p |-> p, k |-> k, c |-> "l", n |-> n, w |-> w, sh |-> <<n>>]
LI(p, n)       == Ls(p, "int", n, 0)
LF(p, n)       == Ls(p, "float", n, 0)
LD(p, n)       == Ls(p, "double", n, 0)
LS(p, n, w)    == Ls(p, "string", n, w)
Mx(p, k, sh)   == [p |-> p, k |-> k, c |-> "m", n |-> Prod(sh), w |-> 0, sh |-> sh]
MF(p, sh)      == Mx(p, "float", sh)
MD(p, sh)      == Mx(p, "double", sh)
MI(p, sh)      == Mx(p, "int", sh)

(* ---------- the writer of one record, as a fold of scalar steps ----------
   BinaryRecordWriter / AsciiRecordWriter: open() starts with numBytes = 0 and an empty data list; every scalar
   rw call appends its encoding to data and advances numBytes; rwList / rwMatrix are n scalar calls
   (IORecord.rwList, IORecord._rwMatrix); close() writes  numBytes, data, numBytes.
     numBytes  the counter the frame is written from
     data      payload bytes actually appended (binary)
     asc       payload characters actually appended (ASCII)
     calls     run-length encoded sequence of scalar calls  <<[k, w, n]>>                                *)
W0 == [numBytes |-> 0, data |-> 0, asc |-> 0, calls |-> <<>>]

CallKind(k) == IF k = "bool" THEN "int" ELSE k      \* rwBool is rwInt(int(val))
RleAdd(cs, k, w, n) ==
    IF n = 0 THEN cs
    ELSE IF cs # <<>> /\ cs[Len(cs)].k = CallKind(k) /\ cs[Len(cs)].w = w
         THEN [cs EXCEPT ![Len(cs)].n = @ + n]
         ELSE Append(cs, [k |-> CallKind(k), w |-> w, n |-> n])

WStep(s, k, w) == [numBytes |-> s.numBytes + BinSize(k, w),
                   data     |-> s.data + BinSize(k, w),
                   asc      |-> s.asc + AscSize(k, w),
                   calls    |-> RleAdd(s.calls, k, w, 1)]
WField(s, f)  == FoldLeft(LAMBDA a, i : WStep(a, f.k, f.w), s, [i \in 1..f.n |-> i])
WRecord(fs)   == FoldLeft(WField, W0, fs)

(* closed forms *)
FieldBytes(f) == f.n * BinSize(f.k, f.w)
FieldChars(f) == f.n * AscSize(f.k, f.w)
RecBytes(fs)  == SumSeq([i \in 1..Len(fs) |-> FieldBytes(fs[i])])
RecChars(fs)  == SumSeq([i \in 1..Len(fs) |-> FieldChars(fs[i])])
RecCalls(fs)  == FoldLeft(LAMBDA cs, f : RleAdd(cs, f.k, f.w, f.n), <<>>, fs)
\* one binary record on the stream: 4-byte head, payload, 4-byte tail; one ASCII record: head, payload, tail, "\n"
BinFrameLen(fs) == 4 + RecBytes(fs) + 4
AscFrameLen(fs) == AscIntLen + RecChars(fs) + AscIntLen + 1
HasLong(fs) == \E i \in 1..Len(fs) : fs[i].k = "long"
=====================================================================================================
