\* emission: all sequences of <= 4 fields over the 7 field kinds (int long float double string list matrix), both encodings
CONSTANTS MaxFields = 4  MaxRecords = 1  Alpha = "basic"  MaxLevel = 99
INIT Init
NEXT Next
CONSTRAINT Bound
INVARIANT EmitState
INVARIANT HeadEqualsTail
INVARIANT HeadEqualsPayload
INVARIANT PayloadIsSum
CHECK_DEADLOCK FALSE
