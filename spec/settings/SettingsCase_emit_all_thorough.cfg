\* spec -> code (thorough): the unconstrained graph, depth 4 (sampled by the harness)
CONSTANTS MaxObj = 2  MaxLevel = 4  HandFiles <- McHandFilesAll  Styles <- StylesAll  CopyKinds <- KindsAll  Ops <- OpsAll  Generic <- GenQR
INIT Init
NEXT Next
CONSTRAINT Bound
VIEW View
ACTION_CONSTRAINT Emit
CHECK_DEADLOCK FALSE
