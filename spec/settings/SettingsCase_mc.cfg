\* exhaustive (quick): every action group, P Q V Z, two objects, depth 4 (three actions), no plan
CONSTANTS MaxObj = 2  MaxLevel = 4  HandFiles <- McHandFilesSmall  Styles <- StylesAll  CopyKinds <- KindsTwo  Ops <- OpsAll  Generic <- GenQ
INIT Init
NEXT Next
CONSTRAINT Bound
INVARIANT TypeOK
INVARIANT WrittenValuesAreCurrent
INVARIANT ShortOmitsExactlyDefaults
INVARIANT FullWritesAll
INVARIANT MediumIsShortPlusUserSet
INVARIANT NoDuplicateEntries
INVARIANT ReadIsOverlay
INVARIANT RoundTripFresh
INVARIANT RoundTripFull
INVARIANT UneditedFilesAreAccepted
INVARIANT RefusalKeepsEverything
INVARIANT ReadRefusalKeepsPrevious
INVARIANT StoredValuesAreCanonical
INVARIANT RenameLands
INVARIANT CurrentNameWins
INVARIANT UnknownNamesAreReportedAndIgnored
INVARIANT OthersUntouched
INVARIANT CopiesStartEqual
INVARIANT AdHocStaysWithTheCopy
INVARIANT LateSettingOnlyWhereItExists
CHECK_DEADLOCK FALSE
