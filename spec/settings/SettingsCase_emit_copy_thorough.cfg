\* spec -> code (thorough): every edge of the copy stories with every way of copying
CONSTANTS MaxObj = 2  MaxLevel = 5  HandFiles <- NoHandFiles  Styles <- StylesAll  CopyKinds <- KindsAll  Ops <- OpsCopy  Generic <- GenQR
INIT Init
NEXT Next
CONSTRAINT Bound
VIEW View
ACTION_CONSTRAINT EmitCopy
CHECK_DEADLOCK FALSE
