\* exhaustive: every synthetic schema (Atoms, All(coercion, filter), Any(x, None), [x], the beta shape) and every synthetic
\* declaration against the whole value universe
INIT Init
NEXT Next
INVARIANT Total
INVARIANT CoerceGivesTheType
INVARIANT CoerceIdempotent
INVARIANT FiltersKeepTheValue
INVARIANT RangeIsNumeric
INVARIANT InFollowsEquality
INVARIANT AnyIsFirstAcceptor
INVARIANT AllIsComposition
INVARIANT ListIsPointwise
INVARIANT Stable
INVARIANT CustomWins
INVARIANT EnforcedOptionsOnly
INVARIANT DerivedFromDefault
INVARIANT UnenforcedOptionsAreHints
INVARIANT NoneDefaultNeedsASchema
INVARIANT ModifiersMerge
INVARIANT ContributedOptionsAreEnforced
INVARIANT NoModifiersNoChange
CHECK_DEADLOCK FALSE
