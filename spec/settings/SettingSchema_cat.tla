-------------------------------------- MODULE SettingSchema_cat --------------------------------------
(* SettingSchema evaluated over the catalog of the real settings (written by harness/gen_settings.py from what the
   framework and every plugin *declare* through defineSettings, before App.getSettings merges it: default, options,
   enforcedOptions, constructor schema, class, old names, and the Option/Default modifiers other plugins contribute;
   EffDecl merges them here, and the harness compares the declarations App.getSettings hands out with the merged ones
   under both registration orders of the defining and the modifying plugin).
   One state per setting; for every candidate input of the setting one printed case
       [s, j, raw, r (ok | bad | unm), out (stored value), dump (written value), rt (value round-trip law)]
   and one line with the per-setting data laws and the rename table SettingRenamer derives.  The harness executes every
   case on the real code; the laws are reported per setting (they are statements about armi's declarations). *)
EXTENDS SettingSchema, Json, IOUtils
Catalog  == JsonDeserialize(IOEnv.C17_CATALOG)
Settings == [k \in 1..Len(Catalog.settings) |-> EffDecl(Catalog.settings[k])]      \* declarations with the plugins' modifiers merged
Today    == Catalog.today
N        == Len(Settings)
VARIABLE i
Init == i = 0
Next == i < N /\ i' = i + 1

RECURSIVE HasFlag(_)
HasFlag(v) == \/ v.t = "flag"
              \/ v.t = "list" /\ \E j \in 1..Len(v.v) : HasFlag(v.v[j])
              \/ v.t = "dict" /\ \E j \in 1..Len(v.v[2]) : HasFlag(v.v[2][j])
\* Falsy-but-set values for every field of the groups of the nested settings (crossSectionControl, tightCouplingSettings):
\* "", [], 0, 0.0, False are values like any other -- an empty mergeIntoClad is not an unset one.  Derived from the group
\* schema in the catalog: per field and falsy value of the field's type one group (the field added to / replacing it in a
\* minimal valid group), plus one group with every field falsy at once.
FalsyOf(sc) ==
    CASE sc.k = "type" /\ sc.ty = "str" -> <<VStr("")>>
      [] sc.k = "type" /\ sc.ty = "bool" -> <<VBool(FALSE)>>
      [] sc.k = "list" -> <<VLst(<<>>)>>
      [] sc.k = "coerce" /\ sc.ty \in {"int", "float"} -> <<VInt(0), VFlt(0, 1), VBool(FALSE)>>
      [] sc.k = "all" -> <<VStr("")>>
      [] OTHER -> <<>>
FalsyGroups(s) ==
    IF ~s.hasCustom THEN <<>>
    ELSE IF s.custom.k # "fn" THEN <<>>
    ELSE IF s.custom.name \notin {"xsSettingsValidator", "tightCouplingSettingsValidator"} THEN <<>>
    ELSE LET fs == s.custom.inner.vals[1]
             xs == s.custom.name = "xsSettingsValidator"
             baseK == IF xs THEN <<VStr("geometry")>> ELSE <<VStr("parameter"), VStr("convergence")>>
             baseV == IF xs THEN <<VStr("0D")>> ELSE <<VStr("a"), VFlt(1, 2)>>
             id == IF xs THEN VStr("AA") ELSE VStr("abc")
             With(k, v) == LET idx == {q \in 1..Len(baseK) : Same(baseK[q], k)} IN
                           IF idx = {} THEN VDct(<<id>>, <<VDct(Append(baseK, k), Append(baseV, v))>>)
                           ELSE VDct(<<id>>, <<VDct(baseK, [q \in 1..Len(baseK) |-> IF q \in idx THEN v ELSE baseV[q]])>>)
             F[j \in 0..Len(fs.keys)] ==
                 IF j = 0 THEN <<>>
                 ELSE LET fz == FalsyOf(fs.vals[j]) IN F[j - 1] \o [m \in 1..Len(fz) |-> With(fs.keys[j].ks.v, fz[m])]
             has == SelectSeq([j \in 1..Len(fs.keys) |-> j],
                              LAMBDA j : Len(FalsyOf(fs.vals[j])) > 0 /\ ~\E q \in 1..Len(baseK) : Same(baseK[q], fs.keys[j].ks.v))
             allAtOnce == VDct(<<id>>, <<VDct(baseK \o [m \in 1..Len(has) |-> fs.keys[has[m]].ks.v],
                                             baseV \o [m \in 1..Len(has) |-> FalsyOf(fs.vals[has[m]])[1]])>>)
         IN F[Len(fs.keys)] \o <<allAtOnce>>
\* Flags objects are not YAML data: only a flag-list setting is offered them
Pool(s) == LET base == Universe \o FalsyGroups(s) \o s.extra \o <<Dump(s, s.default)>> IN
           IF s.cls = "FlagListSetting" THEN base ELSE SelectSeq(base, LAMBDA v : ~HasFlag(v))
RtVerdict(s, raw) ==
    LET st == Store(s, raw) IN
    IF st.r # "ok" THEN "n/a"
    ELSE LET again == Store(s, Dump(s, st.v)) IN
         IF again.r = "unm" THEN "unm" ELSE IF SameRes(again, st) THEN "holds" ELSE "fails"
Case(s, j) ==
    LET raw == Pool(s)[j]  st == Store(s, raw) IN
    [s |-> s.name, j |-> j, raw |-> raw, r |-> st.r, out |-> st.v,
     dump |-> IF st.r = "ok" THEN Dump(s, st.v) ELSE None, rt |-> RtVerdict(s, raw)]
SeqOfSet(S) == LET RECURSIVE F(_) F(T) == IF T = {} THEN <<>> ELSE LET x == CHOOSE x \in T : TRUE IN <<x>> \o F(T \ {x}) IN F(S)
Emit ==
    i >= 1 =>
        LET s == Settings[i] IN
        /\ \A j \in 1..Len(Pool(s)) : PrintT(ToJson(Case(s, j)))
        /\ PrintT(ToJson([law |-> s.name, defaultAdmitted |-> DefaultAdmitted(s),
                          defaultDump |-> Dump(s, s.default), effDefault |-> s.default, effOptions |-> s.options,
                          active |-> SeqOfSet(ActiveOld(s, Today)), expired |-> SeqOfSet(ExpiredOld(s, Today))]))
=====================================================================================================
