-------------------------------------- MODULE SettingSchema_cat --------------------------------------
(* SettingSchema evaluated over the catalog of the real settings (written by harness/gen_settings.py from the
   declarations of the live Setting objects: default, options, enforcedOptions, constructor schema, class, old names).
   One state per setting; for every candidate input of the setting one printed case
       [s, j, raw, r (ok | bad | unm), out (stored value), dump (written value), rt (value round-trip law)]
   and one line with the per-setting data laws and the rename table SettingRenamer derives.  The harness executes every
   case on the real code; the laws are reported per setting (they are statements about armi's declarations). *)
EXTENDS SettingSchema, Json, IOUtils
Catalog  == JsonDeserialize(IOEnv.C17_CATALOG)
Settings == Catalog.settings
Today    == Catalog.today
N        == Len(Settings)
VARIABLE i
Init == i = 0
Next == i < N /\ i' = i + 1

RECURSIVE HasFlag(_)
HasFlag(v) == \/ v.t = "flag"
              \/ v.t = "list" /\ \E j \in 1..Len(v.v) : HasFlag(v.v[j])
              \/ v.t = "dict" /\ \E j \in 1..Len(v.v[2]) : HasFlag(v.v[2][j])
\* Flags objects are not YAML data: only a flag-list setting is offered them
Pool(s) == LET base == Universe \o s.extra \o <<Dump(s, s.default)>> IN
           IF s.cls = "FlagListSetting" THEN base ELSE SelectSeq(base, LAMBDA v : ~HasFlag(v))
RtVerdict(s, raw) ==
    LET st == Store(s, raw) IN
    IF st.r # "ok" THEN "n/a"
    ELSE LET again == Store(s, Dump(s, st.v)) IN
         IF again.r = "unm" THEN "unm" ELSE IF SameRes(again, st) THEN "holds" ELSE "fails"
Case(s, j) ==
    LET raw == Pool(s)[j]  st == Store(s, raw) IN
    [s |-> s.name, j |-> j, raw |-> raw, r |-> st.r, out |-> st.v,
     dump |-> IF st.r = "ok" THEN Dump(s, st.v) ELSE None, rt |-> RtVerdict(s, raw)]
SeqOfSet(S) == LET RECURSIVE F(_) F(T) == IF T = {} THEN <<>> ELSE LET x == CHOOSE x \in T : TRUE IN <<x>> \o F(T \ {x}) IN F(S)
Emit ==
    i >= 1 =>
        LET s == Settings[i] IN
        /\ \A j \in 1..Len(Pool(s)) : PrintT(ToJson(Case(s, j)))
        /\ PrintT(ToJson([law |-> s.name, defaultAdmitted |-> DefaultAdmitted(s),
                          defaultDump |-> Dump(s, s.default),
                          active |-> SeqOfSet(ActiveOld(s, Today)), expired |-> SeqOfSet(ExpiredOld(s, Today))]))
=====================================================================================================
