\* exhaustive, the copy stories (CopyPlan)
CONSTANTS MaxObj = 2  MaxLevel = 5  HandFiles <- NoHandFiles  Styles <- StylesAll  CopyKinds <- KindsTwo  Ops <- OpsCopy  Generic <- GenQ
INIT Init
NEXT Next
CONSTRAINT Bound
ACTION_CONSTRAINT CopyPlan
INVARIANT TypeOK
INVARIANT WrittenValuesAreCurrent
INVARIANT ShortOmitsExactlyDefaults
INVARIANT FullWritesAll
INVARIANT MediumIsShortPlusUserSet
INVARIANT NoDuplicateEntries
INVARIANT ReadIsOverlay
INVARIANT RoundTripFresh
INVARIANT RoundTripFull
INVARIANT UneditedFilesAreAccepted
INVARIANT RefusalKeepsEverything
INVARIANT ReadRefusalKeepsPrevious
INVARIANT StoredValuesAreCanonical
INVARIANT RenameLands
INVARIANT CurrentNameWins
INVARIANT UnknownNamesAreReportedAndIgnored
INVARIANT OthersUntouched
INVARIANT CopiesStartEqual
INVARIANT AdHocStaysWithTheCopy
INVARIANT LateSettingOnlyWhereItExists
CHECK_DEADLOCK FALSE
