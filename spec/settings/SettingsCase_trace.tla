--------------------------------------- MODULE SettingsCase_trace ---------------------------------------
(* code -> spec: every recorded history of real Settings objects (abstracted by the harness under an injective
   instantiation: each abstract value stands for distinct concrete values of every member of the class) must be a behaviour
   of SettingsCase, event by event, with the whole abstract state after each event equal to the specification's. *)
EXTENDS SettingsCase_mc, IOUtils, TLCExt
Traces == ndJsonDeserialize(IOEnv.TRACE_FILE)
NT     == Len(Traces)
VARIABLES tid, l
ASSUME \A t \in 1..NT : TLCSet(t, 0)
TInit == Init /\ tid \in 1..NT /\ l = 1
Ev == Traces[tid].ev[l]
Ac == Ev.a
Step ==
    \/ Ac.n = "New" /\ New
    \/ Ac.n = "Register" /\ Register
    \/ Ac.n = "Assign" /\ Assign(Ac.o, Ac.s, Ac.r)
    \/ Ac.n = "AssignBad" /\ AssignBad(Ac.o, Ac.s)
    \/ Ac.n = "AssignUnknown" /\ AssignUnknown(Ac.o, Ac.nm)
    \/ Ac.n = "GetSet" /\ GetSet(Ac.o, Ac.s, Ac.r)
    \/ Ac.n = "Revert" /\ Revert(Ac.o)
    \/ Ac.n = "Write" /\ Write(Ac.o, Ac.style)
    \/ Ac.n = "SetBad" /\ SetBad(Ac.i)
    \/ Ac.n = "SetOld" /\ SetOld(Ac.i)
    \/ Ac.n = "AddUnknown" /\ AddUnknown
    \/ Ac.n = "HandWrite" /\ HandWrite(Ac.es)
    \/ Ac.n = "Read" /\ Read(Ac.o)
    \/ Ac.n = "Modified" /\ Modified(Ac.o, Ac.s, Ac.r)
    \/ Ac.n = "ModifiedObj" /\ ModifiedObj(Ac.o, Ac.s, Ac.r)
    \/ Ac.n = "ModifiedNewKey" /\ ModifiedNewKey(Ac.o)
    \/ Ac.n = "ModifiedBad" /\ ModifiedBad(Ac.o, Ac.s)
    \/ Ac.n = "Duplicate" /\ Duplicate(Ac.o, Ac.kind)
ObsMatch == \/ St' = Ev.post
            \/ /\ St' # Ev.post
               /\ PrintT(ToJson([mismatch |-> Traces[tid].id, at |-> l, expected |-> St']))
               /\ FALSE
TNext == /\ l <= Len(Traces[tid].ev) /\ l' = l + 1 /\ tid' = tid
         /\ Step
         /\ ObsMatch
TSpec == TInit /\ [][TNext]_<<vars, tid, l>>
Progress == IF TLCGet(tid) < l THEN TLCSet(tid, l) ELSE TRUE
Report == LET bad == {t \in 1..NT : TLCGet(t) # Len(Traces[t].ev) + 1} IN
          /\ \A t \in bad : PrintT(ToJson([rejected |-> Traces[t].id, matched |-> TLCGet(t) - 1]))
          /\ PrintT(ToJson([accepted |-> NT - Cardinality(bad), of |-> NT]))
=====================================================================================================
