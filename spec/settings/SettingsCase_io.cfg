\* exhaustive, the io stories (IoPlan): P Q R V Z, all hand files, depth 8
CONSTANTS MaxObj = 2  MaxLevel = 8  HandFiles <- McHandFiles  Styles <- StylesAll  CopyKinds <- KindsTwo  Ops <- OpsIO  Generic <- GenQR
INIT Init
NEXT Next
CONSTRAINT Bound
ACTION_CONSTRAINT IoPlan
INVARIANT TypeOK
INVARIANT WrittenValuesAreCurrent
INVARIANT ShortOmitsExactlyDefaults
INVARIANT FullWritesAll
INVARIANT MediumIsShortPlusUserSet
INVARIANT NoDuplicateEntries
INVARIANT ReadIsOverlay
INVARIANT RoundTripFresh
INVARIANT RoundTripFull
INVARIANT UneditedFilesAreAccepted
INVARIANT RefusalKeepsEverything
INVARIANT ReadRefusalKeepsPrevious
INVARIANT StoredValuesAreCanonical
INVARIANT RenameLands
INVARIANT CurrentNameWins
INVARIANT UnknownNamesAreReportedAndIgnored
INVARIANT OthersUntouched
INVARIANT CopiesStartEqual
INVARIANT AdHocStaysWithTheCopy
INVARIANT LateSettingOnlyWhereItExists
CHECK_DEADLOCK FALSE
