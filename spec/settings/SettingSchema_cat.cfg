\* catalog-driven emission: one state per real setting (IOEnv.C17_CATALOG names the catalog file)
INIT Init
NEXT Next
INVARIANT Emit
CHECK_DEADLOCK FALSE
