--------------------------------------- MODULE SettingSchema_mc ---------------------------------------
(* The semantic laws of SettingSchema, checked by TLC over a synthetic space of schemas and setting declarations
   (independent of the real catalog).  One state per schema (idx <= NS) or per declaration (idx > NS); every invariant
   quantifies over the whole value universe. *)
EXTENDS SettingSchema
C(ty)  == [k |-> "coerce", ty |-> ty]
T(ty)  == [k |-> "type", ty |-> ty]
Rng(hasMin, mn, minInc, hasMax, mx, maxInc) ==
    [k |-> "range", hasMin |-> hasMin, min |-> mn, hasMax |-> hasMax, max |-> mx, minInc |-> minInc, maxInc |-> maxInc]
In(opts) == [k |-> "in", opts |-> opts]
Lit(v)   == [k |-> "lit", v |-> v]
Lng(a, b) == [k |-> "length", hasMin |-> TRUE, min |-> a, hasMax |-> TRUE, max |-> b]
All2(a, b) == [k |-> "all", of |-> <<a, b>>]
Any2(a, b) == [k |-> "any", of |-> <<a, b>>]
Any3(a, b, c) == [k |-> "any", of |-> <<a, b, c>>]
ListOf(a) == [k |-> "list", of |-> <<a>>]

Coercions == <<C("bool"), C("int"), C("float"), C("str"), C("list"), C("dict")>>
Filters == <<Rng(TRUE, VInt(0), TRUE, FALSE, VInt(0), TRUE), Rng(TRUE, VInt(0), FALSE, FALSE, VInt(0), TRUE),
             Rng(TRUE, VInt(0), TRUE, TRUE, VInt(1), TRUE), Rng(FALSE, VInt(0), TRUE, TRUE, VFlt(5, 2), FALSE),
             In(<<VStr("abc"), VStr("")>>), In(<<VInt(1), VInt(2)>>), Lit(None), Lng(1, 2),
             T("int"), T("float"), T("str"), T("bool")>>
Atoms == Coercions \o Filters
Pairs2 == [n \in 1..(Len(Coercions) * Len(Filters)) |->
              All2(Coercions[((n - 1) \div Len(Filters)) + 1], Filters[((n - 1) % Len(Filters)) + 1])]
OrNone == [n \in 1..Len(Atoms) |-> Any2(Atoms[n], Lit(None))]
Lists1 == [n \in 1..Len(Atoms) |-> ListOf(Atoms[n])]
Lists2 == [n \in 1..Len(Pairs2) |-> ListOf(Pairs2[n])]
\* the `beta` / `decayConstants` shape: a list of x, or None, or x
Beta   == [n \in 1..Len(Pairs2) |-> Any3(ListOf(Pairs2[n]), Lit(None), Pairs2[n])]
Space  == Atoms \o Pairs2 \o OrNone \o Lists1 \o Lists2 \o Beta
NS     == Len(Space)
NU     == Len(Universe)

\* synthetic declarations: [default, options, enforced, hasCustom, custom]
Defaults == <<VBool(FALSE), VInt(1), VFlt(1, 2), VStr("abc"), VStr(""), VLst(<<>>), VLst(<<VInt(1), VInt(2)>>),
              VLst(<<VFlt(3, 2), VFlt(5, 2)>>), VLst(<<VStr("abc")>>), VLst(<<VInt(1), VStr("abc")>>), EmptyDict, None>>
Opts == <<<<>>, <<VStr("abc"), VStr("")>>>>
Customs == <<[k |-> "none"], All2(C("float"), Filters[1])>>
ND == Len(Defaults) * 2 * 2 * 2
Decl(n) == LET m == n - 1 IN
    [name |-> "synthetic", cls |-> "Setting", default |-> Defaults[(m \div 8) + 1], options |-> Opts[((m \div 4) % 2) + 1],
     enforced |-> ((m \div 2) % 2) = 1, hasCustom |-> (m % 2) = 1, custom |-> Customs[(m % 2) + 1], old |-> <<>>, extra |-> <<>>, mods |-> <<>>]

VARIABLE idx
Init == idx = 1
Next == idx < NS + ND /\ idx' = idx + 1
IsSchema == idx <= NS
Sc == Space[idx]
D  == Decl(idx - NS)
U(j) == Universe[j]

\* ---- laws of the validation language ------------------------------------------------------------------------
Total == IsSchema => \A j \in 1..NU : Val(Sc, U(j)).r \in {"ok", "bad", "unm"}
CoerceGivesTheType ==           \* T(v) is a T
    IsSchema /\ Sc.k = "coerce" => \A j \in 1..NU : LET r == Val(Sc, U(j)) IN r.r = "ok" => PyType(r.v) = Sc.ty
CoerceIdempotent ==             \* T(T(v)) = T(v)
    IsSchema /\ Sc.k = "coerce" => \A j \in 1..NU : LET r == Val(Sc, U(j)) IN r.r = "ok" => SameRes(Val(Sc, r.v), r)
FiltersKeepTheValue ==          \* Range, In, Length, literals and type checks never change what they accept
    IsSchema /\ Sc.k \in {"range", "in", "lit", "length", "type"} =>
        \A j \in 1..NU : LET r == Val(Sc, U(j)) IN r.r = "ok" => Same(r.v, U(j))
RangeIsNumeric ==               \* Range refuses what cannot be compared with a number
    IsSchema /\ Sc.k = "range" => \A j \in 1..NU : ~IsNum(U(j)) => Val(Sc, U(j)).r = "bad"
InFollowsEquality ==            \* In accepts exactly what == one of the options (so 1.0 and True match the option 1)
    IsSchema /\ Sc.k = "in" => \A j \in 1..NU : (Val(Sc, U(j)).r = "ok") <=> (\E o \in 1..Len(Sc.opts) : PyEq(U(j), Sc.opts[o]))
AnyIsFirstAcceptor ==
    IsSchema /\ Sc.k = "any" => \A j \in 1..NU :
        LET rs == [n \in 1..Len(Sc.of) |-> Val(Sc.of[n], U(j))]
            hit == {n \in 1..Len(Sc.of) : rs[n].r # "bad"} IN
        SameRes(Val(Sc, U(j)), IF hit = {} THEN Bad ELSE rs[CHOOSE n \in hit : \A m \in hit : n <= m])
AllIsComposition ==
    IsSchema /\ Sc.k = "all" => \A j \in 1..NU :
        LET r1 == Val(Sc.of[1], U(j)) IN SameRes(Val(Sc, U(j)), IF r1.r = "ok" THEN Val(Sc.of[2], r1.v) ELSE r1)
ListIsPointwise ==
    IsSchema /\ Sc.k = "list" => \A j \in 1..NU :
        LET x == U(j)  r == Val(Sc, x) IN
        /\ x.t # "list" => r.r = "bad"
        /\ x.t = "list" => /\ (r.r = "ok") <=> (\A e \in 1..Len(x.v) : Val(Sc.of[1], x.v[e]).r = "ok")
                           /\ r.r = "ok" => Same(r.v, VLst([e \in 1..Len(x.v) |-> Val(Sc.of[1], x.v[e]).v]))
\* what a schema stores it accepts again unchanged -- for the shapes armi's settings use, except where a coercion to list
\* meets the list alternative of the beta shape (list("abc") is then re-read as a list of lists); no armi setting does that
ScalarPair(sc) == sc.k = "all" /\ sc.of[1].k = "coerce" /\ sc.of[1].ty \notin {"list", "dict"}
Stable ==
    IsSchema /\ (Sc.k \in {"coerce", "range", "in", "lit", "length", "type", "all", "list"}
                 \/ (Sc.k = "any" /\ Len(Sc.of) = 2) \/ (Sc.k = "any" /\ Len(Sc.of) = 3 /\ ScalarPair(Sc.of[3])))
    => \A j \in 1..NU : LET r == Val(Sc, U(j)) IN r.r = "ok" => LET again == Val(Sc, r.v) IN again.r = "unm" \/ SameRes(again, r)

\* ---- laws of Setting._setSchema ---------------------------------------------------------------------------------
IsDecl == idx > NS
CustomWins == IsDecl /\ D.hasCustom => Effective(D) = D.custom
EnforcedOptionsOnly ==          \* with enforced options exactly the options are admitted, and stored as given
    IsDecl /\ ~D.hasCustom /\ D.enforced /\ Len(D.options) > 0 =>
        \A j \in 1..NU : LET r == Store(D, U(j)) IN
            /\ (r.r = "ok") <=> (\E o \in 1..Len(D.options) : PyEq(U(j), D.options[o]))
            /\ r.r = "ok" => Same(r.v, U(j))
Homogeneous(d) == d.t # "list" \/ \A e \in 1..Len(d.v) : d.v[e].t = d.v[1].t
DerivedFromDefault ==           \* otherwise the default's type decides: the default is admitted as itself, and whatever
    IsDecl /\ ~D.hasCustom /\ ~(D.enforced /\ Len(D.options) > 0) /\ D.default.t # "none" =>   \* is stored has its type
        /\ Homogeneous(D.default) => DefaultAdmitted(D)
        /\ \A j \in 1..NU : LET r == Store(D, U(j)) IN r.r = "ok" =>
               /\ r.v.t = D.default.t
               /\ D.default.t = "list" /\ Len(D.default.v) > 0 => \A e \in 1..Len(r.v.v) : r.v.v[e].t = D.default.v[1].t
UnenforcedOptionsAreHints ==    \* options that are not enforced do not restrict anything
    IsDecl /\ ~D.hasCustom /\ ~D.enforced =>
        Effective(D) = Effective([D EXCEPT !.options = <<>>])
NoneDefaultNeedsASchema ==      \* a None default without a schema admits nothing at all (Coerce(NoneType))
    IsDecl /\ ~D.hasCustom /\ ~(D.enforced /\ Len(D.options) > 0) /\ D.default.t = "none" =>
        \A j \in 1..NU : Store(D, U(j)).r = "bad"

\* ---- laws of App.getSettings' merge (EffDecl) ------------------------------------------------------------------
Opt(v) == [kind |-> "option", v |-> v]
Dft(v) == [kind |-> "default", v |-> v]
ModifiersMerge ==               \* for declarations with enforced options: an added option is admitted, a Default naming it is the
    IsDecl /\ ~D.hasCustom /\ D.enforced /\ Len(D.options) > 0 /\ D.default.t = "str" =>       \* default and is admitted as itself,
        LET z == VStr("2R")                                                                        \* in either arrival order
            E1 == EffDecl([D EXCEPT !.mods = <<Opt(z), Dft(z)>>])
            E2 == EffDecl([D EXCEPT !.mods = <<Dft(z), Opt(z)>>]) IN
        /\ E1.options = E2.options /\ Same(E1.default, E2.default)
        /\ Same(E1.default, z) /\ DefaultAdmitted(E1)
        /\ Store(E1, z).r = "ok" /\ Store(D, z).r = "bad"
        /\ \A o \in 1..Len(D.options) : Store(E1, D.options[o]).r = "ok"
ContributedOptionsAreEnforced ==  \* enforced options with an EMPTY declared list (every option comes from plugins, like neutronicsKernel):
    IsDecl /\ ~D.hasCustom /\ D.enforced /\ Len(D.options) = 0 /\ D.default.t = "str" =>     \* until options arrive the type decides,
        LET z == VStr("2R")                                                                    \* afterwards exactly the options are admitted
            E == EffDecl([D EXCEPT !.mods = <<Opt(z), Dft(z)>>]) IN
        /\ Effective(D) = [k |-> "coerce", ty |-> "str"]
        /\ Effective(E) = [k |-> "in", opts |-> <<z>>]
        /\ DefaultAdmitted(E)
        /\ \A j \in 1..NU : (Store(E, U(j)).r = "ok") <=> PyEq(U(j), z)
NoModifiersNoChange == IsDecl => EffDecl(D) = D

\* ---- Python's == on the universe is an equivalence (In and literals rest on it); evaluated once
ASSUME \A a \in 1..NU : PyEq(U(a), U(a))
ASSUME \A a, b \in 1..NU : PyEq(U(a), U(b)) = PyEq(U(b), U(a))
ASSUME \A a, b \in 1..Len(Scalars) : \A c \in 1..Len(Scalars) :
           PyEq(Scalars[a], Scalars[b]) /\ PyEq(Scalars[b], Scalars[c]) => PyEq(Scalars[a], Scalars[c])
=====================================================================================================
