\* spec -> code: every edge of the io stories
CONSTANTS MaxObj = 2  MaxLevel = 8  HandFiles <- McHandFiles  Styles <- StylesAll  CopyKinds <- KindsTwo  Ops <- OpsIO  Generic <- GenQ
INIT Init
NEXT Next
CONSTRAINT Bound
VIEW View
ACTION_CONSTRAINT EmitIo
CHECK_DEADLOCK FALSE
