\* spec -> code (thorough): every edge of the io stories with P Q R V Z
CONSTANTS MaxObj = 2  MaxLevel = 8  HandFiles <- McHandFiles  Styles <- StylesAll  CopyKinds <- KindsTwo  Ops <- OpsIO  Generic <- GenQR
INIT Init
NEXT Next
CONSTRAINT Bound
VIEW View
ACTION_CONSTRAINT EmitIo
CHECK_DEADLOCK FALSE
