\* exhaustive (thorough): every action group, P Q R V Z, three objects, all hand files, depth 4, no plan
CONSTANTS MaxObj = 3  MaxLevel = 4  HandFiles <- McHandFilesAll  Styles <- StylesAll  CopyKinds <- KindsAll  Ops <- OpsAll  Generic <- GenQR
INIT Init
NEXT Next
CONSTRAINT Bound
INVARIANT TypeOK
INVARIANT WrittenValuesAreCurrent
INVARIANT ShortOmitsExactlyDefaults
INVARIANT FullWritesAll
INVARIANT MediumIsShortPlusUserSet
INVARIANT NoDuplicateEntries
INVARIANT ReadIsOverlay
INVARIANT RoundTripFresh
INVARIANT RoundTripFull
INVARIANT UneditedFilesAreAccepted
INVARIANT RefusalKeepsEverything
INVARIANT ReadRefusalKeepsPrevious
INVARIANT StoredValuesAreCanonical
INVARIANT RenameLands
INVARIANT CurrentNameWins
INVARIANT UnknownNamesAreReportedAndIgnored
INVARIANT OthersUntouched
INVARIANT CopiesStartEqual
INVARIANT AdHocStaysWithTheCopy
INVARIANT LateSettingOnlyWhereItExists
CHECK_DEADLOCK FALSE
