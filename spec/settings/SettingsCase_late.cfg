\* exhaustive, the late-plugin stories (LatePlan): read, then the plugin with the renamed setting arrives, then reads under its old name
CONSTANTS MaxObj = 3  MaxLevel = 10  HandFiles <- McHandFilesLate  Styles <- StylesAll  CopyKinds <- KindsTwo  Ops <- OpsLate  Generic <- GenQ
INIT Init
NEXT Next
CONSTRAINT Bound
ACTION_CONSTRAINT LatePlan
INVARIANT TypeOK
INVARIANT WrittenValuesAreCurrent
INVARIANT ShortOmitsExactlyDefaults
INVARIANT FullWritesAll
INVARIANT MediumIsShortPlusUserSet
INVARIANT NoDuplicateEntries
INVARIANT ReadIsOverlay
INVARIANT RoundTripFresh
INVARIANT RoundTripFull
INVARIANT UneditedFilesAreAccepted
INVARIANT RefusalKeepsEverything
INVARIANT ReadRefusalKeepsPrevious
INVARIANT StoredValuesAreCanonical
INVARIANT RenameLands
INVARIANT CurrentNameWins
INVARIANT UnknownNamesAreReportedAndIgnored
INVARIANT OthersUntouched
INVARIANT CopiesStartEqual
INVARIANT AdHocStaysWithTheCopy
INVARIANT LateSettingOnlyWhereItExists
CHECK_DEADLOCK FALSE
