---------------------------------------- MODULE SettingsCase_mc ----------------------------------------
(* Bounds, hand-written files, exploration plans and edge emission for SettingsCase.
   A *plan* is an ACTION_CONSTRAINT: it selects which behaviours TLC explores (and the harness replays) so that the
   interesting stories -- configure, write, edit, read into another object, write again; copy, then change either side --
   are reached within a small graph.  Plans restrict exploration only; every invariant is checked on whatever is explored,
   and the unconstrained graph is explored as well (SettingsCase_mc.cfg, SettingsCase_emit_all*.cfg). *)
EXTENDS SettingsCase, Json
E(n, t) == [n |-> n, t |-> t]
\* hand-written files: old names alone and mixed with the current name in both orders, unknown names, explicit defaults,
\* a refused value after entries that are applied, a refused value under an old name
McHandFiles == { <<E("Po", "a")>>, <<E("Po", "a"), E("P", "b")>>, <<E("P", "b"), E("Po", "ca")>>,
                 <<E("Zz", "a"), E("Q", "a")>>, <<E("Q", "ca"), E("P", "x"), E("V", "a")>>, <<E("Q", "b"), E("Po", "x")>>,
                 <<E("Q", "d"), E("V", "a")>> }
McHandFilesSmall == { <<E("Po", "a"), E("P", "b")>>, <<E("Q", "ca"), E("Po", "x")>>, <<E("Zz", "a"), E("Q", "d")>> }
NoHandFiles == {}
\* for the late-plugin stories: a file without the late setting (read before the plugin arrives), and files that use its old
\* name, alone, with other settings, and its current name next to another setting's old name
McHandFilesLate == { <<E("Q", "a")>>, <<E("No", "a")>>, <<E("No", "b"), E("Q", "a")>>, <<E("N", "a"), E("Po", "a")>> }
McHandFilesAll == McHandFiles \cup McHandFilesLate
GenQ  == <<"Q">>
GenQR == <<"Q", "R">>
OpsAll  == {"assign", "io", "tamper", "hand", "copy", "misc", "late"}
OpsLate == {"assign", "io", "tamper", "hand", "late"}
OpsIO   == {"assign", "io", "tamper", "hand"}
OpsCopy == {"assign", "copy", "misc"}
StylesAll == {"short", "medium", "full"}
KindsAll  == {"duplicate", "deepcopy", "pickle", "titled"}
KindsTwo  == {"duplicate", "pickle"}

Bound == TLCGet("level") <= MaxLevel
Lvl == TLCGet("level")
An == last'.a
\* configure object 1 (at most two assignments, then no more), write, edit at most once, create object 2 (which may be given
\* one value of its own, to see the overlay), read into it, write again (medium after a file), read again
IoPlan ==
    /\ An.n \in {"Assign", "AssignBad", "AssignUnknown"} =>
          \/ An.o = 1 /\ file.style = "none" /\ Lvl <= 2
          \/ An.o = 2 /\ file.style # "none" /\ An.n = "Assign" /\ An.s = "Q" /\ An.r = "b" /\ val[2] = AllD /\ last.a.n = "New"
    /\ An.n = "New" => file.style # "none" /\ last.a.n \in {"Write", "SetBad", "SetOld", "AddUnknown", "HandWrite"}
    /\ An.n = "Write" => An.o = 1 /\ (file.style = "none" \/ (An.style = "medium" /\ last.a.n = "Read"))
    /\ An.n \in {"SetBad", "SetOld", "AddUnknown"} => file.clean /\ last.a.n = "Write"
    /\ An.n = "HandWrite" => file.style = "none"
    /\ An.n = "Read" => An.o = 2 /\ last.a.n \in {"New", "Assign", "Write"}
\* the same stories with three configuring assignments and any first assignment on the reading object (thorough)
IoPlanT ==
    /\ An.n \in {"Assign", "AssignBad", "AssignUnknown"} =>
          \/ An.o = 1 /\ file.style = "none" /\ Lvl <= 3
          \/ An.o = 2 /\ file.style # "none" /\ An.n = "Assign" /\ An.r \in {"a", "b"} /\ val[2] = AllD /\ last.a.n = "New"
    /\ An.n = "New" => file.style # "none" /\ last.a.n \in {"Write", "SetBad", "SetOld", "AddUnknown", "HandWrite"}
    /\ An.n = "Write" => An.o = 1 /\ (file.style = "none" \/ (An.style = "medium" /\ last.a.n = "Read"))
    /\ An.n \in {"SetBad", "SetOld", "AddUnknown"} => last.a.n \in {"Write", "SetBad", "SetOld", "AddUnknown"} /\ Lvl <= 6
    /\ An.n = "HandWrite" => file.style = "none"
    /\ An.n = "Read" => An.o = 2 /\ last.a.n \in {"New", "Assign", "Write"}
\* one or two assignments on object 1, a copy (any way), then one thing on either object
CopyPlan ==
    /\ An.n \in {"Assign", "AssignBad", "AssignUnknown", "GetSet", "Revert"} =>
          \/ An.o = 1 /\ Cardinality(objs) = 1 /\ Lvl <= 2 /\ An.n = "Assign" /\ An.r # "d"
          \/ Cardinality(objs) = 2 /\ last.a.n \in {"Modified", "ModifiedObj", "ModifiedNewKey", "Duplicate", "New"}
    /\ An.n \in {"Modified", "ModifiedObj", "ModifiedNewKey", "ModifiedBad", "Duplicate", "New"} => Cardinality(objs) = 1

\* a settings text is read, THEN the plugin with the renamed setting N arrives, then objects made afterwards read texts that
\* use N's old name (hand-written, or written by such an object and edited) -- and so does the object made before
MentionsN(es) == \E q \in 1..Len(es) : Target(es[q].n) = "N"
LatePlan ==
    /\ An.n \in {"HandWrite", "Read", "Register", "New", "Assign", "Write", "SetOld"}
    /\ An.n = "HandWrite" => ((file.style = "none" /\ ~reg /\ ~MentionsN(An.es))
                              \/ (reg /\ last.a.n = "New" /\ MentionsN(An.es) /\ Cardinality(objs) = 2))
    /\ An.n = "Read" => last.a.n \in {"HandWrite", "SetOld", "New", "Read"} /\ (last.a.n = "Read" => last.a.o # An.o /\ reg)
    /\ An.n = "Register" => last.a.n = "Read"
    /\ An.n = "New" => (last.a.n = "Register" \/ (reg /\ last.a.n \in {"Write", "SetOld"}))
    /\ An.n = "Assign" => reg /\ An.s = "N" /\ An.o = 2 /\ last.a.n = "New" /\ An.r \in {"a", "ca"} /\ Cardinality(objs) = 2
    /\ An.n = "Write" => An.o = 2 /\ last.a.n = "Assign"
    /\ An.n = "SetOld" => last.a.n = "Write" /\ file.es[An.i].n = "N"
\* emission: the edge label lives in `last`; states are identified without it
St == [n |-> Cardinality(objs), val |-> [o \in 1..Cardinality(objs) |-> val[o]],
       file |-> [es |-> file.es, style |-> file.style], err |-> err,
       inv |-> SelectSeq(<<"N", "No", "Po", "Xk", "Zz">>, LAMBDA x : x \in inv), shared |-> <<>>, kinds |-> <<>>,
       extra |-> SelectSeq([o \in 1..Cardinality(objs) |-> o], LAMBDA o : o \in extra),
       late |-> SelectSeq([o \in 1..Cardinality(objs) |-> o], LAMBDA o : o \in late), reg |-> reg]
View == <<objs, val, file, err, inv, extra, reg, late>>
Emit == PrintT(ToJson([lvl |-> TLCGet("level"), from |-> St, act |-> last'.a, to |-> St']))
EmitIo == IoPlan /\ Emit
EmitCopy == CopyPlan /\ Emit
EmitIoT == IoPlanT /\ Emit
EmitLate == LatePlan /\ Emit
=====================================================================================================
