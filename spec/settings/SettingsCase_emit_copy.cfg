\* spec -> code: every edge of the copy stories
CONSTANTS MaxObj = 2  MaxLevel = 5  HandFiles <- NoHandFiles  Styles <- StylesAll  CopyKinds <- KindsAll  Ops <- OpsCopy  Generic <- GenQ
INIT Init
NEXT Next
CONSTRAINT Bound
VIEW View
ACTION_CONSTRAINT EmitCopy
CHECK_DEADLOCK FALSE
