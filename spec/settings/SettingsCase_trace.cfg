\* trace validation: four objects, every action, all hand files, no depth bound
CONSTANTS MaxObj = 4  MaxLevel = 9999  HandFiles <- McHandFilesAll  Styles <- StylesAll  CopyKinds <- KindsAll  Ops <- OpsAll  Generic <- GenQR
SPECIFICATION TSpec
CONSTRAINT Progress
POSTCONDITION Report
INVARIANT TypeOK
INVARIANT WrittenValuesAreCurrent
INVARIANT ShortOmitsExactlyDefaults
INVARIANT FullWritesAll
INVARIANT MediumIsShortPlusUserSet
INVARIANT NoDuplicateEntries
INVARIANT ReadIsOverlay
INVARIANT RoundTripFresh
INVARIANT RoundTripFull
INVARIANT UneditedFilesAreAccepted
INVARIANT RefusalKeepsEverything
INVARIANT ReadRefusalKeepsPrevious
INVARIANT StoredValuesAreCanonical
INVARIANT RenameLands
INVARIANT CurrentNameWins
INVARIANT UnknownNamesAreReportedAndIgnored
INVARIANT OthersUntouched
INVARIANT CopiesStartEqual
INVARIANT AdHocStaysWithTheCopy
INVARIANT LateSettingOnlyWhereItExists
CHECK_DEADLOCK FALSE
