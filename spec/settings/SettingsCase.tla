----------------------------------------- MODULE SettingsCase -----------------------------------------
(***************************************************************************************************************
C17, part 2 of 2 -- Settings objects, settings files and copies as a state machine.

  "Any valid assignment of values to the defined settings, written to a settings file in any of the supported styles and
   read back, yields equal values for every setting (settings left at default stay at default, and the short style omits
   exactly those) ...  Values that violate a setting's type, option list or schema are rejected with an error when
   assigned or read and leave the previous value in place; renamed settings are accepted under their old names and land
   on the new ones.  Modified copies of a settings object do not affect the original."

Values are abstract here: per setting a default "d" and non-default stored values "a", "b"; inputs are the stored values
themselves, "ca" (an input that is not in stored form and coerces to "a", e.g. "3" for 3) and "x" (an input the setting's
schema refuses).  Which concrete values play these roles for which real setting is decided by TLC's evaluation of
SettingSchema over the catalog of real settings (part 1); the harness instantiates every abstract setting name with a
whole *class* of real settings at once, so one behaviour of this module exercises every real setting.

Setting names:  P  a setting that was renamed (old name "Po" still active), Q, R  ordinary settings,
                V  the `versions` setting, whose entry `armi` the writer stamps into every file (values of V are taken
                   modulo that entry: the stamp belongs to the writer, not to the user),
                Z  the settings nobody touches in a behaviour (always at default; still written by the full style and by
                   the medium style after a file that mentioned them).
                N  a renamed setting (old name "No") of a plugin that is registered in the middle of a behaviour (action
                   Register): only objects made after that have it -- fresh ones, and copies (a copy takes its settings
                   from the app: Settings.__setstate__) -- and to the others N and No are just unknown names.
File names also include old names (Po, No) and names no setting has ("Zz": unknown or an *expired* old name).

Actions and the code they transcribe (armi/settings)
  New                 caseSettings.Settings()                                 every setting at its default
  Assign / AssignBad  Settings.__setitem__ -> Setting.setValue                schema first, then store; refusal raises and
                                                                              leaves the value (voluptuous Invalid, ...)
  AssignUnknown       Settings.__setitem__ for a name that is no setting      NonexistentSetting (old names included:
                                                                              renaming is a service of the reader only)
  Write(o, style)     Settings.writeToYamlStream/File -> SettingsWriter._getSettingDataToWrite/_preprocessYaml
                      short: off-default only; full: all; medium: off-default plus the names found in the user's file
                      (Settings.getSettingsSetByUser); values through Setting.dump; `versions` always present
  SetBad/SetOld/AddUnknown/HandWrite    a user editing or writing the file by hand
  Read(o)             Settings.loadFromString / loadFromInputFile -> SettingsReader._readYaml/_applySettings: entries in file
                      order, each assigned through the schema onto the object *as it is* (an overlay, not a reset); names
                      that are no setting are collected in reader.invalidSettings and ignored; an active old name is
                      redirected to the current name (SettingRenamer.renameSetting -- the statement's clause; see S7
                      below); a refused value raises out of the read, earlier entries stay applied.  _readYaml looks into
                      the `versions` entry before it applies anything, so a `versions` entry that is no mapping fails
                      the whole read at once (StampRefused).
  Modified            Settings.modified(newSettings={s: r})                   duplicate, then assign on the duplicate
  ModifiedObj         Settings.modified(newSettings={s: <Setting object>})    the Setting-object form: a Setting (here: a copy
                                                                              from getSetting, given the new value) replaces
                                                                              the duplicate's entry
  ModifiedNewKey      Settings.modified(newSettings={<no setting's name>: v}) the new-key form: the duplicate (only) gains an
                                                                              ad-hoc Setting "Xk" whose default is v; copies of
                                                                              it keep it (__setstate__); the full style (and
                                                                              medium after a file naming it) writes it; to an
                                                                              object without it the name is just unknown
  Duplicate(kind)     Settings.duplicate (= copy.deepcopy) / pickle round trip (__getstate__/__setstate__) /
                      "titled": Settings.modified(caseTitle=...) -- the case-title form (the harness also requires the
                      source object's path to be what it was)
  GetSet              Settings.getSetting(s) returns a copy of the Setting; assigning to it changes nothing
  Revert              Settings.revertToDefaults
  Register            getApp().pluginManager.register(<plugin defining N with an old name>)   the set of settings grows while
                      the process runs; readers made afterwards must know the new setting's old name whatever was read before

Interpretation choices
  * "read back" = read into a Settings object; reading overlays.  Equality for every setting is therefore claimed for a
    file read into a fresh object, and for a full-style file read into any object (RoundTripFresh, RoundTripFull); the
    general law is ReadIsOverlay.
  * Rename clause: the specification says what the statement says (RenameLands).  The code computes the new name in
    _applySettings and does not use it (suspect S7), so the replay of Read on files with old names is expected to expose it.
  * Copies "do not affect the original" is taken in both directions and for all live objects (OthersUntouched), and
    structurally: no mutable part is shared (observation `shared`, always empty here; the adapter computes it from object
    identities of Setting objects and container values), and every object is made of the same *kinds* of settings as a
    fresh one (observation `kinds`, always empty here: the settings whose class in some object differs from the class a
    fresh Settings object has for them -- a copy that holds the cross-section setting as a plain Setting cannot be written).
  * Ad-hoc settings (Settings.modified with a name that is no setting creates one) are modelled as far as the copy clause
    needs: which objects carry the one ad-hoc setting (`extra`), that copies inherit it, and how it shows in files.  Its
    value is never changed in a behaviour.
  * Settings.__setitem__ has one input form (a plain value).  The live Setting objects are also reachable through
    Settings.items(); the harness rotates Assign/AssignBad through cs[name] = v, Setting.setValue(v) and Setting.value = v.
  * The order of the entries of a file matters only for what a *refused* read leaves applied.  A file the real writer
    produced is sorted by real setting name; the harness keeps the entries of a file it edits or writes by hand grouped
    in this module's entry order (a user may arrange a file as he likes), so the prediction "entries before the refused one
    stay applied" is about an order the harness controls.

Clauses of the statement and the properties that state them
  written in any style and read back yields equal values       RoundTripFresh, RoundTripFull, ReadIsOverlay,
                                                                 UneditedFilesAreAccepted, WrittenValuesAreCurrent
  defaults stay default; short omits exactly those             ShortOmitsExactlyDefaults (FullWritesAll, MediumIsShortPlusUserSet
                                                                 for the other two styles), NoDuplicateEntries
  refused when assigned / read, previous value in place        RefusalKeepsEverything, ReadRefusalKeepsPrevious,
                                                                 StoredValuesAreCanonical
  renamed settings accepted under old names                    RenameLands (also for the setting that arrives by Register after
                                                                 files have been read), CurrentNameWins (a current name that
                                                                 is also someone's old name), UnknownNamesAreReportedAndIgnored,
                                                                 LateSettingOnlyWhereItExists
  modified copies do not affect the original                   OthersUntouched, CopiesStartEqual, AdHocStaysWithTheCopy,
                                                                 observation `shared`; all input forms of modified():
                                                                 plain value, Setting object, new key, case title
  (nested / plugin settings, all values: by instantiation -- SettingSchema_cat decides the concrete values per real setting)
***************************************************************************************************************)
EXTENDS Integers, Sequences, FiniteSets, TLC

CONSTANTS MaxObj,          \* number of Settings objects a behaviour may create
          MaxLevel,        \* depth bound (state constraint)
          HandFiles,       \* the hand-written files offered (a set of entry sequences)
          Styles,          \* write styles explored
          CopyKinds,       \* {"duplicate", "deepcopy", "pickle"}
          Ops,             \* action groups enabled: subset of {"assign", "io", "tamper", "hand", "copy", "misc"}
          Generic          \* the ordinary settings as a sequence: <<"Q">> or <<"Q", "R">>

Order   == <<"P", "N">> \o Generic \o <<"V", "Z">>    \* the writer's order (sorted by lower-cased name)
Names   == {Order[i] : i \in 1..Len(Order)}
\* active renames.  "Q" is in the table too: the ordinary setting Q bears a name that P used to have (a plugin re-using a
\* retired name).  SettingRenamer.renameSetting: "If the name corresponds to a current setting name, do not attempt to rename
\* it" -- the current-name rule comes first, so a file entry Q is Q's and never lands on P (Target, CurrentNameWins).
OldOf   == [n \in {"Po", "No", "Q"} |-> IF n = "No" THEN "N" ELSE "P"]
OldOnly == DOMAIN OldOf \ Names          \* the names that are nothing but old names
Unknown == {"Zz"}
AdHoc   == "Xk"                            \* the ad-hoc setting Settings.modified creates for a name that is no setting
FileNames == Names \cup DOMAIN OldOf \cup Unknown \cup {AdHoc}
Stored  == {"d", "a", "b"}
RawOk   == Stored \cup {"ca"}
RawBad  == {"x"}
Raw     == RawOk \cup RawBad
Canon(r) == IF r = "ca" THEN "a" ELSE r
Toks(s)  == IF s = "V" THEN {"d", "a"} ELSE IF s = "Z" THEN {"d"} ELSE Stored
Admits(s, r) == r \in RawOk /\ Canon(r) \in Toks(s)
AllD == [s \in Names |-> "d"]

VARIABLES objs,    \* live Settings objects (1..k)
          val,     \* val[o][s]: the stored value of setting s in object o
          file,    \* the settings file: [es: entries <<[n, t]>>, style, src: values of the writing object, clean: not edited]
          err,     \* outcome of the last call: "", "Invalid", "Nonexistent"
          inv,     \* names the last successful read reported as invalid (reader.invalidSettings)
          extra,   \* the objects that carry the ad-hoc setting
          reg,     \* the plugin that defines N has been registered
          late,    \* the objects that have the setting N (made after the registration)
          last     \* the last action and the state before it (for the invariants and the emitted edge label)
vars == <<objs, val, file, err, inv, extra, reg, late, last>>
Has(o, s) == s # "N" \/ o \in late      \* object o has a setting named s

NoFile == [es |-> <<>>, style |-> "none", src |-> AllD, clean |-> FALSE]
EntryNames(f) == {f.es[i].n : i \in 1..Len(f.es)}

TypeOK ==
    /\ objs = 1..Cardinality(objs) /\ Cardinality(objs) \in 1..MaxObj
    /\ val \in [objs -> [Names -> Stored]]
    /\ \A o \in objs : \A s \in Names : val[o][s] \in Toks(s)
    /\ file.style \in {"none", "hand", "short", "medium", "full"}
    /\ \A i \in 1..Len(file.es) : file.es[i].n \in FileNames /\ file.es[i].t \in Raw
    /\ err \in {"", "Invalid", "Nonexistent"}
    /\ inv \subseteq FileNames
    /\ extra \subseteq objs
    /\ reg \in BOOLEAN /\ late \subseteq objs

Init == /\ objs = {1}
        /\ val = [o \in {1} |-> AllD]
        /\ file = NoFile
        /\ err = ""
        /\ inv = {}
        /\ extra = {}
        /\ reg = FALSE /\ late = {}
        /\ last = [a |-> [n |-> "Init"], pre |-> [o \in {1} |-> AllD], prex |-> {}, prel |-> {}, prer |-> FALSE]

Did(a) == last' = [a |-> a, pre |-> val, prex |-> extra, prel |-> late, prer |-> reg]
Fresh == Cardinality(objs) + 1
Born == late' = IF reg THEN late \cup {Fresh} ELSE late       \* an object made now has N iff the plugin is registered

\* ------------------------------------------------------------------------------------------------ objects, assignment
New ==
    /\ "copy" \in Ops \/ "io" \in Ops
    /\ Fresh <= MaxObj
    /\ objs' = objs \cup {Fresh} /\ val' = [o \in objs \cup {Fresh} |-> IF o = Fresh THEN AllD ELSE val[o]]
    /\ err' = "" /\ UNCHANGED <<file, inv, extra, reg>> /\ Born /\ Did([n |-> "New", id |-> Fresh])

Assign(o, s, r) ==
    /\ "assign" \in Ops /\ Admits(s, r) /\ Has(o, s)
    /\ val' = [val EXCEPT ![o][s] = Canon(r)]
    /\ err' = "" /\ UNCHANGED <<objs, file, inv, extra, reg, late>> /\ Did([n |-> "Assign", o |-> o, s |-> s, r |-> r])

AssignBad(o, s) ==                       \* refused: the previous value stays
    /\ "assign" \in Ops /\ Has(o, s)
    /\ err' = "Invalid" /\ UNCHANGED <<objs, val, file, inv, extra, reg, late>> /\ Did([n |-> "AssignBad", o |-> o, s |-> s, r |-> "x"])

AssignUnknown(o, nm) ==                  \* neither unknown nor old names are settings of the object
    /\ "assign" \in Ops /\ nm \in OldOnly \cup Unknown \cup (IF Has(o, "N") THEN {} ELSE {"N"})
    /\ err' = "Nonexistent" /\ UNCHANGED <<objs, val, file, inv, extra, reg, late>> /\ Did([n |-> "AssignUnknown", o |-> o, nm |-> nm])

Revert(o) ==
    /\ "misc" \in Ops
    /\ val' = [val EXCEPT ![o] = AllD]
    /\ err' = "" /\ UNCHANGED <<objs, file, inv, extra, reg, late>> /\ Did([n |-> "Revert", o |-> o])

GetSet(o, s, r) ==                       \* getSetting returns a copy: whatever is done to it stays with it
    /\ "misc" \in Ops /\ r \in Raw /\ (r \in RawOk => Admits(s, r)) /\ Has(o, s)
    /\ err' = IF r \in RawBad THEN "Invalid" ELSE ""
    /\ UNCHANGED <<objs, val, file, inv, extra, reg, late>> /\ Did([n |-> "GetSet", o |-> o, s |-> s, r |-> r])

\* ------------------------------------------------------------------------------------------------ writing
UserSet == EntryNames(file) \cap Names   \* medium: the names the user's file mentions (exact current names only)
AdHocWritten(o, style) ==                \* the ad-hoc setting is always at its default: full writes it, medium if the user's file named it
    o \in extra /\ (style = "full" \/ (style = "medium" /\ AdHoc \in EntryNames(file)))
Written(o, style) ==
    {s \in {n \in Names : Has(o, n)} :
                   \/ style = "full"
                   \/ val[o][s] # "d"
                   \/ style = "medium" /\ s \in UserSet
                   \/ s = "V"}                                    \* the version stamp is always written
SeqOver(S) ==                            \* the members of S in the writer's order
    LET F[i \in 0..Len(Order)] == IF i = 0 THEN <<>> ELSE IF Order[i] \in S THEN Append(F[i - 1], Order[i]) ELSE F[i - 1]
    IN F[Len(Order)]
Write(o, style) ==
    /\ "io" \in Ops /\ style \in Styles
    /\ style = "medium" => file.style # "none"
    /\ LET ws == SeqOver(Written(o, style))
           es == [i \in 1..Len(ws) |-> [n |-> ws[i], t |-> val[o][ws[i]]]] IN
       file' = [es |-> IF AdHocWritten(o, style) THEN Append(es, [n |-> AdHoc, t |-> "d"]) ELSE es,
                style |-> style, src |-> val[o], clean |-> TRUE]
    /\ err' = "" /\ UNCHANGED <<objs, val, inv, extra, reg, late>> /\ Did([n |-> "Write", o |-> o, style |-> style, user |-> SeqOver(UserSet)])

\* -- a user edits the file
SetBad(i) ==                             \* replace a value by one the setting refuses
    /\ "tamper" \in Ops /\ i \in 1..Len(file.es) /\ file.es[i].t \in RawOk /\ file.es[i].n \notin Unknown \cup {AdHoc}
    /\ file' = [file EXCEPT !.es[i].t = "x", !.clean = FALSE]
    /\ err' = "" /\ UNCHANGED <<objs, val, inv, extra, reg, late>> /\ Did([n |-> "SetBad", i |-> i])
SetOld(i) ==                             \* use the old name of a renamed setting
    /\ "tamper" \in Ops /\ i \in 1..Len(file.es)
    /\ \E old \in OldOnly : /\ OldOf[old] = file.es[i].n /\ old \notin EntryNames(file)
                                 /\ file' = [file EXCEPT !.es[i].n = old, !.clean = FALSE]
    /\ err' = "" /\ UNCHANGED <<objs, val, inv, extra, reg, late>> /\ Did([n |-> "SetOld", i |-> i])
AddUnknown ==                            \* add a name no setting has
    /\ "tamper" \in Ops /\ file.style # "none" /\ "Zz" \notin EntryNames(file)
    /\ file' = [file EXCEPT !.es = Append(@, [n |-> "Zz", t |-> "a"]), !.clean = FALSE]
    /\ err' = "" /\ UNCHANGED <<objs, val, inv, extra, reg, late>> /\ Did([n |-> "AddUnknown"])
HandWrite(es) ==
    /\ "hand" \in Ops /\ es \in HandFiles
    /\ file' = [es |-> es, style |-> "hand", src |-> AllD, clean |-> FALSE]
    /\ err' = "" /\ UNCHANGED <<objs, val, inv, extra, reg, late>> /\ Did([n |-> "HandWrite", es |-> es])

\* ------------------------------------------------------------------------------------------------ reading
Target(nm) == IF nm \in Names THEN nm ELSE IF nm \in DOMAIN OldOf THEN OldOf[nm] ELSE "none"
\* the setting of object o a file name stands for ("none": o has no such setting -- the entry is reported and ignored)
TargetIn(nm, o) == IF Target(nm) # "none" /\ Has(o, Target(nm)) THEN Target(nm) ELSE "none"
Known(nm, o) == TargetIn(nm, o) # "none" \/ (nm = AdHoc /\ o \in extra)
Refused(e, o) == TargetIn(e.n, o) # "none" /\ ~Admits(TargetIn(e.n, o), e.t)
FirstRefused(es, o) == IF \E i \in 1..Len(es) : Refused(es[i], o)
                       THEN CHOOSE i \in 1..Len(es) : Refused(es[i], o) /\ \A j \in 1..(i - 1) : ~Refused(es[j], o)
                       ELSE 0
\* _readYaml looks into the `versions` entry (for the armi version the file was written with) before it applies anything:
\* a `versions` entry that is not a mapping makes the whole read fail at once
StampRefused(es, o) == \E i \in 1..Len(es) : es[i].n = "V" /\ Refused(es[i], o)
RefusedAt(es, o) == IF StampRefused(es, o) THEN CHOOSE i \in 1..Len(es) : es[i].n = "V" ELSE FirstRefused(es, o)   \* 0: nothing refused
AppliedBefore(es, o) == IF StampRefused(es, o) THEN 0 ELSE FirstRefused(es, o) - 1                            \* entries applied before the refusal
Applied(v, es, k, o) ==                  \* v after the first k entries (none of them refused); the ad-hoc entry holds its default
    LET F[i \in 0..k] == IF i = 0 THEN v
                         ELSE IF TargetIn(es[i].n, o) = "none" THEN F[i - 1]
                         ELSE [F[i - 1] EXCEPT ![TargetIn(es[i].n, o)] = Canon(es[i].t)]
    IN F[k]
Read(o) ==
    /\ "io" \in Ops /\ file.style # "none"
    /\ LET es == file.es IN
       IF RefusedAt(es, o) = 0
       THEN /\ val' = [val EXCEPT ![o] = Applied(val[o], es, Len(es), o)]
            /\ err' = ""
            /\ inv' = {es[i].n : i \in {j \in 1..Len(es) : ~Known(es[j].n, o)}}
       ELSE /\ val' = [val EXCEPT ![o] = Applied(val[o], es, AppliedBefore(es, o), o)]   \* the entries before the refused one stay applied
            /\ err' = "Invalid"
            /\ inv' = {}
    /\ UNCHANGED <<objs, file, extra, reg, late>> /\ Did([n |-> "Read", o |-> o])

\* ------------------------------------------------------------------------------------------------ a plugin arrives
Register ==
    /\ "late" \in Ops /\ ~reg
    /\ reg' = TRUE
    /\ err' = "" /\ UNCHANGED <<objs, val, file, inv, extra, late>> /\ Did([n |-> "Register"])

\* ------------------------------------------------------------------------------------------------ copies
Inherit(o) == IF o \in extra THEN extra \cup {Fresh} ELSE extra         \* a copy carries the ad-hoc setting iff its source does
Modified(o, s, r) ==
    /\ "copy" \in Ops /\ Fresh <= MaxObj /\ Admits(s, r) /\ Has(o, s)
    /\ objs' = objs \cup {Fresh}
    /\ val' = [p \in objs \cup {Fresh} |-> IF p = Fresh THEN [val[o] EXCEPT ![s] = Canon(r)] ELSE val[p]]
    /\ extra' = Inherit(o)
    /\ err' = "" /\ UNCHANGED <<file, inv, reg>> /\ Born /\ Did([n |-> "Modified", o |-> o, s |-> s, r |-> r, id |-> Fresh])
ModifiedObj(o, s, r) ==                  \* the same change handed over as a Setting object
    /\ "copy" \in Ops /\ Fresh <= MaxObj /\ Admits(s, r) /\ Has(o, s)
    /\ objs' = objs \cup {Fresh}
    /\ val' = [p \in objs \cup {Fresh} |-> IF p = Fresh THEN [val[o] EXCEPT ![s] = Canon(r)] ELSE val[p]]
    /\ extra' = Inherit(o)
    /\ err' = "" /\ UNCHANGED <<file, inv, reg>> /\ Born /\ Did([n |-> "ModifiedObj", o |-> o, s |-> s, r |-> r, id |-> Fresh])
ModifiedNewKey(o) ==                     \* a name that is no setting: the copy, and only the copy, gains the ad-hoc setting
    /\ "copy" \in Ops /\ Fresh <= MaxObj /\ o \notin extra
    /\ objs' = objs \cup {Fresh}
    /\ val' = [p \in objs \cup {Fresh} |-> IF p = Fresh THEN val[o] ELSE val[p]]
    /\ extra' = extra \cup {Fresh}
    /\ err' = "" /\ UNCHANGED <<file, inv, reg>> /\ Born /\ Did([n |-> "ModifiedNewKey", o |-> o, id |-> Fresh])
ModifiedBad(o, s) ==                     \* the refused change raises out of modified(): no copy, nothing changed
    /\ "copy" \in Ops /\ Fresh <= MaxObj /\ Has(o, s)
    /\ err' = "Invalid" /\ UNCHANGED <<objs, val, file, inv, extra, reg, late>> /\ Did([n |-> "ModifiedBad", o |-> o, s |-> s, r |-> "x"])
Duplicate(o, kind) ==
    /\ "copy" \in Ops /\ Fresh <= MaxObj /\ kind \in CopyKinds
    /\ objs' = objs \cup {Fresh}
    /\ val' = [p \in objs \cup {Fresh} |-> IF p = Fresh THEN val[o] ELSE val[p]]
    /\ extra' = Inherit(o)
    /\ err' = "" /\ UNCHANGED <<file, inv, reg>> /\ Born /\ Did([n |-> "Duplicate", o |-> o, kind |-> kind, id |-> Fresh])

\* one named disjunct per action (TLC reports coverage per name)
DoAssign        == \E o \in objs, s \in Names, r \in RawOk : Assign(o, s, r)
DoAssignBad     == \E o \in objs, s \in Names : AssignBad(o, s)
DoAssignUnknown == \E o \in objs, nm \in FileNames : AssignUnknown(o, nm)
DoRegister      == Register
DoGetSet        == \E o \in objs, s \in Names, r \in {"a", "x"} : GetSet(o, s, r)
DoRevert        == \E o \in objs : Revert(o)
DoWrite         == \E o \in objs, st \in Styles : Write(o, st)
DoSetBad        == \E i \in 1..Len(file.es) : SetBad(i)
DoSetOld        == \E i \in 1..Len(file.es) : SetOld(i)
DoHandWrite     == \E es \in HandFiles : HandWrite(es)
DoRead          == \E o \in objs : Read(o)
DoModified      == \E o \in objs, s \in Names, r \in RawOk : Modified(o, s, r)
DoModifiedObj   == \E o \in objs, s \in Names, r \in {"a", "ca", "d"} : ModifiedObj(o, s, r)
DoModifiedNewKey == \E o \in objs : ModifiedNewKey(o)
DoModifiedBad   == \E o \in objs, s \in Names : ModifiedBad(o, s)
DoDuplicate     == \E o \in objs, kind \in CopyKinds : Duplicate(o, kind)
Next == \/ New \/ DoRegister \/ DoAssign \/ DoAssignBad \/ DoAssignUnknown \/ DoGetSet \/ DoRevert \/ DoWrite \/ DoSetBad \/ DoSetOld
        \/ AddUnknown \/ DoHandWrite \/ DoRead \/ DoModified \/ DoModifiedObj \/ DoModifiedNewKey \/ DoModifiedBad \/ DoDuplicate
Spec == Init /\ [][Next]_vars

\* ------------------------------------------------------------------------------------------------ properties
A == last.a
Pre == last.pre
OnObject == A.n \in {"Assign", "AssignBad", "AssignUnknown", "Revert", "GetSet", "Read", "Write", "Modified", "ModifiedObj", "ModifiedNewKey",
                     "ModifiedBad", "Duplicate"}

\* -- write styles
WrittenValuesAreCurrent ==               \* a written file holds, for each setting it mentions, the value the object has
    A.n = "Write" => \A i \in 1..Len(file.es) : IF file.es[i].n = AdHoc THEN A.o \in extra /\ file.es[i].t = "d"
                                                 ELSE file.es[i].n \in Names /\ file.es[i].t = val[A.o][file.es[i].n]
ShortOmitsExactlyDefaults ==             \* ... and the short style mentions exactly the settings off their default (+ stamp)
    A.n = "Write" /\ file.style = "short" => EntryNames(file) = {s \in Names : val[A.o][s] # "d"} \cup {"V"}
FullWritesAll == A.n = "Write" /\ file.style = "full" =>
                     EntryNames(file) = {s \in Names : Has(A.o, s)} \cup (IF A.o \in extra THEN {AdHoc} ELSE {})
MediumIsShortPlusUserSet ==              \* medium = short plus the settings the user's previous file mentioned by their current names
    A.n = "Write" /\ file.style = "medium" =>
        EntryNames(file) \ {AdHoc} = {s \in Names : val[A.o][s] # "d"} \cup {"V"} \cup {A.user[i] : i \in {j \in 1..Len(A.user) : Has(A.o, A.user[j])}}
NoDuplicateEntries == \A i, j \in 1..Len(file.es) : file.es[i].n = file.es[j].n => i = j

\* -- round trip
ReadOk == A.n = "Read" /\ err = ""
ReaderHasAll == \A s \in EntryNames(file) \cap Names : Has(A.o, s)     \* the reading object has every setting the file mentions
WriterHadAll == \A s \in Names : Has(A.o, s) => s \in EntryNames(file)   \* ... and the full file was written by an object that had
                                                                          \* every setting the reading object has
ReadIsOverlay ==                         \* an unedited written file, read: mentioned settings take the writer's values,
    ReadOk /\ file.clean =>              \* the others keep what the reading object had
        \A s \in Names : val[A.o][s] = IF s \in EntryNames(file) /\ Has(A.o, s) THEN file.src[s] ELSE Pre[A.o][s]
RoundTripFresh ==                        \* any style, read into a fresh object: equal values for every setting
    ReadOk /\ file.clean /\ Pre[A.o] = AllD /\ ReaderHasAll => val[A.o] = file.src
RoundTripFull ==                         \* full style, read into any object
    ReadOk /\ file.clean /\ file.style = "full" /\ ReaderHasAll /\ WriterHadAll => val[A.o] = file.src
UneditedFilesAreAccepted == A.n = "Read" /\ file.clean => err = "" /\ inv \subseteq {AdHoc, "N"}

\* -- refusal
RefusalKeepsEverything ==                \* a refused assignment (direct, through modified(), on a getSetting copy) changes nothing
    A.n \in {"AssignBad", "AssignUnknown", "ModifiedBad", "GetSet"} => val = Pre /\ (A.n # "GetSet" => err # "")
ReadRefusalKeepsPrevious ==              \* a refused entry leaves the value its setting had just before it
    A.n = "Read" /\ err = "Invalid" =>
        LET k == RefusedAt(file.es, A.o)  tgt == TargetIn(file.es[k].n, A.o)  n == AppliedBefore(file.es, A.o) IN
        /\ k > 0 /\ n < k
        /\ val[A.o][tgt] = Applied(Pre[A.o], file.es, n, A.o)[tgt]
        /\ \A s \in Names : (\A i \in 1..n : TargetIn(file.es[i].n, A.o) # s) => val[A.o][s] = Pre[A.o][s]
StoredValuesAreCanonical == \A o \in objs : \A s \in Names : val[o][s] \in Toks(s)

\* -- renames, unknown names
LastEntryFor(s, i) == \A j \in (i + 1)..Len(file.es) : Target(file.es[j].n) # s
RenameLands ==                           \* an entry under an active old name lands on the current name and is not "invalid"
    ReadOk => \A i \in 1..Len(file.es) : file.es[i].n \in OldOnly /\ Has(A.o, OldOf[file.es[i].n]) =>
                 /\ file.es[i].n \notin inv
                 /\ LastEntryFor(OldOf[file.es[i].n], i) => val[A.o][OldOf[file.es[i].n]] = Canon(file.es[i].t)
CurrentNameWins ==                       \* an entry under a current name that is also another setting's old name is that setting's own
    ReadOk => \A i \in 1..Len(file.es) : file.es[i].n \in Names \cap DOMAIN OldOf /\ Has(A.o, file.es[i].n) =>
                 /\ file.es[i].n \notin inv
                 /\ LastEntryFor(file.es[i].n, i) => val[A.o][file.es[i].n] = Canon(file.es[i].t)
                 /\ (\A j \in 1..Len(file.es) : TargetIn(file.es[j].n, A.o) # OldOf[file.es[i].n])
                        => val[A.o][OldOf[file.es[i].n]] = Pre[A.o][OldOf[file.es[i].n]]
UnknownNamesAreReportedAndIgnored ==
    ReadOk => inv = (EntryNames(file) \cap Unknown) \cup (IF AdHoc \in EntryNames(file) /\ A.o \notin extra THEN {AdHoc} ELSE {})
                    \cup {nm \in EntryNames(file) : Target(nm) = "N" /\ ~Has(A.o, "N")}
LateSettingOnlyWhereItExists ==          \* N lives in the objects made since its plugin was registered, and only there
    /\ \A o \in objs : ~Has(o, "N") => val[o]["N"] = "d"
    /\ \A p \in DOMAIN Pre : (p \in late) = (p \in last.prel)
    /\ A.n \in {"New", "Modified", "ModifiedObj", "ModifiedNewKey", "Duplicate"} => ((A.id \in late) = last.prer)
    /\ late # {} => reg

\* -- copies
OthersUntouched ==                       \* whatever is done to or with one object leaves every other object as it was
    OnObject => \A p \in DOMAIN Pre : p # A.o => val[p] = Pre[p]
CopiesStartEqual ==
    /\ A.n = "Duplicate" => val[A.id] = Pre[A.o] /\ val[A.o] = Pre[A.o]
    /\ A.n \in {"Modified", "ModifiedObj"} => val[A.id] = [Pre[A.o] EXCEPT ![A.s] = Canon(A.r)] /\ val[A.o] = Pre[A.o]
    /\ A.n = "ModifiedNewKey" => val[A.id] = Pre[A.o] /\ val[A.o] = Pre[A.o]
    /\ A.n = "New" => val[A.id] = AllD
AdHocStaysWithTheCopy ==                 \* no action gives an existing object the ad-hoc setting or takes it away;
    /\ \A p \in DOMAIN Pre : (p \in extra) = (p \in last.prex)                                       \* a new object has it iff
    /\ A.n \in {"Modified", "ModifiedObj", "Duplicate"} => ((A.id \in extra) = (A.o \in last.prex))    \* its source had it, or it
    /\ A.n = "ModifiedNewKey" => A.id \in extra /\ A.o \notin extra                                    \* was made by the new-key form
    /\ A.n = "New" => A.id \notin extra
=====================================================================================================
