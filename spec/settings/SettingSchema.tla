---------------------------------------- MODULE SettingSchema ----------------------------------------
(***************************************************************************************************************
C17, part 1 of 2 -- what a single armi setting admits, what it stores, and what it writes.

  "Values that violate a setting's type, option list or schema are rejected with an error when assigned or read";
  "any valid assignment ... written ... and read back yields equal values".

Both clauses are per setting and per value, so this module is a *function* specification: a small data model of the
values a YAML settings file can hold, the validation language armi uses (voluptuous), the rule by which a Setting
derives its schema from its declaration, and the value-level laws the round trip depends on.  TLC evaluates it
 (a) over a synthetic space of schemas (SettingSchema_mc: the semantic laws below are invariants), and
 (b) over the *catalog* of the real settings (SettingSchema_cat: one printed case per setting and candidate value, with
     the verdict and the stored value; the harness executes `cs[name] = value` once per case on the real code).

What is transcribed from the code
  EffDecl(s)          armi/apps.py  App.getSettings: a plugin's settings.Option / settings.Default for a setting another plugin
                      defines is merged into the declaration, whichever of the two plugins is registered first.
  Effective(s)        armi/settings/setting.py  Setting._setSchema: the schema passed to the constructor if any; else
                      In(options) if options are given *and* enforced; else [Coerce(type(default[0]))] for a non-empty
                      list default; else Coerce(type(default)).   (Setting.addOptions re-derives it.)
  Val(schema, v)      voluptuous 0.16: Schema/Coerce/Range/In/All/Any/Length, list schemas (each element must match one
                      of the element validators, data must be a list), dict schemas (literal keys optional unless
                      Required, extra keys refused, typed keys), scalar type checks (isinstance) and literals (==).
  Coerce(T, v)        Python's T(v) for T in bool,int,float,str,list,dict with ValueError/TypeError => refusal.
  Fn...               the named validators: globalSettings._isMonotonicIncreasing, _mutuallyExclusiveCyclesInputs,
                      crossSectionSettings.xsSettingsValidator (serializeXSSettings ; _XS_SCHEMA ; XSModelingOptions +
                      validate), tightCouplingSettings.tightCouplingSettingsValidator, FlagListSetting.schema.
  Store / Dump        Setting.setValue (= schema then _load) and Setting.dump (identity; flags -> their names; the
                      settings objects -> their dictionaries).
  ActiveOld(s,today)  settingsIO.SettingRenamer.__init__: an old name is active unless its expiry date is <= today.

Interpretation choices
  * "violates the type" means: the coercion the schema prescribes is undefined for the value (int("abc"), float(None),
    list(3)).  armi coerces on purpose ("The val is automatically coerced into the expected type"), so 3.7 assigned to an
    int setting is *accepted* and stored as 3, and any value is accepted by a bool or str setting.  The specification
    follows the code here; the stored value is the coerced one and it is the coerced value that must survive the file.
  * Values are the YAML/JSON data model (None, bool, int, float, str, list, dict with string keys) plus armi Flags.
    Floats are exact decimal fractions <<n, d>>; a float whose fraction does not fit 32 bits is opaque ("ofloat": only
    equality and str() are modelled).  Strings are atomic in TLC, so int("3"), str(1.5), list("abc"), len("AA") and
    Flags.fromString are *tables* over the strings of the universe; a value outside a table gives the result "unm"
    (unmodelled) which the harness skips and counts -- it never becomes a verdict.
  * YAML itself is assumed to carry this data model faithfully; the replay through the real writer and reader tests that.
***************************************************************************************************************)
EXTENDS Integers, Sequences, FiniteSets, TLC

\* ---------------------------------------------------------------------------------------------------- values
None       == [t |-> "none", v |-> ""]
VBool(b)    == [t |-> "bool", v |-> b]
VInt(i)     == [t |-> "int", v |-> i]
VFlt(n, d)  == [t |-> "float", v |-> <<n, d>>]
VOFlt(s)    == [t |-> "ofloat", v |-> s]
VStr(s)     == [t |-> "str", v |-> s]
VLst(q)     == [t |-> "list", v |-> q]
VDct(ks, vs) == [t |-> "dict", v |-> <<ks, vs>>]
VFlag(n)    == [t |-> "flag", v |-> n]
EmptyDict  == VDct(<<>>, <<>>)

Ok(v) == [r |-> "ok", v |-> v]
Bad   == [r |-> "bad", v |-> None]
Unm   == [r |-> "unm", v |-> None]

\* ---------------------------------------------------------------------------------------------------- numbers
IsNum(x) == x.t \in {"bool", "int", "float"}
NumQ(x)  == IF x.t = "bool" THEN (IF x.v THEN <<1, 1>> ELSE <<0, 1>>) ELSE IF x.t = "int" THEN <<x.v, 1>> ELSE x.v
Sgn(n)   == IF n > 0 THEN 1 ELSE IF n < 0 THEN 0 - 1 ELSE 0
RatCmp(a, b) ==              \* -1, 0, 1; signs first so that large numerators only meet zero bounds
    LET sa == Sgn(a[1])  sb == Sgn(b[1]) IN
    IF sa # sb THEN (IF sa < sb THEN 0 - 1 ELSE 1)
    ELSE IF sa = 0 THEN 0
    ELSE Sgn(a[1] * b[2] - b[1] * a[2])
Trunc(q) == IF q[1] >= 0 THEN q[1] \div q[2] ELSE 0 - ((0 - q[1]) \div q[2])      \* int(float): toward zero

\* ---------------------------------------------------------------------------------------------------- string tables
\* every string the universe or the pools below contain; a string outside gives "unm" where its characters matter
CharsOf == [s \in {"", "abc", "3", "-1", "1.5", "2R", "true", "null", "AA", "A", "AAA", "a", "b", "1"} |->
    CASE s = "" -> <<>>  [] s = "abc" -> <<"a", "b", "c">>  [] s = "3" -> <<"3">>  [] s = "-1" -> <<"-", "1">>
      [] s = "1.5" -> <<"1", ".", "5">>  [] s = "2R" -> <<"2", "R">>  [] s = "true" -> <<"t", "r", "u", "e">>
      [] s = "null" -> <<"n", "u", "l", "l">>  [] s = "AA" -> <<"A", "A">>  [] s = "A" -> <<"A">>
      [] s = "AAA" -> <<"A", "A", "A">>  [] s = "a" -> <<"a">>  [] s = "b" -> <<"b">>  [] s = "1" -> <<"1">>]
KnownStr == DOMAIN CharsOf
IntOfStr   == [s \in {"3", "-1"} |-> IF s = "3" THEN 3 ELSE 0 - 1]                       \* int(s); other known strings: ValueError
FloatOfStr == [s \in {"3", "-1", "1.5"} |-> IF s = "3" THEN <<3, 1>> ELSE IF s = "-1" THEN <<0 - 1, 1>> ELSE <<3, 2>>]
ReprOfFloat == [q \in {<<0, 1>>, <<1, 2>>, <<1, 1>>, <<3, 2>>, <<5, 2>>, <<0 - 1, 2>>, <<201, 2>>, <<2, 1>>, <<3, 1>>} |->
    CASE q = <<0, 1>> -> "0.0"  [] q = <<1, 2>> -> "0.5"  [] q = <<1, 1>> -> "1.0"  [] q = <<3, 2>> -> "1.5"
      [] q = <<5, 2>> -> "2.5"  [] q = <<0 - 1, 2>> -> "-0.5"  [] q = <<201, 2>> -> "100.5"  [] q = <<2, 1>> -> "2.0"
      [] q = <<3, 1>> -> "3.0"]
\* Flags.fromString is case-insensitive and maps spaces to underscores; toString gives the canonical name
FlagOfStr == [s \in {"fuel", "FUEL", "clad", "CLAD", "grid plate", "GRID_PLATE"} |->
    IF s \in {"fuel", "FUEL"} THEN "FUEL" ELSE IF s \in {"clad", "CLAD"} THEN "CLAD" ELSE "GRID_PLATE"]
NotAFlag == {"bogusflag"}                                                                \* InvalidFlagsError

\* ---------------------------------------------------------------------------------------------------- Python
Truthy(x) ==
    CASE x.t = "none" -> FALSE
      [] x.t = "bool" -> x.v
      [] x.t = "int" -> x.v # 0
      [] x.t = "float" -> x.v[1] # 0
      [] x.t = "str" -> x.v # ""
      [] x.t = "list" -> Len(x.v) > 0
      [] x.t = "dict" -> Len(x.v[1]) > 0
      [] OTHER -> TRUE                                              \* flags, opaque floats (never zero: zero is representable)

RECURSIVE PyEq(_, _)
PyEq(x, y) ==                                                       \* Python's ==  (1 == 1.0 == True; dicts ignore order)
    IF IsNum(x) /\ IsNum(y) THEN RatCmp(NumQ(x), NumQ(y)) = 0
    ELSE IF x.t # y.t THEN FALSE
    ELSE IF x.t = "list" THEN Len(x.v) = Len(y.v) /\ \A i \in 1..Len(x.v) : PyEq(x.v[i], y.v[i])
    ELSE IF x.t = "dict" THEN /\ Len(x.v[1]) = Len(y.v[1])
                              /\ \A i \in 1..Len(x.v[1]) : \E j \in 1..Len(y.v[1]) :
                                     PyEq(x.v[1][i], y.v[1][j]) /\ PyEq(x.v[2][i], y.v[2][j])
    ELSE x.v = y.v

\* strict structural equality (1 is not 1.0; dict order matters).  TLC orders record fields arbitrarily, so `=` on two
\* values with different tags may compare the payloads first and fail; every comparison of values goes through Same.
RECURSIVE Same(_, _)
Same(x, y) ==
    /\ x.t = y.t
    /\ IF x.t = "list" THEN Len(x.v) = Len(y.v) /\ \A i \in 1..Len(x.v) : Same(x.v[i], y.v[i])
       ELSE IF x.t = "dict" THEN /\ Len(x.v[1]) = Len(y.v[1])
                                 /\ \A i \in 1..Len(x.v[1]) : Same(x.v[1][i], y.v[1][i]) /\ Same(x.v[2][i], y.v[2][i])
       ELSE x.v = y.v
SameRes(a, b) == a.r = b.r /\ Same(a.v, b.v)
IsStr(x, s) == x.t = "str" /\ x.v = s

IsInstance(ty, x) ==
    CASE ty = "int" -> x.t \in {"int", "bool"}                      \* bool is a subclass of int
      [] ty = "float" -> x.t \in {"float", "ofloat"}
      [] ty = "NoneType" -> x.t = "none"
      [] OTHER -> x.t = ty

PyStr(x) ==                                                         \* str(x)
    CASE x.t = "str" -> Ok(x)
      [] x.t = "int" -> Ok(VStr(ToString(x.v)))
      [] x.t = "bool" -> Ok(VStr(IF x.v THEN "True" ELSE "False"))
      [] x.t = "none" -> Ok(VStr("None"))
      [] x.t = "float" -> IF x.v \in DOMAIN ReprOfFloat THEN Ok(VStr(ReprOfFloat[x.v])) ELSE Unm
      [] x.t = "ofloat" -> Ok(VStr(x.v))
      [] OTHER -> Unm                                               \* repr of containers / flags: not modelled

Pairs(q) == \A i \in 1..Len(q) : q[i].t = "list" /\ Len(q[i].v) = 2 /\ q[i].v[1].t \in {"str", "int", "bool", "none", "float"}
Coerce(ty, x) ==
    CASE ty = "bool" -> Ok(VBool(Truthy(x)))                         \* bool(x) never fails
      [] ty = "int" ->
            CASE x.t \in {"int"} -> Ok(x)
              [] x.t = "bool" -> Ok(VInt(IF x.v THEN 1 ELSE 0))
              [] x.t = "float" -> Ok(VInt(Trunc(x.v)))
              [] x.t = "ofloat" -> Unm
              [] x.t = "str" -> IF x.v \in DOMAIN IntOfStr THEN Ok(VInt(IntOfStr[x.v])) ELSE IF x.v \in KnownStr THEN Bad ELSE Unm
              [] OTHER -> Bad
      [] ty = "float" ->
            CASE x.t \in {"float", "ofloat"} -> Ok(x)
              [] x.t \in {"int", "bool"} -> Ok(VFlt(NumQ(x)[1], 1))
              [] x.t = "str" -> IF x.v \in DOMAIN FloatOfStr THEN Ok(VFlt(FloatOfStr[x.v][1], FloatOfStr[x.v][2]))
                                ELSE IF x.v \in KnownStr THEN Bad ELSE Unm
              [] OTHER -> Bad
      [] ty = "str" -> PyStr(x)
      [] ty = "list" ->
            CASE x.t = "list" -> Ok(x)
              [] x.t = "str" -> IF x.v \in KnownStr THEN Ok(VLst([i \in 1..Len(CharsOf[x.v]) |-> VStr(CharsOf[x.v][i])])) ELSE Unm
              [] x.t = "dict" -> Ok(VLst(x.v[1]))                     \* list(d) = its keys
              [] OTHER -> Bad
      [] ty = "dict" ->
            CASE x.t = "dict" -> Ok(x)
              [] x.t = "list" -> IF Len(x.v) = 0 THEN Ok(EmptyDict)
                                 ELSE IF \E i \in 1..Len(x.v) : x.v[i].t \in {"str", "dict"} THEN Unm   \* 2 characters / 2 keys are a pair
                                 ELSE IF Pairs(x.v) THEN Ok(VDct([i \in 1..Len(x.v) |-> x.v[i].v[1]], [i \in 1..Len(x.v) |-> x.v[i].v[2]]))
                                 ELSE Bad
              [] x.t = "str" -> IF x.v = "" THEN Ok(EmptyDict) ELSE Bad   \* dict("") = {}; a character is not a pair
              [] OTHER -> Bad
      [] OTHER -> Bad                                               \* NoneType(x): TypeError

\* ---------------------------------------------------------------------------------------------------- voluptuous
HasKey(d, k) == \E i \in 1..Len(d.v[1]) : IsStr(d.v[1][i], k)
SelectIdx(q, Keep(_)) ==                                            \* indices i of q with Keep(i), ascending
    LET F[i \in 0..Len(q)] == IF i = 0 THEN <<>> ELSE IF Keep(i) THEN Append(F[i - 1], i) ELSE F[i - 1] IN F[Len(q)]

RangeOk(sc, x) ==
    LET q == NumQ(x)
        lo == IF ~sc.hasMin THEN TRUE ELSE IF sc.minInc THEN RatCmp(q, NumQ(sc.min)) >= 0 ELSE RatCmp(q, NumQ(sc.min)) > 0
        hi == IF ~sc.hasMax THEN TRUE ELSE IF sc.maxInc THEN RatCmp(q, NumQ(sc.max)) <= 0 ELSE RatCmp(q, NumQ(sc.max)) < 0
    IN lo /\ hi

RECURSIVE Val(_, _), ValAny(_, _, _), ValAll(_, _, _), ValElems(_, _, _, _), ValDict(_, _, _, _, _), Fn(_, _)
Val(sc, x) ==
    CASE sc.k = "coerce" -> Coerce(sc.ty, x)
      [] sc.k = "type"   -> IF IsInstance(sc.ty, x) THEN Ok(x) ELSE Bad
      [] sc.k = "lit"    -> IF PyEq(x, sc.v) THEN Ok(x) ELSE Bad                   \* scalar: data != schema => invalid
      [] sc.k = "range"  -> IF x.t = "ofloat" THEN Unm ELSE IF ~IsNum(x) THEN Bad   \* TypeError => RangeInvalid
                            ELSE IF RangeOk(sc, x) THEN Ok(x) ELSE Bad
      [] sc.k = "length" -> LET n == IF x.t = "list" THEN Len(x.v) ELSE IF x.t = "dict" THEN Len(x.v[1])
                                     ELSE IF x.t = "str" /\ x.v \in KnownStr THEN Len(CharsOf[x.v]) ELSE 0 - 1 IN
                            IF x.t = "str" /\ x.v \notin KnownStr THEN Unm
                            ELSE IF n < 0 THEN Bad
                            ELSE IF (sc.hasMin /\ n < sc.min) \/ (sc.hasMax /\ n > sc.max) THEN Bad ELSE Ok(x)
      [] sc.k = "in"     -> IF \E i \in 1..Len(sc.opts) : PyEq(x, sc.opts[i]) THEN Ok(x) ELSE Bad
      [] sc.k = "any"    -> ValAny(sc.of, 1, x)
      [] sc.k = "all"    -> ValAll(sc.of, 1, x)
      [] sc.k = "list"   -> IF x.t # "list" THEN Bad ELSE ValElems(sc.of, x.v, 1, <<>>)
      [] sc.k = "dict"   -> IF x.t # "dict" THEN Bad ELSE ValDict(sc, x, 1, <<>>, <<>>)
      [] sc.k = "fn"     -> Fn(sc, x)
      [] OTHER -> Unm
ValAny(scs, i, x) ==                                                \* the first validator that accepts decides
    IF i > Len(scs) THEN Bad
    ELSE LET r == Val(scs[i], x) IN IF r.r = "bad" THEN ValAny(scs, i + 1, x) ELSE r
ValAll(scs, i, x) ==                                                \* composition, left to right
    IF i > Len(scs) THEN Ok(x)
    ELSE LET r == Val(scs[i], x) IN IF r.r = "ok" THEN ValAll(scs, i + 1, r.v) ELSE r
ValElems(scs, xs, i, acc) ==
    IF i > Len(xs) THEN Ok(VLst(acc))
    ELSE LET r == ValAny(scs, 1, xs[i]) IN IF r.r = "ok" THEN ValElems(scs, xs, i + 1, Append(acc, r.v)) ELSE r
KeyMatches(kd, key) == IF kd.lit THEN PyEq(key, kd.ks.v) ELSE Val(kd.ks, key).r = "ok"
ValDict(sc, x, i, ks, vs) ==
    IF i > Len(x.v[1])
    THEN IF \A j \in 1..Len(sc.keys) : sc.keys[j].req => \E m \in 1..Len(x.v[1]) : PyEq(x.v[1][m], sc.keys[j].ks.v)
         THEN Ok(VDct(ks, vs)) ELSE Bad                              \* a Required key is missing
    ELSE LET key == x.v[1][i]
             cands == SelectIdx(sc.keys, LAMBDA j : KeyMatches(sc.keys[j], key)) IN
         IF Len(cands) = 0 THEN Bad                                 \* extra keys not allowed
         ELSE LET r == Val(sc.vals[cands[1]], x.v[2][i]) IN
              IF r.r = "ok" THEN ValDict(sc, x, i + 1, Append(ks, key), Append(vs, r.v)) ELSE r

\* -- named validators ------------------------------------------------------------------------------------
NumLess(a, b) == RatCmp(NumQ(a), NumQ(b)) < 0
KeyStr(k) == IF k.t = "str" THEN Ok(k) ELSE IF k.t = "int" THEN Ok(VStr(ToString(k.v))) ELSE Unm     \* str(key)
\* serializeXSSettings / serializeTightCouplingSettings: drop falsy entries, keys become str; XS also drops None fields and xsID
Serialize(x, xs) ==
    LET keep == SelectIdx(x.v[1], LAMBDA i : Truthy(x.v[2][i]))
        Clean(d) == LET kk == SelectIdx(d.v[1], LAMBDA j : ~IsStr(d.v[1][j], "xsID") /\ d.v[2][j].t # "none") IN
                    VDct([j \in 1..Len(kk) |-> d.v[1][kk[j]]], [j \in 1..Len(kk) |-> d.v[2][kk[j]]])
    IN IF \E i \in 1..Len(keep) : KeyStr(x.v[1][keep[i]]).r # "ok" THEN Unm
       ELSE IF xs /\ \E i \in 1..Len(keep) : x.v[2][keep[i]].t # "dict" THEN Bad                  \* TypeError
       ELSE Ok(VDct([i \in 1..Len(keep) |-> KeyStr(x.v[1][keep[i]]).v],
                   [i \in 1..Len(keep) |-> IF xs THEN Clean(x.v[2][keep[i]]) ELSE x.v[2][keep[i]]]))
\* XSModelingOptions(xsID, **params): the constructor's non-None defaults fill the attributes not given
WithCtor(d, ctor) ==
    LET miss == SelectIdx(ctor[1], LAMBDA j : ~\E i \in 1..Len(d.v[1]) : Same(d.v[1][i], ctor[1][j])) IN
    VDct(d.v[1] \o [j \in 1..Len(miss) |-> ctor[1][miss[j]]], d.v[2] \o [j \in 1..Len(miss) |-> ctor[2][miss[j]]])
\* XSModelingOptions.validate: geometry is needed unless a cross-section file is given without a flux file
XsRuleOk(d) == HasKey(d, "geometry") \/ (HasKey(d, "xsFileLocation") /\ ~HasKey(d, "fluxFileLocation"))
Fn(sc, x) ==
    CASE sc.name = "_isMonotonicIncreasing" ->                      \* isMonotonic(list, "<")
            IF \A i \in 1..(Len(x.v) - 1) : NumLess(x.v[i], x.v[i + 1]) THEN Ok(x) ELSE Bad
      [] sc.name = "_mutuallyExclusiveCyclesInputs" ->
            LET n == (IF HasKey(x, "cumulative days") THEN 1 ELSE 0) + (IF HasKey(x, "step days") THEN 1 ELSE 0)
                     + (IF HasKey(x, "cycle length") \/ HasKey(x, "burn steps") THEN 1 ELSE 0) IN
            IF n = 1 THEN Ok(x) ELSE Bad
      [] sc.name \in {"xsSettingsValidator", "tightCouplingSettingsValidator"} ->
            IF x.t # "dict" THEN Bad                                \* TypeError("Expected a dictionary")
            ELSE LET xs == sc.name = "xsSettingsValidator"
                     s1 == Serialize(x, xs) IN
                 IF s1.r # "ok" THEN s1
                 ELSE LET s2 == Val(sc.inner, s1.v) IN
                      IF s2.r # "ok" THEN s2
                      ELSE IF ~xs THEN s2
                      ELSE LET d == s2.v
                               keep == SelectIdx(d.v[1], LAMBDA i : Len(d.v[2][i].v[1]) > 0)     \* `if not inputParams: continue`
                           IN IF \E i \in 1..Len(keep) : ~XsRuleOk(d.v[2][keep[i]]) THEN Bad       \* ValueError
                              ELSE Ok(VDct([i \in 1..Len(keep) |-> d.v[1][keep[i]]],
                                          [i \in 1..Len(keep) |-> WithCtor(d.v[2][keep[i]], sc.ctor)]))
      [] sc.name = "FlagListSetting.schema" ->
            IF x.t # "list" THEN Bad                                \* TypeError
            ELSE IF \E i \in 1..Len(x.v) : x.v[i].t \notin {"str", "flag"} THEN Bad                \* ValueError
            ELSE IF \E i \in 1..Len(x.v) : x.v[i].t = "str" /\ x.v[i].v \in NotAFlag THEN Bad
            ELSE IF \E i \in 1..Len(x.v) : x.v[i].t = "str" /\ x.v[i].v \notin DOMAIN FlagOfStr THEN Unm
            ELSE Ok(VLst([i \in 1..Len(x.v) |-> IF x.v[i].t = "flag" THEN x.v[i] ELSE VFlag(FlagOfStr[x.v[i].v])]))
      [] OTHER -> Unm

\* ---------------------------------------------------------------------------------------------------- a Setting
\* s = [name, cls, default, options, enforced, hasCustom, custom, old, extra, mods]
\* A declaration as its plugin wrote it, plus the modifiers other plugins contribute for it (settings.Option / settings.Default,
\* in arrival order).  apps.App.getSettings merges them whichever arrives first -- the setting (modifiers applied directly:
\* addOption, changeDefault) or the modifiers (kept in a cache until the setting arrives, options first, then the default).
\* Either way the outcome is EffDecl: the options extended by the Option values, the default replaced by the last Default.
EffDecl(s) ==
    LET om == SelectSeq(s.mods, LAMBDA m : m.kind = "option")
        dm == SelectSeq(s.mods, LAMBDA m : m.kind = "default") IN
    [s EXCEPT !.options = s.options \o [j \in 1..Len(om) |-> om[j].v],
              !.default = IF Len(dm) > 0 THEN dm[Len(dm)].v ELSE s.default]
PyType(x) == IF x.t = "none" THEN "NoneType" ELSE IF x.t = "ofloat" THEN "float" ELSE x.t
Effective(s) ==                                                     \* Setting._setSchema
    IF s.hasCustom THEN s.custom
    ELSE IF Len(s.options) > 0 /\ s.enforced THEN [k |-> "in", opts |-> s.options]
    ELSE IF s.default.t = "list" /\ Len(s.default.v) > 0
         THEN [k |-> "list", of |-> <<[k |-> "coerce", ty |-> PyType(s.default.v[1])]>>]
    ELSE [k |-> "coerce", ty |-> PyType(s.default)]
Store(s, raw) == Val(Effective(s), raw)                             \* Setting.setValue: the schema's result is the value
RECURSIVE DumpV(_)
DumpV(v) == IF v.t = "flag" THEN VStr(v.v)                           \* FlagListSetting.dump: Flags.toString
            ELSE IF v.t = "list" THEN VLst([i \in 1..Len(v.v) |-> DumpV(v.v[i])]) ELSE v
Dump(s, stored) == IF s.cls = "FlagListSetting" THEN DumpV(stored) ELSE stored

\* -- the value-level laws the file round trip rests on (per setting: data laws, reported per setting by SettingSchema_cat)
RoundTripValue(s, raw) ==                                           \* what was stored is what its written form stores
    LET st == Store(s, raw) IN st.r = "ok" => SameRes(Store(s, Dump(s, st.v)), st)
DefaultAdmitted(s) == SameRes(Store(s, Dump(s, s.default)), Ok(s.default))  \* a default written in full style reads back as itself
\* SettingRenamer: an old name redirects unless it has expired (old = [n, hasExp, exp] with exp as yyyymmdd)
ActiveOld(s, today) == {s.old[i].n : i \in {j \in 1..Len(s.old) : ~(s.old[j].hasExp /\ s.old[j].exp <= today)}}
ExpiredOld(s, today) == {s.old[i].n : i \in {j \in 1..Len(s.old) : s.old[j].hasExp /\ s.old[j].exp <= today}}

\* ---------------------------------------------------------------------------------------------------- the universe
\* candidate inputs every setting is confronted with (a sequence: no set normalisation of heterogeneous records)
Scalars == <<None, VBool(TRUE), VBool(FALSE), VInt(0 - 300), VInt(0 - 1), VInt(0), VInt(1), VInt(2), VInt(3), VInt(101),
             VFlt(0 - 1, 2), VFlt(0, 1), VFlt(1, 2), VFlt(1, 1), VFlt(3, 2), VFlt(5, 2), VFlt(201, 2),
             VStr(""), VStr("abc"), VStr("3"), VStr("-1"), VStr("1.5"), VStr("2R"), VStr("true"), VStr("null")>>
Lists == <<VLst(<<>>), VLst(<<VInt(1)>>), VLst(<<VInt(1), VInt(2)>>), VLst(<<VInt(2), VInt(1)>>), VLst(<<VInt(0)>>), VLst(<<VBool(TRUE)>>),
           VLst(<<VFlt(1, 2)>>), VLst(<<VFlt(3, 2), VInt(2)>>), VLst(<<VStr("abc")>>), VLst(<<VStr("3"), VStr("2R")>>), VLst(<<VStr("")>>),
           VLst(<<VInt(1), VStr("abc"), None>>), VLst(<<VLst(<<VInt(1), VInt(2)>>)>>), VLst(<<VLst(<<VStr("a"), VStr("b")>>)>>),
           VLst(<<VFlt(1, 2), VInt(1)>>), VLst(<<VInt(3), VFlt(1, 2)>>)>>
Dicts == <<EmptyDict, VDct(<<VStr("a")>>, <<VStr("info")>>), VDct(<<VStr("a"), VStr("b")>>, <<VStr("info"), VStr("10")>>),
           VDct(<<VStr("a")>>, <<VInt(1)>>), VDct(<<VStr("a")>>, <<None>>)>>
FlagPool == <<VLst(<<VStr("fuel")>>), VLst(<<VStr("FUEL"), VStr("clad")>>), VLst(<<VStr("grid plate")>>), VLst(<<VStr("bogusflag")>>),
              VLst(<<VFlag("FUEL")>>), VLst(<<VFlag("CLAD"), VStr("fuel")>>)>>
Cyc(ks, vs) == VLst(<<VDct(ks, vs)>>)
CyclesPool == <<
    Cyc(<<VStr("name"), VStr("cumulative days"), VStr("power fractions")>>, <<VStr("abc"), VLst(<<VInt(1), VFlt(5, 2), VInt(3)>>), VLst(<<VInt(1), VStr("2R")>>)>>),
    Cyc(<<VStr("cycle length"), VStr("burn steps"), VStr("availability factor")>>, <<VInt(101), VInt(2), VFlt(1, 2)>>),
    Cyc(<<VStr("step days"), VStr("power fractions")>>, <<VLst(<<VStr("2R"), VInt(3)>>), VLst(<<VFlt(1, 2)>>)>>),
    Cyc(<<VStr("burn steps")>>, <<VStr("3")>>),
    Cyc(<<VStr("cumulative days")>>, <<VLst(<<VInt(3), VInt(2)>>)>>),                                \* not increasing
    Cyc(<<VStr("cumulative days")>>, <<VLst(<<VInt(1), VInt(1)>>)>>),                                \* not strictly
    Cyc(<<VStr("cumulative days")>>, <<VLst(<<VStr("3")>>)>>),                                      \* neither float nor int
    Cyc(<<VStr("cumulative days"), VStr("step days")>>, <<VLst(<<VInt(1)>>), VLst(<<VInt(1)>>)>>),     \* two ways at once
    Cyc(<<VStr("name")>>, <<VStr("abc")>>),                                                       \* no way at all
    Cyc(<<VStr("cycle length"), VStr("bogus")>>, <<VInt(3), VInt(1)>>),                              \* extra key
    Cyc(<<VStr("cycle length")>>, <<VInt(0 - 1)>>),                                                \* below the range
    Cyc(<<VStr("availability factor"), VStr("cycle length")>>, <<VFlt(3, 2), VInt(3)>>),             \* above the range
    Cyc(<<VStr("name"), VStr("cycle length")>>, <<VInt(3), VInt(3)>>),                               \* name must be a str
    VLst(<<VDct(<<VStr("cycle length")>>, <<VInt(3)>>), VDct(<<VStr("step days")>>, <<VLst(<<VInt(1), VInt(2)>>)>>)>>),
    VLst(<<EmptyDict>>) >>
Xs(id, ks, vs) == VDct(<<id>>, <<VDct(ks, vs)>>)
XsPool == <<
    Xs(VStr("AA"), <<VStr("geometry")>>, <<VStr("0D")>>),
    Xs(VStr("AA"), <<VStr("geometry"), VStr("mergeIntoClad"), VStr("numInternalRings"), VStr("meshSubdivisionsPerCm")>>,
                  <<VStr("1D cylinder"), VLst(<<VStr("abc")>>), VStr("3"), VInt(2)>>),
    Xs(VStr("AA"), <<VStr("xsFileLocation")>>, <<VLst(<<VStr("a"), VStr("b")>>)>>),
    Xs(VStr("AA"), <<VStr("xsFileLocation"), VStr("fluxFileLocation")>>, <<VLst(<<VStr("a")>>), VStr("b")>>),   \* flux file needs a geometry
    Xs(VStr("AA"), <<VStr("xsFileLocation"), VStr("fluxFileLocation"), VStr("geometry")>>, <<VLst(<<VStr("a")>>), VStr("b"), VStr("0D")>>),
    Xs(VStr("A"), <<VStr("geometry"), VStr("criticalBuckling"), VStr("xsPriority")>>, <<VStr("2D hex"), VBool(FALSE), VInt(3)>>),
    Xs(VStr("AA"), <<VStr("geometry"), VStr("driverID"), VStr("xsID")>>, <<VStr("1D slab"), None, VStr("AA")>>),  \* None and xsID are dropped
    Xs(VStr("AAA"), <<VStr("geometry")>>, <<VStr("0D")>>),                                          \* key longer than 2
    Xs(VStr(""), <<VStr("geometry")>>, <<VStr("0D")>>),                                             \* key shorter than 1
    Xs(VInt(1), <<VStr("geometry")>>, <<VStr("0D")>>),                                              \* str(key)
    Xs(VStr("AA"), <<VStr("geometry")>>, <<VStr("abc")>>),                                          \* not a geometry
    Xs(VStr("AA"), <<VStr("driverID")>>, <<VStr("a")>>),                                            \* no geometry, no file
    Xs(VStr("AA"), <<VStr("geometry"), VStr("bogus")>>, <<VStr("0D"), VInt(1)>>),
    Xs(VStr("AA"), <<VStr("geometry"), VStr("criticalBuckling")>>, <<VStr("0D"), VInt(1)>>),          \* bool is a type check
    Xs(VStr("AA"), <<VStr("geometry"), VStr("numExternalRings")>>, <<VStr("0D"), VStr("abc")>>),
    VDct(<<VStr("AA")>>, <<EmptyDict>>), VDct(<<VStr("AA")>>, <<None>>), VDct(<<VStr("AA")>>, <<VInt(1)>>),
    VDct(<<VStr("AA"), VStr("A")>>, <<VDct(<<VStr("geometry")>>, <<VStr("0D")>>), VDct(<<VStr("geometry")>>, <<VStr("1D slab")>>)>>) >>
TcPool == <<
    Xs(VStr("abc"), <<VStr("parameter"), VStr("convergence")>>, <<VStr("a"), VFlt(1, 2)>>),
    Xs(VStr("abc"), <<VStr("parameter"), VStr("convergence")>>, <<VStr("a"), VStr("3")>>),
    Xs(VStr("abc"), <<VStr("parameter")>>, <<VStr("a")>>),                                          \* Required key missing
    Xs(VStr("abc"), <<VStr("parameter"), VStr("convergence")>>, <<VInt(1), VInt(1)>>),                \* parameter must be a str
    Xs(VStr("abc"), <<VStr("parameter"), VStr("convergence"), VStr("bogus")>>, <<VStr("a"), VInt(1), VInt(1)>>),
    Xs(VInt(1), <<VStr("parameter"), VStr("convergence")>>, <<VStr("a"), VInt(1)>>),
    VDct(<<VStr("abc")>>, <<VInt(1)>>) >>
Universe == Scalars \o Lists \o Dicts \o FlagPool \o CyclesPool \o XsPool \o TcPool
=====================================================================================================
