\* spec -> code: every edge of the late-plugin stories
CONSTANTS MaxObj = 3  MaxLevel = 10  HandFiles <- McHandFilesLate  Styles <- StylesAll  CopyKinds <- KindsTwo  Ops <- OpsLate  Generic <- GenQ
INIT Init
NEXT Next
CONSTRAINT Bound
VIEW View
ACTION_CONSTRAINT EmitLate
CHECK_DEADLOCK FALSE
