\* exhaustive, the io stories with three assignments and repeated edits (IoPlanT), depth 9
CONSTANTS MaxObj = 2  MaxLevel = 9  HandFiles <- McHandFiles  Styles <- StylesAll  CopyKinds <- KindsTwo  Ops <- OpsIO  Generic <- GenQR
INIT Init
NEXT Next
CONSTRAINT Bound
ACTION_CONSTRAINT IoPlanT
INVARIANT TypeOK
INVARIANT WrittenValuesAreCurrent
INVARIANT ShortOmitsExactlyDefaults
INVARIANT FullWritesAll
INVARIANT MediumIsShortPlusUserSet
INVARIANT NoDuplicateEntries
INVARIANT ReadIsOverlay
INVARIANT RoundTripFresh
INVARIANT RoundTripFull
INVARIANT UneditedFilesAreAccepted
INVARIANT RefusalKeepsEverything
INVARIANT ReadRefusalKeepsPrevious
INVARIANT StoredValuesAreCanonical
INVARIANT RenameLands
INVARIANT CurrentNameWins
INVARIANT UnknownNamesAreReportedAndIgnored
INVARIANT OthersUntouched
INVARIANT CopiesStartEqual
INVARIANT AdHocStaysWithTheCopy
INVARIANT LateSettingOnlyWhereItExists
CHECK_DEADLOCK FALSE
