\* exhaustive + emission (quick): candidates within 0..5, every anchor subset, minimum 1..3, both preferences
CONSTANTS MaxPt = 5  Mins = {1, 2, 3}
INIT Init
NEXT Next
INVARIANT FailsIffAnchorsTooClose
INVARIANT StrictlyIncreasing
INVARIANT OnlyCandidates
INVARIANT NoThinCells
INVARIANT KeepsAnchors
INVARIANT DropsOnlyCrowded
INVARIANT PreferredEndKept
INVARIANT Emit
CHECK_DEADLOCK FALSE
