------------------------------------------- MODULE RemeshDefs -------------------------------------------
(* Variable-free transcriptions shared by AxialRemesh (one assembly) and CoreRemesh (whole core):
     Between / BlockAt     Assembly.getBlocksBetweenElevations / getBlockAtElevation
     MapN                  uniformMesh.setNumberDensitiesFromOverlaps                N' = sum N_i h_i / H'
     MapPar                the parameter loop of UniformMeshGeometryConverter.setAssemblyStateFromOverlaps
     MapSel(a, d, pars, n) state of d after setAssemblyStateFromOverlaps(a, d, ParamMapper(pars), mapNumberDensities = n)
   An assembly is a record with at least  tops (strictly increasing integer block tops), N (per block: nuclide class ->
   rational), P (per block: parameter -> sequence of rationals, <<>> = None).  Parameter kinds are told from the name:
     integrated (ParamLocation.VOLUME_INTEGRATED)  I IA HM GI        arrays (two entries, default None)  IA AA GI GA
     peak (ParamLocation.MAX)                      P                 everything else: averaged scalars, default 0.0     *)
EXTENDS Integers, Sequences, FiniteSets, TLC, SequencesExt, FiniteSetsExt, Rational

Nuc == {"pin", "duct", "fluid"}
Arity(p)      == IF p \in {"IA", "AA", "GI", "GA"} THEN 2 ELSE 1
Integrated(p) == p \in {"I", "IA", "HM", "GI"}
IsPeak(p)     == p = "P"
Unset         == <<>>
Default(p)    == IF Arity(p) = 2 THEN Unset ELSE <<RZero>>

Min2(a, b) == IF a <= b THEN a ELSE b
Max2(a, b) == IF a >= b THEN a ELSE b
Idx(k)     == [i \in 1..k |-> i]
K(a)       == Len(a.tops)
Bot(a, i)  == IF i = 1 THEN 0 ELSE a.tops[i - 1]
Ht(a, i)   == a.tops[i] - Bot(a, i)
Top(a)     == IF K(a) = 0 THEN 0 ELSE a.tops[K(a)]
SortedSeq(S) == SetToSortSeq(S, LAMBDA x, y : x < y)
\* all meshes (strictly increasing tops) that span 0..top
Meshes(top, pts) == {SortedSeq(S \cup {top}) : S \in SUBSET (pts \cap (1..(top - 1)))}

(* ---------------- Assembly.getBlocksBetweenElevations / getBlockAtElevation ---------------- *)
Touched(a, lo, hi) == SelectSeq(Idx(K(a)), LAMBDA i : a.tops[i] >= lo /\ Bot(a, i) <= hi)
OvH(a, i, lo, hi)  == Min2(a.tops[i], hi) - Max2(Bot(a, i), lo)
Between(a, lo, hi) == LET kept == SelectSeq(Touched(a, lo, hi), LAMBDA i : OvH(a, i, lo, hi) > 0)
                      IN [j \in 1..Len(kept) |-> <<kept[j], OvH(a, kept[j], lo, hi)>>]
BetweenTotal(a, lo, hi)    == FoldLeft(LAMBDA acc, x : acc + x[2], 0, Between(a, lo, hi))
BetweenExpected(a, lo, hi) == LET t == Touched(a, lo, hi) IN Min2(a.tops[t[Len(t)]] - Bot(a, t[1]), hi - lo)
BetweenRaises(a, lo, hi)   == Touched(a, lo, hi) = <<>> \/ BetweenTotal(a, lo, hi) # BetweenExpected(a, lo, hi)
BlockAt(a, e) == LET hits == SelectSeq(Idx(K(a)), LAMBDA i : a.tops[i] >= e /\ Bot(a, i) < e)
                 IN IF hits = <<>> THEN 0 ELSE hits[1]

(* ---------------- the two mapping rules ---------------- *)
VZero(p) == [g \in 1..Arity(p) |-> RZero]
VAddScaled(acc, v, num, den) == [g \in 1..Len(acc) |-> RAdd(acc[g], RMul(v[g], RFrac(num, den)))]
VMax(acc, v) == [g \in 1..Len(acc) |-> RMax(v[g], acc[g])]

MapN(a, lo, hi, n) ==
    FoldLeft(LAMBDA acc, x : RAdd(acc, RMul(a.N[x[1]][n], RFrac(x[2], hi - lo))), RZero, Between(a, lo, hi))

MapPar(a, lo, hi, p, old) ==
    LET setOnes == SelectSeq(Between(a, lo, hi), LAMBDA x : a.P[x[1]][p] # Unset)
    IN IF setOnes = <<>> THEN old
       ELSE FoldLeft(LAMBDA acc, x :
                        IF IsPeak(p) THEN VMax(acc, a.P[x[1]][p])
                        ELSE VAddScaled(acc, a.P[x[1]][p], x[2], IF Integrated(p) THEN Ht(a, x[1]) ELSE hi - lo),
                     VZero(p), setOnes)

\* state of d after setAssemblyStateFromOverlaps(a, d, ParamMapper(pars), mapNumberDensities = mapN)
MapSel(a, d, pars, mapN) ==
    [d EXCEPT !.N = IF mapN THEN [j \in 1..K(d) |-> [n \in Nuc |-> MapN(a, Bot(d, j), d.tops[j], n)]] ELSE d.N,
              !.P = [j \in 1..K(d) |-> [p \in DOMAIN d.P[j] |->
                        IF p \in pars THEN MapPar(a, Bot(d, j), d.tops[j], p, d.P[j][p]) ELSE d.P[j][p]]]]

(* ---------------- totals ---------------- *)
Atoms(a, n) == RSumSet(1..K(a), LAMBDA i : RMul(a.N[i][n], RInt(Ht(a, i))))
ValAt(a, i, p, g) == IF a.P[i][p] = Unset THEN RZero ELSE a.P[i][p][g]
Tot(a, p, g) == RSumSet(1..K(a), LAMBDA i : ValAt(a, i, p, g))
Integral(a, p, g) == RSumSet(1..K(a), LAMBDA i : RMul(ValAt(a, i, p, g), RInt(Ht(a, i))))
AllSet(a, p) == \A i \in 1..K(a) : a.P[i][p] # Unset
OverIdx(a, lo, hi) == {x[1] : x \in {Between(a, lo, hi)[j] : j \in 1..Len(Between(a, lo, hi))}}
=========================================================================================================
