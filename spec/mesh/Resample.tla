------------------------------------------- MODULE Resample -------------------------------------------
(* C11 -- step-function resampling, armi/utils/mathematics.py resampleStepwise(xin, yin, xout, avg).

   A pure function over a discrete domain: every case (input mesh, cell values incl. None, output mesh, mode) is one
   initial state; the expected result is DEFINED here from first principles (overlap lengths), the algebraic laws are
   checked on it as invariants, and each case is printed with its expected result for the harness.

     yin[i]        value of the step function on [xin[i], xin[i+1]]   (U = None)
     avg = TRUE    out[j] = sum_i yin[i] * overlap(i, j) / length(j)            height-weighted mean
     avg = FALSE   out[j] = sum_i yin[i] * overlap(i, j) / length_in(i)         shares of the cell totals ("preserve the totals")
     None          as soon as one overlapped input cell is None (the code's documented and tested rule)

   Domain: output points inside [xin first, xin last] (cells outside the input range yield 0 in the code; cells that
   straddle the ends of the input range have no documented meaning and are left out).
*)
EXTENDS Integers, Sequences, FiniteSets, TLC, Json, SequencesExt, FiniteSetsExt, Rational

CONSTANTS H,        \* mesh points are integers 0..H
          Vals,     \* cell values (naturals)
          WithNone  \* also enumerate None values

VARIABLE c
U == 0 - 1
SortedSeq(S) == SetToSortSeq(S, LAMBDA x, y : x < y)
InMeshes  == {SortedSeq(S \cup {0, H}) : S \in SUBSET (1..(H - 1))}
OutMeshes == {SortedSeq(S) : S \in {T \in SUBSET (0..H) : Cardinality(T) >= 2}}
YVals == Vals \cup (IF WithNone THEN {U} ELSE {})
Cases == UNION {{[xin |-> m, yin |-> y, xout |-> o, avg |-> a] : y \in [1..(Len(m) - 1) -> YVals], o \in OutMeshes, a \in BOOLEAN} : m \in InMeshes}

Min2(a, b) == IF a <= b THEN a ELSE b
Max2(a, b) == IF a >= b THEN a ELSE b
NIn(k)  == Len(k.xin) - 1
NOut(k) == Len(k.xout) - 1
Ov(k, i, j) == Max2(0, Min2(k.xin[i + 1], k.xout[j + 1]) - Max2(k.xin[i], k.xout[j]))
Over(k, j) == {i \in 1..NIn(k) : Ov(k, i, j) > 0}
LenIn(k, i)  == k.xin[i + 1] - k.xin[i]
LenOut(k, j) == k.xout[j + 1] - k.xout[j]
None == <<>>
Cell(k, j) ==
    IF \E i \in Over(k, j) : k.yin[i] = U THEN None
    ELSE IF k.avg THEN RSumSet(Over(k, j), LAMBDA i : RFrac(k.yin[i] * Ov(k, i, j), LenOut(k, j)))
    ELSE RSumSet(Over(k, j), LAMBDA i : RFrac(k.yin[i] * Ov(k, i, j), LenIn(k, i)))
Result(k) == [j \in 1..NOut(k) |-> Cell(k, j)]

Init == c \in Cases
Next == UNCHANGED c

AllSet(k)   == \A i \in 1..NIn(k) : k.yin[i] # U
Spans(k)    == k.xout[1] = 0 /\ k.xout[Len(k.xout)] = H
\* avg = FALSE: "preserve the totals"
SumConservesTotal ==
    (~c.avg /\ AllSet(c) /\ Spans(c)) => RSumSet(1..NOut(c), LAMBDA j : Cell(c, j)) = RInt(FoldLeft(LAMBDA a, b : a + b, 0, c.yin))
\* avg = TRUE: the integral of the step function is preserved
AvgConservesIntegral ==
    (c.avg /\ AllSet(c) /\ Spans(c)) =>
        RSumSet(1..NOut(c), LAMBDA j : RMul(Cell(c, j), RInt(LenOut(c, j)))) = RInt(FoldLeft(LAMBDA a, i : a + c.yin[i] * LenIn(c, i), 0, [i \in 1..NIn(c) |-> i]))
ConstantStaysConstant ==
    (c.avg /\ AllSet(c) /\ \A i \in 1..NIn(c) : c.yin[i] = c.yin[1]) => \A j \in 1..NOut(c) : Cell(c, j) = RInt(c.yin[1])
MeanIsBounded ==
    (c.avg /\ AllSet(c)) => \A j \in 1..NOut(c) : \A i \in Over(c, j) : \E l \in Over(c, j) : RLeq(RInt(c.yin[l]), Cell(c, j)) /\ \E m \in Over(c, j) : RLeq(Cell(c, j), RInt(c.yin[m]))
IdentityOnSameMesh == (c.xout = c.xin) => \A j \in 1..NOut(c) : Cell(c, j) = (IF c.yin[j] = U THEN None ELSE RInt(c.yin[j]))
\* refining then summing the parts of one input cell gives the cell total back
PartsSumToCell ==
    (~c.avg /\ AllSet(c)) => \A i \in 1..NIn(c) :
        LET inside == {j \in 1..NOut(c) : c.xin[i] <= c.xout[j] /\ c.xout[j + 1] <= c.xin[i + 1]} IN
        (\E j \in inside : c.xout[j] = c.xin[i]) /\ (\E j \in inside : c.xout[j + 1] = c.xin[i + 1]) /\
        (\A j \in inside : c.xout[j + 1] = c.xin[i + 1] \/ \E l \in inside : c.xout[l] = c.xout[j + 1])
        => RSumSet(inside, LAMBDA j : Cell(c, j)) = RInt(c.yin[i])

Emit == PrintT(ToJson([c |-> c, out |-> Result(c)]))
=========================================================================================================
