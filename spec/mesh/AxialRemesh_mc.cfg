\* exhaustive (quick): every mesh pair over H = 5, every profile, map back with and without a solver state (profile 3: ramps with unset array values)
CONSTANTS H = 5  SrcPts = {1, 2, 3, 4}  DstPts = {1, 2, 3, 4}  Profiles = {1, 2, 3, 4, 11, 12, 13, 14, 15}  FuelChoices = {3}  SolveProfiles = {3}
          Jitters = {"none"}  Ops = {"MakeUniform", "Solve", "MapBack", "Move"}  SnapFlags = {}
          SnapProfiles = {}  MoveProfiles = {2}  Geoms = {"cold"}  MaxLevel = 5
INIT Init
NEXT Next
CONSTRAINT Bound
INVARIANT TypeOK
INVARIANT AtomsConserved
INVARIANT IntegratedConserved
INVARIANT MeanOfOverlapped
INVARIANT MeanConservesIntegral
INVARIANT ConstantStaysConstant
INVARIANT PeakIsLargestOverlapped
INVARIANT UnsetOnlyFromUnset
INVARIANT SourceUntouched
INVARIANT RoundTripRestoresTotals
INVARIANT BetweenPartitions
INVARIANT BlockAtContains
INVARIANT SnapLaw
CHECK_DEADLOCK FALSE
