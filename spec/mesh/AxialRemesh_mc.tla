---------------------------------------- MODULE AxialRemesh_mc ----------------------------------------
EXTENDS AxialRemesh
Bound == TLCGet("level") <= MaxLevel
\* one line per distinct state: the initial description, the actions that led here, and every expected value
EmitState == PrintT(ToJson([ini |-> ini, hist |-> hist, stage |-> stage, obs |-> Obs]))
=========================================================================================================
