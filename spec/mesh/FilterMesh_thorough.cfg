\* exhaustive + emission (thorough): candidates within 0..7, every anchor subset, minimum 1..4, both preferences
CONSTANTS MaxPt = 7  Mins = {1, 2, 3, 4}
INIT Init
NEXT Next
INVARIANT FailsIffAnchorsTooClose
INVARIANT StrictlyIncreasing
INVARIANT OnlyCandidates
INVARIANT NoThinCells
INVARIANT KeepsAnchors
INVARIANT DropsOnlyCrowded
INVARIANT PreferredEndKept
INVARIANT Emit
CHECK_DEADLOCK FALSE
