\* exhaustive (thorough): every mesh pair over H = 6, every profile, map back with and without two solver states
CONSTANTS H = 6  SrcPts = {1, 2, 3, 4, 5}  DstPts = {1, 2, 3, 4, 5}  Profiles = {1, 2, 3, 4, 11, 12, 13, 14, 15, 16}  FuelChoices = {3}  SolveProfiles = {2, 3}
          Jitters = {"none"}  Ops = {"MakeUniform", "Solve", "MapBack", "Move"}  SnapFlags = {}
          SnapProfiles = {}  MoveProfiles = {2}  Geoms = {"cold"}  MaxLevel = 5
INIT Init
NEXT Next
CONSTRAINT Bound
INVARIANT TypeOK
INVARIANT AtomsConserved
INVARIANT IntegratedConserved
INVARIANT MeanOfOverlapped
INVARIANT MeanConservesIntegral
INVARIANT ConstantStaysConstant
INVARIANT PeakIsLargestOverlapped
INVARIANT UnsetOnlyFromUnset
INVARIANT SourceUntouched
INVARIANT RoundTripRestoresTotals
INVARIANT BetweenPartitions
INVARIANT BlockAtContains
INVARIANT SnapLaw
CHECK_DEADLOCK FALSE
