----------------------------------------- MODULE CoreRemesh_mc -----------------------------------------
EXTENDS CoreRemesh
Bound == TLCGet("level") <= MaxLevel
EmitState == PrintT(ToJson([ini |-> ini, hist |-> hist, stage |-> stage, scale |-> Scale, obs |-> Obs]))
\* mesh sets of the configurations (cfg files cannot hold sequences).  Height 10 (quick) and 10 (thorough).
Absent == <<>>
Q1 == {<<4, 7, 10>>}
Q2 == {<<4, 8, 10>>}
QC == {<<2, 5, 8, 10>>}
QO == {Absent, <<6, 9, 10>>}      \* more than 20 % above the first plane of the others: dropped from the average
\* thorough: every reference mesh with a fuel block of two or three units, neighbours one unit off, controls with three and four
\* blocks, outliers more than 20 % away
T1 == {<<4, 7, 10>>, <<5, 8, 10>>}
T2 == {<<4, 8, 10>>, <<5, 7, 10>>}
TC == {Absent, <<4, 8, 10>>, <<2, 5, 8, 10>>, <<3, 6, 10>>}
TO == {Absent, <<6, 9, 10>>, <<2, 5, 10>>}
=========================================================================================================
