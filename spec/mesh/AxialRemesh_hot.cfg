\* emission (quick): the pitch-defining hexagon is a hot solid duct (thermally expanded): re-mesh, map back, move boundaries, re-mesh again
CONSTANTS H = 4  SrcPts = {1, 2, 3}  DstPts = {1, 2, 3}  Profiles = {2, 11}  FuelChoices = {3}  SolveProfiles = {}
          Jitters = {"none"}  Ops = {"MakeUniform", "MapBack", "Move"}  SnapFlags = {}
          SnapProfiles = {}  MoveProfiles = {2}  Geoms = {"hot"}  MaxLevel = 5
INVARIANT EmitState
INIT Init
NEXT Next
CONSTRAINT Bound
INVARIANT TypeOK
CHECK_DEADLOCK FALSE
