\* emission (thorough): hot solid duct as pitch-defining hexagon, H = 5
CONSTANTS H = 5  SrcPts = {1, 2, 3, 4}  DstPts = {1, 2, 3, 4}  Profiles = {1, 2, 3, 11, 12}  FuelChoices = {3}  SolveProfiles = {}
          Jitters = {"none"}  Ops = {"MakeUniform", "MapBack", "Move"}  SnapFlags = {}
          SnapProfiles = {}  MoveProfiles = {2}  Geoms = {"hot"}  MaxLevel = 5
INVARIANT EmitState
INIT Init
NEXT Next
CONSTRAINT Bound
INVARIANT TypeOK
CHECK_DEADLOCK FALSE
