\* exhaustive (thorough): every setBlockMesh of every H = 5 assembly (all fuel layouts, three flags), two profiles
CONSTANTS H = 5  SrcPts = {1, 2, 3, 4}  DstPts = {1, 2, 3, 4}  Profiles = {2, 3}  FuelChoices = {0, 1, 2, 3, 5, 7, 9, 11}  SolveProfiles = {}
          Jitters = {"none"}  Ops = {"MakeUniform", "Snap"}  SnapFlags = {"true", "false", "auto"}
          SnapProfiles = {2, 3}  MoveProfiles = {}  Geoms = {"cold"}  MaxLevel = 5
INIT Init
NEXT Next
CONSTRAINT Bound
INVARIANT TypeOK
INVARIANT AtomsConserved
INVARIANT IntegratedConserved
INVARIANT MeanOfOverlapped
INVARIANT MeanConservesIntegral
INVARIANT ConstantStaysConstant
INVARIANT PeakIsLargestOverlapped
INVARIANT UnsetOnlyFromUnset
INVARIANT SourceUntouched
INVARIANT RoundTripRestoresTotals
INVARIANT BetweenPartitions
INVARIANT BlockAtContains
INVARIANT SnapLaw
CHECK_DEADLOCK FALSE
