---------------------------------------- MODULE MeshFilterDefs ----------------------------------------
(* Transcriptions (no variables) of armi/reactor/converters/uniformMesh.py UniformMeshGenerator and of
   armi/utils/mathematics.py average1DWithinTolerance, over integer points.

   Filter(pts, min, anchors, pref)      _filterMesh(meshList, minimumMeshSize, anchorPoints, preference)
       sort the distinct points by preference (bottom = ascending, top = descending); repeat: take the FIRST adjacent
       pair closer than min; both anchors -> fail (ValueError); else drop the non-anchor one (the second of the pair
       unless the second is an anchor); stop when no pair is closer than min; result sorted ascending.
   AvgTol(rows, num, den)               average1DWithinTolerance(vals, tolerance = num/den)
       repeat: column means; drop every row that has an entry further than tolerance (relative to the mean) from the
       mean; stop when no row was dropped; nothing left -> fail (ValueError).  Means are returned multiplied by Scale
       (a constant divisible by every possible row count) so that they stay integers.
   Decusp(common, fuel, ctrl, min)      _decuspAxialMesh with the boundary sets _getFilteredMeshTopAndBottom collects
       (first material block bottom / last material block top of every assembly carrying the flag)
*)
EXTENDS Integers, Sequences, FiniteSets, TLC, SequencesExt, FiniteSetsExt

AbsI(x) == IF x < 0 THEN 0 - x ELSE x
SortAsc(S)  == SetToSortSeq(S, LAMBDA x, y : x < y)
SortDesc(S) == SetToSortSeq(S, LAMBDA x, y : x > y)
SeqSet(s) == {s[i] : i \in 1..Len(s)}
Fail == [ok |-> FALSE, mesh |-> <<>>]

RECURSIVE FilterLoop(_, _, _)
FilterLoop(ml, min, anchors) ==
    LET viol == {i \in 1..(Len(ml) - 1) : AbsI(ml[i + 1] - ml[i]) < min} IN
    IF viol = {} THEN [ok |-> TRUE, mesh |-> SortAsc(SeqSet(ml))]
    ELSE LET i == Min(viol) IN
         IF ml[i] \in anchors /\ ml[i + 1] \in anchors THEN Fail
         ELSE FilterLoop(RemoveAt(ml, IF ml[i + 1] \in anchors THEN i ELSE i + 1), min, anchors)
Filter(pts, min, anchors, pref) == FilterLoop(IF pref = "bottom" THEN SortAsc(pts) ELSE SortDesc(pts), min, anchors)

(* ---- average1DWithinTolerance; rows = sequence of equally long sequences of positive integers ---- *)
ColSum(rows, c) == FoldLeft(LAMBDA acc, r : acc + r[c], 0, rows)
\* |v - sum/n| / (sum/n) > num/den   <=>   den * |n v - sum| > num * sum      (sum > 0)
OffMean(rows, r, c, num, den) == den * AbsI(Len(rows) * r[c] - ColSum(rows, c)) > num * ColSum(rows, c)
RECURSIVE AvgTol(_, _, _, _)
AvgTol(rows, num, den, scale) ==
    IF rows = <<>> THEN Fail
    ELSE LET nc == Len(rows[1])
             keep == SelectSeq(rows, LAMBDA r : \A c \in 1..nc : ~OffMean(rows, r, c, num, den)) IN
         IF Len(keep) = Len(rows) THEN [ok |-> TRUE, mesh |-> [c \in 1..nc |-> (ColSum(rows, c) * scale) \div Len(rows)]]
         ELSE AvgTol(keep, num, den, scale)

\* the rows that remain when the loop stops, and whether some comparison sits exactly on the tolerance (a float evaluation of a
\* mean that is not a binary fraction could then decide differently: such cases are not enumerated)
OnEdge(rows, r, c, num, den) == den * AbsI(Len(rows) * r[c] - ColSum(rows, c)) = num * ColSum(rows, c)
RECURSIVE KeptRows(_, _, _)
KeptRows(rows, num, den) ==
    LET keep == SelectSeq(rows, LAMBDA r : \A c \in 1..Len(r) : ~OffMean(rows, r, c, num, den))
    IN IF rows = <<>> \/ Len(keep) = Len(rows) THEN rows ELSE KeptRows(keep, num, den)
RECURSIVE Borderline(_, _, _)
Borderline(rows, num, den) ==
    LET keep == SelectSeq(rows, LAMBDA r : \A c \in 1..Len(r) : ~OffMean(rows, r, c, num, den))
    IN \/ \E i \in 1..Len(rows) : \E c \in 1..Len(rows[i]) : OnEdge(rows, rows[i], c, num, den)
       \/ (rows # <<>> /\ Len(keep) # Len(rows) /\ Borderline(keep, num, den))

(* ---- _decuspAxialMesh; fuel, ctrl = sets of <<bottom, top>> spans, common = set of points ---- *)
Bottoms(spans) == {s[1] : s \in spans}
Tops(spans)    == {s[2] : s \in spans}
Decusp(common, fuel, ctrl, min) ==
    LET fB == Filter(Bottoms(fuel), min, {Min(Bottoms(fuel))}, "bottom")
        fT == Filter(Tops(fuel), min, {Max(Tops(fuel))}, "top")
        FB == SeqSet(fB.mesh)  FT == SeqSet(fT.mesh)
        mB == Filter(FB \cup Bottoms(ctrl), min, FB, "bottom")
        mT == Filter(FT \cup Tops(ctrl), min, FT, "top")
        MB == SeqSet(mB.mesh)  MT == SeqSet(mT.mesh)
        anch == Filter(MB \cup MT, min, FB \cup FT, "bottom")
        wB == Filter(common \cup MB, min, MB, "bottom")
        wT == Filter(common \cup MT, min, MT, "top")
    IN IF ~(fB.ok /\ fT.ok /\ mB.ok /\ mT.ok /\ anch.ok /\ wB.ok /\ wT.ok) THEN [ok |-> FALSE, mesh |-> <<>>, anchors |-> <<>>]
       ELSE LET r == Filter(SeqSet(wB.mesh) \cup SeqSet(wT.mesh), min, SeqSet(anch.mesh), "top")
            IN [ok |-> r.ok, mesh |-> r.mesh, anchors |-> anch.mesh]
=========================================================================================================
