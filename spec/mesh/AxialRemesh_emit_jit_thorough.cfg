\* emission (thorough): nearly coincident target points, H = 5, three jitter classes
CONSTANTS H = 5  SrcPts = {1, 2, 3, 4}  DstPts = {1, 2, 3, 4}  Profiles = {1, 2, 3, 11, 12}  FuelChoices = {3}  SolveProfiles = {}
          Jitters = {"up", "down", "alt"}  Ops = {"MakeUniform", "MapBack"}  SnapFlags = {}
          SnapProfiles = {}  MoveProfiles = {}  Geoms = {"cold"}  MaxLevel = 5
INVARIANT EmitState
INIT Init
NEXT Next
CONSTRAINT Bound
INVARIANT TypeOK
CHECK_DEADLOCK FALSE
