\* exhaustive + emission (quick): every input mesh over 0..4, values {1, 2, None}, every output mesh inside, both modes
CONSTANTS H = 4  Vals = {1, 2}  WithNone = TRUE
INIT Init
NEXT Next
INVARIANT SumConservesTotal
INVARIANT AvgConservesIntegral
INVARIANT ConstantStaysConstant
INVARIANT MeanIsBounded
INVARIANT IdentityOnSameMesh
INVARIANT PartsSumToCell
INVARIANT Emit
CHECK_DEADLOCK FALSE
