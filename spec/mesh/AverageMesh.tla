------------------------------------------ MODULE AverageMesh ------------------------------------------
(* C11 -- armi/utils/mathematics.py average1DWithinTolerance(vals, tolerance = 0.2) as a pure function: every array of 2..4 rows
   (two columns; four rows: one column) over Vals is one initial state.  Expected result = AvgTol of MeshFilterDefs (the
   transcription of the loop), printed multiplied by 12; the laws below are checked on it.  Arrays in which some comparison sits
   exactly on the tolerance are left out (the float mean of three rows need not be the exact third). *)
EXTENDS MeshFilterDefs, Json
CONSTANTS Vals
VARIABLE c
Cases == UNION {[1..n -> [1..2 -> Vals]] : n \in 2..3} \cup [1..4 -> [1..1 -> Vals]]
Init == c \in Cases /\ ~Borderline(c, 1, 5)
Next == UNCHANGED c
R    == AvgTol(c, 1, 5, 12)
Kept == KeptRows(c, 1, 5)
NC   == Len(c[1])
\* the result is the mean of the rows that remain -- not of rows that were thrown out
IsMeanOfKept   == R.ok => \A i \in 1..NC : R.mesh[i] * Len(Kept) = 12 * ColSum(Kept, i)
\* every remaining row is within the tolerance of the result, every row thrown out was outside the tolerance of some running mean
KeptAreClose   == R.ok => \A r \in 1..Len(Kept) : \A i \in 1..NC : 5 * AbsI(12 * Kept[r][i] - R.mesh[i]) <= R.mesh[i]
FailsIffNoneLeft == (~R.ok) <=> (Kept = <<>>)
NoOutlierNoChange == (\A r \in 1..Len(c) : \A i \in 1..NC : ~OffMean(c, c[r], i, 1, 5)) => (R.ok /\ Kept = c)
Idempotent     == R.ok => AvgTol(Kept, 1, 5, 12) = R
Emit == PrintT(ToJson([rows |-> c, ok |-> R.ok, mean |-> R.mesh, kept |-> Len(Kept)]))
=========================================================================================================
