\* exhaustive + emission (quick): two cores of height 10 -- [fuel centre, fuel, control with four blocks] and the same plus an outlier
\* fuel assembly -- both converter classes, three modes, convert / solve / apply / grow / convert again
CONSTANTS HCo = 10  M1Set <- Q1  M2Set <- Q2  MCSet <- QC  MOSet <- QO
          Profiles = {2}  Classes = {"neutronics", "gamma"}  Modes = {"new", "flagControl", "flagFuel"}  SolveQ = {2, 3}  Grows = {1}  MaxLevel = 6
INIT Init
NEXT Next
CONSTRAINT Bound
INVARIANT EmitState
INVARIANT TypeOK
INVARIANT MeshSpansCore
INVARIANT MeshIsMeanOfKeptRows
INVARIANT AtomsPerAssembly
INVARIANT AtomsPerCore
INVARIANT InTotalsPerAssembly
INVARIANT NotMappedInIsDefault
INVARIANT UnflaggedUntouched
INVARIANT SourceUntouched
INVARIANT OutTotalsRestored
INVARIANT OutMeanRestored
INVARIANT OutIsMappedForEveryCategory
INVARIANT NotMappedOutUnchanged
CHECK_DEADLOCK FALSE
