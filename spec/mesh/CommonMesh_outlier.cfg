\* exhaustive + emission (quick): three meshes averaged, the third one an outlier that average1DWithinTolerance must drop; height 10
CONSTANTS HC = 10  Mins = {3}  Families = {"outlier"}
INIT Init
NEXT Next
INVARIANT AtMostTwoRows
INVARIANT AverageIsMeanOfKeptRows
INVARIANT StrictlyIncreasing
INVARIANT OnlyCandidates
INVARIANT NoThinCells
INVARIANT KeepsAnchors
INVARIANT ExtremeFuelAnchored
INVARIANT IsolatedBoundaryKept
INVARIANT BoundariesKeptOrCrowded
INVARIANT FailsOnlyOnCloseAnchors
INVARIANT TopKept
INVARIANT Emit
CHECK_DEADLOCK FALSE
