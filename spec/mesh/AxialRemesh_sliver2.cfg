\* exhaustive + emission (both tiers): thin-but-real overlaps, the other way round: a source block of two units (1199..1201)
\* and target boundary at 1200: a cell of 1200 units overlaps it by one unit
CONSTANTS H = 2400  SrcPts = {1199, 1201}  DstPts = {1200}  Profiles = {1, 2, 3, 4, 11, 12, 13}  FuelChoices = {3}  SolveProfiles = {}
          Jitters = {"none"}  Ops = {"MakeUniform"}  SnapFlags = {}
          SnapProfiles = {}  MoveProfiles = {}  Geoms = {"cold"}  MaxLevel = 5
INVARIANT EmitState
INIT Init
NEXT Next
CONSTRAINT Bound
INVARIANT TypeOK
INVARIANT AtomsConserved
INVARIANT IntegratedConserved
INVARIANT MeanOfOverlapped
INVARIANT MeanConservesIntegral
INVARIANT ConstantStaysConstant
INVARIANT PeakIsLargestOverlapped
INVARIANT UnsetOnlyFromUnset
INVARIANT SourceUntouched
INVARIANT RoundTripRestoresTotals
INVARIANT BetweenPartitions
INVARIANT BlockAtContains
INVARIANT SnapLaw
CHECK_DEADLOCK FALSE
