\* exhaustive + emission (thorough): averaged cores of height 6, minimum sizes 1..4 half units
CONSTANTS HC = 6  Mins = {1, 2, 3, 4}  Families = {"avg"}
INIT Init
NEXT Next
INVARIANT AtMostTwoRows
INVARIANT StrictlyIncreasing
INVARIANT OnlyCandidates
INVARIANT NoThinCells
INVARIANT KeepsAnchors
INVARIANT ExtremeFuelAnchored
INVARIANT IsolatedBoundaryKept
INVARIANT BoundariesKeptOrCrowded
INVARIANT FailsOnlyOnCloseAnchors
INVARIANT TopKept
INVARIANT Emit
CHECK_DEADLOCK FALSE
