\* exhaustive + emission (thorough): cores of height 6, minimum sizes 1..4 half units
CONSTANTS HC = 6  Mins = {1, 2, 3, 4}
INIT Init
NEXT Next
INVARIANT StrictlyIncreasing
INVARIANT OnlyCandidates
INVARIANT NoThinCells
INVARIANT KeepsAnchors
INVARIANT ExtremeFuelAnchored
INVARIANT BoundariesKeptOrCrowded
INVARIANT FailsOnlyOnCloseAnchors
INVARIANT TopKept
INVARIANT Emit
CHECK_DEADLOCK FALSE
