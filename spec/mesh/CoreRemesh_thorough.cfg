\* exhaustive + emission (thorough): cores of height 10 (mesh sets T1, T2, TC, TO of CoreRemesh_mc.tla) -- both converter classes, three modes, convert / solve / apply / grow / convert again
CONSTANTS HCo = 10  M1Set <- T1  M2Set <- T2  MCSet <- TC  MOSet <- TO
          Profiles = {3}  Classes = {"neutronics", "gamma"}  Modes = {"new", "flagControl", "flagFuel"}  SolveQ = {2, 3}  Grows = {1}  MaxLevel = 6
INIT Init
NEXT Next
CONSTRAINT Bound
INVARIANT EmitState
INVARIANT TypeOK
INVARIANT MeshSpansCore
INVARIANT MeshIsMeanOfKeptRows
INVARIANT AtomsPerAssembly
INVARIANT AtomsPerCore
INVARIANT InTotalsPerAssembly
INVARIANT NotMappedInIsDefault
INVARIANT UnflaggedUntouched
INVARIANT SourceUntouched
INVARIANT OutTotalsRestored
INVARIANT OutMeanRestored
INVARIANT OutIsMappedForEveryCategory
INVARIANT NotMappedOutUnchanged
CHECK_DEADLOCK FALSE
