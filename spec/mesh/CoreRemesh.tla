------------------------------------------- MODULE CoreRemesh -------------------------------------------
(* C11, whole-core layer -- armi/reactor/converters/uniformMesh.py UniformMeshGeometryConverter.convert /
   applyStateToOriginal and its two subclasses, on a third-core (periodic) hex core of 2-4 assemblies of equal height:
     assembly 1  fuel, at the CENTRE (symmetry factor 3), the reference assembly
     assembly 2  fuel, ring 2          assembly 3  control, ring 2 (three or four blocks)
     assembly 4  fuel, ring 2, an outlier: as many mesh points as the reference but planes > 20 % away
   Heights are in twelfths of a unit (Scale = 12) so that means over 1..4 meshes stay integers.

   Actions (one per public call; cv = [cls, mode] is the converter object, kept for the whole history)
     Convert(cls, mode)   converter = cls(cs) ; converter.convert(r)
         mode "new"          cs without nonUniformAssemFlags: a new reactor, every assembly re-meshed onto the common mesh
                             (_computeAverageAxialMesh: average1DWithinTolerance over the meshes with as many points as the
                             reference; no decusping -- that is CommonMesh.tla), number densities and the "in" parameters mapped
         mode "flagControl"  cs nonUniformAssemFlags = [control]: in place, only control assemblies are replaced by copies on
         mode "flagFuel"     the core's axial mesh (= the reference assembly's mesh after Core.updateAxialMesh); idem for fuel
     Solve(q)             a physics kernel writes every block parameter and the core parameter on the converted core
     Apply                converter.applyStateToOriginal(): the "out" parameters (never the number densities) come back
     Grow(d)              converter.reset() ; the material block of every assembly grows by d (Block.setHeight, densities kept)
     Convert2             converter.convert(r) again with the SAME converter object

   Which abstract parameter is mapped when (transcribes _setParamsToUpdate against the categories of the real parameters):
       HM massHmBOL      integrated  depletion                               neutronics in
       I  power          integrated  neutronics, detailedAxialExpansion      neutronics out, gamma out
       IA mgFlux         integrated array, multi-group                       neutronics out, gamma in
       A  pdens          averaged    neutronics, detailedAxialExpansion      neutronics out, gamma out
       P  fluxPeak       peak        detailedAxialExpansion                  neutronics out
       GI mgFluxGamma    integrated array, gamma + multi-group               gamma out
       GA mgGammaSrc     averaged array,   gamma + multi-group               gamma out
       CU detailedDpa    averaged    cumulative                              never
   Integrated values are the ones HELD by the blocks (for the centre assembly: of the represented third).  Conservation "per
   assembly" therefore includes: adding the re-meshed centre assembly to a core must not rescale what was mapped in.
*)
EXTENDS RemeshDefs, Json

CONSTANTS HCo,        \* core height in whole units
          M1Set, M2Set, MCSet, MOSet,   \* admissible meshes (whole-unit tops, <<>> = assembly absent) of assemblies 1..4
          Profiles, Classes, Modes, SolveQ, Grows, MaxLevel

VARIABLES core, conv, orig, mesh, stage, cv, rp, crp, hist, ini
vars == <<core, conv, orig, mesh, stage, cv, rp, crp, hist, ini>>

Scale == 12
Par == {"HM", "I", "IA", "A", "P", "GI", "GA", "CU"}
In(cls)  == IF cls = "neutronics" THEN {"HM"} ELSE {"IA"}
Out(cls) == IF cls = "neutronics" THEN {"I", "IA", "A", "P"} ELSE {"I", "A", "GI", "GA"}

(* ---------------- average1DWithinTolerance / _computeAverageAxialMesh (integer form, as in MeshFilterDefs) ---------------- *)
AbsI(x) == IF x < 0 THEN 0 - x ELSE x
ColSum(rows, c) == FoldLeft(LAMBDA acc, r : acc + r[c], 0, rows)
OffMean(rows, r, c) == 5 * AbsI(Len(rows) * r[c] - ColSum(rows, c)) > ColSum(rows, c)          \* |v - mean| / mean > 0.2
OnEdge(rows, r, c)  == 5 * AbsI(Len(rows) * r[c] - ColSum(rows, c)) = ColSum(rows, c)          \* exactly at the tolerance
RECURSIVE KeptRows(_)
KeptRows(rows) == LET keep == SelectSeq(rows, LAMBDA r : \A c \in 1..Len(r) : ~OffMean(rows, r, c))
                  IN IF rows = <<>> \/ Len(keep) = Len(rows) THEN rows ELSE KeptRows(keep)
RECURSIVE Borderline(_)
\* a float evaluation could decide differently from the exact one: such cores are not enumerated
Borderline(rows) == LET keep == SelectSeq(rows, LAMBDA r : \A c \in 1..Len(r) : ~OffMean(rows, r, c))
                    IN \/ \E i \in 1..Len(rows) : \E c \in 1..Len(rows[i]) : OnEdge(rows, rows[i], c)
                       \/ (rows # <<>> /\ Len(keep) # Len(rows) /\ Borderline(keep))
MeanOf(rows) == [c \in 1..Len(rows[1]) |-> ColSum(rows, c) \div Len(rows)]
RowsOf(co) == LET same == SelectSeq(co, LAMBDA a : K(a) = K(co[1])) IN [i \in 1..Len(same) |-> same[i].tops]
CommonMeshOf(co) == MeanOf(KeptRows(RowsOf(co)))

(* ---------------- the core ---------------- *)
Flagged(a, mode) == (mode = "flagControl" /\ ~a.asmFuel) \/ (mode = "flagFuel" /\ a.asmFuel)
Fresh(m, a) == [tops |-> m, fuel |-> 0, asmFuel |-> a.asmFuel,
                N |-> [j \in 1..Len(m) |-> [n \in Nuc |-> RZero]], P |-> [j \in 1..Len(m) |-> [p \in Par |-> Default(p)]]]
TargetMesh(co, mode) == IF mode = "new" THEN CommonMeshOf(co) ELSE co[1].tops
ConvertCore(co, cls, mode) ==
    [a \in 1..Len(co) |-> IF mode = "new" \/ Flagged(co[a], mode)
                          THEN MapSel(co[a], Fresh(TargetMesh(co, mode), co[a]), In(cls), TRUE) ELSE co[a]]
ApplyCore(cn, co, og, cls, mode) ==
    [a \in 1..Len(co) |-> IF mode = "new" THEN MapSel(cn[a], co[a], Out(cls), FALSE)
                          ELSE IF Flagged(og[a], mode) THEN MapSel(cn[a], og[a], Out(cls), FALSE) ELSE cn[a]]
GrowAsm(a, d) == [a EXCEPT !.tops = [i \in 1..K(a) |-> IF i >= a.fuel THEN a.tops[i] + d * Scale ELSE a.tops[i]]]

Val(q, s, a, i) == IF q = 1 THEN (s % 2) + 1 ELSE (i + a + s) % 3
ProfPar(q, p, a, i) ==
    CASE p = "HM" -> <<RInt(Val(q, 1, a, i))>>   [] p = "I" -> <<RInt(Val(q, 2, a, i))>>
      [] p = "IA" -> IF q = 3 /\ (i + a) % 2 = 1 THEN Unset ELSE <<RInt(Val(q, 3, a, i)), RInt(Val(q, 4, a, i))>>
      [] p = "A"  -> <<RInt(Val(q, 5, a, i))>>   [] p = "P" -> <<RInt(Val(q, 6, a, i))>>
      [] p = "GI" -> IF q = 3 /\ (i + a) % 2 = 0 THEN Unset ELSE <<RInt(Val(q, 7, a, i)), RInt(Val(q, 8, a, i))>>
      [] p = "GA" -> <<RInt(Val(q, 9, a, i)), RInt(Val(q, 10, a, i))>>
      [] p = "CU" -> <<RInt(Val(q, 11, a, i))>>
NucSlot(n) == CASE n = "pin" -> 12 [] n = "duct" -> 13 [] n = "fluid" -> 14
MkAsm(m, isFuel, q, a) ==
    [tops |-> [i \in 1..Len(m) |-> m[i] * Scale], fuel |-> 2, asmFuel |-> isFuel,
     N |-> [i \in 1..Len(m) |-> [n \in Nuc |-> RInt(Val(q, NucSlot(n), a, i))]],
     P |-> [i \in 1..Len(m) |-> [p \in Par |-> ProfPar(q, p, a, i)]]]
MkCore(m1, m2, mc, mo, q) ==
    <<MkAsm(m1, TRUE, q, 1)>> \o (IF m2 = <<>> THEN <<>> ELSE <<MkAsm(m2, TRUE, q, 2)>>)
    \o (IF mc = <<>> THEN <<>> ELSE <<MkAsm(mc, FALSE, q, 3)>>) \o (IF mo = <<>> THEN <<>> ELSE <<MkAsm(mo, TRUE, q, 4)>>)

Init == /\ \E m1 \in M1Set, m2 \in M2Set, mc \in MCSet, mo \in MOSet, q \in Profiles :
             /\ core = MkCore(m1, m2, mc, mo, q)
             /\ ini = [m1 |-> m1, m2 |-> m2, mc |-> mc, mo |-> mo, prof |-> q]
        /\ ~Borderline(RowsOf(core)) /\ KeptRows(RowsOf(core)) # <<>>
        /\ conv = <<>> /\ orig = <<>> /\ mesh = <<>> /\ stage = "orig" /\ cv = [cls |-> "", mode |-> ""]
        /\ rp = RInt(7) /\ crp = RZero /\ hist = <<>>

DoConvert(cls, mode, first) ==
    /\ conv' = ConvertCore(core, cls, mode)
    /\ mesh' = TargetMesh(core, mode)
    /\ orig' = core
    /\ cv' = [cls |-> cls, mode |-> mode]
    /\ crp' = rp
    /\ stage' = IF first THEN "conv" ELSE "conv2"
    /\ UNCHANGED <<core, rp, ini>>
Convert(cls, mode) == stage = "orig" /\ DoConvert(cls, mode, TRUE) /\ hist' = Append(hist, [n |-> "Convert", cls |-> cls, mode |-> mode])
Convert2 == stage = "grown" /\ DoConvert(cv.cls, cv.mode, FALSE) /\ hist' = Append(hist, [n |-> "Convert2"])
Solve(q) ==
    /\ stage = "conv"
    /\ conv' = [a \in 1..Len(conv) |-> [conv[a] EXCEPT !.P = [i \in 1..K(conv[a]) |-> [p \in Par |-> ProfPar(q, p, a + 1, i)]]]]
    /\ crp' = RInt(q - 2)                  \* q = 2 writes 0.0 (then the cached original value must survive), q = 3 writes 1.0
    /\ stage' = "solved" /\ hist' = Append(hist, [n |-> "Solve", q |-> q])
    /\ UNCHANGED <<core, orig, mesh, cv, rp, ini>>
Apply ==
    /\ stage \in {"conv", "solved"}
    /\ core' = ApplyCore(conv, core, orig, cv.cls, cv.mode)
    \* new reactor: _clearStateOnReactor caches the original value, _mapStateFromReactorToOther prefers a non-zero result;
    \* flagged modes: the converted reactor IS the original one, the core parameter is whatever the solver left
    /\ rp' = IF cv.mode = "new" THEN (IF crp[1] # 0 THEN crp ELSE rp) ELSE crp
    /\ stage' = "back" /\ hist' = Append(hist, [n |-> "Apply"])
    /\ UNCHANGED <<conv, orig, mesh, cv, crp, ini>>
Grow(d) ==
    /\ stage = "back"
    /\ core' = [a \in 1..Len(core) |-> GrowAsm(core[a], d)]
    /\ stage' = "grown" /\ hist' = Append(hist, [n |-> "Grow", d |-> d])
    /\ UNCHANGED <<conv, orig, mesh, cv, rp, crp, ini>>
DoConv  == \E cls \in Classes, mode \in Modes : Convert(cls, mode)
DoSolve == \E q \in SolveQ : Solve(q)
DoGrow  == \E d \in Grows : Grow(d)
Next == DoConv \/ DoSolve \/ Apply \/ DoGrow \/ Convert2
Spec == Init /\ [][Next]_vars

(* ---------------- properties ---------------- *)
Converted == stage \in {"conv", "conv2"}
Height(co) == Top(co[1])
SumOver(co, f(_)) == RSumSet(1..Len(co), f)
TypeOK == /\ \A a \in 1..Len(core) : Top(core[a]) = Height(core)
          /\ Converted => Len(conv) = Len(core)
\* the common mesh is strictly increasing and spans the CURRENT core
MeshSpansCore == Converted => /\ mesh[Len(mesh)] = Height(core) /\ \A i \in 1..(Len(mesh) - 1) : 0 < mesh[i] /\ mesh[i] < mesh[i + 1]
                              /\ \A a \in 1..Len(conv) : Top(conv[a]) = Top(orig[a])
\* "uses only candidate points": the mesh is the mean of the meshes that remain, all of which are within 20 % of it
MeshIsMeanOfKeptRows ==
    (Converted /\ cv.mode = "new") =>
        LET kept == KeptRows(RowsOf(orig)) IN
        /\ \A c \in 1..Len(mesh) : mesh[c] * Len(kept) = ColSum(kept, c)
        /\ \A i \in 1..Len(kept) : \A c \in 1..Len(mesh) : 5 * AbsI(kept[i][c] - mesh[c]) <= mesh[c]
\* atoms of every nuclide: per assembly (hence per core)
AtomsPerAssembly == Converted => \A a \in 1..Len(conv) : \A n \in Nuc : Atoms(conv[a], n) = Atoms(orig[a], n)
AtomsPerCore     == Converted => \A n \in Nuc : SumOver(conv, LAMBDA a : Atoms(conv[a], n)) = SumOver(orig, LAMBDA a : Atoms(orig[a], n))
\* every volume-integrated quantity mapped in: per assembly -- the centre assembly included -- and per core
InTotalsPerAssembly ==
    Converted => \A a \in 1..Len(conv) : \A p \in In(cv.cls) : Integrated(p) => \A g \in 1..Arity(p) : Tot(conv[a], p, g) = Tot(orig[a], p, g)
NotMappedInIsDefault ==
    Converted => \A a \in 1..Len(conv) : (cv.mode = "new" \/ Flagged(orig[a], cv.mode)) =>
        \A j \in 1..K(conv[a]) : \A p \in Par \ In(cv.cls) : conv[a].P[j][p] = Default(p)
UnflaggedUntouched == (Converted /\ cv.mode # "new") => \A a \in 1..Len(conv) : ~Flagged(orig[a], cv.mode) => conv[a] = orig[a]
SourceUntouched == (Converted /\ cv.mode = "new") => core = orig
\* applyStateToOriginal: every "out" quantity comes back with its assembly total, nothing else changes
Before(a) == IF cv.mode = "new" \/ Flagged(orig[a], cv.mode) THEN orig[a] ELSE conv[a]
OutTotalsRestored ==
    stage = "back" => \A a \in 1..Len(core) : \A p \in Out(cv.cls) : Integrated(p) => \A g \in 1..Arity(p) :
        AllSet(conv[a], p) => Tot(core[a], p, g) = Tot(conv[a], p, g)
OutMeanRestored ==
    stage = "back" => \A a \in 1..Len(core) : \A p \in Out(cv.cls) : (~Integrated(p) /\ ~IsPeak(p) /\ AllSet(conv[a], p)) =>
        \A g \in 1..Arity(p) : Integral(core[a], p, g) = Integral(conv[a], p, g)
OutIsMappedForEveryCategory ==     \* whatever the solver set everywhere reaches every block of the original mesh
    stage = "back" => \A a \in 1..Len(core) : (cv.mode = "new" \/ Flagged(orig[a], cv.mode)) =>
        \A p \in Out(cv.cls) : AllSet(conv[a], p) => AllSet(core[a], p)
NotMappedOutUnchanged ==
    stage = "back" => \A a \in 1..Len(core) : /\ core[a].N = Before(a).N /\ core[a].tops = Before(a).tops
                                              /\ \A j \in 1..K(core[a]) : \A p \in Par \ Out(cv.cls) : core[a].P[j][p] = Before(a).P[j][p]

AObs(a) == [tops |-> a.tops, asmFuel |-> a.asmFuel, n |-> a.N, p |-> a.P, atoms |-> [n \in Nuc |-> Atoms(a, n)],
            tot |-> [p \in {"HM", "I", "IA", "GI"} |-> [g \in 1..Arity(p) |-> Tot(a, p, g)]]]
Obs == [core |-> [a \in 1..Len(core) |-> AObs(core[a])], conv |-> [a \in 1..Len(conv) |-> AObs(conv[a])], mesh |-> mesh, rp |-> rp, crp |-> crp]
=========================================================================================================
