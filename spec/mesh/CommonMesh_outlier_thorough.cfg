\* exhaustive + emission (thorough): three meshes averaged with an outlier, more reference / control variants; height 10
CONSTANTS HC = 10  Mins = {3, 5}  Families = {"outlierAll"}
INIT Init
NEXT Next
INVARIANT AtMostTwoRows
INVARIANT AverageIsMeanOfKeptRows
INVARIANT StrictlyIncreasing
INVARIANT OnlyCandidates
INVARIANT NoThinCells
INVARIANT KeepsAnchors
INVARIANT ExtremeFuelAnchored
INVARIANT IsolatedBoundaryKept
INVARIANT BoundariesKeptOrCrowded
INVARIANT FailsOnlyOnCloseAnchors
INVARIANT TopKept
INVARIANT Emit
CHECK_DEADLOCK FALSE
