\* exhaustive + emission (both tiers): thin-but-real overlaps.  One unit = 1/32 cm; source boundary at 1200,
\* target boundaries one unit beside it: overlaps of 1/1199 .. 1/1201 of a cell
CONSTANTS H = 2400  SrcPts = {1200}  DstPts = {1199, 1201}  Profiles = {1, 2, 3, 4, 11, 12}  FuelChoices = {3}  SolveProfiles = {}
          Jitters = {"none"}  Ops = {"MakeUniform"}  SnapFlags = {}
          SnapProfiles = {}  MoveProfiles = {}  Geoms = {"cold"}  MaxLevel = 5
INVARIANT EmitState
INIT Init
NEXT Next
CONSTRAINT Bound
INVARIANT TypeOK
INVARIANT AtomsConserved
INVARIANT IntegratedConserved
INVARIANT MeanOfOverlapped
INVARIANT MeanConservesIntegral
INVARIANT ConstantStaysConstant
INVARIANT PeakIsLargestOverlapped
INVARIANT UnsetOnlyFromUnset
INVARIANT SourceUntouched
INVARIANT RoundTripRestoresTotals
INVARIANT BetweenPartitions
INVARIANT BlockAtContains
INVARIANT SnapLaw
CHECK_DEADLOCK FALSE
