\* thorough: meshes over 0..5, values {1, 2, None}
CONSTANTS H = 5  Vals = {1, 2}  WithNone = TRUE
INIT Init
NEXT Next
INVARIANT SumConservesTotal
INVARIANT AvgConservesIntegral
INVARIANT ConstantStaysConstant
INVARIANT MeanIsBounded
INVARIANT IdentityOnSameMesh
INVARIANT PartsSumToCell
INVARIANT Emit
CHECK_DEADLOCK FALSE
