\* exhaustive (quick): every setBlockMesh of every H = 4 assembly (all fuel layouts, three flags), then every re-meshing of the result
CONSTANTS H = 4  SrcPts = {1, 2, 3}  DstPts = {1, 2, 3}  Profiles = {2}  FuelChoices = {0, 1, 2, 3, 5, 7, 9}  SolveProfiles = {}
          Jitters = {"none"}  Ops = {"MakeUniform", "Snap"}  SnapFlags = {"true", "false", "auto"}
          SnapProfiles = {2}  MoveProfiles = {}  Geoms = {"cold"}  MaxLevel = 5
INIT Init
NEXT Next
CONSTRAINT Bound
INVARIANT TypeOK
INVARIANT AtomsConserved
INVARIANT IntegratedConserved
INVARIANT MeanOfOverlapped
INVARIANT MeanConservesIntegral
INVARIANT ConstantStaysConstant
INVARIANT PeakIsLargestOverlapped
INVARIANT UnsetOnlyFromUnset
INVARIANT SourceUntouched
INVARIANT RoundTripRestoresTotals
INVARIANT BetweenPartitions
INVARIANT BlockAtContains
INVARIANT SnapLaw
CHECK_DEADLOCK FALSE
