\* exhaustive + emission (thorough): planes on one or both sides of the fuel, height 8, minimum sizes 3 and 5 half units
CONSTANTS HC = 8  Mins = {3, 5}  Families = {"planes", "planes2"}
INIT Init
NEXT Next
INVARIANT AtMostTwoRows
INVARIANT AverageIsMeanOfKeptRows
INVARIANT StrictlyIncreasing
INVARIANT OnlyCandidates
INVARIANT NoThinCells
INVARIANT KeepsAnchors
INVARIANT ExtremeFuelAnchored
INVARIANT IsolatedBoundaryKept
INVARIANT BoundariesKeptOrCrowded
INVARIANT FailsOnlyOnCloseAnchors
INVARIANT TopKept
INVARIANT Emit
CHECK_DEADLOCK FALSE
