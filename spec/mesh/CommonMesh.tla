------------------------------------------ MODULE CommonMesh ------------------------------------------
(* C11 -- UniformMeshGenerator.generateCommonMesh on a small core: _computeAverageAxialMesh (average1DWithinTolerance
   over the assemblies that have as many mesh points as the reference assembly) followed by _decuspAxialMesh.

   A case is a core of three assemblies of height HC (all points in whole units; results are in HALF units because two
   meshes are averaged):
     A1  fuel, centre (the reference assembly), blocks  lower | fuel | upper           tops <<f[1], f[2], HC>>
     A2  control, blocks lower | control | upper  (+ a split of the upper block when c4 > 0: then A2 has four mesh points
         and is left out of the average, but its control boundaries still enter the decusping)
     A3  fuel, four blocks  lower | fuel | upper | top                                  tops <<g[1], g[2], g[3], HC>>
         (never averaged -- four points -- but its fuel boundaries enter the decusping)
   min is the requested minimum cell size in half units.

   Outcomes: "avg" (average1DWithinTolerance raised: nothing near the mean), "anchors" (_filterMesh raised: two anchors
   closer than the minimum), or the mesh.  The clauses of the property are invariants of the result. *)
EXTENDS MeshFilterDefs, Json

CONSTANTS HC, Mins
VARIABLE c
Pairs  == {p \in (1..(HC - 1)) \X (1..(HC - 1)) : p[1] < p[2]}
Trips  == {t \in (1..(HC - 1)) \X (1..(HC - 1)) \X (1..(HC - 1)) : t[1] < t[2] /\ t[2] < t[3]}
Cases == {[f |-> f, k |-> k, c4 |-> x, g |-> g, min |-> m] : f \in Pairs, k \in Pairs, x \in 0..(HC - 1), g \in Trips, m \in Mins}
Init == c \in Cases /\ (c.c4 = 0 \/ c.c4 > c.k[2])
Next == UNCHANGED c

Rows == IF c.c4 = 0 THEN << <<c.f[1], c.f[2], HC>>, <<c.k[1], c.k[2], HC>> >> ELSE << <<c.f[1], c.f[2], HC>> >>
Avg  == AvgTol(Rows, 1, 5, 2)                                  \* tolerance 0.2, means in half units
FuelSpans == {<<2 * c.f[1], 2 * c.f[2]>>, <<2 * c.g[1], 2 * c.g[2]>>}
CtrlSpans == {<<2 * c.k[1], 2 * c.k[2]>>}
Common == SeqSet(Avg.mesh)
D == Decusp(Common, FuelSpans, CtrlSpans, c.min)
Outcome == IF ~Avg.ok THEN "avg" ELSE IF ~D.ok THEN "anchors" ELSE "mesh"
Candidates == Common \cup Bottoms(FuelSpans) \cup Tops(FuelSpans) \cup Bottoms(CtrlSpans) \cup Tops(CtrlSpans)

StrictlyIncreasing == Outcome = "mesh" => \A i \in 1..(Len(D.mesh) - 1) : D.mesh[i] < D.mesh[i + 1]
OnlyCandidates     == Outcome = "mesh" => SeqSet(D.mesh) \subseteq Candidates
NoThinCells        == Outcome = "mesh" => \A i \in 1..(Len(D.mesh) - 1) : D.mesh[i + 1] - D.mesh[i] >= c.min
KeepsAnchors       == Outcome = "mesh" => SeqSet(D.anchors) \subseteq SeqSet(D.mesh)
\* the anchored boundaries always contain the lowest fuel bottom and the highest fuel top
ExtremeFuelAnchored == Outcome = "mesh" => {Min(Bottoms(FuelSpans)), Max(Tops(FuelSpans))} \subseteq SeqSet(D.anchors)
\* every material boundary is kept or lies closer than min to a kept point
BoundariesKeptOrCrowded ==
    Outcome = "mesh" => \A x \in Candidates \ SeqSet(D.mesh) : \E y \in SeqSet(D.mesh) : AbsI(x - y) < c.min
\* "fails loudly when two anchors are closer than the minimum": the only anchors that can collide are a fuel bottom and a fuel top
FailsOnlyOnCloseAnchors ==
    Outcome = "anchors" => \E a \in Bottoms(FuelSpans) \cup Tops(FuelSpans), b \in Bottoms(FuelSpans) \cup Tops(FuelSpans) : a < b /\ b - a < c.min
TopKept == Outcome = "mesh" => (2 * HC \in SeqSet(D.mesh) \/ \E y \in SeqSet(D.mesh) : AbsI(2 * HC - y) < c.min)

Emit == PrintT(ToJson([c |-> c, outcome |-> Outcome, mesh |-> D.mesh, common |-> Avg.mesh, anchors |-> D.anchors]))
=========================================================================================================
