------------------------------------------ MODULE CommonMesh ------------------------------------------
(* C11 -- UniformMeshGenerator.generateCommonMesh on a small core: _computeAverageAxialMesh (average1DWithinTolerance
   over the assemblies that have as many mesh points as the reference assembly) followed by _decuspAxialMesh.

   A case is a core of two or three assemblies of height HC, each [t |-> block tops in whole units, b |-> index of its
   material block] (results are in HALF units because at most two meshes are averaged):
     a1  fuel, centre (the reference assembly)      a2  control      a3  fuel (t = <<>>: absent)
   Families of cases (constant Families):
     "avg"     a1 = lower|fuel|upper, a2 = lower|control|upper (+ a split of the upper block: four points, then a2 is left
               out of the average but its control boundaries still enter the decusping), a3 = lower|fuel|upper|top (never
               averaged, its fuel boundaries enter the decusping)                 -- two meshes averaged, tolerance filter
     "planes"  a1 = lower|lower'|fuel|upper  or  lower|fuel|upper|upper'  (a regular mesh plane that is NOT a material
               boundary below or above the fuel), a2 = lower|control|upper with every position of the control bottom and top
               relative to that plane (on it, within the minimum size above or below it, far from it), no a3
     "planes2" a1 = lower|lower'|fuel|upper|upper' (planes on both sides), a2 as in "planes", no a3
     "outlier" a1 = lower|fuel|upper (height 10: planes 4 and 7), a2 = control within one unit of it, a3 = fuel with three blocks
               anywhere: three meshes enter average1DWithinTolerance; where a3 is more than 20 % away it is dropped and the
               common mesh must be the mean of the two that remain ("outlierAll": more a1 / a2 variants).  Cores in which all
               three remain (thirds) or a comparison sits exactly on the tolerance are not enumerated.
   min is the requested minimum cell size in half units.

   Outcomes: "avg" (average1DWithinTolerance raised: nothing near the mean), "anchors" (_filterMesh raised: two anchors
   closer than the minimum), or the mesh.  The clauses of the property are invariants of the result. *)
EXTENDS MeshFilterDefs, Json

CONSTANTS HC, Mins, Families
VARIABLE c
Inner == 1..(HC - 1)
Pairs  == {p \in Inner \X Inner : p[1] < p[2]}
Trips  == {t \in Inner \X Inner \X Inner : t[1] < t[2] /\ t[2] < t[3]}
Quads  == {t \in Inner \X Inner \X Inner \X Inner : t[1] < t[2] /\ t[2] < t[3] /\ t[3] < t[4]}
Asm(t, b) == [t |-> t, b |-> b]
None3 == Asm(<<>>, 0)
CtrlOf(k, x) == IF x = 0 THEN Asm(<<k[1], k[2], HC>>, 2) ELSE Asm(<<k[1], k[2], x, HC>>, 2)
CasesAvg == {[fam |-> "avg", a1 |-> Asm(<<f[1], f[2], HC>>, 2), a2 |-> CtrlOf(k, x), a3 |-> Asm(<<g[1], g[2], g[3], HC>>, 2), min |-> m] :
                f \in Pairs, k \in Pairs, x \in 0..(HC - 1), g \in Trips, m \in Mins}
CasesPlanes == {[fam |-> "planes", a1 |-> Asm(<<t[1], t[2], t[3], HC>>, b), a2 |-> CtrlOf(k, 0), a3 |-> None3, min |-> m] :
                t \in Trips, b \in {2, 3}, k \in Pairs, m \in Mins}
CasesPlanes2 == {[fam |-> "planes2", a1 |-> Asm(<<t[1], t[2], t[3], t[4], HC>>, 3), a2 |-> CtrlOf(k, 0), a3 |-> None3, min |-> m] :
                t \in Quads, k \in Pairs, m \in Mins}
Near(f) == {k \in Pairs : AbsI(k[1] - f[1]) <= 1 /\ AbsI(k[2] - f[2]) <= 1}
CasesOutlier(fs, few) ==
    {[fam |-> "outlier", a1 |-> Asm(<<f[1], f[2], HC>>, 2), a2 |-> Asm(<<k[1], k[2], HC>>, 2), a3 |-> Asm(<<g[1], g[2], HC>>, 2), min |-> m] :
        f \in fs, k \in {k \in Pairs : \E f \in fs : k \in Near(f) /\ (few => k[1] = f[1])}, g \in Pairs, m \in Mins}
Cases == (IF "outlier" \in Families THEN CasesOutlier({<<4, 7>>}, TRUE) ELSE {})
         \cup (IF "outlierAll" \in Families THEN CasesOutlier({<<4, 7>>, <<5, 8>>}, FALSE) ELSE {})
         \cup (IF "avg" \in Families THEN CasesAvg ELSE {}) \cup (IF "planes" \in Families THEN CasesPlanes ELSE {})
         \cup (IF "planes2" \in Families THEN CasesPlanes2 ELSE {})
Present == SelectSeq(<<c.a1, c.a2, c.a3>>, LAMBDA a : a.t # <<>>)
Rows == LET same == SelectSeq(Present, LAMBDA a : Len(a.t) = Len(c.a1.t)) IN [i \in 1..Len(same) |-> same[i].t]
Init == /\ c \in Cases /\ (Len(c.a2.t) = 3 \/ c.a2.t[3] > c.a2.t[2])
        /\ c.fam = "outlier" => (c.a2.t \in {<<k[1], k[2], HC>> : k \in Near(<<c.a1.t[1], c.a1.t[2]>>)}
                                 /\ ~Borderline(Rows, 1, 5) /\ Len(KeptRows(Rows, 1, 5)) <= 2)
Next == UNCHANGED c

Avg  == AvgTol(Rows, 1, 5, 2)                                  \* tolerance 0.2, means in half units (at most two rows)
Span(a) == <<2 * (IF a.b = 1 THEN 0 ELSE a.t[a.b - 1]), 2 * a.t[a.b]>>
FuelSpans == {Span(c.a1)} \cup (IF c.a3.t = <<>> THEN {} ELSE {Span(c.a3)})
CtrlSpans == {Span(c.a2)}
Common == SeqSet(Avg.mesh)
D == Decusp(Common, FuelSpans, CtrlSpans, c.min)
Outcome == IF ~Avg.ok THEN "avg" ELSE IF ~D.ok THEN "anchors" ELSE "mesh"
Boundaries == Bottoms(FuelSpans) \cup Tops(FuelSpans) \cup Bottoms(CtrlSpans) \cup Tops(CtrlSpans)
Candidates == Common \cup Boundaries

AtMostTwoRows      == Len(KeptRows(Rows, 1, 5)) \in {0, 1, 2}
\* "uses only candidate points": the average mesh is the mean of the meshes that remain, each within 20 % of it
AverageIsMeanOfKeptRows ==
    Avg.ok => LET kept == KeptRows(Rows, 1, 5) IN
              /\ \A i \in 1..Len(Avg.mesh) : Avg.mesh[i] * Len(kept) = 2 * ColSum(kept, i)
              /\ \A r \in 1..Len(kept) : \A i \in 1..Len(Avg.mesh) : 5 * AbsI(2 * kept[r][i] - Avg.mesh[i]) <= Avg.mesh[i]
StrictlyIncreasing == Outcome = "mesh" => \A i \in 1..(Len(D.mesh) - 1) : D.mesh[i] < D.mesh[i + 1]
OnlyCandidates     == Outcome = "mesh" => SeqSet(D.mesh) \subseteq Candidates
NoThinCells        == Outcome = "mesh" => \A i \in 1..(Len(D.mesh) - 1) : D.mesh[i + 1] - D.mesh[i] >= c.min
KeepsAnchors       == Outcome = "mesh" => SeqSet(D.anchors) \subseteq SeqSet(D.mesh)
\* the anchored boundaries always contain the lowest fuel bottom and the highest fuel top
ExtremeFuelAnchored == Outcome = "mesh" => {Min(Bottoms(FuelSpans)), Max(Tops(FuelSpans))} \subseteq SeqSet(D.anchors)
\* a material boundary that is at least the minimum size away from every other material boundary is anchored, hence kept:
\* in particular a control bottom / top that sits within the minimum size of a regular (non-material) plane wins over the plane
IsolatedBoundaryKept ==
    Outcome = "mesh" => \A x \in Boundaries : (\A y \in Boundaries \ {x} : AbsI(x - y) >= c.min) => x \in SeqSet(D.mesh)
\* every candidate is kept or lies closer than min to a kept point
BoundariesKeptOrCrowded ==
    Outcome = "mesh" => \A x \in Candidates \ SeqSet(D.mesh) : \E y \in SeqSet(D.mesh) : AbsI(x - y) < c.min
\* "fails loudly when two anchors are closer than the minimum": the only anchors that can collide are a fuel bottom and a fuel top
FailsOnlyOnCloseAnchors ==
    Outcome = "anchors" => \E a \in Bottoms(FuelSpans) \cup Tops(FuelSpans), b \in Bottoms(FuelSpans) \cup Tops(FuelSpans) : a < b /\ b - a < c.min
TopKept == Outcome = "mesh" => (2 * HC \in SeqSet(D.mesh) \/ \E y \in SeqSet(D.mesh) : AbsI(2 * HC - y) < c.min)
\* how many cases put a control boundary strictly inside the minimum-size window of a regular plane (printed for non-vacuity)
NearPlane == {<<x, p>> \in (Bottoms(CtrlSpans) \cup Tops(CtrlSpans)) \X (Common \ Boundaries) : x # p /\ AbsI(x - p) < c.min}

Emit == PrintT(ToJson([c |-> c, outcome |-> Outcome, mesh |-> D.mesh, common |-> Avg.mesh, anchors |-> D.anchors,
                       rows |-> Len(Rows), kept |-> Len(KeptRows(Rows, 1, 5)),
                       near |-> [above |-> Cardinality({n \in NearPlane : n[1] > n[2]}), below |-> Cardinality({n \in NearPlane : n[1] < n[2]})]]))
=========================================================================================================
