------------------------------------------ MODULE FilterMesh ------------------------------------------
(* C11 -- UniformMeshGenerator._filterMesh as a pure function: every (candidate points, anchors, minimum size,
   preference) is one initial state; the clauses of the property are invariants of the transcribed algorithm's result
   and each case is printed with the expected result for the harness.  Anchors are a subset of the candidates (as in
   every call of _decuspAxialMesh / _getFilteredMeshTopAndBottom). *)
EXTENDS MeshFilterDefs, Json

CONSTANTS MaxPt,   \* candidate points are subsets of 0..MaxPt
          Mins     \* minimum sizes

VARIABLE c
Cases == UNION {{[pts |-> S, anchors |-> A, min |-> m, pref |-> p] : A \in SUBSET S, m \in Mins, p \in {"bottom", "top"}} : S \in (SUBSET (0..MaxPt)) \ {{}}}
Init == c \in Cases
Next == UNCHANGED c
R == Filter(c.pts, c.min, c.anchors, c.pref)

\* "fails loudly when two anchors are closer than the minimum" -- exactly then
FailsIffAnchorsTooClose == (~R.ok) <=> (\E a, b \in c.anchors : a < b /\ b - a < c.min)
StrictlyIncreasing == R.ok => \A i \in 1..(Len(R.mesh) - 1) : R.mesh[i] < R.mesh[i + 1]
OnlyCandidates     == R.ok => SeqSet(R.mesh) \subseteq c.pts
NoThinCells        == R.ok => \A i \in 1..(Len(R.mesh) - 1) : R.mesh[i + 1] - R.mesh[i] >= c.min
KeepsAnchors       == R.ok => c.anchors \subseteq SeqSet(R.mesh)
\* nothing is removed without need: every dropped candidate is closer than min to a kept point
DropsOnlyCrowded   == R.ok => \A x \in c.pts \ SeqSet(R.mesh) : \E y \in SeqSet(R.mesh) : AbsI(x - y) < c.min
\* the preferred end survives when no anchor forces it out
PreferredEndKept   == (R.ok /\ c.anchors = {}) => (IF c.pref = "bottom" THEN Min(c.pts) ELSE Max(c.pts)) \in SeqSet(R.mesh)

Emit == PrintT(ToJson([c |-> [pts |-> SortAsc(c.pts), anchors |-> SortAsc(c.anchors), min |-> c.min, pref |-> c.pref], ok |-> R.ok, mesh |-> R.mesh]))
=========================================================================================================
