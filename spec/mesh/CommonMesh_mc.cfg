\* exhaustive + emission (quick): cores of height 5, minimum sizes 2 and 3 half units
CONSTANTS HC = 5  Mins = {2, 3}
INIT Init
NEXT Next
INVARIANT StrictlyIncreasing
INVARIANT OnlyCandidates
INVARIANT NoThinCells
INVARIANT KeepsAnchors
INVARIANT ExtremeFuelAnchored
INVARIANT BoundariesKeptOrCrowded
INVARIANT FailsOnlyOnCloseAnchors
INVARIANT TopKept
INVARIANT Emit
CHECK_DEADLOCK FALSE
