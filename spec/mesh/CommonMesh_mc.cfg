\* exhaustive + emission (quick): averaged cores of height 5, minimum sizes 2 and 3 half units
CONSTANTS HC = 5  Mins = {2, 3}  Families = {"avg"}
INIT Init
NEXT Next
INVARIANT AtMostTwoRows
INVARIANT AverageIsMeanOfKeptRows
INVARIANT StrictlyIncreasing
INVARIANT OnlyCandidates
INVARIANT NoThinCells
INVARIANT KeepsAnchors
INVARIANT ExtremeFuelAnchored
INVARIANT IsolatedBoundaryKept
INVARIANT BoundariesKeptOrCrowded
INVARIANT FailsOnlyOnCloseAnchors
INVARIANT TopKept
INVARIANT Emit
CHECK_DEADLOCK FALSE
