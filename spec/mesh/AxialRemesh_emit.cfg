\* emission (quick): H = 4, all actions; one JSON line per distinct state
CONSTANTS H = 4  SrcPts = {1, 2, 3}  DstPts = {1, 2, 3}  Profiles = {1, 2, 3, 4, 11, 12, 13, 14}  FuelChoices = {0, 1, 3, 5, 7}  SolveProfiles = {3}
          Jitters = {"none"}  Ops = {"MakeUniform", "Solve", "MapBack", "Snap", "Move"}  SnapFlags = {"true", "false", "auto"}
          SnapProfiles = {2}  MoveProfiles = {2}  Geoms = {"cold"}  MaxLevel = 5
INVARIANT EmitState
INIT Init
NEXT Next
CONSTRAINT Bound
INVARIANT TypeOK
CHECK_DEADLOCK FALSE
