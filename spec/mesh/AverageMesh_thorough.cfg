\* exhaustive + emission (both tiers): values {4, 5, 6, 8, 9} (thorough)
CONSTANTS Vals = {4, 5, 6, 8, 9}
INIT Init
NEXT Next
INVARIANT IsMeanOfKept
INVARIANT KeptAreClose
INVARIANT FailsIffNoneLeft
INVARIANT NoOutlierNoChange
INVARIANT Idempotent
INVARIANT Emit
CHECK_DEADLOCK FALSE
