------------------------------------------ MODULE AxialRemesh ------------------------------------------
(* C11 -- re-meshing one assembly axially (armi/reactor/converters/uniformMesh.py, armi/reactor/assemblies.py).

   Exact model over integer mesh points and rational values (spec/common/Rational.tla).  One action per public
   mutator; queries are operators evaluated on every reached state.

     MakeUniform(mesh, jit)  UniformMeshGeometryConverter.makeAssemWithUniformMesh(src, mesh, paramMapper, mapNumberDensities=True)
                             = fresh blocks of the new heights ; setAssemblyStateFromOverlaps(src, new, mapper, True)
     Solve(q)                the environment (a physics kernel) writes a new parameter state on the converted assembly
     MapBack                 UniformMeshGeometryConverter.setAssemblyStateFromOverlaps(dst, src, mapper, mapNumberDensities=True)
     Move(tops)              interior block boundaries of the SAME source object move (Block.setHeight on every block, densities
                             kept, total height unchanged: a control rod moved, fuel grew into the plenum)
     MakeUniform2            makeAssemWithUniformMesh again, same source object, same target mesh as the first time: the model
                             has no memory, so an answer remembered from before the move diverges
     Snap(tops, flag)        Assembly.makeAxialSnapList(refMesh = own mesh) ; Assembly.setBlockMesh(tops, conserveMassFlag = flag)
                             (refused without any change for a one-block assembly: its last topIndex is 0)
   Operators transcribing queries / helpers of the code (the variable-free ones live in RemeshDefs.tla, shared with CoreRemesh)
     Between(a, lo, hi)      Assembly.getBlocksBetweenElevations   (touched blocks, clipped heights, sliver filter, height check)
     BlockAt(a, e)           Assembly.getBlockAtElevation
     MapN                    uniformMesh.setNumberDensitiesFromOverlaps          N' = sum N_i h_i / H'
     MapPar                  the parameter loop of setAssemblyStateFromOverlaps  (ParamMapper.isPeak / isVolIntegrated)
     Conserved               Assembly._shouldMassBeConserved (flag "auto"), True = everything, False = nothing

   Abstract state: an assembly is [tops, fuel, asmFuel, N, P]
     tops      strictly increasing integer block tops (bottom of the assembly is 0)
     fuel      index of the fuel block (0 = none); asmFuel = the assembly itself carries Flags.FUEL
     N[i][n]   homogenised number density of block i for nuclide class n \in {pin, duct, fluid}; each class lives in
               one kind of component (pin = the fuel component of a fuel block, duct = structure, fluid = a Fluid material)
     P[i][p]   parameters, every value a sequence of rationals (length 1 = scalar, 2 = array) or Unset = <<>> (None):
                 I  volume-integrated scalar   IA volume-integrated array, default None
                 A  averaged scalar            AA averaged array, default None       P  peak (ParamLocation.MAX) scalar

   Interpretation choices (each follows the code, not an idealisation)
     * a source value None is skipped; a destination whose overlapped sources are all None keeps its previous value
     * peak values are folded with max(value, 0.0): the peak law is stated for non-negative values (all values here are)
     * the 1e-10 sliver filter and the 1e-5 cm height check of getBlocksBetweenElevations are float-dust guards: in exact
       arithmetic "overlap > 0" and "sum = expected"; nearly coincident points are exercised by the harness through the
       jitter class of MakeUniform (the expected values are those of the exact mesh, compared with a wider tolerance)
     * all blocks of an assembly have the same cross-section area (atoms of a block = N * height * area)
     * queries are stated for windows inside the assembly, 0 <= lo < hi <= top
     * thin-but-real overlaps ("slivers", e.g. 1/1200 of a cell, far above the 1e-10 relative filter) are exact cases of the
       same rules: the sliver configurations use H = 2400 with source points {1200} and target points {1199, 1201}, so that
       PeakIsLargestOverlapped and every other law are decided by TLC on them and compared on the real code at rtol 1e-9
   Exploration bounds (not semantics): at most one Snap, explored from the profiles in SnapProfiles; after a Snap only the
   mass-conserving variant (flag True) is re-meshed further; Solve / MapBack only on histories without a Snap; fuel layouts
   are enumerated only where they matter (Snap), else the assembly is a fuel assembly whose first block is the fuel block.
   Not modelled: the choice of the source block a new block is copied from (xsType majority rule), setBlockMesh with a mesh
   that has None entries or is too short (the code then stops half way with a warning), multigroup pin-level parameters.
*)
EXTENDS RemeshDefs, Json

CONSTANTS H,             \* height of the initial assembly in mesh units
          SrcPts,        \* interior points the initial mesh may use   (1..H-1 in the plain configurations)
          DstPts,        \* interior points a target mesh may use      (1..H-1 in the plain configurations)
          Profiles,      \* value profiles of the initial assembly (see Slot)
          FuelChoices,   \* c: asmFuel = (c % 2 = 1), fuel block index = c \div 2
          SolveProfiles, \* profiles a solver may write on the converted assembly
          Jitters,       \* jitter classes of the target mesh (only interpreted by the harness)
          Ops,           \* enabled actions
          SnapFlags,     \* subset of {"true", "false", "auto"}
          SnapProfiles,  \* initial profiles from which Snap is explored
          MoveProfiles,  \* initial profiles from which Move ; MakeUniform2 is explored
          Geoms,         \* cross-section designs of the assembly (only interpreted by the harness; the laws do not depend on it):
                         \* "cold" pitch defined by a fluid hexagon at input temperature, "hot" by a thermally expanded solid duct
          MaxLevel

VARIABLES src, dst, stage, orig, pre, hist, ini
vars == <<src, dst, stage, orig, pre, hist, ini>>
Par == {"I", "IA", "A", "AA", "P"}
NoAsm         == [tops |-> <<>>, fuel |-> 0, asmFuel |-> FALSE, N |-> <<>>, P |-> <<>>]

\* elevations at which the queries are evaluated: every point any mesh can have (all of 0..H in the plain configurations; the
\* sliver configurations use H in the thousands with a handful of admissible points)
QPts(a) == ({0, H} \cup SrcPts \cup DstPts \cup {a.tops[i] : i \in 1..K(a)}) \cap (0..Top(a))
\* state of d after setAssemblyStateFromOverlaps(a, d, mapper, mapNumberDensities=True)
MapInto(a, d) == MapSel(a, d, Par, TRUE)

Fresh(mesh, a) == [tops |-> mesh, fuel |-> 0, asmFuel |-> a.asmFuel,
                   N |-> [j \in 1..Len(mesh) |-> [n \in Nuc |-> RZero]],
                   P |-> [j \in 1..Len(mesh) |-> [p \in Par |-> Default(p)]]]

(* ---------------- Assembly.setBlockMesh ---------------- *)
BelowFuel(a, i) == a.fuel = 0 \/ i < a.fuel
Conserved(a, i, n, flag) ==
    IF flag = "true" THEN TRUE
    ELSE IF flag = "false" THEN FALSE
    ELSE IF a.fuel = i THEN n = "pin"
    ELSE IF a.asmFuel THEN BelowFuel(a, i) /\ n # "fluid"
    ELSE FALSE
NewHt(t, i) == t[i] - (IF i = 1 THEN 0 ELSE t[i - 1])
SnapTo(a, t, flag) ==
    [a EXCEPT !.tops = t,
              !.N = [i \in 1..K(a) |-> [n \in Nuc |->
                        IF Conserved(a, i, n, flag) THEN RMul(a.N[i][n], RFrac(Ht(a, i), NewHt(t, i))) ELSE a.N[i][n]]]]
SnapMeshes(k, top) == {SortedSeq(S) : S \in {T \in SUBSET (SrcPts \cup {top}) : Cardinality(T) = k}}

(* ---------------- value profiles ---------------- *)
Ind(c) == IF c THEN 1 ELSE 0
\* slot s of block i (of k) under profile q; slots: pin 1, duct 2, fluid 3, I 4, IA 5 6, A 7, AA 8 9, P 10
Slot(q, s, i, k) ==
    CASE q = 1 -> (s % 2) + 1                     \* constant profile
      [] q = 2 -> (i + s) % 3                     \* ramps
      [] q = 3 -> (2 * i + s) % 3                 \* with unset array values in alternate blocks
      [] q = 4 -> (i * s) % 3                     \* array parameters unset everywhere
      [] q >= 10 -> Ind(i = q - 10) * (IF s \in {6, 9} THEN 2 ELSE 1)   \* unit profile at block q - 10
NucSlot(n) == CASE n = "pin" -> 1 [] n = "duct" -> 2 [] n = "fluid" -> 3
ProfPar(q, p, i, k) ==
    CASE p = "I"  -> <<RInt(Slot(q, 4, i, k))>>
      [] p = "IA" -> IF q = 4 \/ (q = 3 /\ i % 2 = 1) THEN Unset ELSE <<RInt(Slot(q, 5, i, k)), RInt(Slot(q, 6, i, k))>>
      [] p = "A"  -> <<RInt(Slot(q, 7, i, k))>>
      [] p = "AA" -> IF q = 4 \/ (q = 3 /\ i % 2 = 0) THEN Unset ELSE <<RInt(Slot(q, 8, i, k)), RInt(Slot(q, 9, i, k))>>
      [] p = "P"  -> <<RInt(Slot(q, 10, i, k))>>
MkAsm(mesh, q, c) ==
    [tops |-> mesh, fuel |-> c \div 2, asmFuel |-> (c % 2 = 1),
     N |-> [i \in 1..Len(mesh) |-> [n \in Nuc |-> RInt(Slot(q, NucSlot(n), i, Len(mesh)))]],
     P |-> [i \in 1..Len(mesh) |-> [p \in Par |-> ProfPar(q, p, i, Len(mesh))]]]

(* ---------------- behaviour ---------------- *)
\* fuel layouts only matter for Snap: they are enumerated for the profiles Snap is explored from, else fixed (fuel assembly, block 1)
Init == /\ \E m \in Meshes(H, SrcPts), q \in Profiles, c \in FuelChoices \cup {3}, gm \in Geoms :
             /\ (q \in SnapProfiles /\ "Snap" \in Ops) => c \in FuelChoices
             /\ ~(q \in SnapProfiles /\ "Snap" \in Ops) => c = 3
             /\ c \div 2 <= Len(m)
             /\ q >= 10 => q - 10 <= Len(m)
             /\ src = MkAsm(m, q, c)
             /\ ini = [mesh |-> m, prof |-> q, fc |-> c, geom |-> gm]
        /\ dst = NoAsm /\ orig = NoAsm /\ pre = NoAsm /\ stage = "orig" /\ hist = <<>>

MakeUniform(mesh, jit) ==
    /\ "MakeUniform" \in Ops /\ stage = "orig"
    /\ dst' = MapInto(src, Fresh(mesh, src))
    /\ orig' = src /\ stage' = "uniform"
    /\ hist' = Append(hist, [n |-> "MakeUniform", mesh |-> mesh, jit |-> jit])
    /\ UNCHANGED <<src, pre, ini>>

Solve(q) ==
    /\ "Solve" \in Ops /\ stage = "uniform" /\ pre = NoAsm
    /\ dst' = [dst EXCEPT !.P = [j \in 1..K(dst) |-> [p \in Par |-> ProfPar(q, p, j, K(dst))]]]
    /\ stage' = "solved"
    /\ hist' = Append(hist, [n |-> "Solve", q |-> q])
    /\ UNCHANGED <<src, orig, pre, ini>>

MapBack ==
    /\ "MapBack" \in Ops /\ stage \in {"uniform", "solved"} /\ pre = NoAsm
    /\ src' = MapInto(dst, src)
    /\ stage' = "back"
    /\ hist' = Append(hist, [n |-> "MapBack"])
    /\ UNCHANGED <<dst, orig, pre, ini>>

Move(t) ==
    /\ "Move" \in Ops /\ stage = "uniform" /\ pre = NoAsm /\ ini.prof \in MoveProfiles /\ hist[1].jit = "none"
    /\ Len(t) = K(src) /\ t # src.tops
    /\ src' = [src EXCEPT !.tops = t]
    /\ stage' = "moved"
    /\ hist' = Append(hist, [n |-> "Move", tops |-> t])
    /\ UNCHANGED <<dst, orig, pre, ini>>

MakeUniform2 ==
    /\ stage = "moved"
    /\ dst' = MapInto(src, Fresh(hist[1].mesh, src))
    /\ orig' = src /\ stage' = "uniform2"
    /\ hist' = Append(hist, [n |-> "MakeUniform2", mesh |-> hist[1].mesh])
    /\ UNCHANGED <<src, pre, ini>>

Snap(t, flag) ==
    /\ "Snap" \in Ops /\ stage = "orig" /\ pre = NoAsm /\ ini.prof \in SnapProfiles /\ K(src) >= 2
    /\ src' = SnapTo(src, t, flag)
    /\ pre' = src
    /\ hist' = Append(hist, [n |-> "Snap", tops |-> t, flag |-> flag])
    /\ UNCHANGED <<dst, orig, stage, ini>>

SnapRefused(t, flag) ==      \* one block: self[-1].p.topIndex == 0  =>  warning, nothing applied
    /\ "Snap" \in Ops /\ stage = "orig" /\ pre = NoAsm /\ ini.prof \in SnapProfiles /\ K(src) = 1
    /\ pre' = src
    /\ hist' = Append(hist, [n |-> "Snap", tops |-> t, flag |-> flag])
    /\ UNCHANGED <<src, dst, orig, stage, ini>>

\* (the guards are repeated in front of the quantifiers so that TLC does not enumerate meshes in states where the action is disabled)
\* exploration bound, not semantics: after a Snap only the mass-conserving variant is re-meshed further
DoMakeUniform == stage = "orig" /\ "MakeUniform" \in Ops /\ (IF pre = NoAsm THEN TRUE ELSE hist[Len(hist)].flag = "true") /\ \E m \in Meshes(Top(src), DstPts), j \in Jitters : MakeUniform(m, j)
DoSolve       == stage = "uniform" /\ \E q \in SolveProfiles : Solve(q)
CanSnap       == "Snap" \in Ops /\ stage = "orig" /\ pre = NoAsm /\ ini.prof \in SnapProfiles
DoSnap        == CanSnap /\ K(src) >= 2 /\ \E t \in SnapMeshes(K(src), H), f \in SnapFlags : Snap(t, f)
DoSnapRefused == CanSnap /\ K(src) = 1 /\ \E t \in SnapMeshes(K(src), H), f \in SnapFlags : SnapRefused(t, f)
DoMove        == stage = "uniform" /\ "Move" \in Ops /\ \E t \in Meshes(Top(src), SrcPts) : Move(t)
Next == DoMakeUniform \/ DoSolve \/ MapBack \/ DoSnap \/ DoSnapRefused \/ DoMove \/ MakeUniform2

Spec == Init /\ [][Next]_vars

(* ---------------- properties: the clauses of C11 ---------------- *)
IsAsm(a) == /\ \A i \in 1..K(a) : Ht(a, i) > 0
            /\ Len(a.N) = K(a) /\ Len(a.P) = K(a)
            /\ \A i \in 1..K(a), p \in Par : a.P[i][p] = Unset \/ Len(a.P[i][p]) = Arity(p)
IsUniform == stage \in {"uniform", "uniform2"}      \* dst has just been made from src (= orig)
TypeOK == /\ stage \in {"orig", "uniform", "solved", "back", "moved", "uniform2"}
          /\ IsAsm(src) /\ IsAsm(dst) /\ K(src) >= 1
          /\ (stage = "orig") <=> (dst = NoAsm)
          /\ stage # "orig" => Top(dst) = Top(src)

Converted == stage \in {"uniform", "solved", "uniform2"}
Solved    == \E k \in 1..Len(hist) : hist[k].n = "Solve"

\* "conserves the number of atoms (hence mass) of every nuclide"
AtomsConserved == stage # "orig" => \A n \in Nuc : Atoms(dst, n) = Atoms(orig, n)
\* "conserves the assembly total of every volume-integrated quantity"
IntegratedConserved ==
    IsUniform => \A p \in {"I", "IA"} : \A g \in 1..Arity(p) : Tot(dst, p, g) = Tot(orig, p, g)
\* "gives for every other quantity the height-weighted mean of the source values it overlaps"
MeanOfOverlapped ==
    IsUniform =>
        \A p \in {"A", "AA"} : \A j \in 1..K(dst) :
            LET lo == Bot(dst, j)  hi == dst.tops[j]  over == OverIdx(orig, lo, hi) IN
            (\A i \in over : orig.P[i][p] # Unset) =>
                \A g \in 1..Arity(p) :
                    RMul(dst.P[j][p][g], RInt(hi - lo)) = RSumSet(over, LAMBDA i : RMul(orig.P[i][p][g], RInt(OvH(orig, i, lo, hi))))
MeanConservesIntegral ==
    IsUniform => \A p \in {"A", "AA"} : AllSet(orig, p) =>
        \A g \in 1..Arity(p) : Integral(dst, p, g) = Integral(orig, p, g)
\* "so constant profiles stay constant"
ConstantStaysConstant ==
    IsUniform =>
        /\ \A p \in {"A", "AA", "P"} :
              (AllSet(orig, p) /\ \A i \in 1..K(orig) : orig.P[i][p] = orig.P[1][p]) => \A j \in 1..K(dst) : dst.P[j][p] = orig.P[1][p]
        /\ \A n \in Nuc : (\A i \in 1..K(orig) : orig.N[i][n] = orig.N[1][n]) => \A j \in 1..K(dst) : dst.N[j][n] = orig.N[1][n]
\* "peak quantities take the largest overlapped value"
PeakIsLargestOverlapped ==
    IsUniform => \A j \in 1..K(dst) :
        LET over == OverIdx(orig, Bot(dst, j), dst.tops[j]) IN
        /\ \E i \in over : dst.P[j]["P"] = orig.P[i]["P"]
        /\ \A i \in over : RLeq(orig.P[i]["P"][1], dst.P[j]["P"][1])
\* the unset rule: an unset result only where every overlapped source is unset
UnsetOnlyFromUnset ==
    IsUniform => \A p \in {"IA", "AA"} : \A j \in 1..K(dst) :
        (dst.P[j][p] = Unset) <=> (\A i \in OverIdx(orig, Bot(dst, j), dst.tops[j]) : orig.P[i][p] = Unset)
\* making the converted assembly does not touch the source
SourceUntouched == Converted => src = orig
\* "mapping a state back onto the original mesh restores those totals"
RoundTripRestoresTotals ==
    stage = "back" =>
        /\ \A n \in Nuc : Atoms(src, n) = Atoms(orig, n)
        /\ K(src) = K(orig) /\ src.tops = orig.tops
        /\ \A p \in {"I", "IA"} : \A g \in 1..Arity(p) :
              /\ AllSet(dst, p) => Tot(src, p, g) = Tot(dst, p, g)
              /\ ~Solved => Tot(src, p, g) = Tot(orig, p, g)
        /\ \A p \in {"A", "AA"} : (AllSet(dst, p) /\ AllSet(orig, p)) => \A g \in 1..Arity(p) : Integral(src, p, g) = Integral(dst, p, g)

\* "The blocks reported between two elevations partition the interval: positive overlaps that sum to its length"
PartitionOf(a) ==
    \A lo \in QPts(a), hi \in QPts(a) : lo < hi =>
        LET r == Between(a, lo, hi) IN
        /\ ~BetweenRaises(a, lo, hi)
        /\ Len(r) >= 1
        /\ \A j \in 1..Len(r) : r[j][2] > 0 /\ r[j][2] <= Ht(a, r[j][1])
        /\ \A j \in 1..(Len(r) - 1) : r[j + 1][1] = r[j][1] + 1
        /\ BetweenTotal(a, lo, hi) = hi - lo
        /\ Bot(a, r[1][1]) <= lo /\ lo < a.tops[r[1][1]]
        /\ Bot(a, r[Len(r)][1]) < hi /\ hi <= a.tops[r[Len(r)][1]]
\* (a mesh only changes in stage "orig" (Snap) and when the converted assembly is made: checked there, once per mesh)
BetweenPartitions == (stage \in {"orig", "moved"} => PartitionOf(src)) /\ (stage = "uniform" => PartitionOf(dst))
BlockAtOf(a) == /\ BlockAt(a, 0) = 0
                /\ \A e \in QPts(a) \ {0} : LET i == BlockAt(a, e) IN i \in 1..K(a) /\ Bot(a, i) < e /\ e <= a.tops[i]
BlockAtContains == (stage = "orig" => BlockAtOf(src)) /\ (stage = "uniform" => BlockAtOf(dst))

\* Assembly.setBlockMesh: what is conserved by which flag
LastAct == hist[Len(hist)]
SnapLaw ==
    (stage = "orig" /\ pre # NoAsm) =>
        LET f == LastAct.flag IN
        /\ src.P = pre.P /\ K(src) = K(pre) /\ src.fuel = pre.fuel
        /\ K(pre) = 1 => src = pre
        /\ K(pre) >= 2 =>
              /\ src.tops = LastAct.tops
              /\ \A i \in 1..K(src), n \in Nuc :
                    IF Conserved(pre, i, n, f)
                    THEN RMul(src.N[i][n], RInt(Ht(src, i))) = RMul(pre.N[i][n], RInt(Ht(pre, i)))   \* atoms of the block kept
                    ELSE src.N[i][n] = pre.N[i][n]                                                      \* density kept
              /\ f = "true" => \A n \in Nuc : Atoms(src, n) = Atoms(pre, n)
              /\ f = "auto" => (\A i \in 1..K(src) : Conserved(pre, i, "fluid", f) = FALSE)

(* ---------------- observation printed for the harness ---------------- *)
AObs(a) == [tops |-> a.tops, fuel |-> a.fuel, asmFuel |-> a.asmFuel, n |-> a.N, p |-> a.P,
            atoms |-> [n \in Nuc |-> Atoms(a, n)],
            tot |-> [p \in {"I", "IA"} |-> [g \in 1..Arity(p) |-> Tot(a, p, g)]]]
Pairs(a) == {pr \in QPts(a) \X QPts(a) : pr[1] < pr[2]}
Queries(a) == [between |-> SetToSeq({[lo |-> pr[1], hi |-> pr[2], r |-> Between(a, pr[1], pr[2])] : pr \in Pairs(a)}),
               at |-> [j \in 1..Cardinality(QPts(a)) |-> <<SortedSeq(QPts(a))[j], BlockAt(a, SortedSeq(QPts(a))[j])>>]]
Obs == [src |-> AObs(src), dst |-> AObs(dst),
        q |-> IF stage \in {"orig", "moved"} THEN Queries(src) ELSE IF stage = "uniform" THEN Queries(dst) ELSE [between |-> <<>>, at |-> <<>>]]
=========================================================================================================
