\* exhaustive + emission (quick): a regular plane below or above the fuel, control bottom and top anywhere around it; height 7,
\* minimum size 3 half units (points are even: a boundary one whole unit from a plane is inside the window; the fuel must be two units high)
CONSTANTS HC = 7  Mins = {3}  Families = {"planes"}
INIT Init
NEXT Next
INVARIANT AtMostTwoRows
INVARIANT AverageIsMeanOfKeptRows
INVARIANT StrictlyIncreasing
INVARIANT OnlyCandidates
INVARIANT NoThinCells
INVARIANT KeepsAnchors
INVARIANT ExtremeFuelAnchored
INVARIANT IsolatedBoundaryKept
INVARIANT BoundariesKeptOrCrowded
INVARIANT FailsOnlyOnCloseAnchors
INVARIANT TopKept
INVARIANT Emit
CHECK_DEADLOCK FALSE
