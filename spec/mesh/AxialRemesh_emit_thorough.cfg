\* emission (thorough): H = 5, all actions
CONSTANTS H = 5  SrcPts = {1, 2, 3, 4}  DstPts = {1, 2, 3, 4}  Profiles = {1, 2, 3, 4, 11, 12, 13, 14, 15}  FuelChoices = {0, 1, 2, 3, 5, 7, 9, 11}  SolveProfiles = {2, 3}
          Jitters = {"none"}  Ops = {"MakeUniform", "Solve", "MapBack", "Snap", "Move"}  SnapFlags = {"true", "false", "auto"}
          SnapProfiles = {2}  MoveProfiles = {3}  Geoms = {"cold"}  MaxLevel = 5
INVARIANT EmitState
INIT Init
NEXT Next
CONSTRAINT Bound
INVARIANT TypeOK
CHECK_DEADLOCK FALSE
