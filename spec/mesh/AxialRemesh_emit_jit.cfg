\* emission (quick): nearly coincident target points (jitter classes), there and back
CONSTANTS H = 4  SrcPts = {1, 2, 3}  DstPts = {1, 2, 3}  Profiles = {2, 3, 11}  FuelChoices = {3}  SolveProfiles = {}
          Jitters = {"up", "down"}  Ops = {"MakeUniform", "MapBack"}  SnapFlags = {}
          SnapProfiles = {}  MoveProfiles = {}  Geoms = {"cold"}  MaxLevel = 5
INVARIANT EmitState
INIT Init
NEXT Next
CONSTRAINT Bound
INVARIANT TypeOK
CHECK_DEADLOCK FALSE
