\* emission, thorough (workers 1): documents within ThoroughEmit(family) edits
CONSTANT MaxLevel <- ThoroughEmit
CONSTANT Families = {"links", "comp", "stack", "pins", "core", "duct", "group"}
INVARIANT EmitState
INIT Init
NEXT Next
CONSTRAINT Bound
VIEW View
INVARIANT TypeOK
INVARIANT VerdictTotal
INVARIANT OkIsUnambiguous
INVARIANT OkIsPhysical
INVARIANT OkIsStacked
INVARIANT MapAndListAgree
INVARIANT PinsPartition
CHECK_DEADLOCK FALSE
