------------------------------------------- MODULE Blueprint_mc -------------------------------------------
EXTENDS Blueprint
Bound == TLCGet("level") <= MaxLevel + 1 /\ Modelled(doc)
View == vars
\* one JSON line per document: the abstract text, the verdict and -- for well-formed documents -- the reactor it describes
EmitState == PrintT(ToJson([fam |-> fam, doc |-> doc, verdict |-> V, act |-> act,
                            exp |-> IF V = "ok" THEN Expected(doc) ELSE [none |-> TRUE]]))
=====================================================================================================
