------------------------------------------- MODULE Blueprint_mc -------------------------------------------
EXTENDS Blueprint
Bound == Modelled(doc)
\* edit depth per family (cfg: MaxLevel <- ...)
Depth1(f) == 1
QuickDepth(f)    == IF f \in {"comp"} THEN 3 ELSE IF f \in {"core"} THEN 1 ELSE 2
EmitDepth(f)     == IF f \in {"core"} THEN 1 ELSE 2
ThoroughDepth(f) == IF f \in {"comp"} THEN 4 ELSE IF f \in {"core"} THEN 2 ELSE 3
ThoroughEmit(f)  == IF f \in {"comp", "pins"} THEN 3 ELSE 2
View == vars
\* one JSON line per document: the abstract text, the verdict and -- for well-formed documents -- the reactor it describes
EmitState == ~Modelled(doc) \/ PrintT(ToJson([fam |-> fam, doc |-> doc, verdict |-> V, why |-> Why(doc), act |-> act,
                            exp |-> IF V = "ok" THEN Expected(doc) ELSE [none |-> TRUE]]))
=====================================================================================================
