------------------------------------------- MODULE Blueprint_mc -------------------------------------------
(* C18 -- bounds and emission for Blueprint.tla.
   Families and what their edits vary (every family starts from base documents defined in Blueprint.tla):
     links  one block fuel/clad/liner/coolant/duct: dimension and mult links (any pin to any pin, chains, forward
            references), alternative numbers (including ones that overlap or overfill the block), dropped / reordered /
            renamed components, a square pin, other temperatures;
            a Sodium bond or a Void gap linked between fuel and clad (id: fuel.od, od: clad.id) with a fuel slug smaller
            than, larger than the inside of, and larger than the outside of its cladding: two overlapping solids show only
            as the negative area of the fluid between them (refused; a Void gap is exempt, Component._checkNegativeArea)
     comp   (with a `nuclide flags` section) custom isotopics in the three input formats on a Custom material, isotopics on
            library materials (steel on HT9; oxide vectors on UraniumOxide and UZr, one of them listing the balance isotope
            U238 at exactly 0.0), the library oxide as it is, U235_wt_frac / ZR_wt_frac modifications by block and by
            component with blank entries (enrichment = requested weight fraction of U235 within the uranium, also on top
            of an override: Material.adjustMassFrac incl. its zero-balance branch), a short list, duplicate isotopics
     stack  two assembly designs over three block designs: block order, heights, mesh points, xs types swapped, lists
            shortened / lengthened, specifiers and names changed (unknown / duplicate), heights off the reference mesh
     pins   a pin lattice (corners-up or flats-up hex, text map or explicit list): ids placed on the seven inner cells,
            latticeIDs, explicit mult (conflicts), unknown grid name
     duct   a wire-wrapped 19-pin bundle inside an inner and an outer hexagonal duct: inner / outer duct ip, wire od, pin
            count, the two ducts written in either order, one duct dropped -- the bundle must fit the INNERMOST duct
            (HexBlock.verifyBlockDims / getPinToDuctGap), whatever the order
     (comp also: zero-valued modification entries (a request, unlike a blank), two modifications of one component set
      together, any list too short or too long; stack also: lower-case, mixed-case and two-letter xs types)
     group  a block that uses a component group (top-level `components:` + `component groups:`): the members' own mult, the
            group's mult (the group's wins, whatever the member's own is), a group nobody defines
     (comp also: class 1 / class 2 heavy-metal blends from a Pu feed, depleted U and LEU -- feeds that do / do not cover the
      base material's heavy-metal nuclides -- on UZr and UraniumOxide, with name-valued modification entries)
     core   two assembly designs on core grids: hex full, hex third, hex corners-up full, Cartesian full and quarter
            (each as explicit list and as text map), theta-R-Z (explicit list); cells placed / removed, unknown
            specifier, cells outside a third core, a cell listed twice, two grids of one name
   MaxLevel <- one of the depth tables below (cfg).  The emission configurations carry every invariant: in the quick
   tier they are the exhaustive run.                                                                              *)
EXTENDS Blueprint
Bound == Modelled(doc)
\* edit depth per family (cfg: MaxLevel <- ...)
Depth1(f) == 1
QuickDepth(f)    == IF f \in {"comp"} THEN 3 ELSE IF f \in {"core"} THEN 1 ELSE 2
EmitDepth(f)     == IF f \in {"core"} THEN 1 ELSE IF f = "pins" THEN 3 ELSE 2   \* pins: 3 edits reach 1 < mult < sites (two PinCell, one PinMult)
ThoroughDepth(f) == IF f \in {"comp"} THEN 4 ELSE IF f \in {"core"} THEN 2 ELSE 3
ThoroughEmit(f)  == IF f \in {"comp", "pins", "duct"} THEN 3 ELSE 2
View == vars
\* one JSON line per document: the abstract text, the verdict and -- for well-formed documents -- the reactor it describes
EmitState == ~Modelled(doc) \/ PrintT(ToJson([fam |-> fam, doc |-> doc, verdict |-> V, why |-> Why(doc), act |-> act,
                            exp |-> IF V = "ok" THEN Expected(doc) ELSE [none |-> TRUE]]))
=====================================================================================================
