------------------------------------------ MODULE AsciiMapDefs ------------------------------------------
(* C18 -- what a lattice text map MEANS.  PURE MODULE (no variables); used by AsciiMap.tla and Blueprint.tla.

   A text map is a sequence of rows (top row first); a row is a sequence of tokens; a token is a label or
   the placeholder "-".  Horizontal white space carries no information (armi splits every line on blanks:
   asciimaps.AsciiMap.readAscii), so the meaning of token c of row r must follow from (r, c), the shape of
   the text and the geometry alone.  The rule, for every geometry, is the one the armi documentation gives
   ("rows of the picture are rows of cells, (0,0) is the origin/centre"):

        the text is a picture of the lattice:  rows are the cells of equal Y, listed from the largest Y down
        in steps of one level; inside a row the cells follow each other by one column step to the right;
        the first token of a row is the left-most cell of the drawing REGION at that level.

   Picture coordinates XY come from the unit steps of the grid the map is used with (HexGrid._getRawUnitSteps,
   CartesianGrid.fromRectangle), scaled to integers:
        cart       x = i            y = j
        flats up   x = 3 i          y = i + 2 j       (x in half sides, y in half pitches)
        corners up x = i - j        y = i + j         (x in half pitches, y in 3/2 sides)
   Regions (the only part that is a convention of the text format, transcribed from the class docstrings of
   armi/utils/asciimaps.py and checked against the reference maps of its test-suite):
        "cart"      AsciiMapCartesian        the quadrant i >= 0, j >= 0; bottom row is j = 0
        "third"     AsciiMapHexThirdFlatsUp  the first third 0 <= angle < 120 degrees (the 120-degree edge is
                                             NOT part of it) plus the centre cell; bottom row is level 0
        "fullflat"  AsciiMapHexFullFlatsUp   hexagon of radius N whose upper-left corner is padded out to the
                                             column i = -N / -N+1; N+1 = the longest row; the bottom row is
                                             complete, its length minus one = the number of levels cut off
                                             the bottom corner
        "fulltips"  AsciiMapHexFullTipsUp    hexagon of radius N padded on the left to the column i = -N;
                                             2N+1 = the longest row (2N+2 is read the same); top row is
                                             level N
   Read(g, T)       the indexed contents (function cell -> label) a text T denotes
   Draw(g, S, ..)   a canonical text for contents S, in a padded and a trimmed variant (the specification's own
                    drawing; the real writer is NOT required to produce this text, only a text that Read maps
                    back to S, or to refuse)
   GridOffset       GridBlueprint._readGridContentsLattice: a full Cartesian map is centred.              *)
EXTENDS Integers, Sequences, FiniteSets, FiniteSetsExt, SequencesExt, TLC

HOLE == "-"
MapClasses == {"cart", "third", "fullflat", "fulltips"}

AAbs(x) == IF x < 0 THEN -x ELSE x
AMax2(a, b) == IF a < b THEN b ELSE a
AMin2(a, b) == IF a < b THEN a ELSE b
SetMax(S) == CHOOSE x \in S : \A y \in S : y <= x
SetMin(S) == CHOOSE x \in S : \A y \in S : x <= y

(* ------------------------------------------- geometry ------------------------------------------- *)
XY(g, c) == IF g = "cart" THEN <<c[1], c[2]>>
            ELSE IF g = "fulltips" THEN <<c[1] - c[2], c[1] + c[2]>>
            ELSE <<3 * c[1], c[1] + 2 * c[2]>>
Level(g, c) == XY(g, c)[2]
\* one column to the right: same Y, the next larger X of the lattice
Right(g, c) == IF g = "cart" THEN <<c[1] + 1, c[2]>>
               ELSE IF g = "fulltips" THEN <<c[1] + 1, c[2] - 1>>
               ELSE <<c[1] + 2, c[2] - 1>>
ColStep(g) == IF g = "cart" THEN 1 ELSE IF g = "fulltips" THEN 2 ELSE 6
\* n columns to the right
RightN(g, c, n) == IF g = "cart" THEN <<c[1] + n, c[2]>>
                   ELSE IF g = "fulltips" THEN <<c[1] + n, c[2] - n>>
                   ELSE <<c[1] + 2 * n, c[2] - n>>

Radius(c) == AMax2(AAbs(c[1]), AMax2(AAbs(c[2]), AAbs(c[1] + c[2])))       \* hex ring number - 1
HexCells(N) == {c \in (-N..N) \X (-N..N) : Radius(c) <= N}
\* the first third of a flats-up hex lattice: 0 <= angle < 120 degrees, plus the centre
InThird(c) == c = <<0, 0>> \/ (c[1] + 2 * c[2] >= 0 /\ 2 * c[1] + c[2] > 0)
\* ... including the 120-degree edge (HexGrid.isInFirstThird(includeTopEdge=True), used by Core.add)
InThirdOverlap(c) == c = <<0, 0>> \/ (c[1] + 2 * c[2] >= 0 /\ 2 * c[1] + c[2] >= 0)
ThirdCells(N) == {c \in HexCells(N) : InThird(c)}
CartCells(N) == (0..(N - 1)) \X (0..(N - 1))

\* cells of level L (hex flats up): i runs over the integers of the parity of L; j = (L - i) / 2
FlatCellOfLevel(L, i) == <<i, (L - i) \div 2>>
\* left-most cell of the drawing region at a level
ThirdStart(L) ==
    LET cand == {i \in (-L)..2 : (L - i) % 2 = 0 /\ InThird(FlatCellOfLevel(L, i))}
    IN FlatCellOfLevel(L, SetMin(cand))
FlatRegion(N, c) == c[1] >= -N /\ c[1] + c[2] >= -N
FlatStart(N, L) ==
    LET cand == {i \in (-2 * N)..(2 * N) : (L - i) % 2 = 0 /\ FlatRegion(N, FlatCellOfLevel(L, i))}
    IN FlatCellOfLevel(L, SetMin(cand))
TipsStart(N, M) == <<-N, M + N>>
\* right-most column (value of i) of the hexagon of radius N at a level
FlatLastI(N, L) == SetMax({i \in (-N)..N : (L - i) % 2 = 0 /\ Radius(FlatCellOfLevel(L, i)) <= N})
TipsLastI(N, M) == AMin2(N, M + N)

(* ------------------------------------------- reading ------------------------------------------- *)
RowLens(T) == {Len(T[r]) : r \in 1..Len(T)}
Width(T) == SetMax(RowLens(T))

Positions(T) == {p \in (1..Len(T)) \X (1..Width(T)) : p[2] <= Len(T[p[1]])}
\* the cell named by the first token of every row (rows 1-based, row 1 = top)
RowStarts(g, T) ==
    LET R == Len(T) IN
    IF g = "cart" THEN [r \in 1..R |-> <<0, R - r>>]
    ELSE IF g = "third" THEN [r \in 1..R |-> ThirdStart(R - r)]
    ELSE IF g = "fullflat" THEN
        LET N   == Width(T) - 1
            cut == Len(T[R]) - 1
        IN [r \in 1..R |-> FlatStart(N, (R - r) + cut - 2 * N)]
    ELSE
        LET N == (Width(T) - 1) \div 2
        IN [r \in 1..R |-> TipsStart(N, N - (r - 1))]
\* the cell named by token c of row r, for every position <<r, c>> of the text
CellFn(g, T) == LET st == RowStarts(g, T) IN [p \in Positions(T) |-> RightN(g, st[p[1]], p[2] - 1)]
CellAt(g, T, r, c) == CellFn(g, T)[<<r, c>>]

\* every token, placeholders included (what AsciiMap.items() yields)
ReadAll(g, T) ==
    LET cf == CellFn(g, T)
        pairs == {<<cf[p], T[p[1]][p[2]]>> : p \in Positions(T)}
        cells == {pr[1] : pr \in pairs}
    IN [x \in cells |-> (CHOOSE pr \in pairs : pr[1] = x)[2]]
\* the indexed contents: placeholders name nothing
Read(g, T) ==
    LET all == ReadAll(g, T)
        S == {x \in DOMAIN all : all[x] # HOLE}
    IN [x \in S |-> all[x]]

\* distinct positions name distinct cells (otherwise a text would be ambiguous)
ReadInjective(g, T) == LET cf == CellFn(g, T) IN Cardinality({cf[p] : p \in Positions(T)}) = Cardinality(Positions(T))
\* the text is a picture: rows are levels going down one by one, tokens go right one column step at a time
PictureFaithful(g, T) ==
    LET cf == CellFn(g, T) IN
    /\ \A p \in Positions(T) : Level(g, cf[p]) = Level(g, cf[<<1, 1>>]) - (p[1] - 1)
    /\ \A p \in Positions(T) : p[2] > 1 => XY(g, cf[p])[1] = XY(g, cf[<<p[1], p[2] - 1>>])[1] + ColStep(g)

\* texts Read is defined on: every row has a token; a flats-up full map cuts at most N levels off the bottom corner
\* and stays inside the hexagon; a corners-up full map has at most 2N+1 rows
Readable(g, T) ==
    /\ Len(T) > 0
    /\ \A r \in 1..Len(T) : Len(T[r]) > 0
    /\ g = "fullflat" => LET N == Width(T) - 1  cut == Len(T[Len(T)]) - 1 IN cut <= N /\ (Len(T) - 1) + cut - 2 * N <= 2 * N
    /\ g = "fulltips" => Len(T) <= 2 * ((Width(T) - 1) \div 2) + 1

(* ------------------------------------------- drawing ------------------------------------------- *)
\* S: non-empty finite set of cells, lab(_): label of a cell, pad: draw every row to the region's right edge
CellsOfRow(g, start, n) == [k \in 1..n |-> RightN(g, start, k - 1)]
Tok(S, lab(_), c) == IF c \in S THEN lab(c) ELSE HOLE
\* number of tokens needed so that the last cell of S on the row (start, going right) is drawn; 0 if none
RECURSIVE LastUsed(_, _, _, _)
LastUsed(g, S, start, n) == IF n = 0 THEN 0
                            ELSE IF RightN(g, start, n - 1) \in S THEN n ELSE LastUsed(g, S, start, n - 1)
RowOf(g, S, lab(_), start, full, pad) ==
    LET used == LastUsed(g, S, start, full)
        n == IF pad THEN full ELSE IF used = 0 THEN 1 ELSE used
    IN [k \in 1..n |-> Tok(S, lab, RightN(g, start, k - 1))]

Drawable(g, S) ==
    /\ S # {}
    /\ g = "cart" => \A c \in S : c[1] >= 0 /\ c[2] >= 0
    /\ g = "third" => \A c \in S : InThird(c)

Draw(g, S, lab(_), pad) ==
    IF g = "cart" THEN
        LET mj == SetMax({c[2] : c \in S})
            mi == SetMax({c[1] : c \in S})
        IN [r \in 1..(mj + 1) |-> RowOf(g, S, lab, <<0, mj + 1 - r>>, mi + 1, pad)]
    ELSE IF g = "third" THEN
        LET mL == SetMax({Level(g, c) : c \in S})
            mx == SetMax({XY(g, c)[1] : c \in S})
            full(L) == LET s == ThirdStart(L) IN IF XY(g, s)[1] > mx THEN 1 ELSE (mx - XY(g, s)[1]) \div 6 + 1
        IN [r \in 1..(mL + 1) |-> RowOf(g, S, lab, ThirdStart(mL + 1 - r), full(mL + 1 - r), pad)]
    ELSE IF g = "fullflat" THEN
        LET N    == SetMax({Radius(c) : c \in S})
            lo   == SetMin({Level(g, c) : c \in S})
            hi   == AMax2(-N, SetMax({Level(g, c) : c \in S}))      \* the row of level -N is always drawn
            cut  == AMin2(N, lo + 2 * N)
            bot  == cut - 2 * N
            full(L) == (FlatLastI(N, L) - FlatStart(N, L)[1]) \div 2 + 1
            \* the bottom row and the row of level -N are always complete: they carry the size of the map
            must(L) == L = bot \/ L = -N
        IN [r \in 1..(hi - bot + 1) |->
               LET L == hi + 1 - r IN RowOf(g, S, lab, FlatStart(N, L), full(L), pad \/ must(L))]
    ELSE
        LET N    == SetMax({Radius(c) : c \in S})
            lo   == AMin2(0, SetMin({Level(g, c) : c \in S}))
            full(M) == TipsLastI(N, M) + N + 1
        IN [r \in 1..(N - lo + 1) |->
               LET M == N + 1 - r IN RowOf(g, S, lab, TipsStart(N, M), full(M), pad \/ M = 0)]

(* --------------------------- the grid blueprint around the map (gridBlueprint.py) --------------------------- *)
\* geom / symmetry domain of a grid design -> class of its lattice map (asciimaps.asciiMapFromGeomAndDomain)
MapClassOf(geom, dom) ==
    IF geom = "cartesian" THEN "cart"
    ELSE IF geom = "hex_corners_up" /\ dom = "full" THEN "fulltips"
    ELSE IF dom = "third" THEN "third"
    ELSE "fullflat"
\* a full Cartesian map is centred on its bounding box (all tokens count, placeholders too)
GridOffset(geom, dom, T) ==
    IF geom = "cartesian" /\ dom = "full" THEN <<-(Width(T) \div 2), -(Len(T) \div 2)>> ELSE <<0, 0>>
GridContents(geom, dom, T) ==
    LET f == Read(MapClassOf(geom, dom), T)
        o == GridOffset(geom, dom, T)
        S == {<<c[1] + o[1], c[2] + o[2]>> : c \in DOMAIN f}
    IN [x \in S |-> f[<<x[1] - o[1], x[2] - o[2]>>]]

\* JSON-friendly form: sorted sequence of <<i, j, label>>
ContentsSeq(f) == SetToSortSeq({<<c[1], c[2], f[c]>> : c \in DOMAIN f},
                               LAMBDA a, b : a[1] < b[1] \/ (a[1] = b[1] /\ a[2] < b[2]))
=====================================================================================================
