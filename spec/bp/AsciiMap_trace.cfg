SPECIFICATION TSpec
CONSTRAINT Progress
POSTCONDITION Report
CHECK_DEADLOCK FALSE
