--------------------------------------------- MODULE AsciiMap ---------------------------------------------
(* C18, clause "a lattice map read from text, written and read again gives the same indexed contents in every
   supported geometry, and indexed contents are either drawn as text that reads back to them or refused,
   never drawn incompletely".

   State     g      class of the map ("cart" | "third" | "fullflat" | "fulltips")
             S      the indexed contents: a set of cells; the label of a cell is Lab(c) (unique per cell, so
                    a misplaced, lost or duplicated entry is always visible); `wide` makes some labels longer
                    (armi sizes the columns from the longest label)
   Actions   Put(c)    add a cell to sparse contents      (histories starting from the empty map)
             Punch(c)  remove a cell from dense contents  (histories starting from the complete map of size N)
   Every reachable state with S # {} is one case.  For each case the specification
     * draws its own canonical texts Tp (padded) and Tt (trimmed)      Draw
     * states what they denote                                           Read
     * checks   Read(Draw(S)) = S, no two tokens name one cell, the text is a geometric picture of the lattice
   and emits the case with both texts and, for every grid design (geom, symmetry) that uses this map class,
   the grid contents (GridContents: centring of full Cartesian maps).
   Code bound to it (props/c18.py):
     spec -> code   asciimaps.<Class>.readAscii(text) must give Read(text); GridBlueprint with `lattice map:`
                    must give GridContents; writeAscii of what was read, read again, gives the same
     code -> spec   asciimaps.<Class>.gridContentsToAscii on S (and gridBlueprint.saveToStream on a grid design
                    holding S): the lines the real writer produced are validated by TLC (AsciiMap_trace):
                    either refused, or Read(lines) = S.                                                     *)
EXTENDS AsciiMapDefs, Json

CONSTANTS N,          \* size: hex radius (rings - 1) / Cartesian side
          MaxHoles,   \* cells punched out of the complete map
          MaxCells,   \* cells put into the empty map
          Classes     \* map classes explored

VARIABLES g, S, dense, wide, tp, tt, act       \* tp, tt: derived (the two canonical drawings of S), kept as variables so TLC computes them once per state
vars == <<g, S, dense, wide>>

Universe(gg) == IF gg = "cart" THEN CartCells(N) ELSE IF gg = "third" THEN ThirdCells(N) ELSE HexCells(N)
Digit(n) == ToString(n + N)
LabW(w, c) == IF w /\ (c[1] + c[2]) % 2 = 0 THEN "W" \o Digit(c[1]) \o Digit(c[2]) \o "x" ELSE "L" \o Digit(c[1]) \o Digit(c[2])
Lab(c) == LabW(wide, c)
Drawn(gg, SS, w, pad) == IF SS = {} THEN <<>> ELSE Draw(gg, SS, LAMBDA c : LabW(w, c), pad)

Init == /\ g \in Classes
        /\ dense \in BOOLEAN
        /\ wide \in BOOLEAN
        /\ S = IF dense THEN Universe(g) ELSE {}
        /\ tp = Drawn(g, S, wide, TRUE)
        /\ tt = Drawn(g, S, wide, FALSE)
        /\ act = [n |-> "Init"]

Put(c) == /\ ~dense
          /\ c \in Universe(g) \ S
          /\ Cardinality(S) < MaxCells
          /\ S' = S \cup {c}
          /\ UNCHANGED <<g, dense, wide>>
          /\ tp' = Drawn(g, S', wide, TRUE)
          /\ tt' = Drawn(g, S', wide, FALSE)
          /\ act' = [n |-> "Put", c |-> c]

Punch(c) == /\ dense
            /\ c \in S
            /\ Cardinality(Universe(g)) - Cardinality(S) < MaxHoles
            /\ Cardinality(S) > 1
            /\ S' = S \ {c}
            /\ UNCHANGED <<g, dense, wide>>
            /\ tp' = Drawn(g, S', wide, TRUE)
            /\ tt' = Drawn(g, S', wide, FALSE)
            /\ act' = [n |-> "Punch", c |-> c]

PutAny   == \E c \in Universe(g) : Put(c)
PunchAny == \E c \in Universe(g) : Punch(c)
Next == PutAny \/ PunchAny
Spec == Init /\ [][Next]_<<vars, tp, tt, act>>

(* ------------------------------------------------ properties ------------------------------------------------ *)
Contents == [c \in S |-> Lab(c)]
Tp == tp
Tt == tt

TypeOK == g \in MapClasses /\ S \subseteq Universe(g) /\ Drawable(g, S) = (S # {})
\* what is drawn reads back to exactly the contents: nothing lost, nothing moved, nothing invented
DrawReadsBack == S # {} => Read(g, Tp) = Contents /\ Read(g, Tt) = Contents
Unambiguous   == S # {} => ReadInjective(g, Tp) /\ ReadInjective(g, Tt)
IsPicture     == S # {} => PictureFaithful(g, Tp) /\ PictureFaithful(g, Tt)
\* the trimmed text is the padded text without trailing placeholders (same rows, same leading tokens)
TrimIsPrefix  == S # {} => /\ Len(Tt) = Len(Tp)
                           /\ \A r \in 1..Len(Tt) : /\ Len(Tt[r]) <= Len(Tp[r])
                                                    /\ \A c \in 1..Len(Tt[r]) : Tt[r][c] = Tp[r][c]
                                                    /\ \A c \in (Len(Tt[r]) + 1)..Len(Tp[r]) : Tp[r][c] = HOLE
\* the centre of a hex map is cell (0,0); the bottom-left token of Cartesian and third-core maps is cell (0,0)
Anchored == S # {} =>
    IF g \in {"cart", "third"} THEN CellAt(g, Tp, Len(Tp), 1) = <<0, 0>>
    ELSE LET cf == CellFn(g, Tp) IN \A p \in Positions(Tp) : XY(g, cf[p]) = <<0, 0>> => cf[p] = <<0, 0>>
\* a centred full Cartesian map: the grid indices of the bounding box are symmetric about 0 (odd) or -n/2..n/2-1 (even)
CartCentred == (S # {} /\ g = "cart") =>
    LET o == GridOffset("cartesian", "full", Tp)
        xs == {c[1] + o[1] : c \in DOMAIN ReadAll(g, Tp)}
    IN SetMin(xs) = -(Width(Tp) \div 2) /\ SetMax(xs) = Width(Tp) - 1 - (Width(Tp) \div 2)
=====================================================================================================
