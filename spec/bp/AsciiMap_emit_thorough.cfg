\* emission, thorough (workers 1): size 3, sparse maps with up to 2 cells, complete maps with up to 2 holes
CONSTANTS N = 3  MaxHoles = 2  MaxCells = 2  MaxLevel = 5
CONSTANT Classes = {"cart", "third", "fullflat", "fulltips"}
INVARIANT EmitState
INIT Init
NEXT Next
CONSTRAINT Bound
VIEW View
INVARIANT TypeOK
INVARIANT DrawReadsBack
INVARIANT Unambiguous
INVARIANT IsPicture
INVARIANT TrimIsPrefix
INVARIANT Anchored
INVARIANT CartCentred
CHECK_DEADLOCK FALSE
