\* exhaustive: every family, all documents within two edits of the family's base document
CONSTANTS MaxLevel = 2
CONSTANT Families = {"links", "comp", "stack", "pins", "core"}
INIT Init
NEXT Next
CONSTRAINT Bound
VIEW View
INVARIANT TypeOK
INVARIANT VerdictTotal
INVARIANT OkIsUnambiguous
INVARIANT OkIsPhysical
INVARIANT OkIsStacked
INVARIANT MapAndListAgree
INVARIANT PinsPartition
CHECK_DEADLOCK FALSE
