\* exhaustive: every family, all documents within QuickDepth(family) edits of the family's base document(s)
CONSTANT MaxLevel <- QuickDepth
CONSTANT Families = {"links", "comp", "stack", "pins", "core"}
INIT Init
NEXT Next
CONSTRAINT Bound
VIEW View
INVARIANT TypeOK
INVARIANT VerdictTotal
INVARIANT OkIsUnambiguous
INVARIANT OkIsPhysical
INVARIANT OkIsStacked
INVARIANT MapAndListAgree
INVARIANT PinsPartition
CHECK_DEADLOCK FALSE
