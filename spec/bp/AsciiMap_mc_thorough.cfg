\* exhaustive, thorough: size 3 (37-cell hexagons, 3x3 Cartesian), sparse maps with up to 3 cells, complete maps with up to 2 holes
CONSTANTS N = 3  MaxHoles = 2  MaxCells = 3  MaxLevel = 5
CONSTANT Classes = {"cart", "third", "fullflat", "fulltips"}
INIT Init
NEXT Next
CONSTRAINT Bound
VIEW View
INVARIANT TypeOK
INVARIANT DrawReadsBack
INVARIANT Unambiguous
INVARIANT IsPicture
INVARIANT TrimIsPrefix
INVARIANT Anchored
INVARIANT CartCentred
CHECK_DEADLOCK FALSE
