\* emission (workers 1): one JSON line per case; sparse maps with up to 2 cells, complete maps of size 2 with up to 2 holes
CONSTANTS N = 2  MaxHoles = 2  MaxCells = 2  MaxLevel = 5
CONSTANT Classes = {"cart", "third", "fullflat", "fulltips"}
INVARIANT EmitState
INIT Init
NEXT Next
CONSTRAINT Bound
VIEW View
INVARIANT TypeOK
INVARIANT DrawReadsBack
INVARIANT Unambiguous
INVARIANT IsPicture
INVARIANT TrimIsPrefix
INVARIANT Anchored
INVARIANT CartCentred
CHECK_DEADLOCK FALSE
