--------------------------------------------- MODULE Blueprint ---------------------------------------------
(* C18 -- "the reactor built from blueprints is the reactor the blueprints describe".

   The state is an ABSTRACT BLUEPRINT DOCUMENT `doc` (what the YAML text says, nothing computed):
     doc.iso     custom isotopics   [name, fmt ("mf" mass fractions | "nd" number densities | "nf" number fractions),
                                     dens (<<n,d>> g/cc, <<0,1>> = not given), vec: sequence of <<nuclide, <<n,d>> >>]
     doc.blocks  block designs      [name (sequence of words), grid (name of a pin lattice, "" = none), comps]
                 component design   [name, shape, mat, ti, th (Tinput, Thot, C), iso ("" = none), lat (latticeIDs),
                                     dims: dimension name -> [k |-> "num", v |-> hundredths of a cm (mult: a count)]
                                                           | [k |-> "link", c |-> component, d |-> dimension]
                                                           | [k |-> "none"]  (not written; only mult)]
     doc.asms    assembly designs   [name (words), spec (specifier), blocks (indices into doc.blocks = YAML anchors),
                                     height, mesh, xs (one entry per block), mods: material modifications
                                     [scope ("" = whole block | component name), key, vals (<<n,d>> or <<>> = blank)]]
     doc.grids   grid designs       [name, geom, dom (symmetry domain), mode ("map" | "cells"), text (token rows), cells,
                                     bounds (theta-R-Z only: <<theta bounds, r bounds>>, hundredths of rad / cm; cell <<i, j>> =
                                     <<theta interval, r interval>>)]
     doc.core    name of the grid of the core system
     doc.comps   top-level `components:` section (component designs, numeric dimensions), doc.groups `component groups:`
                 [name, members: sequence of <<component name, mult>>]; a block component of shape "Group" and the group's
                 name stands for the members, each with the GROUP's multiplicity (ComponentBlueprint.construct)
     doc.nuc     nuclide flags: names flagged {burn: false, xs: true}; <<>> = section not written (armi's defaults)
   `fam` names the family of documents explored (it fixes the base document and which edits are enabled), `act` is the
   last edit.  Every reachable state is one document; the actions are EDITS of the text, one per kind of choice the
   quantifier lists ("component shape/material/dimension/link choices, block and assembly layouts, material
   modifications, custom isotopics, ... grids, lattice maps of all sizes with holes"), plus edits that make the
   document inconsistent in each of the ways the statement names.

   The INDEPENDENT READING of a document (what armi must build) is
     Verdict(doc)    "ok" or the reason the document is inconsistent and must be refused with an error
                     (DuplicateName, UnequalLists, UnknownSpecifier, Overlap: the four of the statement; MultConflict,
                     InvalidModification, NonUniformMesh, OutsideDomain: further refusals armi documents, checked as well)
     Expected(doc)   core: cell -> specifier -> assembly design -> blocks bottom-up with height, elevations, xs type,
                     mesh points, flags -> components with shape, material, temperatures, multiplicity, cold dimensions
                     (links followed to a number), link structure, pin-lattice cells, composition
   Transcribed conventions (each is cited where it is defined below): flags of a name = its words that are flag
   names (Flags.fromStringIgnoreErrors); a linked dimension is the cold dimension it points to
   (Component.getDimension(cold=True) through _DimensionLink); a component placed on a pin lattice takes its
   multiplicity from the number of cells carrying one of its latticeIDs (BlockBlueprint.construct); by-component
   material modifications override by-block ones, blank entries are skipped (AssemblyBlueprint._createBlock /
   BlockBlueprint._filterMaterialInput); with default settings the block tops of every assembly must lie on the mesh
   of the first assembly with the most blocks (makeAssemsAbleToSnapToUniformMesh); a third-core hex grid holds the
   cells with 0 <= angle < 120 degrees (HexGrid.isInFirstThird).
   A negative cold area is an inconsistency for every material but Void (Component._checkNegativeArea and its docstring;
   Block.getSmearDensity would also reject a negative cold Void gap, but Block.completeInitialLoading swallows that
   ValueError, and the component-level rule is the documented one).
   Compositions are stated in units that need no atomic weights: number densities as given ("nd"), mass density per
   nuclide rho*w ("mf" with density), number fractions and total mass density ("nf"), mass fractions (isotopics on a
   library material), enrichment m235/(m235+m238) and Zr mass fraction (UZr with U235_wt_frac / ZR_wt_frac).
   Which code each part of the reading is bound to (props/c18.py renders the document, loads it with
   Blueprints.load and builds it with reactors.factory; harness/gen_blueprints.py projects the result):
     ExpComp / Resolve / links   componentBlueprint.ComponentBlueprint.construct, _conformKwargs; Component.resolveLinkedDims
     ExpComposition              componentBlueprint._constructMaterial; isotopicOptions.CustomIsotopic._initializeMassFracs / apply;
                                 UZr.applyInputParams via AssemblyBlueprint._createBlock -> BlockBlueprint._filterMaterialInput
     PinCells / MultOf           blockBlueprint.BlockBlueprint.construct; gridBlueprint.GridBlueprint.getLocators / getMultiLocator
     ExpBlock / ExpAsm           assemblyBlueprint.AssemblyBlueprint._constructAssembly / _createBlock; Assembly.calculateZCoords
     CellsOf / Expected.core     gridBlueprint.GridBlueprint._readGridContents(Lattice); reactorBlueprint.SystemBlueprint._loadComposites;
                                 cores.Core.add / processLoading (bookkeeping: children, lookups by name and locator, axial mesh)
     Verdict                     AssemblyBlueprint._checkParamConsistency (UnequalLists); Component._checkNegativeArea/_checkNegativeVolume,
                                 DerivedShape volume (Overlap); Blueprints._prepConstruction / constructAssem, resolveLinkedDims,
                                 CustomIsotopics.apply, BlockBlueprint._getGridDesign (UnknownSpecifier); yamlize KeyedList loading
                                 (DuplicateName -- armi does NOT refuse these today, see the findings of the check)
   NOT modelled (documents avoiding them): cyclic links, cells on the 120-degree edge of a third core (armi removes
   them on purpose), elemental entries in custom isotopics (expanded with library abundances), component groups.  *)
EXTENDS AsciiMapDefs, Rational, Json

CONSTANTS Families,     \* families of documents explored
          MaxLevel(_)   \* family -> number of edits applied to its base document

VARIABLES fam, doc, act, depth        \* depth: number of edits applied (hidden by the VIEW: a document is a document)
vars == <<fam, doc>>

(* ============================================ helpers ============================================ *)
Rng(s) == {s[k] : k \in 1..Len(s)}
HasDup(s) == \E a, b \in 1..Len(s) : a < b /\ s[a] = s[b]
NamesOf(s) == [k \in 1..Len(s) |-> s[k].name]
JoinWords(w) == FoldLeft(LAMBDA acc, x : IF acc = "" THEN x ELSE acc \o " " \o x, "", w)
SumTo(s, k) == FoldLeft(LAMBDA acc, x : acc + x, 0, SubSeq(s, 1, k))
SwapAt(s, k) == [s EXCEPT ![k] = s[k + 1], ![k + 1] = s[k]]
DropLast(s) == SubSeq(s, 1, Len(s) - 1)
DelAt(s, k) == SubSeq(s, 1, k - 1) \o SubSeq(s, k + 1, Len(s))
Num(v) == [k |-> "num", v |-> v]
Lnk(c, d) == [k |-> "link", c |-> c, d |-> d]
NoDim == [k |-> "none"]
NoRat == <<0, 1>>
SortedSeq(S) == SetToSortSeq(S, LAMBDA a, b : a < b)
CellSeq(S) == SetToSortSeq(S, LAMBDA a, b : a[1] < b[1] \/ (a[1] = b[1] /\ a[2] < b[2]))

\* words that are flag names (armi.reactor.flags.Flags; a name's flags are its words that are flags)
FlagTable == [fuel |-> "FUEL", shield |-> "SHIELD", plenum |-> "PLENUM", inner |-> "INNER", outer |-> "OUTER",
              test |-> "TEST", control |-> "CONTROL", reflector |-> "REFLECTOR", a |-> "A", b |-> "B",
              radial |-> "RADIAL", igniter |-> "IGNITER", feed |-> "FEED"]
\* a SET of flag names (TLC cannot order strings; the harness sorts both sides)
FlagsOf(words) == {FlagTable[w] : w \in {x \in Rng(words) : x \in DOMAIN FlagTable}}

(* ============================================ components ============================================ *)
DimsOfShape == [Circle |-> {"od", "id", "mult"}, Hexagon |-> {"op", "ip", "mult"},
                Rectangle |-> {"lengthOuter", "lengthInner", "widthOuter", "widthInner", "mult"},
                Square |-> {"widthOuter", "widthInner", "mult"}, DerivedShape |-> {},
                Sphere |-> {"od", "id", "mult"}, Group |-> {},
                Helix |-> {"od", "id", "axialPitch", "helixDiameter", "mult"},
                RadialSegment |-> {"inner_radius", "outer_radius", "inner_theta", "outer_theta", "height", "mult"}]
Comp(name, shape, mat, ti, th, dims) == [name |-> name, shape |-> shape, mat |-> mat, ti |-> ti, th |-> th,
                                         iso |-> "", lat |-> <<>>, dims |-> dims]
\* Component._checkNegativeArea: a negative COLD area is an error for every material except Void ("negative component area is
\* allowed for Void materials (such as gaps) which may be placed between components that will overlap during thermal
\* expansion"): a fluid bond squeezed between two overlapping solids is refused, a Void gap in the same place is not.
Solid(mat) == mat # "Void"

CompIdx(B, cn) == {k \in 1..Len(B.comps) : B.comps[k].name = cn}
HasComp(B, cn) == CompIdx(B, cn) # {}
CompNamed(B, cn) == B.comps[CHOOSE k \in CompIdx(B, cn) : TRUE]

\* every link points at an existing dimension of an existing component of the same block
LinksOK(B) == \A k \in 1..Len(B.comps) : \A d \in DOMAIN B.comps[k].dims :
                  LET v == B.comps[k].dims[d] IN
                  v.k = "link" => HasComp(B, v.c) /\ v.d \in DOMAIN CompNamed(B, v.c).dims
\* follow links to a number; -1 = a cycle (not modelled) or a dimension that is not written
RECURSIVE Resolve(_, _, _, _)
Resolve(B, cn, d, n) ==
    IF ~HasComp(B, cn) THEN -1
    ELSE IF d \notin DOMAIN CompNamed(B, cn).dims THEN -1
    ELSE LET v == CompNamed(B, cn).dims[d] IN
         IF v.k = "num" THEN v.v
         ELSE IF v.k = "none" \/ n = 0 THEN -1
         ELSE Resolve(B, v.c, v.d, n - 1)
Res(B, cn, d) == Resolve(B, cn, d, Len(B.comps))
Acyclic(B) == \A k \in 1..Len(B.comps) : \A d \in DOMAIN B.comps[k].dims :
                 B.comps[k].dims[d].k = "link" => Res(B, B.comps[k].name, d) >= 0

\* sign of the cold cross-section area without pi or sqrt(3): an annulus / frame is negative iff inner > outer
NegativeArea(B, c) ==
    IF c.shape \in {"Circle", "Helix"} THEN Res(B, c.name, "id") > Res(B, c.name, "od")
    ELSE IF c.shape = "Hexagon" THEN Res(B, c.name, "ip") > Res(B, c.name, "op")
    ELSE IF c.shape = "Square" THEN Res(B, c.name, "widthInner") > Res(B, c.name, "widthOuter")
    ELSE IF c.shape = "Rectangle" THEN Res(B, c.name, "lengthInner") * Res(B, c.name, "widthInner")
                                        > Res(B, c.name, "lengthOuter") * Res(B, c.name, "widthOuter")
    ELSE IF c.shape = "RadialSegment" THEN Res(B, c.name, "inner_radius") > Res(B, c.name, "outer_radius")
    ELSE FALSE
\* Does the block hold its pins?  Exact areas need pi and sqrt(3); integer bounds decide the clear cases and the
\* explored documents are clear cases (Modelled).  Units 1e-4 cm^2.  11/14 > pi/4 > 3/4 and 7/8 > sqrt(3)/2 > 6/7.
\* the bounding component: the hexagon of largest outer flat-to-flat if there is one (ducts may be written in any order),
\* otherwise the component written last
Hexes(B) == {k \in 1..Len(B.comps) : B.comps[k].shape = "Hexagon"}
Outer(B) == IF Hexes(B) = {} THEN B.comps[Len(B.comps)]
            ELSE B.comps[CHOOSE k \in Hexes(B) : \A j \in Hexes(B) :
                               Res(B, B.comps[j].name, "op") < Res(B, B.comps[k].name, "op") \/ (Res(B, B.comps[j].name, "op") = Res(B, B.comps[k].name, "op") /\ j >= k)]
Inner(B) == {k \in 1..Len(B.comps) : B.comps[k].shape \in {"Circle", "Square", "Helix"} /\ ~NegativeArea(B, B.comps[k])}
Sq(B, c, o, i) == AMax2(Res(B, c.name, "mult"), 0) * (Res(B, c.name, o) * Res(B, c.name, o) - Res(B, c.name, i) * Res(B, c.name, i))
\* round cross-sections; a wire wrap (Helix) is a round wire stretched along its helix by a factor between 1 and 2
QCircW(B, w) == FoldSet(LAMBDA k, acc : acc + (IF B.comps[k].shape = "Circle" THEN Sq(B, B.comps[k], "od", "id")
                                              ELSE IF B.comps[k].shape = "Helix" THEN w * Sq(B, B.comps[k], "od", "id") ELSE 0), 0, Inner(B))
QCirc(B) == QCircW(B, 1)
QCircHigh(B) == QCircW(B, 2)
QSqr(B)  == FoldSet(LAMBDA k, acc : acc + (IF B.comps[k].shape = "Square" THEN Sq(B, B.comps[k], "widthOuter", "widthInner") ELSE 0), 0, Inner(B))
\* the room inside the bounding component: hexagon of inner flat-to-flat ip (area sqrt(3)/2 ip^2) less the walls of the other
\* (inner) hexagonal ducts, or inner rectangle
InnerWalls(B) == FoldSet(LAMBDA k, acc : acc + (IF B.comps[k] = Outer(B) THEN 0 ELSE
                             Res(B, B.comps[k].name, "op") * Res(B, B.comps[k].name, "op") - Res(B, B.comps[k].name, "ip") * Res(B, B.comps[k].name, "ip")), 0, Hexes(B))
HexRoom(B)  == Res(B, Outer(B).name, "ip") * Res(B, Outer(B).name, "ip") - InnerWalls(B)
RectRoom(B) == IF Outer(B).shape = "Rectangle" THEN Res(B, Outer(B).name, "lengthInner") * Res(B, Outer(B).name, "widthInner")
               ELSE Res(B, Outer(B).name, "widthInner") * Res(B, Outer(B).name, "widthInner")
CertainlyFits(B) ==
    IF Outer(B).shape = "RadialSegment" THEN Inner(B) = {}
    ELSE IF Outer(B).shape = "Hexagon" THEN 11 * QCircHigh(B) + 14 * QSqr(B) <= 12 * HexRoom(B)
    ELSE 11 * QCircHigh(B) + 14 * QSqr(B) <= 14 * RectRoom(B)
CertainlyExceeds(B) ==
    IF Outer(B).shape = "RadialSegment" THEN FALSE
    ELSE IF Outer(B).shape = "Hexagon" THEN 6 * QCirc(B) + 8 * QSqr(B) > 7 * HexRoom(B)
    ELSE 3 * QCirc(B) + 4 * QSqr(B) > 4 * RectRoom(B)

\* A wire-wrapped hexagonal pin bundle must fit inside the INNERMOST duct (HexBlock.verifyBlockDims / getPinToDuctGap, cold):
\*    sqrt(3)/2 * 2 (rings - 1) (clad od + wire od) + clad od + 2 wire od  <=  duct ip + 0.01 cm     (gap >= -0.005 cm)
\* applies when the block has one wire, one clad and a hexagonal innermost duct; the innermost duct is the smallest one,
\* in whatever order the ducts are written.  1.7320 < sqrt(3) < 1.7321; lengths in 0.01 cm, inequality scaled by 10000.
DuctNames == {"duct", "inner duct", "outer duct"}
Ducts(B) == {k \in 1..Len(B.comps) : B.comps[k].name \in DuctNames}
InnermostDuct(B) == B.comps[CHOOSE k \in Ducts(B) : \A j \in Ducts(B) :
                               Res(B, B.comps[j].name, "op") > Res(B, B.comps[k].name, "op") \/ (Res(B, B.comps[j].name, "op") = Res(B, B.comps[k].name, "op") /\ j >= k)]
PinRuleApplies(B) == /\ Cardinality(CompIdx(B, "wire")) = 1 /\ Cardinality(CompIdx(B, "clad")) = 1 /\ Ducts(B) # {}
                     /\ CompNamed(B, "wire").shape = "Helix" /\ InnermostDuct(B).shape = "Hexagon"
Rings(m) == IF m <= 1 THEN 1 ELSE IF m <= 7 THEN 2 ELSE IF m <= 19 THEN 3 ELSE IF m <= 37 THEN 4 ELSE 5      \* hexagon.numRingsToHoldNumCells
BundleScaled(B, s3) == s3 * (Rings(Res(B, "clad", "mult")) - 1) * (Res(B, "clad", "od") + Res(B, "wire", "od"))
                       + 10000 * (Res(B, "clad", "od") + 2 * Res(B, "wire", "od"))
DuctIpScaled(B) == 10000 * Res(B, InnermostDuct(B).name, "ip")
CertainlyInsideDuct(B)  == DuctIpScaled(B) - BundleScaled(B, 17321) >= -10000
CertainlyOutsideDuct(B) == DuctIpScaled(B) - BundleScaled(B, 17320) < -10000

(* ============================================ grids ============================================ *)
GridIdx(d, gn) == {k \in 1..Len(d.grids) : d.grids[k].name = gn}
HasGrid(d, gn) == GridIdx(d, gn) # {}
GridNamed(d, gn) == d.grids[CHOOSE k \in GridIdx(d, gn) : TRUE]
\* cell -> label of a grid design, from its text map or from its explicit list
CellsOf(gr) == IF gr.mode = "map" THEN GridContents(gr.geom, gr.dom, gr.text)
               ELSE LET cs == Rng(gr.cells) IN [c \in {<<x[1], x[2]>> : x \in cs} |-> (CHOOSE x \in cs : <<x[1], x[2]>> = c)[3]]
ListedTwice(gr) == gr.mode = "cells" /\ HasDup([k \in 1..Len(gr.cells) |-> <<gr.cells[k][1], gr.cells[k][2]>>])
\* cells of the pin lattice of block B that carry one of the latticeIDs of component c
PinCells(d, B, c) == IF B.grid = "" \/ ~HasGrid(d, B.grid) THEN {}
                     ELSE LET f == CellsOf(GridNamed(d, B.grid)) IN {x \in DOMAIN f : f[x] \in Rng(c.lat)}

(* ============================================ isotopics ============================================ *)
IsoIdx(d, n) == {k \in 1..Len(d.iso) : d.iso[k].name = n}
HasIso(d, n) == IsoIdx(d, n) # {}
IsoNamed(d, n) == d.iso[CHOOSE k \in IsoIdx(d, n) : TRUE]
VecSum(iso) == RSumSeq([k \in 1..Len(iso.vec) |-> iso.vec[k][2]])
\* a fractional input must sum to one (CustomIsotopic._initializeMassFracs)
IsoOK(iso) == iso.fmt \in {"mf", "nf"} => VecSum(iso) = <<1, 1>>

(* ============================================ assemblies ============================================ *)
AsmWithSpec(d, s) == {k \in 1..Len(d.asms) : d.asms[k].spec = s}
ListsOK(a) == /\ Len(a.height) = Len(a.blocks) /\ Len(a.mesh) = Len(a.blocks) /\ Len(a.xs) = Len(a.blocks)
              /\ \A m \in 1..Len(a.mods) : Len(a.mods[m].vals) = Len(a.blocks)
Tops(a) == {SumTo(a.height, k) : k \in 1..Len(a.height)}
\* the first design with the most blocks carries the reference mesh (axialExpansionChanger.getDefaultReferenceAssem)
RefAsm(d) == LET m == SetMax({Len(d.asms[k].blocks) : k \in 1..Len(d.asms)})
             IN d.asms[SetMin({k \in 1..Len(d.asms) : Len(d.asms[k].blocks) = m})]
MeshOK(d) == \A k \in 1..Len(d.asms) : Tops(d.asms[k]) \subseteq Tops(RefAsm(d))
\* the value of modification `key` for component cn of the block at axial index k: by-component first, then by-block
ModVal(a, k, cn, key) ==
    LET byc == {m \in 1..Len(a.mods) : a.mods[m].scope = cn /\ a.mods[m].key = key /\ a.mods[m].vals[k] # <<>>}
        byb == {m \in 1..Len(a.mods) : a.mods[m].scope = "" /\ a.mods[m].key = key /\ a.mods[m].vals[k] # <<>>}
    IN IF byc # {} THEN a.mods[CHOOSE m \in byc : TRUE].vals[k]
       ELSE IF byb # {} THEN a.mods[CHOOSE m \in byb : TRUE].vals[k]
       ELSE <<>>

TopIdx(d, cn) == {j \in 1..Len(d.comps) : d.comps[j].name = cn}
GroupIdx(d, gn) == {j \in 1..Len(d.groups) : d.groups[j].name = gn}

(* ============================================ verdict ============================================ *)
BlocksUsed(d) == UNION {Rng(d.asms[k].blocks) : k \in 1..Len(d.asms)}
CoreGrid(d) == GridNamed(d, d.core)
CoreCells(d) == CellsOf(CoreGrid(d))

DuplicateName(d) ==
    \/ HasDup(NamesOf(d.blocks)) \/ HasDup(NamesOf(d.asms)) \/ HasDup(NamesOf(d.grids)) \/ HasDup(NamesOf(d.iso))
    \/ HasDup([k \in 1..Len(d.asms) |-> d.asms[k].spec])
    \/ \E b \in 1..Len(d.blocks) : HasDup(NamesOf(d.blocks[b].comps))
    \/ \E g \in 1..Len(d.grids) : ListedTwice(d.grids[g])
UnequalLists(d) == \E k \in 1..Len(d.asms) : ~ListsOK(d.asms[k])
UnknownSpecifier(d) ==
    \/ ~HasGrid(d, d.core)
    \/ \E b \in BlocksUsed(d) :
          \/ ~LinksOK(d.blocks[b])
          \/ d.blocks[b].grid # "" /\ ~HasGrid(d, d.blocks[b].grid)
          \/ \E c \in 1..Len(d.blocks[b].comps) : d.blocks[b].comps[c].iso # "" /\ ~HasIso(d, d.blocks[b].comps[c].iso)
          \/ \E c \in 1..Len(d.blocks[b].comps) : d.blocks[b].comps[c].shape = "Group" /\
                 (GroupIdx(d, d.blocks[b].comps[c].name) = {} \/
                  \E j \in GroupIdx(d, d.blocks[b].comps[c].name) : \E mm \in Rng(d.groups[j].members) : TopIdx(d, mm[1]) = {})
    \/ \E x \in DOMAIN CoreCells(d) : AsmWithSpec(d, CoreCells(d)[x]) = {}
Overlap(d) == \E b \in BlocksUsed(d) : LET B == d.blocks[b] IN
    \/ \E c \in 1..Len(B.comps) : Solid(B.comps[c].mat) /\ NegativeArea(B, B.comps[c])
    \/ CertainlyExceeds(B)
    \/ PinRuleApplies(B) /\ CertainlyOutsideDuct(B)
MultOf(d, B, c) ==
    LET n == Cardinality(PinCells(d, B, c))
        m == Res(B, c.name, "mult")
    IN IF n > 0 THEN n ELSE IF c.dims["mult"].k = "none" THEN 1 ELSE m       \* an unwritten mult is 1 (Component default)
MultConflict(d) == \E b \in BlocksUsed(d) : LET B == d.blocks[b] IN \E c \in 1..Len(B.comps) :
    LET n == Cardinality(PinCells(d, B, B.comps[c]))
        v == B.comps[c].dims["mult"]
    IN "mult" \in DOMAIN B.comps[c].dims /\ n > 0 /\ (v.k = "link" \/ (v.k = "num" /\ v.v # 1 /\ v.v # n))
\* keys a material accepts as modifications (signature of <Material>.applyInputParams; data of the materials library)
BlendKeys == {"class1_wt_frac", "class1_custom_isotopics", "class2_custom_isotopics"}       \* FuelMaterial.applyInputParams
ModKeys(mat) == IF mat = "UZr" THEN {"U235_wt_frac", "ZR_wt_frac"} \cup BlendKeys
                ELSE IF mat = "UraniumOxide" THEN {"U235_wt_frac"} \cup BlendKeys ELSE {}
\* a non-blank entry must be accepted by the named component's material, or (whole block) by some component of the block
InvalidModification(d) == \E k \in 1..Len(d.asms) : LET a == d.asms[k] IN
    \E m \in 1..Len(a.mods) : \E j \in 1..Len(a.blocks) :
        LET B == d.blocks[a.blocks[j]] IN
        /\ a.mods[m].vals[j] # <<>>
        /\ IF a.mods[m].scope = "" THEN \A c \in 1..Len(B.comps) : a.mods[m].key \notin ModKeys(B.comps[c].mat)
           ELSE ~HasComp(B, a.mods[m].scope) \/ a.mods[m].key \notin ModKeys(CompNamed(B, a.mods[m].scope).mat)
OutsideDomain(d) == CoreGrid(d).dom = "third" /\ \E x \in DOMAIN CoreCells(d) : ~InThirdOverlap(x)

Verdict(d) ==
    IF DuplicateName(d) THEN "DuplicateName"
    ELSE IF UnequalLists(d) THEN "UnequalLists"
    ELSE IF UnknownSpecifier(d) THEN "UnknownSpecifier"
    ELSE IF Overlap(d) THEN "Overlap"
    ELSE IF MultConflict(d) THEN "MultConflict"
    ELSE IF InvalidModification(d) THEN "InvalidModification"
    ELSE IF ~MeshOK(d) THEN "NonUniformMesh"
    ELSE IF OutsideDomain(d) THEN "OutsideDomain"
    ELSE "ok"
\* a fluid ring whose inside is larger than the OUTSIDE of the component its od is linked to (a slug bigger than its cladding)
Fluid(mat) == mat \in {"Sodium", "Air"}
BeyondClad(B, c) == /\ Fluid(c.mat) /\ c.shape = "Circle" /\ c.dims["od"].k = "link"
                    /\ Res(B, c.name, "id") > Res(B, c.dims["od"].c, "od")
\* which inconsistency, more precisely (names the violation in reports; first applicable)
Why(d) ==
    LET v == Verdict(d) IN
    IF v = "DuplicateName" THEN
        (IF \E b \in 1..Len(d.blocks) : HasDup(NamesOf(d.blocks[b].comps)) THEN "component"
         ELSE IF HasDup(NamesOf(d.blocks)) THEN "block"
         ELSE IF HasDup(NamesOf(d.asms)) THEN "assembly"
         ELSE IF HasDup([k \in 1..Len(d.asms) |-> d.asms[k].spec]) THEN "specifier"
         ELSE IF HasDup(NamesOf(d.grids)) THEN "grid"
         ELSE IF HasDup(NamesOf(d.iso)) THEN "isotopics"
         ELSE "cell")
    ELSE IF v = "UnknownSpecifier" THEN
        (IF ~HasGrid(d, d.core) THEN "core-grid"
         ELSE IF \E b \in BlocksUsed(d) : ~LinksOK(d.blocks[b]) THEN "link"
         ELSE IF \E b \in BlocksUsed(d) : d.blocks[b].grid # "" /\ ~HasGrid(d, d.blocks[b].grid) THEN "pin-grid"
         ELSE IF \E b \in BlocksUsed(d) : \E c \in 1..Len(d.blocks[b].comps) : d.blocks[b].comps[c].iso # "" /\ ~HasIso(d, d.blocks[b].comps[c].iso) THEN "isotopics"
         ELSE "core-specifier")
    ELSE IF v = "Overlap" THEN
        (IF \E b \in BlocksUsed(d) : \E c \in 1..Len(d.blocks[b].comps) : Solid(d.blocks[b].comps[c].mat) /\ NegativeArea(d.blocks[b], d.blocks[b].comps[c])
         THEN (IF \A b \in BlocksUsed(d) : \A c \in 1..Len(d.blocks[b].comps) :
                     (Solid(d.blocks[b].comps[c].mat) /\ NegativeArea(d.blocks[b], d.blocks[b].comps[c])) => BeyondClad(d.blocks[b], d.blocks[b].comps[c])
               THEN "negative-fluid-beyond-clad" ELSE "negative-area")
         ELSE IF \E b \in BlocksUsed(d) : CertainlyExceeds(d.blocks[b]) THEN "exceeds-block"
         ELSE "pins-in-duct")
    ELSE IF v = "MultConflict" THEN
        \* which way the written multiplicity disagrees with the number of lattice sites (BlockBlueprint.construct refuses both)
        (IF \E b \in BlocksUsed(d) : \E c \in 1..Len(d.blocks[b].comps) :
               LET C == d.blocks[b].comps[c]  n == Cardinality(PinCells(d, d.blocks[b], C)) IN
               "mult" \in DOMAIN C.dims /\ n > 0 /\ C.dims["mult"].k = "num" /\ C.dims["mult"].v # 1 /\ C.dims["mult"].v < n
         THEN "fewer-than-sites"
         ELSE IF \E b \in BlocksUsed(d) : \E c \in 1..Len(d.blocks[b].comps) :
               LET C == d.blocks[b].comps[c]  n == Cardinality(PinCells(d, d.blocks[b], C)) IN
               "mult" \in DOMAIN C.dims /\ n > 0 /\ C.dims["mult"].k = "num" /\ C.dims["mult"].v > n
         THEN "more-than-sites"
         ELSE "linked")
    ELSE ""
\* documents about which the specification says nothing (kept out of the explored set by the state constraint)
Modelled(d) ==
    /\ \A b \in 1..Len(d.blocks) : LinksOK(d.blocks[b]) => Acyclic(d.blocks[b])
    /\ \A b \in 1..Len(d.blocks) : (LinksOK(d.blocks[b]) /\ ~\E c \in 1..Len(d.blocks[b].comps) : NegativeArea(d.blocks[b], d.blocks[b].comps[c]))
                                       => (CertainlyFits(d.blocks[b]) \/ CertainlyExceeds(d.blocks[b]))
    /\ \A b \in 1..Len(d.blocks) : (LinksOK(d.blocks[b]) /\ PinRuleApplies(d.blocks[b]))
                                       => (CertainlyInsideDuct(d.blocks[b]) \/ CertainlyOutsideDuct(d.blocks[b]))
    /\ \A k \in 1..Len(d.iso) : IsoOK(d.iso[k])
    /\ (HasGrid(d, d.core) /\ CoreGrid(d).dom = "third") => \A x \in DOMAIN CoreCells(d) : InThird(x) \/ ~InThirdOverlap(x)
    /\ HasGrid(d, d.core) => DOMAIN CoreCells(d) # {}

(* ============================================ expected reactor ============================================ *)
\* composition of the component built from design c in the block at axial index k of assembly design a
\* mass fractions given by an override; a listed zero is a nuclide that is absent.  With both uranium isotopes listed the
\* enrichment m235 / (m235 + m238) follows.
VecOf(I, n) == LET js == {j \in 1..Len(I.vec) : I.vec[j][1] = n} IN IF js = {} THEN <<0, 1>> ELSE I.vec[CHOOSE j \in js : TRUE][2]
IsoMF(I) ==
    LET u == RAdd(VecOf(I, "U235"), VecOf(I, "U238")) IN
    (IF RIsZero(u) THEN [x \in {} |-> 0] ELSE [enr |-> RDiv(VecOf(I, "U235"), u)]) @@ [mf |-> [j \in 1..Len(I.vec) |-> I.vec[j]]]
NoClaim == [none |-> TRUE]
\* class 1 / class 2 blend (FuelMaterial.applyInputParams -> densityTools.applyIsotopicsMix): the heavy metal of the material
\* becomes w * feed1 + (1 - w) * feed2 over ALL heavy-metal nuclides (those of the base material that are in neither feed
\* vanish), the other fractions stay.  Stated as the mass fractions WITHIN the heavy metal.  Applied last; skipped when w is
\* blank (w = 0 is not generated: armi treats it as blank).
HeavyMetal == {"U235", "U238", "PU239", "PU240"}
FeedNucs(I) == {I.vec[j][1] : j \in 1..Len(I.vec)}
BlendVec(w, F1, F2) ==
    LET nucs == SetToSeq((FeedNucs(F1) \cup FeedNucs(F2)) \cap HeavyMetal)
    IN [j \in 1..Len(nucs) |-> <<nucs[j], RAdd(RMul(w, VecOf(F1, nucs[j])), RMul(RSub(<<1, 1>>, w), VecOf(F2, nucs[j])))>>]
ExpComposition(d, a, k, c) ==
    LET e == ModVal(a, k, c.name, "U235_wt_frac")
        z == ModVal(a, k, c.name, "ZR_wt_frac")
        I == IsoNamed(d, c.iso)
    IN
    IF c.mat \in {"UraniumOxide", "UZr"} /\ ModVal(a, k, c.name, "class1_wt_frac") # <<>> THEN
        [hmf |-> BlendVec(ModVal(a, k, c.name, "class1_wt_frac"), IsoNamed(d, ModVal(a, k, c.name, "class1_custom_isotopics")[1]),
                          IsoNamed(d, ModVal(a, k, c.name, "class2_custom_isotopics")[1]))]
        @@ (IF c.mat = "UZr" /\ ModVal(a, k, c.name, "ZR_wt_frac") # <<>> /\ c.iso = "" THEN [zr |-> ModVal(a, k, c.name, "ZR_wt_frac")] ELSE NoClaim)
    ELSE IF c.mat = "UraniumOxide" THEN
        \* UraniumOxide.applyInputParams -> Material.adjustMassEnrichment -> adjustMassFrac("U235", e): the requested weight
        \* fraction of U235 WITHIN the uranium, the remainder to the balance isotope(s) -- also when the override lists the
        \* balance isotope at zero; the modification is applied after the override and has the final word
        IF e # <<>> THEN [enr |-> e] ELSE IF c.iso # "" THEN IsoMF(I) ELSE NoClaim
    ELSE IF c.mat = "UZr" THEN
        \* UZr.applyInputParams (called when any modification reaches the component) sets ZR, U235, U238 from the two
        \* fractions (defaults when one is missing: no claim); other entries of an override stay, so zr is claimed without one only
        IF e # <<>> \/ z # <<>> THEN
            (IF e # <<>> THEN [enr |-> e] ELSE NoClaim) @@ (IF z # <<>> /\ c.iso = "" THEN [zr |-> z] ELSE NoClaim)
        ELSE IF c.iso # "" THEN IsoMF(I) ELSE NoClaim
    ELSE IF c.iso # "" THEN
        IF I.fmt = "nd" THEN [nd |-> [j \in 1..Len(I.vec) |-> I.vec[j]]]
        ELSE IF I.fmt = "mf" /\ c.mat = "Custom"
             THEN [md |-> [j \in 1..Len(I.vec) |-> <<I.vec[j][1], RMul(I.dens, I.vec[j][2])>>]]
        ELSE IF I.fmt = "nf" /\ c.mat = "Custom" THEN [nf |-> [j \in 1..Len(I.vec) |-> I.vec[j]], rho |-> I.dens]
        ELSE IF I.fmt = "mf" THEN IsoMF(I)
        ELSE NoClaim
    ELSE NoClaim

ExpMember(d, mem) ==
    LET m == d.comps[CHOOSE j \in TopIdx(d, mem[1]) : TRUE] IN
    [name |-> m.name, shape |-> m.shape, mat |-> m.mat, ti |-> m.ti, th |-> m.th, mult |-> mem[2],         \* the group's multiplicity
     dims |-> [x \in DOMAIN m.dims \ {"mult"} |-> m.dims[x].v]]
ExpGroup(d, c) ==
    LET G == d.groups[CHOOSE j \in GroupIdx(d, c.name) : TRUE] IN
    [name |-> c.name, shape |-> "Group", members |-> [j \in 1..Len(G.members) |-> ExpMember(d, G.members[j])]]
ExpComp(d, a, k, B, c) ==
  IF c.shape = "Group" THEN ExpGroup(d, c) ELSE
    LET geo == DOMAIN c.dims \ {"mult"}
        lk  == {x \in DOMAIN c.dims : c.dims[x].k = "link"}
    \* pin cells are claimed only where the block names a pin lattice (armi may infer a lattice of its own otherwise)
    IN (IF B.grid # "" THEN [cells |-> CellSeq(PinCells(d, B, c))] ELSE [x \in {} |-> 0]) @@
       (IF "mult" \in DOMAIN c.dims THEN [mult |-> MultOf(d, B, c)] ELSE [x \in {} |-> 0]) @@
       [name |-> c.name, shape |-> c.shape, mat |-> c.mat, ti |-> c.ti, th |-> c.th,
        dims |-> [x \in geo |-> Res(B, c.name, x)],
        links |-> [x \in lk |-> <<c.dims[x].c, c.dims[x].d>>],
        comp |-> ExpComposition(d, a, k, c)]
ExpBlock(d, a, k) ==
    LET B == d.blocks[a.blocks[k]] IN
    [type |-> JoinWords(B.name), flags |-> FlagsOf(B.name), height |-> a.height[k],
     zbot |-> SumTo(a.height, k - 1), ztop |-> SumTo(a.height, k), xs |-> a.xs[k], axMesh |-> a.mesh[k],
     comps |-> [j \in 1..Len(B.comps) |-> ExpComp(d, a, k, B, B.comps[j])]]
ExpAsm(d, a) == [type |-> JoinWords(a.name), flags |-> FlagsOf(a.name),
                 blocks |-> [k \in 1..Len(a.blocks) |-> ExpBlock(d, a, k)]]
\* the axial mesh of the core: every block top of every design placed in the core (heights are integers)
PlacedSpecs(d) == {CoreCells(d)[x] : x \in DOMAIN CoreCells(d)}
AsmOfSpec(d, s) == d.asms[CHOOSE k \in AsmWithSpec(d, s) : TRUE]
Expected(d) ==
    [core  |-> ContentsSeq(CoreCells(d)),
     asm   |-> [s \in PlacedSpecs(d) |-> ExpAsm(d, AsmOfSpec(d, s))],
     mesh  |-> SortedSeq({0} \cup UNION {Tops(AsmOfSpec(d, s)) : s \in PlacedSpecs(d)}),
     nasm  |-> Cardinality(DOMAIN CoreCells(d))]

(* ============================================ base documents ============================================ *)
Fuel   == Comp("fuel", "Circle", "UZr", 25, 600, [od |-> Num(60), id |-> Num(0), mult |-> Num(7)])
Clad   == Comp("clad", "Circle", "HT9", 25, 450, [od |-> Num(80), id |-> Num(64), mult |-> Num(9)])
Liner  == Comp("liner", "Circle", "HT9", 30, 400, [od |-> Num(100), id |-> Num(84), mult |-> Num(11)])
Cool   == [name |-> "coolant", shape |-> "DerivedShape", mat |-> "Sodium", ti |-> 450, th |-> 450, iso |-> "", lat |-> <<>>,
           dims |-> [x \in {} |-> NoDim]]
Duct   == Comp("duct", "Hexagon", "HT9", 25, 450, [op |-> Num(1500), ip |-> Num(1400), mult |-> Num(1)])
Can    == Comp("can", "Rectangle", "HT9", 25, 450, [lengthOuter |-> Num(1500), lengthInner |-> Num(1400),
                                                    widthOuter |-> Num(1500), widthInner |-> Num(1400), mult |-> Num(1)])
Slug   == Comp("slug", "Circle", "HT9", 25, 450, [od |-> Num(300), id |-> Num(0), mult |-> Num(1)])
Blk(name, comps) == [name |-> name, grid |-> "", comps |-> comps]
Asm(name, spec, blocks, height, mesh, xs) == [name |-> name, spec |-> spec, blocks |-> blocks, height |-> height,
                                              mesh |-> mesh, xs |-> xs, mods |-> <<>>]
CellsGrid(name, geom, dom, cells) == [name |-> name, geom |-> geom, dom |-> dom, mode |-> "cells", text |-> <<>>, cells |-> cells,
                                      bounds |-> IF geom = "thetarz" THEN << <<0, 78>>, <<0, 500, 1000, 1500>> >> ELSE <<>>]
OneCell == CellsGrid("core", "hex", "full", << <<0, 0, "A">> >>)

MixMF == [name |-> "mix", fmt |-> "mf", dens |-> <<10, 1>>, vec |-> << <<"U235", <<1, 4>> >>, <<"U238", <<3, 4>> >> >>]
MixND == [name |-> "dens", fmt |-> "nd", dens |-> NoRat, vec |-> << <<"U235", <<1, 100>> >>, <<"U238", <<3, 100>> >>, <<"B10", <<2, 25>> >> >>]
MixNF == [name |-> "atoms", fmt |-> "nf", dens |-> <<8, 1>>, vec |-> << <<"U235", <<1, 5>> >>, <<"PU239", <<3, 10>> >>, <<"U238", <<1, 2>> >> >>]
\* oxide vectors for a library fuel material; "hot" lists the balance isotope at exactly zero
Hot   == [name |-> "hot", fmt |-> "mf", dens |-> NoRat, vec |-> << <<"U235", <<22, 25>> >>, <<"U238", <<0, 1>> >>, <<"O16", <<3, 25>> >> >>]
Mixed == [name |-> "mixed", fmt |-> "mf", dens |-> NoRat, vec |-> << <<"U235", <<11, 25>> >>, <<"U238", <<11, 25>> >>, <<"O16", <<3, 25>> >> >>]
PuFeed == [name |-> "pufeed", fmt |-> "mf", dens |-> NoRat, vec |-> << <<"PU239", <<47, 50>> >>, <<"PU240", <<3, 50>> >> >>]
DepU   == [name |-> "depu", fmt |-> "mf", dens |-> NoRat, vec |-> << <<"U238", <<1, 1>> >> >>]               \* does not cover the U235 of UZr / UO2
Leu    == [name |-> "leu", fmt |-> "mf", dens |-> NoRat, vec |-> << <<"U235", <<1, 5>> >>, <<"U238", <<4, 5>> >> >>]
Steel == [name |-> "steel", fmt |-> "mf", dens |-> NoRat, vec |-> << <<"FE56", <<9, 10>> >>, <<"CR52", <<1, 10>> >> >>]

\* "links": one block fuel/clad/liner/coolant/duct, every dimension numeric; edits make links, change numbers, reorder, drop
BaseLinks == [comps |-> <<>>, groups |-> <<>>, nuc |-> <<>>, iso |-> <<>>, blocks |-> << Blk(<<"fuel">>, <<Fuel, Clad, Liner, Cool, Duct>>) >>,
              asms |-> << Asm(<<"fuel", "a">>, "A", <<1>>, <<10>>, <<1>>, <<"A">>) >>,
              grids |-> <<OneCell>>, core |-> "core"]
\* "comp": compositions -- custom isotopics in the three input formats, isotopics on a library material, UZr modifications
NucFlags == <<"U235", "U238", "PU239", "PU240", "B10", "O", "ZR", "NA", "FE", "CR", "NI", "MO", "MN", "W", "V", "C", "SI">>
BaseComp == [comps |-> <<>>, groups |-> <<>>, nuc |-> NucFlags, iso |-> <<MixMF, MixND, MixNF, Steel, Hot, Mixed, PuFeed, DepU, Leu>>, blocks |-> << Blk(<<"fuel">>, <<Fuel, Clad, Cool, Duct>>), Blk(<<"inner", "fuel">>, <<Fuel, Cool, Duct>>) >>,
             asms |-> << Asm(<<"fuel", "a">>, "A", <<1, 2, 1>>, <<10, 20, 30>>, <<1, 2, 3>>, <<"A", "B", "C">>) >>,
             grids |-> <<OneCell>>, core |-> "core"]
\* "stack": assembly layouts -- three block designs, an assembly design of three blocks and one of two
BaseStack == [comps |-> <<>>, groups |-> <<>>, nuc |-> <<>>, iso |-> <<>>,
              blocks |-> << Blk(<<"fuel">>, <<Fuel, Clad, Cool, Duct>>), Blk(<<"shield">>, <<Slug, Cool, Duct>>), Blk(<<"plenum">>, <<Clad, Cool, Duct>>) >>,
              asms |-> << Asm(<<"fuel", "a">>, "A", <<2, 1, 3>>, <<10, 20, 30>>, <<1, 2, 3>>, <<"A", "b", "C">>),      \* xs labels are case sensitive
                          Asm(<<"shield", "b">>, "B", <<2, 3>>, <<30, 30>>, <<3, 1>>, <<"D", "E">>) >>,
              grids |-> << CellsGrid("core", "hex", "full", << <<0, 0, "A">>, <<1, 0, "B">> >>) >>, core |-> "core"]
\* "pins": a pin lattice on the block -- fuel and clad on id "1", a guide tube on id "2"
PFuel  == [Fuel EXCEPT !.lat = <<"1">>, !.dims["mult"] = NoDim]
PClad  == [Clad EXCEPT !.lat = <<"1">>, !.dims["mult"] = NoDim, !.dims["id"] = Lnk("fuel", "od")]
PGuide == [Comp("guide", "Circle", "HT9", 25, 450, [od |-> Num(70), id |-> Num(50), mult |-> NoDim]) EXCEPT !.lat = <<"2">>]
PinGrid(geom) == CellsGrid("pins", geom, "full", << <<0, 0, "1">> >>)
BasePins == [comps |-> <<>>, groups |-> <<>>, nuc |-> <<>>, iso |-> <<>>, blocks |-> << [Blk(<<"fuel">>, <<PFuel, PClad, PGuide, Cool, Duct>>) EXCEPT !.grid = "pins"] >>,
             asms |-> << Asm(<<"fuel", "a">>, "A", <<1>>, <<10>>, <<1>>, <<"A">>) >>,
             grids |-> <<OneCell, PinGrid("hex_corners_up")>>, core |-> "core"]
\* "core": placement of two assembly designs on core grids of every geometry
CoreAsms(outer) == << Asm(<<"fuel", "a">>, "A", <<1, 2>>, <<10, 20>>, <<1, 2>>, <<"A", "B">>),
                      Asm(<<"shield", "b">>, "B", <<2, 2>>, <<10, 20>>, <<2, 1>>, <<"C", "D">>) >>
Wedge(name, mat, r0, r1) == Comp(name, "RadialSegment", mat, 25, 25, [inner_radius |-> Num(r0), outer_radius |-> Num(r1), inner_theta |-> Num(0),
                                                                     outer_theta |-> Num(78), height |-> Num(1000), mult |-> Num(1)])
CoreStart(geom, dom) ==
    IF geom = "thetarz" THEN << <<0, 0, "A">>, <<0, 1, "B">> >>
    ELSE IF geom = "cartesian" THEN
        (IF dom = "full" THEN << <<-1, -1, "A">>, <<0, -1, "B">>, <<-1, 0, "B">>, <<0, 0, "A">> >>
         ELSE << <<0, 0, "A">>, <<1, 0, "B">>, <<0, 1, "B">> >>)
    ELSE IF dom = "third" THEN << <<0, 0, "A">>, <<1, 0, "B">>, <<2, -1, "A">>, <<1, 1, "B">> >>
    ELSE IF geom = "hex" THEN << <<0, 0, "A">>, <<1, 0, "B">>, <<-1, 1, "A">> >>
    ELSE << <<0, 0, "A">>, <<1, 0, "B">>, <<0, -1, "A">> >>
BaseCore(geom, dom) ==
    LET outer == IF geom = "cartesian" THEN Can ELSE Duct IN
    [comps |-> <<>>, groups |-> <<>>, nuc |-> <<>>, iso |-> <<>>, blocks |-> IF geom = "thetarz" THEN << Blk(<<"fuel">>, <<Wedge("fuel", "UZr", 0, 500)>>), Blk(<<"shield">>, <<Wedge("slug", "HT9", 500, 1000)>>) >>
                              ELSE << Blk(<<"fuel">>, <<Fuel, Cool, outer>>), Blk(<<"shield">>, <<Slug, Cool, outer>>) >>,
     asms |-> CoreAsms(outer),
     grids |-> << CellsGrid("core", geom, dom, CoreStart(geom, dom)) >>, core |-> "core"]
MapDesigns == {<<"hex", "full">>, <<"hex", "third">>, <<"hex_corners_up", "full">>, <<"cartesian", "full">>, <<"cartesian", "quarter">>}
CoreDesigns == MapDesigns \cup {<<"thetarz", "eighth">>}          \* a theta-R-Z grid has no text map

(* ============================================ edits ============================================ *)
PinNames == {"fuel", "clad", "liner"}
Geo == {"od", "id"}
\* ---- component dimension / link choices ("links") ----
SetLink(cn, d, tn, td) ==
    /\ fam = "links" /\ cn \in PinNames /\ tn \in PinNames /\ cn # tn
    /\ HasComp(doc.blocks[1], cn)
    /\ IF d = "mult" THEN td = "mult" ELSE (d \in Geo /\ td \in Geo)
    /\ LET k == CHOOSE x \in CompIdx(doc.blocks[1], cn) : TRUE IN
       /\ d \in DOMAIN doc.blocks[1].comps[k].dims
       /\ doc.blocks[1].comps[k].dims[d] # Lnk(tn, td)
       /\ doc' = [doc EXCEPT !.blocks[1].comps[k].dims[d] = Lnk(tn, td)]
    /\ act' = [n |-> "SetLink", c |-> cn, d |-> d, tc |-> tn, td |-> td]
AltValue == [fuel |-> [od |-> {50, 70}, id |-> {20}, mult |-> {19}], clad |-> [od |-> {70}, id |-> {56}, mult |-> {1}],
             liner |-> [od |-> {110}, id |-> {120}, mult |-> {2000}]]
SetNum(cn, d, v) ==
    /\ fam = "links" /\ cn \in PinNames /\ d \in {"od", "id", "mult"}
    /\ HasComp(doc.blocks[1], cn)
    /\ v \in AltValue[cn][d]
    /\ LET k == CHOOSE x \in CompIdx(doc.blocks[1], cn) : TRUE IN
       /\ d \in DOMAIN doc.blocks[1].comps[k].dims
       /\ doc.blocks[1].comps[k].dims[d] # Num(v)
       /\ doc' = [doc EXCEPT !.blocks[1].comps[k].dims[d] = Num(v)]
    /\ act' = [n |-> "SetNum", c |-> cn, d |-> d, v |-> v]
\* a bond / gap between fuel and clad, linked to both: negative when the two solids overlap (fuel od 0.70 > clad id 0.64)
Bond(mat) == Comp("bond", "Circle", mat, 450, 450, [id |-> Lnk("fuel", "od"), od |-> Lnk("clad", "id"), mult |-> Lnk("fuel", "mult")])
AddBond(mat) ==
    /\ fam = "links" /\ mat \in {"Sodium", "Void"}
    /\ ~HasComp(doc.blocks[1], "bond") /\ HasComp(doc.blocks[1], "fuel")
    /\ LET k == CHOOSE x \in CompIdx(doc.blocks[1], "fuel") : TRUE IN
       doc' = [doc EXCEPT !.blocks[1].comps = SubSeq(@, 1, k) \o <<Bond(mat)>> \o SubSeq(@, k + 1, Len(@))]
    /\ act' = [n |-> "AddBond", mat |-> mat]
DropComp(cn) ==
    /\ fam = "links" /\ cn \in PinNames /\ HasComp(doc.blocks[1], cn)
    /\ LET k == CHOOSE x \in CompIdx(doc.blocks[1], cn) : TRUE IN
       doc' = [doc EXCEPT !.blocks[1].comps = DelAt(@, k)]
    /\ act' = [n |-> "DropComp", c |-> cn]
SwapComps(k) ==
    /\ fam = "links" /\ k \in 1..2 /\ Len(doc.blocks[1].comps) >= 5
    /\ doc' = [doc EXCEPT !.blocks[1].comps = SwapAt(@, k)]
    /\ act' = [n |-> "SwapComps", k |-> k]
RenameComp(cn, new) ==                                       \* two components of one name
    /\ fam = "links" /\ cn \in PinNames /\ new \in PinNames /\ cn # new
    /\ HasComp(doc.blocks[1], cn) /\ HasComp(doc.blocks[1], new)
    /\ LET k == CHOOSE x \in CompIdx(doc.blocks[1], cn) : TRUE IN
       doc' = [doc EXCEPT !.blocks[1].comps[k].name = new]
    /\ act' = [n |-> "RenameComp", c |-> cn, to |-> new]
SetShape(cn) ==                                              \* a square pin instead of a round one
    /\ fam = "links" /\ cn = "liner" /\ HasComp(doc.blocks[1], cn)
    /\ LET k == CHOOSE x \in CompIdx(doc.blocks[1], cn) : TRUE
           c == doc.blocks[1].comps[k] IN
       /\ c.shape = "Circle"
       /\ doc' = [doc EXCEPT !.blocks[1].comps[k] =
                    [c EXCEPT !.shape = "Square", !.dims = [widthOuter |-> c.dims["od"], widthInner |-> c.dims["id"], mult |-> c.dims["mult"]]]]
    /\ act' = [n |-> "SetShape", c |-> cn]
SetTemps(cn) ==
    /\ fam = "links" /\ cn \in PinNames /\ HasComp(doc.blocks[1], cn)
    /\ LET k == CHOOSE x \in CompIdx(doc.blocks[1], cn) : TRUE IN
       /\ doc.blocks[1].comps[k].th # 700
       /\ doc' = [doc EXCEPT !.blocks[1].comps[k].ti = 20, !.blocks[1].comps[k].th = 700]
    /\ act' = [n |-> "SetTemps", c |-> cn]

\* ---- material, custom isotopics, material modifications ("comp") ----
IsoNames == {"mix", "dens", "atoms", "steel", "nosuch", "hot", "mixed", ""}
FuelMats == {"Custom", "UraniumOxide", "UZr"}
SetIsotopics(b, cn, iso, mat) ==
    /\ fam = "comp" /\ b \in 1..2 /\ cn \in {"fuel", "clad"} /\ iso \in IsoNames /\ mat \in FuelMats \cup {"HT9"}
    /\ HasComp(doc.blocks[b], cn)
    /\ IF cn = "clad" THEN iso = "steel" /\ mat = "HT9"             \* fractions without density on a library material
       ELSE \/ iso \in {"mix", "dens", "atoms", "nosuch"} /\ mat = "Custom"      \* number / mass densities only on Custom
            \/ iso \in {"hot", "mixed"} /\ mat \in {"UraniumOxide", "UZr"}     \* an oxide vector on a library fuel
            \/ iso = "" /\ mat = "UraniumOxide"                              \* the library oxide as it is
    /\ LET k == CHOOSE x \in CompIdx(doc.blocks[b], cn) : TRUE IN
       /\ doc.blocks[b].comps[k].iso = "" /\ doc.blocks[b].comps[k].mat \in {"UZr", "HT9"}
       /\ doc' = [doc EXCEPT !.blocks[b].comps[k].iso = iso, !.blocks[b].comps[k].mat = mat]
    /\ act' = [n |-> "SetIsotopics", b |-> b, c |-> cn, iso |-> iso, mat |-> mat]
\* a requested fraction of exactly 0 is a request (applied), a blank entry is not
ModLists == { << <<1, 5>>, <<>>, <<1, 4>> >>, << <<3, 20>>, <<1, 20>>, <<>> >>, << <<0, 1>>, <<0, 1>>, <<>> >> }
SetMod(scope, key, vals) ==
    /\ fam = "comp" /\ scope \in {"", "fuel"} /\ key \in {"U235_wt_frac", "ZR_wt_frac"} /\ vals \in ModLists
    /\ ~\E m \in 1..Len(doc.asms[1].mods) : doc.asms[1].mods[m].scope = scope /\ doc.asms[1].mods[m].key = key
    /\ doc' = [doc EXCEPT !.asms[1].mods = Append(@, [scope |-> scope, key |-> key, vals |-> vals])]
    /\ act' = [n |-> "SetMod", scope |-> scope, key |-> key, vals |-> vals]
SetBlend(w, f1, f2) ==                                       \* a class 1 / class 2 blend on blocks 1 and 3 (block-level lists)
    /\ fam = "comp" /\ w \in {<<1, 5>>, <<1, 1>>} /\ f1 \in {"pufeed", "leu"} /\ f2 \in {"depu", "leu"} /\ f1 # f2
    /\ ~\E m \in 1..Len(doc.asms[1].mods) : doc.asms[1].mods[m].key \in BlendKeys
    /\ doc' = [doc EXCEPT !.asms[1].mods = @ \o << [scope |-> "", key |-> "class1_wt_frac", vals |-> <<w, <<>>, w>>],
                                                   [scope |-> "", key |-> "class1_custom_isotopics", vals |-> << <<f1>>, <<>>, <<f1>> >>],
                                                   [scope |-> "", key |-> "class2_custom_isotopics", vals |-> << <<f2>>, <<>>, <<f2>> >>] >>]
    /\ act' = [n |-> "SetBlend", w |-> w, f1 |-> f1, f2 |-> f2]
SetModPair(v1, v2) ==                                       \* two modifications of ONE component in one edit
    /\ fam = "comp" /\ v1 \in ModLists /\ v2 \in ModLists /\ v1 # v2
    /\ ~\E m \in 1..Len(doc.asms[1].mods) : doc.asms[1].mods[m].scope = "fuel"
    /\ doc' = [doc EXCEPT !.asms[1].mods = @ \o << [scope |-> "fuel", key |-> "U235_wt_frac", vals |-> v1],
                                                   [scope |-> "fuel", key |-> "ZR_wt_frac", vals |-> v2] >>]
    /\ act' = [n |-> "SetModPair", v1 |-> v1, v2 |-> v2]
ShortMod(m) ==                                               \* a modification list (any of them) with an entry missing
    /\ fam = "comp" /\ m \in 1..Len(doc.asms[1].mods) /\ Len(doc.asms[1].mods[m].vals) = Len(doc.asms[1].blocks)
    /\ doc' = [doc EXCEPT !.asms[1].mods[m].vals = DropLast(@)]
    /\ act' = [n |-> "ShortMod", m |-> m]
LongMod(m) ==                                                \* ... with an entry too many
    /\ fam = "comp" /\ m \in 1..Len(doc.asms[1].mods) /\ Len(doc.asms[1].mods[m].vals) = Len(doc.asms[1].blocks)
    /\ doc' = [doc EXCEPT !.asms[1].mods[m].vals = Append(@, <<1, 10>>)]
    /\ act' = [n |-> "LongMod", m |-> m]
DupIsotopics ==                                              \* two custom isotopics of one name
    /\ fam = "comp" /\ ~HasDup(NamesOf(doc.iso))
    /\ doc' = [doc EXCEPT !.iso = Append(@, [MixMF EXCEPT !.dens = <<5, 1>>])]
    /\ act' = [n |-> "DupIsotopics"]

\* ---- block and assembly layouts ("stack") ----
SwapBlocks(a, k) ==
    /\ fam = "stack" /\ a \in 1..Len(doc.asms) /\ k \in 1..(Len(doc.asms[a].blocks) - 1)
    /\ doc.asms[a].blocks[k] # doc.asms[a].blocks[k + 1]
    /\ doc' = [doc EXCEPT !.asms[a].blocks = SwapAt(@, k)]
    /\ act' = [n |-> "SwapBlocks", a |-> a, k |-> k]
SwapList(a, which, k) ==
    /\ fam = "stack" /\ a \in 1..Len(doc.asms) /\ which \in {"height", "mesh", "xs"}
    /\ k \in 1..(Len(doc.asms[a][which]) - 1)
    /\ doc.asms[a][which][k] # doc.asms[a][which][k + 1]
    /\ doc' = [doc EXCEPT !.asms[a][which] = SwapAt(@, k)]
    /\ act' = [n |-> "SwapList", a |-> a, which |-> which, k |-> k]
Shorten(a, which) ==                                         \* lists of unequal length
    /\ fam = "stack" /\ a \in 1..Len(doc.asms) /\ which \in {"height", "mesh", "xs", "blocks"}
    /\ Len(doc.asms[a][which]) = Len(doc.asms[a].blocks) /\ Len(doc.asms[a][which]) >= 2
    /\ doc' = [doc EXCEPT !.asms[a][which] = DropLast(@)]
    /\ act' = [n |-> "Shorten", a |-> a, which |-> which]
Lengthen(a, which) ==
    /\ fam = "stack" /\ a \in 1..Len(doc.asms) /\ which \in {"height", "mesh", "xs"}
    /\ Len(doc.asms[a][which]) = Len(doc.asms[a].blocks)
    /\ doc' = [doc EXCEPT !.asms[a][which] = Append(@, @[1])]
    /\ act' = [n |-> "Lengthen", a |-> a, which |-> which]
Respecify(a, s) ==                                           \* change a specifier: unknown in the core map / two designs of one specifier
    /\ fam = "stack" /\ a \in 1..Len(doc.asms) /\ s \in {"A", "B", "Z"} /\ doc.asms[a].spec # s
    /\ doc' = [doc EXCEPT !.asms[a].spec = s]
    /\ act' = [n |-> "Respecify", a |-> a, s |-> s]
RenameAsm(a, name) ==
    /\ fam = "stack" /\ a \in 1..Len(doc.asms) /\ name \in {<<"fuel", "a">>, <<"inner", "test", "fuel">>} /\ doc.asms[a].name # name
    /\ doc' = [doc EXCEPT !.asms[a].name = name]
    /\ act' = [n |-> "RenameAsm", a |-> a, name |-> name]
RenameBlock(b, name) ==
    /\ fam = "stack" /\ b \in 1..Len(doc.blocks) /\ name \in {<<"fuel">>, <<"outer", "reflector">>} /\ doc.blocks[b].name # name
    /\ doc' = [doc EXCEPT !.blocks[b].name = name]
    /\ act' = [n |-> "RenameBlock", b |-> b, name |-> name]
SetHeight(a, k, h) ==                                        \* heights off the reference mesh
    /\ fam = "stack" /\ a \in 1..Len(doc.asms) /\ k \in 1..Len(doc.asms[a].height) /\ h \in {20, 25, 50} /\ doc.asms[a].height[k] # h
    /\ doc' = [doc EXCEPT !.asms[a].height[k] = h]
    /\ act' = [n |-> "SetHeight", a |-> a, k |-> k, h |-> h]
SetXs(a, k, x) ==                                            \* lower-case, mixed-case and two-letter xs types
    /\ fam = "stack" /\ a = 1 /\ k \in 1..2 /\ x \in {"a", "B", "aB", "AB"} /\ doc.asms[a].xs[k] # x
    /\ Len(doc.asms[a].xs) >= k
    /\ doc' = [doc EXCEPT !.asms[a].xs[k] = x]
    /\ act' = [n |-> "SetXs", a |-> a, k |-> k, x |-> x]
PlaceStack(x, s) ==
    /\ fam = "stack" /\ x \in {<<0, 0>>, <<1, 0>>, <<0, 1>>} /\ s \in {"A", "B"}
    /\ LET gr == doc.grids[1]
           keep == SelectSeq(gr.cells, LAMBDA t : <<t[1], t[2]>> # x) IN
       /\ <<x[1], x[2], s>> \notin Rng(gr.cells)
       /\ doc' = [doc EXCEPT !.grids[1].cells = Append(keep, <<x[1], x[2], s>>)]
    /\ act' = [n |-> "PlaceStack", x |-> x, s |-> s]

\* ---- pin lattice ("pins") ----
PinUniverse == HexCells(1)
PlacePin(x, id) ==
    /\ fam = "pins" /\ x \in PinUniverse /\ id \in {"1", "2", "9"}
    /\ LET gr == doc.grids[2]
           f  == CellsOf(gr)
           S  == (DOMAIN f \ {x}) \cup {x}
           g2 == [c \in S |-> IF c = x THEN id ELSE f[c]] IN
       /\ IF x \in DOMAIN f THEN f[x] # id ELSE TRUE
       /\ doc' = [doc EXCEPT !.grids[2].cells = ContentsSeq(g2),
                             !.grids[2].text = IF gr.mode = "map" THEN Draw(MapClassOf(gr.geom, gr.dom), S, LAMBDA c : g2[c], FALSE) ELSE <<>>]
    /\ act' = [n |-> "PlacePin", x |-> x, id |-> id]
PinMode(mode, geom) ==
    /\ fam = "pins" /\ mode \in {"map", "cells"} /\ geom \in {"hex_corners_up", "hex"}
    /\ <<doc.grids[2].mode, doc.grids[2].geom>> # <<mode, geom>>
    /\ LET gr == doc.grids[2]
           f  == CellsOf(gr) IN
       doc' = [doc EXCEPT !.grids[2].mode = mode, !.grids[2].geom = geom, !.grids[2].cells = ContentsSeq(f),
                          !.grids[2].text = IF mode = "map" THEN Draw(MapClassOf(geom, gr.dom), DOMAIN f, LAMBDA c : f[c], FALSE) ELSE <<>>]
    /\ act' = [n |-> "PinMode", mode |-> mode, geom |-> geom]
PinMult(cn, m) ==
    /\ fam = "pins" /\ cn \in {"fuel", "guide"} /\ m \in {1, 2, 3}
    /\ LET k == CHOOSE x \in CompIdx(doc.blocks[1], cn) : TRUE IN
       /\ doc.blocks[1].comps[k].dims["mult"] = NoDim
       /\ doc' = [doc EXCEPT !.blocks[1].comps[k].dims["mult"] = Num(m)]
    /\ act' = [n |-> "PinMult", c |-> cn, m |-> m]
PinIds(cn, ids) ==
    /\ fam = "pins" /\ cn \in {"guide", "clad"} /\ ids \in {<<"1", "2">>, <<>>}
    /\ LET k == CHOOSE x \in CompIdx(doc.blocks[1], cn) : TRUE IN
       /\ doc.blocks[1].comps[k].lat # ids
       /\ doc' = [doc EXCEPT !.blocks[1].comps[k].lat = ids]
    /\ act' = [n |-> "PinIds", c |-> cn, ids |-> ids]
PinGridName(gn) ==
    /\ fam = "pins" /\ gn \in {"pin", "core"} /\ doc.blocks[1].grid = "pins"
    /\ doc' = [doc EXCEPT !.blocks[1].grid = gn]
    /\ act' = [n |-> "PinGridName", g |-> gn]

\* ---- component groups ("group") ----
MemberMult(j, m) ==                                          \* the member's own mult in `components:` (overridden by the group)
    /\ fam = "group" /\ j \in 1..Len(doc.comps) /\ m \in {1, 12, 25} /\ doc.comps[j].dims["mult"] # Num(m)
    /\ doc' = [doc EXCEPT !.comps[j].dims["mult"] = Num(m)]
    /\ act' = [n |-> "MemberMult", j |-> j, m |-> m]
GroupMult(j, m) ==
    /\ fam = "group" /\ j \in 1..Len(doc.groups[1].members) /\ m \in {1, 7, 30} /\ doc.groups[1].members[j][2] # m
    /\ doc' = [doc EXCEPT !.groups[1].members[j][2] = m]
    /\ act' = [n |-> "GroupMult", j |-> j, m |-> m]
GroupName(gn) ==                                             \* a block that uses a group nobody defines
    /\ fam = "group" /\ gn \in {"pebbles"} /\ doc.blocks[1].comps[1].name # gn
    /\ doc' = [doc EXCEPT !.blocks[1].comps[1].name = gn]
    /\ act' = [n |-> "GroupName", g |-> gn]

\* ---- pin bundle and ducts ("duct") ----
DuctEdit(cn, d, v) ==
    /\ fam = "duct" /\ HasComp(doc.blocks[1], cn)
    /\ \/ cn = "inner duct" /\ d = "ip" /\ v \in {480, 495, 505}          \* 4.80 and 4.95 cm are too narrow for the bundle (5.0105 cm)
       \/ cn = "outer duct" /\ d = "ip" /\ v \in {535}
       \/ cn = "wire" /\ d = "od" /\ v \in {5, 20}
    /\ LET k == CHOOSE x \in CompIdx(doc.blocks[1], cn) : TRUE IN
       /\ doc.blocks[1].comps[k].dims[d] # Num(v)
       /\ doc' = [doc EXCEPT !.blocks[1].comps[k].dims[d] = Num(v)]
    /\ act' = [n |-> "DuctEdit", c |-> cn, d |-> d, v |-> v]
PinCount(m) ==
    /\ fam = "duct" /\ m \in {7, 37} /\ doc.blocks[1].comps[1].dims["mult"] # Num(m)
    /\ LET cs == doc.blocks[1].comps IN
       doc' = [doc EXCEPT !.blocks[1].comps = [k \in 1..Len(cs) |-> IF cs[k].name \in {"fuel", "clad", "wire"}
                                                                     THEN [cs[k] EXCEPT !.dims["mult"] = Num(m)] ELSE cs[k]]]
    /\ act' = [n |-> "PinCount", m |-> m]
SwapDucts ==                                                 \* the outer duct written before the inner one
    /\ fam = "duct" /\ HasComp(doc.blocks[1], "inner duct") /\ HasComp(doc.blocks[1], "outer duct")
    /\ LET i == CHOOSE x \in CompIdx(doc.blocks[1], "inner duct") : TRUE
           o == CHOOSE x \in CompIdx(doc.blocks[1], "outer duct") : TRUE
           cs == doc.blocks[1].comps IN
       doc' = [doc EXCEPT !.blocks[1].comps = [cs EXCEPT ![i] = cs[o], ![o] = cs[i]]]
    /\ act' = [n |-> "SwapDucts"]
DropDuct(cn) ==
    /\ fam = "duct" /\ cn \in {"inner duct", "outer duct"}
    /\ HasComp(doc.blocks[1], "inner duct") /\ HasComp(doc.blocks[1], "outer duct")
    /\ LET k == CHOOSE x \in CompIdx(doc.blocks[1], cn) : TRUE IN
       doc' = [doc EXCEPT !.blocks[1].comps = DelAt(@, k)]
    /\ act' = [n |-> "DropDuct", c |-> cn]

\* ---- core lattice ("core") ----
CoreUniverse(gr) == IF gr.geom = "thetarz" THEN {0} \X (0..2)
                    ELSE IF gr.geom = "cartesian" THEN (IF gr.dom = "full" THEN (-1..1) \X (-1..1) ELSE (0..2) \X (0..2))
                    ELSE HexCells(2)
\* the cells a text map of the design can name (after centring), given a candidate set of grid cells
MapIndex(gr, S) == IF gr.geom = "cartesian" /\ gr.dom = "full"
                   THEN LET mi == SetMin({c[1] : c \in S})  mj == SetMin({c[2] : c \in S}) IN <<-mi, -mj>> ELSE <<0, 0>>
Redraw(gr, f) ==     \* the same contents as a text map (only when the text denotes exactly f)
    LET S  == DOMAIN f
        o  == MapIndex(gr, S)
        Sm == {<<c[1] + o[1], c[2] + o[2]>> : c \in S}
    IN Draw(MapClassOf(gr.geom, gr.dom), Sm, LAMBDA c : f[<<c[1] - o[1], c[2] - o[2]>>], FALSE)
Mappable(gr, f) ==
    LET S  == DOMAIN f
        o  == MapIndex(gr, S)
        Sm == {<<c[1] + o[1], c[2] + o[2]>> : c \in S}
    IN /\ Drawable(MapClassOf(gr.geom, gr.dom), Sm)
       /\ GridContents(gr.geom, gr.dom, Redraw(gr, f)) = f
MapVariant(d) == [d EXCEPT !.grids[1].mode = "map", !.grids[1].text = Redraw(d.grids[1], CellsOf(d.grids[1]))]
\* "duct": a wire-wrapped 19-pin bundle inside an inner and an outer duct
WFuel == Comp("fuel", "Circle", "UZr", 25, 25, [od |-> Num(80), id |-> Num(0), mult |-> Num(19)])
WClad == Comp("clad", "Circle", "HT9", 25, 25, [od |-> Num(100), id |-> Num(90), mult |-> Num(19)])
Wire  == Comp("wire", "Helix", "HT9", 25, 25, [od |-> Num(10), id |-> Num(0), axialPitch |-> Num(3000), helixDiameter |-> Num(110), mult |-> Num(19)])
InnerDuct == Comp("inner duct", "Hexagon", "HT9", 25, 25, [op |-> Num(530), ip |-> Num(510), mult |-> Num(1)])
OuterDuct == Comp("outer duct", "Hexagon", "HT9", 25, 25, [op |-> Num(580), ip |-> Num(560), mult |-> Num(1)])
BaseDuct == [comps |-> <<>>, groups |-> <<>>, nuc |-> <<>>, iso |-> <<>>, blocks |-> << Blk(<<"fuel">>, <<WFuel, WClad, Wire, Cool, InnerDuct, OuterDuct>>) >>,
             asms |-> << Asm(<<"fuel", "a">>, "A", <<1>>, <<10>>, <<1>>, <<"A">>) >>,
             grids |-> <<OneCell>>, core |-> "core"]
\* "group": a particle group (kernel + shell spheres from the top-level components section) in a graphite block
GroupComp == [name |-> "particles", shape |-> "Group", mat |-> "", ti |-> 0, th |-> 0, iso |-> "", lat |-> <<>>, dims |-> [x \in {} |-> NoDim]]
Matrix == [Cool EXCEPT !.name = "matrix", !.mat = "Graphite", !.ti = 25, !.th = 600]
Kernel == Comp("kernel", "Sphere", "UZr", 25, 600, [od |-> Num(40), id |-> Num(0), mult |-> Num(12)])
Shell  == Comp("shell", "Sphere", "HT9", 25, 600, [od |-> Num(50), id |-> Num(40), mult |-> Num(1)])
BaseGroup == [comps |-> <<Kernel, Shell>>, groups |-> << [name |-> "particles", members |-> << <<"kernel", 30>>, <<"shell", 40>> >>] >>,
              nuc |-> <<>>, iso |-> <<>>, blocks |-> << Blk(<<"fuel">>, <<GroupComp, Matrix, Duct>>) >>,
              asms |-> << Asm(<<"fuel", "a">>, "A", <<1>>, <<10>>, <<1>>, <<"A">>) >>, grids |-> <<OneCell>>, core |-> "core"]
Bases(f) == IF f = "links" THEN {BaseLinks}
            ELSE IF f = "group" THEN {BaseGroup}
            ELSE IF f = "duct" THEN {BaseDuct}
            ELSE IF f = "comp" THEN {BaseComp}
            ELSE IF f = "stack" THEN {BaseStack}
            ELSE IF f = "pins" THEN {BasePins}
            ELSE {BaseCore(gd[1], gd[2]) : gd \in CoreDesigns} \cup {MapVariant(BaseCore(gd[1], gd[2])) : gd \in MapDesigns}

Init == /\ fam \in Families
        /\ doc \in Bases(fam)
        /\ act = [n |-> "Init"]
        /\ depth = 0

Place(x, s) ==
    /\ fam = "core" /\ x \in CoreUniverse(doc.grids[1]) /\ s \in {"A", "B", "Z"}
    /\ LET gr == doc.grids[1]
           f  == CellsOf(gr)
           S  == DOMAIN f \cup {x}
           g2 == [c \in S |-> IF c = x THEN s ELSE f[c]] IN
       /\ IF x \in DOMAIN f THEN f[x] # s ELSE TRUE
       /\ gr.mode = "map" => Mappable(gr, g2)
       /\ doc' = [doc EXCEPT !.grids[1].cells = ContentsSeq(g2),
                             !.grids[1].text = IF gr.mode = "map" THEN Redraw(gr, g2) ELSE <<>>]
    /\ act' = [n |-> "Place", x |-> x, s |-> s]
Unplace(x) ==
    /\ fam = "core"
    /\ LET gr == doc.grids[1]
           f  == CellsOf(gr)
           S  == DOMAIN f \ {x}
           g2 == [c \in S |-> f[c]] IN
       /\ x \in DOMAIN f /\ S # {}
       /\ gr.mode = "map" => Mappable(gr, g2)
       /\ doc' = [doc EXCEPT !.grids[1].cells = ContentsSeq(g2),
                             !.grids[1].text = IF gr.mode = "map" THEN Redraw(gr, g2) ELSE <<>>]
    /\ act' = [n |-> "Unplace", x |-> x]
AsMap ==
    /\ fam = "core" /\ doc.grids[1].mode = "cells" /\ doc.grids[1].geom # "thetarz"
    /\ LET gr == doc.grids[1]  f == CellsOf(gr) IN
       /\ Mappable(gr, f)
       /\ doc' = [doc EXCEPT !.grids[1].mode = "map", !.grids[1].text = Redraw(gr, f)]
    /\ act' = [n |-> "AsMap"]
DupGrid ==                                                   \* two grids of one name
    /\ fam = "core" /\ ~HasDup(NamesOf(doc.grids))
    /\ doc' = [doc EXCEPT !.grids = Append(@, CellsGrid("core", doc.grids[1].geom, doc.grids[1].dom, << <<0, 0, "B">> >>))]
    /\ act' = [n |-> "DupGrid"]
ListTwice ==                                                 \* the same cell listed twice in an explicit list
    /\ fam = "core" /\ doc.grids[1].mode = "cells" /\ ~ListedTwice(doc.grids[1])
    /\ doc' = [doc EXCEPT !.grids[1].cells = Append(@, <<@[1][1], @[1][2], "B">>)]
    /\ act' = [n |-> "ListTwice"]

Edit ==
    \/ \E cn \in PinNames, d \in {"od", "id", "mult"}, tn \in PinNames, td \in {"od", "id", "mult"} : SetLink(cn, d, tn, td)
    \/ \E cn \in PinNames, d \in {"od", "id", "mult"}, v \in {1, 19, 20, 50, 56, 70, 110, 120, 2000} : SetNum(cn, d, v)
    \/ \E mat \in {"Sodium", "Void"} : AddBond(mat)
    \/ \E cn \in PinNames : DropComp(cn)
    \/ \E k \in 1..2 : SwapComps(k)
    \/ \E cn \in PinNames, new \in PinNames : RenameComp(cn, new)
    \/ \E cn \in PinNames : SetShape(cn)
    \/ \E cn \in PinNames : SetTemps(cn)
    \/ \E b \in 1..2, cn \in {"fuel", "clad"}, iso \in IsoNames, mat \in FuelMats \cup {"HT9"} : SetIsotopics(b, cn, iso, mat)
    \/ \E scope \in {"", "fuel"}, key \in {"U235_wt_frac", "ZR_wt_frac"}, vals \in ModLists : SetMod(scope, key, vals)
    \/ \E v1 \in ModLists, v2 \in ModLists : SetModPair(v1, v2)
    \/ \E w \in {<<1, 5>>, <<1, 1>>}, f1 \in {"pufeed", "leu"}, f2 \in {"depu", "leu"} : SetBlend(w, f1, f2)
    \/ \E m \in 1..4 : ShortMod(m) \/ LongMod(m)
    \/ DupIsotopics
    \/ \E a \in 1..2, k \in 1..2 : SwapBlocks(a, k)
    \/ \E a \in 1..2, which \in {"height", "mesh", "xs"}, k \in 1..2 : SwapList(a, which, k)
    \/ \E a \in 1..2, which \in {"height", "mesh", "xs", "blocks"} : Shorten(a, which)
    \/ \E a \in 1..2, which \in {"height", "mesh", "xs"} : Lengthen(a, which)
    \/ \E a \in 1..2, s \in {"A", "B", "Z"} : Respecify(a, s)
    \/ \E a \in 1..2, name \in {<<"fuel", "a">>, <<"inner", "test", "fuel">>} : RenameAsm(a, name)
    \/ \E b \in 1..3, name \in {<<"fuel">>, <<"outer", "reflector">>} : RenameBlock(b, name)
    \/ \E a \in 1..2, k \in 1..3, h \in {20, 25, 50} : SetHeight(a, k, h)
    \/ \E a \in 1..2, k \in 1..2, x \in {"a", "B", "aB", "AB"} : SetXs(a, k, x)
    \/ \E x \in {<<0, 0>>, <<1, 0>>, <<0, 1>>}, s \in {"A", "B"} : PlaceStack(x, s)
    \/ \E x \in PinUniverse, id \in {"1", "2", "9"} : PlacePin(x, id)
    \/ \E mode \in {"map", "cells"}, geom \in {"hex_corners_up", "hex"} : PinMode(mode, geom)
    \/ \E cn \in {"fuel", "guide"}, m \in {1, 2, 3} : PinMult(cn, m)
    \/ \E cn \in {"guide", "clad"}, ids \in {<<"1", "2">>, <<>>} : PinIds(cn, ids)
    \/ \E gn \in {"pin", "core"} : PinGridName(gn)
    \/ \E cn \in {"inner duct", "outer duct", "wire"}, d \in {"ip", "od"}, v \in {5, 20, 480, 495, 505, 535} : DuctEdit(cn, d, v)
    \/ \E j \in 1..2, m \in {1, 12, 25} : MemberMult(j, m)
    \/ \E j \in 1..2, m \in {1, 7, 30} : GroupMult(j, m)
    \/ \E gn \in {"pebbles"} : GroupName(gn)
    \/ \E m \in {7, 37} : PinCount(m)
    \/ SwapDucts
    \/ \E cn \in {"inner duct", "outer duct"} : DropDuct(cn)
    \/ \E x \in (-2..2) \X (-2..2), s \in {"A", "B", "Z"} : Place(x, s)
    \/ \E x \in (-2..2) \X (-2..2) : Unplace(x)
    \/ AsMap
    \/ DupGrid
    \/ ListTwice
Next == depth < MaxLevel(fam) /\ Edit /\ fam' = fam /\ depth' = depth + 1
Spec == Init /\ [][Next]_<<vars, act, depth>>

(* ============================================ properties ============================================ *)
V == Verdict(doc)
Ok == Modelled(doc) /\ V = "ok"      \* TLC evaluates invariants also on states the constraint prunes
TypeOK == /\ fam \in Families
          /\ \A b \in 1..Len(doc.blocks) : \A c \in 1..Len(doc.blocks[b].comps) :
                 DOMAIN doc.blocks[b].comps[c].dims = DimsOfShape[doc.blocks[b].comps[c].shape]
\* a well-formed document has exactly one reading: every name it uses resolves to one thing
OkIsUnambiguous == Ok =>
    /\ \A x \in DOMAIN CoreCells(doc) : Cardinality(AsmWithSpec(doc, CoreCells(doc)[x])) = 1
    /\ \A b \in BlocksUsed(doc) : \A c \in 1..Len(doc.blocks[b].comps) :
           /\ Cardinality(CompIdx(doc.blocks[b], doc.blocks[b].comps[c].name)) = 1
           /\ \A d \in DOMAIN doc.blocks[b].comps[c].dims \ {"mult"} : Res(doc.blocks[b], doc.blocks[b].comps[c].name, d) >= 0
\* ... its solid components have non-negative area and fit into the block; multiplicities are positive counts
OkIsPhysical == Ok => \A b \in BlocksUsed(doc) : LET B == doc.blocks[b] IN
    /\ CertainlyFits(B)
    /\ PinRuleApplies(B) => CertainlyInsideDuct(B)
    /\ \A c \in 1..Len(B.comps) : (Solid(B.comps[c].mat) => ~NegativeArea(B, B.comps[c]))
    /\ \A c \in 1..Len(B.comps) : ("mult" \in DOMAIN B.comps[c].dims => MultOf(doc, B, B.comps[c]) >= 1)
\* ... every assembly design is a stack: one height, mesh count and xs type per block, elevations add up
OkIsStacked == Ok => \A s \in PlacedSpecs(doc) : LET e == ExpAsm(doc, AsmOfSpec(doc, s)) IN
    /\ e.blocks[1].zbot = 0
    /\ \A k \in 1..Len(e.blocks) : e.blocks[k].ztop = e.blocks[k].zbot + e.blocks[k].height /\ e.blocks[k].height > 0
    /\ \A k \in 2..Len(e.blocks) : e.blocks[k].zbot = e.blocks[k - 1].ztop
    /\ e.blocks[Len(e.blocks)].ztop \in Rng(Expected(doc).mesh)
\* ... a lattice map and the explicit list of the same design describe the same core (text maps and lists alike)
MapAndListAgree == (Ok /\ CoreGrid(doc).mode = "map") =>
    CellsOf([CoreGrid(doc) EXCEPT !.mode = "cells"]) = CoreCells(doc)
\* ... every cell of a pin lattice that carries an id of a component is one of that component's cells, once
PinsPartition == Ok => \A b \in BlocksUsed(doc) : LET B == doc.blocks[b] IN
    \A c \in 1..Len(B.comps) : PinCells(doc, B, B.comps[c]) # {} => MultOf(doc, B, B.comps[c]) = Cardinality(PinCells(doc, B, B.comps[c]))
\* the four inconsistencies of the statement are told apart from well-formed documents by the reading alone
Refusals == {"DuplicateName", "UnequalLists", "UnknownSpecifier", "Overlap", "MultConflict", "InvalidModification", "NonUniformMesh", "OutsideDomain"}
VerdictTotal == V \in Refusals \cup {"ok"}
=====================================================================================================
