\* emission (workers 1): one JSON line per document (abstract text, verdict, expected reactor)
CONSTANT MaxLevel <- EmitDepth
CONSTANT Families = {"links", "comp", "stack", "pins", "core", "duct", "group"}
INVARIANT EmitState
INIT Init
NEXT Next
CONSTRAINT Bound
VIEW View
INVARIANT TypeOK
INVARIANT VerdictTotal
INVARIANT OkIsUnambiguous
INVARIANT OkIsPhysical
INVARIANT OkIsStacked
INVARIANT MapAndListAgree
INVARIANT PinsPartition
CHECK_DEADLOCK FALSE
