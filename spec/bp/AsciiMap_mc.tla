------------------------------------------- MODULE AsciiMap_mc -------------------------------------------
(* C18 -- bounds and emission for AsciiMap.tla.  Case = one (map class, contents) with both canonical texts and the grid
   contents every grid design using this map class must read from the padded text.  The emission configurations carry
   every invariant: in the quick tier they are the exhaustive run (AsciiMap_mc_thorough.cfg is a larger one).        *)
EXTENDS AsciiMap
CONSTANT MaxLevel
Bound == TLCGet("level") <= MaxLevel
View == vars
Designs(gg) == IF gg = "cart" THEN {<<"cartesian", "full">>, <<"cartesian", "quarter">>}
               ELSE IF gg = "third" THEN {<<"hex", "third">>, <<"hex_corners_up", "third">>}
               ELSE IF gg = "fullflat" THEN {<<"hex", "full">>} ELSE {<<"hex_corners_up", "full">>}
Case == [g |-> g, wide |-> wide, dense |-> dense, complete |-> (S = Universe(g)),
         S |-> ContentsSeq(Contents), tp |-> Tp, tt |-> Tt,
         gc |-> SetToSeq({[geom |-> d[1], dom |-> d[2], cells |-> ContentsSeq(GridContents(d[1], d[2], Tp))] : d \in Designs(g)})]
EmitState == S = {} \/ PrintT(ToJson(Case))
=====================================================================================================
