------------------------------------------- MODULE AsciiMap_mc -------------------------------------------
EXTENDS AsciiMap
CONSTANT MaxLevel
Bound == TLCGet("level") <= MaxLevel
View == vars
Designs(gg) == IF gg = "cart" THEN {<<"cartesian", "full">>, <<"cartesian", "quarter">>}
               ELSE IF gg = "third" THEN {<<"hex", "third">>, <<"hex_corners_up", "third">>}
               ELSE IF gg = "fullflat" THEN {<<"hex", "full">>} ELSE {<<"hex_corners_up", "full">>}
Case == [g |-> g, wide |-> wide, dense |-> dense, complete |-> (S = Universe(g)),
         S |-> ContentsSeq(Contents), tp |-> Tp, tt |-> Tt,
         gc |-> SetToSeq({[geom |-> d[1], dom |-> d[2], cells |-> ContentsSeq(GridContents(d[1], d[2], Tp))] : d \in Designs(g)})]
EmitState == S = {} \/ PrintT(ToJson(Case))
=====================================================================================================
