\* exhaustive, thorough: all documents within ThoroughDepth(family) edits of the base documents
CONSTANT MaxLevel <- ThoroughDepth
CONSTANT Families = {"links", "comp", "stack", "pins", "core", "duct", "group"}
INIT Init
NEXT Next
CONSTRAINT Bound
VIEW View
INVARIANT TypeOK
INVARIANT VerdictTotal
INVARIANT OkIsUnambiguous
INVARIANT OkIsPhysical
INVARIANT OkIsStacked
INVARIANT MapAndListAgree
INVARIANT PinsPartition
CHECK_DEADLOCK FALSE
