------------------------------------------ MODULE AsciiMap_trace ------------------------------------------
(* code -> spec.  One record per call of a real WRITER:
     {"id":..., "k":"write", "g": map class, "cells": [[i,j,label]..], "refused": bool, "lines": [[token..]..]}
         asciimaps.<Class>.gridContentsToAscii + writeAscii on the given contents
     {"id":..., "k":"save", "geom":..., "dom":..., "cells": [...], "refused": bool, "lines": [...]}
         gridBlueprint.saveToStream(tryMap=True) of a grid design holding the contents; "refused" = the design was
         saved with a `grid contents:` dictionary instead of a map (the harness compares that dictionary itself)
   The writer is specified as:  it refuses, or it produces ANY text that denotes exactly the given contents.
   TLC evaluates Read / GridContents on the lines the real code produced; a record is accepted iff that holds. *)
EXTENDS AsciiMapDefs, Json, IOUtils, TLCExt
Traces == ndJsonDeserialize(IOEnv.TRACE_FILE)
NT     == Len(Traces)
VARIABLES tid, l
ASSUME \A t \in 1..NT : TLCSet(t, 0)
TInit == tid \in 1..NT /\ l = 1
Ev == Traces[tid]
Given(ev) == LET cs == {ev.cells[k] : k \in 1..Len(ev.cells)}
             IN [c \in {<<x[1], x[2]>> : x \in cs} |-> (CHOOSE x \in cs : <<x[1], x[2]>> = c)[3]]
Denotes(ev) == IF ev.k = "write"
               THEN IF Readable(ev.g, ev.lines) THEN Read(ev.g, ev.lines) ELSE [c \in {} |-> ""]
               ELSE IF Readable(MapClassOf(ev.geom, ev.dom), ev.lines) THEN GridContents(ev.geom, ev.dom, ev.lines) ELSE [c \in {} |-> ""]
WriteOK(ev) == ev.refused \/ Denotes(ev) = Given(ev)
Check == \/ WriteOK(Ev)
         \/ /\ ~WriteOK(Ev)
            /\ PrintT(ToJson([mismatch |-> Ev.id, given |-> ContentsSeq(Given(Ev)), denotes |-> ContentsSeq(Denotes(Ev))]))
            /\ FALSE
TNext == l = 1 /\ l' = 2 /\ tid' = tid /\ Check
TSpec == TInit /\ [][TNext]_<<tid, l>>
Progress == IF TLCGet(tid) < l THEN TLCSet(tid, l) ELSE TRUE
Report == LET bad == {t \in 1..NT : TLCGet(t) # 2} IN
          /\ \A t \in bad : PrintT(ToJson([rejected |-> Traces[t].id, matched |-> TLCGet(t) - 1]))
          /\ PrintT(ToJson([accepted |-> NT - Cardinality(bad), of |-> NT]))
=====================================================================================================
