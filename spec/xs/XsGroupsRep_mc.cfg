\* exhaustive (quick): every collection of up to 2 (tri: 3) members of the small domains, every option; all laws
CONSTANTS CompArea <- McCompArea  Holds <- McHolds  NNuc = 4  AW <- McAW  Families <- Fams  OptsOf <- OptsFor  NameRev = FALSE
  DomOf <- DomMcQ  MaxOf <- MaxMcQ
INIT Init
NEXT Next
VIEW View
INVARIANT TypeOK
INVARIANT EligibleOnly
INVARIANT BetweenMinMax
INVARIANT CommonValue
INVARIANT DuplicationInvariant
INVARIANT RescalingInvariant
INVARIANT WeightIsFluxTimesVolume
INVARIANT ByComponentAgreesWithBlockLevel
INVARIANT BurnupIgnoresVolume
INVARIANT MedianIsEligibleMember
INVARIANT MedianIsMiddle
INVARIANT CylinderSourceIsMiddle
INVARIANT StorageOrderIrrelevant
INVARIANT TemperaturesAgree
INVARIANT OutcomeRule
PROPERTY CreateLeavesMembers
CHECK_DEADLOCK FALSE
