\* exhaustive: every history of up to 5 manager/environment actions from every initial state of the six scenarios
CONSTANTS CompArea <- McCompArea  Holds <- McHolds  NNuc = 4  AW <- McAW  NameRev = FALSE  TempNuc = 2
  Scenarios <- McScenarios  ScnOf <- McScnOf  MaxLevel = 6
INIT Init
NEXT Next
CONSTRAINT Bound
VIEW View
INVARIANT TypeOK
INVARIANT Partition
INVARIANT KeyDetermines
INVARIANT EnvironmentRule
INVARIANT RepsFromEligibleOnly
INVARIANT GroupsAccounted
INVARIANT RelabelRule
INVARIANT ExistingBlocksRule
PROPERTY NeighboursIrrelevant
PROPERTY RefreshIsEnvOf
PROPERTY BlocksUntouched
PROPERTY DisabledFreezes
PROPERTY RefusalKeepsReps
CHECK_DEADLOCK FALSE
