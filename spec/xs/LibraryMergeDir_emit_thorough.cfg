\* spec -> code: every edge printed and executed on real files and libraries
CONSTANTS NSrc = 7  NLab = 8  Fissile = {1, 2, 4}  MaxLevel = 5  SrcList = {}
CONSTANT DirScen <- ScenThorough
ACTION_CONSTRAINT Emit
CONSTANT IdOf <- IdOf8
INIT DInit
NEXT DNext
CONSTRAINT Bound
VIEW View
CHECK_DEADLOCK FALSE
