---------------------------------------- MODULE LibraryMergeDir ----------------------------------------
(* C10 -- the file-based realisation of a merge history: xsLibraries.mergeXSLibrariesInWorkingDirectory(lib, suffix,
   mergeGammaLibs, alternateDirectory).  Same abstract libraries, conflicts and Merged() as LibraryMerge; what is new is the
   ACTION: the function decides which files to read and in which order the libraries read from them are merged into `lib`.

   The directory holds, per cross-section id (in the order of the sorted ISOxx file names), an ISOTXS file ISOxx and the
   gamma files xx.gamiso / xx.pmatrx; dir[k] = [n, g, p: the sources stored in those files, dl: the label of that id's DUMMY
   nuclide (0 = dummies not modelled in this scenario), has: the ISOxx file contains it].
   Library 0 is the user's library; libraries 1..NSrc are the same files read into memory by the user (lib i as read from
   the file of source i in the directory, or from elsewhere for sources that are not in the directory), which the user may
   merge into library 0 before or after calling the function.

   MergeDir(gam), transcribed from the function
     1. an id is SKIPPED when its ISOxx path is already listed in lib.isotxsMetadata.fileNames ("data already exists in
        the library") -- with its gamma files; the test is made on the library as it is when the function is entered;
     2. every other id, in file-name order, contributes the ISOTXS library and, if mergeGammaLibs, its GAMISO and PMATRX
        libraries;
     3. dummy nuclides (nuclideBases.DummyNuclideBase, e.g. DUMP1): the dummies of the first ISOTXS file read that has some
        become the reference; an ISOTXS file without dummies that is read AFTER a reference exists gets that id's dummy
        added (neutron data synthesised from the reference: value DummyN); GAMISO / PMATRX libraries get a placeholder entry
        (DummyPh) for the dummy of their id whenever dummies are known for that id (its own ISOTXS file's, else the
        reference's).  "Convention is for fuel XS id to come first alphabetically": an id read before any reference exists
        gets nothing;
     4. the libraries are merged into lib one after the other; the first conflict raises (MergeDirRefused: the libraries
        before it are already merged -- the function is a plain loop of merges and promises no atomicity, so only the
        refusal itself is compared, not the state of the library after it).

   Interpretation: "exactly the union of their nuclides, each with neutron, gamma and production data ... identical to its
   source" is stated as DirUnion over the non-dummy labels (the dummies are the function's own placeholders).
*)
EXTENDS LibraryMerge

CONSTANT DirScen       \* sequence of scenarios [src |-> <<descriptors>>, dir |-> <<entries>>]
VARIABLES dir
dvars == <<src, lib, dir>>

DummyN  == 0 - 3       \* neutron data of a dummy nuclide synthesised from the reference dummy
DummyPh == 0 - 4       \* placeholder gamma / production entry of a dummy nuclide

DInit ==
    /\ \E k \in 1..Len(DirScen) :
          /\ src = [s \in Srcs |-> DirScen[k].src[s]]
          /\ dir = DirScen[k].dir
    /\ lib = [i \in LibIx |-> IF i = 0 THEN EmptyLib ELSE LibOf(src[i], i)]
    /\ err = "" /\ act = [n |-> "Init"]

ToRead          == SelectSeq(dir, LAMBDA e : e.n \notin lib[0].files["n"])
HasRefBefore(k) == \E j \in 1..(k - 1) : ToRead[j].has
Dum(k)          == ToRead[k].has \/ HasRefBefore(k)
NLibOf(k) == LET e == ToRead[k]  base == LibOf(src[e.n], e.n) IN
             IF ~e.has /\ HasRefBefore(k) /\ e.dl # 0 THEN [base EXCEPT !.nucs[e.dl].n = DummyN] ELSE base
GLibOf(k) == LET e == ToRead[k]  base == LibOf(src[e.g], e.g) IN
             IF Dum(k) /\ e.dl # 0 /\ e.dl \notin src[e.g].labs THEN [base EXCEPT !.nucs[e.dl].g = DummyPh] ELSE base
PLibOf(k) == LET e == ToRead[k]  base == LibOf(src[e.p], e.p) IN
             IF Dum(k) /\ e.dl # 0 /\ e.dl \notin src[e.p].labs THEN [base EXCEPT !.nucs[e.dl].p = DummyPh] ELSE base
Batch(gam) == FoldLeft(LAMBDA acc, k : acc \o <<NLibOf(k)>> \o (IF gam THEN <<GLibOf(k), PLibOf(k)>> ELSE <<>>),
                       <<>>, [k \in 1..Len(ToRead) |-> k])
MStep(acc, X) == IF acc.err # "" THEN acc
                 ELSE LET c == Conflict(acc.L, X) IN
                      IF c # "" THEN [acc EXCEPT !.err = c] ELSE [acc EXCEPT !.L = Merged(acc.L, X)]
Res(gam) == FoldLeft(MStep, [L |-> lib[0], err |-> ""], Batch(gam))

MergeDir(gam) ==
    /\ lib[0].alive
    /\ LET r == Res(gam) IN
       IF r.err = ""
       THEN /\ lib' = [lib EXCEPT ![0] = r.L]
            /\ UNCHANGED <<src, dir>>
            /\ Ok([n |-> "MergeDir", gam |-> gam])
       ELSE /\ UNCHANGED dvars
            /\ err' = r.err /\ act' = [n |-> "MergeDirRefused", gam |-> gam]

\* the user's own merges into library 0 (the files read by hand)
UserMerge(o) == (Merge(0, o) \/ MergeRefused(0, o)) /\ UNCHANGED dir

DNext == (\E o \in Srcs : UserMerge(o)) \/ (\E gam \in BOOLEAN : MergeDir(gam))
DSpec == DInit /\ [][DNext]_<<dvars, err, act>>

(* ---------- properties ---------- *)
DummyLabels == {dir[k].dl : k \in 1..Len(dir)} \ {0}
StripD(L) == [x \in DOMAIN L \ {"vel"} |->
                 IF x = "nucs" THEN [l \in Labels |-> IF l \in DummyLabels THEN NoNuc ELSE L.nucs[l]] ELSE L[x]]
\* whatever mixture of hand-made merges and directory merges: the non-dummy content is the union of the sources merged in
DirUnion == \A i \in LibIx : lib[i].alive => StripD(lib[i]) = StripD(UnionOf(From(lib[i])))
\* a successful directory merge leaves no id of the directory unread: every ISOxx source is in the library afterwards
DirComplete == [][act'.n = "MergeDir" => \A k \in 1..Len(dir) : dir[k].n \in lib'[0].files["n"]]_<<dvars, err, act>>
\* with mergeGammaLibs every id that was read brings its gamma and production data along
DirGammaComplete == [][(act'.n = "MergeDir" /\ act'.gam) =>
                         \A k \in 1..Len(dir) : dir[k].n \notin lib[0].files["n"] =>
                              dir[k].g \in lib'[0].files["g"] /\ dir[k].p \in lib'[0].files["p"]]_<<dvars, err, act>>
DRefusalsChangeNothing == [][err' # "" => UNCHANGED dvars]_<<dvars, err, act>>

DVars == [src |-> [s \in Srcs |-> SrcJson(src[s])], lib |-> Obs.libs, dir |-> dir]
=====================================================================================================
