---------------------------------------- MODULE XsGroupsLabels ----------------------------------------
(* C20, clause "every admissible type label converts to its numeric identifier and back without collision"
   (plus the environment-group letter <-> number codec that the group key xsType + envGroup is built from).

   Code transcribed
     armi/physics/neutronics/crossSectionGroupManager.py
        _ALLOWABLE_XS_TYPE_LIST          = ascii_uppercase + ascii_lowercase            -> Alphabet (52 letters)
        getXSTypeNumberFromLabel(label)  = int("".join("{:02d}".format(ord(c)) for c in label))   -> Num
        getXSTypeLabelFromNumber(number)                                                 -> Back (its specification)
     armi/reactor/blockParameters.py   setters of xsType/xsTypeNum (call the two functions above; the database stores
        xsTypeNum and restores xsType from it) and of envGroup/envGroupNum                -> EnvLetter / EnvNum
     armi/reactor/blocks.py Block.getMicroSuffix: "The single-letter use for xsType and envGroup limit users to 52
        groups of each. ARMI will allow 2-letter xsType designations if and only if the envGroup setting has length 1"

   Admissible labels (interpretation, fixed by the documentation quoted above and by _ALLOWABLE_XS_TYPE_LIST, which
   getNextAvailableXsTypes hands out): every single letter A-Z a-z (52) and every pair of such letters (52*52).

   The numeric identifier is the decimal concatenation of the character codes ('A' -> 65, 'AA' -> 6565, 'a' -> 97,
   'z' -> 122, 'Az' -> 65122).  A state of this module is one label; the laws are invariants, Case is what the real
   functions must return.  Back is *defined* as the inverse of Num on the admissible labels (CHOOSE), which is
   well-defined exactly when NoCollision holds; the specification does not prescribe how to parse the digits.
*)
EXTENDS Integers, Sequences, FiniteSets, TLC, Json, XsGroupsDefs

CONSTANTS Letters          \* subset of 1..52 used for the *second* letter of pairs and for the single letters (cfg)

Pow10Digits(c) == IF c < 100 THEN 100 ELSE 1000           \* "{:02d}": two digits, three for codes >= 100

\* a label is a sequence of 1 or 2 alphabet indices
Labels == {<<i>> : i \in Letters} \cup {<<i, j>> : i \in Letters, j \in Letters}
Text(l) == IF Len(l) = 1 THEN Alphabet[l[1]] ELSE Alphabet[l[1]] \o Alphabet[l[2]]
Num(l)  == IF Len(l) = 1 THEN Code(l[1]) ELSE Code(l[1]) * Pow10Digits(Code(l[2])) + Code(l[2])
Back(n) == CHOOSE l \in Labels : Num(l) = n

VARIABLES label
vars == <<label>>
Init == label \in Labels
Next == UNCHANGED vars
Spec == Init /\ [][Next]_vars

(* ---------- laws ---------- *)
TypeOK      == label \in Labels
\* no two admissible labels share a number (a constant-level fact: TLC evaluates NumSet once)
NumSet      == {Num(m) : m \in Labels}
NoCollision == Cardinality(NumSet) = Cardinality(Labels)
\* ... so the decoder is a function on NumSet, and decoding the number of a label gives the label back
RoundTrip   == Num(label) \in NumSet /\ Back(Num(label)) = label
\* the number is what the documentation shows: single capital letters are their ASCII code, 'AA' is 6565
DocExamples == /\ (label = <<1>>    => Num(label) = 65)
               /\ (label = <<1, 1>> => Num(label) = 6565)
               /\ (Len(label) = 1 => Num(label) \in 65..122)

(* ---------- environment group number <-> letter (blockParameters envGroup / envGroupNum setters) ---------- *)
EnvCodecInverse == \A n \in EnvNums : EnvNumOfIdx(EnvLetterIdx(n)) = n
EnvCodecInjective == \A n, m \in EnvNums : EnvLetter(n) = EnvLetter(m) => n = m

\* what the real functions must return: the number, and from the number the label again (= Text(Back(Num(label))) by RoundTrip)
Case == [label |-> Text(label), num |-> Num(label), back |-> Text(label)]
EnvCase(n) == [env |-> n, letter |-> EnvLetter(n)]
=====================================================================================================
