\* exhaustive: the user's library after <= 4 calls (own merges of the files read by hand and directory merges, in any order)
CONSTANTS NSrc = 7  NLab = 8  Fissile = {1, 2, 4}  MaxLevel = 5  SrcList = {}
CONSTANT DirScen <- ScenThorough
CONSTANT IdOf <- IdOf8
INIT DInit
NEXT DNext
CONSTRAINT Bound
VIEW View
INVARIANT TypeOK
INVARIANT DirUnion
INVARIANT VelocityKept
INVARIANT NoSilentCombine
PROPERTY DirComplete
PROPERTY DirGammaComplete
PROPERTY DRefusalsChangeNothing
CHECK_DEADLOCK FALSE
