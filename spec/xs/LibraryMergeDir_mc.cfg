\* exhaustive: the user's library after <= 3 calls (own merges of the files read by hand and directory merges, in any order)
CONSTANTS NSrc = 7  NLab = 8  Fissile = {1, 2, 4}  MaxLevel = 4  SrcList = {}
CONSTANT DirScen <- ScenQuick
CONSTANT IdOf <- IdOf8
INIT DInit
NEXT DNext
CONSTRAINT Bound
VIEW View
INVARIANT TypeOK
INVARIANT DirUnion
INVARIANT VelocityKept
INVARIANT NoSilentCombine
PROPERTY DirComplete
PROPERTY DirGammaComplete
PROPERTY DRefusalsChangeNothing
CHECK_DEADLOCK FALSE
