\* quick: every history of up to 3 actions from every initial state of the six scenarios; one printed line per explored edge (behaviour + observation); all laws
CONSTANTS CompArea <- McCompArea  Holds <- McHolds  NNuc = 4  AW <- McAW  NameRev = FALSE  TempNuc = 2
  Scenarios <- McScenarios  ScnOf <- McScnOf  MaxLevel = 4
INIT Init
NEXT Next
CONSTRAINT Bound
VIEW View
ACTION_CONSTRAINT Emit
INVARIANT EmitScn
INVARIANT TypeOK
INVARIANT Partition
INVARIANT KeyDetermines
INVARIANT EnvironmentRule
INVARIANT RepsFromEligibleOnly
INVARIANT GroupsAccounted
INVARIANT RelabelRule
INVARIANT ExistingBlocksRule
PROPERTY NeighboursIrrelevant
PROPERTY RefreshIsEnvOf
PROPERTY BlocksUntouched
PROPERTY DisabledFreezes
PROPERTY RefusalKeepsReps
CHECK_DEADLOCK FALSE
