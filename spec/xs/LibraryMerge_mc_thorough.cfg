\* exhaustive: every multiset of 3 sources out of the thorough list, every merge order, refusals included
CONSTANTS NSrc = 3  NLab = 3  Fissile = {1, 2}  MaxLevel = 6
CONSTANT SrcList <- ListThorough
CONSTANT IdOf <- IdOf3
INIT Init
NEXT Next
CONSTRAINT Bound
VIEW View
INVARIANT TypeOK
INVARIANT MergedIsUnion
INVARIANT LabelsAreUnion
INVARIANT VelocityKept
INVARIANT NoSilentCombine
INVARIANT SourcesPartitioned
PROPERTY RefusalsChangeNothing
PROPERTY RefusalJustified
CHECK_DEADLOCK FALSE
