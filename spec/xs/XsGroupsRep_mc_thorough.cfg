\* exhaustive (thorough): medium domains, names descending
CONSTANTS CompArea <- McCompArea  Holds <- McHolds  NNuc = 4  AW <- McAW  Families <- Fams  OptsOf <- OptsFor  NameRev = TRUE
  DomOf <- DomMcT  MaxOf <- MaxMcT
INIT Init
NEXT Next
VIEW View
INVARIANT TypeOK
INVARIANT EligibleOnly
INVARIANT BetweenMinMax
INVARIANT CommonValue
INVARIANT DuplicationInvariant
INVARIANT RescalingInvariant
INVARIANT WeightIsFluxTimesVolume
INVARIANT ByComponentAgreesWithBlockLevel
INVARIANT BurnupIgnoresVolume
INVARIANT MedianIsEligibleMember
INVARIANT MedianIsMiddle
INVARIANT CylinderSourceIsMiddle
INVARIANT StorageOrderIrrelevant
INVARIANT TemperaturesAgree
INVARIANT OutcomeRule
PROPERTY CreateLeavesMembers
CHECK_DEADLOCK FALSE
