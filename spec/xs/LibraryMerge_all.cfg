\* exhaustive only: every multiset of 3 sources out of ALL well-formed descriptors over 2 labels x 2 structures per
\* radiation x file-wide chi x dose factors (42 descriptors, 13 244 scenarios), every merge order
CONSTANTS NSrc = 3  NLab = 2  Fissile = {1}  MaxLevel = 6
CONSTANT SrcList <- ListAll
CONSTANT IdOf <- IdOf2
INIT Init
NEXT Next
CONSTRAINT Bound
VIEW View
INVARIANT TypeOK
INVARIANT MergedIsUnion
INVARIANT LabelsAreUnion
INVARIANT VelocityKept
INVARIANT NoSilentCombine
INVARIANT SourcesPartitioned
PROPERTY RefusalsChangeNothing
PROPERTY RefusalJustified
CHECK_DEADLOCK FALSE
