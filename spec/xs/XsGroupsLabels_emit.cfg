\* one run for the quick tier: the laws on every admissible label and one printed case per label,
\* plus the 52 environment-group letters
CONSTANTS Letters <- AllLetters
INIT Init
NEXT Next
INVARIANT TypeOK
INVARIANT NoCollision
INVARIANT RoundTrip
INVARIANT DocExamples
INVARIANT EnvCodecInverse
INVARIANT EnvCodecInjective
INVARIANT EmitCase
INVARIANT EmitEnv
CHECK_DEADLOCK FALSE
