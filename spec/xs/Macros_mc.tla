------------------------------------------- MODULE Macros_mc -------------------------------------------
(* Bounded instances of Macros: density domains, table / case emission. *)
EXTENDS Macros
DensQuick    == <<RZero, RFrac(1, 2), RInt(2)>>
DensThorough == <<RZero, RFrac(1, 2), RInt(1), RFrac(1, 3), RFrac(5, 4)>>
PairQuick    == <<RZero, RInt(2)>>
EmitCase == Complete => PrintT(ToJson([case |-> CaseJson]))
\* the micro tables, printed once (the harness builds the real libraries from them)
ASSUME \A v \in Variants : PrintT(ToJson(TableJson(v)))
=====================================================================================================
