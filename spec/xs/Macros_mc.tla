------------------------------------------- MODULE Macros_mc -------------------------------------------
(* Bounded instances of Macros: density domains, table / case emission. *)
EXTENDS Macros
DensQuick    == <<RZero, RFrac(1, 2), RInt(2)>>
DensThorough == <<RZero, RFrac(1, 2), RInt(1), RFrac(1, 3), RFrac(5, 4)>>
\* second operands of AdditiveOverCompositions: two fixed compositions (quick), sixteen with non-dyadic densities (thorough)
PairQuick    == {[n \in Nuc |-> RInt(1)], [n \in Nuc |-> IF n % 2 = 1 THEN RInt(2) ELSE RFrac(1, 2)]}
PairThorough == [Nuc -> {RFrac(1, 3), RFrac(5, 4)}]
DensMcThorough == <<RZero, RFrac(1, 2), RFrac(1, 3), RFrac(5, 4)>>
EmitCase == Complete => PrintT(ToJson([case |-> CaseJson]))
\* the micro tables, printed once (the harness builds the real libraries from them)
ASSUME \A v \in Variants : PrintT(ToJson(TableJson(v)))
=====================================================================================================
