CONSTANTS CompArea <- McCompArea  Holds <- McHolds  NNuc = 4  AW <- McAW  NameRev = FALSE  TempNuc = 2
  Scenarios <- McScenarios  ScnOf <- McScnOf  MaxLevel = 999
SPECIFICATION TSpec
CONSTRAINT Progress
POSTCONDITION Report
INVARIANT TypeOK
INVARIANT Partition
INVARIANT KeyDetermines
INVARIANT EnvironmentRule
INVARIANT GroupsAccounted
INVARIANT RelabelRule
INVARIANT ExistingBlocksRule
CHECK_DEADLOCK FALSE
