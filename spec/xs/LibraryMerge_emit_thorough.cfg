\* spec -> code: every edge of the thorough instance is printed and executed on real libraries
CONSTANTS NSrc = 3  NLab = 3  Fissile = {1, 2}  MaxLevel = 6
CONSTANT SrcList <- ListThorough
ACTION_CONSTRAINT Emit
CONSTANT IdOf <- IdOf3
INIT Init
NEXT Next
CONSTRAINT Bound
VIEW View
CHECK_DEADLOCK FALSE
