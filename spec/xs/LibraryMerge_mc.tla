---------------------------------------- MODULE LibraryMerge_mc ----------------------------------------
(* Bounded instances of LibraryMerge: scenario lists, state constraint, edge / state emission. *)
EXTENDS LibraryMerge

N(labs, ngs, meta, fw)     == [kind |-> "n", labs |-> labs, ngs |-> ngs, ggs |-> 0, nd |-> 0, gd |-> 0, meta |-> meta, fw |-> fw]
G(labs, ggs, meta)         == [kind |-> "g", labs |-> labs, ngs |-> 0, ggs |-> ggs, nd |-> 0, gd |-> 0, meta |-> meta, fw |-> FALSE]
P(labs, ngs, ggs, dose, meta) == [kind |-> "p", labs |-> labs, ngs |-> ngs, ggs |-> ggs, nd |-> dose, gd |-> dose, meta |-> meta, fw |-> FALSE]

\* labels: 1 = U235AA, 2 = U235NA, 3 = NA23AA (4 = PU39NA, 5 = FE56AA in the larger instances); fissile: 1, 2, 4
\* group-structure ids: 1 and 2 have the same number of groups and different energies, 3 has one more group
ListQuick == <<
    N({1, 3}, 1, 1, FALSE),      \* plain neutron library
    N({2, 3}, 1, 1, TRUE),       \* file-wide chi; shares label 3 with the first (a new label precedes the overlap)
    N({2}, 2, 1, FALSE),         \* same number of groups, other energies
    G({1, 2}, 1, 1),
    P({1, 2}, 1, 1, 1, 1),       \* with dose factors
    P({2, 3}, 1, 2, 0, 1),       \* other gamma structure, no dose factors
    P({3}, 1, 1, 0, 1),          \* no dose factors: its file metadata disagree with those of a PMATRX that has them
    N({2}, 1, 2, FALSE)          \* other file-metadata variant
>>
ListMore == <<
    G({3}, 2, 1),                \* other gamma structure
    P({2, 3}, 1, 1, 2, 2),       \* other dose factors, other metadata variant
    N({1}, 3, 1, FALSE),         \* one more group
    G({1, 3}, 1, 2),
    P({3}, 3, 1, 0, 1),
    N({1, 2}, 1, 1, TRUE)
>>
ListThorough == ListQuick \o ListMore
\* every well-formed descriptor over 2 labels, 2 structures per radiation, <= 1 dose id, 1 metadata variant (exhaustive only)
SubsetsNE == SUBSET (1..NLab) \ {{}}
AllDescs == {N(l, s, 1, f) : l \in SubsetsNE, s \in 1..2, f \in BOOLEAN}
       \cup {G(l, s, 1) : l \in SubsetsNE, s \in 1..2}
       \cup {P(l, s, t, d, 1) : l \in SubsetsNE, s \in 1..2, t \in 1..2, d \in 0..1}
ListAll == SetToSeq(AllDescs)

\* labels: 1 U235AA  2 U235NA  3 NA23AA  (4 PU39NA  5 FE56AA): the id NA is a substring of the label NA23AA of the id AA
IdOf3 == <<1, 2, 1>>
IdOf2 == <<1, 2>>
Bound == TLCGet("level") <= MaxLevel
View  == vars
Emit  == PrintT(ToJson([lvl |-> TLCGet("level"), from |-> Vars, act |-> act', to |-> Vars', err |-> err', asb |-> AsBuiltOf(act', err')]))
EmitState == PrintT(ToJson([st |-> Vars, obs |-> Obs]))
=====================================================================================================
