\* trace validation: 5 sources over 5 labels per trace (the descriptors travel with the trace)
CONSTANTS NSrc = 5  NLab = 5  Fissile = {1, 2, 4}  MaxLevel = 999  SrcList = {}
CONSTANT IdOf <- IdOf5
SPECIFICATION TSpec
CONSTRAINT Progress
POSTCONDITION Report
INVARIANT TypeOK
INVARIANT MergedIsUnion
INVARIANT LabelsAreUnion
INVARIANT VelocityKept
INVARIANT NoSilentCombine
INVARIANT SourcesPartitioned
CHECK_DEADLOCK FALSE
