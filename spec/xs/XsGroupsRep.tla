------------------------------------------ MODULE XsGroupsRep ------------------------------------------
(* C20: one block collection (= the members of one cross-section group) and its representative block.
   Definitions of the averages: XsGroupsAvg.tla (read its header first).

   State   fam       the family of the case: which block domain the members are drawn from and which options are
                     exercised (chosen once in Init; lets one TLC run cover several value domains)
           members   the collection, a sequence of block records (order = order of insertion, which the code uses for
                     "first candidate" and, through the names, for ties of the median)
           last      the last createRepresentativeBlock call: option and result (observation only, hidden by the VIEW)
   Actions AddMember(b)               BlockCollection.append(b)            (list.append)
           CreateRepresentative(o)    blockCollectionFactory(o) filled with the members; createRepresentativeBlock()
                                      outcome "ok" (a new block), "refused" (ValueError, mixed zero/non-zero flux) or
                                      "none" (no candidate: not called);  in every case  members' = members:
                                      "Creating representatives never changes the blocks"  (CreateLeavesMembers).
   Every explored CreateRepresentative edge is one case that the harness executes on real blocks; the laws below are
   the clauses of the statement, checked by TLC on every reachable collection and every option in Opts.
*)
EXTENDS XsGroupsAvg

CONSTANTS Families,        \* names of the families
          DomOf(_),        \* family -> set of block records a member is drawn from
          MaxOf(_),        \* family -> largest collection
          OptsOf(_)        \* family -> set of options [rep, filter, byComp]

VARIABLES fam, members, last
vars == <<fam, members, last>>
BlockDomain == DomOf(fam)
MaxMembers  == MaxOf(fam)
Opts        == OptsOf(fam)
NoLast == [opt |-> Opt("none", "all", FALSE), rep |-> NoRep("none")]

Init == fam \in Families /\ members = <<>> /\ last = NoLast
AddMember(b) == /\ Len(members) < MaxMembers
                /\ members' = Append(members, b)
                /\ last' = NoLast
                /\ UNCHANGED fam
CreateRepresentative(o) == /\ Len(members) > 0
                           /\ last' = [opt |-> o, rep |-> RepOf(members, o)]
                           /\ members' = members
                           /\ UNCHANGED fam
AddAny    == \E b \in BlockDomain : AddMember(b)
CreateAny == \E o \in Opts : CreateRepresentative(o)
Next == AddAny \/ CreateAny
Spec == Init /\ [][Next]_vars

TypeOK == /\ members \in Seq(BlockDomain)
          /\ Len(members) <= MaxMembers
CreateLeavesMembers == [][last' # NoLast => members' = members]_vars

(* ---------- helpers for the laws ---------- *)
RMinOf(S) == CHOOSE x \in S : \A y \in S : RLeq(x, y)
RMaxOf(S) == CHOOSE x \in S : \A y \in S : RLeq(y, x)
Between(x, S) == RLeq(RMinOf(S), x) /\ RLeq(x, RMaxOf(S))
Values(R) == RepValues(R)
Twice(ms)     == ms \o ms
ScaleW(ms, f) == [i \in Idx(ms) |-> [ms[i] EXCEPT !.w = @ * f]]
ScaleH(ms, f) == [i \in Idx(ms) |-> [ms[i] EXCEPT !.h = @ * f]]
CandOf(o)     == Cand(members, o.filter)
\* temperatures that contribute to the temperature of nuclide k (see header: atoms, else holders, else nothing)
TempSources(cs, k) ==
    LET withAtoms == {<<i, c>> \in Idx(cs) \X Comps : cs[i].n[c][k] > 0}
        holders   == {<<i, c>> \in Idx(cs) \X Comps : Held(cs[i], c, k)}
        src       == IF withAtoms # {} THEN withAtoms ELSE holders
    IN IF src = {} THEN {RZero} ELSE {RInt(cs[p[1]].t[p[2]]) : p \in src}
BurnSources(cs, rep) ==
    LET hv == {i \in Idx(cs) : cs[i].hm > 0}
    IN IF hv = {} THEN {RZero} ELSE {RInt(cs[i].bu) : i \in hv}

(* ---------- the clauses of the statement, for every option ---------- *)
\* "built only from the group's eligible members": dropping the ineligible members changes nothing
EligibleOnly ==
    \A o \in Opts : Values(RepOf(members, o)) = Values(RepOf(CandOf(o), [o EXCEPT !.filter = "all"]))
\* "the weight-normalised mean ... hence between their minimum and maximum"
BetweenMinMax ==
    \A o \in Opts :
        LET R == RepOf(members, o)  cs == CandOf(o)
        IN R.out = "ok" =>
            /\ \A k \in Nucs : Between(R.dens[k], {BlockDens(cs[i], k) : i \in Idx(cs)})
            /\ R.ntemp # <<>> => \A k \in Nucs : Between(R.ntemp[k], IF o.rep = "Median" THEN TempSources(<<members[R.src]>>, k) ELSE TempSources(cs, k))
            /\ R.mode # "block" => \A c \in Comps : \A k \in Nucs : Between(R.cdens[c][k], {RInt(cs[i].n[c][k]) : i \in Idx(cs)})
            /\ R.ctemp # <<>> => \A c \in Comps : Between(R.ctemp[c], {RInt(cs[i].t[c]) : i \in Idx(cs)})
            /\ (R.lfp <=> members[R.src].lfp)
            /\ Between(R.bu, IF o.rep = "Median" THEN {RInt(cs[i].bu) : i \in Idx(cs)} ELSE BurnSources(cs, o.rep))
\* "equal to the common value when members agree"
CommonValue ==
    \A o \in Opts :
        LET R == RepOf(members, o)  cs == CandOf(o)
        IN R.out = "ok" =>
            /\ \A k \in Nucs : (\A i \in Idx(cs) : BlockDens(cs[i], k) = BlockDens(cs[1], k)) => R.dens[k] = BlockDens(cs[1], k)
            /\ R.mode # "block" => \A c \in Comps : \A k \in Nucs :
                   (\A i \in Idx(cs) : cs[i].n[c][k] = cs[1].n[c][k]) => R.cdens[c][k] = RInt(cs[1].n[c][k])
            /\ R.ctemp # <<>> => \A c \in Comps : (\A i \in Idx(cs) : cs[i].t[c] = cs[1].t[c]) => R.ctemp[c] = RInt(cs[1].t[c])
            /\ R.ntemp # <<>> => \A k \in Nucs :
                   LET src == IF o.rep = "Median" THEN TempSources(<<members[R.src]>>, k) ELSE TempSources(cs, k)
                   IN Cardinality(src) = 1 => R.ntemp[k] \in src
            /\ (\A i \in Idx(cs) : cs[i].bu = cs[1].bu) /\ (o.rep = "Median" \/ \E i \in Idx(cs) : cs[i].hm > 0) => R.bu = RInt(cs[1].bu)
\* "unchanged by duplicating every member"
\* (for the median option ties between different members are broken by name, so only the median weighted burnup
\*  itself is invariant, not which of the tied members is copied)
DuplicationInvariant ==
    \A o \in Opts :
        LET R == RepOf(members, o)  R2 == RepOf(Twice(members), o)
        IN IF o.rep = "Median" /\ R.out = "ok"
           THEN R2.out = "ok" /\ MedKey(Twice(members)[R2.src]) = MedKey(members[R.src])
           ELSE IF o.rep = "ComponentAverage1DCylinder" /\ R.out = "ok"       \* averages invariant; the copied candidate only up to ties
           THEN /\ [Values(R2) EXCEPT !.ctemp = <<>>, !.lfp = FALSE] = [Values(R) EXCEPT !.ctemp = <<>>, !.lfp = FALSE]
                /\ AvgTempNum(Twice(members)[R2.src]) = AvgTempNum(members[R.src])
           ELSE Values(R2) = Values(R)
\* "or rescaling all weights": all flux values doubled; all volumes tripled
RescalingInvariant ==
    \A o \in Opts : /\ Values(RepOf(ScaleW(members, 2), o)) = Values(RepOf(members, o))
                    /\ Values(RepOf(ScaleH(members, 3), o)) = Values(RepOf(members, o))
                    /\ RepOf(ScaleH(members, 3), o).src = RepOf(members, o).src
\* weight = weighting parameter x volume: doubling one member's flux or its volume is the same thing for densities
WeightIsFluxTimesVolume ==
    \A o \in Opts :
        LET cs == CandOf(o)
        IN (o.rep = "FluxWeightedAverage" /\ Len(cs) > 0 /\ \A i \in Idx(cs) : cs[i].w > 0) =>
            \A i \in Idx(cs) : \A k \in Nucs :
                AvgDens([cs EXCEPT ![i].w = @ * 2], o.rep, k) = AvgDens([cs EXCEPT ![i].h = @ * 2], o.rep, k)
\* by-component and block-level averaging agree on the homogenised densities: in every mode the component densities of
\* the new block homogenise to the weight-normalised mean of the members' homogenised densities
ByComponentAgreesWithBlockLevel ==
    \A o \in Opts :
        LET R == RepOf(members, o)
        IN R.out = "ok" =>
            \A k \in Nucs : R.dens[k] = RSumSeq([c \in Comps |-> RMul(RFrac(CompArea[c], Area), R.cdens[c][k])])
\* "the averaged burnup is the heavy-metal-weighted mean": it does not see volumes
BurnupIgnoresVolume ==
    \A o \in Opts :
        LET cs == CandOf(o)
        IN (o.rep # "Median" /\ Len(cs) > 0) =>
            \A i \in Idx(cs) : /\ Burnup([cs EXCEPT ![i].h = @ * 2], o.rep) = Burnup(cs, o.rep)
                               /\ Burnup([cs EXCEPT ![i].sym = 3], o.rep) = Burnup(cs, o.rep)
\* "with the median option it is a copy of an actual member holding the median weighted burnup"
MedianIsEligibleMember ==
    \A o \in Opts :
        LET R == RepOf(members, o)
        IN (o.rep = "Median" /\ R.out = "ok") => R.src \in Idx(members) /\ Elig(members[R.src], o.filter)
MedianIsMiddle ==
    \A o \in Opts :
        LET R == RepOf(members, o)  cs == CandOf(o)
        IN (o.rep = "Median" /\ R.out = "ok") =>
            LET key == MedKey(members[R.src])
            IN /\ 2 * Cardinality({i \in Idx(cs) : MedKey(cs[i]) < key}) <= Len(cs)
               /\ 2 * Cardinality({i \in Idx(cs) : MedKey(cs[i]) > key}) <= Len(cs)
\* the 1-D cylinder option copies an eligible member with the median block-average temperature
CylinderSourceIsMiddle ==
    \A o \in Opts :
        LET R == RepOf(members, o)  cs == CandOf(o)
        IN (o.rep = "ComponentAverage1DCylinder" /\ R.out = "ok") =>
            LET key == AvgTempNum(members[R.src])
            IN /\ Elig(members[R.src], o.filter)
               /\ 2 * Cardinality({i \in Idx(cs) : AvgTempNum(cs[i]) < key}) <= Len(cs)
               /\ 2 * Cardinality({i \in Idx(cs) : AvgTempNum(cs[i]) > key}) <= Len(cs)
\* the order in which a block stores its components is irrelevant
StorageOrderIrrelevant ==
    \A o \in Opts : Values(RepOf([i \in Idx(members) |-> [members[i] EXCEPT !.ord = <<>>]], o)) = Values(RepOf(members, o))
\* the temperatures a collection reports without making a block are those of its representative
TemperaturesAgree ==
    \A o \in Opts :
        LET R == RepOf(members, o)
        IN (R.out = "ok" /\ R.ntemp # <<>>) => NucTempsOf(members, o) = R.ntemp
\* refusals and "no candidate" are decided by the candidates alone
OutcomeRule ==
    \A o \in Opts :
        LET R == RepOf(members, o)  cs == CandOf(o)
        IN /\ (R.out = "none") = (Len(cs) = 0)
           /\ (R.out = "refused") = (o.rep = "FluxWeightedAverage" /\ {cs[i].w = 0 : i \in Idx(cs)} = {TRUE, FALSE})
=====================================================================================================
