\* spec -> code: every edge printed and executed on real files and libraries
CONSTANTS NSrc = 7  NLab = 8  Fissile = {1, 2, 4}  MaxLevel = 4  SrcList = {}
CONSTANT DirScen <- ScenQuick
ACTION_CONSTRAINT Emit
CONSTANT IdOf <- IdOf8
INIT DInit
NEXT DNext
CONSTRAINT Bound
VIEW View
CHECK_DEADLOCK FALSE
