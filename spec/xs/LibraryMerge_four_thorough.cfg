\* exhaustive only: four sources out of the quick list (210 scenarios), every merge order
CONSTANTS NSrc = 4  NLab = 3  Fissile = {1, 2}  MaxLevel = 8
CONSTANT SrcList <- ListQuick
CONSTANT IdOf <- IdOf3
INIT Init
NEXT Next
CONSTRAINT Bound
VIEW View
INVARIANT TypeOK
INVARIANT MergedIsUnion
INVARIANT LabelsAreUnion
INVARIANT VelocityKept
INVARIANT NoSilentCombine
INVARIANT SourcesPartitioned
PROPERTY RefusalsChangeNothing
PROPERTY RefusalJustified
CHECK_DEADLOCK FALSE
