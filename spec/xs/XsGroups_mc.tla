------------------------------------------ MODULE XsGroups_mc ------------------------------------------
EXTENDS XsGroups
(* Generated blocks as in XsGroupsRep_mc: two components (areas 2 and 3), component 1 holds nuclides 1, 2, component 2
   holds 2, 3; nuclide 2 ("U238") is the temperature isotope.  A scenario is
     xs       type label of each block (alphabet indices; all of length 1 or all of length 2)
     fixed    per block: kind, alt, h, hm, n, t2 (temperature of component 2)
     choices  per block: set of <<bu, t1, w>> the initial state picks from
     bub, tb  burnup / temperature group upper bounds (settings buGroups / tempGroups)
     grep, gfilter  global xsBlockRepresentation and block-type filter ("fuel": disableBlockTypeExclusionInXsGeneration
              False, "all": True);   ctl  per-key settings (crossSectionControl)
     burn, heat, flux  the <<block, value>> moves of the environment actions                                     *)
McCompArea == <<2, 3>>
McHolds    == <<{1, 2}, {2, 3}>>
McAW       == <<2, 3, 5, 7>>
A == <<1>>  B == <<2>>  C == <<3>>
Fx(kd, h, hm, n11, n12, n22, n23, t2) == [kind |-> kd, alt |-> FALSE, h |-> h, hm |-> hm, n |-> <<<<n11, n12, 0, 0>>, <<0, n22, n23, 0>>>>, t2 |-> t2]
Ctl(p, q, r, f, c) == [id |-> <<p, q>>, opt |-> Opt(r, f, c), iso |-> 2]
CtlIso(p, q, r, f, c, i) == [id |-> <<p, q>>, opt |-> Opt(r, f, c), iso |-> i]        \* i = 0: xsTempIsotope "" (no temperature grouping)

BaseActs == {"Disable", "Enable", "Make", "Create"}
\* burnup groups: boundaries 3 and 10 hit exactly, from below and from above; two types
ScnBu == [xs |-> <<A, A, B>>,
          fixed |-> <<Fx("fuel", 1, 1, 1, 1, 1, 2, 400), Fx("fuel", 2, 2, 2, 1, 0, 1, 400), Fx("fuel", 1, 1, 0, 2, 1, 1, 400)>>,
          choices |-> <<{<<b, 600, 1>> : b \in {0, 3, 4, 10, 11}}, {<<b, 500, 1>> : b \in {0, 4}}, {<<4, 700, 1>>}>>,
          bub |-> <<3, 10>>, tb |-> <<>>, grep |-> "Average", gfilter |-> "fuel", ctl |-> {},
          burn |-> {<<1, 4>>, <<1, 11>>, <<2, 11>>}, heat |-> {}, flux |-> {}, lists |-> {}, deeper |-> 0, acts |-> BaseActs]
\* temperature groups (bounds 450 and 600, never hit exactly) times two burnup groups
ScnTemp == [xs |-> <<A, A, A>>,
            fixed |-> <<Fx("fuel", 1, 1, 1, 1, 0, 1, 400), Fx("fuel", 2, 1, 1, 1, 1, 1, 400), Fx("reflector", 1, 0, 0, 1, 1, 1, 500)>>,
            choices |-> <<{<<b, t, 1>> : b \in {0, 4}, t \in {400, 500, 700}}, {<<0, t, 1>> : t \in {400, 800}}, {<<0, 500, 1>>}>>,
            bub |-> <<3>>, tb |-> <<450, 600>>, grep |-> "Average", gfilter |-> "fuel", ctl |-> {},
            burn |-> {<<2, 4>>}, heat |-> {<<1, 700>>, <<2, 400>>, <<3, 300>>}, flux |-> {}, lists |-> {}, deeper |-> 0, acts |-> BaseActs \cup {"UpdCore", "UpdGrp"}]
\* groups without an eligible member: re-labelled to a represented group of their type, or left alone
ScnUnrep == [xs |-> <<A, A, A, B>>,
             fixed |-> <<Fx("fuel", 1, 1, 1, 1, 1, 2, 400), Fx("reflector", 2, 1, 2, 1, 0, 1, 400), Fx("reflector", 1, 2, 0, 2, 1, 1, 400), Fx("reflector", 1, 0, 1, 1, 1, 1, 400)>>,
             choices |-> <<{<<b, 600, 1>> : b \in {0, 4}}, {<<b, 500, 1>> : b \in {0, 4, 11}}, {<<11, 500, 1>>}, {<<0, 500, 1>>}>>,
             bub |-> <<3, 10>>, tb |-> <<>>, grep |-> "Average", gfilter |-> "fuel", ctl |-> {},
             burn |-> {<<1, 11>>, <<2, 11>>}, heat |-> {}, flux |-> {}, lists |-> {}, deeper |-> 0, acts |-> BaseActs]
\* per-key settings and their inheritance (AA -> AB; BB does not reach BA), flux weighting with a refusal, by component
ScnCtl == [xs |-> <<A, A, B, B>>,
           fixed |-> <<Fx("fuel", 1, 1, 1, 1, 1, 2, 400), Fx("reflector", 2, 2, 2, 1, 0, 1, 500), Fx("fuel", 1, 1, 0, 2, 1, 1, 400), Fx("fuel", 2, 2, 2, 1, 1, 2, 600)>>,
           choices |-> <<{<<b, 600, 1>> : b \in {0, 4}}, {<<b, 500, 1>> : b \in {0, 4}}, {<<b, 700, w>> : b \in {0, 4}, w \in {0, 2}}, {<<4, 800, 2>>}>>,
           bub |-> <<3>>, tb |-> <<>>, grep |-> "Average", gfilter |-> "fuel",
           ctl |-> {Ctl(1, 1, "Median", "all", FALSE), Ctl(2, 2, "FluxWeightedAverage", "fuel", TRUE)},
           burn |-> {<<3, 4>>}, heat |-> {}, flux |-> {<<3, 0>>, <<3, 2>>, <<4, 0>>}, lists |-> {}, deeper |-> 0, acts |-> BaseActs]
\* every block type is eligible (disableBlockTypeExclusionInXsGeneration), median representation
ScnAll == [xs |-> <<A, A, A>>,
           fixed |-> <<Fx("fuel", 1, 1, 1, 1, 1, 2, 400), Fx("reflector", 2, 1, 2, 1, 0, 1, 400), Fx("control", 1, 2, 0, 2, 1, 1, 400)>>,
           choices |-> <<{<<b, 600, 1>> : b \in {0, 2}}, {<<b, 500, 1>> : b \in {0, 1, 4}}, {<<b, 500, 1>> : b \in {1, 3}}>>,
           bub |-> <<3>>, tb |-> <<>>, grep |-> "Median", gfilter |-> "all", ctl |-> {},
           burn |-> {<<1, 4>>}, heat |-> {}, flux |-> {}, lists |-> {}, deeper |-> 0, acts |-> {"Make", "Create"}]
\* two-letter types, a single environment group; type "AB" has no eligible block
ScnTwo == [xs |-> <<<<1, 2>>, <<1, 3>>, <<1, 3>>>>,
           fixed |-> <<Fx("reflector", 1, 1, 1, 1, 1, 2, 400), Fx("fuel", 2, 2, 2, 1, 0, 1, 400), Fx("fuel", 1, 1, 0, 2, 1, 1, 400)>>,
           choices |-> <<{<<0, 600, 1>>}, {<<b, 500, 1>> : b \in {0, 4}}, {<<4, 700, 1>>}>>,
           bub |-> <<>>, tb |-> <<>>, grep |-> "Average", gfilter |-> "fuel", ctl |-> {},
           burn |-> {<<2, 11>>}, heat |-> {}, flux |-> {}, lists |-> {}, deeper |-> 0, acts |-> BaseActs]

\* temperature groups with a type (B) whose settings name no temperature isotope, listed after hot and cold blocks of type A;
\* type C inherits "no isotope" from the settings of CB only above group B; a 1-D cylinder type (D) with an ineligible block first
ScnIso == [xs |-> <<A, B, A, B, C, <<4>>, <<4>>, <<4>>>>,
           fixed |-> <<Fx("fuel", 1, 1, 1, 1, 0, 1, 400), Fx("fuel", 2, 1, 2, 1, 0, 1, 400), Fx("fuel", 1, 1, 1, 1, 0, 1, 400), Fx("fuel", 2, 1, 2, 1, 0, 1, 400),
                       Fx("fuel", 1, 1, 1, 1, 0, 1, 400), Fx("reflector", 3, 1, 2, 1, 0, 1, 400), Fx("fuel", 1, 1, 0, 1, 1, 2, 300), Fx("fuel", 1, 2, 2, 1, 1, 1, 520)>>,
           choices |-> <<{<<0, t, 1>> : t \in {400, 700}}, {<<0, 700, 1>>}, {<<0, 300, 1>>}, {<<0, 700, 1>>},
                         {<<0, 700, 1>>}, {<<0, 700, 1>>}, {<<2, 400, 1>>}, {<<4, 700, 1>>}>>,
           bub |-> <<3>>, tb |-> <<450, 600>>, grep |-> "Average", gfilter |-> "fuel",
           ctl |-> {CtlIso(2, 1, "Average", "fuel", FALSE, 0), CtlIso(3, 2, "Median", "fuel", FALSE, 0), CtlIso(4, 1, "ComponentAverage1DCylinder", "fuel", FALSE, 0)},
           burn |-> {<<5, 4>>}, heat |-> {<<1, 700>>, <<1, 300>>}, flux |-> {}, lists |-> {}, deeper |-> 0, acts |-> {"Make", "Create"}]

\* the temperature-coefficient workflow: representatives, then createRepresentativeBlocksUsingExistingBlocks on lists that span two
\* types and contain an ineligible block (a hot reflector of type A), the new collections filled and passed to
\* updateNuclideTemperatures again and again while the fuel is heated; type B uses the median option through its settings
ScnExist == [xs |-> <<A, A, B, B, A>>,
             fixed |-> <<Fx("fuel", 1, 1, 1, 1, 1, 2, 400), Fx("reflector", 2, 1, 2, 1, 1, 1, 400), Fx("fuel", 1, 1, 0, 2, 1, 1, 400), Fx("fuel", 2, 2, 2, 1, 1, 2, 500),
                         Fx("fuel", 3, 1, 2, 1, 0, 1, 300)>>,
             choices |-> <<{<<0, 600, 1>>}, {<<0, 900, 1>>}, {<<0, 700, 1>>}, {<<5, 800, 1>>}, {<<0, 500, 1>>}>>,
             bub |-> <<3>>, tb |-> <<>>, grep |-> "Average", gfilter |-> "fuel", ctl |-> {Ctl(2, 1, "Median", "fuel", FALSE)},
             burn |-> {}, heat |-> {<<1, 900>>, <<3, 1000>>}, flux |-> {},
             lists |-> {<<1, 2, 3>>, <<3, 4, 5>>}, deeper |-> 2, acts |-> {"Create", "UpdGrp", "UpdNew"}]

McScenarios == {"bu", "temp", "unrep", "ctl", "all", "two", "iso", "exist"}
McScnOf(s) == CASE s = "bu" -> ScnBu [] s = "temp" -> ScnTemp [] s = "unrep" -> ScnUnrep [] s = "ctl" -> ScnCtl [] s = "all" -> ScnAll [] s = "two" -> ScnTwo [] s = "iso" -> ScnIso [] s = "exist" -> ScnExist

Bound == TLCGet("level") <= MaxLevel + S.deeper        \* the workflow scenario needs longer behaviours (and has few actions)
View  == <<scn, blk, env, enabled, ctl, reps, temps, unrep, grp, genv, ret, colls, err>>
\* one JSON line per explored edge: the behaviour that ends with it and the observation after it
Emit  == PrintT(ToJson([scn |-> scn, path |-> hist', obs |-> Obs']))
\* the scenario itself, once per initial state (the adapter builds the core and the settings from it)
EmitScn == TLCGet("level") = 1 =>
    PrintT(ToJson([scenario |-> scn, xs |-> [i \in 1..N |-> IF Two THEN IdText(S.xs[i]) ELSE Alphabet[S.xs[i][1]]], blk |-> blk,
                   bub |-> S.bub, tb |-> S.tb, grep |-> S.grep, gfilter |-> S.gfilter,
                   ctl |-> SetToSeq({[id |-> IdText(c.id), opt |-> c.opt, iso |-> c.iso] : c \in S.ctl})]))
=====================================================================================================
